import Verif.Base.Sexp
import Verif.Model.KeyToLabel
/-! Line-protocol driver: one request per line on stdin, one reply per line on stdout.
Core-only (no Mathlib), compiled as `lean_exe driver`. -/
open Sexp

def handle (req : Sexp) : Sexp :=
  match req.head?, req.args with
  | some "keytolabel", [k] => ofBytes (KeyToLabel.run k.toBytes)
  | some "validlabel", [d, k] => ofNat (if KeyToLabel.isValidLabel (d.toNat == 1) k.toBytes then 1 else 0)
  | _, _ => .list [sym "bad-op"]

partial def loop (h : IO.FS.Stream) (out : IO.FS.Stream) : IO Unit := do
  let line ← h.getLine
  if line.isEmpty then return ()
  out.putStrLn (toString (handle (Sexp.parse line)))
  out.flush
  loop h out

def main : IO Unit := do
  loop (← IO.getStdin) (← IO.getStdout)
