import Verif.Base.Sexp
import Verif.Model.KeyToLabel
import Verif.Model.Rfc3339
import Verif.Model.Frames
import Verif.Model.Docker
import Verif.Model.Merge
import Verif.Model.Resources
import Verif.Driver.Codec
import Verif.Driver.ExecEnv
import Verif.Driver.LogQLCodec
import Verif.Driver.MetricCodec
import Verif.Driver.SyntaxCodec
import Verif.Model.Unparse
import Verif.Model.Layout
import Verif.Model.HeapMerge
import Verif.Gen.Offload
import Verif.Gen.Prec
import Verif.Gen.Palette
import Verif.Model.Render
import Verif.Model.Flags
import Verif.Model.BinOpParser
/-! Line-protocol driver: one request per line on stdin, one reply per line on stdout.
Core-only (no Mathlib), compiled as `lean_exe driver`. -/
open Sexp

def endSym : Frames.End → Sexp
  | .clean => sym "clean" | .errBody => sym "errbody" | .errDaemon => sym "errdaemon"
  | .errNoSpace => sym "errnospace" | .errTs => sym "errts"

def framesOut (r : List Frames.Rec × Frames.End) : Sexp :=
  .list [.list (r.1.map fun x => .list [sym "rec", ofInt x.ts, ofBytes x.body]), endSym r.2]

def decodeContainer (s : Sexp) : Docker.Container :=
  match s.args with
  | [id, names, image, imageId, cmd, created, state, status, labels] =>
    { id := id.toBytes, names := names.items.map toBytes, image := image.toBytes, imageId := imageId.toBytes,
      command := cmd.toBytes, created := created.toBytes, state := state.toBytes, status := status.toBytes,
      labels := Codec.decodePairs labels }
  | _ => { id := [], names := [], image := [], imageId := [], command := [], created := [], state := [], status := [], labels := [] }

def decodeOp (s : Sexp) : Docker.Op :=
  match s.symOf with
  | "eq" => .eq | "ne" => .ne | "re" => .re | _ => .nre

def decodeMatcher (s : Sexp) : Docker.Matcher :=
  match s.args with
  | [l, op, v] => ⟨l.toBytes, decodeOp op, v.toBytes, .eps⟩
  | [l, op, v, re] => ⟨l.toBytes, decodeOp op, v.toBytes, Codec.decodeRe re⟩
  | _ => ⟨[], .eq, [], .eps⟩

def decodeSel (s : Sexp) : Resources.Sel :=
  match s.args with
  | [stage, lst, ctrs] =>
    { stageOk := stage.toNat == 1, listFails := lst.toNat == 1,
      ctrs := ctrs.items.map fun c => match c.symOf with
        | "open" => .openFail | "stream" => .streamFault | _ => .ok }
  | _ => { stageOk := true, listFails := false, ctrs := [] }

instance : Inhabited Resources.Q := ⟨.vector⟩

partial def decodeQ (s : Sexp) : Resources.Q :=
  match s.head?, s.args with
  | some "log", [sel] => .log (decodeSel sel)
  | some "range", [sel, ok] => .range (decodeSel sel) (ok.toNat == 1)
  | some "vecagg", [ok, q] => .vecAgg (ok.toNat == 1) (decodeQ q)
  | some "binop", [ok, l, r] => .binop (ok.toNat == 1) (decodeQ l) (decodeQ r)
  | some "litop", [q] => .litOp (decodeQ q)
  | _, _ => .vector

def ridsOut (rs : List Resources.Rid) : Sexp :=
  let sorted := rs.foldl (fun acc r =>
    let rec ins : List Resources.Rid → List Resources.Rid
      | [] => [r]
      | x :: xs => if r.1 < x.1 || (r.1 == x.1 && r.2 < x.2) then r :: x :: xs
                   else if r == x then x :: xs else x :: ins xs
    ins acc) []
  .list (sorted.map fun r => .atom s!"{r.1}-{r.2}")

def binToks (s : Sexp) : List BinOpParser.Tok :=
  s.items.map fun t => match t.symOf with
    | "lp" => .lparen
    | "rp" => .rparen
    | a => match a.toNat? with
      | some n => .num n
      | none => .op (MetricCodec.binOp a)

def binOpName : Metric.BinOp → String
  | .or => "or" | .and => "and" | .unless => "unless" | .add => "add" | .sub => "sub" | .mul => "mul"
  | .div => "div" | .mod => "mod" | .pow => "pow" | .eq => "eq" | .ne => "ne" | .gt => "gt" | .ge => "ge"
  | .lt => "lt" | .le => "le"

partial def treeOut : BinOpParser.Tree → Sexp
  | .leaf n => .list [sym "leaf", ofNat n]
  | .paren t => .list [sym "paren", treeOut t]
  | .node l op r => .list [sym "node", treeOut l, sym (binOpName op), treeOut r]

def treeRes (t : Option BinOpParser.Tree) : Sexp :=
  match t with
  | some t => .list [sym "ok", treeOut t]
  | none => .list [sym "err"]

def handle (req : Sexp) : Sexp :=
  match req.head?, req.args with
  | some "noop", _ => sym "ok"
  | some "keytolabel", [k] => ofBytes (KeyToLabel.run k.toBytes)
  | some "validlabel", [d, k] => ofNat (if KeyToLabel.isValidLabel (d.toNat == 1) k.toBytes then 1 else 0)
  | some "rfc3339", [t] => match Rfc3339.parse t.toBytes with
    | some ns => .list [sym "ok", ofInt ns]
    | none => .list [sym "err"]
  | some "frames", [bs] => framesOut (Frames.decodeAll Rfc3339.parse bs.toBytes)
  | some "frameschunks", [cs] =>
    let chunks := cs.items.map toBytes
    framesOut (Frames.decodeChunks Rfc3339.parse (chunks.flatten.length + 1) chunks)
  | some "select", [inst, inv, sel, st, en] =>
    let cs := Docker.select Regex.fullMatch (inv.items.map decodeContainer) (sel.items.map decodeMatcher)
    let w := Docker.logsWindow (inst.toNat == 1) st.toInt en.toInt
    .list [.list (cs.map fun c => .list [ofBytes c.id, Codec.labelsOut (Docker.getLabels c)]), ofInt w.since, ofInt w.until_]
  | some "isrun", [srcs, out] =>
    let srcs' : List (List Merge.Rec) := (srcs.items.zipIdx).map fun (s, i) =>
      (s.items.zipIdx).map fun (t, j) => ⟨t.toNat, i, j⟩
    let out' : List Merge.Rec := out.items.map fun r => match r.items with
      | [t, s, j] => ⟨t.toNat, s.toNat, j.toNat⟩
      | _ => ⟨0, 0, 0⟩
    if Merge.isRun srcs' out' then sym "ok" else .list [sym "bad"]
  | some "heapmerge", [srcs] =>
    let srcs' : List (List Merge.Rec) := (srcs.items.zipIdx).map fun (s, i) =>
      (s.items.zipIdx).map fun (t, j) => ⟨t.toNat, i, j⟩
    .list ((HeapMerge.merge srcs').map fun r => .list [ofNat r.ts, ofNat r.src, ofNat r.idx])
  | some "resources", [q] =>
    let r := Resources.eval (decodeQ q) Resources.init
    let cls := match r.1 with
      | none => "ok" | some .build => "build" | some .list => "list" | some .open => "open" | some .stream => "stream"
    .list [sym cls, ridsOut r.2.opened, ridsOut r.2.closed]
  | some "logeval", [cp, q, recs, lim] =>
    match q.args with
    | [sel, stages] =>
      let st := stages.items.map LogQLCodec.stage
      if !(st.all (·.2)) then .list [sym "err", sym "build"] else
      let query : LogQL.LogQuery := ⟨sel.items.map LogQLCodec.matcher, st.map (·.1)⟩
      -- the specification value: nothing offloaded (capability independence is C01's theorem and is
      -- checked against the implementation by running it under every capability configuration)
      let _ := cp
      match LogQL.specEntries ExecEnv.env query (recs.items.map LogQLCodec.recOf) lim.toInt with
      | .ok es => LogQLCodec.streamsOut (LogQL.group es)
      | .error _ => .list [sym "err", sym "build"]
    | _ => .list [sym "bad-op"]
  | some "metriceval", [e, recs, st, en, step] =>
    let ex := MetricCodec.expr e
    if !ex.2 then .list [sym "err", sym "build"] else
    let p : Metric.Params := ⟨st.toInt, en.toInt, step.toInt⟩
    let instant := p.start == p.end_ && p.step == 0
    match Metric.eval ExecEnv.env (recs.items.map LogQLCodec.recOf) p ex.1 with
    | .error .build => .list [sym "err", sym "build"]
    | .error .unsupported => .list [sym "err", sym "unsupported"]
    | .ok steps =>
      .list (sym "ok" :: sym (if instant then "vector" else "matrix") ::
        (Metric.readSteps instant steps).map MetricCodec.seriesOut)
  | some "binparse", [toks] => treeRes (BinOpParser.parseExpr Gen.prec (binToks toks))
  | some "binspec", [mode, toks] =>
    treeRes (BinOpParser.specExpr Gen.prec (if mode.symOf == "conv" then BinOpParser.conventional else BinOpParser.allRight) (binToks toks))
  | some "renderout", [ts, ct, col, streams] =>
    let ss : List Render.Stream := streams.items.map fun st => match st.items with
      | [c, es] => ⟨c.toBytes, es.items.map fun e => match e.items with
          | [t, v] => (t.toNat, v.toBytes)
          | _ => (0, [])⟩
      | _ => ⟨[], []⟩
    (match Render.render Gen.paletteIndex Gen.paletteLen ⟨ts.toNat == 1, ct.toNat == 1, col.toNat == 1⟩ ss with
     | some out => .list [sym "ok", ofBytes out]
     | none => .list [sym "panic"])
  | some "timestamp", [v, d] =>
    (match Flags.parseTimestamp v.toBytes d.toInt with
     | some t => .list [sym "ok", ofInt t]
     | none => .list [sym "err"])
  | some "timerange", [now, st, en, si] =>
    let opt (x : Sexp) : Option (List Nat) := x.toBytes?
    (match Flags.parseTimeRange now.toInt (opt st) (opt en) (opt si) with
     | some (a, b) => .list [sym "ok", ofInt a, ofInt b]
     | none => .list [sym "err"])
  | some "step", [v, a, b] =>
    (match Flags.parseStep v.toBytes? a.toInt b.toInt with
     | some d => .list [sym "ok", ofInt d]
     | none => .list [sym "err"])
  | some "parse", [renv, toks] =>
    (match Parser.parse (SyntaxCodec.reEnvOf renv) Gen.prec Gen.isLogic (toks.items.map SyntaxCodec.tokOf) with
     | some e => .list [sym "ok", SyntaxCodec.exprS e]
     | none => .list [sym "err"])
  | some "lex", [text] =>
    (match Lexer.tokenize text.toBytes with
     | .ok toks => .list [sym "ok", .list (toks.map SyntaxCodec.tokS)]
     | .err => .list [sym "err"]
     | .unsup => .list [sym "unsup"])
  | some "parsetext", [renv, text] =>
    (match Layout.parseText (SyntaxCodec.reEnvOf renv) Gen.prec Gen.isLogic text.toBytes with
     | .ok e => .list [sym "ok", SyntaxCodec.exprS e]
     | .err => .list [sym "err"]
     | .unsup => .list [sym "unsup"])
  | some "layoutrt", [items] =>
    -- executable sanity check of the layout theorem's statement: items = ((tok style gapid) ...)
    let gapOf (n : Nat) : Layout.Gap := match n with
      | 0 => [] | 1 => [.ws 32] | 2 => [.ws 10] | 3 => [.hash [32, 99]] | 4 => [.block [32, 120, 42, 32]]
      | 5 => [.line [121]] | 6 => [.ws 9, .ws 13, .ws 10] | _ => [.ws 32, .hash [], .ws 32]
    let ps : List Layout.Piece := items.items.map fun it => match it.items with
      | [t, st, g] =>
        let tok := SyntaxCodec.tokOf t
        let text := match tok with
          | .ident w => w
          | .kw k => Layout.spellKw k
          | .str v => Layout.spellStr (match st.toNat with | 0 => .escaped | 1 => .raw | _ => .plain) v
          | .num x => x | .dur x => x | .bytes x => x
        { tok := tok, text := text, gap := gapOf g.toNat }
      | _ => { tok := .kw .parserFlag, text := [], gap := [] }
    let ok := Layout.piecesOK ps
    let sep := Layout.Sep ps
    let back := match Lexer.tokenize (Layout.render ps) with
      | .ok toks => decide ((toks.map (fun t => (SyntaxCodec.tokS t).toStr)) = (ps.map (fun p => (SyntaxCodec.tokS p.tok).toStr)))
      | _ => false
    .list [sym "lrt", ofNat (if ok then 1 else 0), ofNat (if sep then 1 else 0), ofNat (if back = true then 1 else 0)]
  | some "c05rt", [renv, toks] =>
    -- executable sanity check of the C05 parse-level theorem statements
    let re := SyntaxCodec.reEnvOf renv
    let L : Unparse.Lits := { dur := fun d => Bytes.natToDec d.toNat ++ [110, 115], num := LogQL.ratToDec,
                              byt := fun n => Bytes.natToDec n ++ [66], int := fun k => Bytes.natToDec k.toNat }
    (match Parser.parse re Gen.prec Gen.isLogic (toks.items.map SyntaxCodec.tokOf) with
     | none => .list [sym "err"]
     | some e =>
       let wf := Unparse.wfE re Gen.isLogic e
       let canon := Unparse.canonE re Gen.isLogic L e
       let back := match Parser.parse re Gen.prec Gen.isLogic (Unparse.exprToks L e) with
         | some e' => decide ((SyntaxCodec.exprS e').toStr = (SyntaxCodec.exprS e).toStr)
         | none => false
       .list [sym "rt", ofNat (if wf then 1 else 0), ofNat (if canon then 1 else 0), ofNat (if back = true then 1 else 0)])
  | _, _ => .list [sym "bad-op"]

partial def loop (h : IO.FS.Stream) (out : IO.FS.Stream) : IO Unit := do
  let line ← h.getLine
  if line.isEmpty then return ()
  out.putStrLn (toString (handle (Sexp.parse line)))
  out.flush
  loop h out

def main : IO Unit := do
  loop (← IO.getStdin) (← IO.getStdout)
