import Verif.Props.C20
import Verif.Props.C03
import Verif.Props.C02
import Verif.Props.C04
import Verif.Props.C14
