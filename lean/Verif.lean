import Verif.Props.C20
