import Verif.Env.Regex
/-! Denotational semantics of the regex subset of `Verif/Env/Regex.lean`: `Matches r pos mid rest`
says that `r` matches the bytes `mid` when they start at offset `pos` of the subject and are followed
by `rest` (offset and remainder are what the anchors `^` and `$` look at).  This is the textbook
definition of the language of a regular expression, with no reference to backtracking, fuel, priorities
or captures.  Lemmas/RegexSem.lean proves that the executable matcher the correspondence runs against
Go's `regexp` (`Regex.fullMatch`, `Regex.search`) decides exactly this relation. -/
namespace Regex

def clsHas (neg : Bool) (rs : List (Nat × Nat)) (x : Nat) : Bool :=
  (rs.any fun (lo, hi) => lo ≤ x && x ≤ hi) != neg

inductive Matches : Re → Nat → List Nat → List Nat → Prop
  | chr (c pos rest) : Matches (.chr c) pos [c] rest
  | cls (neg rs x pos rest) : clsHas neg rs x = true → Matches (.cls neg rs) pos [x] rest
  | any (x pos rest) : x ≠ 10 → Matches .any pos [x] rest
  | eps (pos rest) : Matches .eps pos [] rest
  | seq {a b pos s1 s2 rest} : Matches a pos s1 (s2 ++ rest) → Matches b (pos + s1.length) s2 rest →
      Matches (.seq a b) pos (s1 ++ s2) rest
  | altL {a b pos s rest} : Matches a pos s rest → Matches (.alt a b) pos s rest
  | altR {a b pos s rest} : Matches b pos s rest → Matches (.alt a b) pos s rest
  | starNil (r pos rest) : Matches (.star r) pos [] rest
  | starCons {r pos s1 s2 rest} : Matches r pos s1 (s2 ++ rest) → Matches (.star r) (pos + s1.length) s2 rest →
      Matches (.star r) pos (s1 ++ s2) rest
  | plus {r pos s1 s2 rest} : Matches r pos s1 (s2 ++ rest) → Matches (.star r) (pos + s1.length) s2 rest →
      Matches (.plus r) pos (s1 ++ s2) rest
  | optNone (r pos rest) : Matches (.opt r) pos [] rest
  | optSome {r pos s rest} : Matches r pos s rest → Matches (.opt r) pos s rest
  | grp {i r pos s rest} : Matches r pos s rest → Matches (.grp i r) pos s rest
  | bol (rest) : Matches .bol 0 [] rest
  | eol (pos) : Matches .eol pos [] []

/-- the subject contains a match: `s = pre ++ mid ++ post` with `mid` matched at offset `|pre|` -/
def Contains (r : Re) (s : List Nat) : Prop :=
  ∃ pre mid post, s = pre ++ mid ++ post ∧ Matches r pre.length mid post

end Regex
