import Verif.Env.Json
/-! Model of `jsonexpr.Extract` (internal/logql/logqlengine/jsonexpr/eval.go): walk the whole
document keeping the current path; a literal whose path equals a requested path is extracted
(string unescaped, number as written, `null` as the empty string, booleans as `true`/`false`), an
array/object at a requested path is extracted as its raw text.  Emissions are in document order;
an error reports what was emitted before it. -/
namespace JsonExpr
open Json Bytes

inductive Sel | key (k : List Nat) | idx (i : Nat)
  deriving DecidableEq, Repr

abbrev Path := List Sel

/-- labels whose requested path equals the current path, in request order -/
def hits (paths : List (List Nat × Path)) (cur : Path) : List (List Nat) :=
  (paths.filter (fun p => p.2 == cur)).map (·.1)

/-- raw text of the number at the head of `s` (strict JSON number grammar) -/
def numberText (s : List Nat) : Option (List Nat × List Nat) :=
  match readNumberLoose s with
  | some rest => if numEnd rest then some (s.take (s.length - rest.length), rest) else none
  | none => none
where
  /-- number syntax without the int64 range check (`d.Num()` keeps the text) -/
  readNumberLoose (s : List Nat) : Option (List Nat) :=
    let r0 := match s with
      | 45 :: r => r
      | _ => s
    let ip := r0.takeWhile isDigit
    let r1 := r0.dropWhile isDigit
    if ip.isEmpty || (ip.length > 1 && ip.head? == some 48) then none else
    let r2? : Option (List Nat) := match r1 with
      | 46 :: r => if (r.takeWhile isDigit).isEmpty then none else some (r.dropWhile isDigit)
      | _ => some r1
    match r2? with
    | none => none
    | some r2 =>
      match r2 with
      | c :: r =>
        if c == 101 || c == 69 then
          let r3 := match r with
            | 45 :: r' => r'
            | 43 :: r' => r'
            | _ => r
          if (r3.takeWhile isDigit).isEmpty then none else some (r3.dropWhile isDigit)
        else some r2
      | [] => some r2

abbrev Emits := List (List Nat × List Nat)

mutual
/-- returns the emissions and the rest of the input (`none` = syntax error) -/
def walk (paths : List (List Nat × Path)) : Nat → Path → List Nat → Emits × Option (List Nat)
  | 0, _, _ => ([], none)
  | fuel + 1, cur, s =>
    let s := skipWs s
    let lit (v : List Nat) (rest : List Nat) : Emits × Option (List Nat) :=
      ((hits paths cur).map (fun l => (l, v)), some rest)
    match s with
    | 34 :: r =>
      match readStrBody (r.length + 1) r [] with
      | some (v, rest) => lit v rest
      | none => ([], none)
    | 116 :: 114 :: 117 :: 101 :: r => lit (ofString "true") r
    | 102 :: 97 :: 108 :: 115 :: 101 :: r => lit (ofString "false") r
    | 110 :: 117 :: 108 :: 108 :: r => lit [] r
    | 91 :: r =>
      -- raw capture first (validates the whole value), then descend
      match (if (hits paths cur).isEmpty then some ([], []) else
              (readValue false (s.length + 1) s).map (fun (_, rest) => (s.take (s.length - rest.length), rest))) with
      | none => ([], none)
      | some (raw, _) =>
        let pre : Emits := (hits paths cur).map (fun l => (l, raw))
        match skipWs r with
        | 93 :: r2 => (pre, some r2)
        | _ =>
          let res := walkArr paths fuel cur 0 r
          (pre ++ res.1, res.2)
    | 123 :: r =>
      match (if (hits paths cur).isEmpty then some ([], []) else
              (readValue false (s.length + 1) s).map (fun (_, rest) => (s.take (s.length - rest.length), rest))) with
      | none => ([], none)
      | some (raw, _) =>
        let pre : Emits := (hits paths cur).map (fun l => (l, raw))
        match skipWs r with
        | 125 :: r2 => (pre, some r2)
        | _ =>
          let res := walkObj paths fuel cur r
          (pre ++ res.1, res.2)
    | b :: r =>
      if b == 45 || isDigit b then
        match numberText (b :: r) with
        | some (txt, rest) => lit txt rest
        | none => ([], none)
      else ([], none)
    | [] => ([], none)

def walkArr (paths : List (List Nat × Path)) : Nat → Path → Nat → List Nat → Emits × Option (List Nat)
  | 0, _, _, _ => ([], none)
  | fuel + 1, cur, n, s =>
    match walk paths fuel (cur ++ [.idx n]) s with
    | (em, none) => (em, none)
    | (em, some r) =>
      match skipWs r with
      | 44 :: r2 =>
        let res := walkArr paths fuel cur (n + 1) r2
        (em ++ res.1, res.2)
      | 93 :: r2 => (em, some r2)
      | _ => (em, none)

def walkObj (paths : List (List Nat × Path)) : Nat → Path → List Nat → Emits × Option (List Nat)
  | 0, _, _ => ([], none)
  | fuel + 1, cur, s =>
    match skipWs s with
    | 34 :: r =>
      match readStrBody (r.length + 1) r [] with
      | none => ([], none)
      | some (k, r1) =>
        match skipWs r1 with
        | 58 :: r2 =>
          match walk paths fuel (cur ++ [.key k]) r2 with
          | (em, none) => (em, none)
          | (em, some r3) =>
            match skipWs r3 with
            | 44 :: r4 =>
              let res := walkObj paths fuel cur r4
              (em ++ res.1, res.2)
            | 125 :: r4 => (em, some r4)
            | _ => (em, none)
        | _ => ([], none)
    | _ => ([], none)
end

/-- `jsonexpr.Extract` over a line: emissions in document order and the error flag -/
def extract (paths : List (List Nat × Path)) (line : List Nat) : Emits × Bool :=
  let res := walk paths (line.length + 2) [] line
  (res.1, res.2.isNone)

end JsonExpr
