import Verif.Env.Writers
/-! A second, freer logfmt writer: each pair chooses its spelling — quoted with escapes (as in
`Logfmt.write`), bare (`k=v`, for values without white space, `=` and `"`), or key only (`k`, which the
decoder reads as the empty value) — and pairs are separated by one or more blanks or tabs.  Covers the
lines real programs write.  `Logfmt.read (write2 ps) = (the pairs, false)` is proved in
Lemmas/C06Writers2.lean. -/
namespace Logfmt

inductive Style | quoted | bare | keyOnly | emptyEq
  deriving DecidableEq, Repr

structure Pair where
  key : List Nat
  val : List Nat
  style : Style
  /-- separator written before the pair (ignored for the first one): n ≥ 1 blanks, or tabs when `tab` -/
  gap : Nat := 1
  tab : Bool := false
  deriving Repr

/-- printable ASCII without blank, `=` and `"` -/
def bareOK (v : List Nat) : Bool := !v.isEmpty && v.all (fun c => c > 32 && c < 128 && c != 61 && c != 34)

def Pair.ok (p : Pair) : Bool :=
  keyOK p.key && p.gap ≥ 1 &&
  match p.style with
  | .quoted => valOK p.val
  | .bare => bareOK p.val
  | .keyOnly => p.val.isEmpty
  | .emptyEq => p.val.isEmpty

def writePair2 (p : Pair) : List Nat :=
  match p.style with
  | .quoted => writePair (p.key, p.val)
  | .bare => p.key ++ 61 :: p.val
  | .keyOnly => p.key
  | .emptyEq => p.key ++ [61]

def sep (p : Pair) : List Nat := List.replicate p.gap (if p.tab then 9 else 32)

def write2 : List Pair → List Nat
  | [] => []
  | p :: rest => writePair2 p ++ (rest.map fun q => sep q ++ writePair2 q).flatten

end Logfmt
