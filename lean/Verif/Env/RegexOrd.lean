import Verif.Env.RegexSem
/-! Leftmost-first (Perl / Go `regexp`) priority as a denotation: `ends r pos s` lists the lengths of the
prefixes of `s` that `r` matches at offset `pos`, in the order in which a backtracking matcher prefers
them — the left alternative before the right, one more iteration before stopping (greedy), an optional
part present before absent — with no continuation, fuel or captures involved.  The match Go reports for
an unanchored search is the leftmost start at which this list is non-empty, and ends at its FIRST element
(Lemmas/RegexOrd.lean proves that of the executable matcher). -/
namespace Regex

/-- greedy iteration, by recursion on a bound for the remaining input (`n ≥ s.length` suffices:
every iteration consumes at least one byte) -/
def starEnds (body : Nat → List Nat → List Nat) : Nat → Nat → List Nat → List Nat
  | 0, _, _ => [0]
  | n + 1, pos, s =>
    ((body pos s).filter (· > 0)).flatMap (fun k => (starEnds body n (pos + k) (s.drop k)).map (k + ·)) ++ [0]

def ends : Re → Nat → List Nat → List Nat
  | .chr c, _, s => match s with | x :: _ => if x = c then [1] else [] | [] => []
  | .cls neg rs, _, s => match s with | x :: _ => if clsHas neg rs x then [1] else [] | [] => []
  | .any, _, s => match s with | x :: _ => if x ≠ 10 then [1] else [] | [] => []
  | .eps, _, _ => [0]
  | .seq a b, pos, s => (ends a pos s).flatMap (fun k => (ends b (pos + k) (s.drop k)).map (k + ·))
  | .alt a b, pos, s => ends a pos s ++ ends b pos s
  | .star r, pos, s => starEnds (ends r) s.length pos s
  | .plus r, pos, s => (ends r pos s).flatMap (fun k => (starEnds (ends r) s.length (pos + k) (s.drop k)).map (k + ·))
  | .opt r, pos, s => ends r pos s ++ [0]
  | .grp _ r, pos, s => ends r pos s
  | .bol, pos, _ => if pos = 0 then [0] else []
  | .eol, _, s => if s.isEmpty then [0] else []

end Regex
