import Verif.Base.Bytes
import Verif.Base.Utf8
/-! Environment model of `go-logfmt/logfmt`'s `Decoder` as driven by the `logfmt` stage:
`for ScanRecord { for ScanKeyval { … } }` over the lines of the input.  Returns the key/value
pairs in order and whether a syntax error stopped the decoder (pairs before it are reported). -/
namespace Logfmt

/-- `bufio.ScanLines`: split on `\n`, drop one trailing `\r` per line, no final empty line -/
def splitLines (s : List Nat) : List (List Nat) :=
  let rec go : List Nat → List Nat → List (List Nat)
    | [], cur => if cur.isEmpty then [] else [cur]
    | 10 :: rest, cur => cur :: go rest []
    | b :: rest, cur => go rest (cur ++ [b])
  (go s []).map fun l => if l.getLast? == some 13 then l.dropLast else l

/-- the key contains an invalid UTF-8 sequence or U+FFFD -/
def badKey (k : List Nat) : Bool := k.any (· ≥ 128) && (Utf8.runes k).any (· == 0xFFFD)

/-- quoted value after the opening quote: returns (raw content, hasEscape, rest after the closing quote) -/
def scanQuoted : List Nat → List Nat → Bool → Bool → Option (List Nat × Bool × List Nat)
  | [], _, _, _ => none
  | c :: rest, acc, esc, hasEsc =>
    if esc then scanQuoted rest (acc ++ [c]) false hasEsc
    else if c == 92 then scanQuoted rest (acc ++ [c]) true true
    else if c == 34 then some (acc, hasEsc, rest)
    else scanQuoted rest (acc ++ [c]) false hasEsc

/-- `unquoteBytes` on the raw content (escapes `\" \\ \/ \' \b \f \n \r \t`; `\u` unsupported here) -/
def unescape : List Nat → List Nat → Option (List Nat)
  | [], acc => some acc
  | 92 :: c :: rest, acc =>
    if c == 34 || c == 92 || c == 47 || c == 39 then unescape rest (acc ++ [c])
    else if c == 98 then unescape rest (acc ++ [8])
    else if c == 102 then unescape rest (acc ++ [12])
    else if c == 110 then unescape rest (acc ++ [10])
    else if c == 114 then unescape rest (acc ++ [13])
    else if c == 116 then unescape rest (acc ++ [9])
    else none
  | [92], _ => none
  | c :: rest, acc =>
    if c == 34 || c < 32 then none
    else if c < 128 then unescape rest (acc ++ [c])
    else
      let rw := Utf8.decodeRune (c :: rest)
      unescape (rest.drop (rw.2 - 1)) (acc ++ Utf8.encodeRune rw.1)
termination_by s => s.length
decreasing_by all_goals (simp [List.length_drop]; try omega)

inductive KV
  | pair (k v : List Nat) (rest : List Nat)
  | done
  | err

/-- one `ScanKeyval` on the rest of a line -/
def scanKeyval (line : List Nat) : KV :=
  let s := line.dropWhile (· ≤ 32)
  if s.isEmpty then .done else
  let key := s.takeWhile (fun c => c != 61 && c != 34 && c > 32)
  let r := s.dropWhile (fun c => c != 61 && c != 34 && c > 32)
  match r with
  | [] => if badKey key then .err else .pair key [] []
  | c :: r1 =>
    if c == 34 then .err
    else if c ≤ 32 then (if badKey key then .err else .pair key [] (c :: r1))
    else -- '='
      if key.isEmpty then .err
      else if badKey key then .err
      else match r1 with
        | [] => .pair key [] []
        | d :: r2 =>
          if d ≤ 32 then .pair key [] (d :: r2)
          else if d == 34 then
            match scanQuoted r2 [] false false with
            | none => .err
            | some (raw, hasEsc, rest) =>
              if hasEsc then
                match unescape raw [] with
                | some v => .pair key v rest
                | none => .err
              else .pair key raw rest
          else
            let v := (d :: r2).takeWhile (fun c => c != 61 && c != 34 && c > 32)
            let rest := (d :: r2).dropWhile (fun c => c != 61 && c != 34 && c > 32)
            match rest with
            | [] => .pair key v []
            | e :: _ => if e == 61 || e == 34 then .err else .pair key v rest

def scanLine : Nat → List Nat → List (List Nat × List Nat) → List (List Nat × List Nat) × Bool
  | 0, _, acc => (acc, true)
  | fuel + 1, line, acc =>
    match scanKeyval line with
    | .done => (acc, false)
    | .err => (acc, true)
    | .pair k v rest => scanLine fuel rest (acc ++ [(k, v)])

def readLines : List (List Nat) → List (List Nat × List Nat) → List (List Nat × List Nat) × Bool
  | [], acc => (acc, false)
  | l :: ls, acc =>
    match scanLine (l.length + 1) l acc with
    | (acc', true) => (acc', true)
    | (acc', false) => readLines ls acc'

def read (s : List Nat) : List (List Nat × List Nat) × Bool := readLines (splitLines s) []

end Logfmt
