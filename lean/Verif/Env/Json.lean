import Verif.Base.Bytes
import Verif.Base.Utf8
/-! Environment model of the `go-faster/jx` decoder as the engine uses it (`json`, `unpack` stages):
a streaming object reader.  Fields read before a syntax error are reported (the engine has
already set them as labels when the error surfaces).  Nested arrays/objects are validated and kept
as the placeholder `nested` (their textual rendering belongs to pdata and is normalised away by
the correspondence). -/
namespace Json
open Bytes

inductive JVal where
  | str (s : List Nat)
  | int (i : Int)
  | num (q : Rat)          -- non-integer spelling (has `.` or exponent)
  | bool (b : Bool)
  | null
  | nested (raw : List Nat)   -- array/object, raw text
  deriving Repr, Inhabited

def isWs (b : Nat) : Bool := b == 32 || b == 9 || b == 10 || b == 13
def skipWs (s : List Nat) : List Nat := s.dropWhile isWs

def hexVal? (b : Nat) : Option Nat :=
  if isDigit b then some (b - 48)
  else if 97 ≤ b && b ≤ 102 then some (b - 87)
  else if 65 ≤ b && b ≤ 70 then some (b - 55)
  else none

def hex4 : List Nat → Option (Nat × List Nat)
  | a :: b :: c :: d :: rest =>
    match hexVal? a, hexVal? b, hexVal? c, hexVal? d with
    | some a, some b, some c, some d => some (a * 4096 + b * 256 + c * 16 + d, rest)
    | _, _, _, _ => none
  | _ => none

/-- string body after the opening quote → (unescaped bytes, rest after closing quote) -/
def readStrBody : Nat → List Nat → List Nat → Option (List Nat × List Nat)
  | 0, _, _ => none
  | _ + 1, [], _ => none
  | fuel + 1, b :: rest, acc =>
    if b == 34 then some (acc, rest)
    else if b < 32 then none
    else if b == 92 then
      match rest with
      | 34 :: r => readStrBody fuel r (acc ++ [34])
      | 92 :: r => readStrBody fuel r (acc ++ [92])
      | 47 :: r => readStrBody fuel r (acc ++ [47])
      | 98 :: r => readStrBody fuel r (acc ++ [8])
      | 102 :: r => readStrBody fuel r (acc ++ [12])
      | 110 :: r => readStrBody fuel r (acc ++ [10])
      | 114 :: r => readStrBody fuel r (acc ++ [13])
      | 116 :: r => readStrBody fuel r (acc ++ [9])
      | 117 :: r =>
        match hex4 r with
        | none => none
        | some (u, r2) =>
          if 0xD800 ≤ u && u ≤ 0xDBFF then
            -- high surrogate: needs a following low surrogate, else U+FFFD
            match r2 with
            | 92 :: 117 :: r3 =>
              match hex4 r3 with
              | some (lo, r4) =>
                if 0xDC00 ≤ lo && lo ≤ 0xDFFF then
                  readStrBody fuel r4 (acc ++ Utf8.encodeRune (0x10000 + (u - 0xD800) * 1024 + (lo - 0xDC00)))
                else none
              | none => none
            | _ => none
          else if 0xDC00 ≤ u && u ≤ 0xDFFF then none
          else readStrBody fuel r2 (acc ++ Utf8.encodeRune u)
      | _ => none
    else readStrBody fuel rest (acc ++ [b])

/-- jx requires a number to be followed by whitespace, `,`, `]`, `}` or the end of input -/
def numEnd : List Nat → Bool
  | [] => true
  | b :: _ => isWs b || b == 44 || b == 93 || b == 125

/-- strict JSON number → (value, rest) -/
def readNumber (checkInt : Bool) (s : List Nat) : Option (JVal × List Nat) :=
  let (neg, r0) := match s with
    | 45 :: r => (true, r)
    | _ => (false, s)
  let ip := r0.takeWhile isDigit
  let r1 := r0.dropWhile isDigit
  if ip.isEmpty || (ip.length > 1 && ip.head? == some 48) then none else
  let (fp, hasFrac, r2) := match r1 with
    | 46 :: r => (r.takeWhile isDigit, true, r.dropWhile isDigit)
    | _ => ([], false, r1)
  if hasFrac && fp.isEmpty then none else
  let expPart : Option (Int × Bool × List Nat) :=
    match r2 with
    | c :: r =>
      if c == 101 || c == 69 then
        let (eneg, r3) := match r with
          | 45 :: r' => (true, r')
          | 43 :: r' => (false, r')
          | _ => (false, r)
        let ed := r3.takeWhile isDigit
        if ed.isEmpty then none
        else some ((if eneg then -(digitsVal ed : Int) else (digitsVal ed : Int)), true, r3.dropWhile isDigit)
      else some (0, false, r2)
    | [] => some (0, false, r2)
  match expPart with
  | none => none
  | some (e, hasExp, r4) =>
    if !numEnd r4 then none else
    if !hasFrac && !hasExp then
      let v : Int := digitsVal ip
      let v := if neg then -v else v
      -- int64 range, as `Num.Int64` enforces
      if checkInt && (v < -9223372036854775808 || v > 9223372036854775807) then none else some (.int v, r4)
    else
      let m : Rat := (digitsVal ip : Rat) + (digitsVal fp : Rat) / ((10 : Rat) ^ fp.length)
      let sc : Rat := if e ≥ 0 then (10 : Rat) ^ e.toNat else 1 / (10 : Rat) ^ (-e).toNat
      let v := m * sc
      some (.num (if neg then -v else v), r4)

mutual
/-- one JSON value -/
def readValue (checkInt : Bool) : Nat → List Nat → Option (JVal × List Nat)
  | 0, _ => none
  | fuel + 1, s =>
    match skipWs s with
    | 34 :: r => (readStrBody (r.length + 1) r []).map fun (v, rest) => (.str v, rest)
    | 116 :: 114 :: 117 :: 101 :: r => some (.bool true, r)
    | 102 :: 97 :: 108 :: 115 :: 101 :: r => some (.bool false, r)
    | 110 :: 117 :: 108 :: 108 :: r => some (.null, r)
    | 91 :: r =>                              -- array
      let whole : List Nat := 91 :: r
      let rest? : Option (List Nat) :=
        match skipWs r with
        | 93 :: r2 => some r2
        | _ => match readElems checkInt fuel r with
          | some p => some p.2
          | none => none
      match rest? with
      | some rest => some (.nested (whole.take (whole.length - rest.length)), rest)
      | none => none
    | 123 :: r =>                             -- object
      let whole : List Nat := 123 :: r
      let rest? : Option (List Nat) :=
        match skipWs r with
        | 125 :: r2 => some r2
        | _ => match readMembers checkInt fuel r with
          | some p => some p.2
          | none => none
      match rest? with
      | some rest => some (.nested (whole.take (whole.length - rest.length)), rest)
      | none => none
    | b :: r => if b == 45 || isDigit b then readNumber checkInt (b :: r) else none
    | [] => none

def readElems (checkInt : Bool) : Nat → List Nat → Option (JVal × List Nat)
  | 0, _ => none
  | fuel + 1, s =>
    match readValue checkInt fuel s with
    | none => none
    | some (_, r) =>
      match skipWs r with
      | 44 :: r2 => readElems checkInt fuel r2
      | 93 :: r2 => some (.null, r2)
      | _ => none

def readMembers (checkInt : Bool) : Nat → List Nat → Option (JVal × List Nat)
  | 0, _ => none
  | fuel + 1, s =>
    match skipWs s with
    | 34 :: r =>
      match readStrBody (r.length + 1) r [] with
      | none => none
      | some (_, r1) =>
        match skipWs r1 with
        | 58 :: r2 =>
          match readValue checkInt fuel r2 with
          | none => none
          | some (_, r3) =>
            match skipWs r3 with
            | 44 :: r4 => readMembers checkInt fuel r4
            | 125 :: r4 => some (.null, r4)
            | _ => none
        | _ => none
    | _ => none
end

/-- fields of the top-level object in document order, and whether a syntax error stopped the
reader (fields before the error are reported) -/
def readFields (checkInt : Bool) : Nat → List Nat → List (List Nat × JVal) → List (List Nat × JVal) × Bool
  | 0, _, acc => (acc, true)
  | fuel + 1, s, acc =>
    match skipWs s with
    | 34 :: r =>
      match readStrBody (r.length + 1) r [] with
      | none => (acc, true)
      | some (k, r1) =>
        match skipWs r1 with
        | 58 :: r2 =>
          match readValue checkInt (r2.length + 1) r2 with
          | none => (acc, true)
          | some (v, r3) =>
            let acc' := acc ++ [(k, v)]
            match skipWs r3 with
            | 44 :: r4 => readFields checkInt fuel r4 acc'
            | 125 :: _ => (acc', false)
            | _ => (acc', true)
        | _ => (acc, true)
    | _ => (acc, true)

/-- `d.Obj(...)` over a whole line: fields and error flag -/
def readObject (checkInt : Bool) (line : List Nat) : List (List Nat × JVal) × Bool :=
  match skipWs line with
  | 123 :: r =>
    match skipWs r with
    | 125 :: _ => ([], false)
    | _ => readFields checkInt (r.length + 1) r []
  | _ => ([], true)

end Json
