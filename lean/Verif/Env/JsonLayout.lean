import Verif.Env.JsonTree
/-! JSON trees with layout: every place where the grammar allows white space carries its own (possibly
empty) run of blanks, tabs, line feeds and carriage returns.  `writeW` is the text, `erase` forgets the
layout.  What the path expressions denote is as for plain trees, except that an array or object at a
requested path is exposed with its text as written (layout included, outer white space excluded).
Lemmas/JsonLayout.lean proves that the byte-level extractor computes this denotation for every layout. -/
namespace JsonLayout
open Json JsonExpr JsonTree

abbrev Ws := List Nat

def wsOK (w : Ws) : Bool := w.all (fun c => c == 32 || c == 9 || c == 10 || c == 13)

inductive JW where
  | str (s : List Nat)
  | int (i : Int)
  | bool (b : Bool)
  | null
  /-- `[` inner `]` where inner is white space alone (empty array) or the items, each with white space
  before and after it, separated by commas -/
  | arr (empty : Ws) (xs : List (Ws × JW × Ws))
  /-- members: white space, key, white space, `:`, white space, value, white space -/
  | obj (empty : Ws) (fs : List (Ws × List Nat × Ws × Ws × JW × Ws))

mutual
def writeW : JW → List Nat
  | .str s => writeStr s
  | .int i => Bytes.intToDec i
  | .bool true => [116, 114, 117, 101]
  | .bool false => [102, 97, 108, 115, 101]
  | .null => [110, 117, 108, 108]
  | .arr e xs => 91 :: (match xs with | [] => e | _ :: _ => writeElemsW xs) ++ [93]
  | .obj e fs => 123 :: (match fs with | [] => e | _ :: _ => writeFieldsW fs) ++ [125]
def writeElemsW : List (Ws × JW × Ws) → List Nat
  | [] => []
  | (b, x, a) :: rest => b ++ writeW x ++ a ++ (match rest with | [] => [] | _ :: _ => 44 :: writeElemsW rest)
def writeFieldsW : List (Ws × List Nat × Ws × Ws × JW × Ws) → List Nat
  | [] => []
  | (bk, k, ak, bv, v, av) :: rest =>
    bk ++ writeStr k ++ ak ++ 58 :: bv ++ writeW v ++ av ++ (match rest with | [] => [] | _ :: _ => 44 :: writeFieldsW rest)
end

mutual
def wfW : JW → Bool
  | .str s => asciiOK s
  | .arr e xs => wsOK e && wfElemsW xs
  | .obj e fs => wsOK e && wfFieldsW fs
  | _ => true
def wfElemsW : List (Ws × JW × Ws) → Bool
  | [] => true
  | (b, x, a) :: rest => wsOK b && wfW x && wsOK a && wfElemsW rest
def wfFieldsW : List (Ws × List Nat × Ws × Ws × JW × Ws) → Bool
  | [] => true
  | (bk, k, ak, bv, v, av) :: rest => wsOK bk && asciiOK k && wsOK ak && wsOK bv && wfW v && wsOK av && wfFieldsW rest
end

mutual
def denoteW (paths : List (List Nat × Path)) : Path → JW → Emits
  | cur, .str s => (hits paths cur).map (fun l => (l, s))
  | cur, .int i => (hits paths cur).map (fun l => (l, Bytes.intToDec i))
  | cur, .bool true => (hits paths cur).map (fun l => (l, [116, 114, 117, 101]))
  | cur, .bool false => (hits paths cur).map (fun l => (l, [102, 97, 108, 115, 101]))
  | cur, .null => (hits paths cur).map (fun l => (l, []))
  | cur, .arr e xs => (hits paths cur).map (fun l => (l, writeW (.arr e xs))) ++ denoteElemsW paths cur 0 xs
  | cur, .obj e fs => (hits paths cur).map (fun l => (l, writeW (.obj e fs))) ++ denoteFieldsW paths cur fs
def denoteElemsW (paths : List (List Nat × Path)) : Path → Nat → List (Ws × JW × Ws) → Emits
  | _, _, [] => []
  | cur, n, (_, x, _) :: rest => denoteW paths (cur ++ [.idx n]) x ++ denoteElemsW paths cur (n + 1) rest
def denoteFieldsW (paths : List (List Nat × Path)) : Path → List (Ws × List Nat × Ws × Ws × JW × Ws) → Emits
  | _, [] => []
  | cur, (_, k, _, _, v, _) :: rest => denoteW paths (cur ++ [.key k]) v ++ denoteFieldsW paths cur rest
end

end JsonLayout
