import Verif.Env.RegexSem
/-! What a reported capture means: group `i` of the expression spans bytes `[x, y)` of the subject only
if the body of a group numbered `i` matches exactly those bytes there (`Regex.Matches`, the textbook
relation, with the bytes after `y` as the remainder).  Proved of the executable matcher in
Lemmas/RegexCaps.lean; used by the `regexp` stage theorems of C06. -/
namespace Regex

/-- the capturing groups of an expression: (index, body) -/
def subGroups : Re → List (Nat × Re)
  | .seq a b | .alt a b => subGroups a ++ subGroups b
  | .star r | .plus r | .opt r => subGroups r
  | .grp i r => (i, r) :: subGroups r
  | _ => []

/-- bytes `[x, y)` of `s` -/
def slice (s : List Nat) (x y : Nat) : List Nat := (s.drop x).take (y - x)

/-- a capture `(i, x, y)` over the subject `whole` is justified by a group of `r` -/
def GoodCap (r : Re) (whole : List Nat) (e : Nat × Nat × Nat) : Prop :=
  ∃ body, (e.1, body) ∈ subGroups r ∧ e.2.1 ≤ e.2.2 ∧ e.2.2 ≤ whole.length ∧
    Matches body e.2.1 (slice whole e.2.1 e.2.2) (whole.drop e.2.2)

end Regex
