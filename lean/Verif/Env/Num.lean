import Verif.Base.Bytes
/-! Environment models of the text → number conversions the engine leans on, on restricted
grammars (anything outside is `none` = "unparsable"):
* `parseFloat`  — `strconv.ParseFloat(s, 64)`: `[+-]?digits[.digits][(e|E)[+-]digits]`, value as an exact `Rat`
* `parseDuration` — `time.ParseDuration`: `[+-]?(number unit)+` with `ns us µs ms s m h`, or `0`; `Int` nanoseconds
* `parseBytes` — `humanize.ParseBytes`: `digits[.digits] [unit]`; `Nat` bytes (truncated)
* `parseIPv4`, IP patterns (single address, `a-b` range, `a/n` prefix) — `netip`/`netipx`, IPv4 only -/
namespace Num
open Bytes

/-- unsigned decimal `digits[.digits]` (at least one digit overall) → exact value and the rest -/
def scanDecimal (s : List Nat) : Option (Rat × List Nat) :=
  let ip := s.takeWhile isDigit
  let r1 := s.dropWhile isDigit
  match r1 with
  | 46 :: r2 =>
    let fp := r2.takeWhile isDigit
    let r3 := r2.dropWhile isDigit
    if ip.isEmpty && fp.isEmpty then none
    else some ((digitsVal ip : Rat) + (digitsVal fp : Rat) / ((10 : Rat) ^ fp.length), r3)
  | _ => if ip.isEmpty then none else some ((digitsVal ip : Rat), r1)

def scanSign (s : List Nat) : Bool × List Nat :=
  match s with
  | 45 :: r => (true, r)
  | 43 :: r => (false, r)
  | _ => (false, s)

def pow10 (e : Int) : Rat := if e ≥ 0 then (10 : Rat) ^ e.toNat else 1 / (10 : Rat) ^ (-e).toNat

def parseFloat (s : List Nat) : Option Rat :=
  let (neg, r) := scanSign s
  match scanDecimal r with
  | none => none
  | some (m, rest) =>
    let v? : Option Rat :=
      match rest with
      | [] => some m
      | c :: r2 =>
        if c == 101 || c == 69 then
          let (eneg, r3) := scanSign r2
          if r3.isEmpty || !r3.all isDigit then none
          else
            let e : Int := digitsVal r3
            -- float64 range: overflow is an error (±Inf, ErrRange), underflow gives 0
            if m == 0 then some 0
            else if e > 400 then (if eneg then some 0 else none)
            else
              let v := m * pow10 (if eneg then -e else e)
              if v ≥ (2 : Rat) ^ 1024 then none
              else if v * (2 : Rat) ^ 1075 < 1 then some 0      -- below half the smallest subnormal
              else some v
        else none
    v?.map (fun v => if neg then -v else v)

def durUnit : List Nat → Option (Int × List Nat)
  | 110 :: 115 :: r => some (1, r)                       -- ns
  | 117 :: 115 :: r => some (1000, r)                    -- us
  | 0xC2 :: 0xB5 :: 115 :: r => some (1000, r)           -- µs (U+00B5)
  | 0xCE :: 0xBC :: 115 :: r => some (1000, r)           -- μs (U+03BC)
  | 109 :: 115 :: r => some (1000000, r)                 -- ms
  | 115 :: r => some (1000000000, r)                     -- s
  | 109 :: r => some (60000000000, r)                    -- m
  | 104 :: r => some (3600000000000, r)                  -- h
  | _ => none

def durLoop : Nat → List Nat → Rat → Option Rat
  | 0, _, _ => none
  | fuel + 1, s, acc =>
    match scanDecimal s with
    | none => none
    | some (v, r) =>
      match durUnit r with
      | none => none
      | some (u, r2) =>
        let acc' := acc + v * (u : Rat)
        if r2.isEmpty then some acc' else durLoop fuel r2 acc'

/-- nanoseconds (truncated toward zero as Go's integer arithmetic does for exact inputs) -/
def parseDuration (s : List Nat) : Option Int :=
  let (neg, r) := scanSign s
  if r == [48] then some 0
  else if r.isEmpty then none
  else match durLoop (r.length + 1) r 0 with
    | none => none
    | some q =>
      let n : Int := q.floor
      -- time.ParseDuration reports an overflow of int64 nanoseconds as "invalid duration"
      if n > 9223372036854775807 then none
      else some (if neg then -n else n)

def trimSpace (s : List Nat) : List Nat :=
  let isSp := fun b => b == 32 || b == 9 || b == 10 || b == 13
  ((s.dropWhile isSp).reverse.dropWhile isSp).reverse

def bytesUnit (u : List Nat) : Option Nat :=
  let u := (trimSpace u).map toLower
  let tbl : List (String × Nat) :=
    [("", 1), ("b", 1),
     ("kib", 1024), ("ki", 1024), ("kb", 1000), ("k", 1000),
     ("mib", 1024^2), ("mi", 1024^2), ("mb", 1000^2), ("m", 1000^2),
     ("gib", 1024^3), ("gi", 1024^3), ("gb", 1000^3), ("g", 1000^3),
     ("tib", 1024^4), ("ti", 1024^4), ("tb", 1000^4), ("t", 1000^4),
     ("pib", 1024^5), ("pi", 1024^5), ("pb", 1000^5), ("p", 1000^5),
     ("eib", 1024^6), ("ei", 1024^6), ("eb", 1000^6), ("e", 1000^6)]
  (tbl.find? (fun p => ofString p.1 == u)).map (·.2)

def parseBytes (s : List Nat) : Option Nat :=
  -- humanize.ParseBytes: the number is the leading run of digits, '.' and ',' with the commas removed
  let num := (s.takeWhile (fun b => isDigit b || b == 46 || b == 44)).filter (· != 44)
  let extra := s.dropWhile (fun b => isDigit b || b == 46 || b == 44)
  match scanDecimal num with
  | some (v, []) =>
    match bytesUnit extra with
    | some m =>
      -- humanize.ParseBytes fails ("too large") when the float64 product reaches 2^64, i.e. from
      -- 2^64 - 1024 on (values above that round up to 2^64)
      let n := (v * (m : Rat)).floor.toNat
      if n ≥ 18446744073709550592 then none else some n
    | none => none
  | _ => none

/-- dotted quad, each field 1–3 digits, no leading zero, ≤ 255 (`netip.ParseAddr`) -/
def parseIPv4Fields : Nat → List Nat → List Nat → Option (List Nat)
  | 0, _, _ => none
  | fuel + 1, s, acc =>
    let ds := s.takeWhile isDigit
    let r := s.dropWhile isDigit
    if ds.isEmpty || ds.length > 3 || (ds.length > 1 && ds.head? == some 48) || digitsVal ds > 255 then none
    else
      let acc' := acc ++ [digitsVal ds]
      match r with
      | [] => if acc'.length == 4 then some acc' else none
      | 46 :: r2 => if acc'.length ≥ 4 then none else parseIPv4Fields fuel r2 acc'
      | _ => none

def parseIPv4 (s : List Nat) : Option Nat :=
  match parseIPv4Fields 5 s [] with
  | some [a, b, c, d] => some (a * 16777216 + b * 65536 + c * 256 + d)
  | _ => none

inductive IPPat
  | addr (a : Nat)
  | range (lo hi : Nat)
  | pref (a : Nat) (bits : Nat)
  deriving Repr

/-- `buildIPMatcher` on IPv4 patterns: `a-b`, `a/n`, `a`; `none` = invalid pattern (build error) -/
def parseIPPat (s : List Nat) : Option IPPat :=
  let tryAddr := (parseIPv4 s).map IPPat.addr
  if s.contains 45 then
    match Bytes.cut s [45] with
    | some (a, b) =>
      match parseIPv4 a, parseIPv4 b with
      | some lo, some hi => if lo ≤ hi then some (.range lo hi) else tryAddr
      | _, _ => tryAddr
    | none => tryAddr
  else if s.contains 47 then
    match Bytes.cut s [47] with
    | some (a, n) =>
      match parseIPv4 a with
      | some ip =>
        if !n.isEmpty && n.all isDigit && n.length ≤ 2 && !(n.length > 1 && n.head? == some 48) && digitsVal n ≤ 32
        then some (.pref ip (digitsVal n)) else tryAddr
      | none => tryAddr
    | none => tryAddr
  else tryAddr

def IPPat.matches (p : IPPat) (ip : Nat) : Bool :=
  match p with
  | .addr a => a == ip
  | .range lo hi => lo ≤ ip && ip ≤ hi
  | .pref a bits => ip / 2 ^ (32 - bits) == a / 2 ^ (32 - bits)

end Num
