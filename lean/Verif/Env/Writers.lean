import Verif.Env.Json
import Verif.Env.Logfmt
/-! Canonical writers for the document formats the parser stages read, and the well-formedness
predicates under which the environment models read a written document back (C06: "parser stages
expose exactly the fields of a line"): `Logfmt.read (Logfmt.write kvs) = (kvs, false)` and
`Json.readObject c (Json.writeObj fs) = (fs, false)` are proved in Lemmas/C06Writers.lean. -/

namespace Logfmt

/-- escapes used inside a quoted value -/
def escByte (b : Nat) : List Nat :=
  if b == 34 then [92, 34] else if b == 92 then [92, 92]
  else if b == 10 then [92, 110] else if b == 13 then [92, 114] else if b == 9 then [92, 116]
  else [b]

def writePair (kv : List Nat × List Nat) : List Nat :=
  kv.1 ++ [61, 34] ++ (kv.2.map escByte).flatten ++ [34]

/-- `k1="v1" k2="v2" …` -/
def write : List (List Nat × List Nat) → List Nat
  | [] => []
  | [kv] => writePair kv
  | kv :: rest => writePair kv ++ 32 :: write rest

/-- a key the decoder takes as is: non-empty, printable ASCII without `=` and `"` -/
def keyOK (k : List Nat) : Bool := !k.isEmpty && k.all (fun c => c > 32 && c < 128 && c != 61 && c != 34)

/-- ASCII text whose control characters are tab, line feed and carriage return only -/
def valOK (v : List Nat) : Bool := v.all (fun c => c < 128 && (c ≥ 32 || c == 9 || c == 10 || c == 13))

end Logfmt

namespace Json

def hexDigit (n : Nat) : Nat := if n < 10 then 48 + n else 87 + n

/-- string escapes: `"` and `\` by backslash, control characters as `\u00XX` -/
def escByte (b : Nat) : List Nat :=
  if b == 34 then [92, 34] else if b == 92 then [92, 92]
  else if b < 32 then [92, 117, 48, 48, hexDigit (b / 16), hexDigit (b % 16)]
  else [b]

def writeStr (s : List Nat) : List Nat := 34 :: (s.map escByte).flatten ++ [34]

/-- scalar values only (nested values are kept as raw text by the model and are not written here) -/
def writeVal : JVal → List Nat
  | .str s => writeStr s
  | .int i => Bytes.intToDec i
  | .bool true => [116, 114, 117, 101]
  | .bool false => [102, 97, 108, 115, 101]
  | .null => [110, 117, 108, 108]
  | .num _ => [48]          -- not written canonically: excluded by `valOK`
  | .nested raw => raw

def writeMembers : List (List Nat × JVal) → List Nat
  | [] => []
  | [f] => writeStr f.1 ++ 58 :: writeVal f.2
  | f :: rest => writeStr f.1 ++ 58 :: writeVal f.2 ++ 44 :: writeMembers rest

/-- `{"k1":v1,"k2":v2,…}` -/
def writeObj (fs : List (List Nat × JVal)) : List Nat := 123 :: writeMembers fs ++ [125]

def asciiOK (s : List Nat) : Bool := s.all (· < 128)

/-- strings of ASCII text, integers in the int64 range, booleans and null -/
def valOK : JVal → Bool
  | .str s => asciiOK s
  | .int i => decide (-9223372036854775808 ≤ i ∧ i ≤ 9223372036854775807)
  | .bool _ => true
  | .null => true
  | _ => false

def fieldsOK (fs : List (List Nat × JVal)) : Bool := fs.all (fun f => asciiOK f.1 && valOK f.2)

end Json
