import Verif.Env.JsonExpr
import Verif.Env.Writers
/-! JSON documents as trees, their canonical text, and what a list of path expressions denotes on a
tree (no parsing involved): a scalar at a requested path is exposed with its value (strings
unescaped, integers as written, `null` as the empty text), an array or object at a requested path
with its text; in document order.  Lemmas/JsonTree.lean proves that the byte-level extractor the
correspondence runs against `jsonexpr.Extract` computes exactly this on the text of any well-formed
tree. -/
namespace JsonTree
open Json JsonExpr

inductive JT where
  | str (s : List Nat)
  | int (i : Int)
  | bool (b : Bool)
  | null
  | arr (xs : List JT)
  | obj (fs : List (List Nat × JT))

mutual
/-- canonical text: no white space, members in order -/
def writeT : JT → List Nat
  | .str s => writeStr s
  | .int i => Bytes.intToDec i
  | .bool true => [116, 114, 117, 101]
  | .bool false => [102, 97, 108, 115, 101]
  | .null => [110, 117, 108, 108]
  | .arr xs => 91 :: writeElems xs ++ [93]
  | .obj fs => 123 :: writeFields fs ++ [125]
def writeElems : List JT → List Nat
  | [] => []
  | x :: rest => writeT x ++ (match rest with | [] => [] | _ :: _ => 44 :: writeElems rest)
def writeFields : List (List Nat × JT) → List Nat
  | [] => []
  | (k, v) :: rest => writeStr k ++ 58 :: writeT v ++ (match rest with | [] => [] | _ :: _ => 44 :: writeFields rest)
end

mutual
/-- strings and keys are ASCII -/
def wfT : JT → Bool
  | .str s => asciiOK s
  | .arr xs => wfElems xs
  | .obj fs => wfFields fs
  | _ => true
def wfElems : List JT → Bool
  | [] => true
  | x :: rest => wfT x && wfElems rest
def wfFields : List (List Nat × JT) → Bool
  | [] => true
  | (k, v) :: rest => asciiOK k && wfT v && wfFields rest
end

mutual
/-- what the requested paths select in the tree rooted at path `cur`, in document order -/
def denote (paths : List (List Nat × Path)) : Path → JT → Emits
  | cur, .str s => (hits paths cur).map (fun l => (l, s))
  | cur, .int i => (hits paths cur).map (fun l => (l, Bytes.intToDec i))
  | cur, .bool true => (hits paths cur).map (fun l => (l, [116, 114, 117, 101]))
  | cur, .bool false => (hits paths cur).map (fun l => (l, [102, 97, 108, 115, 101]))
  | cur, .null => (hits paths cur).map (fun l => (l, []))
  | cur, .arr xs => (hits paths cur).map (fun l => (l, 91 :: writeElems xs ++ [93])) ++ denoteElems paths cur 0 xs
  | cur, .obj fs => (hits paths cur).map (fun l => (l, 123 :: writeFields fs ++ [125])) ++ denoteFields paths cur fs
def denoteElems (paths : List (List Nat × Path)) : Path → Nat → List JT → Emits
  | _, _, [] => []
  | cur, n, x :: rest => denote paths (cur ++ [.idx n]) x ++ denoteElems paths cur (n + 1) rest
def denoteFields (paths : List (List Nat × Path)) : Path → List (List Nat × JT) → Emits
  | _, [] => []
  | cur, (k, v) :: rest => denote paths (cur ++ [.key k]) v ++ denoteFields paths cur rest
end

end JsonTree
