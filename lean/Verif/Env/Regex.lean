/-! Environment model of Go `regexp` (RE2 semantics, leftmost-first) on a byte-level regex subset:
literal bytes, classes, `.` (any byte but `\n`), sequence, alternation, greedy `* + ?`,
capturing groups, the anchors `^` and `$`.  Executable backtracking matcher in continuation-passing style with fuel.
Used by the driver only; theorems are parametric in a matcher.  Inputs are ASCII (or single
invalid bytes): multi-byte runes are outside the model. -/
namespace Regex

inductive Re where
  | chr (c : Nat)
  | cls (neg : Bool) (ranges : List (Nat × Nat))
  | any
  | eps
  | seq (a b : Re)
  | alt (a b : Re)
  | star (r : Re)
  | plus (r : Re)
  | opt (r : Re)
  | grp (idx : Nat) (r : Re)
  | bol          -- `^` (no multi-line mode)
  | eol          -- `$`
  deriving Repr, Inhabited

abbrev Caps := List (Nat × Nat × Nat)   -- (group, start, end), most recent first

def m : Nat → Re → Nat → List Nat → Caps → (Nat → List Nat → Caps → Option Caps) → Option Caps
  | 0, _, _, _, _, _ => none
  | fuel + 1, r, pos, s, caps, k =>
    match r with
    | .chr c => match s with
      | x :: t => if x = c then k (pos + 1) t caps else none
      | [] => none
    | .cls neg rs => match s with
      | x :: t => if (rs.any fun (lo, hi) => lo ≤ x && x ≤ hi) != neg then k (pos + 1) t caps else none
      | [] => none
    | .any => match s with
      | x :: t => if x ≠ 10 then k (pos + 1) t caps else none
      | [] => none
    | .eps => k pos s caps
    | .seq a b => m fuel a pos s caps (fun p s' c => m fuel b p s' c k)
    | .alt a b => match m fuel a pos s caps k with
      | some c => some c
      | none => m fuel b pos s caps k
    | .star r1 =>
      match m fuel r1 pos s caps (fun p s' c => if p > pos then m fuel (.star r1) p s' c k else none) with
      | some c => some c
      | none => k pos s caps
    | .plus r1 => m fuel (.seq r1 (.star r1)) pos s caps k
    | .opt r1 => match m fuel r1 pos s caps k with
      | some c => some c
      | none => k pos s caps
    | .grp i r1 => m fuel r1 pos s caps (fun p s' c => k p s' ((i, pos, p) :: c))
    | .bol => if pos = 0 then k pos s caps else none
    | .eol => if s.isEmpty then k pos s caps else none

def size : Re → Nat
  | .seq a b | .alt a b => size a + size b + 1
  | .star r | .plus r | .opt r | .grp _ r => size r + 2
  | _ => 1

def fuelFor (r : Re) (s : List Nat) : Nat := (size r + 4) * (s.length + 2) * 4

/-- `^(?:r)$` -/
def fullMatch (r : Re) (s : List Nat) : Bool :=
  (m (fuelFor r s) r 0 s [] (fun _ s' c => if s'.isEmpty then some c else none)).isSome

def searchFrom (r : Re) (fuel : Nat) : Nat → List Nat → Nat → Option (Nat × Nat × Caps)
  | 0, _, _ => none
  | n + 1, s, pos =>
    match m fuel r pos s [] (fun p _ c => some ((0, pos, p) :: c)) with
    | some c => match c.find? (·.1 == 0) with
      | some (_, a, b) => some (a, b, c)
      | none => none
    | none => match s with
      | [] => none
      | _ :: t => searchFrom r fuel n t (pos + 1)

/-- unanchored `MatchString` -/
def search (r : Re) (s : List Nat) : Bool := (searchFrom r (fuelFor r s) (s.length + 1) s 0).isSome

/-- `FindStringSubmatchIndex` for groups 1..n (group 0 first) -/
def submatch (r : Re) (n : Nat) (s : List Nat) : Option (List (Option (Nat × Nat))) :=
  match searchFrom r (fuelFor r s) (s.length + 1) s 0 with
  | none => none
  | some (a, b, caps) =>
    some ((some (a, b)) :: (List.range n).map fun i => (caps.find? (·.1 == i + 1)).map (fun x => (x.2.1, x.2.2)))

end Regex
