import Verif.Base.Bytes
/-! Environment model of Go `text/template` (with `missingkey=zero`) on a five-construct
template language: literal text, `{{.field}}`, `{{__line__}}`,
`{{ unixEpochNanos __timestamp__ }}`, a construct whose execution always fails
(`{{ unixToTime "x" }}`), and one whose failure depends on the record
(`{{ unixToTime .field | unixEpochNanos }}`).  Execution either yields the whole expansion or fails (partial output
is discarded by the callers). -/
namespace Template

inductive Part
  | lit (b : List Nat)
  | field (name : List Nat)
  | line
  | ts
  | fail
  | epoch (name : List Nat)
  deriving DecidableEq, Repr

abbrev Tpl := List Part

/-- `strconv.ParseInt(s, 10, 64)`: optional sign, at least one digit, only digits, in int64 range -/
def parseInt64 (s : List Nat) : Option Int :=
  let (neg, ds) := match s with
    | 45 :: r => (true, r)
    | 43 :: r => (false, r)
    | r => (false, r)
  if ds.isEmpty || !ds.all (fun c => decide (48 ≤ c ∧ c ≤ 57)) then none
  else
    let n : Nat := ds.foldl (fun a c => a * 10 + (c - 48)) 0
    let v : Int := if neg then -(n : Int) else (n : Int)
    if v < -9223372036854775808 ∨ v > 9223372036854775807 then none else some v

def wrap64 (v : Int) : Int :=
  let m := v % 18446744073709551616
  if m ≥ 9223372036854775808 then m - 18446744073709551616 else m

/-- `unixToTime v | unixEpochNanos`: the unit is chosen by the *length of the text* -/
def epochNanos (v : List Nat) : Option Int :=
  match parseInt64 v with
  | none => none
  | some i =>
    match v.length with
    | 5 => some (wrap64 (i * 86400 * 1000000000))
    | 10 => some (wrap64 (i * 1000000000))
    | 13 => some (wrap64 (i * 1000000))
    | 16 => some (wrap64 (i * 1000))
    | 19 => some i
    | _ => none

def exec (t : Tpl) (ts : Int) (line : List Nat) (labels : List (List Nat × List Nat)) : Option (List Nat) :=
  t.foldl (fun acc p =>
    match acc with
    | none => none
    | some out =>
      match p with
      | .lit b => some (out ++ b)
      | .field n => some (out ++ (labels.lookup n).getD [])
      | .line => some (out ++ line)
      | .ts => some (out ++ Bytes.intToDec ts)
      | .fail => none
      | .epoch n => (epochNanos ((labels.lookup n).getD [])).map fun v => out ++ Bytes.intToDec v) (some [])

end Template
