import Verif.Base.Bytes
/-! Environment model of Go `text/template` (with `missingkey=zero`) on a five-construct
template language: literal text, `{{.field}}`, `{{__line__}}`,
`{{ unixEpochNanos __timestamp__ }}`, and a construct whose execution fails
(`{{ unixToTime "x" }}`).  Execution either yields the whole expansion or fails (partial output
is discarded by the callers). -/
namespace Template

inductive Part
  | lit (b : List Nat)
  | field (name : List Nat)
  | line
  | ts
  | fail
  deriving DecidableEq, Repr

abbrev Tpl := List Part

def exec (t : Tpl) (ts : Int) (line : List Nat) (labels : List (List Nat × List Nat)) : Option (List Nat) :=
  t.foldl (fun acc p =>
    match acc with
    | none => none
    | some out =>
      match p with
      | .lit b => some (out ++ b)
      | .field n => some (out ++ (labels.lookup n).getD [])
      | .line => some (out ++ line)
      | .ts => some (out ++ Bytes.intToDec ts)
      | .fail => none) (some [])

end Template
