import Verif.Lemmas.C15Generic
import Verif.Gen.Palette
/-! C15 — rendering prints every entry once, in time order, for any input. -/
namespace Render.C15
open Render Bytes

/-! ## palette -/

/-- regenerated fact: the palette index is inside the palette for EVERY number of containers -/
theorem palette_in_range (n : Nat) : Gen.paletteIndex n Gen.paletteLen < Gen.paletteLen := by
  unfold Gen.paletteIndex Gen.paletteLen; omega

theorem colorTable_gen (cs : List (List Nat)) :
    colorTable Gen.paletteIndex Gen.paletteLen cs =
      some (cs.zipIdx.map fun ck => (ck.1, paletteColor (Gen.paletteIndex ck.2 Gen.paletteLen))) :=
  colorTable_eq _ _ palette_in_range cs

/-- rendering succeeds (no panic) for any number of containers, any entries, all option combinations -/
theorem render_never_panics (o : Opts) (ss : List Stream) :
    (render Gen.paletteIndex Gen.paletteLen o ss).isSome = true := by
  unfold render
  cases o.color <;> simp [colorTable_gen]

/-! ## records -/

theorem render_eq_gen (o : Opts) (ss : List Stream) :
    ∃ colors, render Gen.paletteIndex Gen.paletteLen o ss =
      some ((sortByT (flatten ss)).flatMap (lineOf o colors)) := by
  unfold render
  cases o.color
  · exact ⟨[], by simp⟩
  · refine ⟨(containersOf (flatten ss)).zipIdx.map fun ck =>
      (ck.1, paletteColor (Gen.paletteIndex ck.2 Gen.paletteLen)), ?_⟩
    simp [colorTable_gen]

/-- exactly one output record per entry, each terminated by a line feed, in the order of `sortByT` -/
theorem one_record_per_entry (o : Opts) (ss : List Stream) (out : List Nat)
    (h : render Gen.paletteIndex Gen.paletteLen o ss = some out) :
    ∃ recs : List (List Nat), out = recs.flatten ∧ recs.length = (flatten ss).length ∧
      ∀ r ∈ recs, r.getLast? = some 10 := by
  obtain ⟨colors, hr⟩ := render_eq_gen o ss
  rw [hr] at h
  refine ⟨(sortByT (flatten ss)).map (lineOf o colors), ?_, ?_, ?_⟩
  · rw [← List.flatMap_def]; exact (Option.some.inj h).symm
  · rw [List.length_map, sortByT_length]
  · intro r hr
    obtain ⟨e, _, rfl⟩ := List.mem_map.1 hr
    exact lineOf_last o colors e

/-- sharper form: the records are exactly the lines of the entries in `sortByT` order -/
theorem records_are_sorted_lines (o : Opts) (ss : List Stream) (out : List Nat)
    (h : render Gen.paletteIndex Gen.paletteLen o ss = some out) :
    ∃ colors, out = ((sortByT (flatten ss)).map (lineOf o colors)).flatten := by
  obtain ⟨colors, hr⟩ := render_eq_gen o ss
  rw [hr] at h
  exact ⟨colors, by rw [← List.flatMap_def]; exact (Option.some.inj h).symm⟩

/-! ## colours -/

set_option linter.unusedVariables false in
/-- colour on: every record of container c starts with the same colour code, a function of the container alone -/
theorem colour_consistent (o : Opts) (ss : List Stream) (colors : List (List Nat × List Nat))
    (h : colorTable Gen.paletteIndex Gen.paletteLen (containersOf (flatten ss)) = some colors) (e1 e2 : Entry)
    (hc : e1.container = e2.container) :
    colors.lookup e1.container = colors.lookup e2.container := by
  rw [hc]

/-- every rendered container has a colour -/
theorem colour_assigned (ss : List Stream) (colors : List (List Nat × List Nat))
    (h : colorTable Gen.paletteIndex Gen.paletteLen (containersOf (flatten ss)) = some colors) (e : Entry)
    (he : e ∈ flatten ss) :
    ∃ code, colors.lookup e.container = some code := by
  rw [colorTable_gen] at h
  have h' := Option.some.inj h
  subst h'
  apply lookup_of_mem_keys
  have hm := mem_containersOf he
  simp only [List.map_map, List.mem_map, Function.comp_def]
  obtain ⟨i, hi, hget⟩ := List.getElem_of_mem hm
  exact ⟨(e.container, i), by
    rw [List.mem_zipIdx_iff_getElem?]; simp [hget, hi], rfl⟩

/-- the colour code is one of the palette's: `ESC [ 3k m` with `1 ≤ k ≤ 7` -/
theorem colour_from_palette (ss : List Stream) (colors : List (List Nat × List Nat))
    (h : colorTable Gen.paletteIndex Gen.paletteLen (containersOf (flatten ss)) = some colors) :
    ∀ p ∈ colors, ∃ k, 1 ≤ k ∧ k < Gen.paletteLen ∧ p.2 = paletteColor k := by
  rw [colorTable_gen] at h
  have h' := Option.some.inj h
  subst h'
  intro p hp
  obtain ⟨ck, _, rfl⟩ := List.mem_map.1 hp
  refine ⟨_, ?_, palette_in_range ck.2, rfl⟩
  unfold Gen.paletteIndex; omega

/-! ## non-vacuity -/

example : ∃ out, render Gen.paletteIndex Gen.paletteLen ⟨true, true, true⟩ exStreams = some out ∧ out ≠ [] :=
  ⟨_, rfl, by decide⟩

/-- colour off, on the example: "a 1970-01-01T00:00:00.000000005Z x\nb 1970-01-01T00:00:01.000000001Z y\na 1970-01-01T00:00:02Z hi\n" -/
example : render Gen.paletteIndex Gen.paletteLen ⟨true, true, false⟩ exStreams =
    some [97, 32, 49, 57, 55, 48, 45, 48, 49, 45, 48, 49, 84, 48, 48, 58, 48, 48, 58, 48, 48, 46, 48, 48, 48, 48, 48, 48,
      48, 48, 53, 90, 32, 120, 10, 98, 32, 49, 57, 55, 48, 45, 48, 49, 45, 48, 49, 84, 48, 48, 58, 48, 48, 58, 48, 49, 46,
      48, 48, 48, 48, 48, 48, 48, 48, 49, 90, 32, 121, 10, 97, 32, 49, 57, 55, 48, 45, 48, 49, 45, 48, 49, 84, 48, 48, 58,
      48, 48, 58, 48, 50, 90, 32, 104, 105, 10] := by decide +kernel

example : ∃ colors, colorTable Gen.paletteIndex Gen.paletteLen (containersOf (flatten exStreams)) = some colors ∧
    (∃ e1 ∈ flatten exStreams, ∃ e2 ∈ flatten exStreams, e1 ≠ e2 ∧ e1.container = e2.container) :=
  ⟨_, rfl, by decide⟩

end Render.C15
