import Verif.Model.LogEval
import Verif.Gen.Offload
namespace LogQL.C01
open LogQL

/-- stages that never change the line and have no state: `apply` returns the same line (if it keeps the record), returns `seen` unchanged, and does not depend on `seen` -/
def lineStateless : Stage → Bool
  | .lineFilter .. | .lineFilterIP .. | .json .. | .logfmt .. | .regexp .. | .pattern ..
  | .labelFormat .. | .drop .. | .keep .. | .labelFilter .. => true
  | .unpack | .lineFormat .. | .decolorize | .distinct .. => false

/-- stages that never change the line (may be stateful) -/
def keepsLine : Stage → Bool
  | .lineFilter .. | .lineFilterIP .. | .json .. | .logfmt .. | .regexp .. | .pattern ..
  | .labelFormat .. | .drop .. | .keep .. | .labelFilter .. | .distinct .. => true
  | .unpack | .lineFormat .. | .decolorize => false

/-! ### 1. regenerated facts about `Gen.classify` -/

theorem classify_lineFilter (s : Stage) (h : Gen.classify s = .lineFilter) : ∃ op v re, s = .lineFilter op v re := by
  cases s <;> simp [Gen.classify] at h
  exact ⟨_, _, _, rfl⟩

theorem classify_not_stop_lineStateless (s : Stage) (h : Gen.classify s ≠ .stop) : lineStateless s = true := by
  cases s <;> simp [Gen.classify] at h <;> rfl

/-! ### 2. semantics of `lineStateless` stages -/

theorem apply_lineStateless (env : Env) (ts : Int) (s : Stage) (h : lineStateless s = true) (seen : Seen) (a : Acc) :
    (s.apply env ts seen a).2 = seen ∧ (∀ a', (s.apply env ts seen a).1 = some a' → a'.line = a.line) ∧
    (∀ seen', (s.apply env ts seen' a).1 = (s.apply env ts seen a).1) := by
  cases s <;> simp [lineStateless] at h
  all_goals (unfold Stage.apply; simp only [])
  all_goals refine ⟨?_, ?_, ?_⟩
  all_goals first
    | rfl
    | trivial
    | (intro _; trivial)
    | ((repeat' split) <;> rfl)
    | (intro a' h'
       revert h'
       (repeat' split) <;> intro h' <;> first
         | (have h'' := Option.some.inj h'; subst h''; rfl)
         | (simp at h'; done))
    | (intro seen'; first | rfl | ((repeat' split) <;> rfl))

/-- stages that keep the line -/
theorem apply_keepsLine (env : Env) (ts : Int) (s : Stage) (h : keepsLine s = true) (seen : Seen) (a a' : Acc)
    (h' : (s.apply env ts seen a).1 = some a') : a'.line = a.line := by
  by_cases hd : lineStateless s = true
  · exact (apply_lineStateless env ts s hd seen a).2.1 a' h'
  · cases s <;> simp [lineStateless, keepsLine] at hd h
    unfold Stage.apply at h'
    simp only [] at h'
    split at h'
    · cases h'; rfl
    · simp at h'

theorem runStages_keepsLine (env : Env) (ts : Int) (stages : List Stage) (hk : ∀ s ∈ stages, keepsLine s = true)
    (seens : List Seen) (a a' : Acc) (h : (runStages env ts stages seens a).1 = some a') : a'.line = a.line := by
  induction stages generalizing seens a with
  | nil => simp [runStages] at h; rw [← h]
  | cons s ss ih =>
    unfold runStages at h
    simp only [] at h
    split at h
    · simp at h
    · rename_i a1 seen' heq
      have h1 : a1.line = a.line :=
        apply_keepsLine env ts s (hk s (by simp)) _ a a1 (by rw [heq])
      rw [← h1]
      exact ih (fun x hx => hk x (by simp [hx])) _ _ h

/-! ### 4. nothing invented, nothing duplicated, order and timestamps kept -/

theorem entries_ts_sublist (env : Env) (pre : List StrMatcher) (stages : List Stage) (limit : Int) (recs : List Rec) (seens : List Seen) (count : Nat) :
    ((iterate env pre stages limit recs seens count).map (·.ts)).Sublist (recs.map (·.ts)) := by
  induction recs generalizing seens count with
  | nil => simp [iterate]
  | cons r rs ih =>
    unfold iterate
    split
    · simp
    · simp only []
      split
      · exact List.Sublist.cons _ (ih _ _)
      · split
        · exact List.Sublist.cons _ (ih _ _)
        · simp only [List.map_cons]
          exact List.Sublist.cons_cons _ (ih _ _)

theorem line_preserved (env : Env) (pre : List StrMatcher) (stages : List Stage) (hk : ∀ s ∈ stages, keepsLine s = true) (limit : Int) (recs : List Rec) (seens : List Seen) (count : Nat) :
    ((iterate env pre stages limit recs seens count).map (fun e => (e.ts, e.line))).Sublist (recs.map (fun r => (r.ts, r.body))) := by
  induction recs generalizing seens count with
  | nil => simp [iterate]
  | cons r rs ih =>
    unfold iterate
    split
    · simp
    · simp only []
      split
      · exact List.Sublist.cons _ (ih _ _)
      · split
        · exact List.Sublist.cons _ (ih _ _)
        · rename_i a seens' heq
          have hl : a.line = r.body :=
            runStages_keepsLine env r.ts stages hk seens ⟨r.body, recLabels r⟩ a (by rw [heq])
          simp only [List.map_cons, hl]
          exact List.Sublist.cons_cons _ (ih _ _)

/-! ### 3. capability independence -/

/-- per-stage `distinct` states compared position-wise, a missing position being the empty state -/
def seensEq (a b : List Seen) : Prop := ∀ i, a.getD i [] = b.getD i []

theorem seensEq_refl (a : List Seen) : seensEq a a := fun _ => rfl

theorem seensEq_headD {a b : List Seen} (h : seensEq a b) : a.headD [] = b.headD [] := by
  have := h 0
  cases a <;> cases b <;> simp_all

theorem seensEq_tail {a b : List Seen} (h : seensEq a b) : seensEq a.tail b.tail := by
  intro i
  have := h (i + 1)
  cases a <;> cases b <;> simp_all

theorem seensEq_cons {x : Seen} {a b : List Seen} (h : seensEq a b) : seensEq (x :: a) (x :: b) := by
  intro i
  cases i with
  | zero => rfl
  | succ i => simpa using h i

theorem seensEq_cons_self {t : List Seen} (seens : List Seen) (h : seensEq t seens.tail) :
    seensEq (seens.headD [] :: t) seens := by
  intro i
  cases i with
  | zero => cases seens <;> simp
  | succ i =>
    have := h i
    cases seens <;> simpa using this

/-- `runStages` respects `seensEq` -/
theorem runStages_congr (env : Env) (ts : Int) (stages : List Stage) (s1 s2 : List Seen) (h : seensEq s1 s2) (a : Acc) :
    (runStages env ts stages s1 a).1 = (runStages env ts stages s2 a).1 ∧
    seensEq (runStages env ts stages s1 a).2 (runStages env ts stages s2 a).2 := by
  induction stages generalizing s1 s2 a with
  | nil => simp [runStages, seensEq_refl]
  | cons s ss ih =>
    unfold runStages
    simp only [seensEq_headD h]
    cases hr : s.apply env ts (s2.headD []) a with
    | mk o seen' =>
      cases o with
      | none => exact ⟨rfl, seensEq_cons (seensEq_tail h)⟩
      | some a' =>
        have := ih s1.tail s2.tail (seensEq_tail h) a'
        exact ⟨this.1, seensEq_cons this.2⟩

/-- `iterate` respects `seensEq` -/
theorem iterate_congr (env : Env) (pre : List StrMatcher) (stages : List Stage) (limit : Int) (recs : List Rec)
    (s1 s2 : List Seen) (h : seensEq s1 s2) (count : Nat) :
    iterate env pre stages limit recs s1 count = iterate env pre stages limit recs s2 count := by
  induction recs generalizing s1 s2 count with
  | nil => simp [iterate]
  | cons r rs ih =>
    unfold iterate
    split
    · rfl
    · simp only []
      split
      · exact ih _ _ h _
      · have hc := runStages_congr env r.ts stages s1 s2 h ⟨r.body, recLabels r⟩
        cases h1 : runStages env r.ts stages s1 ⟨r.body, recLabels r⟩ with
        | mk o1 t1 =>
          cases h2 : runStages env r.ts stages s2 ⟨r.body, recLabels r⟩ with
          | mk o2 t2 =>
            rw [h1, h2] at hc
            obtain ⟨hc1, hc2⟩ := hc
            simp only [] at hc1 hc2
            subst hc1
            cases o1 with
            | none => exact ih _ _ hc2 _
            | some a' => simp only []; rw [ih _ _ hc2 _]

/-- once the limit is reached nothing more is produced -/
theorem iterate_limit (env : Env) (pre : List StrMatcher) (stages : List Stage) (limit : Int) (recs : List Rec)
    (seens : List Seen) (count : Nat) (h : limit > 0 ∧ (count : Int) ≥ limit) :
    iterate env pre stages limit recs seens count = [] := by
  cases recs with
  | nil => simp [iterate]
  | cons r rs => unfold iterate; simp [h]

/-- one lineStateless stage in front: if every record it lets through is dropped later without
touching the state, so is the record itself -/
theorem runStages_step_drop (env : Env) (ts : Int) (s : Stage) (ss : List Stage) (hs : lineStateless s = true)
    (seens : List Seen) (a : Acc)
    (hrest : ∀ a', (s.apply env ts (seens.headD []) a).1 = some a' →
      (runStages env ts ss seens.tail a').1 = none ∧ seensEq (runStages env ts ss seens.tail a').2 seens.tail) :
    (runStages env ts (s :: ss) seens a).1 = none ∧ seensEq (runStages env ts (s :: ss) seens a).2 seens := by
  have hst := (apply_lineStateless env ts s hs (seens.headD []) a).1
  unfold runStages
  simp only []
  cases hr : s.apply env ts (seens.headD []) a with
  | mk o seen' =>
    rw [hr] at hst hrest
    simp only [] at hst hrest
    subst hst
    cases o with
    | none => exact ⟨rfl, seensEq_cons_self seens (seensEq_refl _)⟩
    | some a' =>
      have := hrest a' rfl
      exact ⟨this.1, seensEq_cons_self seens this.2⟩

theorem LineCond_sat_apply (env : Env) (ts : Int) (op : StrOp) (v : Bytes) (re : Regex.Re) (seen : Seen) (a : Acc) :
    ((Stage.lineFilter op v re).apply env ts seen a).1 = if (LineCond.sat env ⟨op, v, re⟩ a.line) then some a else none := by
  unfold Stage.apply LineCond.sat
  cases op <;> rfl

/-- (a) a record whose line fails an offloaded line condition is dropped by the pipeline, and no
`distinct` state is touched -/
theorem runStages_offload_drop (env : Env) (caps : Caps) (ts : Int) (stages : List Stage) (seens : List Seen) (a : Acc)
    (h : (offloadLines Gen.classify caps stages).all (fun c => c.sat env a.line) = false) :
    (runStages env ts stages seens a).1 = none ∧ seensEq (runStages env ts stages seens a).2 seens := by
  induction stages generalizing seens a with
  | nil => simp [offloadLines] at h
  | cons s ss ih =>
    have hskip : (offloadLines Gen.classify caps ss).all (fun c => c.sat env a.line) = false →
        Gen.classify s ≠ .stop →
        (runStages env ts (s :: ss) seens a).1 = none ∧ seensEq (runStages env ts (s :: ss) seens a).2 seens := by
      intro h' hns
      have hs := classify_not_stop_lineStateless s hns
      refine runStages_step_drop env ts s ss hs seens a ?_
      intro a' ha'
      have hl := (apply_lineStateless env ts s hs (seens.headD []) a).2.1 a' ha'
      exact ih seens.tail a' (by rw [hl]; exact h')
    unfold offloadLines at h
    cases hc : Gen.classify s with
    | stop => simp [hc] at h
    | skip =>
      rw [hc] at h
      exact hskip h (by simp [hc])
    | lineFilter =>
      rw [hc] at h
      obtain ⟨op, v, re, rfl⟩ := classify_lineFilter s hc
      simp only [] at h
      by_cases hcap : caps.line op = true
      · simp only [hcap, if_true, List.all_cons] at h
        by_cases hsat : LineCond.sat env ⟨op, v, re⟩ a.line = true
        · simp only [hsat, Bool.true_and] at h
          exact hskip h (by simp [hc])
        · refine runStages_step_drop env ts _ ss rfl seens a ?_
          intro a' ha'
          rw [LineCond_sat_apply] at ha'
          simp [hsat] at ha'
      · simp only [hcap] at h
        exact hskip h (by simp [hc])

/-- (c) the selector is partitioned by the capability test -/
theorem sel_partition (env : Env) (caps : Caps) (sel : List StrMatcher) (ls : Labels) :
    sel.all (fun m => m.sat env ls) =
      ((sel.filter (fun m => !caps.label m.op)).all (fun m => m.sat env ls) &&
       (sel.filter (fun m => caps.label m.op)).all (fun m => m.sat env ls)) := by
  induction sel with
  | nil => rfl
  | cons m ms ih =>
    cases hc : caps.label m.op
    · simp only [List.filter_cons, hc, Bool.not_false, if_true, List.all_cons, ih, Bool.and_assoc]
      simp
    · simp only [List.filter_cons, hc, Bool.not_true, if_true, List.all_cons, ih, Bool.and_left_comm]
      simp

/-- (d) handing the backend the offloadable conditions does not change the iteration -/
theorem iterate_offload (env : Env) (caps : Caps) (sel : List StrMatcher) (stages : List Stage) (limit : Int)
    (recs : List Rec) (seens : List Seen) (count : Nat) :
    iterate env (sel.filter (fun m => !caps.label m.op)) stages limit
      (backendSelect env (sel.filter (fun m => caps.label m.op)) (offloadLines Gen.classify caps stages) recs) seens count =
    iterate env sel stages limit recs seens count := by
  induction recs generalizing seens count with
  | nil => simp [backendSelect, iterate]
  | cons r rs ih =>
    unfold backendSelect at ih ⊢
    by_cases hlim : limit > 0 ∧ (count : Int) ≥ limit
    · rw [iterate_limit _ _ _ _ _ _ _ hlim, iterate_limit _ _ _ _ _ _ _ hlim]
    rw [List.filter_cons]
    split
    · rename_i hP
      simp only [Bool.and_eq_true] at hP
      conv => lhs; unfold iterate
      conv => rhs; unfold iterate
      simp only [hlim, if_false, sel_partition env caps sel (recLabels r), hP.1, Bool.and_true]
      split
      · exact ih _ _
      · split
        · exact ih _ _
        · rw [ih]
    · rename_i hP
      rw [ih]
      conv => rhs; unfold iterate
      simp only [hlim, if_false]
      split
      · rfl
      · rename_i hsel
        simp only [Bool.not_eq_true, Bool.not_eq_false', sel_partition env caps sel (recLabels r), Bool.and_eq_true] at hsel
        have hlines : (offloadLines Gen.classify caps stages).all (fun c => c.sat env r.body) = false := by
          simpa [hsel.2] using hP
        have hd := runStages_offload_drop env caps r.ts stages seens ⟨r.body, recLabels r⟩ hlines
        cases hr : runStages env r.ts stages seens ⟨r.body, recLabels r⟩ with
        | mk o t =>
          rw [hr] at hd
          obtain ⟨hd1, hd2⟩ := hd
          simp only [] at hd1 hd2
          subst hd1
          simp only []
          exact (iterate_congr env sel stages limit rs _ _ hd2 count).symm

theorem entries_caps_indep (env : Env) (caps : Caps) (q : LogQuery) (recs : List Rec) (limit : Int) :
    entries env Gen.classify caps q recs limit = specEntries env q recs limit := by
  unfold entries specEntries
  split
  · rfl
  · simp only [iterate_offload]

/-! ### 5. exactly the matching records (stateless pipelines, no limit) -/

def denote (env : Env) (sel : List StrMatcher) (stages : List Stage) (r : Rec) : Option Entry :=
  if sel.all (fun m => m.sat env (recLabels r)) then
    ((runStages env r.ts stages [] ⟨r.body, recLabels r⟩).1).map (fun a => ⟨r.ts, a.line, a.labels⟩)
  else none

def isDistinct : Stage → Bool | .distinct .. => true | _ => false

/-- every stage except `distinct` ignores its state -/
theorem apply_nonDistinct (env : Env) (ts : Int) (s : Stage) (h : isDistinct s = false) (seen seen' : Seen) (a : Acc) :
    (s.apply env ts seen a).1 = (s.apply env ts seen' a).1 := by
  cases s <;> simp [isDistinct] at h
  all_goals (unfold Stage.apply; simp only [])
  all_goals first
    | rfl
    | ((repeat' split) <;> rfl)

theorem runStages_nonDistinct (env : Env) (ts : Int) (stages : List Stage) (hs : ∀ s ∈ stages, isDistinct s = false)
    (s1 s2 : List Seen) (a : Acc) :
    (runStages env ts stages s1 a).1 = (runStages env ts stages s2 a).1 := by
  induction stages generalizing s1 s2 a with
  | nil => rfl
  | cons s ss ih =>
    have hh := apply_nonDistinct env ts s (hs s (by simp)) (s1.headD []) (s2.headD []) a
    unfold runStages
    simp only []
    cases h1 : s.apply env ts (s1.headD []) a with
    | mk o1 t1 =>
      cases h2 : s.apply env ts (s2.headD []) a with
      | mk o2 t2 =>
        rw [h1, h2] at hh
        simp only [] at hh
        subst hh
        cases o1 with
        | none => rfl
        | some a' => exact ih (fun x hx => hs x (by simp [hx])) _ _ _

theorem iterate_stateless (env : Env) (sel : List StrMatcher) (stages : List Stage) (hs : ∀ s ∈ stages, isDistinct s = false)
    (limit : Int) (hl : limit ≤ 0) (recs : List Rec) (seens : List Seen) (count : Nat) :
    iterate env sel stages limit recs seens count = recs.filterMap (denote env sel stages) := by
  induction recs generalizing seens count with
  | nil => simp [iterate]
  | cons r rs ih =>
    have hlim : ¬ (limit > 0 ∧ (count : Int) ≥ limit) := by omega
    have hrun := runStages_nonDistinct env r.ts stages hs seens [] ⟨r.body, recLabels r⟩
    unfold iterate
    simp only [hlim, if_false, List.filterMap_cons, denote]
    cases hsel : sel.all (fun m => m.sat env (recLabels r)) with
    | false => simp only [Bool.not_false, if_true]; exact ih _ _
    | true =>
      simp only [Bool.not_true, if_true, Bool.false_eq_true, if_false]
      rw [← hrun]
      cases hr : runStages env r.ts stages seens ⟨r.body, recLabels r⟩ with
      | mk o t =>
        cases o with
        | none => simp only [Option.map_none]; exact ih _ _
        | some a => simp only [Option.map_some]; rw [ih]

theorem exact_stateless (env : Env) (sel : List StrMatcher) (stages : List Stage) (hs : ∀ s ∈ stages, isDistinct s = false)
    (limit : Int) (hl : limit ≤ 0) (recs : List Rec) :
    iterate env sel stages limit recs [] 0 = recs.filterMap (denote env sel stages) :=
  iterate_stateless env sel stages hs limit hl recs [] 0

/-! ### non-vacuity -/

/-- `classify_lineFilter`: a stage classified as a line filter exists -/
example : Gen.classify (.lineFilter .eq [120] .eps) = .lineFilter := rfl

/-- `classify_not_stop_lineStateless`: a stage that is not a `stop` exists -/
example : Gen.classify (.json [[97]] []) ≠ .stop := by decide

/-- `apply_lineStateless`: its hypothesis holds for a label-changing stage -/
example : lineStateless (.drop [[97]] []) = true := rfl

/-- `entries_caps_indep` is not about the empty offload only: with a capable backend the line filter
behind a parser and the selector matcher are really handed over -/
example :
    (offloadLines Gen.classify ⟨fun _ => true, fun _ => true⟩
      [.json [] [], .lineFilter .eq [120] .eps, .distinct [[97]], .lineFilter .ne [121] .eps]).length = 1 := rfl
example :
    ([(⟨[97], .eq, [98], .eps⟩ : StrMatcher)].filter (fun m => (⟨fun _ => true, fun _ => true⟩ : Caps).label m.op)).length = 1 := rfl

/-- `line_preserved`: a pipeline with a stateful stage satisfying the hypothesis -/
example : ∀ s ∈ [Stage.distinct [[97]], .lineFilter .eq [120] .eps, .logfmt [] []], keepsLine s = true := by
  intro s hs
  simp only [List.mem_cons, List.mem_nil_iff, or_false] at hs
  rcases hs with rfl | rfl | rfl <;> rfl

/-- `exact_stateless`: a pipeline that rewrites the line and filters, with limit 0 (= unlimited) -/
example : (∀ s ∈ [Stage.decolorize, .lineFilter .eq [120] .eps, .unpack], isDistinct s = false) ∧ (0 : Int) ≤ 0 := by
  refine ⟨?_, by decide⟩
  intro s hs
  simp only [List.mem_cons, List.mem_nil_iff, or_false] at hs
  rcases hs with rfl | rfl | rfl <;> rfl

end LogQL.C01
