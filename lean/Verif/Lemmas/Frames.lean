import Verif.Model.Frames
/-! Helper lemmas for C03. -/
namespace Frames

theorem readBe32_be32 (n : Nat) (h : n < 4294967296) : readBe32 (be32 n) = n := by
  simp only [be32, readBe32]
  omega

theorem cutSpace_append (t body : List Nat) (h : ∀ b ∈ t, b ≠ 32) :
    cutSpace (t ++ 32 :: body) = some (t, body) := by
  induction t with
  | nil => simp [cutSpace]
  | cons a t ih =>
    have ha : a ≠ 32 := h a (by simp)
    simp [cutSpace, ha, ih (fun b hb => h b (by simp [hb]))]

theorem cutSpace_none (t : List Nat) (h : ∀ b ∈ t, b ≠ 32) : cutSpace t = none := by
  induction t with
  | nil => simp [cutSpace]
  | cons a t ih =>
    have ha : a ≠ 32 := h a (by simp)
    simp [cutSpace, ha, ih (fun b hb => h b (by simp [hb]))]

/-- the timestamp codec assumed of the daemon's `RFC3339Nano` printer and Go's parser -/
structure Codec (fmtTs : Int → List Nat) (parseTs : List Nat → Option Int) : Prop where
  roundtrip : ∀ t, parseTs (fmtTs t) = some t
  nospace : ∀ t, ∀ b ∈ fmtTs t, b ≠ 32

/-- a frame the daemon can emit: not the error stream, size fits the 32-bit length field -/
def WF (fmtTs : Int → List Nat) (r : Rec) : Prop :=
  r.typ ≠ 3 ∧ (payload fmtTs r).length < 4294967296

variable {fmtTs : Int → List Nat} {parseTs : List Nat → Option Int}

theorem encode_length (r : Rec) : (encode fmtTs r).length = 8 + (payload fmtTs r).length := by
  simp [encode, be32]; omega

/-- a raw frame with header type `typ` and payload `p` -/
def rawFrame (typ : Nat) (p : List Nat) : List Nat := [typ, 0, 0, 0] ++ be32 p.length ++ p

theorem encode_eq_raw (r : Rec) : encode fmtTs r = rawFrame r.typ (payload fmtTs r) := rfl

theorem rawFrame_length (typ : Nat) (p : List Nat) : (rawFrame typ p).length = 8 + p.length := by
  simp [rawFrame, be32]; omega

/-- what `step` sees of a complete raw frame followed by anything -/
theorem step_raw (typ : Nat) (p tail : List Nat) (hlen : p.length < 4294967296) :
    step parseTs (rawFrame typ p ++ tail) =
      if typ = 3 then .stop .errDaemon else
      match cutSpace p with
      | none => .stop .errNoSpace
      | some (t, body) =>
        match parseTs t with
        | none => .stop .errTs
        | some ts => .item ⟨ts, typ, body⟩ tail := by
  have hsz : readBe32 (((rawFrame typ p ++ tail).drop 4).take 4) = p.length := by
    have := readBe32_be32 _ hlen
    simpa [rawFrame, be32] using this
  have hdrop : (rawFrame typ p ++ tail).drop 8 = p ++ tail := by
    simp [rawFrame, be32]
  have hhead : (rawFrame typ p ++ tail).headD 0 = typ := by simp [rawFrame]
  have hl : ¬ (rawFrame typ p ++ tail).length < 8 := by
    simp [rawFrame_length]; omega
  have h2 : ¬ (p ++ tail).length < p.length := by simp
  unfold step
  simp only [hl, ↓reduceIte, hsz, hdrop, hhead, h2, List.take_left', List.drop_left']
  split
  · rfl
  · cases cutSpace p with
    | none => rfl
    | some tb =>
      obtain ⟨t, body⟩ := tb
      simp only
      cases parseTs t <;> rfl

theorem step_frame (hc : Codec fmtTs parseTs) (r : Rec) (hr : WF fmtTs r) (tail : List Nat) :
    step parseTs (encode fmtTs r ++ tail) = .item r tail := by
  obtain ⟨htyp, hlen⟩ := hr
  rw [encode_eq_raw, step_raw _ _ _ hlen]
  have hcut : cutSpace (payload fmtTs r) = some (fmtTs r.ts, r.body) :=
    cutSpace_append _ _ (hc.nospace r.ts)
  simp only [htyp, ↓reduceIte, hcut, hc.roundtrip]

theorem decode_frame (hc : Codec fmtTs parseTs) (r : Rec) (hr : WF fmtTs r) (tail : List Nat) (fuel : Nat) :
    decode parseTs (fuel + 1) (encode fmtTs r ++ tail) =
      ((r :: (decode parseTs fuel tail).1), (decode parseTs fuel tail).2) := by
  rw [decode, step_frame hc r hr tail]

/-- records `rs` in front of any continuation: they are decoded and decoding continues -/
theorem decode_prefix (hc : Codec fmtTs parseTs) (rs : List Rec) (hr : ∀ r ∈ rs, WF fmtTs r)
    (tail : List Nat) (fuel : Nat) :
    decode parseTs (rs.length + fuel) (encodeAll fmtTs rs ++ tail) =
      (rs ++ (decode parseTs fuel tail).1, (decode parseTs fuel tail).2) := by
  induction rs with
  | nil => simp [encodeAll]
  | cons r rs ih =>
    have hfa := decode_frame hc r (hr r (by simp)) (encodeAll fmtTs rs ++ tail) (rs.length + fuel)
    have e : (r :: rs).length + fuel = rs.length + fuel + 1 := by simp; omega
    simp only [encodeAll, List.flatMap_cons, List.append_assoc] at hfa ⊢
    rw [e, hfa]
    have ih' := ih (fun x hx => hr x (by simp [hx]))
    simp only [encodeAll] at ih'
    rw [ih']
    simp

/-- more fuel than frames never changes the result -/
theorem decode_fuel_mono (fuel : Nat) : ∀ (bs : List Nat), bs.length < 8 * fuel →
    ∀ k, decode parseTs (fuel + k) bs = decode parseTs fuel bs := by
  induction fuel with
  | zero => intro bs h; simp at h
  | succ f ih =>
    intro bs hbs k
    have e : f + 1 + k = (f + k) + 1 := by omega
    rw [e, decode, decode]
    cases hs : step parseTs bs with
    | stop e => rfl
    | item r rest =>
      simp only
      have hrest : rest.length < 8 * f := by
        -- an item consumes at least the 8-byte header
        unfold step at hs
        split at hs
        · cases hs
        · split at hs
          · cases hs
          · split at hs
            · cases hs
            · split at hs
              · cases hs
              · split at hs
                · cases hs
                · cases hs
                  simp only [List.length_drop]
                  omega
      rw [ih rest hrest k]

theorem encodeAll_length_ge (rs : List Rec) : 8 * rs.length ≤ (encodeAll fmtTs rs).length := by
  induction rs with
  | nil => simp [encodeAll]
  | cons r rs ih =>
    simp only [encodeAll, List.flatMap_cons, List.length_append, encode_length, List.length_cons] at ih ⊢
    omega

end Frames
