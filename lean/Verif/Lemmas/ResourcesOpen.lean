import Verif.Lemmas.Resources
/-! Which readers an evaluation opens: all opens of a selection are attempted (no cancellation on
the first failure), and nothing is opened when the pipeline cannot be built or listing fails. -/
namespace Resources

/-- the readers `openAll` adds: container `i + j` of selection `k` for every `j` whose open does
not fail -/
theorem openAll_opened (k : Nat) (fs : List Fault) (i : Nat) (st : St) (r : Rid) :
    r ∈ (openAll k i fs st).2.2.opened ↔
      r ∈ st.opened ∨ ∃ j, ∃ h : j < fs.length, r = (k, i + j) ∧ fs[j] ≠ .openFail := by
  induction fs generalizing i st with
  | nil => simp [openAll]
  | cons f fs ih =>
    unfold openAll
    by_cases hf : f = .openFail
    · simp only [hf, if_true, ih]
      constructor
      · rintro (h | ⟨j, hj, rfl, hne⟩)
        · exact .inl h
        · exact .inr ⟨j + 1, by simpa using hj, by simp; omega, by simpa using hne⟩
      · rintro (h | ⟨j, hj, hr, hne⟩)
        · exact .inl h
        · cases j with
          | zero => simp at hne
          | succ j =>
            exact .inr ⟨j, by simpa using hj, by rw [hr]; simp; omega, by simpa using hne⟩
    · simp only [hf, if_false, ih]
      constructor
      · rintro (h | ⟨j, hj, rfl, hne⟩)
        · simp only [List.mem_cons] at h
          rcases h with rfl | h
          · exact .inr ⟨0, by simp, by simp, by simpa using hf⟩
          · exact .inl h
        · exact .inr ⟨j + 1, by simpa using hj, by simp; omega, by simpa using hne⟩
      · rintro (h | ⟨j, hj, hr, hne⟩)
        · exact .inl (by simp [h])
        · cases j with
          | zero => exact .inl (by simp [hr])
          | succ j =>
            exact .inr ⟨j, by simpa using hj, by rw [hr]; simp; omega, by simpa using hne⟩

theorem closeAll_opened (rids : List Rid) (st : St) : (closeAll rids st).opened = st.opened := rfl

/-- readers opened by `selectLogs`, whatever its outcome -/
theorem selectLogs_opened (s : Sel) (st : St) (r : Rid) :
    r ∈ (selectLogs s st).2.opened ↔
      r ∈ st.opened ∨ (s.stageOk = true ∧ s.listFails = false ∧
        ∃ j, ∃ h : j < s.ctrs.length, r = (st.nextSel, j) ∧ s.ctrs[j] ≠ .openFail) := by
  unfold selectLogs
  cases h1 : s.stageOk
  · simp
  · cases h2 : s.listFails
    · have := openAll_opened st.nextSel s.ctrs 0 { st with nextSel := st.nextSel + 1 } r
      simp only [Nat.zero_add] at this
      by_cases h3 : (openAll st.nextSel 0 s.ctrs { st with nextSel := st.nextSel + 1 }).2.1 = true
      · simp [h3, closeAll_opened, this]
      · simp [h3, this]
    · simp

/-- readers opened by a log query from the initial state -/
theorem eval_log_opened (s : Sel) (r : Rid) :
    r ∈ (eval (.log s) init).2.opened ↔
      (s.stageOk = true ∧ s.listFails = false ∧
        ∃ j, ∃ h : j < s.ctrs.length, r = (0, j) ∧ s.ctrs[j] ≠ .openFail) := by
  have := selectLogs_opened s init r
  simp only [init, List.not_mem_nil, false_or] at this
  rw [← this]
  simp only [eval, init]
  split <;> rename_i heq <;> simp [heq, closeAll_opened]

/-- a range aggregation over one selection opens the same readers as the log query over it,
whether or not the aggregation itself can be built (the selection is opened first) -/
theorem eval_range_opened (s : Sel) (aggOk : Bool) (r : Rid) :
    r ∈ (eval (.range s aggOk) init).2.opened ↔ r ∈ (eval (.log s) init).2.opened := by
  simp only [eval, build]
  rcases h : selectLogs s init with ⟨(e | it), st1⟩
  · simp
  · cases aggOk <;> simp [closeAll_opened] <;> split <;> simp [closeAll_opened]

/-- operands are built left to right and the right one is not touched when the left one fails:
after a failure in the left selection no reader of a later selection exists -/
theorem binop_left_failure_short_circuits (ok : Bool) (s1 : Sel) (a1 : Bool) (rq : Q) (r : Rid)
    (hf : (selectLogs s1 init).1.isOk = false ∨ a1 = false) :
    r ∈ (eval (.binop ok (.range s1 a1) rq) init).2.opened ↔ r ∈ (eval (.log s1) init).2.opened := by
  simp only [eval, build]
  rcases h : selectLogs s1 init with ⟨(e | it), st1⟩
  · simp
  · rcases hf with hf | hf
    · simp [h, Except.isOk, Except.toBool] at hf
    · subst hf; simp [closeAll_opened]

/-- closing does not open: what a metric evaluation has opened is what `build` opened -/
theorem eval_opened_eq_build (q : Q) (st : St) (hq : q.isMetric = true) :
    (eval q st).2.opened = (build q st).2.opened := by
  rw [eval_metric q st hq]
  rcases h : build q st with ⟨(e | it), st1⟩ <;> simp [closeAll_opened]

theorem build_vecAgg_opened (ok : Bool) (q : Q) (st : St) :
    (build (.vecAgg ok q) st).2.opened = (build q st).2.opened := by
  simp only [build]
  rcases h : build q st with ⟨(e | it), st1⟩
  · simp
  · cases ok <;> simp [closeAll_opened]

theorem build_litOp_opened (q : Q) (st : St) :
    (build (.litOp q) st).2.opened = (build q st).2.opened := by
  simp only [build]
  rcases h : build q st with ⟨(e | it), st1⟩ <;> simp

/-- vector aggregations and literal operands open nothing of their own: the readers of
`sum by (..) (q)`, `q * 2`, … are the readers of `q`, also when the wrapper cannot be built -/
theorem eval_wrapper_opened (q : Q) (st : St) (hq : q.isMetric = true) (ok : Bool) :
    (eval (.vecAgg ok q) st).2.opened = (eval q st).2.opened ∧
    (eval (.litOp q) st).2.opened = (eval q st).2.opened := by
  rw [eval_opened_eq_build (.vecAgg ok q) st (by simpa [Q.isMetric] using hq),
      eval_opened_eq_build (.litOp q) st (by simpa [Q.isMetric] using hq),
      eval_opened_eq_build q st hq, build_vecAgg_opened, build_litOp_opened]
  exact ⟨rfl, rfl⟩

end Resources
