import Verif.Lemmas.Frames
/-! C03: the chunked reader decodes exactly what the flat decoder decodes. -/
namespace Frames

theorem readN_spec (n : Nat) (cs : List (List Nat)) :
    (readN n cs).1 = cs.flatten.take n ∧ (readN n cs).2.flatten = cs.flatten.drop n := by
  induction cs generalizing n with
  | nil => cases n <;> simp [readN]
  | cons c cs ih =>
    cases n with
    | zero => simp [readN]
    | succ n =>
      simp only [readN]
      split
      · rename_i h
        obtain ⟨h1, h2⟩ := ih (n + 1 - c.length)
        simp only [List.flatten_cons, List.take_append, List.drop_append, h1, h2,
          List.take_of_length_le h, List.drop_of_length_le h, List.nil_append]
        exact ⟨trivial, trivial⟩
      · rename_i h
        have h' : n + 1 - c.length = 0 := by omega
        simp only [List.flatten_cons, List.take_append, List.drop_append, h', List.take_zero,
          List.drop_zero, List.append_nil]
        exact ⟨trivial, trivial⟩

/-- forget the chunking of the unread remainder -/
def toStep : End ⊕ (Rec × List (List Nat)) → Step
  | .inl e => .stop e
  | .inr (r, cs) => .item r cs.flatten

theorem stepChunks_spec (parseTs : List Nat → Option Int) (cs : List (List Nat)) :
    toStep (stepChunks parseTs cs) = step parseTs cs.flatten := by
  obtain ⟨h1, h2⟩ := readN_spec 8 cs
  unfold stepChunks step
  generalize hbs : cs.flatten = bs at h1 h2
  rcases hr : readN 8 cs with ⟨hdr, cs1⟩
  rw [hr] at h1 h2
  simp only at h1 h2 ⊢
  subst h1
  have hlen : (bs.take 8).length < 8 ↔ bs.length < 8 := by
    simp only [List.length_take]; omega
  by_cases hl : bs.length < 8
  · simp only [hlen.mpr hl, hl, ↓reduceIte, toStep]
  · have hl' : ¬ (bs.take 8).length < 8 := fun h => hl (hlen.mp h)
    simp only [hl, hl', ↓reduceIte]
    have hsz : ((bs.take 8).drop 4).take 4 = (bs.drop 4).take 4 := by
      rw [List.drop_take, List.take_take]; rfl
    have hhead : (bs.take 8).headD 0 = bs.headD 0 := by
      cases bs with
      | nil => rfl
      | cons a t => rfl
    rw [hsz, hhead]
    generalize readBe32 ((bs.drop 4).take 4) = size
    obtain ⟨h3, h4⟩ := readN_spec size cs1
    rcases hr2 : readN size cs1 with ⟨body, cs2⟩
    rw [hr2] at h3 h4
    simp only at h3 h4 ⊢
    rw [h2] at h3 h4
    subst h3
    have hlen2 : ((bs.drop 8).take size).length < size ↔ (bs.drop 8).length < size := by
      simp only [List.length_take]; omega
    by_cases hb : (bs.drop 8).length < size
    · simp only [hlen2.mpr hb, hb, ↓reduceIte, toStep]
    · have hb' : ¬ ((bs.drop 8).take size).length < size := fun h => hb (hlen2.mp h)
      simp only [hb, hb', ↓reduceIte]
      by_cases h3 : bs.headD 0 = 3
      · simp only [h3, ↓reduceIte, toStep]
      · simp only [h3, ↓reduceIte]
        cases cutSpace ((bs.drop 8).take size) with
        | none => rfl
        | some tb =>
          obtain ⟨t, msg⟩ := tb
          simp only
          cases parseTs t with
          | none => rfl
          | some ts => simp only [toStep, h4]

theorem decodeChunks_eq_decode (parseTs : List Nat → Option Int) (fuel : Nat) (cs : List (List Nat)) :
    decodeChunks parseTs fuel cs = decode parseTs fuel cs.flatten := by
  induction fuel generalizing cs with
  | zero => rfl
  | succ f ih =>
    rw [decodeChunks, decode, ← stepChunks_spec]
    cases stepChunks parseTs cs with
    | inl e => rfl
    | inr p =>
      obtain ⟨r, rest⟩ := p
      simp only [toStep, ih]

end Frames
