import Verif.Model.Metric
import Verif.Lemmas.HeapMerge
/-! Small "cannot index out of range / cannot run forever" facts about the models, used by the
property "evaluation never panics or hangs". -/
namespace C17Extra

/-! ### 1. quantile indices -/

/-- `n - 1` as a rational, for `1 ≤ n`, is the cast of the natural `n - 1` -/
theorem cast_pred (n : Nat) (hn : 1 ≤ n) : ((n : Rat) - 1) = (((n - 1 : Nat) : Int) : Rat) := by
  have e : ((n - 1 : Nat) : Int) = (n : Int) - 1 := by omega
  rw [e, Rat.intCast_sub]
  rfl

/-- for a parameter in [0,1] the rank is at most `n - 1` -/
theorem rank_le (p : Rat) (n : Nat) (hn : 1 ≤ n) (h1 : p ≤ 1) :
    p * ((n : Rat) - 1) ≤ (((n - 1 : Nat) : Int) : Rat) := by
  rw [cast_pred n hn]
  have hm : (0 : Rat) ≤ (((n - 1 : Nat) : Int) : Rat) := by
    have : (0 : Int) ≤ ((n - 1 : Nat) : Int) := Int.natCast_nonneg _
    exact_mod_cast this
  have := Rat.mul_le_mul_of_nonneg_right h1 hm
  rwa [Rat.one_mul] at this

/-- the floor of the rank is at most `n - 1` (integer level) -/
theorem rank_floor_le (p : Rat) (n : Nat) (hn : 1 ≤ n) (h1 : p ≤ 1) :
    (p * ((n : Rat) - 1)).floor ≤ ((n - 1 : Nat) : Int) := by
  have := Rat.floor_monotone (rank_le p n hn h1)
  rwa [Rat.floor_intCast] at this

/-- for a parameter in [0,1] and a non-empty window both indices are inside the window -/
theorem quantile_indices_in_range (p : Rat) (n : Nat) (hn : 1 ≤ n) (h0 : 0 ≤ p) (h1 : p ≤ 1) :
    let rank : Rat := p * ((n : Rat) - 1)
    let lo : Nat := rank.floor.toNat
    let hi : Nat := min (n - 1) (lo + 1)
    lo ≤ n - 1 ∧ hi ≤ n - 1 ∧ lo ≤ hi := by
  intro rank lo hi
  have _ := h0   -- not needed: `toNat` already clamps a negative floor to 0
  have hfl : rank.floor ≤ ((n - 1 : Nat) : Int) := rank_floor_le p n hn h1
  have hlo : lo ≤ n - 1 := by
    show rank.floor.toNat ≤ n - 1
    omega
  refine ⟨hlo, Nat.min_le_left _ _, ?_⟩
  show lo ≤ min (n - 1) (lo + 1)
  omega

/-- non-vacuity: the median of a window of 4 (rank 3/2: indices 1 and 2) -/
example :
    ((1/2 : Rat) * (((4 : Nat) : Rat) - 1)).floor.toNat ≤ 4 - 1 ∧
    min (4 - 1) (((1/2 : Rat) * (((4 : Nat) : Rat) - 1)).floor.toNat + 1) ≤ 4 - 1 ∧
    ((1/2 : Rat) * (((4 : Nat) : Rat) - 1)).floor.toNat ≤
      min (4 - 1) (((1/2 : Rat) * (((4 : Nat) : Rat) - 1)).floor.toNat + 1) :=
  quantile_indices_in_range (1/2) 4 (by decide) (by decide +kernel) (by decide +kernel)

example : ((1/2 : Rat) * (((4 : Nat) : Rat) - 1)).floor.toNat = 1 := by decide +kernel

/-- the rank is non-negative, so `toNat` of its floor loses nothing (`max 0 (floor rank)` is the floor) -/
theorem rank_floor_nonneg (p : Rat) (n : Nat) (hn : 1 ≤ n) (h0 : 0 ≤ p) :
    0 ≤ (p * ((n : Rat) - 1)).floor := by
  rw [Rat.le_floor_iff]
  rw [cast_pred n hn]
  have hm : (0 : Rat) ≤ (((n - 1 : Nat) : Int) : Rat) := by
    have : (0 : Int) ≤ ((n - 1 : Nat) : Int) := Int.natCast_nonneg _
    exact_mod_cast this
  simpa using Rat.mul_nonneg h0 hm

theorem insertRat_length (x : Rat) (l : List Rat) : (Metric.insertRat x l).length = l.length + 1 := by
  induction l with
  | nil => rfl
  | cons y ys ih =>
    unfold Metric.insertRat
    split <;> simp [ih]

theorem sorted_length_aux (rs acc : List Rat) :
    (rs.foldl (fun acc x => Metric.insertRat x acc) acc).length = acc.length + rs.length := by
  induction rs generalizing acc with
  | nil => rfl
  | cons r rs ih =>
    simp only [List.foldl_cons, ih, insertRat_length, List.length_cons]
    omega

theorem sorted_length (rs : List Rat) :
    (rs.foldl (fun acc x => Metric.insertRat x acc) []).length = rs.length := by
  simpa using sorted_length_aux rs []

/-- `ratsOf` keeps the length -/
theorem ratsOf_length (vs : List Metric.Val) (rs : List Rat) (h : Metric.ratsOf vs = some rs) :
    rs.length = vs.length := by
  induction vs generalizing rs with
  | nil =>
    simp [Metric.ratsOf] at h
    subst h; rfl
  | cons v vs ih =>
    simp only [Metric.ratsOf, List.foldr_cons] at h ih
    split at h
    · rename_i r l hacc
      simp only [Option.some.injEq] at h
      subst h
      simp [ih l hacc]
    · cases h

/-- the two list accesses of `quantileVal` are inside the sorted window whenever the code reaches them:
non-empty input, parameter in [0,1], all values rational -/
theorem quantileVal_indices (p : Rat) (vs : List Metric.Val) (rs : List Rat)
    (hne : vs ≠ []) (h0 : 0 ≤ p) (h1 : p ≤ 1) (hr : Metric.ratsOf vs = some rs) :
    let sorted := rs.foldl (fun acc x => Metric.insertRat x acc) []
    let rank : Rat := p * ((sorted.length : Rat) - 1)
    let lo : Nat := rank.floor.toNat
    let hi : Nat := min (sorted.length - 1) (lo + 1)
    lo < sorted.length ∧ hi < sorted.length := by
  intro sorted rank lo hi
  have hlen : sorted.length = vs.length := by
    show (rs.foldl (fun acc x => Metric.insertRat x acc) []).length = vs.length
    rw [sorted_length, ratsOf_length vs rs hr]
  have hpos : 1 ≤ sorted.length := by
    rw [hlen]
    cases vs with
    | nil => exact absurd rfl hne
    | cons _ _ => simp
  have key := quantile_indices_in_range p sorted.length hpos h0 h1
  have a : lo ≤ sorted.length - 1 := key.1
  have b : hi ≤ sorted.length - 1 := key.2.1
  constructor <;> omega

example : ([Metric.Val.q 3, .q 1] ≠ []) ∧ (0 : Rat) ≤ 1/2 ∧ (1/2 : Rat) ≤ 1 ∧
    Metric.ratsOf [.q 3, .q 1] = some [3, 1] := by decide +kernel

/-! ### 2. the merge emits everything -/

/-- the fuel `srcs.flatten.length + 1` of `drain` is never the reason for stopping early -/
theorem merge_length (srcs : List (List Merge.Rec)) :
    (HeapMerge.merge srcs).length = srcs.flatten.length :=
  (HeapMerge.merge_perm srcs).length_eq

/-! ### 3. the window buffer -/

/-- `clearWindow` never lengthens the window -/
theorem clear_length_le (ws : Int) (w : List Metric.Smp) : (Metric.clear ws w).length ≤ w.length := by
  unfold Metric.clear
  exact List.length_filter_le _ _

/-- `fillWindow`: window plus still-pending samples never exceed what was there before -/
theorem fill_length_le (ws we : Int) (w pend : List Metric.Smp) :
    (Metric.fill ws we w pend).1.length + (Metric.fill ws we w pend).2.length
      ≤ w.length + pend.length := by
  induction pend generalizing w with
  | nil => simp [Metric.fill]
  | cons e rest ih =>
    unfold Metric.fill
    split
    · simp
    · split
      · have := ih w
        simp only [List.length_cons]
        omega
      · have := ih (w ++ [e])
        simp only [List.length_append, List.length_cons, List.length_nil] at this ⊢
        omega

/-- `fill` only consumes: the pending list it returns is no longer than the one it was given -/
theorem fill_pending_le (ws we : Int) (w pend : List Metric.Smp) :
    (Metric.fill ws we w pend).2.length ≤ pend.length := by
  induction pend generalizing w with
  | nil => simp [Metric.fill]
  | cons e rest ih =>
    unfold Metric.fill
    split
    · simp
    · split
      · have := ih w
        simp only [List.length_cons]
        omega
      · have := ih (w ++ [e])
        simp only [List.length_cons]
        omega

/-- one iteration of `rangeRun` (`clear` then `fill`): buffered plus pending samples never grow -/
theorem step_length_le (ws we : Int) (w pend : List Metric.Smp) :
    (Metric.fill ws we (Metric.clear ws w) pend).1.length +
      (Metric.fill ws we (Metric.clear ws w) pend).2.length ≤ w.length + pend.length := by
  have a := fill_length_le ws we (Metric.clear ws w) pend
  have b := clear_length_le ws w
  omega

/-- `rangeRun` produces exactly one step per grid point (it cannot loop) -/
theorem rangeRun_length (op : Metric.RangeOp) (param : Option Rat) (rangeNs offsetNs : Int)
    (hasUnwrap : Bool) (regroup : Metric.AggLabels → Metric.AggLabels)
    (ts : List Int) (w pend : List Metric.Smp) :
    (Metric.rangeRun op param rangeNs offsetNs hasUnwrap regroup ts w pend).length = ts.length := by
  induction ts generalizing w pend with
  | nil => simp [Metric.rangeRun]
  | cons T ts ih =>
    unfold Metric.rangeRun
    simp only [List.length_cons, ih]

end C17Extra
