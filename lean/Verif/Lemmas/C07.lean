import Verif.Model.LogQL
/-! C07 — rewriting stages (`line_format`, `label_format`, `drop`, `keep`, `decolorize`) change exactly
what LogQL says and never drop a record. -/
namespace LogQL.C07
open LogQL

/-! ### label-set lookups -/

theorem err_ne : errorLabel ≠ errorDetailsLabel := by with_unfolding_all decide

theorem lookup_cons_eq (k : Bytes) (v : Bytes) (ls : Labels) : List.lookup k ((k, v) :: ls) = some v := by
  rw [List.lookup_cons]; simp

theorem lookup_cons_ne (k k' : Bytes) (v : Bytes) (ls : Labels) (h : k' ≠ k) :
    List.lookup k' ((k, v) :: ls) = List.lookup k' ls := by
  rw [List.lookup_cons]
  have : (k' == k) = false := by simpa using h
  rw [this]

theorem get_erase_same (ls : Labels) (k : Bytes) : Labels.get? (Labels.erase ls k) k = none := by
  induction ls with
  | nil => rfl
  | cons p ls ih =>
    obtain ⟨pk, pv⟩ := p
    simp only [Labels.get?, Labels.erase] at ih ⊢
    rw [List.filter_cons]
    by_cases h : pk = k
    · subst h; simpa using ih
    · have h' : (pk != k) = true := by simpa using h
      simp only [h', ↓reduceIte]
      rw [lookup_cons_ne _ _ _ _ (fun e => h e.symm)]; exact ih

theorem get_erase_other (ls : Labels) (k k' : Bytes) (h : k' ≠ k) :
    Labels.get? (Labels.erase ls k) k' = Labels.get? ls k' := by
  induction ls with
  | nil => rfl
  | cons p ls ih =>
    obtain ⟨pk, pv⟩ := p
    simp only [Labels.get?, Labels.erase] at ih ⊢
    rw [List.filter_cons]
    by_cases hp : pk = k
    · subst hp
      rw [lookup_cons_ne _ _ _ _ h]
      simpa using ih
    · have h' : (pk != k) = true := by simpa using hp
      simp only [h', ↓reduceIte]
      by_cases hk : k' = pk
      · subst hk; rw [lookup_cons_eq, lookup_cons_eq]
      · rw [lookup_cons_ne _ _ _ _ hk, lookup_cons_ne _ _ _ _ hk]; exact ih

theorem get_set_same (ls : Labels) (k v : Bytes) : Labels.get? (Labels.set ls k v) k = some v := by
  simp only [Labels.get?, Labels.set]; exact lookup_cons_eq _ _ _

theorem get_set_other (ls : Labels) (k k' v : Bytes) (h : k' ≠ k) :
    Labels.get? (Labels.set ls k v) k' = Labels.get? ls k' := by
  have := get_erase_other ls k k' h
  simp only [Labels.get?, Labels.set] at this ⊢
  rw [lookup_cons_ne _ _ _ _ h]; exact this

theorem setAll_nil (ls : Labels) : setAll ls [] = ls := rfl
theorem setAll_cons (ls : Labels) (kv) (kvs) : setAll ls (kv :: kvs) = setAll (Labels.set ls kv.1 kv.2) kvs := rfl
theorem setAll_append (ls : Labels) (xs ys) : setAll ls (xs ++ ys) = setAll (setAll ls xs) ys := by
  simp [setAll, List.foldl_append]

/-- lookup after `setAll`: the last binding of `k` in `kvs` wins, else the old value -/
theorem get_setAll (ls : Labels) (kvs : List (Bytes × Bytes)) (k : Bytes) :
    Labels.get? (setAll ls kvs) k = match (kvs.reverse.find? (fun kv => kv.1 == k)) with
      | some kv => some kv.2
      | none => Labels.get? ls k := by
  induction kvs generalizing ls with
  | nil => rfl
  | cons kv kvs ih =>
    rw [setAll_cons, ih, List.reverse_cons, List.find?_append]
    cases hf : List.find? (fun kv => kv.1 == k) kvs.reverse with
    | some x => simp
    | none =>
      simp only [Option.none_or, List.find?_cons, List.find?_nil]
      by_cases hk : kv.1 = k
      · subst hk; simp [get_set_same]
      · have : (kv.1 == k) = false := by simpa using hk
        simp only [this]
        exact get_set_other _ _ _ _ (fun e => hk e.symm)

theorem get_setAll_not_mem (ls : Labels) (kvs : List (Bytes × Bytes)) (k : Bytes)
    (h : ∀ kv ∈ kvs, kv.1 ≠ k) : Labels.get? (setAll ls kvs) k = Labels.get? ls k := by
  rw [get_setAll]
  have : List.find? (fun kv => kv.1 == k) kvs.reverse = none := by
    rw [List.find?_eq_none]
    intro x hx
    have := h x (List.mem_reverse.mp hx)
    simpa using this
  rw [this]

theorem get_setAll_last (ls : Labels) (pre post : List (Bytes × Bytes)) (k v : Bytes)
    (h : ∀ kv ∈ post, kv.1 ≠ k) : Labels.get? (setAll ls (pre ++ (k, v) :: post)) k = some v := by
  rw [setAll_append, setAll_cons, get_setAll_not_mem _ _ _ h, get_set_same]

theorem has_setError (ls : Labels) (t : String) : Labels.has (setError ls t) errorLabel = true := by
  unfold setError
  split
  · assumption
  · have := get_set_other (Labels.set ls errorLabel (Bytes.ofString t)) errorDetailsLabel errorLabel [] err_ne
    rw [get_set_same] at this
    simp only [Labels.get?] at this
    simp only [Labels.has, this, Option.isSome_some]

theorem get_setError_other (ls : Labels) (t : String) (k : Bytes) (h1 : k ≠ errorLabel) (h2 : k ≠ errorDetailsLabel) :
    Labels.get? (setError ls t) k = Labels.get? ls k := by
  unfold setError
  split
  · rfl
  · rw [get_set_other _ _ _ _ h2, get_set_other _ _ _ _ h1]

/-- a label already carrying an error keeps it: the first error wins -/
theorem setError_first_wins (ls : Labels) (t1 t2 : String) : setError (setError ls t1) t2 = setError ls t1 := by
  have := has_setError ls t1
  generalize setError ls t1 = x at this ⊢
  unfold setError
  simp only [this, ↓reduceIte]


/-! ### the stages -/

def isRewriter : Stage → Bool
  | .lineFormat .. | .labelFormat .. | .drop .. | .keep .. | .decolorize => true
  | _ => false

/-- a rewriting stage never drops a record and does not touch the `distinct` state -/
theorem rewrite_never_drops (env : Env) (ts : Int) (s : Stage) (h : isRewriter s = true) (seen : Seen) (a : Acc) :
    ((s.apply env ts seen a).1).isSome = true ∧ (s.apply env ts seen a).2 = seen := by
  cases s <;> simp only [isRewriter, Bool.false_eq_true] at h <;> simp only [Stage.apply]
  · split <;> simp
  all_goals simp

/-- label_format dst=src: src present ⇒ dst gets src's value and src disappears (dst ≠ src); other labels untouched -/
theorem rename_spec (env : Env) (ts : Int) (seen : Seen) (a a' : Acc) (dst src v : Bytes) (hne : dst ≠ src)
    (hv : Labels.get? a.labels src = some v)
    (hk : (Stage.apply env ts (.labelFormat [(dst, src)] []) seen a).1 = some a') :
    Labels.get? a'.labels dst = some v ∧ Labels.get? a'.labels src = none ∧ a'.line = a.line ∧
    ∀ k, k ≠ dst → k ≠ src → Labels.get? a'.labels k = Labels.get? a.labels k := by
  simp only [Stage.apply, List.foldl_cons, List.foldl_nil, hv, Option.some.injEq] at hk
  subst hk
  refine ⟨?_, ?_, rfl, ?_⟩
  · simp only; rw [get_erase_other _ _ _ hne, get_set_same]
  · exact get_erase_same _ _
  · intro k h1 h2
    simp only; rw [get_erase_other _ _ _ h2, get_set_other _ _ _ _ h1]

/-- label_format dst=src: nothing changes when src is absent -/
theorem rename_absent (env : Env) (ts : Int) (seen : Seen) (a a' : Acc) (dst src : Bytes)
    (hv : Labels.get? a.labels src = none)
    (hk : (Stage.apply env ts (.labelFormat [(dst, src)] []) seen a).1 = some a') : a' = a := by
  simp only [Stage.apply, List.foldl_cons, List.foldl_nil, hv, Option.some.injEq] at hk
  subst hk
  rfl

/-- label_format dst="template": dst is set to the expansion over the current labels (line and timestamp bound) -/
theorem template_spec (env : Env) (ts : Int) (seen : Seen) (a a' : Acc) (dst : Bytes) (t : Template.Tpl) (out : Bytes)
    (ht : env.template t ts a.line a.labels = some out)
    (hk : (Stage.apply env ts (.labelFormat [] [(dst, t)]) seen a).1 = some a') :
    Labels.get? a'.labels dst = some out ∧ a'.line = a.line ∧
      ∀ k, k ≠ dst → Labels.get? a'.labels k = Labels.get? a.labels k := by
  simp only [Stage.apply, List.foldl_cons, List.foldl_nil, ht, Option.some.injEq] at hk
  subst hk
  exact ⟨get_set_same _ _ _, rfl, fun k h => get_set_other _ _ _ _ h⟩

/-- label_format with a failing template: line kept, record flagged, no other label touched -/
theorem label_template_failure_flags (env : Env) (ts : Int) (seen : Seen) (a a' : Acc) (dst : Bytes) (t : Template.Tpl)
    (ht : env.template t ts a.line a.labels = none)
    (hk : (Stage.apply env ts (.labelFormat [] [(dst, t)]) seen a).1 = some a') :
    a'.line = a.line ∧ Labels.has a'.labels errorLabel = true ∧
      (∀ k, k ≠ errorLabel → k ≠ errorDetailsLabel → Labels.get? a'.labels k = Labels.get? a.labels k) := by
  simp only [Stage.apply, List.foldl_cons, List.foldl_nil, ht, Option.some.injEq] at hk
  subst hk
  exact ⟨rfl, has_setError _ _, fun k h1 h2 => get_setError_other _ _ _ h1 h2⟩

/-- line_format: the line becomes the expansion, labels untouched -/
theorem lineFormat_spec (env : Env) (ts : Int) (seen : Seen) (a : Acc) (t : Template.Tpl) (out : Bytes)
    (ht : env.template t ts a.line a.labels = some out) :
    (Stage.apply env ts (.lineFormat t) seen a).1 = some { a with line := out } := by
  simp only [Stage.apply, ht]

/-- line_format with a failing template keeps the line and flags the record -/
theorem lineFormat_failure_keeps_line_and_flags (env : Env) (ts : Int) (seen : Seen) (a : Acc) (t : Template.Tpl)
    (ht : env.template t ts a.line a.labels = none) :
    (Stage.apply env ts (.lineFormat t) seen a).1 = some { a with labels := setError a.labels "template error" } := by
  simp only [Stage.apply, ht]

/-- drop removes exactly the pairs selected by `dropPair` -/
theorem drop_spec (env : Env) (ts : Int) (seen : Seen) (a : Acc) (names : List Bytes) (ms : List StrMatcher) :
    (Stage.apply env ts (.drop names ms) seen a).1 =
      some { a with labels := a.labels.filter (fun kv => !dropPair env names ms kv) } := by
  simp only [Stage.apply]

/-- keep retains exactly the pairs selected by `dropPair` -/
theorem keep_spec (env : Env) (ts : Int) (seen : Seen) (a : Acc) (names : List Bytes) (ms : List StrMatcher) :
    (Stage.apply env ts (.keep names ms) seen a).1 =
      some { a with labels := a.labels.filter (fun kv => dropPair env names ms kv) } := by
  simp only [Stage.apply]

/-- lookup in a label set filtered by a predicate on keys -/
theorem get_filter_key (p : Bytes → Bool) (ls : Labels) (k : Bytes) :
    Labels.get? (ls.filter (fun kv => p kv.1)) k = if p k then Labels.get? ls k else none := by
  induction ls with
  | nil => simp [Labels.get?]
  | cons q ls ih =>
    obtain ⟨qk, qv⟩ := q
    simp only [Labels.get?] at ih ⊢
    rw [List.filter_cons]
    by_cases hk : k = qk
    · subst hk
      cases hp : p k
      · simpa [hp] using ih
      · simp only [↓reduceIte, lookup_cons_eq]
    · cases hq : p qk
      · simp only [Bool.false_eq_true, ↓reduceIte, ih, lookup_cons_ne _ _ _ _ hk]
      · simp only [↓reduceIte, ih, lookup_cons_ne _ _ _ _ hk]

/-- without matchers a pair is selected iff its name is listed -/
theorem dropPair_names (env : Env) (names : List Bytes) (kv : Bytes × Bytes) :
    dropPair env names [] kv = names.any (· == kv.1) := by
  simp only [dropPair, List.filter_nil, List.isEmpty_nil, Bool.and_true, List.all_nil]
  cases names.any (· == kv.1) <;> simp

/-- drop with bare names removes exactly the named labels (no well-formedness of the label set needed) -/
theorem drop_names_get (env : Env) (ts : Int) (seen : Seen) (a a' : Acc) (names : List Bytes)
    (hk : (Stage.apply env ts (.drop names []) seen a).1 = some a') (k : Bytes) :
    Labels.get? a'.labels k = if names.any (· == k) then none else Labels.get? a.labels k := by
  simp only [Stage.apply, Option.some.injEq] at hk
  subst hk
  simp only [dropPair_names]
  rw [get_filter_key (fun x => !names.any (· == x))]
  cases names.any (· == k) <;> simp

/-- keep with bare names retains exactly the named labels -/
theorem keep_names_get (env : Env) (ts : Int) (seen : Seen) (a a' : Acc) (names : List Bytes)
    (hk : (Stage.apply env ts (.keep names []) seen a).1 = some a') (k : Bytes) :
    Labels.get? a'.labels k = if names.any (· == k) then Labels.get? a.labels k else none := by
  simp only [Stage.apply, Option.some.injEq] at hk
  subst hk
  simp only [dropPair_names]
  exact get_filter_key (fun x => names.any (· == x)) _ _

/-- decolorize touches the line only -/
theorem decolorize_line_only (env : Env) (ts : Int) (seen : Seen) (a a' : Acc)
    (hk : (Stage.apply env ts .decolorize seen a).1 = some a') : a'.labels = a.labels := by
  simp only [Stage.apply, Option.some.injEq] at hk
  subst hk
  rfl

/-- decolorize removes exactly the sequences the ANSI matcher finds: nothing when there is none … -/
theorem stripAll_none (env : Env) (fuel : Nat) (s : Bytes) (h : env.reFind env.ansi s = none) :
    stripAll env (fuel + 1) s = s := by
  simp only [stripAll, h]

/-- … and otherwise the leftmost (non-empty) match, continuing after it -/
theorem stripAll_some (env : Env) (fuel : Nat) (s : Bytes) (a b : Nat) (h : env.reFind env.ansi s = some (a, b))
    (hab : a < b) : stripAll env (fuel + 1) s = s.take a ++ stripAll env fuel (s.drop b) := by
  have : ¬ b ≤ a := by omega
  simp only [stripAll, h, this, ↓reduceIte]

/-! ### non-vacuity: concrete instances of the hypotheses -/

/-- a toy environment: templates expand to `tpl`, the ANSI matcher finds `[1, 3)` in lines longer than 3 bytes -/
def exEnv (tpl : Option Bytes) : Env where
  reSearch _ _ := false
  reFull _ _ := false
  reSubmatch _ _ _ := none
  reFind _ s := if 3 < s.length then some (1, 3) else none
  parseFloat _ := none
  parseDuration _ := none
  parseBytes _ := none
  parseIP _ := none
  jsonObject _ _ := ([], false)
  jsonExpr _ _ := ([], false)
  logfmt _ := ([], false)
  template _ _ _ _ := tpl
  ansi := .eps

private abbrev ka : Bytes := [97]
private abbrev kb : Bytes := [98]
private abbrev kc : Bytes := [99]
private abbrev vx : Bytes := [120]
private abbrev vy : Bytes := [121]
private abbrev exA : Acc := ⟨[104, 27, 91, 105], [(ka, vx), (kb, vy)]⟩

example : isRewriter (.labelFormat [(kc, ka)] []) = true := rfl
example := rewrite_never_drops (exEnv none) 0 (.lineFormat [.line]) rfl [] exA
example := rename_spec (exEnv none) 0 [] exA _ kc ka vx (by decide) rfl rfl
-- renaming onto an existing label overrides it
example := rename_spec (exEnv none) 0 [] exA _ kb ka vx (by decide) rfl rfl
example := rename_absent (exEnv none) 0 [] exA _ ka kc rfl rfl
example := template_spec (exEnv (some vy)) 0 [] exA _ ka [.field kb] vy rfl rfl
example := label_template_failure_flags (exEnv none) 0 [] exA _ ka [.fail] rfl rfl
example := lineFormat_spec (exEnv (some vy)) 0 [] exA [.field kb] vy rfl
example := lineFormat_failure_keeps_line_and_flags (exEnv none) 0 [] exA [.fail] rfl
example := drop_names_get (exEnv none) 0 [] exA _ [ka] rfl ka
example := keep_names_get (exEnv none) 0 [] exA _ [ka] rfl kb
example := decolorize_line_only (exEnv none) 0 [] exA _ rfl
example := stripAll_none (exEnv none) 5 [104, 105] rfl
example := stripAll_some (exEnv none) 5 [104, 27, 91, 105] 1 3 rfl (by decide)
example : stripAll (exEnv none) 5 [104, 27, 91, 105] = [104, 105] := by decide

end LogQL.C07
