import Verif.Model.KeyToLabel
/-! Helper lemmas for C20. -/
namespace KeyToLabel
open Utf8

/-- what the property calls "replacing each offending character with an underscore" -/
def repl (r : Nat) : Nat := if isIdent r then r else 95

/-- declarative sanitisation: a leading `_` if the key starts with a digit, then one byte per rune -/
def spec (key : List Nat) : List Nat :=
  (match key with
   | [] => []
   | b :: _ => if isDigit b then [95] else []) ++ (runes key).map repl

theorem ident_lt {r : Nat} (h : isIdent r = true) : r < 0x80 := by
  simp only [isIdent, isDigit, isAlpha, Bool.or_eq_true, Bool.and_eq_true, decide_eq_true_eq, beq_iff_eq] at h
  omega

theorem replRune_eq (r : Nat) : replRune r = [repl r] := by
  unfold replRune repl
  split
  · rename_i h; have := ident_lt h; simp [encodeRune, this]
  · rfl

theorem slow_eq (k : List Nat) : slow k = (runes k).map repl := by
  unfold slow
  induction runes k with
  | nil => rfl
  | cons a l ih => simp [List.flatMap_cons, replRune_eq, ih]

theorem lo3_spec (b : Nat) : (b = 0xE0 ∧ lo3 b = 0xA0) ∨ (b ≠ 0xE0 ∧ lo3 b = 0x80) := by
  unfold lo3; by_cases h : b = 0xE0 <;> simp [h]
theorem lo4_spec (b : Nat) : (b = 0xF0 ∧ lo4 b = 0x90) ∨ (b ≠ 0xF0 ∧ lo4 b = 0x80) := by
  unfold lo4; by_cases h : b = 0xF0 <;> simp [h]
theorem decodeRune_cases (b : Nat) (rest : List Nat) :
    decodeRune (b :: rest) = (b, 1) ∨ 0x80 ≤ (decodeRune (b :: rest)).1 := by
  simp only [decodeRune]
  split
  · left; rfl
  · split
    · split
      · split
        · right; simp only [Bool.and_eq_true, decide_eq_true_eq] at *; omega
        · right; simp
      · right; simp
    · split
      · split
        · split
          · right
            have := lo3_spec b
            simp only [isCont, Bool.and_eq_true, decide_eq_true_eq] at *
            omega
          · right; simp
        · right; simp
      · split
        · split
          · split
            · right
              have := lo4_spec b
              simp only [isCont, Bool.and_eq_true, decide_eq_true_eq] at *
              omega
            · right; simp
          · right; simp
        · right; simp

/-- an identifier rune can only come from a one-byte sequence -/
theorem decodeRune_ident {b : Nat} {rest : List Nat} (h : isIdent (decodeRune (b :: rest)).1 = true) :
    decodeRune (b :: rest) = (b, 1) := by
  have hlt := ident_lt h
  rcases decodeRune_cases b rest with h1 | h1
  · exact h1
  · omega

theorem decodeRune_of_lt {b : Nat} (rest : List Nat) (h : b < 0x80) : decodeRune (b :: rest) = (b, 1) := by
  simp [decodeRune, h]

theorem runes_cons_of_lt {b : Nat} (rest : List Nat) (h : b < 0x80) : runes (b :: rest) = b :: runes rest := by
  rw [runes]; simp [decodeRune_of_lt rest h]

theorem runes_cons_ident {b : Nat} {rest : List Nat} (h : isIdent (decodeRune (b :: rest)).1 = true) :
    runes (b :: rest) = b :: runes rest := by
  rw [runes]; simp [decodeRune_ident h]

theorem isIdent_of_digit {r : Nat} (h : isDigit r = true) : isIdent r = true := by simp [isIdent, h]
theorem isIdent_of_start {r : Nat} (h : (r == 95 || isAlpha r) = true) : isIdent r = true := by
  simp only [isIdent, Bool.or_eq_true] at *
  rcases h with h | h
  · exact Or.inl (Or.inl h)
  · exact Or.inr h

theorem fast_nonfirst (pre k : List Nat) : fast false pre k = pre ++ slow k := by
  induction k generalizing pre with
  | nil => simp [fast, slow, runes]
  | cons b rest ih =>
    unfold fast
    by_cases hd : isDigit (decodeRune (b :: rest)).1 = true
    · have hi := isIdent_of_digit hd
      have hdec := decodeRune_ident hi
      simp only [hd, ↓reduceIte, Bool.false_eq_true]
      rw [ih, slow_eq, slow_eq, runes_cons_ident hi]
      rw [hdec] at hi
      simp [repl, hi]
    · simp only [hd, Bool.false_eq_true, ↓reduceIte]
      by_cases ha : ((decodeRune (b :: rest)).1 == 95 || isAlpha (decodeRune (b :: rest)).1) = true
      · have hi := isIdent_of_start ha
        have hdec := decodeRune_ident hi
        simp only [ha, ↓reduceIte]
        rw [ih, slow_eq, slow_eq, runes_cons_ident hi]
        rw [hdec] at hi
        simp [repl, hi]
      · simp only [ha, Bool.false_eq_true, ↓reduceIte]

theorem digit_lt {b : Nat} (h : isDigit b = true) : b < 0x80 := ident_lt (isIdent_of_digit h)

/-- the first rune is a digit iff the first byte is -/
theorem first_digit_iff (b : Nat) (rest : List Nat) :
    isDigit (decodeRune (b :: rest)).1 = isDigit b := by
  by_cases h : isDigit (decodeRune (b :: rest)).1 = true
  · have := decodeRune_ident (isIdent_of_digit h)
    rw [this] at h ⊢
  · by_cases hb : isDigit b = true
    · rw [decodeRune_of_lt rest (digit_lt hb)] at h; exact absurd hb h
    · simp only [Bool.not_eq_true] at h hb; rw [h, hb]

theorem run_eq_spec (k : List Nat) : run k = spec k := by
  cases k with
  | nil => simp [run, fast, spec, runes]
  | cons b rest =>
    unfold run fast spec
    rw [first_digit_iff]
    by_cases hd : isDigit b = true
    · simp [hd, slow_eq]
    · simp only [hd, Bool.false_eq_true, ↓reduceIte, List.nil_append]
      by_cases ha : ((decodeRune (b :: rest)).1 == 95 || isAlpha (decodeRune (b :: rest)).1) = true
      · have hi := isIdent_of_start ha
        have hdec := decodeRune_ident hi
        simp only [ha, ↓reduceIte]
        rw [fast_nonfirst, slow_eq, runes_cons_ident hi]
        rw [hdec] at hi
        simp [repl, hi]
      · simp [ha, slow_eq]

theorem repl_ident (r : Nat) : isIdent (repl r) = true := by
  unfold repl; split
  · assumption
  · decide

theorem repl_id {r : Nat} (h : isIdent r = true) : repl r = r := by simp [repl, h]

end KeyToLabel
