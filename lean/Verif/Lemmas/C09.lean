import Verif.Model.Metric
namespace Metric.C09
open LogQL Metric

/-! # C09: range aggregation — the sliding window refines the declarative window

`rangeRun` (the model of `rangeAggIterator.Next` iterated over the step grid) keeps a window and a
buffer of pending samples.  The theorems below say that, for time-sorted samples and non-decreasing
evaluation times, what it reports at `T` is exactly the declarative value `stepAt … T`: group the
samples with `T − range ≤ ts ≤ T` and aggregate each group. -/

def SortedTs (l : List Smp) : Prop := l.Pairwise (fun a b => a.ts ≤ b.ts)

/-- the declarative window: samples with T − r ≤ ts ≤ T, in arrival order -/
def windowAt (r T : Int) (smps : List Smp) : List Smp :=
  smps.filter (fun s => decide (T - r ≤ s.ts) && decide (s.ts ≤ T))

/-- the declarative value of one step: group the window by (regrouped) label set, aggregate each
group; stamped with T + offset -/
def stepAt (op : RangeOp) (param : Option Rat) (rangeNs offsetNs : Int) (hasUnwrap : Bool)
    (regroup : AggLabels → AggLabels) (smps : List Smp) (T : Int) : Step :=
  ⟨T + offsetNs, (groupBySet (fun s : Smp => regroup s.set) (windowAt rangeNs T smps)).map
      fun g => ⟨g.1, aggregate op param rangeNs hasUnwrap (g.2.map (·.v))⟩⟩

/-! ## A. the iterator state and its invariant -/

/-- invariant of the iterator state `(window, pending)` after evaluating time `T` -/
structure Inv (r T : Int) (smps window pending : List Smp) : Prop where
  split : ∃ consumed, smps = consumed ++ pending ∧
            window = consumed.filter (fun s => decide (T - r ≤ s.ts)) ∧
            (∀ s ∈ consumed, s.ts ≤ T)
  later : ∀ s ∈ pending, T < s.ts

/-- `fillWindow` on a time-sorted buffer: it consumes exactly the prefix of samples `≤ we`, and
admits those of them that are `≥ ws` -/
theorem fill_spec (ws we : Int) (w pend : List Smp) (hs : SortedTs pend) :
    ∃ taken rest, pend = taken ++ rest ∧ (∀ s ∈ taken, s.ts ≤ we) ∧ (∀ s ∈ rest, we < s.ts) ∧
      fill ws we w pend = (w ++ taken.filter (fun s => decide (ws ≤ s.ts)), rest) := by
  induction pend generalizing w with
  | nil => exact ⟨[], [], by simp [fill]⟩
  | cons e rest ih =>
    have hs' : SortedTs rest := (List.pairwise_cons.mp hs).2
    have hle : ∀ s ∈ rest, e.ts ≤ s.ts := (List.pairwise_cons.mp hs).1
    unfold fill
    by_cases h1 : e.ts > we
    · refine ⟨[], e :: rest, by simp, by simp, ?_, by simp [h1]⟩
      intro s hsm
      rcases List.mem_cons.mp hsm with h | h
      · subst h; omega
      · have := hle s h; omega
    · simp only [h1, ↓reduceIte]
      by_cases h2 : e.ts < ws
      · simp only [h2, ↓reduceIte]
        obtain ⟨tk, rs, hp, ht, hr, hf⟩ := ih w hs'
        refine ⟨e :: tk, rs, by simp [hp], ?_, hr, ?_⟩
        · intro s hsm
          rcases List.mem_cons.mp hsm with h | h
          · subst h; omega
          · exact ht s h
        · rw [hf]
          have : ¬ ws ≤ e.ts := by omega
          simp [this]
      · simp only [h2, ↓reduceIte]
        obtain ⟨tk, rs, hp, ht, hr, hf⟩ := ih (w ++ [e]) hs'
        refine ⟨e :: tk, rs, by simp [hp], ?_, hr, ?_⟩
        · intro s hsm
          rcases List.mem_cons.mp hsm with h | h
          · subst h; omega
          · exact ht s h
        · rw [hf]
          have : ws ≤ e.ts := by omega
          simp [this]

/-- one `Next`: evict, then fill — preserves the invariant when time does not go backwards -/
theorem step_inv (r T T' : Int) (hT : T ≤ T') (smps : List Smp)
    (hs : SortedTs smps) (window pending : List Smp) (h : Inv r T smps window pending) :
    Inv r T' smps (fill (T' - r) T' (clear (T' - r) window) pending).1
                  (fill (T' - r) T' (clear (T' - r) window) pending).2 := by
  obtain ⟨⟨consumed, hsplit, hwin, hcons⟩, hlater⟩ := h
  have hsp : SortedTs pending := by
    rw [hsplit] at hs; exact (List.pairwise_append.mp hs).2.1
  obtain ⟨tk, rs, hp, ht, hrest, hf⟩ := fill_spec (T' - r) T' (clear (T' - r) window) pending hsp
  rw [hf]
  refine ⟨⟨consumed ++ tk, ?_, ?_, ?_⟩, ?_⟩
  · simp [hsplit, hp]
  · simp only [clear, hwin, List.filter_filter, List.filter_append]
    congr 1
    apply List.filter_congr
    intro s hsm
    have := hcons s hsm
    by_cases h1 : T' - r ≤ s.ts <;> by_cases h2 : T - r ≤ s.ts <;> simp [h1, h2] <;> omega
  · intro s hsm
    rcases List.mem_append.mp hsm with h | h
    · have := hcons s h; omega
    · exact ht s h
  · exact hrest

/-- under the invariant the iterator's window is the declarative window -/
theorem inv_output (r T : Int) (smps window pending : List Smp) (h : Inv r T smps window pending) :
    window = windowAt r T smps := by
  obtain ⟨⟨consumed, hsplit, hwin, hcons⟩, hlater⟩ := h
  rw [hwin, windowAt, hsplit, List.filter_append]
  have h2 : pending.filter (fun s => decide (T - r ≤ s.ts) && decide (s.ts ≤ T)) = [] := by
    apply List.filter_eq_nil_iff.mpr
    intro s hsm; have := hlater s hsm; simp; omega
  rw [h2, List.append_nil]
  apply List.filter_congr
  intro s hsm; have := hcons s hsm; simp [this]

/-- the fresh iterator satisfies the invariant for any time that precedes every sample -/
theorem inv_fresh (r T0 : Int) (smps : List Smp) (h0 : ∀ s ∈ smps, T0 < s.ts) :
    Inv r T0 smps [] smps :=
  ⟨⟨[], by simp, by simp, by simp⟩, h0⟩

/-- refinement from an arbitrary reachable state -/
theorem rangeRun_from_inv (op : RangeOp) (param : Option Rat) (rangeNs offsetNs : Int)
    (hasUnwrap : Bool) (regroup : AggLabels → AggLabels)
    (smps : List Smp) (hs : SortedTs smps) :
    ∀ (ts : List Int) (T0 : Int) (window pending : List Smp),
      Inv rangeNs T0 smps window pending → (∀ T ∈ ts, T0 ≤ T) → ts.Pairwise (· ≤ ·) →
      rangeRun op param rangeNs offsetNs hasUnwrap regroup ts window pending
        = ts.map (stepAt op param rangeNs offsetNs hasUnwrap regroup smps) := by
  intro ts
  induction ts with
  | nil => intros; rfl
  | cons T ts ih =>
    intro T0 window pending hinv hle hpw
    have hinv' := step_inv rangeNs T0 T (hle T (by simp)) smps hs window pending hinv
    have hout := inv_output rangeNs T smps _ _ hinv'
    simp only [rangeRun, List.map_cons]
    rw [ih T _ _ hinv' (List.pairwise_cons.mp hpw).1 (List.pairwise_cons.mp hpw).2]
    rw [hout]
    rfl

/-- a time strictly before every element of a list -/
theorem exists_lt_all (l : List Int) : ∃ lo : Int, ∀ x ∈ l, lo < x := by
  induction l with
  | nil => exact ⟨0, by simp⟩
  | cons y l ih =>
    obtain ⟨lo, h⟩ := ih
    refine ⟨min lo (y - 1), ?_⟩
    intro x hx
    rcases List.mem_cons.mp hx with rfl | hx
    · omega
    · have := h x hx; omega

/-! ## B. main theorems: the refinement -/

/-- refinement: the sliding-window iterator equals the declarative window at every time of any
non-decreasing list of evaluation times -/
theorem rangeRun_spec (op : RangeOp) (param : Option Rat) (rangeNs offsetNs : Int) (hr : 0 ≤ rangeNs)
    (hasUnwrap : Bool) (regroup : AggLabels → AggLabels)
    (ts : List Int) (hts : ts.Pairwise (· ≤ ·)) (smps : List Smp) (hs : SortedTs smps) :
    rangeRun op param rangeNs offsetNs hasUnwrap regroup ts [] smps
      = ts.map (stepAt op param rangeNs offsetNs hasUnwrap regroup smps) := by
  -- `hr` is not needed: for a negative range both the iterator's and the declarative window are empty
  have _ := hr
  obtain ⟨lo, hlo⟩ := exists_lt_all (smps.map (·.ts) ++ ts)
  apply rangeRun_from_inv op param rangeNs offsetNs hasUnwrap regroup smps hs ts lo [] smps
  · exact inv_fresh rangeNs lo smps (fun s hsm => hlo s.ts (by simp; exact Or.inl ⟨s, hsm, rfl⟩))
  · intro T hT
    have := hlo T (by simp [hT])
    omega
  · exact hts

/-- the value at T does not depend on the grid: two runs whose (sorted) grids both contain T report
the same step for T -/
theorem value_indep_of_grid (op : RangeOp) (param : Option Rat) (rangeNs offsetNs : Int)
    (hr : 0 ≤ rangeNs) (hasUnwrap : Bool) (regroup : AggLabels → AggLabels)
    (ts1 ts2 : List Int) (h1 : ts1.Pairwise (· ≤ ·)) (h2 : ts2.Pairwise (· ≤ ·))
    (smps : List Smp) (hs : SortedTs smps) (T : Int) (m1 : T ∈ ts1) (m2 : T ∈ ts2) :
    stepAt op param rangeNs offsetNs hasUnwrap regroup smps T
        ∈ rangeRun op param rangeNs offsetNs hasUnwrap regroup ts1 [] smps ∧
    stepAt op param rangeNs offsetNs hasUnwrap regroup smps T
        ∈ rangeRun op param rangeNs offsetNs hasUnwrap regroup ts2 [] smps := by
  rw [rangeRun_spec op param rangeNs offsetNs hr hasUnwrap regroup ts1 h1 smps hs,
      rangeRun_spec op param rangeNs offsetNs hr hasUnwrap regroup ts2 h2 smps hs]
  exact ⟨List.mem_map.mpr ⟨T, m1, rfl⟩, List.mem_map.mpr ⟨T, m2, rfl⟩⟩

/-- an instant query is the one-point grid -/
theorem instant_eq_range_at (op : RangeOp) (param : Option Rat) (rangeNs offsetNs : Int)
    (hr : 0 ≤ rangeNs) (hasUnwrap : Bool) (regroup : AggLabels → AggLabels)
    (smps : List Smp) (hs : SortedTs smps) (T : Int) :
    rangeRun op param rangeNs offsetNs hasUnwrap regroup [T] [] smps
      = [stepAt op param rangeNs offsetNs hasUnwrap regroup smps T] := by
  rw [rangeRun_spec op param rangeNs offsetNs hr hasUnwrap regroup [T] (by simp) smps hs]
  rfl

/-- every step is stamped with its evaluation time plus the offset that was subtracted from the
grid (no sortedness needed) -/
theorem stamped (op : RangeOp) (param : Option Rat) (rangeNs offsetNs : Int)
    (hasUnwrap : Bool) (regroup : AggLabels → AggLabels)
    (ts : List Int) (window pending : List Smp) :
    (rangeRun op param rangeNs offsetNs hasUnwrap regroup ts window pending).map (·.t)
      = ts.map (· + offsetNs) := by
  induction ts generalizing window pending with
  | nil => rfl
  | cons T ts ih => simp only [rangeRun, List.map_cons, ih]

/-! ## C. absent series -/

/-- every key of `groupBySet` is the key of a member of the input -/
theorem groupBySet_key_mem {α} (key : α → AggLabels) (l : List α) :
    ∀ g ∈ groupBySet key l, ∃ x ∈ l, g.1 = key x := by
  induction l with
  | nil => intro g hg; simp [groupBySet] at hg
  | cons x xs ih =>
    intro g hg
    unfold groupBySet at hg
    simp only at hg
    split at hg
    · rcases List.mem_cons.mp hg with h | h
      · exact ⟨x, by simp, by rw [h]⟩
      · obtain ⟨y, hy, e⟩ := ih g (List.mem_filter.mp h).1
        exact ⟨y, List.mem_cons_of_mem _ hy, e⟩
    · rcases List.mem_cons.mp hg with h | h
      · exact ⟨x, by simp, by rw [h]⟩
      · obtain ⟨y, hy, e⟩ := ih g h
        exact ⟨y, List.mem_cons_of_mem _ hy, e⟩

/-- a series with no sample in the window reports nothing: every reported series carries the
(regrouped) label set of at least one sample in the window.

This is the true form of the requested statement; it is stated with *equality* of the label sets.
The requested conclusion `sameSet (regroup s.set) x.set = true` is false in general because
`sameSet` is not reflexive on label lists with a shadowed duplicate key
(see `absent_when_empty_sameSet_counterexample`); it follows under reflexivity
(`absent_when_empty_sameSet`). -/
theorem absent_when_empty (op : RangeOp) (param : Option Rat) (rangeNs offsetNs : Int)
    (hasUnwrap : Bool) (regroup : AggLabels → AggLabels) (smps : List Smp) (T : Int)
    (x : Sample) (hx : x ∈ (stepAt op param rangeNs offsetNs hasUnwrap regroup smps T).samples) :
    ∃ s ∈ windowAt rangeNs T smps, regroup s.set = x.set := by
  simp only [stepAt, List.mem_map] at hx
  obtain ⟨g, hg, rfl⟩ := hx
  obtain ⟨s, hs, e⟩ := groupBySet_key_mem _ _ g hg
  exact ⟨s, hs, e.symm⟩

/-- the requested `sameSet` form, for label sets on which `sameSet` is reflexive (distinct keys) -/
theorem absent_when_empty_sameSet (op : RangeOp) (param : Option Rat) (rangeNs offsetNs : Int)
    (hasUnwrap : Bool) (regroup : AggLabels → AggLabels) (smps : List Smp) (T : Int)
    (hrefl : ∀ s ∈ smps, sameSet (regroup s.set) (regroup s.set) = true)
    (x : Sample) (hx : x ∈ (stepAt op param rangeNs offsetNs hasUnwrap regroup smps T).samples) :
    ∃ s ∈ windowAt rangeNs T smps, sameSet (regroup s.set) x.set = true := by
  obtain ⟨s, hs, e⟩ := absent_when_empty op param rangeNs offsetNs hasUnwrap regroup smps T x hx
  refine ⟨s, hs, ?_⟩
  rw [← e]
  exact hrefl s (List.mem_filter.mp hs).1

/-- no sample in the window: nothing is reported -/
theorem empty_window_reports_nothing (op : RangeOp) (param : Option Rat) (rangeNs offsetNs : Int)
    (hasUnwrap : Bool) (regroup : AggLabels → AggLabels) (smps : List Smp) (T : Int)
    (h : windowAt rangeNs T smps = []) :
    (stepAt op param rangeNs offsetNs hasUnwrap regroup smps T).samples = [] := by
  simp [stepAt, h, groupBySet]

/-! ## D. the grid -/

theorem grid_pos (start end_ step : Int) (hstep : 0 < step) :
    grid start end_ step
      = (List.range ((end_ - start) / step + 1).toNat).map (fun (k : Nat) => start + step * (k : Int)) := by
  unfold grid
  rw [if_neg (by omega)]

/-- the grid: start, start+step, … ≤ end -/
theorem grid_spec (start end_ step : Int) (hstep : 0 < step) (T : Int) :
    T ∈ grid start end_ step ↔ ∃ k : Nat, T = start + step * k ∧ T ≤ end_ := by
  rw [grid_pos start end_ step hstep]
  simp only [List.mem_map, List.mem_range]
  have key : ∀ k : Nat, (k < ((end_ - start) / step + 1).toNat ↔ start + step * (k : Int) ≤ end_) := by
    intro k
    have h := @Int.le_ediv_iff_mul_le (k : Int) (end_ - start) step hstep
    have hc : (k : Int) * step = step * (k : Int) := Int.mul_comm _ _
    constructor
    · intro hk
      have : (k : Int) ≤ (end_ - start) / step := by omega
      have := h.mp this
      omega
    · intro hk
      have : (k : Int) ≤ (end_ - start) / step := h.mpr (by omega)
      omega
  constructor
  · rintro ⟨k, hk, rfl⟩
    exact ⟨k, rfl, (key k).mp hk⟩
  · rintro ⟨k, rfl, hk⟩
    exact ⟨k, (key k).mpr hk, rfl⟩

theorem grid_sorted (start end_ step : Int) (hstep : 0 < step) :
    (grid start end_ step).Pairwise (· ≤ ·) := by
  rw [grid_pos start end_ step hstep, List.pairwise_map]
  apply List.Pairwise.imp _ List.pairwise_lt_range
  intro a b hab
  have : step * (a : Int) ≤ step * (b : Int) :=
    Int.mul_le_mul_of_nonneg_left (by omega) (by omega)
  omega

theorem grid_length (start end_ step : Int) (hstep : 0 < step) (h : start ≤ end_) :
    (grid start end_ step).length = ((end_ - start) / step).toNat + 1 := by
  rw [grid_pos start end_ step hstep]
  simp only [List.length_map, List.length_range]
  have : 0 ≤ (end_ - start) / step := Int.ediv_nonneg (by omega) (by omega)
  omega

/-! ## E. aggregators and extraction -/

/-- count_over_time counts exactly the window: the values of `.count` are the group sizes -/
theorem count_is_group_size (param : Option Rat) (rangeNs : Int) (hasUnwrap : Bool) (vs : List Val) :
    aggregate .count param rangeNs hasUnwrap vs = .q vs.length := rfl

theorem rate_is_count_over_range (param : Option Rat) (rangeNs : Int) (hr : rangeNs ≠ 0) (vs : List Val) :
    aggregate .rate param rangeNs false vs = .q ((vs.length : Rat) / ((rangeNs : Rat) / 1000000000)) := by
  have hne : ((rangeNs : Rat) / 1000000000) ≠ 0 := by
    have h1 : (rangeNs : Rat) ≠ 0 := fun h' => hr (Rat.intCast_eq_zero_iff.mp h')
    grind
  simp [aggregate, Val.div, hne]

/-- sample extraction: count/rate contribute 1 per line, bytes the byte length, unwrap functions the
converted label value; a missing unwrap label contributes no sample -/
theorem extract_count (env : Env) (uw : Option Unwrap) (e : Entry) :
    extract env .count uw e = some (.q 1) := rfl

theorem extract_rate (env : Env) (uw : Option Unwrap) (e : Entry) :
    extract env .rate uw e = some (.q 1) := rfl

theorem extract_bytes (env : Env) (uw : Option Unwrap) (e : Entry) :
    extract env .bytes uw e = some (.q e.line.length) := rfl

theorem extract_unwrap_missing (env : Env) (u : Unwrap) (e : Entry)
    (h : Labels.get? e.labels u.label = none) : extract env .sum (some u) e = none := by
  simp [extract, extract.unwrapVal, h]

/-! ## F. non-vacuity: concrete instances of the hypotheses -/

section Examples

private def okSet (n : Nat) : AggLabels := ⟨[([1], [n])], [], none⟩
/-- two series (`okSet 7`, `okSet 8`), time-sorted, with a tie at `ts = 5` -/
private def smpsEx : List Smp :=
  [⟨1, .q 1, okSet 7⟩, ⟨5, .q 1, okSet 8⟩, ⟨5, .q 1, okSet 7⟩, ⟨12, .q 1, okSet 7⟩, ⟨30, .q 1, okSet 7⟩]
private theorem smpsEx_sorted : SortedTs smpsEx := by simp [SortedTs, smpsEx]

/-- `rangeRun_spec` on a three-point grid with range 10 -/
example : rangeRun .count none 10 3 false id [10, 20, 35] [] smpsEx
    = [10, 20, 35].map (stepAt .count none 10 3 false id smpsEx) :=
  rangeRun_spec .count none 10 3 (by decide) false id [10, 20, 35] (by decide) smpsEx smpsEx_sorted

/-- … and the values it reports there: at 10 the window `[0,10]` holds two points of series 7 and one of
series 8; at 20 only the point at 12; at 35 only the point at 30 -/
example : (rangeRun .count none 10 3 false id [10, 20, 35] [] smpsEx).map (fun s => s.samples.map (·.v))
    = [[.q 2, .q 1], [.q 1], [.q 1]] := by decide

/-- `value_indep_of_grid`: 20 is on both grids -/
example :
    stepAt .count none 10 0 false id smpsEx 20 ∈ rangeRun .count none 10 0 false id [10, 20, 35] [] smpsEx ∧
    stepAt .count none 10 0 false id smpsEx 20 ∈ rangeRun .count none 10 0 false id [20, 21] [] smpsEx :=
  value_indep_of_grid .count none 10 0 (by decide) false id [10, 20, 35] [20, 21] (by decide) (by decide)
    smpsEx smpsEx_sorted 20 (by decide) (by decide)

/-- `instant_eq_range_at` -/
example : rangeRun .count none 10 0 false id [12] [] smpsEx = [stepAt .count none 10 0 false id smpsEx 12] :=
  instant_eq_range_at .count none 10 0 (by decide) false id smpsEx smpsEx_sorted 12

/-- `absent_when_empty`: at `T = 20` series 8 is reported absent, series 7 is present -/
example : (stepAt .count none 10 0 false id smpsEx 20).samples = [⟨okSet 7, .q 1⟩] := by rfl

/-- `absent_when_empty_sameSet`: the reflexivity hypothesis holds for label sets with distinct keys -/
example : ∀ s ∈ smpsEx, sameSet (id s.set) (id s.set) = true := by
  simp [smpsEx]; decide

/-- the requested `sameSet` form of `absent_when_empty` is false without reflexivity: a sample whose
label list has a shadowed duplicate key is reported, but its set is not `sameSet` to itself -/
theorem absent_when_empty_sameSet_counterexample :
    ∃ (smps : List Smp) (T : Int) (x : Sample),
      x ∈ (stepAt .count none 0 0 false id smps T).samples ∧
      ¬ ∃ s ∈ windowAt 0 T smps, sameSet (id s.set) x.set = true := by
  let dup : AggLabels := ⟨[([1], [2]), ([1], [3])], [], none⟩
  refine ⟨[⟨0, .q 1, dup⟩], 0, ⟨dup, .q 1⟩, ?_, ?_⟩
  · have : (stepAt .count none 0 0 false id [⟨0, .q 1, dup⟩] 0).samples = [⟨dup, .q 1⟩] := by rfl
    rw [this]; exact List.mem_singleton.mpr rfl
  · have hw : windowAt 0 0 [(⟨0, .q 1, dup⟩ : Smp)] = [⟨0, .q 1, dup⟩] := by rfl
    rw [hw]
    rintro ⟨s, hs, h⟩
    rw [List.mem_singleton.mp hs] at h
    revert h
    decide

/-- `grid_spec` / `grid_sorted` / `grid_length` on a grid whose end is not a multiple of the step -/
example : grid 10 37 10 = [10, 20, 30] := by decide
example : (grid 10 37 10).length = ((37 - 10) / 10 : Int).toNat + 1 :=
  grid_length 10 37 10 (by decide) (by decide)

/-- `rate_is_count_over_range`: 3 lines in a 2s range -/
example : aggregate .rate none 2000000000 false [.q 1, .q 1, .q 1]
    = .q (((3 : Nat) : Rat) / (((2000000000 : Int) : Rat) / 1000000000)) :=
  rate_is_count_over_range none 2000000000 (by decide) [.q 1, .q 1, .q 1]

/-- `extract_unwrap_missing`: the hypothesis holds for an entry without the label -/
example : Labels.get? (⟨0, [], [([1], [2])]⟩ : Entry).labels [9] = none := by decide

end Examples

end Metric.C09
