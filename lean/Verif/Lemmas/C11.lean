import Verif.Model.Metric
import Verif.Lemmas.C10
open LogQL Metric
/-! # C11 — vector aggregations aggregate exactly their group

`vecStep` (the model of `vectorAggIterator` / `heapAggIterator`) produces one series per distinct combination of
retained labels, whose value is the aggregate of exactly the input series of that group; `by` / `without`
retain / remove exactly the listed labels and compose; `topk`/`bottomk`/`sort` emit sorted prefixes of the
groups with their labels intact; `avg` is the arithmetic mean and `stdvar` the population variance. -/
namespace Metric.C11
open Metric.C10

def isAggOp : VecOp → Bool
  | .sum | .avg | .count | .max | .min | .stddev | .stdvar => true
  | _ => false

theorem isAggOp_iff (op : VecOp) : isAggOp op = true ↔ op ∈ aggOps := by
  cases op <;> simp [isAggOp, aggOps]

/-! ## aggregation by group -/

/-- **one output series per distinct combination of retained labels, whose value is the aggregate of exactly
the input series of that group** -/
theorem agg_spec (op : VecOp) (hop : isAggOp op = true) (param : Option Int) (g : Option Grouping) (s : Step) :
    vecStep op param g s = ⟨s.t, (groupBySet (fun x : Sample => applyGrouping g (fun a => a.by []) x.set) s.samples).map
        (fun grp => ⟨grp.1, vecAggregate op (grp.2.map (·.v))⟩)⟩ :=
  vecStep_agg op ((isAggOp_iff op).mp hop) param g s

/-- with `agg_spec` and C10: the members of each group are exactly the input series whose retained labels are
the group's, in arrival order; no two output series share a label set; every input series is in a group -/
theorem agg_group_members (g : Option Grouping) (s : Step)
    (hwf : ∀ x ∈ s.samples, WFSet (applyGrouping g (fun a => a.by []) x.set))
    (grp : AggLabels × List Sample)
    (hg : grp ∈ groupBySet (fun x : Sample => applyGrouping g (fun a => a.by []) x.set) s.samples) :
    grp.2 = s.samples.filter (fun x => sameSet grp.1 (applyGrouping g (fun a => a.by []) x.set)) :=
  group_members _ _ hwf grp hg

theorem agg_no_duplicate_series (op : VecOp) (hop : isAggOp op = true) (param : Option Int) (g : Option Grouping)
    (s : Step) : (vecStep op param g s).samples.Pairwise (fun a b => sameSet a.set b.set = false) :=
  vecStep_no_duplicate_series op ((isAggOp_iff op).mp hop) param g s

/-! ## `by` / `without` -/

theorem any_beq_iff (L : List Bytes) (k : Bytes) : L.any (· == k) = true ↔ k ∈ L := by
  simp only [List.any_eq_true, beq_iff_eq]
  constructor
  · rintro ⟨x, hx, rfl⟩; exact hx
  · intro h; exact ⟨k, h, rfl⟩

theorem mem_visible (a : AggLabels) (kv : Bytes × Bytes) :
    kv ∈ a.visible ↔ kv ∈ a.entries ∧ kv.1 ∉ a.without ∧ (∀ b, a.by_ = some b → kv.1 ∈ b) := by
  unfold AggLabels.visible
  simp only [List.mem_filter, Bool.and_eq_true, Bool.not_eq_true', ← Bool.not_eq_true, any_beq_iff]
  cases a.by_ with
  | none => simp
  | some b => simp

theorem by_visible_iff (a : AggLabels) (L : List Bytes) (kv : Bytes × Bytes) :
    kv ∈ (a.by L).visible ↔ kv ∈ a.visible ∧ kv.1 ∈ L := by
  rw [mem_visible, mem_visible]
  unfold AggLabels.by
  cases hb : a.by_ with
  | none => simp [and_assoc]
  | some b =>
    simp only [Option.some.injEq, forall_eq', List.mem_filter, any_beq_iff]
    constructor
    · rintro ⟨h1, h2, h3, h4⟩; exact ⟨⟨h1, h2, h4⟩, h3⟩
    · rintro ⟨⟨h1, h2, h4⟩, h3⟩; exact ⟨h1, h2, h3, h4⟩

/-- labels removed earlier cannot reappear; only requested labels are retained -/
theorem by_visible (a : AggLabels) (L : List Bytes) : ∀ kv ∈ (a.by L).visible, kv ∈ a.visible ∧ kv.1 ∈ L :=
  fun kv h => (by_visible_iff a L kv).mp h

theorem without_visible_iff (a : AggLabels) (L : List Bytes) (kv : Bytes × Bytes) :
    kv ∈ (a.wo L).visible ↔ kv ∈ a.visible ∧ kv.1 ∉ L := by
  unfold AggLabels.wo
  split
  · rename_i he
    have : L = [] := by simpa using he
    subst this; simp
  · rw [mem_visible, mem_visible]
    simp only [List.mem_append, not_or]
    constructor
    · rintro ⟨h1, ⟨h2, h3⟩, h4⟩; exact ⟨⟨h1, h2, h4⟩, h3⟩
    · rintro ⟨⟨h1, h2, h4⟩, h3⟩; exact ⟨h1, ⟨h2, h3⟩, h4⟩

theorem by_nonexistent_label (a : AggLabels) (L : List Bytes) (h : ∀ l ∈ L, ∀ kv ∈ a.visible, kv.1 ≠ l) :
    (a.by L).visible = [] := by
  rw [List.eq_nil_iff_forall_not_mem]
  intro kv hkv
  obtain ⟨h1, h2⟩ := (by_visible_iff a L kv).mp hkv
  exact h kv.1 h2 kv h1 rfl

/-- nesting composes: `by L2` after `by L1` retains the labels in both lists -/
theorem by_by (a : AggLabels) (L1 L2 : List Bytes) (kv : Bytes × Bytes) :
    kv ∈ ((a.by L1).by L2).visible ↔ kv ∈ a.visible ∧ kv.1 ∈ L1 ∧ kv.1 ∈ L2 := by
  rw [by_visible_iff, by_visible_iff, and_assoc]

/-- `without` after `by`, `by` after `without`, `without` twice -/
theorem by_without (a : AggLabels) (L1 L2 : List Bytes) (kv : Bytes × Bytes) :
    kv ∈ ((a.by L1).wo L2).visible ↔ kv ∈ a.visible ∧ kv.1 ∈ L1 ∧ kv.1 ∉ L2 := by
  rw [without_visible_iff, by_visible_iff, and_assoc]

theorem without_by (a : AggLabels) (L1 L2 : List Bytes) (kv : Bytes × Bytes) :
    kv ∈ ((a.wo L1).by L2).visible ↔ kv ∈ a.visible ∧ kv.1 ∉ L1 ∧ kv.1 ∈ L2 := by
  rw [by_visible_iff, without_visible_iff, and_assoc]

theorem without_without (a : AggLabels) (L1 L2 : List Bytes) (kv : Bytes × Bytes) :
    kv ∈ ((a.wo L1).wo L2).visible ↔ kv ∈ a.visible ∧ kv.1 ∉ L1 ∧ kv.1 ∉ L2 := by
  rw [without_visible_iff, without_visible_iff, and_assoc]

/-- grouping keeps label sets well formed -/
theorem visible_sublist_entries (a : AggLabels) : a.visible.Sublist a.entries := List.filter_sublist

theorem wfset_of_entries {a : AggLabels} (h : (a.entries.map Prod.fst).Nodup) : WFSet a :=
  List.Nodup.sublist ((visible_sublist_entries a).map Prod.fst) h

theorem by_entries (a : AggLabels) (L : List Bytes) : (a.by L).entries = a.entries := rfl

theorem wo_entries (a : AggLabels) (L : List Bytes) : (a.wo L).entries = a.entries := by
  unfold AggLabels.wo; split <;> rfl

theorem applyGrouping_by_wf (g : Option Grouping) (a : AggLabels) (h : (a.entries.map Prod.fst).Nodup) :
    WFSet (applyGrouping g (fun a => a.by []) a) := by
  apply wfset_of_entries
  unfold applyGrouping
  split
  · exact h
  · split
    · rw [wo_entries]; exact h
    · exact h

theorem by_nil_visible (a : AggLabels) : (a.by []).visible = [] :=
  by_nonexistent_label a [] (fun l hl => by simp at hl)

/-! ## no grouping clause: one group with the empty label set -/

theorem sameSet_of_visible_nil {a b : AggLabels} (ha : a.visible = []) (hb : b.visible = []) :
    sameSet a b = true := by
  simp [sameSet, sameLabels, ha, hb]

/-- **without a grouping clause all input series form one group with an empty label set** -/
theorem ungrouped_one_group (op : VecOp) (hop : isAggOp op = true) (param : Option Int) (s : Step)
    (hne : s.samples ≠ []) :
    ∃ x, (vecStep op param none s).samples = [x] ∧ x.set.visible = [] ∧
      x.v = vecAggregate op (s.samples.map (·.v)) := by
  rw [agg_spec op hop]
  simp only [applyGrouping]
  have hkey : ∀ x : Sample, ((fun x : Sample => x.set.by []) x).visible = [] := fun x => by_nil_visible x.set
  have hwf : ∀ x ∈ s.samples, WFSet ((fun x : Sample => x.set.by []) x) := by
    intro x _; unfold WFSet; rw [hkey x]; exact List.nodup_nil
  have hdist := groups_distinct (fun x : Sample => x.set.by []) s.samples
  have hvis : ∀ g ∈ groupBySet (fun x : Sample => x.set.by []) s.samples, g.1.visible = [] := by
    intro g hg
    obtain ⟨x, _, hx⟩ := group_key_of_member _ _ g hg
    rw [hx]; exact hkey x
  have hmem := group_members (fun x : Sample => x.set.by []) s.samples hwf
  cases hgs : groupBySet (fun x : Sample => x.set.by []) s.samples with
  | nil =>
    cases hs : s.samples with
    | nil => exact absurd hs hne
    | cons y ys =>
      obtain ⟨g, hg, _⟩ := every_element_grouped (fun x : Sample => x.set.by []) s.samples hwf y (by rw [hs]; exact List.mem_cons_self)
      rw [hgs] at hg; cases hg
  | cons g rest =>
    rw [hgs] at hdist hvis hmem
    cases rest with
    | cons h rest' =>
      have := List.rel_of_pairwise_cons hdist (List.mem_cons_self (a := h) (l := rest'))
      rw [sameSet_of_visible_nil (hvis g List.mem_cons_self)
        (hvis h (List.mem_cons_of_mem _ List.mem_cons_self))] at this
      cases this
    | nil =>
      refine ⟨_, rfl, hvis g List.mem_cons_self, ?_⟩
      have hg2 := hmem g List.mem_cons_self
      have : s.samples.filter (fun x => sameSet g.1 (x.set.by [])) = s.samples := by
        rw [List.filter_eq_self]
        intro x _
        exact sameSet_of_visible_nil (hvis g List.mem_cons_self) (hkey x)
      simp only
      rw [hg2, this]

/-! ## the aggregators -/

theorem vecAggregate_sum (vs : List Val) : vecAggregate .sum vs = vs.foldl Val.add (.q 0) := rfl

theorem vecAggregate_count (vs : List Val) : vecAggregate .count vs = .q vs.length := rfl

theorem ratsOf_map_q (rs : List Rat) : ratsOf (rs.map Val.q) = some rs := by
  induction rs with
  | nil => rfl
  | cons r rs ih =>
    have : ratsOf ((r :: rs).map Val.q) =
        (match Val.q r, ratsOf (rs.map Val.q) with
          | .q r, some l => some (r :: l)
          | _, _ => none) := rfl
    rw [this, ih]

/-- **`avg` is the arithmetic mean** over exact rationals -/
theorem avgVal_rats (rs : List Rat) (h : rs ≠ []) :
    avgVal (rs.map Val.q) = .q (rs.foldl (· + ·) 0 / rs.length) := by
  unfold avgVal
  rw [ratsOf_map_q]
  cases rs with
  | nil => exact absurd rfl h
  | cons r rs => simp

/-! ## `topk` / `bottomk` / `sort` / `sort_desc` -/

theorem insertSample_perm (less : Val → Val → Bool) (x : Sample) (ys : List Sample) :
    (insertSample less x ys).Perm (x :: ys) := by
  induction ys with
  | nil => exact List.Perm.refl _
  | cons y ys ih =>
    unfold insertSample
    split
    · exact List.Perm.refl _
    · exact (List.Perm.cons y ih).trans (List.Perm.swap x y ys)

theorem foldl_insertSample_perm (less : Val → Val → Bool) (xs acc : List Sample) :
    (xs.foldl (fun acc x => insertSample less x acc) acc).Perm (xs ++ acc) := by
  induction xs generalizing acc with
  | nil => exact List.Perm.refl _
  | cons x xs ih =>
    simp only [List.foldl_cons, List.cons_append]
    exact (ih _).trans ((List.Perm.append_left xs (insertSample_perm less x acc)).trans
      List.perm_middle)

/-- sorting keeps every sample (labels and value intact) -/
theorem sortSamples_perm (less : Val → Val → Bool) (xs : List Sample) : (sortSamples less xs).Perm xs := by
  have := foldl_insertSample_perm less xs []
  simpa [sortSamples] using this

def SortedBy (less : Val → Val → Bool) (xs : List Sample) : Prop :=
  xs.Pairwise (fun a b => less b.v a.v = false)

theorem insertSample_sorted (less : Val → Val → Bool)
    (hasymm : ∀ a b, less a b = true → less b a = false)
    (htrans : ∀ a b c, less a b = true → less b c = true → less a c = true)
    (x : Sample) (ys : List Sample) (hs : SortedBy less ys) : SortedBy less (insertSample less x ys) := by
  induction ys with
  | nil => simp [insertSample, SortedBy]
  | cons y ys ih =>
    unfold insertSample
    have hs' := List.pairwise_cons.mp hs
    split
    · rename_i hlt
      refine List.Pairwise.cons ?_ hs
      intro z hz
      rcases List.mem_cons.mp hz with rfl | hz
      · exact hasymm _ _ hlt
      · cases hzx : less z.v x.v with
        | false => rfl
        | true =>
          have := htrans _ _ _ hzx hlt
          rw [hs'.1 z hz] at this; cases this
    · rename_i hnlt
      refine List.Pairwise.cons ?_ (ih hs'.2)
      intro z hz
      rcases List.mem_cons.mp ((insertSample_perm less x ys).mem_iff.mp hz) with rfl | hz
      · simpa using hnlt
      · exact hs'.1 z hz

/-- the output of the sort is ordered: no later sample is strictly `less` than an earlier one -/
theorem sortSamples_sorted (less : Val → Val → Bool)
    (hasymm : ∀ a b, less a b = true → less b a = false)
    (htrans : ∀ a b c, less a b = true → less b c = true → less a c = true)
    (xs : List Sample) : (sortSamples less xs).Pairwise (fun a b => less b.v a.v = false) := by
  have : ∀ acc, SortedBy less acc → SortedBy less (xs.foldl (fun acc x => insertSample less x acc) acc) := by
    induction xs with
    | nil => intro acc h; exact h
    | cons x xs ih => intro acc h; exact ih _ (insertSample_sorted less hasymm htrans x acc h)
  exact this [] List.Pairwise.nil

/-- `Val.lt` (and its converse) satisfy the hypotheses of `sortSamples_sorted` -/
theorem val_lt_asymm (a b : Val) (h : Val.lt a b = true) : Val.lt b a = false := by
  cases a <;> cases b <;> simp_all [Val.lt]
  grind

theorem val_lt_trans (a b c : Val) (h1 : Val.lt a b = true) (h2 : Val.lt b c = true) : Val.lt a c = true := by
  cases a <;> cases b <;> cases c <;> simp_all [Val.lt]
  grind

theorem sortSamples_asc_sorted (xs : List Sample) :
    (sortSamples Val.lt xs).Pairwise (fun a b => Val.lt b.v a.v = false) :=
  sortSamples_sorted Val.lt val_lt_asymm val_lt_trans xs

theorem sortSamples_desc_sorted (xs : List Sample) :
    (sortSamples (fun a b => Val.lt b a) xs).Pairwise (fun a b => Val.lt a.v b.v = false) :=
  sortSamples_sorted (fun a b => Val.lt b a) (fun a b h => val_lt_asymm b a h)
    (fun a b c h1 h2 => val_lt_trans c b a h2 h1) xs

/-- **`topk k`: each group contributes the first `k` of its samples sorted by descending value** -/
theorem topk_spec (k : Nat) (hk : 0 < k) (g : Option Grouping) (s : Step) :
    (vecStep .topk (some (k : Int)) g s).samples =
      (groupBySet (fun x : Sample => applyGrouping g (fun a => a.by []) x.set) s.samples).flatMap
        (fun grp => (sortSamples (fun a b => Val.lt b a) grp.2).take k) := by
  have h0 : ((k : Int) == 0) = false := by simp; omega
  have h1 : ¬ ((k : Int) < 0) := by omega
  simp [vecStep, h0, h1]

theorem bottomk_spec (k : Nat) (hk : 0 < k) (g : Option Grouping) (s : Step) :
    (vecStep .bottomk (some (k : Int)) g s).samples =
      (groupBySet (fun x : Sample => applyGrouping g (fun a => a.by []) x.set) s.samples).flatMap
        (fun grp => (sortSamples Val.lt grp.2).take k) := by
  have h0 : ((k : Int) == 0) = false := by simp; omega
  have h1 : ¬ ((k : Int) < 0) := by omega
  simp [vecStep, h0, h1]

/-- `topk 0` yields nothing -/
theorem topk_zero (g : Option Grouping) (s : Step) : (vecStep .topk (some 0) g s).samples = [] := by
  simp [vecStep]

/-- **`sort`: each group is emitted in ascending order, complete** -/
theorem sort_spec (g : Option Grouping) (s : Step) :
    (vecStep .sort none g s).samples =
      (groupBySet (fun x : Sample => applyGrouping g (fun a => a.by []) x.set) s.samples).flatMap
        (fun grp => sortSamples Val.lt grp.2) := by
  simp [vecStep]

theorem sortDesc_spec (g : Option Grouping) (s : Step) :
    (vecStep .sortDesc none g s).samples =
      (groupBySet (fun x : Sample => applyGrouping g (fun a => a.by []) x.set) s.samples).flatMap
        (fun grp => sortSamples (fun a b => Val.lt b a) grp.2) := by
  simp [vecStep]

/-- labels intact: every sample `topk` emits is one of the input samples, unchanged -/
theorem topk_subset (k : Nat) (hk : 0 < k) (g : Option Grouping) (s : Step) :
    ∀ x ∈ (vecStep .topk (some (k : Int)) g s).samples, x ∈ s.samples := by
  intro x hx
  rw [topk_spec k hk] at hx
  obtain ⟨grp, hgrp, hx⟩ := List.mem_flatMap.mp hx
  have h1 := (sortSamples_perm _ _).mem_iff.mp (List.mem_of_mem_take hx)
  exact (groups_flatten_perm _ s.samples).mem_iff.mp (List.mem_flatMap.mpr ⟨grp, hgrp, h1⟩)

/-- `sort` emits exactly the input samples (as a multiset) -/
theorem sort_perm (g : Option Grouping) (s : Step) : (vecStep .sort none g s).samples.Perm s.samples := by
  rw [sort_spec]
  refine List.Perm.trans ?_ (groups_flatten_perm (fun x : Sample => applyGrouping g (fun a => a.by []) x.set) s.samples)
  generalize groupBySet (fun x : Sample => applyGrouping g (fun a => a.by []) x.set) s.samples = l
  induction l with
  | nil => exact List.Perm.refl _
  | cons grp l ih =>
    simp only [List.flatMap_cons]
    exact List.Perm.append (sortSamples_perm _ _) ih

/-! ## `stdvar`: Welford's recurrence is the population variance -/

/-- the update of `stdvarVal`, as coded -/
def wstep (st : Rat × Rat × Rat) (v : Rat) : Rat × Rat × Rat :=
  (st.1 + 1, st.2.1 + (v - st.2.1) / (st.1 + 1),
    st.2.2 + (v - st.2.1) * (v - (st.2.1 + (v - st.2.1) / (st.1 + 1))))

theorem stdvarVal_q (rs : List Rat) :
    stdvarVal (rs.map Val.q) =
      if rs.isEmpty then .nan else .q ((rs.foldl wstep (0, 0, 0)).2.2 / (rs.foldl wstep (0, 0, 0)).1) := by
  unfold stdvarVal
  rw [ratsOf_map_q]
  rfl

/-- sum of squares -/
def sq (l : List Rat) : Rat := (l.map (fun x => x * x)).sum

/-- the state Welford's recurrence is in after consuming the non-empty prefix `pre` -/
def wstate (pre : List Rat) : Rat × Rat × Rat :=
  ((pre.length : Rat), pre.sum / (pre.length : Rat), sq pre - pre.sum * pre.sum / (pre.length : Rat))

theorem natCast_ne_zero {l : List Rat} (h : l ≠ []) : ((l.length : Nat) : Rat) ≠ 0 := by
  have : 0 < l.length := List.length_pos_iff.mpr h
  have := Rat.natCast_pos.mpr this
  grind

theorem natCast_succ_ne_zero (n : Nat) : (n : Rat) + 1 ≠ 0 := by
  have : (0 : Rat) ≤ n := Rat.natCast_nonneg
  grind

theorem wstep_wstate (pre : List Rat) (hpre : pre ≠ []) (v : Rat) : wstep (wstate pre) v = wstate (pre ++ [v]) := by
  have hn := natCast_ne_zero hpre
  have hn1 := natCast_succ_ne_zero pre.length
  have hlen : (((pre ++ [v]).length : Nat) : Rat) = (pre.length : Rat) + 1 := by simp
  have hsum : (pre ++ [v]).sum = pre.sum + v := by simp [List.sum_append]; grind
  have hsq : sq (pre ++ [v]) = sq pre + v * v := by simp [sq, List.sum_append]; grind
  unfold wstep wstate
  rw [hlen, hsum, hsq]
  generalize (pre.length : Rat) = n at hn hn1
  generalize pre.sum = S
  generalize sq pre = Q
  refine Prod.ext rfl (Prod.ext ?_ ?_)
  · show S / n + (v - S / n) / (n + 1) = (S + v) / (n + 1)
    grind
  · show (Q - S * S / n) + (v - S / n) * (v - (S / n + (v - S / n) / (n + 1))) = Q + v * v - (S + v) * (S + v) / (n + 1)
    grind

theorem foldl_wstep_wstate (pre post : List Rat) (hpre : pre ≠ []) :
    post.foldl wstep (wstate pre) = wstate (pre ++ post) := by
  induction post generalizing pre with
  | nil => simp
  | cons v post ih =>
    rw [List.foldl_cons, wstep_wstate pre hpre, ih (pre ++ [v]) (by simp)]
    simp

theorem foldl_wstep (rs : List Rat) (h : rs ≠ []) : rs.foldl wstep (0, 0, 0) = wstate rs := by
  cases rs with
  | nil => exact absurd rfl h
  | cons v rest =>
    have h1 : wstep (0, 0, 0) v = wstate [v] := by
      unfold wstep wstate sq
      refine Prod.ext ?_ (Prod.ext ?_ ?_) <;> simp <;> grind
    rw [List.foldl_cons, h1, foldl_wstep_wstate [v] rest (by simp)]
    rfl

/-- `Σ (x − μ)² = Σ x² − 2 μ Σ x + n μ²` -/
theorem sum_sq_dev (l : List Rat) (μ : Rat) :
    (l.map (fun x => (x - μ) * (x - μ))).sum = sq l - 2 * μ * l.sum + (l.length : Rat) * (μ * μ) := by
  induction l with
  | nil => simp [sq]; grind
  | cons x l ih =>
    have hlen : (((x :: l).length : Nat) : Rat) = (l.length : Rat) + 1 := by simp
    have hsq : sq (x :: l) = x * x + sq l := by simp [sq]
    rw [List.map_cons, List.sum_cons, ih, hlen, hsq, List.sum_cons]
    grind

/-- **`stdvar` (Welford's recurrence as coded) is the population variance `Σ (x − mean)² / n`** over exact rationals -/
theorem stdvarVal_rats (rs : List Rat) (h : rs ≠ []) :
    stdvarVal (rs.map Val.q) =
      .q ((rs.map (fun x => (x - rs.sum / (rs.length : Rat)) * (x - rs.sum / (rs.length : Rat)))).sum /
          (rs.length : Rat)) := by
  rw [stdvarVal_q, foldl_wstep rs h, sum_sq_dev]
  have hne : rs.isEmpty = false := by cases rs with
    | nil => exact absurd rfl h
    | cons _ _ => rfl
  simp only [hne, Bool.false_eq_true, ↓reduceIte, wstate]
  have hn := natCast_ne_zero h
  generalize (rs.length : Rat) = n at hn
  congr 1
  grind

theorem foldl_add_eq_sum (rs : List Rat) (a : Rat) : rs.foldl (· + ·) a = a + rs.sum := by
  induction rs generalizing a with
  | nil => simp; grind
  | cons x xs ih => rw [List.foldl_cons, ih, List.sum_cons]; grind

/-- `avg` with the same notation: `Σ x / n` -/
theorem avgVal_rats_sum (rs : List Rat) (h : rs ≠ []) : avgVal (rs.map Val.q) = .q (rs.sum / (rs.length : Rat)) := by
  rw [avgVal_rats rs h, foldl_add_eq_sum, Rat.zero_add]

/-- `stddev` is the square root of that variance (or exactly 0) -/
theorem stddevVal_rats (rs : List Rat) (h : rs ≠ []) :
    stddevVal (rs.map Val.q) =
      (let var := (rs.map (fun x => (x - rs.sum / (rs.length : Rat)) * (x - rs.sum / (rs.length : Rat)))).sum /
          (rs.length : Rat)
       if var == 0 then .q 0 else .sqrt var) := by
  unfold stddevVal
  rw [stdvarVal_rats rs h]

/-! ## non-vacuity: concrete instances of the hypotheses -/

section Examples

private def sA : AggLabels := ⟨[([97], [1]), ([98], [2])], [], none⟩      -- {a=1, b=2}
private def sB : AggLabels := ⟨[([97], [1]), ([98], [3])], [], none⟩      -- {a=1, b=3}
private def sC : AggLabels := ⟨[([97], [4]), ([98], [2])], [], none⟩      -- {a=4, b=2}
private def stp : Step := ⟨7, [⟨sA, .q 1⟩, ⟨sC, .q 5⟩, ⟨sB, .q 2⟩]⟩

-- agg_spec / agg_no_duplicate_series: the hypothesis holds for the seven aggregating ops, fails for the others
example : isAggOp .sum = true ∧ isAggOp .stdvar = true ∧ isAggOp .topk = false := by decide

-- agg_group_members: `sum by (a)` over three series with two values of `a`: groups {a=1} (series 1 and 3) and {a=4}
example : (∀ x ∈ stp.samples, WFSet (applyGrouping (some ⟨false, [[97]]⟩) (fun a => a.by []) x.set)) ∧
    ((vecStep .count none (some ⟨false, [[97]]⟩) stp).samples.map (fun x => (x.set.visible, x.v))) =
      [([([97], [1])], .q 2), ([([97], [4])], .q 1)] := by
  refine ⟨?_, by decide⟩
  intro x hx
  exact applyGrouping_by_wf _ _ (by
    simp only [stp, List.mem_cons, List.not_mem_nil, or_false] at hx
    rcases hx with rfl | rfl | rfl <;> decide)

-- ungrouped_one_group: a non-empty step
example : stp.samples ≠ [] := by simp [stp]

-- by_nonexistent_label: `by (c)` on {a=1, b=2}
example : ∀ l ∈ [[99]], ∀ kv ∈ sA.visible, kv.1 ≠ l := by decide

-- by_by / without_visible_iff instances
example : ((sA.by [[97], [98]]).by [[98], [99]]).visible = [([98], [2])] := by decide
example : (sA.wo [[98]]).visible = [([97], [1])] := by decide
-- a label removed by `without` does not come back with a later `by`
example : ((sA.wo [[98]]).by [[98]]).visible = [] := by decide

-- avgVal_rats / stdvarVal_rats: non-empty lists
example : ([1, 2, 3, 6] : List Rat) ≠ [] := by simp

-- sortSamples_sorted: the hypotheses hold for `Val.lt` and its converse (`val_lt_asymm`, `val_lt_trans`);
-- topk_spec: k = 2
example : (0 : Nat) < 2 := by decide

end Examples

end Metric.C11
