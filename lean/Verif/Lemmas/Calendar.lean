import Verif.Model.Render
import Verif.Model.Rfc3339
import Verif.Lemmas.Frames
/-! The real timestamp codec: `Render.rfc3339Nano` (the daemon's `RFC3339Nano` printer) and
`Rfc3339.parse` (Go's parser) are inverse on 1970–9999, to the nanosecond; C03 instantiated with it. -/
namespace Calendar
open Bytes

/-! ## civil calendar -/

/-- the year-of-era formula of `civilFromDays` splits a day-of-era into a (March-based) year and a
day of that year; day 365 only occurs when the following calendar year is a leap year -/
theorem era_facts (doe yoe : Nat) (h : doe < 146097)
    (hy : yoe = (doe - doe / 1460 + doe / 36524 - doe / 146096) / 365) :
    yoe ≤ 399 ∧ 365 * yoe + yoe / 4 - yoe / 100 ≤ doe ∧ doe - (365 * yoe + yoe / 4 - yoe / 100) ≤ 365 ∧
    (doe - (365 * yoe + yoe / 4 - yoe / 100) = 365 → (yoe + 1) % 4 = 0 ∧ ((yoe + 1) % 100 ≠ 0 ∨ yoe = 399)) := by
  by_cases hlast : doe = 146096
  · subst hlast; subst hy; decide
  have hf : doe / 146096 = 0 := by omega
  -- century
  have he : doe / 36524 ≤ 3 := by omega
  generalize hedef : doe / 36524 = e at *
  -- remainder in the century
  obtain ⟨R, hR⟩ : ∃ R, doe = 36524 * e + R := ⟨doe - 36524 * e, by omega⟩
  have hRlt : R < 36524 := by omega
  generalize hpdef : R / 1461 = p at *
  obtain ⟨s, hs⟩ : ∃ s, R = 1461 * p + s := ⟨R - 1461 * p, by omega⟩
  have hslt : s < 1461 := by omega
  have hp : p ≤ 24 := by omega
  generalize hudef : (p + s + 24 * e) / 1460 = u at *
  have hu : u ≤ 1 := by omega
  have hg : doe / 1460 = 25 * e + p + u := by omega
  have hus : u ≤ s := by omega
  generalize hqdef : (s - u) / 365 = q at *
  have hq : q ≤ 3 := by omega
  have hyoe : yoe = 100 * e + 4 * p + q := by
    rw [hy, hg, hf]; omega
  have h4 : yoe / 4 = 25 * e + p := by omega
  have h100 : yoe / 100 = e := by omega
  rw [h4, h100]
  clear hy hg hf hedef hpdef h4 h100
  subst hyoe hR hs
  refine ⟨by omega, by omega, by omega, ?_⟩
  intro h365
  have hu1 : u = 1 := by omega
  have hs1 : s = 1460 := by omega
  have hq3 : q = 3 := by omega
  have hp23 : p ≤ 23 := by omega
  subst hq3
  omega

/-- month and day of a (March-based) day of the year -/
theorem month_facts (doy mp : Nat) (h : doy ≤ 365) (hmp : mp = (5 * doy + 2) / 153) :
    mp ≤ 11 ∧ (153 * mp + 2) / 5 ≤ doy ∧
    (mp = 0 ∨ mp = 2 ∨ mp = 4 ∨ mp = 5 ∨ mp = 7 ∨ mp = 9 ∨ mp = 10 → doy - (153 * mp + 2) / 5 ≤ 30) ∧
    (mp = 1 ∨ mp = 3 ∨ mp = 6 ∨ mp = 8 → doy - (153 * mp + 2) / 5 ≤ 29) ∧
    (mp = 11 → doy - (153 * mp + 2) / 5 ≤ 28 ∧ (doy - (153 * mp + 2) / 5 = 28 → doy = 365)) := by
  have h11 : mp ≤ 11 := by omega
  have : mp = 0 ∨ mp = 1 ∨ mp = 2 ∨ mp = 3 ∨ mp = 4 ∨ mp = 5 ∨ mp = 6 ∨ mp = 7 ∨ mp = 8 ∨ mp = 9 ∨
      mp = 10 ∨ mp = 11 := by omega
  rcases this with h | h | h | h | h | h | h | h | h | h | h | h <;> subst h <;> omega
