import Verif.Model.Render
import Verif.Model.Rfc3339
import Verif.Lemmas.Frames
/-! The real timestamp codec: `Render.rfc3339Nano` (the daemon's `RFC3339Nano` printer) and
`Rfc3339.parse` (Go's parser) are inverse on 1970–9999, to the nanosecond; C03 instantiated with it. -/
namespace Calendar
open Bytes

/-! ## civil calendar -/

/-- the year-of-era formula of `civilFromDays` splits a day-of-era into a (March-based) year and a
day of that year; day 365 only occurs when the following calendar year is a leap year -/
theorem era_facts (doe yoe : Nat) (h : doe < 146097)
    (hy : yoe = (doe - doe / 1460 + doe / 36524 - doe / 146096) / 365) :
    yoe ≤ 399 ∧ 365 * yoe + yoe / 4 - yoe / 100 ≤ doe ∧ doe - (365 * yoe + yoe / 4 - yoe / 100) ≤ 365 ∧
    (doe - (365 * yoe + yoe / 4 - yoe / 100) = 365 → (yoe + 1) % 4 = 0 ∧ ((yoe + 1) % 100 ≠ 0 ∨ yoe = 399)) := by
  by_cases hlast : doe = 146096
  · subst hlast; subst hy; decide
  have hf : doe / 146096 = 0 := by omega
  -- century
  have he : doe / 36524 ≤ 3 := by omega
  generalize hedef : doe / 36524 = e at *
  -- remainder in the century
  obtain ⟨R, hR⟩ : ∃ R, doe = 36524 * e + R := ⟨doe - 36524 * e, by omega⟩
  have hRlt : R < 36524 := by omega
  generalize hpdef : R / 1461 = p at *
  obtain ⟨s, hs⟩ : ∃ s, R = 1461 * p + s := ⟨R - 1461 * p, by omega⟩
  have hslt : s < 1461 := by omega
  have hp : p ≤ 24 := by omega
  generalize hudef : (p + s + 24 * e) / 1460 = u at *
  have hu : u ≤ 1 := by omega
  have hg : doe / 1460 = 25 * e + p + u := by omega
  have hus : u ≤ s := by omega
  generalize hqdef : (s - u) / 365 = q at *
  have hq : q ≤ 3 := by omega
  have hyoe : yoe = 100 * e + 4 * p + q := by
    rw [hy, hg, hf]; omega
  have h4 : yoe / 4 = 25 * e + p := by omega
  have h100 : yoe / 100 = e := by omega
  rw [h4, h100]
  clear hy hg hf hedef hpdef h4 h100
  subst hyoe hR hs
  refine ⟨by omega, by omega, by omega, ?_⟩
  intro h365
  have hu1 : u = 1 := by omega
  have hs1 : s = 1460 := by omega
  have hq3 : q = 3 := by omega
  have hp23 : p ≤ 23 := by omega
  subst hq3
  omega

/-- month and day of a (March-based) day of the year -/
theorem month_facts (doy mp : Nat) (h : doy ≤ 365) (hmp : mp = (5 * doy + 2) / 153) :
    mp ≤ 11 ∧ (153 * mp + 2) / 5 ≤ doy ∧
    (mp = 0 ∨ mp = 2 ∨ mp = 4 ∨ mp = 5 ∨ mp = 7 ∨ mp = 9 ∨ mp = 10 → doy - (153 * mp + 2) / 5 ≤ 30) ∧
    (mp = 1 ∨ mp = 3 ∨ mp = 6 ∨ mp = 8 → doy - (153 * mp + 2) / 5 ≤ 29) ∧
    (mp = 11 → doy - (153 * mp + 2) / 5 ≤ 28 ∧ (doy - (153 * mp + 2) / 5 = 28 → doy = 365)) := by
  have h11 : mp ≤ 11 := by omega
  have : mp = 0 ∨ mp = 1 ∨ mp = 2 ∨ mp = 3 ∨ mp = 4 ∨ mp = 5 ∨ mp = 6 ∨ mp = 7 ∨ mp = 8 ∨ mp = 9 ∨
      mp = 10 ∨ mp = 11 := by omega
  rcases this with h | h | h | h | h | h | h | h | h | h | h | h <;> subst h <;> omega

theorem daysIn_feb (y : Nat) :
    Time.daysIn 2 y = if y % 4 = 0 ∧ (y % 100 ≠ 0 ∨ y % 400 = 0) then 29 else 28 := by
  simp [Time.daysIn, Time.isLeap]

/-- `civilFromDays` with its intermediate quantities named -/
theorem civilFromDays_eq (z : Int) (z' era doe yoe doy mp : Nat)
    (hz' : (z + 719468 + 146097 * 4).toNat = z')
    (hera : era = z' / 146097) (hdoe : doe = z' % 146097)
    (hyoe : yoe = (doe - doe / 1460 + doe / 36524 - doe / 146096) / 365)
    (hdoy : doy = doe - (365 * yoe + yoe / 4 - yoe / 100)) (hmp : mp = (5 * doy + 2) / 153) :
    Time.civilFromDays z =
      (if (if mp < 10 then mp + 3 else mp - 9) ≤ 2 then yoe + era * 400 - 1600 + 1 else yoe + era * 400 - 1600,
       if mp < 10 then mp + 3 else mp - 9, doy - (153 * mp + 2) / 5 + 1) := by
  subst hmp hdoy hyoe hdoe hera hz'
  rfl

/-- `daysFromCivil` with its intermediate quantities named -/
theorem daysFromCivil_eq (y m d y' : Nat) (hy' : y' = if m ≤ 2 then y + 400 - 1 else y + 400) (mp : Nat)
    (hmp : mp = if m > 2 then m - 3 else m + 9) :
    Time.daysFromCivil y m d =
      ((y' / 400 * 146097 + (y' % 400 * 365 + y' % 400 / 4 - y' % 400 / 100 + ((153 * mp + 2) / 5 + d - 1)) : Nat) : Int)
        - 719468 - 146097 := by
  subst hy' hmp
  rfl

/-- converting back, in terms of the quantities of `civilFromDays` (`y'` is the March-based year
shifted by one era, `dd` the zero-based day of the month) -/
theorem back (z era doe yoe doy mp dd y' : Nat) (hz : z + 1303856 = era * 146097 + doe) (hera : 8 ≤ era)
    (hyoe : yoe ≤ 399) (hdoe : doe = 365 * yoe + yoe / 4 - yoe / 100 + doy)
    (hdd : (153 * mp + 2) / 5 + dd = doy) (hy' : y' = yoe + era * 400 - 1200) :
    ((y' / 400 * 146097 + (y' % 400 * 365 + y' % 400 / 4 - y' % 400 / 100 + ((153 * mp + 2) / 5 + (dd + 1) - 1)) : Nat) : Int)
        - 719468 - 146097 = (z : Int) := by
  have e1 : y' / 400 = era - 3 := by omega
  have e2 : y' % 400 = yoe := by omega
  rw [e1, e2]
  omega

theorem year_lo (z era doe yoe doy : Nat) (hz : z + 1303856 = era * 146097 + doe) (hera : 8 ≤ era)
    (hdoe : doe = 365 * yoe + yoe / 4 - yoe / 100 + doy) (hdoy : doy ≤ 365) :
    9 ≤ era ∨ yoe ≥ 370 ∨ (yoe = 369 ∧ doy ≥ 306) := by
  omega

theorem year_hi (z era doe yoe doy : Nat) (hzz : z ≤ 2932896) (hz : z + 1303856 = era * 146097 + doe) (hera : era ≤ 28)
    (hyoe : yoe ≤ 399)
    (hdoe : doe = 365 * yoe + yoe / 4 - yoe / 100 + doy) (hdoy : doy ≤ 365) :
    era ≤ 27 ∨ yoe ≤ 398 ∨ (yoe = 399 ∧ doy ≤ 305) := by
  omega

/-- the civil date of a day number is a valid date and converts back -/
theorem civil_of_days (z : Nat) (hz : z ≤ 2932896) :
    let ymd := Time.civilFromDays (z : Int)
    1970 ≤ ymd.1 ∧ ymd.1 ≤ 9999 ∧ 1 ≤ ymd.2.1 ∧ ymd.2.1 ≤ 12 ∧ 1 ≤ ymd.2.2 ∧ ymd.2.2 ≤ Time.daysIn ymd.2.1 ymd.1 ∧
    Time.daysFromCivil ymd.1 ymd.2.1 ymd.2.2 = (z : Int) := by
  intro ymd
  obtain ⟨z', hz'⟩ : ∃ z' : Nat, ((z : Int) + 719468 + 146097 * 4).toNat = z' := ⟨_, rfl⟩
  obtain ⟨era, hera⟩ : ∃ era, era = z' / 146097 := ⟨_, rfl⟩
  obtain ⟨doe, hdoe⟩ : ∃ doe, doe = z' % 146097 := ⟨_, rfl⟩
  obtain ⟨yoe, hyoe⟩ : ∃ yoe, yoe = (doe - doe / 1460 + doe / 36524 - doe / 146096) / 365 := ⟨_, rfl⟩
  obtain ⟨doy, hdoy⟩ : ∃ doy, doy = doe - (365 * yoe + yoe / 4 - yoe / 100) := ⟨_, rfl⟩
  obtain ⟨mp, hmp⟩ : ∃ mp, mp = (5 * doy + 2) / 153 := ⟨_, rfl⟩
  have hc : ymd = _ := civilFromDays_eq z z' era doe yoe doy mp hz' hera hdoe hyoe hdoy hmp
  have hz1 : z' = z + 1303856 := by omega
  have hdoelt : doe < 146097 := by omega
  have hz'' : z + 1303856 = era * 146097 + doe := by omega
  have hera8 : 8 ≤ era ∧ era ≤ 28 := by omega
  obtain ⟨hy399, hstart, hdoy365, hleap⟩ := era_facts doe yoe hdoelt hyoe
  rw [← hdoy] at hdoy365 hleap
  have hdoe' : doe = 365 * yoe + yoe / 4 - yoe / 100 + doy := by omega
  obtain ⟨hmp11, hmd, h31, h30, hfeb⟩ := month_facts doy mp hdoy365 hmp
  have hlo := year_lo z era doe yoe doy hz'' hera8.1 hdoe' hdoy365
  have hhi := year_hi z era doe yoe doy hz hz'' hera8.2 hy399 hdoe' hdoy365
  have hjan : mp < 10 ↔ doy < 306 := by omega
  obtain ⟨dd, hdd⟩ : ∃ dd, dd = doy - (153 * mp + 2) / 5 := ⟨_, rfl⟩
  have hdd' : (153 * mp + 2) / 5 + dd = doy := by omega
  rw [← hdd] at h31 h30 hfeb
  rw [hc, ← hdd]
  clear hc ymd hera hdoe hyoe hdoy hz' hz1 hmp hdd
  simp only []
  by_cases hm : mp < 10
  · -- March … December
    simp only [hm, if_true, if_neg (show ¬ mp + 3 ≤ 2 by omega)]
    have hdi : dd + 1 ≤ Time.daysIn (mp + 3) (yoe + era * 400 - 1600) := by
      have hmpc : mp = 0 ∨ mp = 1 ∨ mp = 2 ∨ mp = 3 ∨ mp = 4 ∨ mp = 5 ∨ mp = 6 ∨ mp = 7 ∨ mp = 8 ∨ mp = 9 := by
        omega
      rcases hmpc with h | h | h | h | h | h | h | h | h | h <;> subst h <;> simp [Time.daysIn] <;> omega
    refine ⟨by omega, by omega, by omega, by omega, by omega, hdi, ?_⟩
    have hdf := daysFromCivil_eq (yoe + era * 400 - 1600) (mp + 3) (dd + 1) _ rfl _ rfl
    rw [if_neg (show ¬ mp + 3 ≤ 2 by omega), if_pos (show mp + 3 > 2 by omega), Nat.add_sub_cancel] at hdf
    rw [hdf]
    exact back z era doe yoe doy mp dd _ hz'' hera8.1 hy399 hdoe' hdd' (by omega)
  · -- January, February: the calendar year is one more than the March-based year
    have hmpc : mp = 10 ∨ mp = 11 := by omega
    simp only [hm, if_false, if_pos (show mp - 9 ≤ 2 by omega)]
    have hdi : dd + 1 ≤ Time.daysIn (mp - 9) (yoe + era * 400 - 1600 + 1) := by
      rcases hmpc with h | h <;> subst h
      · simp [Time.daysIn]; omega
      · rw [show 11 - 9 = 2 from rfl, daysIn_feb]
        have h28 := hfeb rfl
        by_cases hd28 : dd = 28
        · have hl := hleap (h28.2 hd28)
          rw [if_pos (by omega)]; omega
        · split <;> omega
    refine ⟨by omega, by omega, by omega, by omega, by omega, hdi, ?_⟩
    have hdf := daysFromCivil_eq (yoe + era * 400 - 1600 + 1) (mp - 9) (dd + 1) _ rfl _ rfl
    rw [if_pos (show mp - 9 ≤ 2 by omega), if_neg (show ¬ mp - 9 > 2 by omega),
      show mp - 9 + 9 = mp by omega] at hdf
    rw [hdf]
    exact back z era doe yoe doy mp dd _ hz'' hera8.1 hy399 hdoe' hdd' (by omega)

open Rfc3339

/-! ## decimal digits (`natToDec` facts as in C16, restated here to keep the imports small) -/

theorem aux_append (fuel n : Nat) (acc : List Nat) :
    natDigitsAux fuel n acc = natDigitsAux fuel n [] ++ acc := by
  induction fuel generalizing n acc with
  | zero => rfl
  | succ f ih =>
    unfold natDigitsAux
    split
    · rfl
    · rw [ih _ (_ :: acc), ih _ [_], List.append_assoc]; rfl

theorem aux_fuel (f1 f2 n : Nat) (acc : List Nat) (h1 : n < f1) (h2 : n < f2) :
    natDigitsAux f1 n acc = natDigitsAux f2 n acc := by
  induction f1 generalizing f2 n acc with
  | zero => omega
  | succ f ih =>
    cases f2 with
    | zero => omega
    | succ g =>
      unfold natDigitsAux
      split
      · rfl
      · exact ih _ _ _ (by omega) (by omega)

theorem natToDec_step (n : Nat) :
    natToDec n = if n < 10 then [48 + n] else natToDec (n / 10) ++ [48 + n % 10] := by
  unfold natToDec
  rw [natDigitsAux]
  split
  · rfl
  · rw [aux_append, aux_fuel n (n / 10 + 1) (n / 10) [] (by omega) (by omega)]

theorem digitsVal_snoc (xs : List Nat) (d : Nat) : digitsVal (xs ++ [d]) = digitsVal xs * 10 + (d - 48) := by
  simp [digitsVal, List.foldl_append]

theorem digitsVal_natToDec (n : Nat) : digitsVal (natToDec n) = n := by
  induction n using Nat.strongRecOn with
  | _ n ih =>
    rw [natToDec_step]
    split
    · simp [digitsVal]
    · rw [digitsVal_snoc, ih (n / 10) (by omega)]; omega

theorem natToDec_allDigit (n : Nat) : (natToDec n).all isDigitB = true := by
  induction n using Nat.strongRecOn with
  | _ n ih =>
    rw [natToDec_step]
    split
    · simp [isDigitB]; omega
    · rw [List.all_append, ih (n / 10) (by omega)]
      simp [isDigitB]; omega

theorem natToDec_length_le (k n : Nat) (hk : 1 ≤ k) (h : n < 10 ^ k) : (natToDec n).length ≤ k := by
  induction k generalizing n with
  | zero => omega
  | succ k ih =>
    rw [natToDec_step]
    split
    · simp
    · have hk' : 1 ≤ k := by
        cases k with
        | zero => simp at h; omega
        | succ k => omega
      have : n / 10 < 10 ^ k := by
        rw [Nat.pow_succ] at h; omega
      have := ih (n / 10) hk' this
      simp; omega

theorem digitsVal_zeros (k : Nat) (x : List Nat) : digitsVal (List.replicate k 48 ++ x) = digitsVal x := by
  induction k with
  | zero => simp
  | succ k ih =>
    rw [List.replicate_succ, List.cons_append]
    have : digitsVal (48 :: (List.replicate k 48 ++ x)) = digitsVal (List.replicate k 48 ++ x) := by
      simp [digitsVal]
    rw [this, ih]

/-- appending zeros multiplies by a power of ten -/
theorem digitsVal_append_zeros (x : List Nat) (k : Nat) :
    digitsVal (x ++ List.replicate k 48) = digitsVal x * 10 ^ k := by
  induction k with
  | zero => simp
  | succ k ih =>
    rw [List.replicate_succ', ← List.append_assoc, digitsVal_snoc, ih, Nat.pow_succ]
    simp [Nat.mul_assoc]

/-- `pad w n` for `n < 10^w`: exactly `w` digits, value `n` -/
theorem pad_spec (w n : Nat) (hw : 1 ≤ w) (h : n < 10 ^ w) :
    (Render.pad w n).length = w ∧ (Render.pad w n).all isDigitB = true ∧ digitsVal (Render.pad w n) = n := by
  have hl := natToDec_length_le w n hw h
  unfold Render.pad
  refine ⟨?_, ?_, ?_⟩
  · simp only [List.length_append, List.length_replicate]; omega
  · rw [List.all_append, natToDec_allDigit]
    simp [isDigitB]
  · rw [digitsVal_zeros, digitsVal_natToDec]

/-- every byte of a padded number is a digit, whatever the number -/
theorem pad_digits (w n : Nat) : ∀ b ∈ Render.pad w n, isDigitB b = true := by
  intro b hb
  unfold Render.pad at hb
  rcases List.mem_append.mp hb with h | h
  · rw [List.eq_of_mem_replicate h]; rfl
  · exact List.all_eq_true.mp (natToDec_allDigit n) b h

theorem parseUint_of (bs : List Nat) (lo hi n : Nat) (hd : bs.all isDigitB = true) (hv : digitsVal bs = n)
    (hlo : lo ≤ n) (hhi : n ≤ hi) : parseUint bs lo hi = some n := by
  unfold parseUint
  rw [if_pos hd]
  show (if (lo ≤ digitsVal bs && digitsVal bs ≤ hi) = true then some (digitsVal bs) else none) = some n
  rw [hv, if_pos (by simp [hlo, hhi])]

theorem parseUint_pad (w n lo hi : Nat) (hw : 1 ≤ w) (h : n < 10 ^ w) (hlo : lo ≤ n) (hhi : n ≤ hi) :
    parseUint (Render.pad w n) lo hi = some n :=
  parseUint_of _ _ _ _ (pad_spec w n hw h).2.1 (pad_spec w n hw h).2.2 hlo hhi

/-! ## the fraction -/

/-- trimming trailing zeros removes a block of zeros -/
theorem trim_spec (l : List Nat) :
    ∃ k, l = (l.reverse.dropWhile (· == 48)).reverse ++ List.replicate k 48 := by
  refine ⟨(l.reverse.takeWhile (· == 48)).length, ?_⟩
  have h := List.takeWhile_append_dropWhile (p := (· == 48)) (l := l.reverse)
  have h2 : l = (l.reverse.dropWhile (· == 48)).reverse ++ (l.reverse.takeWhile (· == 48)).reverse := by
    rw [← List.reverse_append, h, List.reverse_reverse]
  have h3 : (l.reverse.takeWhile (· == 48)).reverse = List.replicate (l.reverse.takeWhile (· == 48)).length 48 := by
    rw [List.eq_replicate_iff]
    refine ⟨by simp, ?_⟩
    intro b hb
    have := List.all_eq_true.mp (List.all_takeWhile (p := (· == 48)) (l := l.reverse)) b (List.mem_reverse.mp hb)
    simpa using this
  rw [← h3]; exact h2

theorem fracNanos_trim (ns : Nat) (h0 : 0 < ns) (h9 : ns < 1000000000) :
    let ds := ((Render.pad 9 ns).reverse.dropWhile (· == 48)).reverse
    ds ≠ [] ∧ ds.all isDigitB = true ∧ fracNanos ds = ns := by
  intro ds
  obtain ⟨hl, hd, hv⟩ := pad_spec 9 ns (by omega) (by omega)
  obtain ⟨k, hk⟩ := trim_spec (Render.pad 9 ns)
  have hk' : Render.pad 9 ns = ds ++ List.replicate k 48 := hk
  rw [hk'] at hl hd hv
  rw [digitsVal_append_zeros] at hv
  rw [List.all_append] at hd
  simp only [List.length_append, List.length_replicate] at hl
  refine ⟨?_, (Bool.and_eq_true _ _ ▸ hd).1, ?_⟩
  · intro hnil
    rw [hnil] at hv
    simp [digitsVal] at hv
    omega
  · unfold fracNanos
    have ht : ds.take 9 = ds := List.take_of_length_le (by omega)
    show digitsVal (ds.take 9) * 10 ^ (9 - (ds.take 9).length) = ns
    rw [ht, show 9 - ds.length = k by omega]
    exact hv

/-! ## the parser on the fixed-width layout -/

theorem len2 (l : List Nat) (h : l.length = 2) : ∃ a b, l = [a, b] := by
  match l, h with
  | [a, b], _ => exact ⟨a, b, rfl⟩

theorem len4 (l : List Nat) (h : l.length = 4) : ∃ a b c d, l = [a, b, c, d] := by
  match l, h with
  | [a, b, c, d], _ => exact ⟨a, b, c, d, rfl⟩

/-- what the parser needs of the text after the seconds: `Z`, or a fraction and `Z` -/
def TailOK (rest : List Nat) (nsec : Nat) : Prop :=
  (rest = [90] ∧ nsec = 0) ∨
  ∃ d tl, rest = 46 :: d :: (tl ++ [90]) ∧ (d :: tl).all isDigitB = true ∧ fracNanos (d :: tl) = nsec

/-- the parser on a text with the fixed-width layout -/
theorem parse_fields (ys ms ds hs is ss rest : List Nat)
    (ly : ys.length = 4) (lm : ms.length = 2) (ld : ds.length = 2) (lh : hs.length = 2)
    (li : is.length = 2) (ls : ss.length = 2)
    (year month day hour min sec nsec : Nat)
    (hy : parseUint ys 0 9999 = some year) (hm : parseUint ms 1 12 = some month)
    (hd : parseUint ds 1 (Time.daysIn month year) = some day) (hh : parseUint hs 0 23 = some hour)
    (hi : parseUint is 0 59 = some min) (hs' : parseUint ss 0 59 = some sec)
    (htail : TailOK rest nsec) :
    parse (ys ++ [45] ++ ms ++ [45] ++ ds ++ [84] ++ hs ++ [58] ++ is ++ [58] ++ ss ++ rest) =
      some (Time.unixNano year month day hour min sec nsec) := by
  obtain ⟨y1, y2, y3, y4, rfl⟩ := len4 ys ly
  obtain ⟨m1, m2, rfl⟩ := len2 ms lm
  obtain ⟨d1, d2, rfl⟩ := len2 ds ld
  obtain ⟨h1, h2, rfl⟩ := len2 hs lh
  obtain ⟨i1, i2, rfl⟩ := len2 is li
  obtain ⟨s1, s2, rfl⟩ := len2 ss ls
  simp only [List.cons_append, List.nil_append]
  unfold parse
  have hlen : ¬ (y1 :: y2 :: y3 :: y4 :: 45 :: m1 :: m2 :: 45 :: d1 :: d2 :: 84 :: h1 :: h2 :: 58 :: i1 :: i2 :: 58 ::
      s1 :: s2 :: rest).length < 19 := by
    simp only [List.length_cons]; omega
  rw [if_neg hlen]
  simp only [List.take_succ_cons, List.take_zero, List.drop_succ_cons, List.drop_zero, hy, hm, hd, hh, hi, hs']
  have hsep : ((y1 :: y2 :: y3 :: y4 :: 45 :: m1 :: m2 :: 45 :: d1 :: d2 :: 84 :: h1 :: h2 :: 58 :: i1 :: i2 :: 58 ::
        s1 :: s2 :: rest).getD 4 0 == 45 &&
      (y1 :: y2 :: y3 :: y4 :: 45 :: m1 :: m2 :: 45 :: d1 :: d2 :: 84 :: h1 :: h2 :: 58 :: i1 :: i2 :: 58 ::
        s1 :: s2 :: rest).getD 7 0 == 45 &&
      (y1 :: y2 :: y3 :: y4 :: 45 :: m1 :: m2 :: 45 :: d1 :: d2 :: 84 :: h1 :: h2 :: 58 :: i1 :: i2 :: 58 ::
        s1 :: s2 :: rest).getD 10 0 == 84 &&
      (y1 :: y2 :: y3 :: y4 :: 45 :: m1 :: m2 :: 45 :: d1 :: d2 :: 84 :: h1 :: h2 :: 58 :: i1 :: i2 :: 58 ::
        s1 :: s2 :: rest).getD 13 0 == 58 &&
      (y1 :: y2 :: y3 :: y4 :: 45 :: m1 :: m2 :: 45 :: d1 :: d2 :: 84 :: h1 :: h2 :: 58 :: i1 :: i2 :: 58 ::
        s1 :: s2 :: rest).getD 16 0 == 58) = true := rfl
  rw [if_pos hsep]
  rcases htail with ⟨rfl, rfl⟩ | ⟨d, tl, rfl, hdig, rfl⟩
  · simp [parseZone, Time.nsPerSec]
  · have hd0 : isDigitB d = true := by
      simp only [List.all_cons, Bool.and_eq_true] at hdig; exact hdig.1
    have hall : ∀ a ∈ d :: tl, isDigitB a = true := List.all_eq_true.mp hdig
    have htw : List.takeWhile isDigitB (d :: (tl ++ [90])) = d :: tl := by
      rw [← List.cons_append, List.takeWhile_append_of_pos hall]
      simp [isDigitB]
    have hdw : List.dropWhile isDigitB (d :: (tl ++ [90])) = [90] := by
      rw [← List.cons_append, List.dropWhile_append_of_pos hall]
      simp [isDigitB]
    simp only [hd0, if_true, htw, hdw]
    simp [parseZone, Time.nsPerSec]

/-- the text after the seconds, for a nanosecond count below one second -/
theorem tailOK_fracText (ns : Nat) (h9 : ns < 1000000000) : TailOK (Render.fracText ns ++ [90]) ns := by
  unfold Render.fracText
  by_cases h0 : ns = 0
  · subst h0; exact Or.inl ⟨rfl, rfl⟩
  · right
    have hne : (ns == 0) = false := by simpa using h0
    obtain ⟨hnil, hdig, hv⟩ := fracNanos_trim ns (by omega) h9
    simp only [hne]
    generalize ((Render.pad 9 ns).reverse.dropWhile (· == 48)).reverse = ds at *
    cases ds with
    | nil => exact absurd rfl hnil
    | cons d tl => exact ⟨d, tl, rfl, hdig, hv⟩

/-- **timestamps are nanosecond-exact**: parsing the RFC3339Nano text of an instant gives the instant back -/
theorem rfc3339_roundtrip (t : Nat) (ht : t < 253402300800000000000) :
    Rfc3339.parse (Render.rfc3339Nano t) = some (t : Int) := by
  obtain ⟨secs, hsecs⟩ : ∃ s, s = t / 1000000000 := ⟨_, rfl⟩
  obtain ⟨ns, hns⟩ : ∃ n, n = t % 1000000000 := ⟨_, rfl⟩
  obtain ⟨days, hdays⟩ : ∃ d, d = secs / 86400 := ⟨_, rfl⟩
  obtain ⟨rem, hrem⟩ : ∃ r, r = secs % 86400 := ⟨_, rfl⟩
  have hdl : days ≤ 2932896 := by omega
  have hciv := civil_of_days days hdl
  unfold Render.rfc3339Nano
  dsimp only at hciv ⊢
  rw [← hsecs, ← hns, ← hdays, ← hrem]
  generalize Time.civilFromDays (days : Int) = ymd at hciv ⊢
  obtain ⟨y, m, d⟩ := ymd
  dsimp only at hciv ⊢
  obtain ⟨hy1, hy2, hm1, hm2, hd1, hd2, hback⟩ := hciv
  have hd31 : Time.daysIn m y ≤ 31 := by
    unfold Time.daysIn; split
    · split <;> omega
    · split <;> omega
  rw [List.append_assoc _ (Render.fracText ns) [90]]
  rw [parse_fields (Render.pad 4 y) (Render.pad 2 m) (Render.pad 2 d) (Render.pad 2 (rem / 3600))
    (Render.pad 2 (rem % 3600 / 60)) (Render.pad 2 (rem % 60)) (Render.fracText ns ++ [90])
    (pad_spec 4 y (by omega) (by omega)).1 (pad_spec 2 m (by omega) (by omega)).1
    (pad_spec 2 d (by omega) (by omega)).1 (pad_spec 2 _ (by omega) (by omega)).1
    (pad_spec 2 _ (by omega) (by omega)).1 (pad_spec 2 _ (by omega) (by omega)).1
    y m d (rem / 3600) (rem % 3600 / 60) (rem % 60) ns
    (parseUint_pad 4 y 0 9999 (by omega) (by omega) (by omega) (by omega))
    (parseUint_pad 2 m 1 12 (by omega) (by omega) (by omega) (by omega))
    (parseUint_pad 2 d 1 _ (by omega) (by omega) (by omega) hd2)
    (parseUint_pad 2 _ 0 23 (by omega) (by omega) (by omega) (by omega))
    (parseUint_pad 2 _ 0 59 (by omega) (by omega) (by omega) (by omega))
    (parseUint_pad 2 _ 0 59 (by omega) (by omega) (by omega) (by omega))
    (tailOK_fracText ns (by omega))]
  simp only [Time.unixNano, Time.nsPerSec, hback]
  congr 1
  omega

/-! ## no space in the text -/

theorem fracText_bytes (ns : Nat) : ∀ b ∈ Render.fracText ns, b = 46 ∨ isDigitB b = true := by
  intro b hb
  unfold Render.fracText at hb
  split at hb
  · simp at hb
  · rcases List.mem_cons.mp hb with h | h
    · exact Or.inl h
    · right
      have h1 := (List.dropWhile_sublist (· == 48)).subset (List.mem_reverse.mp h)
      exact pad_digits 9 ns b (List.mem_reverse.mp h1)

/-- the text contains no space (it can be cut from the message at the first space) -/
theorem rfc3339_nospace (t : Nat) : ∀ b ∈ Render.rfc3339Nano t, b ≠ 32 := by
  intro b hb
  have hdig : ∀ w n, b ∈ Render.pad w n → b ≠ 32 := by
    intro w n h
    have := pad_digits w n b h
    simp only [isDigitB, Bool.and_eq_true, decide_eq_true_eq] at this
    omega
  unfold Render.rfc3339Nano at hb
  simp only [List.mem_append, List.mem_singleton] at hb
  rcases hb with ((((((((((((h | h) | h) | h) | h) | h) | h) | h) | h) | h) | h) | h) | h)
  all_goals first
    | exact hdig _ _ h
    | (subst h; decide)
    | skip
  rcases fracText_bytes _ b h with h | h
  · subst h; decide
  · simp only [isDigitB, Bool.and_eq_true, decide_eq_true_eq] at h
    omega

/-! ## C03 with the real codec

`Frames.Codec` asks for a round trip at every `t : Int`; the lemmas of `Lemmas/Frames.lean` only use
it at the records' own timestamps, so they are restated here with the codec facts per record. -/

section
variable {fmtTs : Int → List Nat} {parseTs : List Nat → Option Int}

/-- the codec facts at one record -/
def CodecAt (fmtTs : Int → List Nat) (parseTs : List Nat → Option Int) (r : Frames.Rec) : Prop :=
  parseTs (fmtTs r.ts) = some r.ts ∧ ∀ b ∈ fmtTs r.ts, b ≠ 32

theorem step_frame_at (r : Frames.Rec) (hr : Frames.WF fmtTs r) (hc : CodecAt fmtTs parseTs r) (tail : List Nat) :
    Frames.step parseTs (Frames.encode fmtTs r ++ tail) = .item r tail := by
  obtain ⟨htyp, hlen⟩ := hr
  rw [Frames.encode_eq_raw, Frames.step_raw _ _ _ hlen]
  have hcut : Frames.cutSpace (Frames.payload fmtTs r) = some (fmtTs r.ts, r.body) :=
    Frames.cutSpace_append _ _ hc.2
  simp only [htyp, ↓reduceIte, hcut, hc.1]

theorem decode_prefix_at (rs : List Frames.Rec) (hr : ∀ r ∈ rs, Frames.WF fmtTs r ∧ CodecAt fmtTs parseTs r)
    (tail : List Nat) (fuel : Nat) :
    Frames.decode parseTs (rs.length + fuel) (Frames.encodeAll fmtTs rs ++ tail) =
      (rs ++ (Frames.decode parseTs fuel tail).1, (Frames.decode parseTs fuel tail).2) := by
  induction rs with
  | nil => simp [Frames.encodeAll]
  | cons r rs ih =>
    have hr0 := hr r (by simp)
    have e : (r :: rs).length + fuel = rs.length + fuel + 1 := by simp; omega
    have ih' := ih (fun x hx => hr x (by simp [hx]))
    simp only [Frames.encodeAll, List.flatMap_cons, List.append_assoc] at ih' ⊢
    rw [e, Frames.decode, step_frame_at r hr0.1 hr0.2]
    simp only
    rw [ih']
    simp

/-- the lossless round trip of C03, from the codec facts at the records' timestamps only -/
theorem decode_encode_at (rs : List Frames.Rec) (hr : ∀ r ∈ rs, Frames.WF fmtTs r ∧ CodecAt fmtTs parseTs r) :
    Frames.decodeAll parseTs (Frames.encodeAll fmtTs rs) = (rs, .clean) := by
  unfold Frames.decodeAll
  have hlen := Frames.encodeAll_length_ge (fmtTs := fmtTs) rs
  have e : (Frames.encodeAll fmtTs rs).length + 1 = rs.length + ((Frames.encodeAll fmtTs rs).length + 1 - rs.length) := by
    omega
  have h := decode_prefix_at (parseTs := parseTs) rs hr [] ((Frames.encodeAll fmtTs rs).length + 1 - rs.length)
  rw [List.append_nil] at h
  rw [e, h]
  have hf : (Frames.encodeAll fmtTs rs).length + 1 - rs.length = ((Frames.encodeAll fmtTs rs).length - rs.length) + 1 := by
    omega
  rw [hf]
  simp [Frames.decode, Frames.step]
end

/-- **C03 with the real timestamp codec**: any sequence of records with timestamps in 1970–9999, framed as
Docker frames them, decodes to exactly those records -/
theorem decode_encode_rfc3339 (rs : List Frames.Rec)
    (hr : ∀ r ∈ rs, Frames.WF (fun t => Render.rfc3339Nano t.toNat) r ∧ 0 ≤ r.ts ∧ r.ts < 253402300800000000000) :
    Frames.decodeAll Rfc3339.parse (Frames.encodeAll (fun t => Render.rfc3339Nano t.toNat) rs) = (rs, .clean) := by
  apply decode_encode_at
  intro r hrm
  obtain ⟨hw, h0, h1⟩ := hr r hrm
  refine ⟨hw, ?_, rfc3339_nospace _⟩
  show Rfc3339.parse (Render.rfc3339Nano r.ts.toNat) = some r.ts
  rw [rfc3339_roundtrip _ (by omega)]
  congr 1
  omega

/-! ## non-vacuity -/

-- day numbers: the epoch, a leap day, the last day of the range; the bound of `civil_of_days` is tight
example : Time.civilFromDays 0 = (1970, 1, 1) := by decide +kernel
example : Time.civilFromDays 19782 = (2024, 2, 29) := by decide +kernel
example : Time.civilFromDays 2932896 = (9999, 12, 31) := by decide +kernel
example : Time.civilFromDays 2932897 = (10000, 1, 1) := by decide +kernel
example : Time.daysFromCivil 2024 2 29 = 19782 := (civil_of_days 19782 (by decide)).2.2.2.2.2.2

-- "2023-11-14T22:13:20.123456Z"
example : Render.rfc3339Nano 1700000000123456000 =
    [50, 48, 50, 51, 45, 49, 49, 45, 49, 52, 84, 50, 50, 58, 49, 51, 58, 50, 48, 46, 49, 50, 51, 52, 53, 54, 90] := by
  decide +kernel
example : Rfc3339.parse (Render.rfc3339Nano 1700000000123456000) = some 1700000000123456000 := by decide +kernel
example : Rfc3339.parse (Render.rfc3339Nano 1700000000123456000) = some 1700000000123456000 :=
  rfc3339_roundtrip 1700000000123456000 (by decide)
-- the last representable instant, 9999-12-31T23:59:59.999999999Z
example : Rfc3339.parse (Render.rfc3339Nano 253402300799999999999) = some 253402300799999999999 :=
  rfc3339_roundtrip _ (by decide)
-- the bound of `rfc3339_roundtrip` is tight: the year 10000 is printed with five digits and rejected
example : Rfc3339.parse (Render.rfc3339Nano 253402300800000000000) = none := by decide +kernel

/-- two records: a message with spaces and a newline at 2023-11-14T22:13:20.123456Z on stdout, and an empty
message at the epoch on stderr -/
example : Frames.decodeAll Rfc3339.parse (Frames.encodeAll (fun t => Render.rfc3339Nano t.toNat)
      [⟨1700000000123456000, 1, [104, 105, 32, 116, 104, 101, 114, 101, 10]⟩, ⟨0, 2, []⟩]) =
    ([⟨1700000000123456000, 1, [104, 105, 32, 116, 104, 101, 114, 101, 10]⟩, ⟨0, 2, []⟩], .clean) :=
  decode_encode_rfc3339 _ (by
    intro r hr
    simp only [List.mem_cons, List.not_mem_nil, or_false] at hr
    rcases hr with rfl | rfl
    · exact ⟨⟨by decide, by decide +kernel⟩, by decide, by decide⟩
    · exact ⟨⟨by decide, by decide +kernel⟩, by decide, by decide⟩)

end Calendar
