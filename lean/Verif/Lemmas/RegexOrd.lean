import Verif.Env.RegexOrd
import Verif.Lemmas.RegexSem
import Verif.Lemmas.RegexLeft
/-! Leftmost-first priority of the executable matcher: `Regex.ends r pos s` enumerates exactly the
matches of the relational semantics (`mem_ends_iff`), and the CPS backtracking matcher `Regex.m` picks
the FIRST element of that list its continuation accepts (`m_picks`, `m_first`, `m_first_gen`); the span of
an unanchored search ends at the head of the list at the leftmost start (`searchFrom_first`). -/
namespace RegexOrd
open Regex RegexSem

/-! ## list helpers -/

theorem flatMap_congr' {α β : Type} (l : List α) (f g : α → List β) (h : ∀ x ∈ l, f x = g x) :
    l.flatMap f = l.flatMap g := by
  induction l with
  | nil => rfl
  | cons a l ih =>
    simp only [List.flatMap_cons]
    rw [h a (List.mem_cons_self), ih (fun x hx => h x (List.mem_cons_of_mem _ hx))]

/-- the split form and the take/drop form of "a prefix of length `n`" -/
theorem split_iff (P : List Nat → List Nat → Prop) (s : List Nat) (n : Nat) :
    (∃ mid rest, s = mid ++ rest ∧ mid.length = n ∧ P mid rest) ↔ n ≤ s.length ∧ P (s.take n) (s.drop n) := by
  constructor
  · rintro ⟨mid, rest, hs, hl, hp⟩
    subst hs
    rw [List.take_left' hl, List.drop_left' hl]
    refine ⟨?_, hp⟩
    simp only [List.length_append]; omega
  · rintro ⟨hn, hp⟩
    refine ⟨s.take n, s.drop n, (List.take_append_drop n s).symm, ?_, hp⟩
    rw [List.length_take]; omega

/-! ## soundness of `ends` (every listed end is a match) -/

/-- split form of the right-hand side of `mem_ends_iff` -/
def Split (r : Re) (pos : Nat) (s : List Nat) (n : Nat) : Prop :=
  ∃ mid rest, s = mid ++ rest ∧ mid.length = n ∧ Matches r pos mid rest

theorem Split.le {r : Re} {pos : Nat} {s : List Nat} {n : Nat} (h : Split r pos s n) : n ≤ s.length := by
  obtain ⟨mid, rest, hs, hl, _⟩ := h
  subst hs; simp only [List.length_append]; omega

theorem starEnds_sound (r : Re) (body : Nat → List Nat → List Nat)
    (hb : ∀ pos s k, k ∈ body pos s → Split r pos s k) :
    ∀ (bound pos : Nat) (s : List Nat) (n : Nat), n ∈ starEnds body bound pos s → Split (.star r) pos s n := by
  intro bound
  induction bound with
  | zero =>
    intro pos s n h
    simp only [starEnds, List.mem_singleton] at h
    subst h
    exact ⟨[], s, rfl, rfl, Matches.starNil _ _ _⟩
  | succ b ih =>
    intro pos s n h
    simp only [starEnds, List.mem_append, List.mem_flatMap, List.mem_filter, List.mem_map,
      List.mem_singleton] at h
    rcases h with ⟨k, ⟨hk, _⟩, j, hj, rfl⟩ | rfl
    · obtain ⟨m1, r1, hs, hl, hm⟩ := hb _ _ _ hk
      subst hs
      rw [List.drop_left' hl] at hj
      obtain ⟨m2, r2, hs2, hl2, hm2⟩ := ih _ _ _ hj
      subst hs2
      subst hl
      refine ⟨m1 ++ m2, r2, by rw [List.append_assoc], by rw [List.length_append, hl2], ?_⟩
      exact Matches.starCons hm hm2
    · exact ⟨[], s, rfl, rfl, Matches.starNil _ _ _⟩

theorem ends_sound (r : Re) : ∀ (pos : Nat) (s : List Nat) (n : Nat), n ∈ ends r pos s → Split r pos s n := by
  induction r with
  | chr c =>
    intro pos s n h
    cases s with
    | nil => simp only [ends] at h; cases h
    | cons x t =>
      simp only [ends] at h
      split at h
      · rename_i hx; subst hx
        simp only [List.mem_singleton] at h; subst h
        exact ⟨[x], t, rfl, rfl, Matches.chr _ _ _⟩
      · cases h
  | cls neg rs =>
    intro pos s n h
    cases s with
    | nil => simp only [ends] at h; cases h
    | cons x t =>
      simp only [ends] at h
      split at h
      · rename_i hx
        simp only [List.mem_singleton] at h; subst h
        exact ⟨[x], t, rfl, rfl, Matches.cls _ _ _ _ _ hx⟩
      · cases h
  | any =>
    intro pos s n h
    cases s with
    | nil => simp only [ends] at h; cases h
    | cons x t =>
      simp only [ends] at h
      split at h
      · rename_i hx
        simp only [List.mem_singleton] at h; subst h
        exact ⟨[x], t, rfl, rfl, Matches.any _ _ _ hx⟩
      · cases h
  | eps =>
    intro pos s n h
    simp only [ends, List.mem_singleton] at h; subst h
    exact ⟨[], s, rfl, rfl, Matches.eps _ _⟩
  | seq a b iha ihb =>
    intro pos s n h
    simp only [ends, List.mem_flatMap, List.mem_map] at h
    obtain ⟨k, hk, j, hj, rfl⟩ := h
    obtain ⟨m1, r1, hs, hl, hm⟩ := iha _ _ _ hk
    subst hs
    rw [List.drop_left' hl] at hj
    obtain ⟨m2, r2, hs2, hl2, hm2⟩ := ihb _ _ _ hj
    subst hs2
    subst hl
    exact ⟨m1 ++ m2, r2, by rw [List.append_assoc], by rw [List.length_append, hl2], Matches.seq hm hm2⟩
  | alt a b iha ihb =>
    intro pos s n h
    simp only [ends, List.mem_append] at h
    rcases h with h | h
    · obtain ⟨mid, rest, hs, hl, hm⟩ := iha _ _ _ h
      exact ⟨mid, rest, hs, hl, Matches.altL hm⟩
    · obtain ⟨mid, rest, hs, hl, hm⟩ := ihb _ _ _ h
      exact ⟨mid, rest, hs, hl, Matches.altR hm⟩
  | star r ih =>
    intro pos s n h
    simp only [ends] at h
    exact starEnds_sound r (ends r) ih _ _ _ _ h
  | plus r ih =>
    intro pos s n h
    simp only [ends, List.mem_flatMap, List.mem_map] at h
    obtain ⟨k, hk, j, hj, rfl⟩ := h
    obtain ⟨m1, r1, hs, hl, hm⟩ := ih _ _ _ hk
    subst hs
    rw [List.drop_left' hl] at hj
    obtain ⟨m2, r2, hs2, hl2, hm2⟩ := starEnds_sound r (ends r) ih _ _ _ _ hj
    subst hs2
    subst hl
    exact ⟨m1 ++ m2, r2, by rw [List.append_assoc], by rw [List.length_append, hl2], Matches.plus hm hm2⟩
  | opt r ih =>
    intro pos s n h
    simp only [ends, List.mem_append, List.mem_singleton] at h
    rcases h with h | rfl
    · obtain ⟨mid, rest, hs, hl, hm⟩ := ih _ _ _ h
      exact ⟨mid, rest, hs, hl, Matches.optSome hm⟩
    · exact ⟨[], s, rfl, rfl, Matches.optNone _ _ _⟩
  | grp i r ih =>
    intro pos s n h
    simp only [ends] at h
    obtain ⟨mid, rest, hs, hl, hm⟩ := ih _ _ _ h
    exact ⟨mid, rest, hs, hl, Matches.grp hm⟩
  | bol =>
    intro pos s n h
    simp only [ends] at h
    split at h
    · rename_i hp; subst hp
      simp only [List.mem_singleton] at h; subst h
      exact ⟨[], s, rfl, rfl, Matches.bol _⟩
    · cases h
  | eol =>
    intro pos s n h
    simp only [ends] at h
    split at h
    · rename_i hp
      have hs : s = [] := List.isEmpty_iff.mp hp
      subst hs
      simp only [List.mem_singleton] at h; subst h
      exact ⟨[], [], rfl, rfl, Matches.eol _⟩
    · cases h

/-- every listed end is within the input -/
theorem ends_le (r : Re) (pos : Nat) (s : List Nat) (n : Nat) (h : n ∈ ends r pos s) : n ≤ s.length :=
  (ends_sound r pos s n h).le

/-! ## the bound of `starEnds` is immaterial once it covers the input -/

theorem starEnds_stable (body : Nat → List Nat → List Nat) (hb : ∀ pos s k, k ∈ body pos s → k ≤ s.length) :
    ∀ (n n' pos : Nat) (s : List Nat), s.length ≤ n → s.length ≤ n' →
      starEnds body n pos s = starEnds body n' pos s := by
  have hnil : ∀ (n pos : Nat) (s : List Nat), s.length = 0 → starEnds body n pos s = [0] := by
    intro n pos s hs
    cases n with
    | zero => rfl
    | succ n =>
      have : (body pos s).filter (· > 0) = [] := by
        rw [List.filter_eq_nil_iff]
        intro a ha
        have := hb _ _ _ ha
        simp only [gt_iff_lt, decide_eq_true_eq]; omega
      simp only [starEnds, this, List.flatMap_nil, List.nil_append]
  intro n
  induction n with
  | zero =>
    intro n' pos s h1 h2
    rw [hnil 0 pos s (by omega), hnil n' pos s (by omega)]
  | succ n ih =>
    intro n' pos s h1 h2
    cases n' with
    | zero => rw [hnil _ pos s (by omega), hnil 0 pos s (by omega)]
    | succ n' =>
      simp only [starEnds]
      congr 1
      apply flatMap_congr'
      intro k hk
      simp only [List.mem_filter, gt_iff_lt, decide_eq_true_eq] at hk
      have := hb _ _ _ hk.1
      rw [ih n' (pos + k) (s.drop k) (by rw [List.length_drop]; omega) (by rw [List.length_drop]; omega)]

/-- unfolding equation of the greedy star -/
theorem ends_star (r : Re) (pos : Nat) (s : List Nat) :
    ends (.star r) pos s =
      ((ends r pos s).filter (· > 0)).flatMap (fun k => (ends (.star r) (pos + k) (s.drop k)).map (k + ·)) ++ [0] := by
  have hb := ends_le r
  show starEnds (ends r) s.length pos s = _
  rw [starEnds_stable (ends r) hb s.length (s.length + 1) pos s (Nat.le_refl _) (by omega)]
  simp only [starEnds]
  congr 1
  apply flatMap_congr'
  intro k hk
  show List.map _ (starEnds (ends r) s.length (pos + k) (s.drop k)) =
    List.map _ (starEnds (ends r) (s.drop k).length (pos + k) (s.drop k))
  rw [starEnds_stable (ends r) hb s.length (s.drop k).length (pos + k) (s.drop k)
    (by rw [List.length_drop]; omega) (Nat.le_refl _)]

/-- `r+` is `r r*` -/
theorem ends_plus (r : Re) (pos : Nat) (s : List Nat) :
    ends (.plus r) pos s =
      (ends r pos s).flatMap (fun k => (ends (.star r) (pos + k) (s.drop k)).map (k + ·)) := by
  have hb := ends_le r
  show (ends r pos s).flatMap (fun k => (starEnds (ends r) s.length (pos + k) (s.drop k)).map (k + ·)) = _
  apply flatMap_congr'
  intro k hk
  show List.map _ (starEnds (ends r) s.length (pos + k) (s.drop k)) =
    List.map _ (starEnds (ends r) (s.drop k).length (pos + k) (s.drop k))
  rw [starEnds_stable (ends r) hb s.length (s.drop k).length (pos + k) (s.drop k)
    (by rw [List.length_drop]; omega) (Nat.le_refl _)]

theorem zero_mem_ends_star (r : Re) (pos : Nat) (s : List Nat) : 0 ∈ ends (.star r) pos s := by
  rw [ends_star]; simp only [List.mem_append, List.mem_singleton, or_true]

/-! ## completeness of `ends` (every match is listed) -/

theorem ends_completeN {r : Re} {pos : Nat} {mid rest : List Nat} (hm : MatchesN r pos mid rest) :
    mid.length ∈ ends r pos (mid ++ rest) := by
  induction hm with
  | chr c pos rest => simp [ends]
  | cls neg rs x pos rest hx => simp [ends, hx]
  | any x pos rest hx => simp [ends, hx]
  | eps pos rest => simp [ends]
  | @seq a b pos s1 s2 rest _ _ iha ihb =>
    simp only [ends, List.mem_flatMap, List.mem_map]
    refine ⟨s1.length, ?_, s2.length, ?_, ?_⟩
    · rw [List.append_assoc]; exact iha
    · rw [List.append_assoc, List.drop_left]; exact ihb
    · rw [List.length_append]
  | altL _ ih => simp only [ends, List.mem_append]; exact Or.inl ih
  | altR _ ih => simp only [ends, List.mem_append]; exact Or.inr ih
  | starNil r pos rest => exact zero_mem_ends_star _ _ _
  | @starCons r pos s1 s2 rest hne _ _ ih1 ih2 =>
    rw [ends_star]
    simp only [List.mem_append, List.mem_flatMap, List.mem_filter, List.mem_map]
    refine Or.inl ⟨s1.length, ⟨?_, ?_⟩, s2.length, ?_, ?_⟩
    · rw [List.append_assoc]; exact ih1
    · have := List.length_pos_iff.mpr hne
      simp only [gt_iff_lt, decide_eq_true_eq]; exact this
    · rw [List.append_assoc, List.drop_left]; exact ih2
    · rw [List.length_append]
  | @plusOne r pos s rest _ ih =>
    rw [ends_plus]
    simp only [List.mem_flatMap, List.mem_map]
    exact ⟨s.length, ih, 0, zero_mem_ends_star _ _ _, rfl⟩
  | @plusCons r pos s1 s2 rest hne _ _ ih1 ih2 =>
    rw [ends_plus]
    simp only [List.mem_flatMap, List.mem_map]
    refine ⟨s1.length, ?_, s2.length, ?_, ?_⟩
    · rw [List.append_assoc]; exact ih1
    · rw [List.append_assoc, List.drop_left]; exact ih2
    · rw [List.length_append]
  | optNone r pos rest => simp [ends]
  | optSome _ ih => simp only [ends, List.mem_append]; exact Or.inl ih
  | grp _ ih => simp only [ends]; exact ih
  | bol rest => simp [ends]
  | eol pos => simp [ends]

theorem mem_ends_split (r : Re) (pos : Nat) (s : List Nat) (n : Nat) : n ∈ ends r pos s ↔ Split r pos s n := by
  constructor
  · exact ends_sound r pos s n
  · rintro ⟨mid, rest, hs, hl, hm⟩
    subst hs; subst hl
    exact ends_completeN (normalize hm)

/-- the ordered list enumerates exactly the matches of the relational semantics -/
theorem mem_ends_iff (r : Re) (pos : Nat) (s : List Nat) (n : Nat) :
    n ∈ ends r pos s ↔ n ≤ s.length ∧ Matches r pos (s.take n) (s.drop n) := by
  rw [mem_ends_split]
  exact split_iff (fun mid rest => Matches r pos mid rest) s n

theorem ends_nil_iff (r : Re) (pos : Nat) (s : List Nat) :
    ends r pos s = [] ↔ ¬ ∃ n, n ≤ s.length ∧ Matches r pos (s.take n) (s.drop n) := by
  constructor
  · rintro h ⟨n, hn⟩
    have := (mem_ends_iff r pos s n).mpr hn
    rw [h] at this; cases this
  · intro h
    cases he : ends r pos s with
    | nil => rfl
    | cons x l =>
      exfalso
      exact h ⟨x, (mem_ends_iff r pos s x).mp (by rw [he]; exact List.mem_cons_self)⟩

/-! ## the matcher picks the first accepted end -/

abbrev Cont := Nat → List Nat → Caps → Option Caps

/-- `Picks k pos s l res`: scanning the candidate ends `l` in order, `res` is what the continuation `k`
returns (for some capture list) at the first candidate it accepts — candidates before it were rejected
(for some capture list) — or `none` if all were rejected.  When acceptance by `k` does not depend on the
captures, this says `res` is `k` at the first accepted candidate (`Picks.find`). -/
inductive Picks (k : Cont) (pos : Nat) (s : List Nat) : List Nat → Option Caps → Prop
  | nil : Picks k pos s [] none
  | hit {n l c out} : k (pos + n) (s.drop n) c = some out → Picks k pos s (n :: l) (some out)
  | skip {n l c res} : k (pos + n) (s.drop n) c = none → Picks k pos s l res → Picks k pos s (n :: l) res

theorem Picks.single (k : Cont) (pos : Nat) (s : List Nat) (n : Nat) (c : Caps) :
    Picks k pos s [n] (k (pos + n) (s.drop n) c) := by
  cases h : k (pos + n) (s.drop n) c with
  | none => exact .skip h .nil
  | some out => exact .hit h

theorem Picks.append_some {k : Cont} {pos : Nat} {s : List Nat} {l1 : List Nat} {res : Option Caps}
    (h : Picks k pos s l1 res) (l2 : List Nat) (out : Caps) (hr : res = some out) :
    Picks k pos s (l1 ++ l2) (some out) := by
  induction h with
  | nil => cases hr
  | hit hk => cases hr; exact .hit hk
  | skip hk _ ih => exact .skip hk (ih hr)

theorem Picks.append_none {k : Cont} {pos : Nat} {s : List Nat} {l1 : List Nat} {res : Option Caps}
    (h : Picks k pos s l1 res) (hr : res = none) {l2 : List Nat} {res2 : Option Caps}
    (h2 : Picks k pos s l2 res2) : Picks k pos s (l1 ++ l2) res2 := by
  induction h with
  | nil => exact h2
  | hit hk => cases hr
  | skip hk _ ih => exact .skip hk (ih hr)

/-- the continuation may rewrite the captures before handing over -/
theorem Picks.mapCaps {k : Cont} {pos : Nat} {s : List Nat} {l : List Nat} {res : Option Caps}
    (φ : Nat → Caps → Caps) (h : Picks (fun p s' c => k p s' (φ p c)) pos s l res) : Picks k pos s l res := by
  induction h with
  | nil => exact .nil
  | hit hk => exact .hit hk
  | skip hk _ ih => exact .skip hk ih

theorem Picks.shift {k : Cont} {pos : Nat} {s : List Nat} {x : Nat} {l : List Nat} {res : Option Caps}
    (h : Picks k (pos + x) (s.drop x) l res) : Picks k pos s (l.map (x + ·)) res := by
  induction h with
  | nil => exact .nil
  | @hit n l c out hk =>
    rw [List.drop_drop, Nat.add_assoc] at hk
    exact .hit hk
  | @skip n l c res hk _ ih =>
    rw [List.drop_drop, Nat.add_assoc] at hk
    exact .skip hk ih

/-- sequencing: if `k'` at each candidate `x` of `la` runs `k` over the candidates `g x` after `x` -/
theorem Picks.bind {k' k : Cont} {pos : Nat} {s : List Nat} {la : List Nat} {res : Option Caps}
    (g : Nat → List Nat)
    (h : Picks k' pos s la res)
    (hg : ∀ x ∈ la, ∀ c, Picks k (pos + x) (s.drop x) (g x) (k' (pos + x) (s.drop x) c)) :
    Picks k pos s (la.flatMap (fun x => (g x).map (x + ·))) res := by
  induction h with
  | nil => exact .nil
  | @hit n l c out hk =>
    rw [List.flatMap_cons]
    have := hg n List.mem_cons_self c
    exact (this.shift).append_some _ out hk
  | @skip n l c res hk _ ih =>
    rw [List.flatMap_cons]
    have := hg n List.mem_cons_self c
    exact (this.shift).append_none hk (ih (fun x hx => hg x (List.mem_cons_of_mem _ hx)))

theorem flatMap_filter' {β : Type} (l : List Nat) (p : Nat → Bool) (f : Nat → List β) :
    (l.filter p).flatMap f = l.flatMap (fun x => if p x then f x else []) := by
  induction l with
  | nil => rfl
  | cons a l ih =>
    rw [List.filter_cons, List.flatMap_cons]
    cases hp : p a with
    | true => simp only [if_true, List.flatMap_cons, ih]
    | false => simp [ih]

/-- the fuel measure under which the matcher explores all candidates (`dep` with one more unit for `+`,
whose star runs on the same input as its first iteration when that was empty) -/
def depP : Re → Nat
  | .seq a b => depP a + depP b + 1
  | .alt a b => depP a + depP b + 1
  | .star r => depP r + 1
  | .plus r => depP r + 3
  | .opt r => depP r + 1
  | .grp _ r => depP r + 1
  | .chr _ => 1
  | .cls _ _ => 1
  | .any => 1
  | .eps => 1
  | .bol => 1
  | .eol => 1

theorem depP_pos (r : Re) : 1 ≤ depP r := by
  cases r <;> simp only [depP] <;> omega

theorem depP_le_size (r : Re) : depP r ≤ 2 * size r := by
  induction r with
  | seq a b iha ihb => simp only [depP, size]; omega
  | alt a b iha ihb => simp only [depP, size]; omega
  | star r ih => simp only [depP, size]; omega
  | plus r ih => simp only [depP, size]; omega
  | opt r ih => simp only [depP, size]; omega
  | grp i r ih => simp only [depP, size]; omega
  | _ => simp only [depP, size]; omega

theorem two_size_add_le_fuelFor (r : Re) (s : List Nat) : 2 * size r + s.length ≤ fuelFor r s := by
  unfold fuelFor
  have h2 : (size r + 4) * (s.length + 2) = size r * s.length + size r * 2 + 4 * s.length + 8 := by
    rw [Nat.add_mul, Nat.mul_add, Nat.mul_add]; omega
  rw [h2]
  generalize size r * s.length = X
  omega

theorem depP_le_fuelFor (r : Re) (s : List Nat) {n : Nat} (h : n ≤ s.length) : depP r + n ≤ fuelFor r s := by
  have := depP_le_size r
  have := two_size_add_le_fuelFor r s
  omega

/-- core: with enough fuel the matcher runs its continuation over `ends r pos s` in order -/
theorem m_picks (fuel : Nat) : ∀ (r : Re) (pos : Nat) (s : List Nat) (caps : Caps) (k : Cont),
    depP r + s.length ≤ fuel → Picks k pos s (ends r pos s) (m fuel r pos s caps k) := by
  induction fuel using Nat.strongRecOn with
  | _ fuel ihs =>
  cases fuel with
  | zero => intro r pos s caps k hf; have := depP_pos r; omega
  | succ f =>
    have ih := ihs f (Nat.lt_succ_self f)
    intro r pos s caps k hf
    cases r with
    | chr c =>
      rw [m_chr]
      cases s with
      | nil => exact .nil
      | cons x t =>
        simp only [ends]
        split
        · exact Picks.single k pos (x :: t) 1 caps
        · exact .nil
    | cls neg rs =>
      rw [m_cls]
      cases s with
      | nil => exact .nil
      | cons x t =>
        simp only [ends]
        split
        · exact Picks.single k pos (x :: t) 1 caps
        · exact .nil
    | any =>
      rw [m_any]
      cases s with
      | nil => exact .nil
      | cons x t =>
        simp only [ends]
        split
        · exact Picks.single k pos (x :: t) 1 caps
        · exact .nil
    | eps =>
      rw [m_eps]
      exact Picks.single k pos s 0 caps
    | seq a b =>
      rw [m_seq]
      simp only [depP] at hf
      simp only [ends]
      apply Picks.bind (fun x => ends b (pos + x) (s.drop x)) (ih a pos s caps _ (by omega))
      intro x _ c
      exact ih b _ _ c k (by rw [List.length_drop]; omega)
    | alt a b =>
      rw [m_alt]
      simp only [depP] at hf
      simp only [ends]
      have h1 := ih a pos s caps k (by omega)
      split
      · rename_i c hx; exact h1.append_some _ c hx
      · rename_i hx; exact h1.append_none hx (ih b pos s caps k (by omega))
    | star r1 =>
      rw [m_star, ends_star]
      simp only [depP] at hf
      rw [flatMap_filter']
      have h1 := ih r1 pos s caps (fun p s' c => if p > pos then m f (.star r1) p s' c k else none) (by omega)
      have := Picks.bind (k := k)
        (fun x => if x > 0 then ends (.star r1) (pos + x) (s.drop x) else []) h1 (by
          intro x hx c
          have hxl := ends_le _ _ _ _ hx
          by_cases hx0 : x > 0
          · have hp : pos + x > pos := by omega
            simp only [hx0, hp, if_true]
            exact ih (.star r1) _ _ c k (by simp only [depP, List.length_drop]; omega)
          · have hp : ¬ pos + x > pos := by omega
            simp only [hx0, hp, if_false]
            exact .nil)
      have e : (ends r1 pos s).flatMap (fun x => (if x > 0 then ends (.star r1) (pos + x) (s.drop x) else []).map (x + ·))
          = (ends r1 pos s).flatMap (fun x => if decide (x > 0) = true then
              (ends (.star r1) (pos + x) (s.drop x)).map (x + ·) else []) := by
        apply flatMap_congr'
        intro x _
        by_cases hx0 : x > 0 <;> simp [hx0]
      rw [e] at this
      split
      · rename_i c hx; exact this.append_some _ c hx
      · rename_i hx; exact this.append_none hx (Picks.single k pos s 0 caps)
    | plus r1 =>
      simp only [depP] at hf
      obtain ⟨f', rfl⟩ : ∃ f', f = f' + 1 := ⟨f - 1, by omega⟩
      rw [m_plus, m_seq, ends_plus]
      have ih' := ihs f' (by omega)
      apply Picks.bind (fun x => ends (.star r1) (pos + x) (s.drop x)) (ih' r1 pos s caps _ (by omega))
      intro x _ c
      exact ih' (.star r1) _ _ c k (by simp only [depP, List.length_drop]; omega)
    | opt r1 =>
      rw [m_opt]
      simp only [depP] at hf
      simp only [ends]
      have h1 := ih r1 pos s caps k (by omega)
      split
      · rename_i c hx; exact h1.append_some _ c hx
      · rename_i hx; exact h1.append_none hx (Picks.single k pos s 0 caps)
    | grp i r1 =>
      rw [m_grp]
      simp only [depP] at hf
      simp only [ends]
      exact Picks.mapCaps (fun p c => (i, pos, p) :: c)
        (ih r1 pos s caps (fun p s' c => k p s' ((i, pos, p) :: c)) (by omega))
    | bol =>
      rw [m_bol]
      simp only [ends]
      split
      · exact Picks.single k pos s 0 caps
      · exact .nil
    | eol =>
      rw [m_eol]
      simp only [ends]
      split
      · exact Picks.single k pos s 0 caps
      · exact .nil

/-! ## reading `Picks` when acceptance does not depend on the captures -/

theorem Picks.find {k : Cont} {pos : Nat} {s : List Nat} {l : List Nat} {res : Option Caps}
    (h : Picks k pos s l res) (hk : ∀ p rest c c', (k p rest c).isSome = (k p rest c').isSome) :
    (∀ n, l.find? (fun n => (k (pos + n) (s.drop n) []).isSome) = some n →
        res.isSome = true ∧ ∃ caps', res = k (pos + n) (s.drop n) caps') ∧
    (l.find? (fun n => (k (pos + n) (s.drop n) []).isSome) = none → res = none) := by
  induction h with
  | nil => exact ⟨fun n h => (by cases h), fun _ => rfl⟩
  | @hit n l c out hc =>
    have e : (k (pos + n) (s.drop n) []).isSome = true := by rw [hk _ _ [] c, hc]; rfl
    rw [List.find?_cons_of_pos (by exact e)]
    refine ⟨fun n' h => ?_, fun h => by cases h⟩
    cases h
    exact ⟨rfl, c, hc.symm⟩
  | @skip n l c res hc _ ih =>
    have e : ¬ (k (pos + n) (s.drop n) []).isSome = true := by rw [hk _ _ [] c, hc]; simp
    rw [List.find?_cons_of_neg (by exact e)]
    exact ih

/-- general form: for a continuation whose success does not depend on the capture list, the matcher
returns what the continuation returns at the FIRST end of `ends r pos s` it accepts, and fails iff it
accepts none -/
theorem m_first_gen (r : Re) (pos : Nat) (s : List Nat) (fuel : Nat) (hf : depP r + s.length ≤ fuel)
    (caps : Caps) (k : Cont) (hk : ∀ p rest c c', (k p rest c).isSome = (k p rest c').isSome) :
    match (ends r pos s).find? (fun n => (k (pos + n) (s.drop n) []).isSome) with
    | some n => (m fuel r pos s caps k).isSome = true ∧ ∃ caps', m fuel r pos s caps k = k (pos + n) (s.drop n) caps'
    | none => m fuel r pos s caps k = none := by
  have h := (m_picks fuel r pos s caps k hf).find hk
  split
  · rename_i n hn; exact h.1 n hn
  · rename_i hn; exact h.2 hn

/-- success of the matcher = some listed end is accepted -/
theorem m_isSome (r : Re) (pos : Nat) (s : List Nat) (fuel : Nat) (hf : depP r + s.length ≤ fuel)
    (caps : Caps) (k : Cont) (hk : ∀ p rest c c', (k p rest c).isSome = (k p rest c').isSome) :
    (m fuel r pos s caps k).isSome = (ends r pos s).any (fun n => (k (pos + n) (s.drop n) []).isSome) := by
  have h := m_first_gen r pos s fuel hf caps k hk
  cases hfd : (ends r pos s).find? (fun n => (k (pos + n) (s.drop n) []).isSome) with
  | some n =>
    rw [hfd] at h
    rw [h.1]
    symm
    rw [List.any_eq_true]
    exact ⟨n, List.mem_of_find?_eq_some hfd,
      @List.find?_some _ (fun n => (k (pos + n) (s.drop n) []).isSome) _ _ hfd⟩
  | none =>
    rw [hfd] at h
    rw [h]
    symm
    rw [List.find?_eq_none] at hfd
    cases ha : (ends r pos s).any (fun n => (k (pos + n) (s.drop n) []).isSome) with
    | false => rfl
    | true =>
      rw [List.any_eq_true] at ha
      obtain ⟨x, hx, hx'⟩ := ha
      exact absurd hx' (hfd x hx)

/-- core: with enough fuel, running the matcher with a continuation that accepts an end position
according to a predicate `ok` (independent of the captures) and records it, succeeds exactly with the
first end of `ends r pos s` that `ok` accepts -/
theorem m_first (r : Re) (pos : Nat) (s : List Nat) (fuel : Nat) (hf : depP r + s.length ≤ fuel)
    (caps : Caps) (ok : Nat → Bool) (tag pos0 : Nat) :
    (m fuel r pos s caps (fun p _ c => if ok p then some ((tag, pos0, p) :: c) else none)).map
        (fun out => out.head?.map (·.2.2))
      = ((ends r pos s).find? (fun n => ok (pos + n))).map (fun n => some (pos + n)) := by
  have h := m_picks fuel r pos s caps (fun p _ c => if ok p then some ((tag, pos0, p) :: c) else none) hf
  generalize m fuel r pos s caps _ = res at h
  generalize ends r pos s = l at h
  induction h with
  | nil => rfl
  | @hit n l c out hc =>
    split at hc
    · rename_i hok
      cases hc
      rw [List.find?_cons_of_pos (by exact hok)]
      rfl
    · cases hc
  | @skip n l c res hc _ ih =>
    split at hc
    · cases hc
    · rename_i hok
      rw [List.find?_cons_of_neg (by exact hok)]
      exact ih

/-- `m_first` at the fuel the drivers use -/
theorem m_first_fuelFor (r : Re) (pos : Nat) (s t : List Nat) (ht : t.length ≤ s.length)
    (caps : Caps) (ok : Nat → Bool) (tag pos0 : Nat) :
    (m (fuelFor r s) r pos t caps (fun p _ c => if ok p then some ((tag, pos0, p) :: c) else none)).map
        (fun out => out.head?.map (·.2.2))
      = ((ends r pos t).find? (fun n => ok (pos + n))).map (fun n => some (pos + n)) :=
  m_first r pos t _ (depP_le_fuelFor r s ht) caps ok tag pos0

/-! ## the span of an unanchored search -/

theorem searchFrom_first_gen (r : Re) (fuel : Nat) : ∀ (n : Nat) (t : List Nat) (pos a b : Nat) (caps : Caps),
    searchFrom r fuel n t pos = some (a, b, caps) → depP r + t.length ≤ fuel →
    ∃ i, i ≤ t.length ∧ a = pos + i ∧ a ≤ b ∧ (ends r a (t.drop i)).head? = some (b - a) := by
  intro n
  induction n with
  | zero => intro t pos a b caps h; simp only [searchFrom] at h; cases h
  | succ n ih =>
    intro t pos a b caps h hf
    simp only [searchFrom] at h
    have hp := m_picks fuel r pos t [] (fun p _ c => some ((0, pos, p) :: c)) hf
    cases h1 : m fuel r pos t [] (fun p _ c => some ((0, pos, p) :: c)) with
    | some out =>
      rw [h1] at h hp
      generalize hl : ends r pos t = l0 at hp
      cases hp with
      | @hit n0 l c _ hc =>
        simp only [Option.some.injEq] at hc
        subst hc
        simp only [List.find?_cons_of_pos, BEq.rfl, Option.some.injEq, Prod.mk.injEq] at h
        obtain ⟨rfl, rfl, _⟩ := h
        refine ⟨0, Nat.zero_le _, rfl, Nat.le_add_right _ _, ?_⟩
        rw [List.drop_zero, hl, List.head?_cons, Nat.add_sub_cancel_left]
      | skip hc _ => cases hc
    | none =>
      rw [h1] at h
      cases t with
      | nil => cases h
      | cons x t' =>
        simp only at h
        obtain ⟨i, hi, ha, hab, hh⟩ := ih _ _ _ _ _ h (by simp only [List.length_cons] at hf; omega)
        refine ⟨i + 1, by simp only [List.length_cons]; omega, by omega, hab, ?_⟩
        rw [List.drop_succ_cons]; exact hh

/-- the span of an unanchored search: at the reported start `a` (the leftmost start, `search_leftmost`)
the reported end is the FIRST end in priority order -/
theorem searchFrom_first (r : Re) (s : List Nat) (a b : Nat) (caps : Caps)
    (h : searchFrom r (fuelFor r s) (s.length + 1) s 0 = some (a, b, caps)) :
    a ≤ b ∧ (ends r a (s.drop a)).head? = some (b - a) := by
  obtain ⟨i, _, ha, hab, hh⟩ := searchFrom_first_gen r _ _ _ _ _ _ _ h (depP_le_fuelFor r s (Nat.le_refl _))
  rw [Nat.zero_add] at ha
  subst ha
  exact ⟨hab, hh⟩

/-- leftmost start and first end together, against the relational semantics: no match starts before
`a`, the reported span is a match, and every match starting at `a` is listed in `ends` at or after it -/
theorem searchFrom_leftmost_first (r : Re) (s : List Nat) (a b : Nat) (caps : Caps)
    (h : searchFrom r (fuelFor r s) (s.length + 1) s 0 = some (a, b, caps)) :
    (∀ pre mid post, s = pre ++ mid ++ post → Matches r pre.length mid post → a ≤ pre.length) ∧
    a ≤ b ∧ (ends r a (s.drop a)).head? = some (b - a) ∧
    (b - a ≤ (s.drop a).length ∧ Matches r a ((s.drop a).take (b - a)) ((s.drop a).drop (b - a))) := by
  obtain ⟨hab, hh⟩ := searchFrom_first r s a b caps h
  refine ⟨fun pre mid post hs hm => RegexLeft.search_leftmost r s a b caps h pre mid post hs hm, hab, hh, ?_⟩
  apply (mem_ends_iff r a (s.drop a) (b - a)).mp
  cases he : ends r a (s.drop a) with
  | nil => rw [he] at hh; cases hh
  | cons x l =>
    rw [he, List.head?_cons, Option.some.injEq] at hh
    rw [hh]; exact List.mem_cons_self

/-! ## non-vacuity -/

/-- `(a|ab)(c|bcd)?` -/
def ex1 : Re := .seq (.alt (.chr 97) (.seq (.chr 97) (.chr 98))) (.opt (.alt (.chr 99) (.seq (.chr 98) (.seq (.chr 99) (.chr 100)))))
/-- `(a|ab)*b?` -/
def ex2 : Re := .seq (.star (.alt (.chr 97) (.seq (.chr 97) (.chr 98)))) (.opt (.chr 98))

example : ends ex1 0 [97, 98, 99, 100] = [4, 1, 3, 2] := by decide
/-- Go: `regexp.MustCompile("(a|ab)(c|bcd)?").FindStringIndex("abcd")` is `[0 4]` -/
example : (searchFrom ex1 (fuelFor ex1 [97, 98, 99, 100]) 5 [97, 98, 99, 100] 0).map (fun x => (x.1, x.2.1)) = some (0, 4) := by
  decide
/-- duplicates are possible (different iteration splits reaching the same end) and harmless -/
example : ends ex2 0 [97, 98, 97, 98, 98] = [2, 1, 4, 3, 5, 4, 2, 0] := by decide
/-- `(a|ab)*b?` on `ababb`: `a`, no further iteration at `babb`, then `b` — Go reports `[0 2]`, not the
longest match `[0 5]` -/
example : (searchFrom ex2 (fuelFor ex2 [97, 98, 97, 98, 98]) 6 [97, 98, 97, 98, 98] 0).map (fun x => (x.1, x.2.1)) = some (0, 2) := by
  decide

/-- instance of `m_first`: the continuation refuses ends ≥ 4, so the matcher backtracks from the
preferred end 4 to the next candidate, 1 -/
example : (m 20 ex1 0 [97, 98, 99, 100] [] (fun p _ c => if decide (p < 4) = true then some ((7, 0, p) :: c) else none)).map
    (fun out => out.head?.map (·.2.2)) = some (some 1) := by
  rw [m_first ex1 0 [97, 98, 99, 100] 20 (by decide) [] (fun p => decide (p < 4)) 7 0]
  decide

/-- instance of `m_first_gen` / `m_isSome`: anchored full match as a continuation -/
example : (m 20 ex1 0 [97, 98, 99] [] (fun _ s' c => if s'.isEmpty then some c else none)).isSome
    = (ends ex1 0 [97, 98, 99]).any (fun n => ([97, 98, 99].drop n).isEmpty) := by
  rw [m_isSome ex1 0 [97, 98, 99] 20 (by decide) [] _ (fun p rest c c' => by split <;> rfl)]
  decide

/-- instance of the hypothesis of `searchFrom_first` (with a non-zero start) -/
example : (ends ex1 1 [97, 98, 99, 100]).head? = some 4 :=
  (searchFrom_first ex1 [120, 97, 98, 99, 100] 1 5 [(0, 1, 5)] (by decide)).2

example : 0 ≤ 2 ∧ (ends ex2 0 [97, 98, 97, 98, 98]).head? = some 2 :=
  searchFrom_first ex2 [97, 98, 97, 98, 98] 0 2 [(0, 0, 2)] (by decide)

/-- instance of `mem_ends_iff`: `ab` then nothing is a match of `(a|ab)(c|bcd)?` on `abcd`, so 2 is listed -/
example : 2 ∈ ends ex1 0 [97, 98, 99, 100] :=
  (mem_ends_iff ex1 0 [97, 98, 99, 100] 2).mpr ⟨by decide,
    Matches.seq (s1 := [97, 98]) (s2 := [])
      (Matches.altR (Matches.seq (s1 := [97]) (s2 := [98]) (Matches.chr 97 _ _) (Matches.chr 98 _ _)))
      (Matches.optNone _ _ _)⟩

/-- instance of `ends_nil_iff` -/
example : ¬ ∃ n, n ≤ [98].length ∧ Matches ex1 0 ([98].take n) ([98].drop n) :=
  (ends_nil_iff ex1 0 [98]).mp (by decide)

end RegexOrd
