import Verif.Lemmas.RegexCaps
import Verif.Driver.ExecEnv
/-! The `regexp` stage against the language of its expression: a line containing no word of the
language is kept untouched; otherwise every label the stage sets carries either the empty text (its
group did not take part in the match) or exactly the bytes of the line that the body of its group
matched. -/
namespace C06Regexp
open LogQL Regex

/-- what a label value set by the stage can be, for the group number `i` it is mapped from -/
def Exposed (re : Re) (line : List Nat) (i : Nat) (v : List Nat) : Prop :=
  v = [] ∨ ∃ x y, v = slice line x y ∧
    ((i = 0 ∧ x ≤ y ∧ y ≤ line.length ∧ Matches re x (slice line x y) (line.drop y)) ∨ (0 < i ∧ GoodCap re line (i, x, y)))

theorem regexp_no_match (ts : Int) (seen : Seen) (a : Acc) (re : Re) (n : Nat) (mapping : List (Nat × Bytes))
    (h : ¬ Contains re a.line) :
    (Stage.apply ExecEnv.env ts (.regexp re n mapping) seen a).1 = some a := by
  have : submatch re n a.line = none := (RegexCaps.submatch_none_iff re n a.line).mpr h
  simp [Stage.apply, ExecEnv.env, this]

theorem regexp_exposes_captures (ts : Int) (seen : Seen) (a : Acc) (re : Re) (n : Nat) (mapping : List (Nat × Bytes))
    (h : Contains re a.line) :
    ∃ kvs, (Stage.apply ExecEnv.env ts (.regexp re n mapping) seen a).1 = some { a with labels := setAll a.labels kvs } ∧
      ∀ kv ∈ kvs, ∃ i, (i, kv.1) ∈ mapping ∧ Exposed re a.line i kv.2 := by
  cases hs : submatch re n a.line with
  | none => exact absurd h ((RegexCaps.submatch_none_iff re n a.line).mp hs)
  | some spans =>
    obtain ⟨_, ⟨a0, b0, h0, hab, hbl, hm0⟩, hcaps⟩ := RegexCaps.submatch_sound re n a.line spans hs
    refine ⟨_, by simp only [Stage.apply, ExecEnv.env, hs]; rfl, ?_⟩
    intro kv hkv
    simp only [List.mem_filterMap] at hkv
    obtain ⟨⟨i, l⟩, hmem, hf⟩ := hkv
    refine ⟨i, ?_, ?_⟩
    · -- the label is the one of the mapping entry
      revert hf
      cases hsp : spans[i]? with
      | none => simp
      | some o =>
        cases o with
        | none => simp only [Option.some.injEq]; rintro rfl; exact hmem
        | some xy => obtain ⟨x, y⟩ := xy; simp only [Option.some.injEq]; rintro rfl; exact hmem
    · revert hf
      cases hsp : spans[i]? with
      | none => simp
      | some o =>
        cases o with
        | none => simp only [Option.some.injEq]; rintro rfl; exact Or.inl rfl
        | some xy =>
          obtain ⟨x, y⟩ := xy
          simp only [Option.some.injEq]
          rintro rfl
          refine Or.inr ⟨x, y, rfl, ?_⟩
          cases i with
          | zero =>
            rw [h0] at hsp
            simp only [Option.some.injEq, Prod.mk.injEq] at hsp
            obtain ⟨rfl, rfl⟩ := hsp
            exact Or.inl ⟨rfl, hab, hbl, hm0⟩
          | succ j => exact Or.inr ⟨Nat.succ_pos _, hcaps j x y hsp⟩

end C06Regexp
