import Verif.Lemmas.RegexSem
import Verif.Lemmas.RegexLeft
import Verif.Driver.ExecEnv
/-! `decolorize` against the language of the ANSI expression: the result is the line with words of that
language cut out — and nothing else — and a line containing no such word is unchanged. -/
namespace C07Sem
open LogQL Regex

/-- no word of the language of `r` starts inside the first `n` bytes of `s` -/
def NoneBefore (r : Re) (s : List Nat) (n : Nat) : Prop :=
  ∀ pre mid post, s = pre ++ mid ++ post → Matches r pre.length mid post → n ≤ pre.length

/-- `out` is `s` with non-empty words of the language of `r` removed, each the leftmost one of what is
left, until none is left -/
inductive Stripped (r : Re) : List Nat → List Nat → Prop
  | done {s} : ¬ Contains r s → Stripped r s s
  | cut {pre mid post out} : Matches r pre.length mid post → mid ≠ [] →
      NoneBefore r (pre ++ mid ++ post) pre.length → Stripped r post out →
      Stripped r (pre ++ mid ++ post) (pre ++ out)

theorem reFind_none (r : Re) (s : List Nat) (h : ExecEnv.env.reFind r s = none) : ¬ Contains r s := by
  rw [← RegexSem.search_iff]
  simp only [ExecEnv.env, Option.map_eq_none_iff] at h
  simp [search, h]

theorem reFind_some (r : Re) (s : List Nat) (a b : Nat) (h : ExecEnv.env.reFind r s = some (a, b)) :
    ∃ pre mid post, s = pre ++ mid ++ post ∧ Matches r a mid post ∧ a = pre.length ∧ b = a + mid.length ∧
      NoneBefore r s a := by
  simp only [ExecEnv.env, Option.map_eq_some_iff] at h
  obtain ⟨⟨a', b', caps⟩, h1, h2⟩ := h
  simp only [Prod.mk.injEq] at h2
  obtain ⟨rfl, rfl⟩ := h2
  obtain ⟨pre, mid, post, hs, hm, ha, hb⟩ := RegexSem.searchFrom_span r s _ _ caps h1
  exact ⟨pre, mid, post, hs, hm, ha, hb, fun p1 m1 q1 e hm1 => RegexLeft.search_leftmost r s _ _ caps h1 p1 m1 q1 e hm1⟩

/-- an expression that can match the empty word somewhere stops the loop: this is the code's
`if b ≤ a` exit and never happens for the ANSI expression (every word starts with ESC or CSI) -/
def NoEmptyWord (r : Re) : Prop := ∀ pos rest, ¬ Matches r pos [] rest

theorem stripAll_spec (r : Re) (hne : NoEmptyWord r) (fuel : Nat) (s : List Nat) (hf : s.length < fuel) :
    Stripped r s (stripAll { ExecEnv.env with ansi := r } fuel s) := by
  induction fuel generalizing s with
  | zero => omega
  | succ fuel ih =>
    simp only [stripAll]
    cases h : ExecEnv.env.reFind r s with
    | none =>
      exact .done (reFind_none r s h)
    | some ab =>
      obtain ⟨a, b⟩ := ab
      obtain ⟨pre, mid, post, hs, hm, ha, hb, hleft⟩ := reFind_some r s a b h
      have hmid : mid ≠ [] := by
        intro e; subst e; exact hne _ _ hm
      have hlen : 0 < mid.length := List.length_pos_iff.mpr hmid
      have hba : ¬ b ≤ a := by omega
      simp only [hba, if_false]
      subst hs ha hb
      have e1 : (pre ++ mid ++ post).take pre.length = pre := by
        simp [List.append_assoc]
      have e2 : (pre ++ mid ++ post).drop (pre.length + mid.length) = post := by
        rw [← List.length_append]; simp
      rw [e1, e2]
      refine .cut hm hmid hleft (ih post ?_)
      simp only [List.length_append] at hf
      omega

/-- every ANSI sequence starts with ESC or CSI: the expression has no empty word -/
theorem ansi_noEmptyWord : NoEmptyWord ExecEnv.ansi := by
  intro pos rest h
  unfold ExecEnv.ansi at h
  generalize hnil : ([] : List Nat) = e at h
  cases h with
  | seq h1 h2 =>
    rename_i s1 s2
    have hs1 : s1 = [] := by
      cases s1 with
      | nil => rfl
      | cons x t => simp at hnil
    subst hs1
    generalize hnil' : ([] : List Nat) = e' at h1
    cases h1 with
    | altL h => cases h; simp at hnil'
    | altR h =>
      cases h with
      | seq ha hb => cases ha; simp at hnil'

/-- **decolorize**: the new line is the old one with ANSI sequences — words of the language of the
ANSI expression — removed until none is left -/
theorem decolorize_strips_ansi (ts : Int) (seen : Seen) (a : Acc) :
    ∃ line', (Stage.apply ExecEnv.env ts .decolorize seen a).1 = some { a with line := line' } ∧
      Stripped ExecEnv.ansi a.line line' := by
  refine ⟨_, rfl, ?_⟩
  exact stripAll_spec ExecEnv.ansi ansi_noEmptyWord (a.line.length + 1) a.line (Nat.lt_succ_self _)

/-- nothing is added or reordered: the result is a sub-list of the line -/
theorem Stripped.sublist {r : Re} {s out : List Nat} (h : Stripped r s out) : out.Sublist s := by
  induction h with
  | done _ => exact List.Sublist.refl _
  | cut _ _ _ _ ih =>
    rw [List.append_assoc]
    exact (List.Sublist.refl _).append (ih.trans (List.sublist_append_right _ _))

end C07Sem
