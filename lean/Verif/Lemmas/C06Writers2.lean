import Verif.Env.Writers2
import Verif.Lemmas.C06Writers
/-! C06: the logfmt reader model reads back every line written by the freer writer `Logfmt.write2`
(quoted / bare / key only / `k=`, separated by n ≥ 1 blanks or tabs). -/
namespace C06Writers2
open Logfmt C06Writers

/-- the byte class the decoder takes as part of a key or of a bare value -/
abbrev P : Nat → Bool := fun c => c != 61 && c != 34 && decide (c > 32)

/-- `tl` is empty or starts with white space (a byte ≤ 32) -/
def wsHead (tl : List Nat) : Prop := ∀ c ∈ tl.head?, c ≤ 32

theorem wsHead_nil : wsHead [] := by simp [wsHead]

theorem scanKeyval_ws (c : Nat) (l : List Nat) (h : c ≤ 32) : scanKeyval (c :: l) = scanKeyval l := by
  unfold scanKeyval
  simp [List.dropWhile_cons, h]

theorem scanKeyval_replicate (n c : Nat) (l : List Nat) (h : c ≤ 32) :
    scanKeyval (List.replicate n c ++ l) = scanKeyval l := by
  induction n with
  | zero => simp
  | succ n ih => rw [List.replicate_succ, List.cons_append, scanKeyval_ws _ _ h, ih]

theorem scanKeyval_sep (q : Pair) (l : List Nat) : scanKeyval (sep q ++ l) = scanKeyval l := by
  unfold sep
  apply scanKeyval_replicate
  split <;> omega

theorem keyOK_P (k : List Nat) (hk : keyOK k = true) : ∀ a ∈ k, P a = true := by
  simp only [keyOK, Bool.and_eq_true, List.all_eq_true] at hk
  intro a ha
  have := hk.2 a ha
  simp at this ⊢
  omega

theorem bareOK_P (v : List Nat) (hv : bareOK v = true) : ∀ a ∈ v, P a = true := by
  simp only [bareOK, Bool.and_eq_true, List.all_eq_true] at hv
  intro a ha
  have := hv.2 a ha
  simp at this ⊢
  omega

theorem drop32 (k r : List Nat) (hk : keyOK k = true) : (k ++ r).dropWhile (· ≤ 32) = k ++ r := by
  have hp := keyOK_P k hk
  simp only [keyOK, Bool.and_eq_true] at hk
  cases k with
  | nil => simp at hk
  | cons c k' =>
    have := hp c (by simp)
    simp at this
    rw [List.cons_append, List.dropWhile_cons]
    simp; omega

theorem takeP_ws (tl : List Nat) (h : wsHead tl) : tl.takeWhile P = [] ∧ tl.dropWhile P = tl := by
  cases tl with
  | nil => simp
  | cons c r =>
    have : c ≤ 32 := h c (by simp)
    have hc : P c = false := by simp; omega
    simp [hc]

theorem takeP_eq (x : List Nat) : (61 :: x).takeWhile P = [] ∧ (61 :: x).dropWhile P = 61 :: x := by
  simp

/-- key only: `k` followed by nothing or white space -/
theorem scanKeyval_keyOnly (k tl : List Nat) (hk : keyOK k = true) (ht : wsHead tl) :
    scanKeyval (k ++ tl) = .pair k [] tl := by
  have hbad := badKey_false k hk
  have hp := keyOK_P k hk
  obtain ⟨t1, t2⟩ := takeP_ws tl ht
  unfold scanKeyval
  simp only [drop32 k tl hk]
  rw [List.takeWhile_append_of_pos hp, List.dropWhile_append_of_pos hp, t1, t2]
  have hne : (k ++ tl).isEmpty = false := by
    simp only [keyOK, Bool.and_eq_true] at hk
    cases k <;> simp_all
  simp only [hne, List.append_nil, hbad]
  cases tl with
  | nil => simp
  | cons c r =>
    have : c ≤ 32 := ht c (by simp)
    have h34 : (c == 34) = false := by simp; omega
    simp [h34, this]

/-- `k=` followed by nothing or white space -/
theorem scanKeyval_emptyEq (k tl : List Nat) (hk : keyOK k = true) (ht : wsHead tl) :
    scanKeyval (k ++ 61 :: tl) = .pair k [] tl := by
  have hbad := badKey_false k hk
  have hp := keyOK_P k hk
  have hne : (k ++ 61 :: tl).isEmpty = false := by simp
  have hke : k.isEmpty = false := by
    simp only [keyOK, Bool.and_eq_true] at hk
    cases k <;> simp_all
  unfold scanKeyval
  simp only [drop32 k _ hk]
  rw [List.takeWhile_append_of_pos hp, List.dropWhile_append_of_pos hp, (takeP_eq tl).1, (takeP_eq tl).2]
  simp only [hne, List.append_nil, hbad, hke]
  cases tl with
  | nil => simp
  | cons c r =>
    have : c ≤ 32 := ht c (by simp)
    simp [this]

/-- bare: `k=v` followed by nothing or white space -/
theorem scanKeyval_bare (k v tl : List Nat) (hk : keyOK k = true) (hv : bareOK v = true) (ht : wsHead tl) :
    scanKeyval (k ++ 61 :: (v ++ tl)) = .pair k v tl := by
  have hbad := badKey_false k hk
  have hp := keyOK_P k hk
  have hpv := bareOK_P v hv
  obtain ⟨t1, t2⟩ := takeP_ws tl ht
  have hne : (k ++ 61 :: (v ++ tl)).isEmpty = false := by simp
  have hke : k.isEmpty = false := by
    simp only [keyOK, Bool.and_eq_true] at hk
    cases k <;> simp_all
  unfold scanKeyval
  simp only [drop32 k _ hk]
  rw [List.takeWhile_append_of_pos hp, List.dropWhile_append_of_pos hp,
    (takeP_eq (v ++ tl)).1, (takeP_eq (v ++ tl)).2]
  simp only [hne, List.append_nil, hbad, hke]
  cases v with
  | nil => simp [bareOK] at hv
  | cons d v' =>
    have hd := hpv d (by simp)
    have hd' : ¬ d ≤ 32 ∧ (d == 34) = false := by
      simp at hd ⊢; omega
    have e1 : (d :: (v' ++ tl)).takeWhile P = d :: v' := by
      rw [← List.cons_append, List.takeWhile_append_of_pos hpv, t1, List.append_nil]
    have e2 : (d :: (v' ++ tl)).dropWhile P = tl := by
      rw [← List.cons_append, List.dropWhile_append_of_pos hpv, t2]
    simp only [List.cons_append]
    simp only [e1, e2, hd'.1, hd'.2]
    cases tl with
    | nil => simp
    | cons c r =>
      have : c ≤ 32 := ht c (by simp)
      have h1 : (c == 61) = false := by simp; omega
      have h2 : (c == 34) = false := by simp; omega
      simp [h1, h2]

theorem ok_key (p : Pair) (h : p.ok = true) : keyOK p.key = true := by
  simp only [Pair.ok, Bool.and_eq_true] at h
  exact h.1.1

theorem ok_gap (p : Pair) (h : p.ok = true) : 1 ≤ p.gap := by
  simp only [Pair.ok, Bool.and_eq_true, decide_eq_true_eq] at h
  exact h.1.2

/-- one `ScanKeyval` reads one written pair, whatever its spelling -/
theorem scanKeyval_writePair2 (p : Pair) (tl : List Nat) (hp : p.ok = true) (ht : wsHead tl) :
    scanKeyval (writePair2 p ++ tl) = .pair p.key p.val tl := by
  have hk := ok_key p hp
  obtain ⟨k, v, s, g, t⟩ := p
  simp only [Pair.ok, Bool.and_eq_true] at hp
  have hs := hp.2
  simp only at hk hs ⊢
  cases s with
  | quoted =>
    simp only at hs
    simpa [writePair2] using scanKeyval_writePair (k, v) tl hk hs
  | bare =>
    simp only at hs
    simpa [writePair2] using scanKeyval_bare k v tl hk hs ht
  | keyOnly =>
    simp only [List.isEmpty_iff] at hs
    subst hs
    simpa [writePair2] using scanKeyval_keyOnly k tl hk ht
  | emptyEq =>
    simp only [List.isEmpty_iff] at hs
    subst hs
    simpa [writePair2] using scanKeyval_emptyEq k tl hk ht

/-- what follows a written pair: the remaining pairs, each after its separator -/
def tail2 (ps : List Pair) : List Nat := (ps.map fun q => sep q ++ writePair2 q).flatten

theorem write2_cons (p : Pair) (rest : List Pair) : write2 (p :: rest) = writePair2 p ++ tail2 rest := rfl

theorem tail2_cons (q : Pair) (rest : List Pair) :
    tail2 (q :: rest) = sep q ++ (writePair2 q ++ tail2 rest) := by
  simp [tail2]

theorem wsHead_tail2 (ps : List Pair) (h : ∀ p ∈ ps, p.ok = true) : wsHead (tail2 ps) := by
  cases ps with
  | nil => exact wsHead_nil
  | cons q rest =>
    have hg := ok_gap q (h q (by simp))
    rw [tail2_cons]
    unfold sep
    obtain ⟨n, hn⟩ : ∃ n, q.gap = n + 1 := ⟨q.gap - 1, by omega⟩
    rw [hn, List.replicate_succ]
    intro c hc
    simp at hc
    subst hc
    split <;> omega

theorem scanLine_tail2 (ps : List Pair) (fuel : Nat) (acc : List (List Nat × List Nat))
    (h : ∀ p ∈ ps, p.ok = true) (hf : ps.length < fuel) :
    scanLine fuel (tail2 ps) acc = (acc ++ ps.map (fun p => (p.key, p.val)), false) := by
  induction ps generalizing fuel acc with
  | nil =>
    cases fuel with
    | zero => simp at hf
    | succ f => simp [tail2, scanLine, scanKeyval]
  | cons q rest ih =>
    cases fuel with
    | zero => simp at hf
    | succ f =>
      have hrest : ∀ p ∈ rest, p.ok = true := fun x hx => h x (by simp [hx])
      rw [tail2_cons]
      simp only [scanLine, scanKeyval_sep,
        scanKeyval_writePair2 q _ (h q (by simp)) (wsHead_tail2 rest hrest)]
      rw [ih f _ hrest (by simp at hf; omega)]
      simp

theorem scanLine_write2 (ps : List Pair) (fuel : Nat) (acc : List (List Nat × List Nat))
    (h : ∀ p ∈ ps, p.ok = true) (hf : ps.length < fuel) :
    scanLine fuel (write2 ps) acc = (acc ++ ps.map (fun p => (p.key, p.val)), false) := by
  cases ps with
  | nil => exact scanLine_tail2 [] fuel acc h hf
  | cons p rest =>
    cases fuel with
    | zero => simp at hf
    | succ f =>
      have hrest : ∀ p ∈ rest, p.ok = true := fun x hx => h x (by simp [hx])
      rw [write2_cons]
      simp only [scanLine, scanKeyval_writePair2 p _ (h p (by simp)) (wsHead_tail2 rest hrest)]
      rw [scanLine_tail2 rest f _ hrest (by simp at hf; omega)]
      simp

theorem length_writePair2 (p : Pair) (h : p.ok = true) : 1 ≤ (writePair2 p).length := by
  have hk := ok_key p h
  simp only [keyOK, Bool.and_eq_true] at hk
  have : 1 ≤ p.key.length := by
    cases hkk : p.key with
    | nil => rw [hkk] at hk; simp at hk
    | cons a l => simp
  unfold writePair2
  split <;> simp [writePair] <;> omega

theorem length_le_tail2 (ps : List Pair) (h : ∀ p ∈ ps, p.ok = true) : ps.length ≤ (tail2 ps).length := by
  induction ps with
  | nil => simp
  | cons q rest ih =>
    have := ih (fun x hx => h x (by simp [hx]))
    have := length_writePair2 q (h q (by simp))
    rw [tail2_cons]
    simp only [List.length_append, List.length_cons]
    omega

theorem length_le_write2 (ps : List Pair) (h : ∀ p ∈ ps, p.ok = true) : ps.length ≤ (write2 ps).length := by
  cases ps with
  | nil => simp
  | cons p rest =>
    have := length_le_tail2 rest (fun x hx => h x (by simp [hx]))
    have := length_writePair2 p (h p (by simp))
    rw [write2_cons]
    simp only [List.length_append, List.length_cons]
    omega

theorem writePair2_ne (p : Pair) (h : p.ok = true) (x : Nat) (hx : x ∈ writePair2 p) : x ≠ 10 ∧ x ≠ 13 := by
  have hk := ok_key p h
  have hkP := keyOK_P p.key hk
  have hkey : ∀ y ∈ p.key, y ≠ 10 ∧ y ≠ 13 := by
    intro y hy
    have := hkP y hy
    simp at this; omega
  obtain ⟨k, v, s, g, t⟩ := p
  simp only [Pair.ok, Bool.and_eq_true] at h
  have hs := h.2
  simp only at hk hs hkey
  cases s with
  | quoted => exact writePair_ne (k, v) hk x (by simpa [writePair2] using hx)
  | bare =>
    simp only at hs
    have hv := bareOK_P v hs
    simp only [writePair2, List.mem_append, List.mem_cons] at hx
    rcases hx with hx | hx | hx
    · exact hkey x hx
    · omega
    · have := hv x hx
      simp at this; omega
  | keyOnly => exact hkey x (by simpa [writePair2] using hx)
  | emptyEq =>
    simp only [writePair2, List.mem_append, List.mem_cons, List.not_mem_nil, or_false] at hx
    rcases hx with hx | hx
    · exact hkey x hx
    · omega

theorem sep_ne (q : Pair) (x : Nat) (hx : x ∈ sep q) : x ≠ 10 ∧ x ≠ 13 := by
  unfold sep at hx
  have := List.eq_of_mem_replicate hx
  subst this
  split <;> omega

theorem tail2_ne (ps : List Pair) (h : ∀ p ∈ ps, p.ok = true) (x : Nat) (hx : x ∈ tail2 ps) :
    x ≠ 10 ∧ x ≠ 13 := by
  induction ps with
  | nil => simp [tail2] at hx
  | cons q rest ih =>
    rw [tail2_cons, List.mem_append, List.mem_append] at hx
    rcases hx with hx | hx | hx
    · exact sep_ne q x hx
    · exact writePair2_ne q (h q (by simp)) x hx
    · exact ih (fun y hy => h y (by simp [hy])) hx

/-- the written text has no line break -/
theorem write2_ne (ps : List Pair) (h : ∀ p ∈ ps, p.ok = true) (x : Nat) (hx : x ∈ write2 ps) :
    x ≠ 10 ∧ x ≠ 13 := by
  cases ps with
  | nil => simp [write2] at hx
  | cons p rest =>
    rw [write2_cons, List.mem_append] at hx
    rcases hx with hx | hx
    · exact writePair2_ne p (h p (by simp)) x hx
    · exact tail2_ne rest (fun y hy => h y (by simp [hy])) x hx

/-- the logfmt reader exposes exactly the pairs written by `write2`, in order, without error -/
theorem logfmt_read_write2 (ps : List Pair) (h : ∀ p ∈ ps, p.ok = true) :
    Logfmt.read (write2 ps) = (ps.map (fun p => (p.key, p.val)), false) := by
  cases ps with
  | nil => simp [Logfmt.read, write2, splitLines, splitLines.go, readLines]
  | cons p rest =>
    have hlen := length_le_write2 (p :: rest) h
    have hne : write2 (p :: rest) ≠ [] := by
      intro h0
      rw [h0] at hlen
      simp at hlen
    unfold Logfmt.read
    rw [splitLines_single _ hne (write2_ne _ h)]
    simp only [readLines]
    rw [scanLine_write2 _ _ [] h (by omega)]
    simp

/-- all four spellings, blanks and tabs mixed, `k=` in the middle and key only at the end:
`a="x\t\n\"" \t\tb=x<TAB>c=   d  e=\  f` -/
example : Logfmt.read (write2
      [⟨[97], [120, 9, 10, 34], .quoted, 1, false⟩, ⟨[98], [120], .bare, 2, true⟩,
       ⟨[99], [], .emptyEq, 1, true⟩, ⟨[100], [], .keyOnly, 3, false⟩,
       ⟨[101], [92], .bare, 2, false⟩, ⟨[102], [], .keyOnly, 2, false⟩])
    = ([([97], [120, 9, 10, 34]), ([98], [120]), ([99], []), ([100], []), ([101], [92]), ([102], [])], false) :=
  logfmt_read_write2 _ (by decide)

end C06Writers2
