import Verif.Lemmas.C16
import Verif.Lemmas.Calendar
/-! C16 — the RFC 3339 spelling of an instant, and agreement of the four spellings. -/
namespace Flags.C16
open Flags Bytes

/-- `Rfc3339.isDigitB` and `Bytes.isDigit` are the same test -/
theorem isDigitB_eq : Rfc3339.isDigitB = Bytes.isDigit := rfl

/-- a padded number is a non-empty digit string, whatever the width and the number -/
theorem pad_shape (w n : Nat) : Render.pad w n ≠ [] ∧ (Render.pad w n).all isDigit = true := by
  constructor
  · unfold Render.pad
    have := natToDec_ne_nil n
    simp [this]
  · rw [List.all_eq_true]
    intro b hb
    have := Calendar.pad_digits w n b hb
    rwa [isDigitB_eq] at this

/-- re-association of the thirteen pieces of the RFC3339Nano text -/
theorem assoc13 (p a b c d e f : List Nat) (x1 x2 x3 x4 x5 x6 : Nat) :
    p ++ [x1] ++ a ++ [x2] ++ b ++ [x3] ++ c ++ [x4] ++ d ++ [x5] ++ e ++ f ++ [x6] =
      p ++ x1 :: (a ++ x2 :: (b ++ x3 :: (c ++ x4 :: (d ++ x5 :: (e ++ (f ++ [x6])))))) := by
  simp only [List.append_assoc, List.cons_append, List.nil_append]

/-- shape of the RFC3339Nano text: digits (the year), then `-` -/
theorem rfc3339Nano_shape (t : Nat) :
    ∃ a rest, Render.rfc3339Nano t = a ++ 45 :: rest ∧ a ≠ [] ∧ a.all isDigit = true := by
  unfold Render.rfc3339Nano
  exact ⟨_, _, assoc13 .., (pad_shape 4 _).1, (pad_shape 4 _).2⟩

/-- digits followed by `-` is not a float -/
theorem parseFloat_digits_dash (a rest : List Nat) (hne : a ≠ []) (ha : a.all isDigit = true) :
    Num.parseFloat (a ++ 45 :: rest) = none := by
  have h1 := takeWhile_digits_append a rest ha 45 (by decide)
  have hemp : a.isEmpty = false := by cases a <;> simp_all
  have hsd : Num.scanDecimal (a ++ 45 :: rest) = some ((digitsVal a : Rat), 45 :: rest) := by
    unfold Num.scanDecimal
    simp only [h1.1, h1.2, hemp, Bool.false_eq_true, if_false]
  cases a with
  | nil => exact absurd rfl hne
  | cons c tl =>
    simp only [List.all_cons, Bool.and_eq_true] at ha
    unfold Num.parseFloat
    rw [List.cons_append, scanSign_digit c _ ha.1]
    rw [List.cons_append] at hsd
    simp only [hsd]
    rfl

/-- digits followed by `-` is not an integer, nor a float: `parseTimestamp` hands it to the RFC 3339 parser -/
theorem parseTimestamp_digits_dash (a rest : List Nat) (hne : a ≠ []) (ha : a.all isDigit = true) (d : Int) :
    parseTimestamp (a ++ 45 :: rest) d = Rfc3339.parse (a ++ 45 :: rest) := by
  have hpf := parseFloat_digits_dash a rest hne ha
  have hemp : (a ++ 45 :: rest).isEmpty = false := by simp
  have hnd : (a ++ 45 :: rest).all isDigit = false := by
    rw [List.all_append, List.all_cons]
    simp [isDigit]
  unfold parseTimestamp
  simp only [hemp, hpf, Bool.false_eq_true, if_false]
  cases a with
  | nil => exact absurd rfl hne
  | cons c tl =>
    have hc : isDigit c = true := by simp only [List.all_cons, Bool.and_eq_true] at ha; exact ha.1
    have h45 : c ≠ 45 := by intro h; subst h; simp [isDigit] at hc
    have h43 : c ≠ 43 := by intro h; subst h; simp [isDigit] at hc
    rw [List.cons_append] at hnd ⊢
    simp [h45, h43, hnd]

/-- **C16 (spellings)**: the RFC 3339 spelling of an instant denotes that instant, to the nanosecond -/
theorem spelling_rfc3339 (t : Nat) (ht : t < 253402300800000000000) (d : Int) :
    Flags.parseTimestamp (Render.rfc3339Nano t) d = some (t : Int) := by
  obtain ⟨a, rest, heq, hne, ha⟩ := rfc3339Nano_shape t
  have hr := Calendar.rfc3339_roundtrip t ht
  rw [heq] at hr ⊢
  rw [parseTimestamp_digits_dash a rest hne ha d, hr]

/-- all four spellings of a whole-millisecond instant agree -/
theorem four_spellings_agree (s ms : Nat) (hs : 10 ≤ s) (hs2 : s < 9223372036) (hms : ms < 1000) (d1 d2 d3 : Int) :
    Flags.parseTimestamp (Render.rfc3339Nano (s * 1000000000 + ms * 1000000)) d1 =
      Flags.parseTimestamp (Bytes.natToDec s ++ [46] ++ pad3 ms) d2 ∧
    Flags.parseTimestamp (Bytes.natToDec (s * 1000000000 + ms * 1000000)) d3 =
      Flags.parseTimestamp (Bytes.natToDec s ++ [46] ++ pad3 ms) d2 := by
  rw [spelling_rfc3339 _ (by omega), spelling_fractional s ms hms,
    spelling_nanoseconds _ (by omega) (by omega)]
  have e : ((s * 1000000000 + ms * 1000000 : Nat) : Int) = (s : Int) * 1000000000 + (ms : Int) * 1000000 := by omega
  rw [e]
  exact ⟨rfl, rfl⟩

/-! ## non-vacuity -/

example : Flags.parseTimestamp (Render.rfc3339Nano 1700000000123000000) 0 = some 1700000000123000000 :=
  spelling_rfc3339 _ (by decide) 0

-- "2023-11-14T22:13:20.123Z"
example : Render.rfc3339Nano 1700000000123000000 =
    [50,48,50,51,45,49,49,45,49,52,84,50,50,58,49,51,58,50,48,46,49,50,51,90] := by decide +kernel

example :
    Flags.parseTimestamp (Render.rfc3339Nano (1700000000 * 1000000000 + 123 * 1000000)) 1 =
      Flags.parseTimestamp (Bytes.natToDec 1700000000 ++ [46] ++ pad3 123) 2 ∧
    Flags.parseTimestamp (Bytes.natToDec (1700000000 * 1000000000 + 123 * 1000000)) 3 =
      Flags.parseTimestamp (Bytes.natToDec 1700000000 ++ [46] ++ pad3 123) 2 :=
  four_spellings_agree 1700000000 123 (by decide) (by decide) (by decide) 1 2 3

end Flags.C16
