import Verif.Env.Writers
/-! C06 round trips: the environment models of the logfmt decoder and of the streaming JSON object
reader expose exactly the pairs/fields of a canonically written document. -/
namespace C06Writers

/-! ## logfmt -/
section LogfmtPart
open Logfmt

/-- the bytes that `Logfmt.escByte` writes as a two-byte escape -/
def needsEsc (b : Nat) : Bool := b == 34 || b == 92 || b == 10 || b == 13 || b == 9

theorem escByte_plain (b : Nat) (h : needsEsc b = false) : escByte b = [b] := by
  simp [needsEsc] at h
  simp [escByte, h]

theorem scanQuoted_esc (v rest acc : List Nat) (e : Bool) :
    scanQuoted ((v.map escByte).flatten ++ 34 :: rest) acc false e
      = some (acc ++ (v.map escByte).flatten, e || v.any needsEsc, rest) := by
  induction v generalizing acc e with
  | nil => simp [scanQuoted]
  | cons b v ih =>
    by_cases hb : needsEsc b = true
    · have : (((b = 34 ∨ b = 92) ∨ b = 10) ∨ b = 13) ∨ b = 9 := by simpa [needsEsc] using hb
      rcases this with (((h | h) | h) | h) | h <;> subst h <;>
        simp [escByte, scanQuoted, ih, needsEsc]
    · have hb' : needsEsc b = false := by simpa using hb
      have h2 := hb'
      simp [needsEsc] at h2
      simp [escByte_plain b hb', scanQuoted, ih, hb', h2]

theorem esc_id (v : List Nat) (h : v.any needsEsc = false) : (v.map escByte).flatten = v := by
  induction v with
  | nil => rfl
  | cons b v ih =>
    simp only [List.any_cons, Bool.or_eq_false_iff] at h
    simp [escByte_plain b h.1, ih h.2]

theorem unescape_nil (acc : List Nat) : unescape [] acc = some acc := by
  rw [unescape]

theorem unescape_plain (c : Nat) (rest acc : List Nat) (h1 : 32 ≤ c) (h2 : c < 128) (h3 : c ≠ 34)
    (h4 : c ≠ 92) : unescape (c :: rest) acc = unescape rest (acc ++ [c]) := by
  rw [unescape]
  · simp [h3, h2]; omega
  · intro r a; simp; omega
  · simp; omega

theorem unescape_pair (c : Nat) (rest acc : List Nat) :
    unescape (92 :: c :: rest) acc =
      if c == 34 || c == 92 || c == 47 || c == 39 then unescape rest (acc ++ [c])
      else if c == 98 then unescape rest (acc ++ [8])
      else if c == 102 then unescape rest (acc ++ [12])
      else if c == 110 then unescape rest (acc ++ [10])
      else if c == 114 then unescape rest (acc ++ [13])
      else if c == 116 then unescape rest (acc ++ [9])
      else none := by
  rw [unescape]

theorem unescape_esc (v acc : List Nat) (hv : valOK v = true) :
    unescape ((v.map escByte).flatten) acc = some (acc ++ v) := by
  induction v generalizing acc with
  | nil => simp [unescape_nil]
  | cons b v ih =>
    simp only [valOK, List.all_cons, Bool.and_eq_true] at hv
    have hv2 : valOK v = true := by simpa [valOK] using hv.2
    by_cases hb : needsEsc b = true
    · have : (((b = 34 ∨ b = 92) ∨ b = 10) ∨ b = 13) ∨ b = 9 := by simpa [needsEsc] using hb
      rcases this with (((h | h) | h) | h) | h <;> subst h <;>
        simp [escByte, unescape_pair, ih _ hv2]
    · have hb' : needsEsc b = false := by simpa using hb
      have h2 := hb'
      simp [needsEsc] at h2
      have h1 := hv.1
      simp at h1
      simp only [List.map_cons, List.flatten_cons, escByte_plain b hb', List.singleton_append]
      rw [unescape_plain b _ _ (by omega) (by omega) (by omega) (by omega), ih _ hv2]
      simp

theorem badKey_false (k : List Nat) (h : keyOK k = true) : badKey k = false := by
  simp only [keyOK, Bool.and_eq_true, List.all_eq_true] at h
  have : k.any (· ≥ 128) = false := by
    rw [List.any_eq_false]
    intro x hx
    have := h.2 x hx
    simp at this ⊢
    omega
  simp [badKey, this]

theorem scanKeyval_space (l : List Nat) : scanKeyval (32 :: l) = scanKeyval l := by
  unfold scanKeyval
  simp [List.dropWhile_cons]

theorem scanKeyval_writePair (kv : List Nat × List Nat) (tl : List Nat)
    (hk : keyOK kv.1 = true) (hv : valOK kv.2 = true) :
    scanKeyval (writePair kv ++ tl) = .pair kv.1 kv.2 tl := by
  obtain ⟨k, v⟩ := kv
  simp only at hk hv
  have hbad := badKey_false k hk
  simp only [keyOK, Bool.and_eq_true, List.all_eq_true] at hk
  obtain ⟨hne, hall⟩ := hk
  have hline : writePair (k, v) ++ tl = k ++ 61 :: 34 :: ((v.map escByte).flatten ++ 34 :: tl) := by
    simp [writePair]
  rw [hline]
  cases k with
  | nil => simp at hne
  | cons c k' =>
    have hc := hall c (by simp)
    simp at hc
    have hp : ∀ a ∈ c :: k', (fun c => c != 61 && c != 34 && decide (c > 32)) a = true := by
      intro a ha
      have := hall a ha
      simp at this ⊢
      omega
    unfold scanKeyval
    have h1 : (c :: k' ++ 61 :: 34 :: ((v.map escByte).flatten ++ 34 :: tl)).dropWhile (· ≤ 32)
        = c :: k' ++ 61 :: 34 :: ((v.map escByte).flatten ++ 34 :: tl) := by
      rw [List.cons_append, List.dropWhile_cons]
      simp; omega
    simp only [h1]
    rw [List.takeWhile_append_of_pos hp, List.dropWhile_append_of_pos hp]
    have h2 : ∀ x : List Nat, (61 :: x).takeWhile (fun c => c != 61 && c != 34 && decide (c > 32)) = [] := by
      intro x; simp
    have h3 : ∀ x : List Nat, (61 :: x).dropWhile (fun c => c != 61 && c != 34 && decide (c > 32)) = 61 :: x := by
      intro x; simp
    simp only [h2, h3, List.append_nil, scanQuoted_esc]
    by_cases he : v.any needsEsc = true
    · simp [he, hbad, unescape_esc v [] hv]
    · have he' : v.any needsEsc = false := by simpa using he
      simp [he', hbad, esc_id v he']

/-- what follows a written pair: nothing, or a space and the remaining pairs -/
def tailOf : List (List Nat × List Nat) → List Nat
  | [] => []
  | kv :: rest => 32 :: write (kv :: rest)

theorem write_cons (kv : List Nat × List Nat) (rest : List (List Nat × List Nat)) :
    write (kv :: rest) = writePair kv ++ tailOf rest := by
  cases rest with
  | nil => simp [write, tailOf]
  | cons a r => simp [write, tailOf]

theorem scanLine_tailOf (kvs : List (List Nat × List Nat)) (fuel : Nat) (acc : List (List Nat × List Nat))
    (h : ∀ kv ∈ kvs, keyOK kv.1 = true ∧ valOK kv.2 = true) (hf : kvs.length < fuel) :
    scanLine fuel (tailOf kvs) acc = (acc ++ kvs, false) := by
  induction kvs generalizing fuel acc with
  | nil =>
    cases fuel with
    | zero => simp at hf
    | succ f => simp [tailOf, scanLine, scanKeyval]
  | cons kv rest ih =>
    cases fuel with
    | zero => simp at hf
    | succ f =>
      have hkv := h kv (by simp)
      show scanLine (f + 1) (32 :: write (kv :: rest)) acc = _
      rw [write_cons]
      simp only [scanLine, scanKeyval_space, scanKeyval_writePair kv _ hkv.1 hkv.2]
      rw [ih f _ (fun x hx => h x (by simp [hx])) (by simp at hf; omega)]
      simp

theorem scanLine_write (kvs : List (List Nat × List Nat)) (fuel : Nat) (acc : List (List Nat × List Nat))
    (h : ∀ kv ∈ kvs, keyOK kv.1 = true ∧ valOK kv.2 = true) (hf : kvs.length < fuel) :
    scanLine fuel (write kvs) acc = (acc ++ kvs, false) := by
  cases kvs with
  | nil => exact scanLine_tailOf [] fuel acc h hf
  | cons kv rest =>
    cases fuel with
    | zero => simp at hf
    | succ f =>
      have hkv := h kv (by simp)
      simp only [scanLine, write_cons, scanKeyval_writePair kv _ hkv.1 hkv.2]
      rw [scanLine_tailOf rest f _ (fun x hx => h x (by simp [hx])) (by simp at hf; omega)]
      simp

theorem length_le_write (kvs : List (List Nat × List Nat)) : kvs.length ≤ (write kvs).length := by
  induction kvs with
  | nil => simp
  | cons kv rest ih =>
    rw [write_cons]
    cases rest with
    | nil => simp [writePair]; omega
    | cons a r => simp [tailOf] at ih ⊢; omega

theorem escByte_ne (b x : Nat) (hx : x ∈ escByte b) : x ≠ 10 ∧ x ≠ 13 := by
  unfold escByte at hx
  repeat' split at hx
  all_goals simp_all
  all_goals omega

theorem writePair_ne (kv : List Nat × List Nat) (hk : keyOK kv.1 = true) (x : Nat)
    (hx : x ∈ writePair kv) : x ≠ 10 ∧ x ≠ 13 := by
  simp only [keyOK, Bool.and_eq_true, List.all_eq_true] at hk
  simp only [writePair, List.mem_append, List.mem_flatten, List.mem_map] at hx
  rcases hx with ((hx | hx) | ⟨l, ⟨b, _, rfl⟩, hx⟩) | hx
  · have := hk.2 x hx
    simp at this; omega
  · simp at hx; omega
  · exact escByte_ne b x hx
  · simp at hx; omega

theorem write_ne (kvs : List (List Nat × List Nat)) (h : ∀ kv ∈ kvs, keyOK kv.1 = true ∧ valOK kv.2 = true)
    (x : Nat) (hx : x ∈ write kvs) : x ≠ 10 ∧ x ≠ 13 := by
  induction kvs with
  | nil => simp [write] at hx
  | cons kv rest ih =>
    rw [write_cons, List.mem_append] at hx
    rcases hx with hx | hx
    · exact writePair_ne kv (h kv (by simp)).1 x hx
    · cases rest with
      | nil => simp [tailOf] at hx
      | cons a r =>
        simp only [tailOf, List.mem_cons] at hx
        rcases hx with hx | hx
        · omega
        · exact ih (fun y hy => h y (by simp [hy])) (by simpa using hx)

theorem go_single (s cur : List Nat) (h : ∀ x ∈ s, x ≠ 10) :
    splitLines.go s cur = if (cur ++ s).isEmpty then [] else [cur ++ s] := by
  induction s generalizing cur with
  | nil => simp [splitLines.go]
  | cons b s ih =>
    have hb : b ≠ 10 := h b (by simp)
    rw [splitLines.go]
    · rw [ih _ (fun x hx => h x (by simp [hx]))]
      simp
    · intro r
      exact hb r

theorem splitLines_single (s : List Nat) (hne : s ≠ []) (h : ∀ x ∈ s, x ≠ 10 ∧ x ≠ 13) :
    splitLines s = [s] := by
  unfold splitLines
  rw [go_single s [] (fun x hx => (h x hx).1)]
  have : s.getLast? ≠ some 13 := by
    intro hl
    have := List.mem_of_getLast? hl
    exact (h 13 this).2 rfl
  simp [hne, this]

end LogfmtPart

/-- the logfmt reader exposes exactly the written pairs, in order, without error -/
theorem logfmt_read_write (kvs : List (List Nat × List Nat))
    (h : ∀ kv ∈ kvs, Logfmt.keyOK kv.1 = true ∧ Logfmt.valOK kv.2 = true) :
    Logfmt.read (Logfmt.write kvs) = (kvs, false) := by
  cases kvs with
  | nil => simp [Logfmt.read, Logfmt.write, Logfmt.splitLines, Logfmt.splitLines.go, Logfmt.readLines]
  | cons kv rest =>
    have hne : Logfmt.write (kv :: rest) ≠ [] := by
      intro h0
      have := length_le_write (kv :: rest)
      rw [h0] at this
      simp at this
    unfold Logfmt.read
    rw [splitLines_single _ hne (write_ne _ h)]
    simp only [Logfmt.readLines]
    rw [scanLine_write _ _ [] h (by have := length_le_write (kv :: rest); omega)]
    simp

example : Logfmt.read (Logfmt.write [([97], [120, 32, 34, 10]), ([98, 99], [])])
    = ([([97], [120, 32, 34, 10]), ([98, 99], [])], false) :=
  logfmt_read_write _ (by decide)

end C06Writers
