import Verif.Env.Writers
/-! C06 round trips: the environment models of the logfmt decoder and of the streaming JSON object
reader expose exactly the pairs/fields of a canonically written document. -/
namespace C06Writers

/-! ## logfmt -/
section LogfmtPart
open Logfmt

/-- the bytes that `Logfmt.escByte` writes as a two-byte escape -/
def needsEsc (b : Nat) : Bool := b == 34 || b == 92 || b == 10 || b == 13 || b == 9

theorem escByte_plain (b : Nat) (h : needsEsc b = false) : escByte b = [b] := by
  simp [needsEsc] at h
  simp [escByte, h]

theorem scanQuoted_esc (v rest acc : List Nat) (e : Bool) :
    scanQuoted ((v.map escByte).flatten ++ 34 :: rest) acc false e
      = some (acc ++ (v.map escByte).flatten, e || v.any needsEsc, rest) := by
  induction v generalizing acc e with
  | nil => simp [scanQuoted]
  | cons b v ih =>
    by_cases hb : needsEsc b = true
    · have : (((b = 34 ∨ b = 92) ∨ b = 10) ∨ b = 13) ∨ b = 9 := by simpa [needsEsc] using hb
      rcases this with (((h | h) | h) | h) | h <;> subst h <;>
        simp [escByte, scanQuoted, ih, needsEsc]
    · have hb' : needsEsc b = false := by simpa using hb
      have h2 := hb'
      simp [needsEsc] at h2
      simp [escByte_plain b hb', scanQuoted, ih, hb', h2]

theorem esc_id (v : List Nat) (h : v.any needsEsc = false) : (v.map escByte).flatten = v := by
  induction v with
  | nil => rfl
  | cons b v ih =>
    simp only [List.any_cons, Bool.or_eq_false_iff] at h
    simp [escByte_plain b h.1, ih h.2]

theorem unescape_nil (acc : List Nat) : unescape [] acc = some acc := by
  rw [unescape]

theorem unescape_plain (c : Nat) (rest acc : List Nat) (h1 : 32 ≤ c) (h2 : c < 128) (h3 : c ≠ 34)
    (h4 : c ≠ 92) : unescape (c :: rest) acc = unescape rest (acc ++ [c]) := by
  rw [unescape]
  · simp [h3, h2]; omega
  · intro r a; simp; omega
  · simp; omega

theorem unescape_pair (c : Nat) (rest acc : List Nat) :
    unescape (92 :: c :: rest) acc =
      if c == 34 || c == 92 || c == 47 || c == 39 then unescape rest (acc ++ [c])
      else if c == 98 then unescape rest (acc ++ [8])
      else if c == 102 then unescape rest (acc ++ [12])
      else if c == 110 then unescape rest (acc ++ [10])
      else if c == 114 then unescape rest (acc ++ [13])
      else if c == 116 then unescape rest (acc ++ [9])
      else none := by
  rw [unescape]

theorem unescape_esc (v acc : List Nat) (hv : valOK v = true) :
    unescape ((v.map escByte).flatten) acc = some (acc ++ v) := by
  induction v generalizing acc with
  | nil => simp [unescape_nil]
  | cons b v ih =>
    simp only [valOK, List.all_cons, Bool.and_eq_true] at hv
    have hv2 : valOK v = true := by simpa [valOK] using hv.2
    by_cases hb : needsEsc b = true
    · have : (((b = 34 ∨ b = 92) ∨ b = 10) ∨ b = 13) ∨ b = 9 := by simpa [needsEsc] using hb
      rcases this with (((h | h) | h) | h) | h <;> subst h <;>
        simp [escByte, unescape_pair, ih _ hv2]
    · have hb' : needsEsc b = false := by simpa using hb
      have h2 := hb'
      simp [needsEsc] at h2
      have h1 := hv.1
      simp at h1
      simp only [List.map_cons, List.flatten_cons, escByte_plain b hb', List.singleton_append]
      rw [unescape_plain b _ _ (by omega) (by omega) (by omega) (by omega), ih _ hv2]
      simp

theorem badKey_false (k : List Nat) (h : keyOK k = true) : badKey k = false := by
  simp only [keyOK, Bool.and_eq_true, List.all_eq_true] at h
  have : k.any (· ≥ 128) = false := by
    rw [List.any_eq_false]
    intro x hx
    have := h.2 x hx
    simp at this ⊢
    omega
  simp [badKey, this]

theorem scanKeyval_space (l : List Nat) : scanKeyval (32 :: l) = scanKeyval l := by
  unfold scanKeyval
  simp [List.dropWhile_cons]

theorem scanKeyval_writePair (kv : List Nat × List Nat) (tl : List Nat)
    (hk : keyOK kv.1 = true) (hv : valOK kv.2 = true) :
    scanKeyval (writePair kv ++ tl) = .pair kv.1 kv.2 tl := by
  obtain ⟨k, v⟩ := kv
  simp only at hk hv
  have hbad := badKey_false k hk
  simp only [keyOK, Bool.and_eq_true, List.all_eq_true] at hk
  obtain ⟨hne, hall⟩ := hk
  have hline : writePair (k, v) ++ tl = k ++ 61 :: 34 :: ((v.map escByte).flatten ++ 34 :: tl) := by
    simp [writePair]
  rw [hline]
  cases k with
  | nil => simp at hne
  | cons c k' =>
    have hc := hall c (by simp)
    simp at hc
    have hp : ∀ a ∈ c :: k', (fun c => c != 61 && c != 34 && decide (c > 32)) a = true := by
      intro a ha
      have := hall a ha
      simp at this ⊢
      omega
    unfold scanKeyval
    have h1 : (c :: k' ++ 61 :: 34 :: ((v.map escByte).flatten ++ 34 :: tl)).dropWhile (· ≤ 32)
        = c :: k' ++ 61 :: 34 :: ((v.map escByte).flatten ++ 34 :: tl) := by
      rw [List.cons_append, List.dropWhile_cons]
      simp; omega
    simp only [h1]
    rw [List.takeWhile_append_of_pos hp, List.dropWhile_append_of_pos hp]
    have h2 : ∀ x : List Nat, (61 :: x).takeWhile (fun c => c != 61 && c != 34 && decide (c > 32)) = [] := by
      intro x; simp
    have h3 : ∀ x : List Nat, (61 :: x).dropWhile (fun c => c != 61 && c != 34 && decide (c > 32)) = 61 :: x := by
      intro x; simp
    simp only [h2, h3, List.append_nil, scanQuoted_esc]
    by_cases he : v.any needsEsc = true
    · simp [he, hbad, unescape_esc v [] hv]
    · have he' : v.any needsEsc = false := by simpa using he
      simp [he', hbad, esc_id v he']

/-- what follows a written pair: nothing, or a space and the remaining pairs -/
def tailOf : List (List Nat × List Nat) → List Nat
  | [] => []
  | kv :: rest => 32 :: write (kv :: rest)

theorem write_cons (kv : List Nat × List Nat) (rest : List (List Nat × List Nat)) :
    write (kv :: rest) = writePair kv ++ tailOf rest := by
  cases rest with
  | nil => simp [write, tailOf]
  | cons a r => simp [write, tailOf]

theorem scanLine_tailOf (kvs : List (List Nat × List Nat)) (fuel : Nat) (acc : List (List Nat × List Nat))
    (h : ∀ kv ∈ kvs, keyOK kv.1 = true ∧ valOK kv.2 = true) (hf : kvs.length < fuel) :
    scanLine fuel (tailOf kvs) acc = (acc ++ kvs, false) := by
  induction kvs generalizing fuel acc with
  | nil =>
    cases fuel with
    | zero => simp at hf
    | succ f => simp [tailOf, scanLine, scanKeyval]
  | cons kv rest ih =>
    cases fuel with
    | zero => simp at hf
    | succ f =>
      have hkv := h kv (by simp)
      show scanLine (f + 1) (32 :: write (kv :: rest)) acc = _
      rw [write_cons]
      simp only [scanLine, scanKeyval_space, scanKeyval_writePair kv _ hkv.1 hkv.2]
      rw [ih f _ (fun x hx => h x (by simp [hx])) (by simp at hf; omega)]
      simp

theorem scanLine_write (kvs : List (List Nat × List Nat)) (fuel : Nat) (acc : List (List Nat × List Nat))
    (h : ∀ kv ∈ kvs, keyOK kv.1 = true ∧ valOK kv.2 = true) (hf : kvs.length < fuel) :
    scanLine fuel (write kvs) acc = (acc ++ kvs, false) := by
  cases kvs with
  | nil => exact scanLine_tailOf [] fuel acc h hf
  | cons kv rest =>
    cases fuel with
    | zero => simp at hf
    | succ f =>
      have hkv := h kv (by simp)
      simp only [scanLine, write_cons, scanKeyval_writePair kv _ hkv.1 hkv.2]
      rw [scanLine_tailOf rest f _ (fun x hx => h x (by simp [hx])) (by simp at hf; omega)]
      simp

theorem length_le_write (kvs : List (List Nat × List Nat)) : kvs.length ≤ (write kvs).length := by
  induction kvs with
  | nil => simp
  | cons kv rest ih =>
    rw [write_cons]
    cases rest with
    | nil => simp [writePair]; omega
    | cons a r => simp [tailOf] at ih ⊢; omega

theorem escByte_ne (b x : Nat) (hx : x ∈ escByte b) : x ≠ 10 ∧ x ≠ 13 := by
  unfold escByte at hx
  repeat' split at hx
  all_goals simp_all
  all_goals omega

theorem writePair_ne (kv : List Nat × List Nat) (hk : keyOK kv.1 = true) (x : Nat)
    (hx : x ∈ writePair kv) : x ≠ 10 ∧ x ≠ 13 := by
  simp only [keyOK, Bool.and_eq_true, List.all_eq_true] at hk
  simp only [writePair, List.mem_append, List.mem_flatten, List.mem_map] at hx
  rcases hx with ((hx | hx) | ⟨l, ⟨b, _, rfl⟩, hx⟩) | hx
  · have := hk.2 x hx
    simp at this; omega
  · simp at hx; omega
  · exact escByte_ne b x hx
  · simp at hx; omega

theorem write_ne (kvs : List (List Nat × List Nat)) (h : ∀ kv ∈ kvs, keyOK kv.1 = true ∧ valOK kv.2 = true)
    (x : Nat) (hx : x ∈ write kvs) : x ≠ 10 ∧ x ≠ 13 := by
  induction kvs with
  | nil => simp [write] at hx
  | cons kv rest ih =>
    rw [write_cons, List.mem_append] at hx
    rcases hx with hx | hx
    · exact writePair_ne kv (h kv (by simp)).1 x hx
    · cases rest with
      | nil => simp [tailOf] at hx
      | cons a r =>
        simp only [tailOf, List.mem_cons] at hx
        rcases hx with hx | hx
        · omega
        · exact ih (fun y hy => h y (by simp [hy])) (by simpa using hx)

theorem go_single (s cur : List Nat) (h : ∀ x ∈ s, x ≠ 10) :
    splitLines.go s cur = if (cur ++ s).isEmpty then [] else [cur ++ s] := by
  induction s generalizing cur with
  | nil => simp [splitLines.go]
  | cons b s ih =>
    have hb : b ≠ 10 := h b (by simp)
    rw [splitLines.go]
    · rw [ih _ (fun x hx => h x (by simp [hx]))]
      simp
    · intro r
      exact hb r

theorem splitLines_single (s : List Nat) (hne : s ≠ []) (h : ∀ x ∈ s, x ≠ 10 ∧ x ≠ 13) :
    splitLines s = [s] := by
  unfold splitLines
  rw [go_single s [] (fun x hx => (h x hx).1)]
  have : s.getLast? ≠ some 13 := by
    intro hl
    have := List.mem_of_getLast? hl
    exact (h 13 this).2 rfl
  simp [hne, this]

end LogfmtPart

/-- the logfmt reader exposes exactly the written pairs, in order, without error -/
theorem logfmt_read_write (kvs : List (List Nat × List Nat))
    (h : ∀ kv ∈ kvs, Logfmt.keyOK kv.1 = true ∧ Logfmt.valOK kv.2 = true) :
    Logfmt.read (Logfmt.write kvs) = (kvs, false) := by
  cases kvs with
  | nil => simp [Logfmt.read, Logfmt.write, Logfmt.splitLines, Logfmt.splitLines.go, Logfmt.readLines]
  | cons kv rest =>
    have hne : Logfmt.write (kv :: rest) ≠ [] := by
      intro h0
      have := length_le_write (kv :: rest)
      rw [h0] at this
      simp at this
    unfold Logfmt.read
    rw [splitLines_single _ hne (write_ne _ h)]
    simp only [Logfmt.readLines]
    rw [scanLine_write _ _ [] h (by have := length_le_write (kv :: rest); omega)]
    simp

example : Logfmt.read (Logfmt.write [([97], [120, 32, 34, 10]), ([98, 99], [])])
    = ([([97], [120, 32, 34, 10]), ([98, 99], [])], false) :=
  logfmt_read_write _ (by decide)


/-! ## JSON -/
section JsonPart
open Json Bytes

theorem hexVal_hexDigit : ∀ n, n < 16 → hexVal? (hexDigit n) = some n := by decide

theorem hex4_esc (b : Nat) (rest : List Nat) (hb : b < 32) :
    hex4 (48 :: 48 :: hexDigit (b / 16) :: hexDigit (b % 16) :: rest) = some (b, rest) := by
  have h0 : hexVal? 48 = some 0 := by decide
  simp only [hex4, h0, hexVal_hexDigit (b / 16) (by omega), hexVal_hexDigit (b % 16) (by omega)]
  simp; omega

theorem encodeRune_ascii (b : Nat) (hb : b < 128) : Utf8.encodeRune b = [b] := by
  simp [Utf8.encodeRune, hb]

theorem length_le_esc (s : List Nat) : s.length ≤ ((s.map Json.escByte).flatten).length := by
  induction s with
  | nil => simp
  | cons b s ih =>
    have : 1 ≤ (Json.escByte b).length := by
      unfold Json.escByte; repeat' split
      all_goals simp
    simp only [List.map_cons, List.flatten_cons, List.length_append, List.length_cons]
    omega

theorem readStrBody_plain (b f : Nat) (rest acc : List Nat) (h34 : b ≠ 34) (h92 : b ≠ 92) (h32 : ¬ b < 32) :
    readStrBody (f + 1) (b :: rest) acc = readStrBody f rest (acc ++ [b]) := by
  conv => lhs; unfold readStrBody
  simp [h34, h92, h32]

theorem readStrBody_esc (s rest acc : List Nat) (fuel : Nat) (hs : asciiOK s = true) (hf : s.length < fuel) :
    readStrBody fuel ((s.map Json.escByte).flatten ++ 34 :: rest) acc = some (acc ++ s, rest) := by
  induction s generalizing fuel acc with
  | nil =>
    cases fuel with
    | zero => simp at hf
    | succ f => simp [readStrBody]
  | cons b s ih =>
    cases fuel with
    | zero => simp at hf
    | succ f =>
      simp only [asciiOK, List.all_cons, Bool.and_eq_true, decide_eq_true_eq] at hs
      have hs2 : asciiOK s = true := by simpa [asciiOK] using hs.2
      have hf2 : s.length < f := by simp at hf; omega
      have IH := fun acc => ih acc f hs2 hf2
      by_cases h34 : b = 34
      · subst h34; simp [Json.escByte, readStrBody, IH]
      by_cases h92 : b = 92
      · subst h92; simp [Json.escByte, readStrBody, IH]
      by_cases h32 : b < 32
      · have e : Json.escByte b = [92, 117, 48, 48, hexDigit (b / 16), hexDigit (b % 16)] := by
          simp [Json.escByte, h34, h92, h32]
        simp only [List.map_cons, List.flatten_cons, e, List.cons_append, List.nil_append]
        rw [readStrBody]
        simp only [hex4_esc b _ h32]
        have n1 : ¬ (55296 ≤ b) := by omega
        have n2 : ¬ (56320 ≤ b) := by omega
        simp [n1, n2, encodeRune_ascii b hs.1, IH]
      · have e : Json.escByte b = [b] := by simp [Json.escByte, h34, h92, h32]
        simp only [List.map_cons, List.flatten_cons, e, List.cons_append, List.nil_append]
        rw [readStrBody_plain b f _ _ h34 h92 h32, IH]
        simp

/-! decimal digits (`natToDec` facts, restated to keep the imports small) -/

theorem aux_append (fuel n : Nat) (acc : List Nat) :
    natDigitsAux fuel n acc = natDigitsAux fuel n [] ++ acc := by
  induction fuel generalizing n acc with
  | zero => rfl
  | succ f ih =>
    unfold natDigitsAux
    split
    · rfl
    · rw [ih _ (_ :: acc), ih _ [_], List.append_assoc]; rfl

theorem aux_fuel (f1 f2 n : Nat) (acc : List Nat) (h1 : n < f1) (h2 : n < f2) :
    natDigitsAux f1 n acc = natDigitsAux f2 n acc := by
  induction f1 generalizing f2 n acc with
  | zero => omega
  | succ f ih =>
    cases f2 with
    | zero => omega
    | succ g =>
      unfold natDigitsAux
      split
      · rfl
      · exact ih _ _ _ (by omega) (by omega)

theorem natToDec_step (n : Nat) :
    natToDec n = if n < 10 then [48 + n] else natToDec (n / 10) ++ [48 + n % 10] := by
  unfold natToDec
  rw [natDigitsAux]
  split
  · rfl
  · rw [aux_append, aux_fuel n (n / 10 + 1) (n / 10) [] (by omega) (by omega)]

theorem digitsVal_snoc (xs : List Nat) (d : Nat) : digitsVal (xs ++ [d]) = digitsVal xs * 10 + (d - 48) := by
  simp [digitsVal, List.foldl_append]

theorem digitsVal_natToDec (n : Nat) : digitsVal (natToDec n) = n := by
  induction n using Nat.strongRecOn with
  | _ n ih =>
    rw [natToDec_step]
    split
    · simp [digitsVal]
    · rw [digitsVal_snoc, ih (n / 10) (by omega)]; omega

theorem natToDec_digits (n : Nat) : ∀ x ∈ natToDec n, isDigit x = true := by
  induction n using Nat.strongRecOn with
  | _ n ih =>
    rw [natToDec_step]
    split
    · simp [isDigit]; omega
    · intro x hx
      rw [List.mem_append] at hx
      rcases hx with hx | hx
      · exact ih (n / 10) (by omega) x hx
      · simp at hx; subst hx; simp [isDigit]; omega

theorem natToDec_ne_nil (n : Nat) : natToDec n ≠ [] := by
  rw [natToDec_step]; split <;> simp

theorem natToDec_head (n : Nat) (hn : 1 ≤ n) : (natToDec n).head? ≠ some 48 := by
  induction n using Nat.strongRecOn with
  | _ n ih =>
    rw [natToDec_step]
    split
    · simp; omega
    · have := ih (n / 10) (by omega) (by omega)
      cases hd : natToDec (n / 10) with
      | nil => exact absurd hd (natToDec_ne_nil _)
      | cons a l => rw [hd] at this; simpa using this

/-- a run of digits without a superfluous leading zero, followed by `,` or `}`, reads as an integer -/
theorem readNumber_digits (checkInt neg : Bool) (ds r' : List Nat) (c : Nat)
    (hne : ds ≠ []) (hd : ∀ x ∈ ds, isDigit x = true) (hz : ds.length > 1 → ds.head? ≠ some 48)
    (hc : c = 44 ∨ c = 125)
    (hr : -9223372036854775808 ≤ (if neg then -(digitsVal ds : Int) else (digitsVal ds : Int)) ∧
          (if neg then -(digitsVal ds : Int) else (digitsVal ds : Int)) ≤ 9223372036854775807) :
    readNumber checkInt ((if neg then [45] else []) ++ ds ++ c :: r')
      = some (.int (if neg then -(digitsVal ds : Int) else (digitsVal ds : Int)), c :: r') := by
  have hcd : isDigit c = false := by rcases hc with h | h <;> subst h <;> decide
  have ht : (ds ++ c :: r').takeWhile isDigit = ds := by
    rw [List.takeWhile_append_of_pos hd]; simp [hcd]
  have hdr : (ds ++ c :: r').dropWhile isDigit = c :: r' := by
    rw [List.dropWhile_append_of_pos hd]; simp [hcd]
  have hz' : (decide (ds.length > 1) && ds.head? == some 48) = false := by
    by_cases h1 : ds.length > 1
    · have := hz h1
      simp [h1, this]
    · simp [h1]
  have hrange : (checkInt && (decide ((if neg then -(digitsVal ds : Int) else (digitsVal ds : Int)) < -9223372036854775808)
      || decide ((if neg then -(digitsVal ds : Int) else (digitsVal ds : Int)) > 9223372036854775807))) = false := by
    have h1 : ¬ ((if neg then -(digitsVal ds : Int) else (digitsVal ds : Int)) < -9223372036854775808) := by omega
    have h2 : ¬ ((if neg then -(digitsVal ds : Int) else (digitsVal ds : Int)) > 9223372036854775807) := by omega
    simp [h1, h2]
  have hemp : ds.isEmpty = false := by cases ds <;> simp_all
  clear hrange
  cases neg with
  | true =>
    simp only [↓reduceIte, List.cons_append, List.nil_append] at hr ⊢
    unfold readNumber
    simp only [ht, hdr, hemp, hz', Bool.or_false, Bool.false_eq_true, ↓reduceIte]
    rcases hc with h | h <;> subst h <;> simp [numEnd, isWs] <;> (intros; omega)
  | false =>
    simp only [Bool.false_eq_true, ↓reduceIte, List.nil_append] at hr ⊢
    cases ds with
    | nil => exact absurd rfl hne
    | cons d ds' =>
      have hd45 : d ≠ 45 := by
        have := hd d (by simp)
        simp [isDigit] at this; omega
      have hm : Json.readNumber.match_1 (fun _ => Bool × List Nat) (d :: (ds' ++ c :: r'))
          (fun r => (true, r)) (fun _ => (false, d :: (ds' ++ c :: r'))) = (false, d :: (ds' ++ c :: r')) := by
        split
        · rename_i heq
          simp at heq; exact absurd heq.1 hd45
        · rfl
      unfold readNumber
      simp only [List.cons_append] at ht hdr ⊢
      simp only [hm, ht, hdr, hemp, hz', Bool.or_false, Bool.false_eq_true, ↓reduceIte]
      rcases hc with h | h <;> subst h <;> simp [numEnd, isWs] <;> (intros; omega)

theorem skipWs_cons (b : Nat) (r : List Nat) (h : isWs b = false) : skipWs (b :: r) = b :: r := by
  simp [skipWs, h]

theorem readValue_num (checkInt : Bool) (f b : Nat) (r : List Nat) (h : b = 45 ∨ isDigit b = true) :
    readValue checkInt (f + 1) (b :: r) = readNumber checkInt (b :: r) := by
  have hb : 45 ≤ b ∧ b ≤ 57 := by
    rcases h with h | h
    · omega
    · simp [isDigit] at h; omega
  have hws : isWs b = false := by simp [isWs]; omega
  rw [readValue, skipWs_cons b r hws]
  split
  all_goals first
    | (rename_i heq; simp at heq; done)
    | (rename_i heq; simp at heq; omega)
    | skip
  · rename_i b' r' _ _ _ _ _ _ heq
    simp at heq
    obtain ⟨rfl, rfl⟩ := heq
    have : (b == 45 || isDigit b) = true := by
      rcases h with h | h <;> simp [h]
    simp [this]

theorem readValue_int (checkInt : Bool) (f : Nat) (i : Int) (c : Nat) (r' : List Nat)
    (hi : -9223372036854775808 ≤ i ∧ i ≤ 9223372036854775807) (hc : c = 44 ∨ c = 125) :
    readValue checkInt (f + 1) (intToDec i ++ c :: r') = some (.int i, c :: r') := by
  by_cases hneg : i < 0
  · have e : intToDec i ++ c :: r' = (if true then [45] else []) ++ natToDec i.natAbs ++ c :: r' := by
      simp [intToDec, hneg]
    have hv : -((digitsVal (natToDec i.natAbs) : Nat) : Int) = i := by
      rw [digitsVal_natToDec]; omega
    have := readNumber_digits checkInt true (natToDec i.natAbs) r' c (natToDec_ne_nil _)
      (natToDec_digits _) (fun _ => natToDec_head _ (by omega)) hc
      (by simp only [↓reduceIte, hv]; exact hi)
    simp only [↓reduceIte, hv] at this
    rw [e]
    simp only [↓reduceIte, List.cons_append, List.nil_append] at this ⊢
    rw [readValue_num checkInt f 45 _ (Or.inl rfl), this]
  · have e : intToDec i ++ c :: r' = (if false then [45] else []) ++ natToDec i.toNat ++ c :: r' := by
      simp [intToDec, hneg]
    have hv : ((digitsVal (natToDec i.toNat) : Nat) : Int) = i := by
      rw [digitsVal_natToDec]; omega
    have hz : (natToDec i.toNat).length > 1 → (natToDec i.toNat).head? ≠ some 48 := by
      intro hl
      by_cases h0 : i.toNat = 0
      · rw [h0, natToDec_step] at hl; simp at hl
      · exact natToDec_head _ (by omega)
    have := readNumber_digits checkInt false (natToDec i.toNat) r' c (natToDec_ne_nil _)
      (natToDec_digits _) hz hc
      (by simp only [Bool.false_eq_true, ↓reduceIte, hv]; exact hi)
    simp only [Bool.false_eq_true, ↓reduceIte, hv, List.nil_append] at this
    rw [e]
    simp only [Bool.false_eq_true, ↓reduceIte, List.nil_append]
    cases hd : natToDec i.toNat with
    | nil => exact absurd hd (natToDec_ne_nil _)
    | cons d ds =>
      rw [hd] at this
      have hdig := natToDec_digits i.toNat d (by rw [hd]; simp)
      simp only [List.cons_append] at this ⊢
      rw [readValue_num checkInt f d _ (Or.inr hdig), this]

theorem readValue_write (checkInt : Bool) (f : Nat) (v : JVal) (c : Nat) (r' : List Nat)
    (hv : valOK v = true) (hc : c = 44 ∨ c = 125) :
    readValue checkInt (f + 1) (writeVal v ++ c :: r') = some (v, c :: r') := by
  cases v with
  | str s =>
    simp only [valOK] at hv
    have := readStrBody_esc s (c :: r') [] (((s.map Json.escByte).flatten ++ 34 :: c :: r').length + 1) hv
      (by have := length_le_esc s; simp only [List.length_append]; omega)
    simp only [writeVal, writeStr, List.cons_append, List.append_assoc, List.nil_append]
    rw [readValue, skipWs_cons 34 _ (by decide)]
    show Option.map _ (readStrBody (((s.map Json.escByte).flatten ++ 34 :: c :: r').length + 1)
      ((s.map Json.escByte).flatten ++ 34 :: c :: r') []) = _
    rw [this]
    rfl
  | int i =>
    simp only [valOK, decide_eq_true_eq] at hv
    exact readValue_int checkInt f i c r' hv hc
  | bool b =>
    cases b
    · simp only [writeVal, List.cons_append, List.nil_append]
      rw [readValue, skipWs_cons 102 _ (by decide)]; rfl
    · simp only [writeVal, List.cons_append, List.nil_append]
      rw [readValue, skipWs_cons 116 _ (by decide)]; rfl
  | null =>
    simp only [writeVal, List.cons_append, List.nil_append]
    rw [readValue, skipWs_cons 110 _ (by decide)]; rfl
  | num q => simp [valOK] at hv
  | nested raw => simp [valOK] at hv

/-- what follows a written member: the closing brace, or a comma and the remaining members -/
def mtail (fs : List (List Nat × JVal)) (tl : List Nat) : List Nat :=
  match fs with
  | [] => 125 :: tl
  | g :: gs => 44 :: (writeMembers (g :: gs) ++ 125 :: tl)

theorem writeMembers_cons (f : List Nat × JVal) (fs : List (List Nat × JVal)) (tl : List Nat) :
    writeMembers (f :: fs) ++ 125 :: tl
      = 34 :: ((f.1.map Json.escByte).flatten ++ 34 :: 58 :: (writeVal f.2 ++ mtail fs tl)) := by
  cases fs with
  | nil => simp [writeMembers, writeStr, mtail]
  | cons g gs => simp [writeMembers, writeStr, mtail]

theorem readFields_step (checkInt : Bool) (fuel : Nat) (k : List Nat) (v : JVal) (r r2 r3 : List Nat)
    (acc : List (List Nat × JVal))
    (h1 : readStrBody (r.length + 1) r [] = some (k, 58 :: r2))
    (h2 : readValue checkInt (r2.length + 1) r2 = some (v, r3)) :
    readFields checkInt (fuel + 1) (34 :: r) acc =
      match skipWs r3 with
      | 44 :: r4 => readFields checkInt fuel r4 (acc ++ [(k, v)])
      | 125 :: _ => (acc ++ [(k, v)], false)
      | _ => (acc ++ [(k, v)], true) := by
  rw [readFields, skipWs_cons 34 _ (by decide)]
  simp only [h1, skipWs_cons 58 _ (by decide), h2]
  rfl

theorem readFields_members (checkInt : Bool) (f : List Nat × JVal) (fs : List (List Nat × JVal))
    (tl : List Nat) (fuel : Nat) (acc : List (List Nat × JVal))
    (h : fieldsOK (f :: fs) = true) (hf : fs.length < fuel) :
    readFields checkInt fuel (writeMembers (f :: fs) ++ 125 :: tl) acc = (acc ++ f :: fs, false) := by
  induction fs generalizing f fuel acc with
  | nil =>
    cases fuel with
    | zero => simp at hf
    | succ g =>
      obtain ⟨k, v⟩ := f
      simp only [fieldsOK, List.all_cons, List.all_nil, Bool.and_true, Bool.and_eq_true] at h
      rw [writeMembers_cons]
      have h1 := readStrBody_esc k (58 :: (writeVal v ++ mtail [] tl)) []
        (((k.map Json.escByte).flatten ++ 34 :: 58 :: (writeVal v ++ mtail [] tl)).length + 1) h.1
        (by have := length_le_esc k; simp only [List.length_append]; omega)
      have h2 := readValue_write checkInt (writeVal v ++ mtail [] tl).length v 125 tl h.2 (Or.inr rfl)
      rw [List.nil_append] at h1
      rw [readFields_step checkInt g k v _ _ _ acc h1 h2, skipWs_cons 125 _ (by decide)]
      rfl
  | cons f' fs ih =>
    cases fuel with
    | zero => simp at hf
    | succ g =>
      obtain ⟨k, v⟩ := f
      have h' : fieldsOK (f' :: fs) = true := by
        simp only [fieldsOK, List.all_cons, Bool.and_eq_true] at h ⊢
        exact h.2
      simp only [fieldsOK, List.all_cons, Bool.and_eq_true] at h
      rw [writeMembers_cons]
      have h1 := readStrBody_esc k (58 :: (writeVal v ++ mtail (f' :: fs) tl)) []
        (((k.map Json.escByte).flatten ++ 34 :: 58 :: (writeVal v ++ mtail (f' :: fs) tl)).length + 1) h.1.1
        (by have := length_le_esc k; simp only [List.length_append]; omega)
      have h2 := readValue_write checkInt (writeVal v ++ mtail (f' :: fs) tl).length v 44
        (writeMembers (f' :: fs) ++ 125 :: tl) h.1.2 (Or.inl rfl)
      rw [List.nil_append] at h1
      rw [readFields_step checkInt g k v _ _ _ acc h1 h2, skipWs_cons 44 _ (by decide)]
      show readFields checkInt g (writeMembers (f' :: fs) ++ 125 :: tl) (acc ++ [(k, v)]) = _
      rw [ih f' g _ h' (by simp at hf; omega)]
      simp

theorem length_le_members (fs : List (List Nat × JVal)) : fs.length ≤ (writeMembers fs).length := by
  induction fs with
  | nil => simp
  | cons f fs ih =>
    cases fs with
    | nil => simp [writeMembers, writeStr]
    | cons g gs =>
      simp only [writeMembers, List.length_append, List.length_cons] at ih ⊢
      omega

end JsonPart

/-- the JSON object reader exposes exactly the written fields, in order (duplicates included), without error -/
theorem json_read_write (checkInt : Bool) (fs : List (List Nat × Json.JVal)) (h : Json.fieldsOK fs = true) :
    Json.readObject checkInt (Json.writeObj fs) = (fs, false) := by
  unfold Json.readObject Json.writeObj
  rw [List.cons_append, skipWs_cons 123 _ (by decide)]
  cases fs with
  | nil => simp [Json.writeMembers, skipWs_cons 125 _ (by decide)]
  | cons f fs =>
    have e := writeMembers_cons f fs []
    have hlen := length_le_members (f :: fs)
    have hr := readFields_members checkInt f fs [] ((Json.writeMembers (f :: fs) ++ [125]).length + 1) [] h
      (by simp only [List.length_append, List.length_cons] at hlen ⊢; omega)
    show (match Json.skipWs (Json.writeMembers (f :: fs) ++ [125]) with
      | 125 :: _ => ([], false)
      | _ => Json.readFields checkInt ((Json.writeMembers (f :: fs) ++ [125]).length + 1)
              (Json.writeMembers (f :: fs) ++ [125]) []) = _
    rw [hr]
    rw [e, skipWs_cons 34 _ (by decide)]
    simp

example : Json.readObject true (Json.writeObj
      [([97, 34], .str [120, 10, 92]), ([98], .int (-42)), ([99], .bool true), ([], .null)])
    = ([([97, 34], .str [120, 10, 92]), ([98], .int (-42)), ([99], .bool true), ([], .null)], false) :=
  json_read_write true _ (by decide)
end C06Writers
