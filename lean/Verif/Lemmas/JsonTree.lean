import Verif.Env.JsonTree
import Verif.Lemmas.C06Writers
/-! The byte-level path extractor computes, on the canonical text of a well-formed JSON tree, exactly
the denotation of the requested paths on the tree. -/
namespace JsonTreeL
open Json JsonExpr JsonTree Bytes
open C06Writers (skipWs_cons readStrBody_esc length_le_esc natToDec_ne_nil natToDec_digits natToDec_head natToDec_step)

/-! ## induction principle for the nested tree type -/

theorem JT_induct {P : JT → Prop} {Q : List JT → Prop} {R : List (List Nat × JT) → Prop}
    (hstr : ∀ s, P (.str s)) (hint : ∀ i, P (.int i)) (hbool : ∀ b, P (.bool b)) (hnull : P .null)
    (harr : ∀ xs, Q xs → P (.arr xs)) (hobj : ∀ fs, R fs → P (.obj fs))
    (hE0 : Q []) (hE1 : ∀ x rest, P x → Q rest → Q (x :: rest))
    (hF0 : R []) (hF1 : ∀ k v rest, P v → R rest → R ((k, v) :: rest)) :
    (∀ t, P t) ∧ (∀ xs, Q xs) ∧ (∀ fs, R fs) := by
  have key : ∀ t, P t := fun t =>
    JT.rec (motive_1 := P) (motive_2 := Q) (motive_3 := R) (motive_4 := fun p => P p.2)
      hstr hint hbool hnull harr hobj hE0 (fun x rest hx hr => hE1 x rest hx hr)
      hF0 (fun p rest hp hr => hF1 p.1 p.2 rest hp hr) (fun k v hv => hv) t
  refine ⟨key, ?_, ?_⟩
  · intro xs
    induction xs with
    | nil => exact hE0
    | cons x rest ih => exact hE1 x rest (key x) ih
  · intro fs
    induction fs with
    | nil => exact hF0
    | cons p rest ih => exact hF1 p.1 p.2 rest (key p.2) ih

/-! ## what follows an element / a member -/

def etail : List JT → List Nat
  | [] => []
  | y :: ys => 44 :: writeElems (y :: ys)

def ftail : List (List Nat × JT) → List Nat
  | [] => []
  | g :: gs => 44 :: writeFields (g :: gs)

theorem writeElems_cons (x : JT) (rest : List JT) : writeElems (x :: rest) = writeT x ++ etail rest := by
  cases rest <;> simp [writeElems, etail]

theorem writeFields_cons (k : List Nat) (v : JT) (rest : List (List Nat × JT)) :
    writeFields ((k, v) :: rest) = writeStr k ++ 58 :: writeT v ++ ftail rest := by
  cases rest <;> simp [writeFields, ftail]

/-! ## fuel measure -/

mutual
def size : JT → Nat
  | .arr xs => 1 + sizeElems xs
  | .obj fs => 1 + sizeFields fs
  | _ => 1
def sizeElems : List JT → Nat
  | [] => 0
  | x :: rest => 1 + size x + sizeElems rest
def sizeFields : List (List Nat × JT) → Nat
  | [] => 0
  | (_, v) :: rest => 1 + size v + sizeFields rest
end

theorem intToDec_ne_nil (i : Int) : intToDec i ≠ [] := by
  unfold intToDec; split
  · simp
  · exact natToDec_ne_nil _

theorem size_le_length :
    (∀ t, size t ≤ (writeT t).length) ∧ (∀ xs, sizeElems xs ≤ (writeElems xs).length + 1) ∧
    (∀ fs, sizeFields fs ≤ (writeFields fs).length + 1) := by
  apply JT_induct
  · intro s; simp [size, writeT, writeStr]
  · intro i; simp only [size, writeT]
    have := intToDec_ne_nil i
    cases h : intToDec i with
    | nil => exact absurd h this
    | cons a l => simp
  · intro b; cases b <;> simp [size, writeT]
  · simp [size, writeT]
  · intro xs h; simp [size, writeT]; omega
  · intro fs h; simp [size, writeT]; omega
  · simp [sizeElems]
  · intro x rest hx hr
    rw [writeElems_cons]
    cases rest with
    | nil => simp [sizeElems, etail]; omega
    | cons y ys => simp [sizeElems, etail] at hr ⊢; omega
  · simp [sizeFields]
  · intro k v rest hv hr
    rw [writeFields_cons]
    cases rest with
    | nil => simp [sizeFields, ftail, writeStr]; omega
    | cons y ys => simp [sizeFields, ftail, writeStr] at hr ⊢; omega

/-! ## first byte of a written value -/

theorem natToDec_cons (n : Nat) : ∃ d l, natToDec n = d :: l ∧ isDigit d = true := by
  cases h : natToDec n with
  | nil => exact absurd h (natToDec_ne_nil _)
  | cons d l => exact ⟨d, l, rfl, natToDec_digits n d (by rw [h]; simp)⟩

theorem writeT_first (t : JT) : ∃ b r, writeT t = b :: r ∧ isWs b = false ∧ b ≠ 93 ∧ b ≠ 125 := by
  cases t with
  | str s => exact ⟨34, _, by simp [writeT, writeStr]; rfl, by decide, by decide, by decide⟩
  | int i =>
    simp only [writeT, intToDec]
    split
    · exact ⟨45, _, rfl, by decide, by decide, by decide⟩
    · obtain ⟨d, l, h, hd⟩ := natToDec_cons i.toNat
      refine ⟨d, l, h, ?_⟩
      simp [isDigit] at hd
      simp [isWs]; omega
  | bool b => cases b <;> simp [writeT, isWs]
  | null => simp [writeT, isWs]
  | arr xs => exact ⟨91, _, by simp [writeT]; rfl, by decide, by decide, by decide⟩
  | obj fs => exact ⟨123, _, by simp [writeT]; rfl, by decide, by decide, by decide⟩

/-! ## numbers -/

theorem numEnd_cases (tl : List Nat) (h : numEnd tl = true) :
    tl = [] ∨ ∃ c r', tl = c :: r' ∧
      (c = 32 ∨ c = 9 ∨ c = 10 ∨ c = 13 ∨ c = 44 ∨ c = 93 ∨ c = 125) := by
  cases tl with
  | nil => exact Or.inl rfl
  | cons c r' =>
    refine Or.inr ⟨c, r', rfl, ?_⟩
    simp [numEnd, isWs] at h
    omega

theorem numEnd_digit (tl : List Nat) (h : numEnd tl = true) :
    tl.takeWhile isDigit = [] ∧ tl.dropWhile isDigit = tl := by
  rcases numEnd_cases tl h with rfl | ⟨c, r', rfl, hc⟩
  · simp
  · have : isDigit c = false := by simp [isDigit]; omega
    simp [this]

theorem loose_tail (ds tl : List Nat) (hne : ds ≠ []) (hd : ∀ x ∈ ds, isDigit x = true)
    (hz : ds.length > 1 → ds.head? ≠ some 48) (htl : numEnd tl = true) (r0 : List Nat) (h0 : r0 = ds ++ tl) :
    (have ip := List.takeWhile isDigit r0;
    have r1 := List.dropWhile isDigit r0;
    if (ip.isEmpty || decide (ip.length > 1) && ip.head? == some 48) = true then none
    else
      have r2? :=
        match r1 with
        | 46 :: r => if (List.takeWhile isDigit r).isEmpty = true then none else some (List.dropWhile isDigit r)
        | _ => some r1;
      match r2? with
      | none => none
      | some r2 =>
        match r2 with
        | c :: r =>
          if (c == 101 || c == 69) = true then
            have r3 :=
              match r with
              | 45 :: r' => r'
              | 43 :: r' => r'
              | _ => r;
            if (List.takeWhile isDigit r3).isEmpty = true then none else some (List.dropWhile isDigit r3)
          else some r2
        | [] => some r2) =
    some tl := by
  subst h0
  obtain ⟨t1, t2⟩ := numEnd_digit tl htl
  have ht : (ds ++ tl).takeWhile isDigit = ds := by
    rw [List.takeWhile_append_of_pos hd, t1]; simp
  have hdr : (ds ++ tl).dropWhile isDigit = tl := by
    rw [List.dropWhile_append_of_pos hd, t2]
  have hz' : (decide (ds.length > 1) && ds.head? == some 48) = false := by
    by_cases h1 : ds.length > 1
    · have := hz h1
      simp [h1, this]
    · simp [h1]
  have hemp : ds.isEmpty = false := by cases ds <;> simp_all
  simp only [ht, hdr, hemp, hz', Bool.or_false, Bool.false_eq_true, ↓reduceIte]
  rcases numEnd_cases tl htl with rfl | ⟨c, r', rfl, hc⟩
  · rfl
  · rcases hc with h | h | h | h | h | h | h <;> subst h <;> rfl

theorem loose_digits (neg : Bool) (ds tl : List Nat) (hne : ds ≠ []) (hd : ∀ x ∈ ds, isDigit x = true)
    (hz : ds.length > 1 → ds.head? ≠ some 48) (htl : numEnd tl = true) :
    numberText.readNumberLoose ((if neg then [45] else []) ++ ds ++ tl) = some tl := by
  unfold numberText.readNumberLoose
  cases neg with
  | true =>
    exact loose_tail ds tl hne hd hz htl _ (by simp)
  | false =>
    refine loose_tail ds tl hne hd hz htl _ ?_
    cases ds with
    | nil => exact absurd rfl hne
    | cons d ds' =>
      have hd45 : d ≠ 45 := by
        have := hd d (by simp)
        simp [isDigit] at this; omega
      simp only [Bool.false_eq_true, ↓reduceIte, List.nil_append, List.cons_append]
      split
      · rename_i heq
        simp at heq; exact absurd heq.1 hd45
      · rfl

theorem take_pre (X tl : List Nat) : (X ++ tl).take ((X ++ tl).length - tl.length) = X := by
  simp

theorem numberText_digits (neg : Bool) (ds tl : List Nat) (hne : ds ≠ []) (hd : ∀ x ∈ ds, isDigit x = true)
    (hz : ds.length > 1 → ds.head? ≠ some 48) (htl : numEnd tl = true) :
    numberText (((if neg then [45] else []) ++ ds) ++ tl) = some ((if neg then [45] else []) ++ ds, tl) := by
  unfold numberText
  rw [loose_digits neg ds tl hne hd hz htl]
  simp only [htl, ↓reduceIte, take_pre]

theorem intToDec_shape (i : Int) : ∃ (neg : Bool) (ds : List Nat), intToDec i = (if neg then [45] else []) ++ ds ∧ ds ≠ [] ∧
    (∀ x ∈ ds, isDigit x = true) ∧ (ds.length > 1 → ds.head? ≠ some 48) := by
  unfold intToDec
  split
  · exact ⟨true, natToDec i.natAbs, rfl, natToDec_ne_nil _, natToDec_digits _, fun _ => natToDec_head _ (by omega)⟩
  · refine ⟨false, natToDec i.toNat, rfl, natToDec_ne_nil _, natToDec_digits _, ?_⟩
    intro hl
    by_cases h0 : i.toNat = 0
    · rw [h0, natToDec_step] at hl; simp at hl
    · exact natToDec_head _ (by omega)

theorem numberText_int (i : Int) (tl : List Nat) (htl : numEnd tl = true) :
    numberText (intToDec i ++ tl) = some (intToDec i, tl) := by
  obtain ⟨neg, ds, e, hne, hd, hz⟩ := intToDec_shape i
  rw [e]
  exact numberText_digits neg ds tl hne hd hz htl

theorem readNumber_digits' (neg : Bool) (ds tl : List Nat) (hne : ds ≠ []) (hd : ∀ x ∈ ds, isDigit x = true)
    (hz : ds.length > 1 → ds.head? ≠ some 48) (htl : numEnd tl = true) :
    ∃ v, readNumber false ((if neg then [45] else []) ++ ds ++ tl) = some (v, tl) := by
  obtain ⟨t1, t2⟩ := numEnd_digit tl htl
  have ht : (ds ++ tl).takeWhile isDigit = ds := by
    rw [List.takeWhile_append_of_pos hd, t1]; simp
  have hdr : (ds ++ tl).dropWhile isDigit = tl := by
    rw [List.dropWhile_append_of_pos hd, t2]
  have hz' : (decide (ds.length > 1) && ds.head? == some 48) = false := by
    by_cases h1 : ds.length > 1
    · have := hz h1
      simp [h1, this]
    · simp [h1]
  have hemp : ds.isEmpty = false := by cases ds <;> simp_all
  cases neg with
  | true =>
    simp only [↓reduceIte, List.cons_append, List.nil_append]
    unfold readNumber
    simp only [ht, hdr, hemp, hz', Bool.or_false, Bool.false_eq_true, ↓reduceIte]
    rcases numEnd_cases tl htl with rfl | ⟨c, r', rfl, hc⟩
    · exact ⟨_, rfl⟩
    · rcases hc with h | h | h | h | h | h | h <;> subst h <;> exact ⟨_, rfl⟩
  | false =>
    simp only [Bool.false_eq_true, ↓reduceIte, List.nil_append]
    cases ds with
    | nil => exact absurd rfl hne
    | cons d ds' =>
      have hd45 : d ≠ 45 := by
        have := hd d (by simp)
        simp [isDigit] at this; omega
      have hm : Json.readNumber.match_1 (fun _ => Bool × List Nat) (d :: (ds' ++ tl))
          (fun r => (true, r)) (fun _ => (false, d :: (ds' ++ tl))) = (false, d :: (ds' ++ tl)) := by
        split
        · rename_i heq
          simp at heq; exact absurd heq.1 hd45
        · rfl
      unfold readNumber
      simp only [List.cons_append] at ht hdr ⊢
      simp only [hm, ht, hdr, hemp, hz', Bool.or_false, Bool.false_eq_true, ↓reduceIte]
      rcases numEnd_cases tl htl with rfl | ⟨c, r', rfl, hc⟩
      · exact ⟨_, rfl⟩
      · rcases hc with h | h | h | h | h | h | h <;> subst h <;> exact ⟨_, rfl⟩

/-! ## the validating reader on canonical text -/

theorem readValue_arr_empty (c : Bool) (f : Nat) (tl : List Nat) :
    ∃ v, readValue c (f + 1) (91 :: 93 :: tl) = some (v, tl) := by
  rw [readValue, skipWs_cons 91 _ (by decide)]
  simp only [skipWs_cons 93 _ (by decide)]
  exact ⟨_, rfl⟩

theorem readValue_obj_empty (c : Bool) (f : Nat) (tl : List Nat) :
    ∃ v, readValue c (f + 1) (123 :: 125 :: tl) = some (v, tl) := by
  rw [readValue, skipWs_cons 123 _ (by decide)]
  simp only [skipWs_cons 125 _ (by decide)]
  exact ⟨_, rfl⟩

theorem readValue_arr (c : Bool) (f b : Nat) (r tl : List Nat) (v : JVal) (hws : isWs b = false) (hb : b ≠ 93)
    (h : readElems c f (b :: r) = some (v, tl)) :
    ∃ v', readValue c (f + 1) (91 :: b :: r) = some (v', tl) := by
  rw [readValue, skipWs_cons 91 _ (by decide)]
  simp only [skipWs_cons b _ hws, h]
  split
  · rename_i heq
    split at heq
    · rename_i h2; simp at h2; exact absurd h2.1 hb
    · simp at heq; subst heq; exact ⟨_, rfl⟩
  · rename_i heq
    split at heq
    · rename_i h2; simp at h2; exact absurd h2.1 hb
    · simp at heq

theorem readValue_obj (c : Bool) (f b : Nat) (r tl : List Nat) (v : JVal) (hws : isWs b = false) (hb : b ≠ 125)
    (h : readMembers c f (b :: r) = some (v, tl)) :
    ∃ v', readValue c (f + 1) (123 :: b :: r) = some (v', tl) := by
  rw [readValue, skipWs_cons 123 _ (by decide)]
  simp only [skipWs_cons b _ hws, h]
  split
  · rename_i heq
    split at heq
    · rename_i h2; simp at h2; exact absurd h2.1 hb
    · simp at heq; subst heq; exact ⟨_, rfl⟩
  · rename_i heq
    split at heq
    · rename_i h2; simp at h2; exact absurd h2.1 hb
    · simp at heq

theorem numEnd_etail (rest : List JT) (tl : List Nat) : numEnd (etail rest ++ 93 :: tl) = true := by
  cases rest <;> simp [etail, numEnd]

theorem numEnd_ftail (rest : List (List Nat × JT)) (tl : List Nat) : numEnd (ftail rest ++ 125 :: tl) = true := by
  cases rest <;> simp [ftail, numEnd]

theorem readStr_written (k tl : List Nat) (hk : asciiOK k = true) :
    readStrBody (((k.map Json.escByte).flatten ++ 34 :: tl).length + 1) ((k.map Json.escByte).flatten ++ 34 :: tl) []
      = some (k, tl) := by
  have := readStrBody_esc k tl [] (((k.map Json.escByte).flatten ++ 34 :: tl).length + 1) hk
    (by have := length_le_esc k; simp only [List.length_append]; omega)
  simpa using this

theorem writeStr_append (k tl : List Nat) : writeStr k ++ tl = 34 :: ((k.map Json.escByte).flatten ++ 34 :: tl) := by
  simp [writeStr]

theorem readValue_str (c : Bool) (f : Nat) (s tl : List Nat) (hs : asciiOK s = true) :
    readValue c (f + 1) (writeStr s ++ tl) = some (.str s, tl) := by
  rw [writeStr_append, readValue, skipWs_cons 34 _ (by decide)]
  show Option.map _ (readStrBody (((s.map Json.escByte).flatten ++ 34 :: tl).length + 1)
      ((s.map Json.escByte).flatten ++ 34 :: tl) []) = _
  rw [readStr_written s tl hs]
  rfl

theorem readValue_int' (f : Nat) (i : Int) (tl : List Nat) (htl : numEnd tl = true) :
    ∃ v, readValue false (f + 1) (intToDec i ++ tl) = some (v, tl) := by
  obtain ⟨neg, ds, e, hne, hd, hz⟩ := intToDec_shape i
  obtain ⟨v, hv⟩ := readNumber_digits' neg ds tl hne hd hz htl
  refine ⟨v, ?_⟩
  rw [e]
  cases neg with
  | true =>
    simp only [↓reduceIte, List.cons_append, List.nil_append] at hv ⊢
    rw [C06Writers.readValue_num false f 45 _ (Or.inl rfl), hv]
  | false =>
    cases ds with
    | nil => exact absurd rfl hne
    | cons d ds' =>
      simp only [Bool.false_eq_true, ↓reduceIte, List.cons_append, List.nil_append] at hv ⊢
      rw [C06Writers.readValue_num false f d _ (Or.inr (hd d (by simp))), hv]

theorem readValue_writeT :
    (∀ t, ∀ f tl, wfT t = true → size t ≤ f → numEnd tl = true →
        ∃ v, readValue false f (writeT t ++ tl) = some (v, tl)) ∧
    (∀ xs, ∀ f tl, xs ≠ [] → wfElems xs = true → sizeElems xs ≤ f →
        ∃ v, readElems false f (writeElems xs ++ 93 :: tl) = some (v, tl)) ∧
    (∀ fs, ∀ f tl, fs ≠ [] → wfFields fs = true → sizeFields fs ≤ f →
        ∃ v, readMembers false f (writeFields fs ++ 125 :: tl) = some (v, tl)) := by
  apply JT_induct
  · intro s f tl hw hf htl
    cases f with
    | zero => simp [size] at hf
    | succ g => exact ⟨_, readValue_str false g s tl (by simpa [wfT] using hw)⟩
  · intro i f tl hw hf htl
    cases f with
    | zero => simp [size] at hf
    | succ g => exact readValue_int' g i tl htl
  · intro b f tl hw hf htl
    cases f with
    | zero => simp [size] at hf
    | succ g =>
      cases b
      · simp only [writeT, List.cons_append, List.nil_append]
        rw [readValue, skipWs_cons 102 _ (by decide)]; exact ⟨_, rfl⟩
      · simp only [writeT, List.cons_append, List.nil_append]
        rw [readValue, skipWs_cons 116 _ (by decide)]; exact ⟨_, rfl⟩
  · intro f tl hw hf htl
    cases f with
    | zero => simp [size] at hf
    | succ g =>
      simp only [writeT, List.cons_append, List.nil_append]
      rw [readValue, skipWs_cons 110 _ (by decide)]; exact ⟨_, rfl⟩
  · intro xs ih f tl hw hf htl
    cases f with
    | zero => simp [size] at hf
    | succ g =>
      cases xs with
      | nil => simpa [writeT, writeElems] using readValue_arr_empty false g tl
      | cons x rest =>
        obtain ⟨v, hv⟩ := ih g tl (by simp) (by simpa [wfT] using hw) (by simp [size] at hf; omega)
        obtain ⟨b, r, hbr, hws, h93, _⟩ := writeT_first x
        have e : writeT (.arr (x :: rest)) ++ tl = 91 :: b :: (r ++ etail rest ++ 93 :: tl) := by
          simp [writeT, writeElems_cons, hbr]
        have e2 : writeElems (x :: rest) ++ 93 :: tl = b :: (r ++ etail rest ++ 93 :: tl) := by
          simp [writeElems_cons, hbr]
        rw [e]
        rw [e2] at hv
        exact readValue_arr false g b _ tl v hws h93 hv
  · intro fs ih f tl hw hf htl
    cases f with
    | zero => simp [size] at hf
    | succ g =>
      cases fs with
      | nil => simpa [writeT, writeFields] using readValue_obj_empty false g tl
      | cons p rest =>
        obtain ⟨k, x⟩ := p
        obtain ⟨v, hv⟩ := ih g tl (by simp) (by simpa [wfT] using hw) (by simp [size] at hf; omega)
        have e : writeT (.obj ((k, x) :: rest)) ++ tl
            = 123 :: 34 :: ((k.map Json.escByte).flatten ++ 34 :: 58 :: (writeT x ++ ftail rest ++ 125 :: tl)) := by
          simp [writeT, writeFields_cons, writeStr]
        have e2 : writeFields ((k, x) :: rest) ++ 125 :: tl
            = 34 :: ((k.map Json.escByte).flatten ++ 34 :: 58 :: (writeT x ++ ftail rest ++ 125 :: tl)) := by
          simp [writeFields_cons, writeStr]
        rw [e]
        rw [e2] at hv
        exact readValue_obj false g 34 _ tl v (by decide) (by decide) hv
  · intro f tl h; exact absurd rfl h
  · intro x rest hx hr f tl _ hw hf
    cases f with
    | zero => simp [sizeElems] at hf
    | succ g =>
      simp only [wfElems, Bool.and_eq_true] at hw
      simp only [sizeElems] at hf
      obtain ⟨v, hv⟩ := hx g (etail rest ++ 93 :: tl) hw.1 (by omega) (numEnd_etail rest tl)
      rw [writeElems_cons, List.append_assoc, readElems, hv]
      cases rest with
      | nil =>
        simp only [etail, List.nil_append, skipWs_cons 93 _ (by decide)]
        exact ⟨_, rfl⟩
      | cons y ys =>
        simp only [etail, List.cons_append, skipWs_cons 44 _ (by decide)]
        exact hr g tl (by simp) hw.2 (by omega)
  · intro f tl h; exact absurd rfl h
  · intro k x rest hx hr f tl _ hw hf
    cases f with
    | zero => simp [sizeFields] at hf
    | succ g =>
      simp only [wfFields, Bool.and_eq_true] at hw
      simp only [sizeFields] at hf
      obtain ⟨v, hv⟩ := hx g (ftail rest ++ 125 :: tl) hw.1.2 (by omega) (numEnd_ftail rest tl)
      have e : writeFields ((k, x) :: rest) ++ 125 :: tl
          = 34 :: ((k.map Json.escByte).flatten ++ 34 :: 58 :: (writeT x ++ (ftail rest ++ 125 :: tl))) := by
        simp [writeFields_cons, writeStr]
      rw [e, readMembers, skipWs_cons 34 _ (by decide)]
      simp only [readStr_written k _ hw.1.1, skipWs_cons 58 _ (by decide), hv]
      cases rest with
      | nil =>
        simp only [ftail, List.nil_append, skipWs_cons 125 _ (by decide)]
        exact ⟨_, rfl⟩
      | cons y ys =>
        simp only [ftail, List.cons_append, skipWs_cons 44 _ (by decide)]
        exact hr g tl (by simp) hw.2 (by omega)

/-! ## the extractor, one step at a time -/

theorem walk_str (paths : List (List Nat × Path)) (f : Nat) (cur : Path) (s tl : List Nat) (hs : asciiOK s = true) :
    walk paths (f + 1) cur (writeStr s ++ tl) = ((hits paths cur).map (fun l => (l, s)), some tl) := by
  rw [writeStr_append, walk, skipWs_cons 34 _ (by decide)]
  simp only [readStr_written s tl hs]

theorem ofString_true : ofString "true" = [116, 114, 117, 101] := by decide +kernel
theorem ofString_false : ofString "false" = [102, 97, 108, 115, 101] := by decide +kernel

theorem walk_true (paths : List (List Nat × Path)) (f : Nat) (cur : Path) (tl : List Nat) :
    walk paths (f + 1) cur (116 :: 114 :: 117 :: 101 :: tl)
      = ((hits paths cur).map (fun l => (l, [116, 114, 117, 101])), some tl) := by
  rw [walk, skipWs_cons 116 _ (by decide)]
  simp only [ofString_true]

theorem walk_false (paths : List (List Nat × Path)) (f : Nat) (cur : Path) (tl : List Nat) :
    walk paths (f + 1) cur (102 :: 97 :: 108 :: 115 :: 101 :: tl)
      = ((hits paths cur).map (fun l => (l, [102, 97, 108, 115, 101])), some tl) := by
  rw [walk, skipWs_cons 102 _ (by decide)]
  simp only [ofString_false]

theorem walk_null (paths : List (List Nat × Path)) (f : Nat) (cur : Path) (tl : List Nat) :
    walk paths (f + 1) cur (110 :: 117 :: 108 :: 108 :: tl)
      = ((hits paths cur).map (fun l => (l, [])), some tl) := by
  rw [walk, skipWs_cons 110 _ (by decide)]
  rfl

theorem walk_num (paths : List (List Nat × Path)) (f b : Nat) (cur : Path) (r : List Nat)
    (h : b = 45 ∨ isDigit b = true) :
    walk paths (f + 1) cur (b :: r) =
      match numberText (b :: r) with
      | some (txt, rest) => ((hits paths cur).map (fun l => (l, txt)), some rest)
      | none => ([], none) := by
  have hb : 45 ≤ b ∧ b ≤ 57 := by
    rcases h with h | h
    · omega
    · simp [isDigit] at h; omega
  have hws : isWs b = false := by simp [isWs]; omega
  rw [walk, skipWs_cons b r hws]
  split
  all_goals first
    | (rename_i heq; simp at heq; done)
    | (rename_i heq; simp at heq; omega)
    | skip
  · rename_i b' r' _ _ _ _ _ _ heq
    simp at heq
    obtain ⟨rfl, rfl⟩ := heq
    have : (b == 45 || isDigit b) = true := by
      rcases h with h | h <;> simp [h]
    simp only [this, ↓reduceIte]
    rfl

theorem walk_int (paths : List (List Nat × Path)) (f : Nat) (cur : Path) (i : Int) (tl : List Nat)
    (htl : numEnd tl = true) :
    walk paths (f + 1) cur (intToDec i ++ tl) = ((hits paths cur).map (fun l => (l, intToDec i)), some tl) := by
  have hn := numberText_int i tl htl
  obtain ⟨neg, ds, e, hne, hd, hz⟩ := intToDec_shape i
  rw [e] at hn ⊢
  cases neg with
  | true =>
    simp only [↓reduceIte, List.cons_append, List.nil_append] at hn ⊢
    rw [walk_num paths f 45 cur _ (Or.inl rfl), hn]
  | false =>
    cases ds with
    | nil => exact absurd rfl hne
    | cons d ds' =>
      simp only [Bool.false_eq_true, ↓reduceIte, List.cons_append, List.nil_append] at hn ⊢
      rw [walk_num paths f d cur _ (Or.inr (hd d (by simp))), hn]

/-- what a container's own hits emit: its text, provided the validating reader accepts it -/
theorem walk_arr (paths : List (List Nat × Path)) (f : Nat) (cur : Path) (X tl : List Nat)
    (hX : ∃ v, readValue false ((91 :: X ++ tl).length + 1) (91 :: X ++ tl) = some (v, tl)) :
    walk paths (f + 1) cur (91 :: X ++ tl) =
      match skipWs (X ++ tl) with
      | 93 :: r2 => ((hits paths cur).map (fun l => (l, 91 :: X)), some r2)
      | _ => ((hits paths cur).map (fun l => (l, 91 :: X)) ++ (walkArr paths f cur 0 (X ++ tl)).1,
              (walkArr paths f cur 0 (X ++ tl)).2) := by
  obtain ⟨v, hv⟩ := hX
  rw [List.cons_append, walk, skipWs_cons 91 _ (by decide)]
  rw [List.cons_append] at hv
  simp only [hv]
  by_cases hh : hits paths cur = []
  · simp only [hh, List.isEmpty_nil, ↓reduceIte, List.map_nil]
    rfl
  · have he : (hits paths cur).isEmpty = false := by cases h : hits paths cur <;> simp_all
    have ht : List.take ((91 :: (X ++ tl)).length - tl.length) (91 :: (X ++ tl)) = 91 :: X := by
      have := take_pre (91 :: X) tl
      simpa using this
    simp only [he, Bool.false_eq_true, ↓reduceIte, Option.map_some, ht]
    rfl

theorem walk_obj (paths : List (List Nat × Path)) (f : Nat) (cur : Path) (X tl : List Nat)
    (hX : ∃ v, readValue false ((123 :: X ++ tl).length + 1) (123 :: X ++ tl) = some (v, tl)) :
    walk paths (f + 1) cur (123 :: X ++ tl) =
      match skipWs (X ++ tl) with
      | 125 :: r2 => ((hits paths cur).map (fun l => (l, 123 :: X)), some r2)
      | _ => ((hits paths cur).map (fun l => (l, 123 :: X)) ++ (walkObj paths f cur (X ++ tl)).1,
              (walkObj paths f cur (X ++ tl)).2) := by
  obtain ⟨v, hv⟩ := hX
  rw [List.cons_append, walk, skipWs_cons 123 _ (by decide)]
  rw [List.cons_append] at hv
  simp only [hv]
  by_cases hh : hits paths cur = []
  · simp only [hh, List.isEmpty_nil, ↓reduceIte, List.map_nil]
    rfl
  · have he : (hits paths cur).isEmpty = false := by cases h : hits paths cur <;> simp_all
    have ht : List.take ((123 :: (X ++ tl)).length - tl.length) (123 :: (X ++ tl)) = 123 :: X := by
      have := take_pre (123 :: X) tl
      simpa using this
    simp only [he, Bool.false_eq_true, ↓reduceIte, Option.map_some, ht]
    rfl


/-! ## main lemma -/

theorem writeElems_first (x : JT) (rest : List JT) (tl : List Nat) :
    ∃ b r, writeElems (x :: rest) ++ 93 :: tl = b :: r ∧ isWs b = false ∧ b ≠ 93 := by
  obtain ⟨b, r, hbr, hws, h93, _⟩ := writeT_first x
  exact ⟨b, r ++ etail rest ++ 93 :: tl, by simp [writeElems_cons, hbr], hws, h93⟩

theorem writeFields_first (p : List Nat × JT) (rest : List (List Nat × JT)) (tl : List Nat) :
    ∃ r, writeFields (p :: rest) ++ 125 :: tl = 34 :: r := by
  obtain ⟨k, v⟩ := p
  exact ⟨_, by simp [writeFields_cons, writeStr]; rfl⟩

theorem walk_writeT (paths : List (List Nat × Path)) :
    (∀ t, ∀ f cur tl, wfT t = true → size t ≤ f → numEnd tl = true →
        walk paths f cur (writeT t ++ tl) = (denote paths cur t, some tl)) ∧
    (∀ xs, ∀ f cur n tl, xs ≠ [] → wfElems xs = true → sizeElems xs ≤ f →
        walkArr paths f cur n (writeElems xs ++ 93 :: tl) = (denoteElems paths cur n xs, some tl)) ∧
    (∀ fs, ∀ f cur tl, fs ≠ [] → wfFields fs = true → sizeFields fs ≤ f →
        walkObj paths f cur (writeFields fs ++ 125 :: tl) = (denoteFields paths cur fs, some tl)) := by
  apply JT_induct
  · intro s f cur tl hw hf htl
    cases f with
    | zero => simp [size] at hf
    | succ g => simpa [writeT, denote] using walk_str paths g cur s tl (by simpa [wfT] using hw)
  · intro i f cur tl hw hf htl
    cases f with
    | zero => simp [size] at hf
    | succ g => simpa [writeT, denote] using walk_int paths g cur i tl htl
  · intro b f cur tl hw hf htl
    cases f with
    | zero => simp [size] at hf
    | succ g =>
      cases b
      · simpa [writeT, denote] using walk_false paths g cur tl
      · simpa [writeT, denote] using walk_true paths g cur tl
  · intro f cur tl hw hf htl
    cases f with
    | zero => simp [size] at hf
    | succ g => simpa [writeT, denote] using walk_null paths g cur tl
  · intro xs ih f cur tl hw hf htl
    cases f with
    | zero => simp [size] at hf
    | succ g =>
      have e : writeT (.arr xs) ++ tl = 91 :: (writeElems xs ++ [93]) ++ tl := by simp [writeT]
      have hX := readValue_writeT.1 (.arr xs) ((writeT (.arr xs) ++ tl).length + 1) tl hw
        (by have := size_le_length.1 (.arr xs); simp only [List.length_append]; omega) htl
      rw [e] at hX ⊢
      rw [walk_arr paths g cur _ tl hX]
      have eY : writeElems xs ++ [93] ++ tl = writeElems xs ++ 93 :: tl := by simp
      rw [eY]
      cases xs with
      | nil =>
        simp only [writeElems, List.nil_append, skipWs_cons 93 _ (by decide), denote, denoteElems,
          List.append_nil]
        rfl
      | cons x rest =>
        rw [ih g cur 0 tl (by simp) (by simpa [wfT] using hw) (by simp [size] at hf; omega)]
        obtain ⟨b, r, hb, hws, h93⟩ := writeElems_first x rest tl
        rw [hb, skipWs_cons b _ hws]
        split
        · rename_i heq; simp at heq; exact absurd heq.1 h93
        · simp only [denote, List.cons_append]
  · intro fs ih f cur tl hw hf htl
    cases f with
    | zero => simp [size] at hf
    | succ g =>
      have e : writeT (.obj fs) ++ tl = 123 :: (writeFields fs ++ [125]) ++ tl := by simp [writeT]
      have hX := readValue_writeT.1 (.obj fs) ((writeT (.obj fs) ++ tl).length + 1) tl hw
        (by have := size_le_length.1 (.obj fs); simp only [List.length_append]; omega) htl
      rw [e] at hX ⊢
      rw [walk_obj paths g cur _ tl hX]
      have eY : writeFields fs ++ [125] ++ tl = writeFields fs ++ 125 :: tl := by simp
      rw [eY]
      cases fs with
      | nil =>
        simp only [writeFields, List.nil_append, skipWs_cons 125 _ (by decide), denote, denoteFields,
          List.append_nil]
        rfl
      | cons p rest =>
        rw [ih g cur tl (by simp) (by simpa [wfT] using hw) (by simp [size] at hf; omega)]
        obtain ⟨r, hb⟩ := writeFields_first p rest tl
        rw [hb, skipWs_cons 34 _ (by decide)]
        simp only [denote, List.cons_append]
  · intro f cur n tl h; exact absurd rfl h
  · intro x rest hx hr f cur n tl _ hw hf
    cases f with
    | zero => simp [sizeElems] at hf
    | succ g =>
      simp only [wfElems, Bool.and_eq_true] at hw
      simp only [sizeElems] at hf
      have hv := hx g (cur ++ [.idx n]) (etail rest ++ 93 :: tl) hw.1 (by omega) (numEnd_etail rest tl)
      rw [writeElems_cons, List.append_assoc, walkArr, hv]
      cases rest with
      | nil =>
        simp only [etail, List.nil_append, skipWs_cons 93 _ (by decide), denoteElems, List.append_nil]
      | cons y ys =>
        simp only [etail, List.cons_append, skipWs_cons 44 _ (by decide)]
        rw [hr g cur (n + 1) tl (by simp) hw.2 (by omega)]
        simp only [denoteElems]
  · intro f cur tl h; exact absurd rfl h
  · intro k x rest hx hr f cur tl _ hw hf
    cases f with
    | zero => simp [sizeFields] at hf
    | succ g =>
      simp only [wfFields, Bool.and_eq_true] at hw
      simp only [sizeFields] at hf
      have hv := hx g (cur ++ [.key k]) (ftail rest ++ 125 :: tl) hw.1.2 (by omega) (numEnd_ftail rest tl)
      have e : writeFields ((k, x) :: rest) ++ 125 :: tl
          = 34 :: ((k.map Json.escByte).flatten ++ 34 :: 58 :: (writeT x ++ (ftail rest ++ 125 :: tl))) := by
        simp [writeFields_cons, writeStr]
      rw [e, walkObj, skipWs_cons 34 _ (by decide)]
      simp only [readStr_written k _ hw.1.1, skipWs_cons 58 _ (by decide), hv]
      cases rest with
      | nil =>
        simp only [ftail, List.nil_append, skipWs_cons 125 _ (by decide), denoteFields, List.append_nil]
      | cons y ys =>
        simp only [ftail, List.cons_append, skipWs_cons 44 _ (by decide)]
        rw [hr g cur tl (by simp) hw.2 (by omega)]
        simp only [denoteFields]

/-- `walk` on the text of a well-formed tree followed by anything a number may be followed by -/
theorem walk_writeT_tl (paths : List (List Nat × Path)) (t : JT) (f : Nat) (cur : Path) (tl : List Nat)
    (h : wfT t = true) (hf : size t ≤ f) (htl : numEnd tl = true) :
    walk paths f cur (writeT t ++ tl) = (denote paths cur t, some tl) :=
  (walk_writeT paths).1 t f cur tl h hf htl

/-! ## main theorem -/

/-- the extractor computes, on the canonical text of a well-formed tree, exactly what the requested
paths denote on the tree, without error -/
theorem extract_writeT (paths : List (List Nat × Path)) (t : JT) (h : wfT t = true) :
    extract paths (writeT t) = (denote paths [] t, false) := by
  unfold extract
  have := walk_writeT_tl paths t ((writeT t).length + 2) [] [] h
    (by have := size_le_length.1 t; omega) rfl
  rw [List.append_nil] at this
  simp only [this, Option.isNone_some]

/-- nested tree with hits on a scalar (`a.b[1]`), on containers (`a`, `a.b`), a duplicate key (`a`
twice), an empty key, nested empty containers, a negative integer and an escaped string -/
example :
    let t : JT := .obj [([97], .obj [([98], .arr [.int (-12), .str [120, 34, 10], .arr [], .obj []])]),
                        ([], .null), ([97], .bool true)]
    let paths : List (List Nat × Path) :=
      [([1], [.key [97], .key [98], .idx 1]), ([2], [.key [97]]), ([3], [.key [97], .key [98]]), ([4], [.key []])]
    extract paths (writeT t) = (denote paths [] t, false) :=
  extract_writeT _ _ (by decide)

end JsonTreeL
