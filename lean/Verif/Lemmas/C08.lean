import Verif.Model.LogEval
namespace LogQL.C08
open LogQL

/-- label sets are association lists with distinct keys -/
def WF (ls : Labels) : Prop := (ls.map Prod.fst).Nodup
def SortedTs (xs : List (Int × Bytes)) : Prop := xs.Pairwise (fun a b => a.1 ≤ b.1)

/-! ## A. well-formedness -/

theorem wf_nil : WF [] := by simp [WF]

theorem filter_wf {ls : Labels} (h : WF ls) (p : Bytes × Bytes → Bool) : WF (ls.filter p) :=
  List.Nodup.sublist ((List.filter_sublist (l := ls)).map Prod.fst) h

theorem erase_wf {ls : Labels} (h : WF ls) (k : Bytes) : WF (Labels.erase ls k) := filter_wf h _

theorem not_mem_erase (ls : Labels) (k : Bytes) : k ∉ (Labels.erase ls k).map Prod.fst := by
  intro hm
  simp only [Labels.erase, List.mem_map, List.mem_filter] at hm
  obtain ⟨p, ⟨_, hp⟩, rfl⟩ := hm
  simp at hp

theorem set_wf {ls : Labels} (h : WF ls) (k v : Bytes) : WF (Labels.set ls k v) := by
  unfold Labels.set WF
  simp only [List.map_cons, List.nodup_cons]
  exact ⟨not_mem_erase ls k, erase_wf h k⟩

theorem setAll_wf {ls : Labels} (h : WF ls) (kvs : List (Bytes × Bytes)) : WF (setAll ls kvs) := by
  unfold setAll
  induction kvs generalizing ls with
  | nil => exact h
  | cons kv kvs ih => exact ih (set_wf h _ _)

theorem setError_wf {ls : Labels} (h : WF ls) (typ : String) : WF (setError ls typ) := by
  unfold setError
  split
  · exact h
  · exact set_wf (set_wf h _ _) _ _

theorem recLabels_wf (r : Rec) : WF (recLabels r) := by
  unfold recLabels
  apply setAll_wf
  split <;> simp [WF]

theorem cmpFilter_wf {α} (parse : Bytes → Option α) (errTyp : String) (test : α → Bool) (label : Bytes)
    {ls : Labels} (h : WF ls) : WF (cmpFilter parse errTyp test label ls).2 := by
  unfold cmpFilter
  split
  · exact h
  · split
    · exact setError_wf h _
    · exact h

theorem predEval_wf (env : Env) (p : Pred) {ls : Labels} (h : WF ls) : WF (p.eval env ls).2 := by
  induction p generalizing ls with
  | and p q ihp ihq =>
    unfold Pred.eval
    have := ihp h
    split
    · rename_i heq; rw [heq] at this; exact this
    · rename_i heq; rw [heq] at this; exact ihq this
  | or p q ihp ihq =>
    unfold Pred.eval
    have := ihp h
    split
    · rename_i heq; rw [heq] at this; exact this
    · rename_i heq; rw [heq] at this; exact ihq this
  | paren p ih => unfold Pred.eval; exact ih h
  | str m => unfold Pred.eval; exact h
  | num => unfold Pred.eval; exact cmpFilter_wf _ _ _ _ h
  | dur => unfold Pred.eval; exact cmpFilter_wf _ _ _ _ h
  | bytes => unfold Pred.eval; exact cmpFilter_wf _ _ _ _ h
  | ip => unfold Pred.eval; exact cmpFilter_wf _ _ _ _ h

theorem unpackGo_wf (kvs : List (Bytes × Json.JVal)) {ls : Labels} (h : WF ls) (line : Bytes) :
    WF (Stage.apply.go kvs ls line).1 := by
  induction kvs generalizing ls line with
  | nil => unfold Stage.apply.go; exact h
  | cons kv rest ih =>
    obtain ⟨k, v⟩ := kv
    unfold Stage.apply.go
    split
    · split
      · exact ih h _
      · split
        · exact ih (set_wf h _ _) _
        · exact h
    · exact ih h _

theorem foldl_wf {β} (f : Labels → β → Labels) (hf : ∀ ls b, WF ls → WF (f ls b)) (bs : List β)
    {ls : Labels} (h : WF ls) : WF (bs.foldl f ls) := by
  induction bs generalizing ls with
  | nil => exact h
  | cons b bs ih => exact ih (hf _ _ h)

theorem ite_some_eq {α} {c : Prop} [Decidable c] {a a' : α} (h : (if c then some a else none) = some a') : a = a' := by
  split at h <;> simp at h; exact h

theorem apply_wf (env : Env) (ts : Int) (s : Stage) (seen : Seen) (a a' : Acc) (h : WF a.labels)
    (hk : (s.apply env ts seen a).1 = some a') : WF a'.labels := by
  cases s with
  | lineFilter op v re =>
    simp only [Stage.apply] at hk
    have := ite_some_eq hk
    subst this; exact h
  | lineFilterIP neg pat =>
    simp only [Stage.apply] at hk
    split at hk <;> simp at hk
    subst hk; exact h
  | labelFilter p =>
    simp only [Stage.apply] at hk
    split at hk <;> simp at hk
    subst hk; exact predEval_wf env p h
  | json labels exprs =>
    simp only [Stage.apply] at hk
    split at hk
    · simp at hk; subst hk
      show WF (if _ then _ else _)
      split
      · exact setError_wf (setAll_wf h _) _
      · exact setAll_wf h _
    · split at hk
      · simp at hk; subst hk
        show WF (if _ then _ else _)
        split
        · exact setError_wf (setAll_wf h _) _
        · exact setAll_wf h _
      · simp at hk; subst hk
        show WF (if _ then _ else _)
        split
        · exact setError_wf (setAll_wf h _) _
        · exact setAll_wf h _
  | logfmt labels exprs =>
    simp only [Stage.apply] at hk
    simp at hk; subst hk
    show WF (if _ then _ else _)
    split
    · exact setError_wf (setAll_wf h _) _
    · exact setAll_wf h _
  | regexp re groups mapping =>
    simp only [Stage.apply] at hk
    split at hk
    · simp at hk; subst hk; exact h
    · simp at hk; subst hk; exact setAll_wf h _
  | pattern parts =>
    simp only [Stage.apply] at hk
    simp at hk; subst hk; exact setAll_wf h _
  | unpack =>
    simp only [Stage.apply] at hk
    split at hk
    · simp at hk; subst hk; exact setError_wf (unpackGo_wf _ h _) _
    · simp at hk; subst hk; exact unpackGo_wf _ h _
  | lineFormat t =>
    simp only [Stage.apply] at hk
    split at hk
    · simp at hk; subst hk; exact h
    · simp at hk; subst hk; exact setError_wf h _
  | labelFormat renames tpls =>
    simp only [Stage.apply] at hk
    simp at hk; subst hk
    apply foldl_wf
    · intro ls b hls
      split
      · exact set_wf hls _ _
      · exact setError_wf hls _
    · apply foldl_wf
      · intro ls b hls
        split
        · exact erase_wf (set_wf hls _ _) _
        · exact hls
      · exact h
  | drop names ms =>
    simp only [Stage.apply] at hk
    simp at hk; subst hk; exact filter_wf h _
  | keep names ms =>
    simp only [Stage.apply] at hk
    simp at hk; subst hk; exact filter_wf h _
  | decolorize =>
    simp only [Stage.apply] at hk
    simp at hk; subst hk; exact h
  | distinct labels =>
    simp only [Stage.apply] at hk
    split at hk <;> simp at hk
    subst hk; exact h

theorem runStages_wf (env : Env) (ts : Int) (stages : List Stage) (seens : List Seen) (a a' : Acc)
    (h : WF a.labels) (hk : (runStages env ts stages seens a).1 = some a') : WF a'.labels := by
  induction stages generalizing seens a with
  | nil => simp [runStages] at hk; subst hk; exact h
  | cons s ss ih =>
    unfold runStages at hk
    simp only at hk
    split at hk
    · simp at hk
    · rename_i a1 seen' heq
      have h1 : WF a1.labels := apply_wf env ts s _ a a1 h (by rw [heq])
      exact ih _ _ h1 hk

theorem iterate_wf (env : Env) (pre : List StrMatcher) (stages : List Stage) (limit : Int) (recs : List Rec)
    (seens : List Seen) (count : Nat) : ∀ e ∈ iterate env pre stages limit recs seens count, WF e.labels := by
  induction recs generalizing seens count with
  | nil => simp [iterate]
  | cons r rs ih =>
    unfold iterate
    split
    · simp
    · simp only
      split
      · exact ih _ _
      · split
        · exact ih _ _
        · rename_i a seens' heq
          intro e he
          simp only [List.mem_cons] at he
          rcases he with rfl | he
          · exact runStages_wf env r.ts stages seens ⟨r.body, recLabels r⟩ a (recLabels_wf r) (by rw [heq])
          · exact ih _ _ e he

/-! ### `sameLabels` is an equivalence on well-formed label sets -/

theorem lookup_of_mem_wf {ls : Labels} (h : WF ls) {k v : Bytes} (hm : (k, v) ∈ ls) : ls.lookup k = some v := by
  induction ls with
  | nil => simp at hm
  | cons p ls ih =>
    obtain ⟨k', v'⟩ := p
    simp only [WF, List.map_cons, List.nodup_cons] at h
    simp only [List.mem_cons, Prod.mk.injEq] at hm
    rcases hm with ⟨rfl, rfl⟩ | hm
    · simp [List.lookup]
    · have hne : k ≠ k' := by
        rintro rfl
        exact h.1 (List.mem_map.mpr ⟨(k, v), hm, rfl⟩)
      have : (k == k') = false := by simpa using hne
      simp only [List.lookup, this]
      exact ih h.2 hm

theorem mem_of_lookup {ls : Labels} {k v : Bytes} (h : ls.lookup k = some v) : (k, v) ∈ ls := by
  induction ls with
  | nil => simp at h
  | cons p ls ih =>
    obtain ⟨k', v'⟩ := p
    simp only [List.lookup] at h
    split at h
    · rename_i heq
      have : k = k' := by simpa using heq
      simp at h; subst h; subst this; simp
    · exact List.mem_cons_of_mem _ (ih h)

/-- one half of `sameLabels`: every binding of `a` is the binding of `b` -/
def subLabels (a b : Labels) : Bool := a.all (fun kv => b.lookup kv.1 == some kv.2)

theorem sameLabels_eq (a b : Labels) : sameLabels a b = (subLabels a b && subLabels b a) := rfl

theorem subLabels_iff (a b : Labels) : subLabels a b = true ↔ ∀ k v, (k, v) ∈ a → b.lookup k = some v := by
  simp only [subLabels, List.all_eq_true, beq_iff_eq]
  constructor
  · intro h k v hm; exact h (k, v) hm
  · intro h kv hm; exact h kv.1 kv.2 hm

theorem subLabels_refl {a : Labels} (h : WF a) : subLabels a a = true :=
  (subLabels_iff a a).mpr fun _ _ hm => lookup_of_mem_wf h hm

theorem subLabels_trans {a b c : Labels} (hab : subLabels a b = true) (hbc : subLabels b c = true) :
    subLabels a c = true := by
  rw [subLabels_iff] at *
  intro k v hm
  exact hbc k v (mem_of_lookup (hab k v hm))

theorem sameLabels_refl {a : Labels} (h : WF a) : sameLabels a a = true := by
  rw [sameLabels_eq, subLabels_refl h]; rfl

theorem sameLabels_symm (a b : Labels) : sameLabels a b = sameLabels b a := by
  rw [sameLabels_eq, sameLabels_eq, Bool.and_comm]

theorem sameLabels_trans {a b c : Labels} (hab : sameLabels a b = true) (hbc : sameLabels b c = true) :
    sameLabels a c = true := by
  rw [sameLabels_eq, Bool.and_eq_true] at *
  exact ⟨subLabels_trans hab.1 hbc.1, subLabels_trans hbc.2 hab.2⟩

/-- `sameLabels_refl` needs `WF`: a label list with a shadowed duplicate key is not even related to itself -/
example : sameLabels [([1], [2]), ([1], [3])] [([1], [2]), ([1], [3])] = false := by decide

/-! ## B. streams partition the result -/

/-! ### sorting -/

theorem insertByTs_perm (x : Int × Bytes) (ys : List (Int × Bytes)) : (insertByTs x ys).Perm (x :: ys) := by
  induction ys with
  | nil => exact List.Perm.refl _
  | cons y ys ih =>
    unfold insertByTs
    split
    · exact List.Perm.refl _
    · exact ((List.Perm.cons y ih).trans (List.Perm.swap x y ys))

theorem insertByTs_sorted (x : Int × Bytes) (ys : List (Int × Bytes)) (h : SortedTs ys) : SortedTs (insertByTs x ys) := by
  induction ys with
  | nil => simp [insertByTs, SortedTs]
  | cons y ys ih =>
    unfold SortedTs at h ih ⊢
    rw [List.pairwise_cons] at h
    unfold insertByTs
    split
    · rename_i hlt
      rw [List.pairwise_cons, List.pairwise_cons]
      refine ⟨?_, h⟩
      intro b hb
      rcases List.mem_cons.mp hb with rfl | hb
      · omega
      · have := h.1 b hb; omega
    · rename_i hlt
      rw [List.pairwise_cons]
      refine ⟨?_, ih h.2⟩
      intro b hb
      rcases List.mem_cons.mp ((insertByTs_perm x ys).mem_iff.mp hb) with rfl | hb
      · omega
      · exact h.1 b hb

theorem foldInsert_perm (xs acc : List (Int × Bytes)) :
    (xs.foldl (fun acc x => insertByTs x acc) acc).Perm (acc ++ xs) := by
  induction xs generalizing acc with
  | nil => simp
  | cons x xs ih =>
    simp only [List.foldl_cons]
    refine (ih _).trans ?_
    exact (List.Perm.append_right xs (insertByTs_perm x acc)).trans List.perm_middle.symm

theorem foldInsert_sorted (xs acc : List (Int × Bytes)) (h : SortedTs acc) :
    SortedTs (xs.foldl (fun acc x => insertByTs x acc) acc) := by
  induction xs generalizing acc with
  | nil => exact h
  | cons x xs ih => exact ih _ (insertByTs_sorted x acc h)

theorem sortByTs_perm (xs : List (Int × Bytes)) : (sortByTs xs).Perm xs := by
  have := foldInsert_perm xs []
  simpa [sortByTs] using this

theorem sortByTs_sorted (xs : List (Int × Bytes)) : SortedTs (sortByTs xs) :=
  foldInsert_sorted xs [] (by simp [SortedTs])

/-! ### the fold of `insertEntry` -/

/-- the streams under construction -/
def build (es : List Entry) (g : List Stream) : List Stream := es.foldl (fun acc e => insertEntry e acc) g

theorem group_eq (es : List Entry) :
    group es = (build es []).map fun s => { s with entries := sortByTs s.entries } := rfl

/-- `insertEntry` either appends to the first stream with the same labels, or opens a new stream at the end -/
theorem insertEntry_spec (e : Entry) (g : List Stream) :
    (∃ l s r, g = l ++ s :: r ∧ (∀ t ∈ l, sameLabels t.labels e.labels = false) ∧
        sameLabels s.labels e.labels = true ∧
        insertEntry e g = l ++ ⟨s.labels, s.entries ++ [(e.ts, e.line)]⟩ :: r) ∨
    ((∀ t ∈ g, sameLabels t.labels e.labels = false) ∧ insertEntry e g = g ++ [⟨e.labels, [(e.ts, e.line)]⟩]) := by
  induction g with
  | nil => right; simp [insertEntry]
  | cons s g ih =>
    unfold insertEntry
    split
    · rename_i hs
      left; exact ⟨[], s, g, rfl, by simp, hs, rfl⟩
    · rename_i hs
      have hs : sameLabels s.labels e.labels = false := by simpa using hs
      rcases ih with ⟨l, s1, r, hg, hl, hs1, hins⟩ | ⟨hall, hins⟩
      · left
        refine ⟨s :: l, s1, r, by rw [hg]; rfl, ?_, hs1, by rw [hins]; rfl⟩
        intro t ht
        rcases List.mem_cons.mp ht with rfl | ht
        · exact hs
        · exact hl t ht
      · right
        refine ⟨?_, by rw [hins]; rfl⟩
        intro t ht
        rcases List.mem_cons.mp ht with rfl | ht
        · exact hs
        · exact hall t ht

def Distinct (g : List Stream) : Prop := g.Pairwise (fun s t => sameLabels s.labels t.labels = false)

theorem distinct_iff (g : List Stream) :
    Distinct g ↔ (g.map (·.labels)).Pairwise (fun a b => sameLabels a b = false) := by
  unfold Distinct; rw [List.pairwise_map]

theorem distinct_step (e : Entry) (g : List Stream) (h : Distinct g) : Distinct (insertEntry e g) := by
  rcases insertEntry_spec e g with ⟨l, s, r, hg, _, _, hins⟩ | ⟨hall, hins⟩
  · rw [distinct_iff] at h ⊢
    rw [hins]; rw [hg] at h
    simpa using h
  · rw [hins]
    unfold Distinct at h ⊢
    rw [List.pairwise_append]
    refine ⟨h, by simp, ?_⟩
    intro a ha b hb
    simp only [List.mem_singleton] at hb
    subst hb
    exact hall a ha

theorem build_distinct (es : List Entry) (g : List Stream) (h : Distinct g) : Distinct (build es g) := by
  induction es generalizing g with
  | nil => exact h
  | cons e es ih => exact ih _ (distinct_step e g h)

/-- invariant of the fold: each stream holds exactly the entries seen so far that carry its labels (in arrival
order), and every entry seen so far has a stream -/
structure Inv (seen : List Entry) (g : List Stream) : Prop where
  content : ∀ s ∈ g, s.entries = (seen.filter (fun e => sameLabels s.labels e.labels)).map (fun e => (e.ts, e.line))
  cover : ∀ e ∈ seen, ∃ s ∈ g, sameLabels s.labels e.labels = true

theorem inv_step (seen : List Entry) (g : List Stream) (e : Entry) (hwf : WF e.labels) (hd : Distinct g)
    (h : Inv seen g) : Inv (seen ++ [e]) (insertEntry e g) := by
  rcases insertEntry_spec e g with ⟨l, s, r, hg, hl, hs, hins⟩ | ⟨hall, hins⟩
  · -- appended to stream `s`
    have hr : ∀ t ∈ r, sameLabels t.labels e.labels = false := by
      intro t ht
      rw [hg] at hd
      have hst : sameLabels s.labels t.labels = false :=
        (List.pairwise_cons.mp (List.pairwise_append.mp hd).2.1).1 t ht
      cases htt : sameLabels t.labels e.labels with
      | false => rfl
      | true =>
        have := sameLabels_trans hs (by rw [sameLabels_symm]; exact htt)
        rw [this] at hst; cases hst
    have hmem : ∀ t, t ∈ l ∨ t ∈ r → t ∈ g := by
      intro t ht; rw [hg]; rcases ht with ht | ht <;> simp [ht]
    constructor
    · intro t ht
      rw [hins] at ht
      rw [List.filter_append, List.map_append]
      rcases List.mem_append.mp ht with ht | ht
      · have := hl t ht
        simp [this, h.content t (hmem t (Or.inl ht))]
      · rcases List.mem_cons.mp ht with rfl | ht
        · have hc := h.content s (by rw [hg]; simp)
          simp [hs, hc]
        · have := hr t ht
          simp [this, h.content t (hmem t (Or.inr ht))]
    · intro e' he'
      rcases List.mem_append.mp he' with he' | he'
      · obtain ⟨t, ht, hte⟩ := h.cover e' he'
        rw [hg] at ht
        rw [hins]
        rcases List.mem_append.mp ht with ht | ht
        · exact ⟨t, by simp [ht], hte⟩
        · rcases List.mem_cons.mp ht with rfl | ht
          · exact ⟨⟨t.labels, t.entries ++ [(e.ts, e.line)]⟩, by simp, hte⟩
          · exact ⟨t, by simp [ht], hte⟩
      · simp only [List.mem_singleton] at he'
        subst he'
        rw [hins]
        exact ⟨⟨s.labels, s.entries ++ [(e'.ts, e'.line)]⟩, by simp, hs⟩
  · -- new stream
    have hrefl := sameLabels_refl hwf
    have hnone : seen.filter (fun e' => sameLabels e.labels e'.labels) = [] := by
      rw [List.filter_eq_nil_iff]
      intro e' he' hee'
      obtain ⟨t, ht, hte⟩ := h.cover e' he'
      have := sameLabels_trans hte (by rw [sameLabels_symm]; exact hee')
      rw [hall t ht] at this; cases this
    constructor
    · intro t ht
      rw [hins] at ht
      rw [List.filter_append, List.map_append]
      rcases List.mem_append.mp ht with ht | ht
      · have := hall t ht
        simp [this, h.content t ht]
      · simp only [List.mem_singleton] at ht
        subst ht
        simp [hrefl, hnone]
    · intro e' he'
      rw [hins]
      rcases List.mem_append.mp he' with he' | he'
      · obtain ⟨t, ht, hte⟩ := h.cover e' he'
        exact ⟨t, by simp [ht], hte⟩
      · simp only [List.mem_singleton] at he'
        subst he'
        exact ⟨⟨e'.labels, [(e'.ts, e'.line)]⟩, by simp, hrefl⟩

theorem build_inv (es seen : List Entry) (g : List Stream) (hwf : ∀ e ∈ es, WF e.labels) (hd : Distinct g)
    (h : Inv seen g) : Inv (seen ++ es) (build es g) := by
  induction es generalizing seen g with
  | nil => simpa [build] using h
  | cons e es ih =>
    have := ih (seen ++ [e]) (insertEntry e g) (fun x hx => hwf x (List.mem_cons_of_mem _ hx))
      (distinct_step e g hd) (inv_step seen g e (hwf e (List.mem_cons_self)) hd h)
    simpa [List.append_assoc, build] using this

theorem build_spec (es : List Entry) (hwf : ∀ e ∈ es, WF e.labels) : Inv es (build es []) := by
  have := build_inv es [] [] hwf (by simp [Distinct]) ⟨by simp, by simp⟩
  simpa using this

theorem mem_group {es : List Entry} {s : Stream} (hs : s ∈ group es) :
    ∃ s0 ∈ build es [], s = ⟨s0.labels, sortByTs s0.entries⟩ := by
  rw [group_eq] at hs
  obtain ⟨s0, h0, rfl⟩ := List.mem_map.mp hs
  exact ⟨s0, h0, rfl⟩

/-- no two streams of the result carry the same label set (needs no well-formedness hypothesis) -/
theorem streams_distinct (es : List Entry) :
    (group es).Pairwise (fun s t => sameLabels s.labels t.labels = false) := by
  rw [group_eq, List.pairwise_map]
  exact build_distinct es [] (by simp [Distinct])

theorem entry_in_stream (es : List Entry) (hwf : ∀ e ∈ es, WF e.labels) (e : Entry) (he : e ∈ es) :
    ∃ s ∈ group es, sameLabels s.labels e.labels = true ∧ (e.ts, e.line) ∈ s.entries := by
  have inv := build_spec es hwf
  obtain ⟨s0, h0, hse⟩ := inv.cover e he
  refine ⟨⟨s0.labels, sortByTs s0.entries⟩, ?_, hse, ?_⟩
  · rw [group_eq]; exact List.mem_map.mpr ⟨s0, h0, rfl⟩
  · rw [(sortByTs_perm _).mem_iff, inv.content s0 h0]
    exact List.mem_map.mpr ⟨e, List.mem_filter.mpr ⟨he, hse⟩, rfl⟩

theorem stream_members (es : List Entry) (hwf : ∀ e ∈ es, WF e.labels) (s : Stream) (hs : s ∈ group es) :
    s.entries.Perm ((es.filter (fun e => sameLabels s.labels e.labels)).map (fun e => (e.ts, e.line))) := by
  obtain ⟨s0, h0, rfl⟩ := mem_group hs
  have inv := build_spec es hwf
  simp only
  rw [← inv.content s0 h0]
  exact sortByTs_perm _

/-- stronger form: a stream is the stable time-sort of the entries with its labels in arrival order -/
theorem stream_members_sorted (es : List Entry) (hwf : ∀ e ∈ es, WF e.labels) (s : Stream) (hs : s ∈ group es) :
    s.entries = sortByTs ((es.filter (fun e => sameLabels s.labels e.labels)).map (fun e => (e.ts, e.line))) := by
  obtain ⟨s0, h0, rfl⟩ := mem_group hs
  have inv := build_spec es hwf
  simp only
  rw [← inv.content s0 h0]

def totalLen (g : List Stream) : Nat := (g.map (fun s => s.entries.length)).sum

theorem totalLen_insert (e : Entry) (g : List Stream) : totalLen (insertEntry e g) = totalLen g + 1 := by
  induction g with
  | nil => simp [insertEntry, totalLen]
  | cons s g ih =>
    unfold insertEntry
    split
    · simp [totalLen]; omega
    · simp only [totalLen, List.map_cons, List.sum_cons] at ih ⊢
      omega

theorem totalLen_build (es : List Entry) (g : List Stream) : totalLen (build es g) = totalLen g + es.length := by
  induction es generalizing g with
  | nil => simp [build]
  | cons e es ih =>
    have := ih (insertEntry e g)
    rw [totalLen_insert] at this
    simp only [build, List.foldl_cons, List.length_cons] at this ⊢
    omega

theorem total_entries (es : List Entry) : ((group es).map (fun s => s.entries.length)).sum = es.length := by
  have := totalLen_build es []
  rw [group_eq, List.map_map]
  have hfun : ((fun s : Stream => s.entries.length) ∘ fun s => { s with entries := sortByTs s.entries }) =
      (fun s : Stream => s.entries.length) := by
    funext s; exact (sortByTs_perm s.entries).length_eq
  rw [hfun]
  simpa [totalLen] using this

theorem stream_sorted (es : List Entry) (s : Stream) (hs : s ∈ group es) : SortedTs s.entries := by
  obtain ⟨s0, _, rfl⟩ := mem_group hs
  exact sortByTs_sorted _

theorem insertEntry_nonempty (e : Entry) (g : List Stream) (h : ∀ s ∈ g, s.entries ≠ []) :
    ∀ s ∈ insertEntry e g, s.entries ≠ [] := by
  induction g with
  | nil => simp [insertEntry]
  | cons s g ih =>
    unfold insertEntry
    split
    · intro t ht
      rcases List.mem_cons.mp ht with rfl | ht
      · simp
      · exact h t (List.mem_cons_of_mem _ ht)
    · intro t ht
      rcases List.mem_cons.mp ht with rfl | ht
      · exact h t List.mem_cons_self
      · exact ih (fun x hx => h x (List.mem_cons_of_mem _ hx)) t ht

theorem build_nonempty (es : List Entry) (g : List Stream) (h : ∀ s ∈ g, s.entries ≠ []) :
    ∀ s ∈ build es g, s.entries ≠ [] := by
  induction es generalizing g with
  | nil => exact h
  | cons e es ih => exact ih _ (insertEntry_nonempty e g h)

theorem stream_nonempty (es : List Entry) (s : Stream) (hs : s ∈ group es) : s.entries ≠ [] := by
  obtain ⟨s0, h0, rfl⟩ := mem_group hs
  have h := build_nonempty es [] (by simp) s0 h0
  intro hnil
  simp only at hnil
  have := (sortByTs_perm s0.entries).length_eq
  rw [hnil] at this
  exact h (List.eq_nil_of_length_eq_zero this.symm)

/-! ## C. limit -/

/-- a non-positive limit returns everything: all non-positive limits agree -/
theorem limit_nonpos_all (env : Env) (pre : List StrMatcher) (stages : List Stage) (l1 l2 : Int)
    (h1 : l1 ≤ 0) (h2 : l2 ≤ 0) (recs : List Rec) (seens : List Seen) (count : Nat) :
    iterate env pre stages l1 recs seens count = iterate env pre stages l2 recs seens count := by
  induction recs generalizing seens count with
  | nil => simp [iterate]
  | cons r rs ih =>
    have c1 : ¬ (l1 > 0 ∧ (count : Int) ≥ l1) := by omega
    have c2 : ¬ (l2 > 0 ∧ (count : Int) ≥ l2) := by omega
    rw [iterate, iterate]
    simp only [c1, c2, ↓reduceIte]
    split
    · exact ih _ _
    · split
      · exact ih _ _
      · rw [ih]

/-- a positive limit L returns the first min(L, N) matching records: the limited run is the prefix of the
unlimited one -/
theorem limit_prefix (env : Env) (pre : List StrMatcher) (stages : List Stage) (L : Int) (hL : 0 < L)
    (recs : List Rec) (seens : List Seen) (count : Nat) (hc : (count : Int) ≤ L) :
    iterate env pre stages L recs seens count = (iterate env pre stages 0 recs seens count).take (L.toNat - count) := by
  induction recs generalizing seens count with
  | nil => simp [iterate]
  | cons r rs ih =>
    have c0 : ¬ ((0 : Int) > 0 ∧ (count : Int) ≥ 0) := by omega
    rw [iterate, iterate]
    simp only [c0, ↓reduceIte]
    split
    · rename_i hlim
      have : L.toNat - count = 0 := by omega
      rw [this, List.take_zero]
    · rename_i hlim
      split
      · exact ih _ _ hc
      · split
        · exact ih _ _ hc
        · have hlt : (count : Int) < L := by omega
          have : L.toNat - count = (L.toNat - (count + 1)) + 1 := by omega
          rw [this, List.take_succ_cons, ih _ _ (by omega)]

theorem limit_length (env : Env) (pre : List StrMatcher) (stages : List Stage) (L : Int) (hL : 0 < L)
    (recs : List Rec) :
    (iterate env pre stages L recs [] 0).length = min L.toNat (iterate env pre stages 0 recs [] 0).length := by
  rw [limit_prefix env pre stages L hL recs [] 0 (by omega), List.length_take]
  simp

/-- the emitted timestamps are a subsequence of the stored timestamps -/
theorem iterate_ts_sublist (env : Env) (pre : List StrMatcher) (stages : List Stage) (limit : Int)
    (recs : List Rec) (seens : List Seen) (count : Nat) :
    ((iterate env pre stages limit recs seens count).map (·.ts)).Sublist (recs.map (·.ts)) := by
  induction recs generalizing seens count with
  | nil => simp [iterate]
  | cons r rs ih =>
    rw [iterate]
    split
    · simp
    · simp only
      split
      · exact (ih _ _).cons _
      · split
        · exact (ih _ _).cons _
        · simp only [List.map_cons]
          exact (ih _ _).cons_cons _

theorem iterate_ts_sorted (env : Env) (pre : List StrMatcher) (stages : List Stage) (limit : Int)
    (recs : List Rec) (hs : recs.Pairwise (fun a b => a.ts ≤ b.ts)) (seens : List Seen) (count : Nat) :
    (iterate env pre stages limit recs seens count).Pairwise (fun a b => a.ts ≤ b.ts) := by
  have h1 : (recs.map (·.ts)).Pairwise (· ≤ ·) := by rw [List.pairwise_map]; exact hs
  have h2 := List.Pairwise.sublist (iterate_ts_sublist env pre stages limit recs seens count) h1
  rw [List.pairwise_map] at h2
  exact h2

/-- with storage order sorted by time, the limited result is in time order and precedes every dropped match -/
theorem limit_earliest (env : Env) (pre : List StrMatcher) (stages : List Stage) (L : Int) (hL : 0 < L)
    (recs : List Rec) (hs : recs.Pairwise (fun a b => a.ts ≤ b.ts)) :
    (iterate env pre stages L recs [] 0).Pairwise (fun a b => a.ts ≤ b.ts) ∧
    ∀ e ∈ iterate env pre stages L recs [] 0, ∀ d ∈ (iterate env pre stages 0 recs [] 0).drop L.toNat, e.ts ≤ d.ts := by
  refine ⟨iterate_ts_sorted env pre stages L recs hs [] 0, ?_⟩
  rw [limit_prefix env pre stages L hL recs [] 0 (by omega)]
  have hu := iterate_ts_sorted env pre stages 0 recs hs [] 0
  rw [← List.take_append_drop L.toNat (iterate env pre stages 0 recs [] 0), List.pairwise_append] at hu
  simpa using hu.2.2

/-! ## D. the stream key `LabelSet.String()` is injective -/

/-- everything after the opening brace: `k1=q1,k2=q2,…}` -/
def keyBody (quote : Bytes → Bytes) : Labels → Bytes
  | [] => [125]
  | [(k, v)] => k ++ 61 :: (quote v ++ [125])
  | (k, v) :: p :: rest => k ++ 61 :: (quote v ++ 44 :: keyBody quote (p :: rest))

/-- `LabelSet.String()` over the labels in the given order, for an abstract quoting function:
`{` `k1` `=` `quote v1` `,` … `}` -/
def key (quote : Bytes → Bytes) (ls : Labels) : Bytes := 123 :: keyBody quote ls

def keyTail (quote : Bytes → Bytes) : Labels → Bytes
  | [] => [125]
  | p :: rest => 44 :: keyBody quote (p :: rest)

theorem keyBody_cons (quote : Bytes → Bytes) (k v : Bytes) (rest : Labels) :
    keyBody quote ((k, v) :: rest) = k ++ 61 :: (quote v ++ keyTail quote rest) := by
  cases rest <;> rfl

theorem split_at_eq {k1 k2 r1 r2 : Bytes} (h1 : 61 ∉ k1) (h2 : 61 ∉ k2)
    (h : k1 ++ 61 :: r1 = k2 ++ 61 :: r2) : k1 = k2 ∧ r1 = r2 := by
  induction k1 generalizing k2 with
  | nil =>
    cases k2 with
    | nil => simpa using h
    | cons c k2 =>
      simp only [List.nil_append, List.cons_append, List.cons.injEq] at h
      exact absurd (h.1 ▸ List.mem_cons_self) h2
  | cons c k1 ih =>
    cases k2 with
    | nil =>
      simp only [List.nil_append, List.cons_append, List.cons.injEq] at h
      exact absurd (h.1 ▸ List.mem_cons_self) h1
    | cons d k2 =>
      simp only [List.cons_append, List.cons.injEq] at h
      have := ih (fun hm => h1 (List.mem_cons_of_mem _ hm)) (fun hm => h2 (List.mem_cons_of_mem _ hm)) h.2
      exact ⟨by rw [h.1, this.1], this.2⟩

theorem keyBody_injective (quote : Bytes → Bytes)
    (hq : ∀ v w r s, quote v ++ r = quote w ++ s → v = w ∧ r = s)
    (a b : Labels) (ha : ∀ kv ∈ a, 61 ∉ kv.1) (hb : ∀ kv ∈ b, 61 ∉ kv.1)
    (h : keyBody quote a = keyBody quote b) : a = b := by
  induction a generalizing b with
  | nil =>
    cases b with
    | nil => rfl
    | cons p b =>
      obtain ⟨k, v⟩ := p
      rw [keyBody_cons] at h
      cases k with
      | nil => simp [keyBody] at h
      | cons c k => simp [keyBody] at h
  | cons p a ih =>
    obtain ⟨k, v⟩ := p
    cases b with
    | nil =>
      rw [keyBody_cons] at h
      cases k with
      | nil => simp [keyBody] at h
      | cons c k => simp [keyBody] at h
    | cons p' b =>
      obtain ⟨k', v'⟩ := p'
      rw [keyBody_cons, keyBody_cons] at h
      obtain ⟨hk, hrest⟩ := split_at_eq (ha (k, v) List.mem_cons_self) (hb (k', v') List.mem_cons_self) h
      obtain ⟨hv, htail⟩ := hq _ _ _ _ hrest
      subst hk; subst hv
      have ha' : ∀ kv ∈ a, 61 ∉ kv.1 := fun kv hm => ha kv (List.mem_cons_of_mem _ hm)
      have hb' : ∀ kv ∈ b, 61 ∉ kv.1 := fun kv hm => hb kv (List.mem_cons_of_mem _ hm)
      cases a with
      | nil =>
        cases b with
        | nil => rfl
        | cons q b => simp [keyTail] at htail
      | cons q a =>
        cases b with
        | nil => simp [keyTail] at htail
        | cons q' b =>
          simp only [keyTail, List.cons.injEq, true_and] at htail
          rw [ih _ ha' hb' htail]

/-- two label lists (in the order they are printed) with the same key are equal, provided no label name contains
`=` and the quoting is self-delimiting (as `strconv.Quote` is: its output ends at the first unescaped `"`).
The hypotheses "no `"` in names" and "`quote v` starts with `"`" of the request turned out not to be needed. -/
theorem key_injective (quote : Bytes → Bytes)
    (hq : ∀ v w r s, quote v ++ r = quote w ++ s → v = w ∧ r = s)
    (a b : Labels) (ha : ∀ kv ∈ a, 61 ∉ kv.1) (hb : ∀ kv ∈ b, 61 ∉ kv.1)
    (h : key quote a = key quote b) : a = b := by
  unfold key at h
  exact keyBody_injective quote hq a b ha hb (List.cons.inj h).2

/-- the self-delimiting hypothesis is what is needed: with the identity as "quoting", two different label
lists print the same -/
example : key id [([97], [49, 44, 98, 61, 50])] = key id [([97], [49]), ([98], [50])] := by decide

/-- a toy self-delimiting quoting (length-prefixed) satisfies the hypothesis -/
example : ∀ v w r s : Bytes, (fun x : Bytes => x.length :: x) v ++ r = (fun x : Bytes => x.length :: x) w ++ s →
    v = w ∧ r = s := by
  intro v w r s h
  simp only [List.cons_append, List.cons.injEq] at h
  exact List.append_inj h.2 h.1

/-- a model of the essential part of `strconv.Quote`: `"` and `\\` are escaped with a backslash, the result is
wrapped in `"` -/
def esc : Bytes → Bytes
  | [] => []
  | c :: cs => if c = 34 ∨ c = 92 then 92 :: c :: esc cs else c :: esc cs

def quoteM (v : Bytes) : Bytes := 34 :: (esc v ++ [34])

theorem esc_delimited (v w r s : Bytes) (h : esc v ++ 34 :: r = esc w ++ 34 :: s) : v = w ∧ r = s := by
  induction v generalizing w with
  | nil =>
    cases w with
    | nil => simpa [esc] using h
    | cons d ds =>
      simp only [esc, List.nil_append] at h
      split at h <;> simp at h <;> omega
  | cons c cs ih =>
    cases w with
    | nil =>
      simp only [esc, List.nil_append] at h
      split at h <;> simp at h <;> omega
    | cons d ds =>
      simp only [esc] at h
      split at h <;> split at h <;> simp only [List.cons_append, List.cons.injEq] at h
      · obtain ⟨_, hcd, h⟩ := h
        have := ih _ h
        exact ⟨by rw [hcd, this.1], this.2⟩
      · omega
      · omega
      · obtain ⟨hcd, h⟩ := h
        have := ih _ h
        exact ⟨by rw [hcd, this.1], this.2⟩

/-- the quoting model satisfies the self-delimiting hypothesis of `key_injective` -/
theorem quoteM_delimited : ∀ v w r s, quoteM v ++ r = quoteM w ++ s → v = w ∧ r = s := by
  intro v w r s h
  simp only [quoteM, List.cons_append, List.append_assoc, List.cons.injEq, true_and, List.nil_append] at h
  exact esc_delimited v w r s h

example : key quoteM [([97], [49, 34]), ([98], [])] =
    [123, 97, 61, 34, 49, 92, 34, 34, 44, 98, 61, 34, 34, 125] := by decide

-- key_injective: hypotheses hold for the quoting model and a concrete two-label set
example : (∀ kv ∈ ([([97], [49, 34]), ([98], [])] : Labels), 61 ∉ kv.1) := by decide

/-! ## non-vacuity: concrete instances of the hypotheses -/

/-- an environment in which nothing parses and no regex matches -/
def trivEnv : Env where
  reSearch := fun _ _ => false
  reFull := fun _ _ => false
  reSubmatch := fun _ _ _ => none
  reFind := fun _ _ => none
  parseFloat := fun _ => none
  parseDuration := fun _ => none
  parseBytes := fun _ => none
  parseIP := fun _ => none
  jsonObject := fun _ _ => ([], false)
  jsonExpr := fun _ _ => ([], false)
  logfmt := fun _ => ([], false)
  template := fun _ _ _ _ => none
  ansi := .eps

instance (ls : Labels) : Decidable (WF ls) := by unfold WF; infer_instance
instance (xs : List (Int × Bytes)) : Decidable (SortedTs xs) := by unfold SortedTs; infer_instance

-- set_wf / sameLabels_refl: a well-formed two-label set
example : WF [([97], [1]), ([98], [2])] := by decide
-- apply_wf: `drop a` on {a=1, b=2} keeps the record with {b=2}
example : WF (Acc.mk [] [([97], [1]), ([98], [2])]).labels ∧
    ((Stage.drop [[97]] []).apply trivEnv 0 [] ⟨[], [([97], [1]), ([98], [2])]⟩).1.map (·.labels) =
      some [([98], [2])] := by
  decide
-- sameLabels_trans: the same map in three different orders / equal
example : sameLabels [([97], [1]), ([98], [2])] [([98], [2]), ([97], [1])] = true ∧
    sameLabels [([98], [2]), ([97], [1])] [([97], [1]), ([98], [2])] = true := by decide

/-- three entries, two label sets (the first and third are the same map in different order), out of time order -/
def exEntries : List Entry :=
  [⟨5, [120], [([97], [1]), ([98], [2])]⟩, ⟨3, [121], [([99], [3])]⟩, ⟨1, [122], [([98], [2]), ([97], [1])]⟩]

theorem exEntries_wf : ∀ e ∈ exEntries, WF e.labels := by decide

-- the grouped result: two streams, the first one time-sorted
example : (group exEntries).map (fun s => (s.labels, s.entries)) =
    [([([97], [1]), ([98], [2])], [(1, [122]), (5, [120])]), ([([99], [3])], [(3, [121])])] := by decide
-- entry_in_stream / stream_members / stream_sorted / stream_nonempty: hypotheses hold for a concrete stream
example : (∀ e ∈ exEntries, WF e.labels) ∧ (⟨1, [122], [([98], [2]), ([97], [1])]⟩ : Entry) ∈ exEntries :=
  ⟨exEntries_wf, by simp [exEntries]⟩
example : (⟨[([97], [1]), ([98], [2])], [(1, [122]), (5, [120])]⟩ : Stream) ∈ group exEntries :=
  List.mem_cons_self

/-- four records in storage (time) order; the second has no attribute `a` -/
def exRecs : List Rec :=
  [⟨1, [], [([97], [1])]⟩, ⟨2, [], [([98], [1])]⟩, ⟨3, [], [([97], [1])]⟩, ⟨4, [], [([97], [1])]⟩]

def exPre : List StrMatcher := [⟨[97], .eq, [1], .eps⟩]

-- limit_nonpos_all / limit_prefix / limit_length / limit_earliest: selector {a="1"} matches three of the four
-- records; limit 2 returns the first two of them, limits 0 and -1 all three
example : (iterate trivEnv exPre [] 0 exRecs [] 0).map (·.ts) = [1, 3, 4] ∧
    (iterate trivEnv exPre [] (-1) exRecs [] 0).map (·.ts) = [1, 3, 4] ∧
    (iterate trivEnv exPre [] 2 exRecs [] 0).map (·.ts) = [1, 3] := by decide
example : (0 : Int) < 2 ∧ ((1 : Nat) : Int) ≤ 2 ∧ exRecs.Pairwise (fun a b => a.ts ≤ b.ts) := by decide

end LogQL.C08
