import Verif.Model.Metric
import Verif.Lemmas.C08
open LogQL Metric
/-! # C10 — a metric series is identified by its label set, nothing else

`groupBySet` (the model of the `map[GroupingKey]…` of `range_agg.go`, `vector_agg.go`, `ReadStepResponse`)
partitions its input by visible label set; consequences for `rangeRun`, `vecStep`, `readSteps`; and the
grouping key (sorted, length-prefixed encoding) is a function of the label set and injective up to the hash. -/
namespace Metric.C10

universe u

/-- label sets with distinct names -/
def WFSet (a : AggLabels) : Prop := (a.visible.map Prod.fst).Nodup

/-! ## `sameSet` is an equivalence on well-formed label sets -/

theorem sameSet_refl {a : AggLabels} (h : WFSet a) : sameSet a a = true := C08.sameLabels_refl h

theorem sameSet_symm (a b : AggLabels) : sameSet a b = sameSet b a := C08.sameLabels_symm _ _

theorem sameSet_trans {a b c : AggLabels} (hab : sameSet a b = true) (hbc : sameSet b c = true) :
    sameSet a c = true := C08.sameLabels_trans hab hbc

/-- related label sets relate to the same label sets -/
theorem sameSet_congr_left {a b : AggLabels} (hab : sameSet a b = true) (c : AggLabels) :
    sameSet a c = sameSet b c := by
  rw [Bool.eq_iff_iff]
  constructor
  · intro h; exact sameSet_trans (by rw [sameSet_symm]; exact hab) h
  · intro h; exact sameSet_trans hab h

theorem sameSet_congr_right {a b : AggLabels} (hab : sameSet a b = true) (c : AggLabels) :
    sameSet c a = sameSet c b := by
  rw [sameSet_symm c a, sameSet_symm c b]; exact sameSet_congr_left hab c

/-! ## `groupBySet` is a partition -/

section Group
variable {α : Type u} (key : α → AggLabels)

theorem groupBySet_nil : groupBySet key [] = [] := rfl

theorem groupBySet_cons (x : α) (xs : List α) :
    groupBySet key (x :: xs) =
      match (groupBySet key xs).find? (fun g => sameSet g.1 (key x)) with
      | some _ => (key x, x :: ((groupBySet key xs).filter (fun g => sameSet g.1 (key x))).flatMap (·.2)) ::
                    (groupBySet key xs).filter (fun g => !sameSet g.1 (key x))
      | none => (key x, [x]) :: groupBySet key xs := rfl

/-- **no two groups carry the same label set** (no well-formedness needed) -/
theorem groups_distinct (xs : List α) :
    (groupBySet key xs).Pairwise (fun g h => sameSet g.1 h.1 = false) := by
  induction xs with
  | nil => exact List.Pairwise.nil
  | cons x xs ih =>
    rw [groupBySet_cons]
    split
    · refine List.Pairwise.cons ?_ (ih.sublist List.filter_sublist)
      intro h hh
      have := (List.mem_filter.mp hh).2
      rw [sameSet_symm]
      simpa using this
    · rename_i hnone
      refine List.Pairwise.cons ?_ ih
      intro h hh
      have := List.find?_eq_none.mp hnone h hh
      rw [sameSet_symm]
      simpa using this

/-- every group has a member -/
theorem group_nonempty (xs : List α) (g : AggLabels × List α) (hg : g ∈ groupBySet key xs) : g.2 ≠ [] := by
  induction xs generalizing g with
  | nil => simp [groupBySet_nil] at hg
  | cons x xs ih =>
    rw [groupBySet_cons] at hg
    split at hg
    · rcases List.mem_cons.mp hg with rfl | hg
      · simp
      · exact ih g (List.mem_filter.mp hg).1
    · rcases List.mem_cons.mp hg with rfl | hg
      · simp
      · exact ih g hg

/-- the label set shown for a group is the label set of its first member -/
theorem group_key_of_head (xs : List α) (g : AggLabels × List α) (hg : g ∈ groupBySet key xs) :
    ∃ x rest, g.2 = x :: rest ∧ g.1 = key x := by
  induction xs generalizing g with
  | nil => simp [groupBySet_nil] at hg
  | cons x xs ih =>
    rw [groupBySet_cons] at hg
    split at hg
    · rcases List.mem_cons.mp hg with rfl | hg
      · exact ⟨x, _, rfl, rfl⟩
      · exact ih g (List.mem_filter.mp hg).1
    · rcases List.mem_cons.mp hg with rfl | hg
      · exact ⟨x, _, rfl, rfl⟩
      · exact ih g hg

theorem group_key_of_member (xs : List α) (g : AggLabels × List α) (hg : g ∈ groupBySet key xs) :
    ∃ x ∈ g.2, g.1 = key x := by
  obtain ⟨x, rest, h2, h1⟩ := group_key_of_head key xs g hg
  exact ⟨x, by rw [h2]; exact List.mem_cons_self, h1⟩

/-- **every element sits in the group carrying its label set** -/
theorem every_element_grouped (xs : List α) (hwf : ∀ x ∈ xs, WFSet (key x)) (x : α) (hx : x ∈ xs) :
    ∃ g ∈ groupBySet key xs, sameSet g.1 (key x) = true ∧ x ∈ g.2 := by
  induction xs with
  | nil => simp at hx
  | cons a xs ih =>
    have ih' := ih (fun y hy => hwf y (List.mem_cons_of_mem _ hy))
    rw [groupBySet_cons]
    split
    · rcases List.mem_cons.mp hx with rfl | hx
      · exact ⟨_, List.mem_cons_self, sameSet_refl (hwf x List.mem_cons_self), List.mem_cons_self⟩
      · obtain ⟨g, hg, hs, hm⟩ := ih' hx
        cases hp : sameSet g.1 (key a) with
        | true =>
          refine ⟨_, List.mem_cons_self, ?_, ?_⟩
          · exact sameSet_trans (by rw [sameSet_symm]; exact hp) hs
          · refine List.mem_cons_of_mem _ (List.mem_flatMap.mpr ⟨g, ?_, hm⟩)
            exact List.mem_filter.mpr ⟨hg, hp⟩
        | false =>
          refine ⟨g, List.mem_cons_of_mem _ (List.mem_filter.mpr ⟨hg, by simp [hp]⟩), hs, hm⟩
    · rcases List.mem_cons.mp hx with rfl | hx
      · exact ⟨_, List.mem_cons_self, sameSet_refl (hwf x List.mem_cons_self), List.mem_cons_self⟩
      · obtain ⟨g, hg, hs, hm⟩ := ih' hx
        exact ⟨g, List.mem_cons_of_mem _ hg, hs, hm⟩

/-- in a list of pairwise unrelated groups, the groups related to `k` are just the first one found -/
theorem filter_eq_singleton (l : List (AggLabels × List α)) (k : AggLabels)
    (hd : l.Pairwise (fun g h => sameSet g.1 h.1 = false)) (g0 : AggLabels × List α)
    (hf : l.find? (fun g => sameSet g.1 k) = some g0) :
    l.filter (fun g => sameSet g.1 k) = [g0] := by
  obtain ⟨hp, l1, l2, rfl, hl1⟩ := List.find?_eq_some_iff_append.mp hf
  have hl2 : ∀ h ∈ l2, sameSet h.1 k = false := by
    intro h hh
    have hgh : sameSet g0.1 h.1 = false :=
      List.rel_of_pairwise_cons (List.pairwise_append.mp hd).2.1 hh
    cases hhk : sameSet h.1 k with
    | false => rfl
    | true =>
      have := sameSet_trans hp (by rw [sameSet_symm]; exact hhk)
      rw [hgh] at this; cases this
  have e1 : l1.filter (fun g => sameSet g.1 k) = [] := by
    rw [List.filter_eq_nil_iff]; intro a ha; simpa using hl1 a ha
  have e2 : l2.filter (fun g => sameSet g.1 k) = [] := by
    rw [List.filter_eq_nil_iff]; intro a ha; simp [hl2 a ha]
  rw [List.filter_append, List.filter_cons, e1, e2]
  simp [hp]

/-- **a group holds exactly the elements with its label set, in arrival order** -/
theorem group_members (xs : List α) (hwf : ∀ x ∈ xs, WFSet (key x)) (g : AggLabels × List α)
    (hg : g ∈ groupBySet key xs) : g.2 = xs.filter (fun x => sameSet g.1 (key x)) := by
  induction xs generalizing g with
  | nil => simp [groupBySet_nil] at hg
  | cons a xs ih =>
    have hwf' : ∀ y ∈ xs, WFSet (key y) := fun y hy => hwf y (List.mem_cons_of_mem _ hy)
    have ih' := ih hwf'
    have hrefl := sameSet_refl (hwf a List.mem_cons_self)
    rw [groupBySet_cons] at hg
    split at hg
    · rename_i g0 hfind
      rcases List.mem_cons.mp hg with rfl | hg
      · simp only [List.filter_cons, hrefl, ↓reduceIte, List.cons.injEq, true_and]
        rw [filter_eq_singleton _ _ (groups_distinct key xs) g0 hfind]
        have hg0 := List.mem_of_find?_eq_some hfind
        have hp : sameSet g0.1 (key a) = true := by simpa using List.find?_some hfind
        simp only [List.flatMap_cons, List.flatMap_nil, List.append_nil]
        rw [ih' g0 hg0]
        apply List.filter_congr
        intro y _
        exact sameSet_congr_left hp (key y)
      · obtain ⟨hg, hn⟩ := List.mem_filter.mp hg
        have hn : sameSet g.1 (key a) = false := by simpa using hn
        simp only [List.filter_cons, hn, Bool.false_eq_true, ↓reduceIte]
        exact ih' g hg
    · rename_i hnone
      rcases List.mem_cons.mp hg with rfl | hg
      · simp only [List.filter_cons, hrefl, ↓reduceIte, List.cons.injEq, true_and]
        symm
        rw [List.filter_eq_nil_iff]
        intro y hy hs
        obtain ⟨g, hg, hgy, _⟩ := every_element_grouped key xs hwf' y hy
        have := List.find?_eq_none.mp hnone g hg
        apply this
        exact sameSet_trans hgy (by rw [sameSet_symm]; exact hs)
      · have hn : sameSet g.1 (key a) = false := by
          simpa using List.find?_eq_none.mp hnone g hg
        simp only [List.filter_cons, hn, Bool.false_eq_true, ↓reduceIte]
        exact ih' g hg

/-- **nothing is lost or duplicated**: the groups are a rearrangement of the input -/
theorem groups_flatten_perm (xs : List α) : ((groupBySet key xs).flatMap (·.2)).Perm xs := by
  induction xs with
  | nil => simp [groupBySet_nil]
  | cons x xs ih =>
    rw [groupBySet_cons]
    split
    · simp only [List.flatMap_cons, List.cons_append]
      refine List.Perm.cons x (List.Perm.trans ?_ ih)
      rw [← List.flatMap_append]
      exact (List.filter_append_perm _ _).flatMap_right _
    · simp only [List.flatMap_cons, List.cons_append, List.nil_append]
      exact List.Perm.cons x ih

theorem length_flatMap_snd {β : Type u} (l : List (AggLabels × List β)) :
    (l.flatMap (·.2)).length = (l.map (fun g => g.2.length)).sum := by
  induction l with
  | nil => rfl
  | cons g l ih => simp [List.flatMap_cons, ih]

/-- the group sizes add up to the input size -/
theorem groups_total (xs : List α) : ((groupBySet key xs).map (fun g => g.2.length)).sum = xs.length := by
  rw [← length_flatMap_snd]; exact (groups_flatten_perm key xs).length_eq

/-- two groups related to the same label set are related to each other (hence, by `groups_distinct`, the same group) -/
theorem group_unique (k : AggLabels) (g h : AggLabels × List α)
    (hgk : sameSet g.1 k = true) (hhk : sameSet h.1 k = true) : sameSet g.1 h.1 = true :=
  sameSet_trans hgk (by rw [sameSet_symm]; exact hhk)

end Group

/-! ## consequences for the metric path -/

/-- **no result step of a range aggregation contains two series with the same label set** -/
theorem rangeRun_no_duplicate_series (op : RangeOp) (param : Option Rat) (rangeNs offsetNs : Int) (hasUnwrap : Bool)
    (regroup : AggLabels → AggLabels) (ts : List Int) (window pending : List Smp) :
    ∀ st ∈ rangeRun op param rangeNs offsetNs hasUnwrap regroup ts window pending,
      st.samples.Pairwise (fun a b => sameSet a.set b.set = false) := by
  induction ts generalizing window pending with
  | nil => intro st hst; simp [rangeRun] at hst
  | cons T ts ih =>
    intro st hst
    simp only [rangeRun, List.mem_cons] at hst
    rcases hst with rfl | hst
    · simp only
      rw [List.pairwise_map]
      exact groups_distinct _ _
    · exact ih _ _ st hst

/-- the series of a range step are in one-to-one correspondence with the groups of the window -/
theorem rangeRun_cons (op : RangeOp) (param : Option Rat) (rangeNs offsetNs : Int) (hasUnwrap : Bool)
    (regroup : AggLabels → AggLabels) (T : Int) (ts : List Int) (window pending : List Smp) :
    rangeRun op param rangeNs offsetNs hasUnwrap regroup (T :: ts) window pending =
      ⟨T + offsetNs, (groupBySet (fun s : Smp => regroup s.set)
          (fill (T - rangeNs) T (clear (T - rangeNs) window) pending).1).map
          fun g => ⟨g.1, aggregate op param rangeNs hasUnwrap (g.2.map (·.v))⟩⟩ ::
        rangeRun op param rangeNs offsetNs hasUnwrap regroup ts
          (fill (T - rangeNs) T (clear (T - rangeNs) window) pending).1
          (fill (T - rangeNs) T (clear (T - rangeNs) window) pending).2 := rfl

/-- the aggregating vector operations -/
def aggOps : List VecOp := [.sum, .avg, .count, .max, .min, .stddev, .stdvar]

theorem vecStep_agg (op : VecOp) (hop : op ∈ aggOps) (param : Option Int) (g : Option Grouping) (s : Step) :
    vecStep op param g s = ⟨s.t, (groupBySet (fun x : Sample => applyGrouping g (fun a => a.by []) x.set) s.samples).map
        (fun grp => ⟨grp.1, vecAggregate op (grp.2.map (·.v))⟩)⟩ := by
  simp only [aggOps, List.mem_cons, List.not_mem_nil, or_false] at hop
  rcases hop with rfl | rfl | rfl | rfl | rfl | rfl | rfl <;> rfl

/-- **no step of a vector aggregation contains two series with the same label set** -/
theorem vecStep_no_duplicate_series (op : VecOp) (hop : op ∈ aggOps) (param : Option Int) (g : Option Grouping)
    (s : Step) : (vecStep op param g s).samples.Pairwise (fun a b => sameSet a.set b.set = false) := by
  rw [vecStep_agg op hop]
  simp only
  rw [List.pairwise_map]
  exact groups_distinct _ _

/-- **the matrix of a range query has no two series with the same label set** -/
theorem readSteps_no_duplicate_series (steps : List Step) :
    (readSteps false steps).Pairwise (fun a b => sameLabels a.labels b.labels = false) := by
  simp only [readSteps, Bool.false_eq_true, ↓reduceIte]
  rw [List.pairwise_map]
  exact groups_distinct _ _

/-- every point of every step lands in exactly one series of the matrix (as a multiset) -/
theorem readSteps_points_perm (steps : List Step) :
    ((readSteps false steps).flatMap (·.points)).Perm
      (steps.flatMap fun s => s.samples.map fun x => (s.t, x.v)) := by
  simp only [readSteps, Bool.false_eq_true, ↓reduceIte]
  have e2 : (steps.flatMap fun s => s.samples.map fun x => (x.set, s.t, x.v)).map (·.2) =
      steps.flatMap fun s => s.samples.map fun x => (s.t, x.v) := by
    induction steps with
    | nil => rfl
    | cons s ss ih => simp only [List.flatMap_cons, List.map_append, List.map_map, ih]; rfl
  have h := groups_flatten_perm (fun p : AggLabels × Int × Val => p.1)
    (steps.flatMap fun s => s.samples.map fun x => (x.set, s.t, x.v))
  have h2 := h.map (·.2)
  have e1 : ∀ l : List (AggLabels × List (AggLabels × Int × Val)),
      (l.flatMap (·.2)).map (·.2) = (l.map fun g => (⟨g.1.visible, g.2.map (·.2)⟩ : Series)).flatMap (·.points) := by
    intro l
    induction l with
    | nil => rfl
    | cons g l ih => simp only [List.flatMap_cons, List.map_append, List.map_cons, ih]
  rw [e1, e2] at h2
  exact h2

/-- **per-step totals are conserved**: for `count_over_time` every group's value is its size, and the sizes
add up to the number of samples in the window -/
theorem step_total_conserved {α : Type u} (key : α → AggLabels) (val : α → Val) (p : Option Rat) (r : Int) (u : Bool)
    (w : List α) :
    (groupBySet key w).map (fun g => aggregate .count p r u (g.2.map val)) =
        (groupBySet key w).map (fun g => Val.q ((g.2.length : Nat) : Rat)) ∧
      ((groupBySet key w).map (fun g => g.2.length)).sum = w.length := by
  refine ⟨?_, groups_total key w⟩
  apply List.map_congr_left
  intro g _
  simp [aggregate]

/-- the same on a `rangeRun` step: the values of the first step of a `count_over_time` run are the group sizes
of its window, which add up to the window length -/
theorem rangeRun_count_step (param : Option Rat) (rangeNs offsetNs : Int) (hasUnwrap : Bool)
    (regroup : AggLabels → AggLabels) (T : Int) (ts : List Int) (window pending : List Smp) :
    let w := (fill (T - rangeNs) T (clear (T - rangeNs) window) pending).1
    let groups := groupBySet (fun s : Smp => regroup s.set) w
    ((rangeRun .count param rangeNs offsetNs hasUnwrap regroup (T :: ts) window pending).head?.map
        (fun st => st.samples.map (·.v))) = some (groups.map fun g => Val.q ((g.2.length : Nat) : Rat)) ∧
      (groups.map (fun g => g.2.length)).sum = w.length := by
  intro w groups
  refine ⟨?_, groups_total _ w⟩
  rw [rangeRun_cons]
  simp only [List.head?_cons, Option.map_some, List.map_map, Option.some.injEq]
  apply List.map_congr_left
  intro g _
  simp [aggregate]

/-! ## `Bytes.lt` is a strict total order on byte strings -/

theorem bytes_lt_irrefl (x : List Nat) : Bytes.lt x x = false := by
  induction x with
  | nil => rfl
  | cons a as ih => simp [Bytes.lt, ih]

theorem bytes_lt_trans (x y z : List Nat) (h1 : Bytes.lt x y = true) (h2 : Bytes.lt y z = true) :
    Bytes.lt x z = true := by
  induction x generalizing y z with
  | nil =>
    cases y with
    | nil => simp [Bytes.lt] at h1
    | cons b bs => cases z with
      | nil => simp [Bytes.lt] at h2
      | cons c cs => rfl
  | cons a as ih =>
    cases y with
    | nil => simp [Bytes.lt] at h1
    | cons b bs =>
      cases z with
      | nil => simp [Bytes.lt] at h2
      | cons c cs =>
        simp only [Bytes.lt] at h1 h2 ⊢
        by_cases hab : a < b
        · by_cases hbc : b < c
          · have : a < c := by omega
            simp [this]
          · by_cases hcb : c < b
            · simp [hbc, hcb] at h2
            · have : a < c := by omega
              simp [this]
        · by_cases hba : b < a
          · simp [hab, hba] at h1
          · have hab' : a = b := by omega
            subst hab'
            simp only [hab, ↓reduceIte] at h1
            by_cases hac : a < c
            · simp [hac]
            · by_cases hca : c < a
              · simp [hac, hca] at h2
              · simp only [hac, hca, ↓reduceIte] at h2 ⊢
                exact ih bs cs h1 h2

theorem bytes_lt_trichotomy (x y : List Nat) : Bytes.lt x y = true ∨ x = y ∨ Bytes.lt y x = true := by
  induction x generalizing y with
  | nil => cases y with
    | nil => exact Or.inr (Or.inl rfl)
    | cons b bs => exact Or.inl rfl
  | cons a as ih =>
    cases y with
    | nil => exact Or.inr (Or.inr rfl)
    | cons b bs =>
      simp only [Bytes.lt]
      by_cases hab : a < b
      · simp [hab]
      · by_cases hba : b < a
        · simp [hba]
        · have : a = b := by omega
          subst this
          simp only [hab, ↓reduceIte, List.cons.injEq, true_and]
          exact ih bs

theorem bytes_lt_asymm (x y : List Nat) (h : Bytes.lt x y = true) : Bytes.lt y x = false := by
  cases h' : Bytes.lt y x with
  | false => rfl
  | true => have := bytes_lt_trans x y x h h'; rw [bytes_lt_irrefl] at this; cases this

/-! ## the grouping key -/

/-- eight little-endian bytes -/
def le64 (n : Nat) : List Nat := (List.range 8).map (fun i => n / 256 ^ i % 256)

/-- what `aggregatedLabels.Key()` feeds to the hash: every string length-prefixed -/
def encode (ls : Labels) : List Nat :=
  ls.flatMap (fun kv => le64 kv.1.length ++ kv.1 ++ le64 kv.2.length ++ kv.2)

theorem le64_length (n : Nat) : (le64 n).length = 8 := by simp [le64]

theorem le64_inj (n m : Nat) (hn : n < 2 ^ 64) (hm : m < 2 ^ 64) (h : le64 n = le64 m) : n = m := by
  simp only [le64, List.range, List.range.loop, List.map_cons, List.map_nil, List.cons.injEq, and_true] at h
  obtain ⟨h0, h1, h2, h3, h4, h5, h6, h7⟩ := h
  simp only [Nat.pow_zero, Nat.div_one, Nat.reducePow] at *
  omega

theorem prefixed_cancel (s t r1 r2 : List Nat) (hs : s.length < 2 ^ 64) (ht : t.length < 2 ^ 64)
    (h : le64 s.length ++ (s ++ r1) = le64 t.length ++ (t ++ r2)) : s = t ∧ r1 = r2 := by
  have h8 := List.append_inj h (by simp [le64_length])
  have hl : s.length = t.length := le64_inj _ _ hs ht h8.1
  exact List.append_inj h8.2 hl

theorem encode_cons (x : Bytes × Bytes) (xs : Labels) :
    encode (x :: xs) = le64 x.1.length ++ (x.1 ++ (le64 x.2.length ++ (x.2 ++ encode xs))) := by
  simp [encode, List.flatMap_cons, List.append_assoc]

/-- **the length-prefixed encoding is injective** -/
theorem encode_injective (a b : Labels) (ha : ∀ kv ∈ a, kv.1.length < 2 ^ 64 ∧ kv.2.length < 2 ^ 64)
    (hb : ∀ kv ∈ b, kv.1.length < 2 ^ 64 ∧ kv.2.length < 2 ^ 64) (h : encode a = encode b) : a = b := by
  induction a generalizing b with
  | nil =>
    cases b with
    | nil => rfl
    | cons y ys =>
      have := congrArg List.length h
      simp [encode, le64_length] at this
      omega
  | cons x xs ih =>
    cases b with
    | nil =>
      have := congrArg List.length h
      simp [encode, le64_length] at this
    | cons y ys =>
      rw [encode_cons, encode_cons] at h
      have hx := ha x List.mem_cons_self
      have hy := hb y List.mem_cons_self
      obtain ⟨hn, h'⟩ := prefixed_cancel _ _ _ _ hx.1 hy.1 h
      obtain ⟨hv, h''⟩ := prefixed_cancel _ _ _ _ hx.2 hy.2 h'
      have := ih ys (fun e he => ha e (List.mem_cons_of_mem _ he)) (fun e he => hb e (List.mem_cons_of_mem _ he)) h''
      rw [this, Prod.ext hn hv]

/-- **the old encoding (plain concatenation) is ambiguous**: `{a="bc"}` and `{ab="c"}` collide -/
theorem concat_ambiguous :
    ∃ a b : Labels, a ≠ b ∧ a.flatMap (fun kv => kv.1 ++ kv.2) = b.flatMap (fun kv => kv.1 ++ kv.2) :=
  ⟨[([97], [98, 99])], [([97, 98], [99])], by decide, by decide⟩

/-- …and the repaired encoding separates the two -/
example : encode [([97], [98, 99])] ≠ encode [([97, 98], [99])] := by decide

/-! ### sorting by name -/

def insertByName (x : Bytes × Bytes) : Labels → Labels
  | [] => [x]
  | y :: ys => if Bytes.lt x.1 y.1 then x :: y :: ys else y :: insertByName x ys

/-- insertion sort on `Bytes.lt` of the name -/
def sortByName (ls : Labels) : Labels := ls.foldr insertByName []

def SortedByName (ls : Labels) : Prop := ls.Pairwise (fun a b => Bytes.lt a.1 b.1 = true)

theorem insertByName_perm (x : Bytes × Bytes) (ys : Labels) : (insertByName x ys).Perm (x :: ys) := by
  induction ys with
  | nil => exact List.Perm.refl _
  | cons y ys ih =>
    unfold insertByName
    split
    · exact List.Perm.refl _
    · exact (List.Perm.cons y ih).trans (List.Perm.swap x y ys)

theorem sortByName_perm (ls : Labels) : (sortByName ls).Perm ls := by
  induction ls with
  | nil => exact List.Perm.refl _
  | cons x xs ih => exact (insertByName_perm x _).trans (List.Perm.cons x ih)

theorem insertByName_sorted (x : Bytes × Bytes) (ys : Labels) (hs : SortedByName ys)
    (hx : ∀ y ∈ ys, y.1 ≠ x.1) : SortedByName (insertByName x ys) := by
  induction ys with
  | nil => simp [insertByName, SortedByName]
  | cons y ys ih =>
    unfold insertByName
    have hs' := List.pairwise_cons.mp hs
    split
    · rename_i hlt
      refine List.Pairwise.cons ?_ hs
      intro z hz
      rcases List.mem_cons.mp hz with rfl | hz
      · exact hlt
      · exact bytes_lt_trans _ _ _ hlt (hs'.1 z hz)
    · rename_i hnlt
      have hyx : Bytes.lt y.1 x.1 = true := by
        rcases bytes_lt_trichotomy x.1 y.1 with h | h | h
        · exact absurd h hnlt
        · exact absurd h.symm (hx y List.mem_cons_self)
        · exact h
      refine List.Pairwise.cons ?_ (ih hs'.2 (fun z hz => hx z (List.mem_cons_of_mem _ hz)))
      intro z hz
      rcases List.mem_cons.mp ((insertByName_perm x ys).mem_iff.mp hz) with rfl | hz
      · exact hyx
      · exact hs'.1 z hz

theorem sortByName_sorted (ls : Labels) (hn : (ls.map Prod.fst).Nodup) : SortedByName (sortByName ls) := by
  induction ls with
  | nil => exact List.Pairwise.nil
  | cons x xs ih =>
    simp only [List.map_cons, List.nodup_cons] at hn
    refine insertByName_sorted x _ (ih hn.2) ?_
    intro y hy heq
    exact hn.1 (List.mem_map.mpr ⟨y, (sortByName_perm xs).mem_iff.mp hy, heq⟩)

/-- two name-sorted lists with the same members are equal -/
theorem sorted_perm_eq (a b : Labels) (ha : SortedByName a) (hb : SortedByName b) (hp : a.Perm b) : a = b := by
  refine List.Perm.eq_of_pairwise (le := fun (x y : Bytes × Bytes) => Bytes.lt x.1 y.1 = true) ?_ ha hb hp
  intro x y _ _ hxy hyx
  rw [bytes_lt_asymm _ _ hxy] at hyx; cases hyx

/-- **sorting by name makes the key independent of the materialisation order** -/
theorem sortByName_perm_invariant (a b : Labels) (hp : a.Perm b) (hn : (a.map Prod.fst).Nodup) :
    sortByName a = sortByName b := by
  have hnb : (b.map Prod.fst).Nodup := (hp.map Prod.fst).nodup_iff.mp hn
  exact sorted_perm_eq _ _ (sortByName_sorted a hn) (sortByName_sorted b hnb)
    ((sortByName_perm a).trans (hp.trans (sortByName_perm b).symm))

theorem key_perm_invariant (h : List Nat → Nat) (a b : Labels) (hp : a.Perm b) (hn : (a.map Prod.fst).Nodup) :
    h (encode (sortByName a)) = h (encode (sortByName b)) := by
  rw [sortByName_perm_invariant a b hp hn]

/-- **equal keys mean equal (sorted) label sets**, for an injective hash -/
theorem same_key_iff_same_set (h : List Nat → Nat) (hinj : Function.Injective h) (a b : Labels)
    (ha : ∀ kv ∈ a, kv.1.length < 2 ^ 64 ∧ kv.2.length < 2 ^ 64)
    (hb : ∀ kv ∈ b, kv.1.length < 2 ^ 64 ∧ kv.2.length < 2 ^ 64) :
    h (encode (sortByName a)) = h (encode (sortByName b)) ↔ sortByName a = sortByName b := by
  constructor
  · intro he
    exact encode_injective _ _ (fun kv hkv => ha kv ((sortByName_perm a).mem_iff.mp hkv))
      (fun kv hkv => hb kv ((sortByName_perm b).mem_iff.mp hkv)) (hinj he)
  · intro he; rw [he]

/-! ### the key identifies exactly the `sameSet` classes -/

theorem sameLabels_iff_mem {a b : Labels} (ha : C08.WF a) (hb : C08.WF b) :
    sameLabels a b = true ↔ ∀ kv, kv ∈ a ↔ kv ∈ b := by
  rw [C08.sameLabels_eq, Bool.and_eq_true, C08.subLabels_iff, C08.subLabels_iff]
  constructor
  · rintro ⟨h1, h2⟩ ⟨k, v⟩
    exact ⟨fun hm => C08.mem_of_lookup (h1 k v hm), fun hm => C08.mem_of_lookup (h2 k v hm)⟩
  · intro h
    exact ⟨fun k v hm => C08.lookup_of_mem_wf hb ((h (k, v)).mp hm),
      fun k v hm => C08.lookup_of_mem_wf ha ((h (k, v)).mpr hm)⟩

theorem sameLabels_iff_perm {a b : Labels} (ha : C08.WF a) (hb : C08.WF b) :
    sameLabels a b = true ↔ a.Perm b := by
  rw [sameLabels_iff_mem ha hb]
  have nd : ∀ {l : Labels}, C08.WF l → l.Nodup := fun h =>
    List.Pairwise.of_map Prod.fst (fun _ _ hne heq => hne (heq ▸ rfl)) h
  exact (List.perm_ext_iff_of_nodup (nd ha) (nd hb)).symm

/-- on well-formed label sets, `sameLabels` is "same list after sorting by name" -/
theorem sameLabels_iff_sorted_eq {a b : Labels} (ha : C08.WF a) (hb : C08.WF b) :
    sameLabels a b = true ↔ sortByName a = sortByName b := by
  rw [sameLabels_iff_perm ha hb]
  constructor
  · intro hp; exact sortByName_perm_invariant a b hp ha
  · intro he
    exact (sortByName_perm a).symm.trans (he ▸ sortByName_perm b)

/-- **two series get the same grouping key iff they carry the same label set** (injective hash, strings
shorter than 2⁶⁴, distinct names) -/
theorem same_key_iff_sameSet (h : List Nat → Nat) (hinj : Function.Injective h) (a b : AggLabels)
    (hwa : WFSet a) (hwb : WFSet b)
    (ha : ∀ kv ∈ a.visible, kv.1.length < 2 ^ 64 ∧ kv.2.length < 2 ^ 64)
    (hb : ∀ kv ∈ b.visible, kv.1.length < 2 ^ 64 ∧ kv.2.length < 2 ^ 64) :
    h (encode (sortByName a.visible)) = h (encode (sortByName b.visible)) ↔ sameSet a b = true := by
  rw [same_key_iff_same_set h hinj _ _ ha hb]
  exact (sameLabels_iff_sorted_eq hwa hwb).symm

/-! ## non-vacuity: concrete instances of the hypotheses -/

section Examples

private def setA : AggLabels := ⟨[([97], [1]), ([98], [2])], [], none⟩      -- {a=1, b=2}
private def setA' : AggLabels := ⟨[([98], [2]), ([97], [1])], [], none⟩     -- {b=2, a=1}: the same set, other order
private def setB : AggLabels := ⟨[([97], [3])], [], none⟩                   -- {a=3}

-- WFSet / sameSet_refl / sameSet_trans
example : WFSet setA ∧ WFSet setA' ∧ WFSet setB := by unfold WFSet; decide
example : sameSet setA setA' = true ∧ sameSet setA' setA = true ∧ sameSet setA setB = false := by decide

private def keyOf (n : Nat) : AggLabels := [setA, setB, setA'].getD n setB

-- every_element_grouped / group_members: three elements, two label sets, the first and last in the same group
example : (∀ x ∈ [0, 1, 2], WFSet (keyOf x)) ∧
    (groupBySet keyOf [0, 1, 2]).map (fun g => (g.1.visible, g.2)) =
      [([([97], [1]), ([98], [2])], [0, 2]), ([([97], [3])], [1])] := by
  refine ⟨by unfold WFSet; decide, by decide⟩

-- group_unique
example : sameSet setA setA' = true ∧ sameSet setA' setA' = true := by decide

-- vecStep_no_duplicate_series / vecStep_agg
example : VecOp.sum ∈ aggOps := by decide

-- le64_inj / encode_injective / same_key_iff_same_set: short strings
example : ∀ kv ∈ ([([97], [1]), ([98], [2])] : Labels), kv.1.length < 2 ^ 64 ∧ kv.2.length < 2 ^ 64 := by decide
example : le64 258 = [2, 1, 0, 0, 0, 0, 0, 0] := by decide
example : encode [([97], [1, 2])] = [1, 0, 0, 0, 0, 0, 0, 0, 97, 2, 0, 0, 0, 0, 0, 0, 0, 1, 2] := by decide

-- bytes_lt_trans / asymm
example : Bytes.lt [97] [97, 98] = true ∧ Bytes.lt [97, 98] [98] = true ∧ Bytes.lt [97] [98] = true := by decide

-- sortByName_perm_invariant / key_perm_invariant: two orders of one label set
example : ([([98], [2]), ([97], [1])] : Labels).Perm [([97], [1]), ([98], [2])] ∧
    (([([98], [2]), ([97], [1])] : Labels).map Prod.fst).Nodup ∧
    sortByName [([98], [2]), ([97], [1])] = [([97], [1]), ([98], [2])] ∧
    sortByName [([97], [1]), ([98], [2])] = [([97], [1]), ([98], [2])] :=
  ⟨List.Perm.swap _ _ _, by decide, by decide, by decide⟩

-- without distinct names the sort is order dependent (the hypothesis of `sortByName_perm_invariant` is needed)
example : sortByName [([97], [1]), ([97], [2])] ≠ sortByName [([97], [2]), ([97], [1])] := by decide

-- same_key_iff_same_set / same_key_iff_sameSet: injective functions `List Nat → Nat` exist (a Gödel numbering)
private def godel (l : List Nat) : Nat := l.foldr (fun x acc => 2 ^ x * (2 * acc + 1)) 0

private theorem godel_key (x y p q : Nat) (hxy : x ≤ y) (he : 2 ^ x * (2 * p + 1) = 2 ^ y * (2 * q + 1)) :
    x = y ∧ p = q := by
  obtain ⟨d, rfl⟩ := Nat.exists_eq_add_of_le hxy
  rw [Nat.pow_add, Nat.mul_assoc] at he
  have he' := Nat.eq_of_mul_eq_mul_left (Nat.pow_pos (by omega)) he
  cases d with
  | zero => simp at he'; exact ⟨rfl, by omega⟩
  | succ d =>
    rw [Nat.pow_succ, Nat.mul_comm (2 ^ d) 2, Nat.mul_assoc] at he'
    generalize 2 ^ d * (2 * q + 1) = m at he'
    omega

private theorem godel_pos (x : Nat) (xs : List Nat) : 0 < godel (x :: xs) :=
  Nat.mul_pos (Nat.pow_pos (by omega)) (by omega)

example : ∃ h : List Nat → Nat, Function.Injective h := by
  refine ⟨godel, ?_⟩
  intro a
  induction a with
  | nil =>
    intro b hb
    cases b with
    | nil => rfl
    | cons y ys => have := godel_pos y ys; rw [← hb] at this; exact absurd this (by decide)
  | cons x xs ih =>
    intro b hb
    cases b with
    | nil => have := godel_pos x xs; rw [hb] at this; exact absurd this (by decide)
    | cons y ys =>
      have hb' : 2 ^ x * (2 * godel xs + 1) = 2 ^ y * (2 * godel ys + 1) := hb
      rcases Nat.le_total x y with hxy | hxy
      · obtain ⟨rfl, hpq⟩ := godel_key x y _ _ hxy hb'
        rw [ih hpq]
      · obtain ⟨rfl, hpq⟩ := godel_key y x _ _ hxy hb'.symm
        rw [ih hpq.symm]

end Examples

end Metric.C10
