import Verif.Model.Unparse
/-! C05: round trip at the expression level — every tree with a canonical writing (`Unparse.canonE`) is
parsed back, node for node, from its writing `Unparse.exprToks`, for every precedence table.  The round
trips of the lower productions (selector, pipeline, unwrap, `[range] offset`, grouping, label lists) are
hypotheses here (`Unparse.SelectorRT` …); they are proved in another file. -/
namespace C05Expr
open Syntax Parser Unparse
open Metric (BinOp RangeOp VecOp)

/-! ## first tokens -/

/-- the tokens a written expression can start with -/
def exprHeadOK : Tok → Bool
  | .num _ => true
  | .kw k => k == .lbrace || k == .lparen || k == .sub || k == .vector || k == .labelReplace ||
      (rangeOpOf k).isSome || (vecOpOf k).isSome
  | _ => false

theorem rangeOpOf_kw (op : RangeOp) : rangeOpOf (kwOfRangeOp op) = some op := by cases op <;> rfl
theorem vecOpOf_kw (op : VecOp) : vecOpOf (kwOfVecOp op) = some op := by cases op <;> rfl
theorem rangeOpOf_kwVec (op : VecOp) : rangeOpOf (kwOfVecOp op) = none := by cases op <;> rfl
theorem binOpOf_kw (op : BinOp) : binOpOf (kwOfBinOp op) = some op := by cases op <;> rfl

theorem exprToks_head (L : Lits) (e : Expr) :
    ∃ t tl, exprToks L e = t :: tl ∧ exprHeadOK t = true := by
  induction e with
  | log sel ss => exact ⟨_, _, rfl, rfl⟩
  | range op p sel ss r o u g =>
    refine ⟨_, _, rfl, ?_⟩
    simp [exprHeadOK, rangeOpOf_kw]
  | vagg op p g e ih =>
    refine ⟨_, _, rfl, ?_⟩
    simp [exprHeadOK, vecOpOf_kw]
  | bin l op m r ihl ihr =>
    obtain ⟨t, tl, h, ht⟩ := ihl
    exact ⟨t, _, by simp only [exprToks, h, List.cons_append]; rfl, ht⟩
  | lit v =>
    simp only [exprToks, litToks]
    split
    · exact ⟨_, _, rfl, rfl⟩
    · exact ⟨_, _, rfl, rfl⟩
  | vector v => exact ⟨_, _, rfl, rfl⟩
  | paren e ih => exact ⟨_, _, rfl, rfl⟩
  | labelReplace e dst repl src rx ih => exact ⟨_, _, rfl, rfl⟩

/-- what may follow a binary-operator modifier: nothing the modifier parser would take for a part of
the modifier -/
def modRest : Toks → Bool
  | .kw .bool :: _ => false
  | .kw .on :: _ => false
  | .kw .ignoring :: _ => false
  | .kw .groupLeft :: _ => false
  | .kw .groupRight :: _ => false
  | .kw .lparen :: .kw .rparen :: _ => false
  | .kw .lparen :: .ident _ :: _ => false
  | _ => true

theorem exprHeadOK_modRest1 {t : Tok} {tl : Toks} (h : exprHeadOK t = true) :
    modRest (.kw .lparen :: t :: tl) = true := by
  cases t with
  | kw k => cases k <;> first | rfl | simp [exprHeadOK, rangeOpOf, vecOpOf] at h
  | ident s => simp [exprHeadOK] at h
  | _ => rfl

theorem modRest_exprToks (L : Lits) (e : Expr) (rest : Toks) :
    modRest (exprToks L e ++ rest) = true := by
  induction e generalizing rest with
  | bin l op m r ihl ihr =>
    simp only [exprToks, List.append_assoc]
    exact ihl _
  | paren e ih =>
    obtain ⟨t, tl, h, ht⟩ := exprToks_head L e
    simp only [exprToks, h, List.cons_append]
    exact exprHeadOK_modRest1 ht
  | range op p sel ss r o u g => cases op <;> rfl
  | vagg op p g e ih => cases op <;> rfl
  | lit v =>
    simp only [exprToks, litToks]
    split <;> rfl
  | _ => rfl

/-- the part of `modifier` after the optional `bool` -/
def modifier2 (b : Bool) (t1 : Toks) : Option (Modifier × Toks) :=
  match t1 with
  | .kw k :: t2 =>
    if k == .on || k == .ignoring then
      match parenLabels t2 with
      | none => none
      | some (ls, t3) =>
        let m : Modifier := { bool := b, op := some (k == .ignoring), opLabels := ls }
        (match t3 with
         | .kw g :: t4 =>
           if g == .groupLeft || g == .groupRight then
             let m := { m with group := some (g == .groupRight) }
             (match t4 with
              | .kw .lparen :: .kw .rparen :: t5 => some (m, t5)
              | .kw .lparen :: .ident _ :: _ =>
                (match parenLabels t4 with
                 | some (inc, t5) => some ({ m with include_ := inc }, t5)
                 | none => none)
              | _ => some (m, t4))
           else some (m, t3)
         | _ => some (m, t3))
    else some ({ bool := b }, t1)
  | _ => some ({ bool := b }, t1)

theorem modifier_bool (t : Toks) : modifier (.kw .bool :: t) = modifier2 true t := by
  unfold modifier modifier2
  rfl

theorem modifier_nobool (t : Toks) (h : ∀ r, t ≠ .kw .bool :: r) : modifier t = modifier2 false t := by
  unfold modifier modifier2
  split
  · rename_i r heq
    split at heq
    · exact absurd rfl (h _)
    · cases heq; rfl

theorem modRest_nobool {t : Toks} (h : modRest t = true) : ∀ r, t ≠ .kw .bool :: r := by
  intro r hr; subst hr; simp [modRest] at h

/-- group part -/
theorem modifier2_rt (hpl : ParenLabelsRT) (b : Bool) (ign : Bool) (ols : List Bytes) (grp : Option Bool) (inc : List Bytes)
    (rest : Toks) (hg : grp.isSome || inc.isEmpty) (hr : modRest rest = true) :
    modifier2 b (modifierToks ⟨false, some ign, ols, grp, inc⟩ ++ rest) = some (⟨b, some ign, ols, grp, inc⟩, rest) := by
  cases ign <;>
  · simp only [modifierToks, Bool.false_eq_true, if_false, if_true, List.nil_append, List.cons_append, List.append_assoc]
    unfold modifier2
    simp only [beq_self_eq_true, Bool.or_true, Bool.true_or, if_true, hpl ols]
    cases grp with
    | none =>
      have hinc : inc = [] := by simpa using hg
      subst hinc
      simp only [List.nil_append]
      split
      · rename_i g t4
        split
        · rename_i hgk
          exfalso
          cases g <;> simp [modRest] at hr <;> simp at hgk
        · simp
      · simp
    | some right =>
      cases right <;>
      · simp only [List.cons_append, Bool.false_eq_true, if_false, if_true, beq_self_eq_true, Bool.or_true, Bool.true_or]
        cases inc with
        | nil =>
          simp only [List.isEmpty_nil, if_true, List.nil_append]
          split
          · simp [modRest] at hr
          · simp [modRest] at hr
          · simp
        | cons x xs =>
          have htl : ∃ tl, parenLabelsToks (x :: xs) ++ rest = .kw .lparen :: .ident x :: tl := by
            cases xs <;> exact ⟨_, rfl⟩
          obtain ⟨tl, htl⟩ := htl
          have h := hpl (x :: xs) rest
          simp only [List.isEmpty_cons, Bool.false_eq_true, if_false]
          rw [htl] at h ⊢
          simp [h]

theorem modifier2_none (b : Bool) (rest : Toks) (hr : modRest rest = true) :
    modifier2 b rest = some ({ bool := b }, rest) := by
  unfold modifier2
  split
  · rename_i k t2
    split
    · rename_i hk
      exfalso
      cases k <;> simp [modRest] at hr <;> simp at hk
    · rfl
  · rfl

theorem modifier_rt (hpl : ParenLabelsRT) (m : Modifier) (rest : Toks) (hwf : wfModifier m = true)
    (hr : modRest rest = true) : modifier (modifierToks m ++ rest) = some (m, rest) := by
  rcases m with ⟨b, op, ols, grp, inc⟩
  cases op with
  | none =>
    simp only [wfModifier, Option.isSome_none, Bool.false_or, Bool.and_eq_true, List.isEmpty_iff,
      Option.isNone_iff_eq_none, Bool.or_eq_true] at hwf
    obtain ⟨⟨rfl, rfl⟩, hinc⟩ := hwf
    have hinc : inc = [] := by simpa using hinc
    subst hinc
    cases b
    · simp only [modifierToks, Bool.false_eq_true, if_false, List.nil_append]
      rw [modifier_nobool _ (modRest_nobool hr), modifier2_none _ _ hr]
    · simp only [modifierToks, if_true, List.nil_append, List.append_nil, List.cons_append]
      rw [modifier_bool, modifier2_none _ _ hr]
  | some ign =>
    have hg : (grp.isSome || inc.isEmpty) = true := by simpa [wfModifier] using hwf
    have h2 := modifier2_rt hpl b ign ols grp inc rest hg hr
    cases b
    · rw [modifier_nobool _ ?_]
      · exact h2
      · intro r
        cases ign <;> simp [modifierToks]
    · have : modifierToks ⟨true, some ign, ols, grp, inc⟩ ++ rest =
          .kw .bool :: (modifierToks ⟨false, some ign, ols, grp, inc⟩ ++ rest) := by
        simp [modifierToks]
      rw [this, modifier_bool]
      exact h2

/-! ## `rangeExpr` -/

/-- the keywords a pipeline stage (or `| unwrap`) starts with -/
def isPipeK (k : K) : Bool := k == .pipe || k == .pipeExact || k == .pipeMatch || k == .neq || k == .nre

theorem rangeExpr_pipeFirst {re : ReEnv} {toks : Toks} {sel : List Matcher} {k : K} {tl : Toks} {ss : List Stage}
    {u : Option Unwrap} {t1 t2 t3 : Toks} {r : Int} {o : Option Int}
    (h1 : selector re (toks.length + 1) toks = some (sel, .kw k :: tl)) (hk : isPipeK k = true)
    (h2 : pipeline re true ((Tok.kw k :: tl).length + 1) (.kw k :: tl) = some (ss, t1))
    (h3 : unwrap? re t1 = some (u, t2)) (h4 : rangeOffset t2 = some (r, o, t3)) :
    rangeExpr re toks = some (⟨sel, ss, r, o, u⟩, t3) := by
  unfold rangeExpr
  simp only [h1]
  cases k <;> simp [isPipeK] at hk <;> simp only [h2, h3, h4, Option.map_some]

theorem rangeExpr_rangeFirst {re : ReEnv} {toks : Toks} {sel : List Matcher} {tl : Toks} {ss : List Stage}
    {u : Option Unwrap} {t1 t2 t3 : Toks} {r : Int} {o : Option Int}
    (h1 : selector re (toks.length + 1) toks = some (sel, .kw .lbracket :: tl))
    (h2 : rangeOffset (.kw .lbracket :: tl) = some (r, o, t1))
    (h3 : pipeline re true (t1.length + 1) t1 = some (ss, t2))
    (h4 : unwrap? re t2 = some (u, t3)) :
    rangeExpr re toks = some (⟨sel, ss, r, o, u⟩, t3) := by
  unfold rangeExpr
  simp only [h1, h2, h3, h4, Option.map_some]

theorem stageToks_head (L : Lits) (s : Stage) : ∃ k tl, stageToks L s = .kw k :: tl ∧ isPipeK k = true := by
  cases s with
  | lineFilter op v ip => cases op <;> exact ⟨_, _, rfl, rfl⟩
  | _ => exact ⟨_, _, rfl, rfl⟩

theorem stagesToks_length (L : Lits) (ss : List Stage) : ss.length ≤ (stagesToks L ss).length := by
  induction ss with
  | nil => simp
  | cons s ss ih =>
    obtain ⟨k, tl, h, _⟩ := stageToks_head L s
    simp only [stagesToks, List.map_cons, List.flatten_cons, List.length_append, List.length_cons, h] at ih ⊢
    omega

theorem stagesToks_cons (L : Lits) (s : Stage) (ss : List Stage) :
    stagesToks L (s :: ss) = stageToks L s ++ stagesToks L ss := by
  simp [stagesToks]

theorem unwrapToks_some_head (u : Unwrap) : ∃ tl, unwrapToks (some u) = .kw .pipe :: .kw .unwrap :: tl :=
  ⟨_, rfl⟩

theorem rangeOffsetToks_head (L : Lits) (r : Int) (o : Option Int) :
    ∃ tl, rangeOffsetToks L r o = .kw .lbracket :: tl := ⟨_, rfl⟩

theorem rangeExpr_rt {re : ReEnv} {L : Lits} (hsel : SelectorRT re) (hpipe : PipelineRT re L) (hunw : UnwrapRT re)
    (hro : RangeOffsetRT L) (sel : List Matcher) (ss : List Stage) (u : Option Unwrap) (r : Int) (o : Option Int)
    (rest : Toks) (hs : sel.all (matcherOK re) = true) (hss : canonStages re L ss = true)
    (hu : wfUnwrap re u = true) (hr : durOK L r = true)
    (ho : match o with | none => True | some d => durOK L d = true) :
    rangeExpr re (selectorToks sel ++ stagesToks L ss ++ unwrapToks u ++ rangeOffsetToks L r o ++ .kw .rparen :: rest)
      = some (⟨sel, ss, r, o, u⟩, .kw .rparen :: rest) := by
  have hro' := hro r o (.kw .rparen :: rest) hr ho (by intro t h; cases h)
  obtain ⟨rtl, hrtl⟩ := rangeOffsetToks_head L r o
  simp only [List.append_assoc]
  have h1 := hsel sel (stagesToks L ss ++ (unwrapToks u ++ (rangeOffsetToks L r o ++ .kw .rparen :: rest)))
    (selectorToks sel ++ (stagesToks L ss ++ (unwrapToks u ++ (rangeOffsetToks L r o ++ .kw .rparen :: rest)))).length hs
  by_cases hc : ss = [] ∧ u = none
  · obtain ⟨rfl, rfl⟩ := hc
    simp only [stagesToks, List.map_nil, List.flatten_nil, unwrapToks, List.nil_append] at h1 hro' ⊢
    rw [hrtl] at h1 hro' ⊢
    simp only [List.cons_append] at h1 hro' ⊢
    refine rangeExpr_rangeFirst (t2 := .kw .rparen :: rest) h1 hro' ?_ ?_
    · have := hpipe true [] (.kw .rparen :: rest) ((Tok.kw K.rparen :: rest).length + 1) rfl rfl (by simp)
      simpa [stagesToks] using this
    · exact hunw none (.kw .rparen :: rest) rfl (by intro r h; cases h)
  · -- the token after the selector starts a stage or `| unwrap`
    have hstop : stopOK true (unwrapToks u ++ (rangeOffsetToks L r o ++ .kw .rparen :: rest)) = true := by
      cases u with
      | none => rw [hrtl]; rfl
      | some u => rfl
    have hhead : ∃ k tl, stagesToks L ss ++ (unwrapToks u ++ (rangeOffsetToks L r o ++ .kw .rparen :: rest)) = .kw k :: tl ∧
        isPipeK k = true := by
      cases ss with
      | cons s ss =>
        obtain ⟨k, tl, h, hk⟩ := stageToks_head L s
        exact ⟨k, _, by rw [stagesToks_cons, h]; rfl, hk⟩
      | nil =>
        cases u with
        | none => exact absurd ⟨rfl, rfl⟩ hc
        | some u => exact ⟨_, _, rfl, rfl⟩
    obtain ⟨k, tl, hkt, hk⟩ := hhead
    have h2 := hpipe true ss (unwrapToks u ++ (rangeOffsetToks L r o ++ .kw .rparen :: rest))
      ((Tok.kw k :: tl).length + 1) hss hstop (by
        have := stagesToks_length L ss
        rw [← hkt, List.length_append]; omega)
    have h3 := hunw u (rangeOffsetToks L r o ++ .kw .rparen :: rest) hu (by rw [hrtl]; intro r h; cases h)
    rw [hkt] at h1 h2 ⊢
    exact rangeExpr_pipeFirst h1 hk h2 h3 hro'

/-! ## the productions of `metricExpr1`, one lemma each -/

section steps
variable {re : ReEnv} {prec : BinOp → Nat} {isLogic : BinOp → Bool}

theorem step_paren {f : Nat} {t : Toks} {e : Expr} {rest : Toks}
    (h : expr re prec isLogic f t = some (e, .kw .rparen :: rest)) :
    metricExpr1 re prec isLogic (f + 1) (.kw .lparen :: t) = some (.paren e, rest) := by
  simp only [metricExpr1, h]

theorem step_vector {f : Nat} {t : Bytes} {v : Rat} {rest : Toks} (h : Num.parseFloat t = some v) :
    metricExpr1 re prec isLogic (f + 1) (.kw .vector :: .kw .lparen :: .num t :: .kw .rparen :: rest)
      = some (.vector v, rest) := by
  simp only [metricExpr1, h, Option.map_some]

theorem step_num {f : Nat} {t : Bytes} {v : Rat} {rest : Toks} (h : Num.parseFloat t = some v) :
    metricExpr1 re prec isLogic (f + 1) (.num t :: rest) = some (.lit v, rest) := by
  simp only [metricExpr1, h, Option.map_some]

theorem step_neg {f : Nat} {t : Bytes} {v : Rat} {rest : Toks} (h : Num.parseFloat t = some v) :
    metricExpr1 re prec isLogic (f + 1) (.kw .sub :: .num t :: rest) = some (.lit (-v), rest) := by
  simp only [metricExpr1, h, Option.map_some]

theorem step_labelReplace {f : Nat} {t : Toks} {e : Expr} {dst repl src rx : Bytes} {rest : Toks}
    (h : metricExpr re prec isLogic f t = some (e, .kw .comma :: .str dst :: .kw .comma :: .str repl :: .kw .comma ::
      .str src :: .kw .comma :: .str rx :: .kw .rparen :: rest)) (hrx : re.ok rx = true) :
    metricExpr1 re prec isLogic (f + 1) (.kw .labelReplace :: .kw .lparen :: t)
      = some (.labelReplace e dst repl src rx, rest) := by
  simp only [metricExpr1, h, hrx, if_true]

theorem step_range_noparam {f : Nat} {op : RangeOp} {t : Toks} {b : RangeBody} {t3 rest : Toks} {g : Option Grouping}
    (hb : rangeExpr re (.kw .lbrace :: t) = some (b, .kw .rparen :: t3)) (hg : grouping? t3 = some (g, rest))
    (hv : validRange op none g b.unwrap = true) :
    metricExpr1 re prec isLogic (f + 1) (.kw (kwOfRangeOp op) :: .kw .lparen :: .kw .lbrace :: t)
      = some (.range op none b.sel b.stages b.rangeNs b.offset b.unwrap g, rest) := by
  cases op <;> simp only [metricExpr1, kwOfRangeOp, rangeOpOf, hb, hg] <;> simp [hv]

theorem step_range_param {f : Nat} {op : RangeOp} {n : Bytes} {v : Rat} {t : Toks} {b : RangeBody} {t3 rest : Toks}
    {g : Option Grouping} (hn : Num.parseFloat n = some v)
    (hb : rangeExpr re t = some (b, .kw .rparen :: t3)) (hg : grouping? t3 = some (g, rest))
    (hv : validRange op (some v) g b.unwrap = true) :
    metricExpr1 re prec isLogic (f + 1) (.kw (kwOfRangeOp op) :: .kw .lparen :: .num n :: .kw .comma :: t)
      = some (.range op (some v) b.sel b.stages b.rangeNs b.offset b.unwrap g, rest) := by
  cases op <;> simp only [metricExpr1, kwOfRangeOp, rangeOpOf, hb, hg, hn] <;> simp [hv]

theorem step_vagg_param {f : Nat} {op : VecOp} {n : Bytes} {t : Toks} {e : Expr} {t3 rest : Toks}
    {g : Option Grouping} (hn : (n.all Bytes.isDigit && !n.isEmpty) = true)
    (hb : metricExpr re prec isLogic f t = some (e, .kw .rparen :: t3)) (hg : grouping? t3 = some (g, rest))
    (hv : validVec op (some (Bytes.digitsVal n : Int)) g = true) :
    metricExpr1 re prec isLogic (f + 1) (.kw (kwOfVecOp op) :: .kw .lparen :: .num n :: .kw .comma :: t)
      = some (.vagg op (some (Bytes.digitsVal n : Int)) g e, rest) := by
  cases op <;> simp only [metricExpr1, kwOfVecOp, rangeOpOf, vecOpOf, hb, hn] <;> simp [hg, hv]

theorem step_vagg_noparam {f : Nat} {op : VecOp} {t : Toks} {e : Expr} {t3 rest : Toks}
    {g : Option Grouping} (hn : ∀ n tl, t ≠ .num n :: tl)
    (hb : metricExpr re prec isLogic f t = some (e, .kw .rparen :: t3)) (hg : grouping? t3 = some (g, rest))
    (hv : validVec op none g = true) :
    metricExpr1 re prec isLogic (f + 1) (.kw (kwOfVecOp op) :: .kw .lparen :: t)
      = some (.vagg op none g e, rest) := by
  rcases t with _ | ⟨tok, tl⟩
  · cases op <;> simp only [metricExpr1, kwOfVecOp, rangeOpOf, vecOpOf, hb] <;> simp [hg, hv]
  · cases tok with
    | num n => exact absurd rfl (hn n tl)
    | _ => cases op <;> simp only [metricExpr1, kwOfVecOp, rangeOpOf, vecOpOf, hb] <;> simp [hg, hv]

end steps

/-! ## the binary-operation loops and `expr` -/

/-- the rest does not start with `by` / `without` -/
def noGrp : Toks → Bool
  | .kw .by_ :: _ => false
  | .kw .without :: _ => false
  | _ => true

/-- the rest does not start with a binary operator -/
def noBin : Toks → Bool
  | .kw k :: _ => (binOpOf k).isNone
  | _ => true

/-- what may follow a complete expression: the end of the input or a closing parenthesis -/
def exprRest : Toks → Bool
  | [] => true
  | .kw .rparen :: _ => true
  | _ => false

theorem noGrp_spec {rest : Toks} (h : noGrp rest = true) :
    ∀ t, rest ≠ .kw .by_ :: t ∧ rest ≠ .kw .without :: t := by
  intro t
  constructor <;> (intro hr; subst hr; simp [noGrp] at h)

theorem exprRest_noGrp {rest : Toks} (h : exprRest rest = true) : noGrp rest = true := by
  unfold exprRest at h
  split at h
  · rfl
  · rfl
  · cases h

theorem exprRest_noBin {rest : Toks} (h : exprRest rest = true) : noBin rest = true := by
  unfold exprRest at h
  split at h
  · rfl
  · rfl
  · cases h

theorem exprRest_stopOK {rest : Toks} (h : exprRest rest = true) : stopOK false rest = true := by
  unfold exprRest at h
  split at h
  · rfl
  · rfl
  · cases h

section loops
variable {re : ReEnv} {prec : BinOp → Nat} {isLogic : BinOp → Bool}

theorem binOp_stop {f : Nat} {left : Expr} {minPrec : Nat} {rest : Toks} (h : noBin rest = true) :
    binOp re prec isLogic (f + 1) left minPrec rest = some (left, rest) := by
  unfold binOp
  split
  · rename_i k tl
    simp only [noBin, Option.isNone_iff_eq_none] at h
    simp only [h]
  · rfl

theorem binInner_stop {f : Nat} {op : BinOp} {right : Expr} {rest : Toks} (h : noBin rest = true) :
    binInner re prec isLogic (f + 1) op right rest = some (right, rest) := by
  unfold binInner
  split
  · rename_i k tl
    simp only [noBin, Option.isNone_iff_eq_none] at h
    simp only [h]
  · rfl

theorem metricExpr_atom {f : Nat} {toks : Toks} {e : Expr} {rest : Toks}
    (h : metricExpr1 re prec isLogic (f + 1) toks = some (e, rest)) (hr : noBin rest = true) :
    metricExpr re prec isLogic (f + 2) toks = some (e, rest) := by
  simp only [metricExpr, h, binOp_stop hr]

theorem metricExpr_bin {f : Nat} {toks : Toks} {l r : Expr} {op : BinOp} {m : Modifier} {mt t1 rest : Toks}
    (hl : metricExpr1 re prec isLogic (f + 2) toks = some (l, .kw (kwOfBinOp op) :: mt))
    (hm : modifier mt = some (m, t1))
    (hr : metricExpr1 re prec isLogic (f + 1) t1 = some (r, rest))
    (hlog : (isLogic op && (isLit l || isLit r)) = false) (hrest : noBin rest = true) :
    metricExpr re prec isLogic (f + 3) toks = some (.bin l op m r, rest) := by
  simp only [metricExpr, hl]
  unfold binOp
  simp only [binOpOf_kw, Nat.not_lt_zero, if_false, hm, hr, hlog, Bool.false_eq_true, binInner_stop hrest,
    binOp_stop hrest]

theorem expr_metric {f : Nat} {toks : Toks} (h : ∀ tl, toks ≠ .kw .lbrace :: tl) :
    expr re prec isLogic (f + 1) toks = metricExpr re prec isLogic f toks := by
  unfold expr
  split
  · exact absurd rfl (h _)
  · rfl

theorem expr_log {L : Lits} (hsel : SelectorRT re) (hpipe : PipelineRT re L) {f : Nat} {sel : List Matcher}
    {ss : List Stage} {rest : Toks} (hs : sel.all (matcherOK re) = true) (hss : canonStages re L ss = true)
    (hr : exprRest rest = true) :
    expr re prec isLogic (f + 1) (selectorToks sel ++ stagesToks L ss ++ rest) = some (.log sel ss, rest) := by
  have h1 := hsel sel (stagesToks L ss ++ rest) (selectorToks sel ++ (stagesToks L ss ++ rest)).length hs
  have h2 := hpipe false ss rest ((stagesToks L ss ++ rest).length + 1) hss (exprRest_stopOK hr) (by
    have := stagesToks_length L ss
    rw [List.length_append]; omega)
  rw [List.append_assoc]
  obtain ⟨tl, htl⟩ : ∃ tl, selectorToks sel ++ (stagesToks L ss ++ rest) = .kw .lbrace :: tl := ⟨_, rfl⟩
  rw [htl] at h1 ⊢
  unfold expr
  simp only [h1, h2]

end loops

/-! ## more on first tokens -/

theorem kwOfRangeOp_ne_lbrace (op : RangeOp) : kwOfRangeOp op ≠ .lbrace := by cases op <;> simp [kwOfRangeOp]
theorem kwOfVecOp_ne_lbrace (op : VecOp) : kwOfVecOp op ≠ .lbrace := by cases op <;> simp [kwOfVecOp]

/-- only a log query is written with a leading `{` -/
theorem exprToks_not_lbrace {re : ReEnv} {isLogic : BinOp → Bool} (L : Lits) (e : Expr)
    (hc : canonE re isLogic L e = true) (hl : isLog e = false) (rest : Toks) :
    ∀ tl, exprToks L e ++ rest ≠ .kw .lbrace :: tl := by
  induction e generalizing rest with
  | log sel ss => simp [isLog] at hl
  | bin l op m r ihl ihr =>
    intro tl
    simp only [canonE, Bool.and_eq_true, Bool.not_eq_true'] at hc
    simp only [exprToks, List.append_assoc]
    exact ihl hc.1.1.1.1.1.1.1 hc.1.1.1.2 _ tl
  | range op p sel ss r o u g =>
    intro tl h
    simp only [exprToks, List.cons_append, List.cons.injEq, Tok.kw.injEq] at h
    exact kwOfRangeOp_ne_lbrace op h.1
  | vagg op p g e ih =>
    intro tl h
    simp only [exprToks, List.cons_append, List.cons.injEq, Tok.kw.injEq] at h
    exact kwOfVecOp_ne_lbrace op h.1
  | lit v =>
    intro tl h
    simp only [exprToks, litToks] at h
    split at h <;> simp at h
  | vector v => intro tl h; simp [exprToks] at h
  | paren e ih => intro tl h; simp [exprToks] at h
  | labelReplace e dst repl src rx ih => intro tl h; simp [exprToks] at h

/-- a writing starts with a number token only if `startsWithNum` says so -/
theorem exprToks_not_num (L : Lits) (e : Expr) (hn : startsWithNum e = false) (rest : Toks) :
    ∀ n tl, exprToks L e ++ rest ≠ .num n :: tl := by
  induction e generalizing rest with
  | bin l op m r ihl ihr =>
    intro n tl
    simp only [exprToks, List.append_assoc]
    exact ihl (by simpa [startsWithNum] using hn) _ n tl
  | lit v =>
    intro n tl h
    simp only [startsWithNum, Bool.not_eq_false', decide_eq_true_eq] at hn
    simp [exprToks, litToks, hn] at h
  | _ => intro n tl h; simp [exprToks, selectorToks] at h

/-! ## fuel -/

/-- fuel needed by `expr` on the writing of a tree -/
def need : Expr → Nat
  | .log _ _ => 3
  | .range _ _ _ _ _ _ _ _ => 3
  | .vagg _ _ _ e => need e + 3
  | .bin l _ _ r => need l + need r + 4
  | .lit _ => 3
  | .vector _ => 3
  | .paren e => need e + 3
  | .labelReplace e _ _ _ _ => need e + 3

theorem need_pos (e : Expr) : 3 ≤ need e := by
  cases e <;> simp only [need] <;> omega

theorem litToks_length (L : Lits) (v : Rat) : 1 ≤ (litToks L v).length := by
  unfold litToks; split <;> simp

theorem need_le (L : Lits) (e : Expr) : need e ≤ 4 * (exprToks L e).length := by
  induction e with
  | log sel ss => simp only [need, exprToks, selectorToks, List.length_append, List.length_cons]; omega
  | range op p sel ss r o u g => simp only [need, exprToks, List.length_cons, List.length_append]; omega
  | vagg op p g e ih => simp only [need, exprToks, List.length_cons, List.length_append]; omega
  | bin l op m r ihl ihr => simp only [need, exprToks, List.length_cons, List.length_append]; omega
  | lit v => have := litToks_length L v; simp only [need, exprToks]; omega
  | vector v => simp [need, exprToks]
  | paren e ih => simp only [need, exprToks, List.length_cons, List.length_append]; omega
  | labelReplace e dst repl src rx ih => simp only [need, exprToks, List.length_cons, List.length_append]; omega

/-! ## the round trip, by induction on the tree -/

/-- the three round-trip statements for one tree (with explicit fuel bounds) -/
def RT (re : ReEnv) (prec : BinOp → Nat) (isLogic : BinOp → Bool) (L : Lits) (e : Expr) : Prop :=
  (isBin e = false → isLog e = false → ∀ fuel rest, noGrp rest = true → need e ≤ fuel + 2 →
     metricExpr1 re prec isLogic fuel (exprToks L e ++ rest) = some (e, rest)) ∧
  (isLog e = false → ∀ fuel rest, noGrp rest = true → noBin rest = true → need e ≤ fuel + 1 →
     metricExpr re prec isLogic fuel (exprToks L e ++ rest) = some (e, rest)) ∧
  (∀ fuel rest, exprRest rest = true → need e ≤ fuel →
     expr re prec isLogic fuel (exprToks L e ++ rest) = some (e, rest))

section main
variable {re : ReEnv} {prec : BinOp → Nat} {isLogic : BinOp → Bool} {L : Lits}

/-- `expr` from `metricExpr` for a tree that is not a log query -/
theorem rt_expr_of_metric {e : Expr} (hc : canonE re isLogic L e = true) (hl : isLog e = false)
    (h2 : ∀ fuel rest, noGrp rest = true → noBin rest = true → need e ≤ fuel + 1 →
      metricExpr re prec isLogic fuel (exprToks L e ++ rest) = some (e, rest)) :
    ∀ fuel rest, exprRest rest = true → need e ≤ fuel →
      expr re prec isLogic fuel (exprToks L e ++ rest) = some (e, rest) := by
  intro fuel rest hr hf
  have := need_pos e
  obtain ⟨f, rfl⟩ : ∃ f, fuel = f + 1 := ⟨fuel - 1, by omega⟩
  rw [expr_metric (exprToks_not_lbrace L e hc hl rest)]
  exact h2 f rest (exprRest_noGrp hr) (exprRest_noBin hr) (by omega)

/-- all three statements from the `metricExpr1` statement of an atomic tree -/
theorem rt_of_atom {e : Expr} (hc : canonE re isLogic L e = true) (_hb : isBin e = false) (hl : isLog e = false)
    (h1 : ∀ fuel rest, noGrp rest = true → need e ≤ fuel + 2 →
      metricExpr1 re prec isLogic fuel (exprToks L e ++ rest) = some (e, rest)) :
    RT re prec isLogic L e := by
  have h2 : ∀ fuel rest, noGrp rest = true → noBin rest = true → need e ≤ fuel + 1 →
      metricExpr re prec isLogic fuel (exprToks L e ++ rest) = some (e, rest) := by
    intro fuel rest hg hn hf
    have := need_pos e
    obtain ⟨f, rfl⟩ : ∃ f, fuel = f + 2 := ⟨fuel - 2, by omega⟩
    exact metricExpr_atom (h1 (f + 1) rest hg (by omega)) hn
  exact ⟨fun _ _ => h1, fun _ => h2, rt_expr_of_metric hc hl h2⟩

theorem rt_lit (v : Rat) (hc : canonE re isLogic L (.lit v) = true) : RT re prec isLogic L (.lit v) := by
  refine rt_of_atom hc rfl rfl ?_
  intro fuel rest _ hf
  simp only [need] at hf
  obtain ⟨f, rfl⟩ : ∃ f, fuel = f + 1 := ⟨fuel - 1, by omega⟩
  simp only [canonE, litOK] at hc
  simp only [exprToks, litToks]
  by_cases hv : v < 0
  · simp only [hv, if_true, beq_iff_eq] at hc ⊢
    have := step_neg (re := re) (prec := prec) (isLogic := isLogic) (f := f) (rest := rest) hc
    rw [Rat.neg_neg] at this
    exact this
  · simp only [hv, if_false, beq_iff_eq] at hc ⊢
    exact step_num hc

theorem rt_vector (v : Rat) (hc : canonE re isLogic L (.vector v) = true) : RT re prec isLogic L (.vector v) := by
  refine rt_of_atom hc rfl rfl ?_
  intro fuel rest _ hf
  simp only [need] at hf
  obtain ⟨f, rfl⟩ : ∃ f, fuel = f + 1 := ⟨fuel - 1, by omega⟩
  simp only [canonE, beq_iff_eq] at hc
  exact step_vector hc

theorem rt_paren (e : Expr) (ih : RT re prec isLogic L e) (hc : canonE re isLogic L (.paren e) = true) :
    RT re prec isLogic L (.paren e) := by
  refine rt_of_atom hc rfl rfl ?_
  intro fuel rest _ hf
  simp only [need] at hf
  obtain ⟨f, rfl⟩ : ∃ f, fuel = f + 1 := ⟨fuel - 1, by omega⟩
  simp only [exprToks, List.cons_append, List.append_assoc, List.nil_append]
  exact step_paren (ih.2.2 f (.kw .rparen :: rest) rfl (by omega))

theorem rt_labelReplace (e : Expr) (dst repl src rx : Bytes) (ih : RT re prec isLogic L e)
    (hc : canonE re isLogic L (.labelReplace e dst repl src rx) = true) :
    RT re prec isLogic L (.labelReplace e dst repl src rx) := by
  refine rt_of_atom hc rfl rfl ?_
  intro fuel rest _ hf
  simp only [need] at hf
  obtain ⟨f, rfl⟩ : ∃ f, fuel = f + 1 := ⟨fuel - 1, by omega⟩
  simp only [canonE, Bool.and_eq_true, Bool.not_eq_true'] at hc
  obtain ⟨⟨hce, hle⟩, hrx⟩ := hc
  simp only [exprToks, List.cons_append, List.append_assoc, List.nil_append]
  exact step_labelReplace (ih.2.1 hle f _ rfl rfl (by omega)) hrx

theorem rt_vagg (hgrp : GroupingRT) (op : VecOp) (p : Option Int) (g : Option Grouping) (e : Expr)
    (ih : RT re prec isLogic L e) (hc : canonE re isLogic L (.vagg op p g e) = true) :
    RT re prec isLogic L (.vagg op p g e) := by
  refine rt_of_atom hc rfl rfl ?_
  intro fuel rest hrest hf
  simp only [need] at hf
  obtain ⟨f, rfl⟩ : ∃ f, fuel = f + 1 := ⟨fuel - 1, by omega⟩
  simp only [canonE, Bool.and_eq_true, Bool.not_eq_true'] at hc
  obtain ⟨⟨⟨⟨hv, hce⟩, hle⟩, hsn⟩, hp⟩ := hc
  have hb := ih.2.1 hle f (.kw .rparen :: (groupingToks g ++ rest)) rfl rfl (by omega)
  have hg := hgrp g rest (noGrp_spec hrest)
  cases p with
  | none =>
    simp only [exprToks, List.cons_append, List.append_assoc, List.nil_append]
    exact step_vagg_noparam (exprToks_not_num L e hsn _) hb hg hv
  | some k =>
    simp only [intOK, Bool.and_eq_true, beq_iff_eq] at hp
    obtain ⟨hd, hk⟩ := hp
    simp only [exprToks, List.cons_append, List.append_assoc, List.nil_append]
    have := step_vagg_param (op := op) (n := L.int k) (by simpa using hd) hb hg (by rw [hk]; exact hv)
    rw [hk] at this
    exact this

theorem rt_range (hsel : SelectorRT re) (hpipe : PipelineRT re L) (hunw : UnwrapRT re) (hro : RangeOffsetRT L)
    (hgrp : GroupingRT) (op : RangeOp) (p : Option Rat) (sel : List Matcher) (ss : List Stage) (r : Int)
    (o : Option Int) (u : Option Unwrap) (g : Option Grouping)
    (hc : canonE re isLogic L (.range op p sel ss r o u g) = true) :
    RT re prec isLogic L (.range op p sel ss r o u g) := by
  refine rt_of_atom hc rfl rfl ?_
  intro fuel rest hrest hf
  simp only [need] at hf
  obtain ⟨f, rfl⟩ : ∃ f, fuel = f + 1 := ⟨fuel - 1, by omega⟩
  simp only [canonE, Bool.and_eq_true] at hc
  obtain ⟨⟨⟨⟨⟨⟨hv, hs⟩, hss⟩, hu⟩, hp⟩, hr⟩, ho⟩ := hc
  have hb := rangeExpr_rt hsel hpipe hunw hro sel ss u r o (groupingToks g ++ rest) hs hss hu hr
    (by cases o with
        | none => trivial
        | some d => exact ho)
  have hg := hgrp g rest (noGrp_spec hrest)
  cases p with
  | none =>
    simp only [exprToks, List.cons_append, List.append_assoc, List.nil_append]
    simp only [List.append_assoc] at hb
    obtain ⟨tl, htl⟩ : ∃ tl, selectorToks sel ++ (stagesToks L ss ++ (unwrapToks u ++ (rangeOffsetToks L r o ++
        Tok.kw K.rparen :: (groupingToks g ++ rest)))) = .kw .lbrace :: tl := ⟨_, rfl⟩
    rw [htl] at hb ⊢
    exact step_range_noparam hb hg hv
  | some k =>
    simp only [exprToks, List.cons_append, List.append_assoc, List.nil_append]
    simp only [List.append_assoc] at hb
    exact step_range_param (by simpa using hp) hb hg hv

theorem kwOfBinOp_noGrp (op : BinOp) (tl : Toks) : noGrp (.kw (kwOfBinOp op) :: tl) = true := by
  cases op <;> rfl

theorem rt_bin (hpl : ParenLabelsRT) (l : Expr) (op : BinOp) (m : Modifier) (r : Expr)
    (ihl : RT re prec isLogic L l) (ihr : RT re prec isLogic L r)
    (hc : canonE re isLogic L (.bin l op m r) = true) : RT re prec isLogic L (.bin l op m r) := by
  have hc' := hc
  simp only [canonE, canonModifier, Bool.and_eq_true, Bool.not_eq_true'] at hc'
  obtain ⟨⟨⟨⟨⟨⟨⟨hcl, hcr⟩, hbl⟩, hbr⟩, hll⟩, hlr⟩, hm⟩, hlog⟩ := hc'
  have h2 : ∀ fuel rest, noGrp rest = true → noBin rest = true → need (.bin l op m r) ≤ fuel + 1 →
      metricExpr re prec isLogic fuel (exprToks L (.bin l op m r) ++ rest) = some (.bin l op m r, rest) := by
    intro fuel rest hg hn hf
    simp only [need] at hf
    obtain ⟨f, rfl⟩ : ∃ f, fuel = f + 3 := ⟨fuel - 3, by omega⟩
    simp only [exprToks, List.cons_append, List.append_assoc]
    have h1 := ihl.1 hbl hll (f + 2) (.kw (kwOfBinOp op) :: (modifierToks m ++ (exprToks L r ++ rest)))
      (kwOfBinOp_noGrp op _) (by omega)
    have h3 := ihr.1 hbr hlr (f + 1) rest hg (by omega)
    exact metricExpr_bin h1 (modifier_rt hpl m _ hm (modRest_exprToks L r rest)) h3 hlog hn
  exact ⟨fun h => by simp [isBin] at h, fun _ => h2, rt_expr_of_metric hc rfl h2⟩

theorem rt_log (hsel : SelectorRT re) (hpipe : PipelineRT re L) (sel : List Matcher) (ss : List Stage)
    (hc : canonE re isLogic L (.log sel ss) = true) : RT re prec isLogic L (.log sel ss) := by
  refine ⟨fun _ h => by simp [isLog] at h, fun h => by simp [isLog] at h, ?_⟩
  intro fuel rest hr hf
  simp only [need] at hf
  obtain ⟨f, rfl⟩ : ∃ f, fuel = f + 1 := ⟨fuel - 1, by omega⟩
  simp only [canonE, Bool.and_eq_true] at hc
  exact expr_log hsel hpipe hc.1 hc.2 hr

theorem rt_all (hsel : SelectorRT re) (hpipe : PipelineRT re L) (hunw : UnwrapRT re) (hro : RangeOffsetRT L)
    (hgrp : GroupingRT) (hpl : ParenLabelsRT) (e : Expr) (hc : canonE re isLogic L e = true) :
    RT re prec isLogic L e := by
  induction e with
  | log sel ss => exact rt_log hsel hpipe sel ss hc
  | range op p sel ss r o u g => exact rt_range hsel hpipe hunw hro hgrp op p sel ss r o u g hc
  | vagg op p g e ih =>
    refine rt_vagg hgrp op p g e (ih ?_) hc
    simp only [canonE, Bool.and_eq_true] at hc
    exact hc.1.1.1.2
  | bin l op m r ihl ihr =>
    have hc' := hc
    simp only [canonE, Bool.and_eq_true] at hc'
    exact rt_bin hpl l op m r (ihl hc'.1.1.1.1.1.1.1) (ihr hc'.1.1.1.1.1.1.2) hc
  | lit v => exact rt_lit v hc
  | vector v => exact rt_vector v hc
  | paren e ih => exact rt_paren e (ih (by simpa [canonE] using hc)) hc
  | labelReplace e dst repl src rx ih =>
    refine rt_labelReplace e dst repl src rx (ih ?_) hc
    simp only [canonE, Bool.and_eq_true] at hc
    exact hc.1.1

end main

/-- **Round trip**: every tree with a canonical writing is parsed back from that writing, node for node,
for every precedence table. -/
theorem parse_roundtrip (re : Syntax.ReEnv) (prec : Metric.BinOp → Nat) (isLogic : Metric.BinOp → Bool) (L : Unparse.Lits)
    (hsel : Unparse.SelectorRT re) (hpipe : Unparse.PipelineRT re L) (hunw : Unparse.UnwrapRT re)
    (hro : Unparse.RangeOffsetRT L) (hgrp : Unparse.GroupingRT) (hpl : Unparse.ParenLabelsRT)
    (e : Syntax.Expr) (hc : Unparse.canonE re isLogic L e = true) :
    Parser.parse re prec isLogic (Unparse.exprToks L e) = some e := by
  have h := (rt_all (prec := prec) hsel hpipe hunw hro hgrp hpl e hc).2.2
    (4 * (exprToks L e).length + 8) [] rfl (by have := need_le L e; omega)
  rw [List.append_nil] at h
  simp only [parse, h]

/-! ## non-vacuity -/

/-- an environment, a spelling of literals and a tree for the examples: `vector(1) + (vector(2) * vector(3))` -/
def exRe : ReEnv := ⟨fun _ => true, fun _ => []⟩
def exL : Lits :=
  { dur := fun _ => [], byt := fun _ => [], int := fun _ => [],
    num := fun v => if v = 1 then [49] else if v = 2 then [50] else [51] }
def exE : Expr := .bin (.vector 1) .add {} (.paren (.bin (.vector 2) .mul {} (.vector 3)))

/-- the hypothesis `canonE … = true` of `parse_roundtrip` holds of a concrete nested binary operation -/
example : canonE exRe (fun _ => false) exL exE = true := by decide +kernel

/-- and the conclusion can be observed directly on it (here with a constant precedence table) -/
example : parse exRe (fun _ => 0) (fun _ => false) (exprToks exL exE) = some exE := by rfl

end C05Expr
