import Verif.Model.Unparse
import Verif.Gen.Prec
/-! C05: soundness of the static rules — every tree accepted by the parser model is statically
well-formed (`Unparse.wfE`). -/
namespace C05Sound
open Syntax Parser Unparse
open LogQL (StrOp CmpOp)
open Metric (BinOp RangeOp VecOp)

theorem reCheck_ok {re : ReEnv} {op : StrOp} {v : Bytes}
    (hc : ¬((op == StrOp.re || op == StrOp.nre) && !re.ok v) = true) :
    (!(op == StrOp.re || op == StrOp.nre) || re.ok v) = true := by
  generalize (op == StrOp.re || op == StrOp.nre) = a at hc ⊢
  generalize re.ok v = b at hc ⊢
  cases a <;> cases b <;> simp_all

theorem labelMatcher_ok {re : ReEnv} {toks : Toks} {m : Matcher} {rest : Toks}
    (h : labelMatcher re toks = some (m, rest)) : matcherOK re m = true := by
  unfold labelMatcher at h
  split at h
  · split at h
    · split at h
      · exact absurd h (by simp)
      · rename_i hc
        simp only [Option.some.injEq, Prod.mk.injEq] at h
        obtain ⟨rfl, _⟩ := h
        exact reCheck_ok hc
    · exact absurd h (by simp)
  · exact absurd h (by simp)

theorem matchersLoop_ok {re : ReEnv} : ∀ (fuel : Nat) {toks : Toks} {ms : List Matcher} {rest : Toks},
    matchersLoop re fuel toks = some (ms, rest) → ms.all (matcherOK re) = true := by
  intro fuel
  induction fuel with
  | zero => intro toks ms rest h; simp [matchersLoop] at h
  | succ fuel ih =>
    intro toks ms rest h
    unfold matchersLoop at h
    split at h
    · exact absurd h (by simp)
    · rename_i m r hm
      have hmo := labelMatcher_ok hm
      split at h
      · simp only [Option.some.injEq, Prod.mk.injEq] at h
        obtain ⟨rfl, _⟩ := h
        simp [hmo]
      · split at h
        · rename_i ms' r' hl
          simp only [Option.some.injEq, Prod.mk.injEq] at h
          obtain ⟨rfl, _⟩ := h
          simp [hmo, ih hl]
        · exact absurd h (by simp)
      · exact absurd h (by simp)

theorem selector_ok {re : ReEnv} : ∀ (fuel : Nat) {toks : Toks} {ms : List Matcher} {rest : Toks},
    selector re fuel toks = some (ms, rest) → ms.all (matcherOK re) = true := by
  intro fuel
  induction fuel with
  | zero => intro toks ms rest h; simp [selector] at h
  | succ fuel ih =>
    intro toks ms rest h
    unfold selector at h
    split at h
    · split at h
      · rename_i hs
        simp only [Option.some.injEq, Prod.mk.injEq] at h
        obtain ⟨rfl, _⟩ := h
        exact ih hs
      · exact absurd h (by simp)
    · simp only [Option.some.injEq, Prod.mk.injEq] at h
      obtain ⟨rfl, _⟩ := h
      rfl
    · exact matchersLoop_ok _ h
    · exact absurd h (by simp)


theorem pred_ok (re : ReEnv) : ∀ (fuel : Nat),
    (∀ {toks : Toks} {p : Pred} {rest : Toks}, predOr re fuel toks = some (p, rest) → wfPred re p = true) ∧
    (∀ {toks : Toks} {p : Pred} {rest : Toks}, predAnd re fuel toks = some (p, rest) → wfPred re p = true) ∧
    (∀ {toks : Toks} {p : Pred} {rest : Toks}, predUnary re fuel toks = some (p, rest) → wfPred re p = true) := by
  intro fuel
  induction fuel with
  | zero =>
    refine ⟨?_, ?_, ?_⟩ <;> intro toks p rest h
    · simp [predOr] at h
    · simp [predAnd] at h
    · simp [predUnary] at h
  | succ fuel ih =>
    obtain ⟨ihOr, ihAnd, ihUn⟩ := ih
    refine ⟨?_, ?_, ?_⟩ <;> intro toks p rest h
    · unfold predOr at h
      split at h
      · exact absurd h (by simp)
      · rename_i l r hl
        split at h
        · split at h
          · rename_i r' r'' hr
            simp only [Option.some.injEq, Prod.mk.injEq] at h
            obtain ⟨rfl, _⟩ := h
            simp [wfPred, ihAnd hl, ihOr hr]
          · exact absurd h (by simp)
        · simp only [Option.some.injEq, Prod.mk.injEq] at h
          obtain ⟨rfl, _⟩ := h
          exact ihAnd hl
    · unfold predAnd at h
      split at h
      · exact absurd h (by simp)
      · rename_i l r hl
        simp only at h
        split at h
        · simp only [Option.some.injEq, Prod.mk.injEq] at h
          obtain ⟨rfl, _⟩ := h
          exact ihUn hl
        · split at h
          · rename_i r' r'' hr
            simp only [Option.some.injEq, Prod.mk.injEq] at h
            obtain ⟨rfl, _⟩ := h
            simp [wfPred, ihUn hl, ihAnd hr]
          · exact absurd h (by simp)
    · unfold predUnary at h
      repeat' (first | (cases h; done) | split at h)
      all_goals
        simp only [Option.some.injEq, Prod.mk.injEq] at h
        obtain ⟨rfl, _⟩ := h
      all_goals first
        | rfl
        | (simp only [wfPred]; exact ihOr ‹_›)
        | (simp only [wfPred, matcherOK]; exact reCheck_ok ‹_›)

theorem labelsAndMatchers_ok {re : ReEnv} : ∀ (fuel : Nat) {toks : Toks} {labels : List Bytes} {ms : List Matcher}
    {ls' : List Bytes} {ms' : List Matcher} {rest : Toks},
    ms.all (matcherOK re) = true →
    labelsAndMatchers re fuel toks labels ms = some (ls', ms', rest) →
    ms'.all (matcherOK re) = true ∧ (!(ls'.isEmpty && ms'.isEmpty)) = true := by
  intro fuel
  induction fuel with
  | zero => intro toks labels ms ls' ms' rest _ h; simp [labelsAndMatchers] at h
  | succ fuel ih =>
    intro toks labels ms ls' ms' rest hms h
    unfold labelsAndMatchers at h
    split at h
    · extract_lets isM at h
      clear_value isM
      split at h
      · split at h
        · cases h
        · rename_i m r hm
          have hmo := labelMatcher_ok hm
          have hms' : (ms ++ [m]).all (matcherOK re) = true := by simp [hms, hmo]
          split at h
          · exact ih hms' h
          · simp only [Option.some.injEq, Prod.mk.injEq] at h
            obtain ⟨rfl, rfl, _⟩ := h
            refine ⟨hms', ?_⟩
            simp
      · split at h
        · exact ih hms h
        · simp only [Option.some.injEq, Prod.mk.injEq] at h
          obtain ⟨rfl, rfl, _⟩ := h
          refine ⟨hms, ?_⟩
          simp
    · cases h

/-- accumulator invariant of `labelFormat`: `seen` holds exactly the targets collected so far, and
these are pairwise distinct -/
def LFInv (seen : List Bytes) (rn tp : List (Bytes × Bytes)) : Prop :=
  (∀ x, x ∈ seen ↔ x ∈ rn.map (·.1) ++ tp.map (·.1)) ∧ (rn.map (·.1) ++ tp.map (·.1)).Nodup

theorem LFInv_nil : LFInv [] [] [] := by simp [LFInv]

theorem LFInv_rename {seen rn tp} {dst src : Bytes} (hi : LFInv seen rn tp)
    (hd : ¬ (seen.any (· == dst)) = true) : LFInv (dst :: seen) (rn ++ [(dst, src)]) tp := by
  obtain ⟨hm, hn⟩ := hi
  have hd' : dst ∉ seen := by simpa using hd
  have hd'' := fun h => hd' ((hm dst).2 h)
  constructor
  · intro x; simp only [List.mem_cons, hm x, List.map_append, List.mem_append, List.map_cons, List.map_nil]
    grind
  · simp only [List.map_append, List.map_cons, List.map_nil, List.append_assoc, List.singleton_append]
    have := (List.perm_middle (a := dst) (l₁ := rn.map (·.1)) (l₂ := tp.map (·.1))).nodup_iff
    rw [this, List.nodup_cons]
    exact ⟨hd'', hn⟩

theorem LFInv_tpl {seen rn tp} {dst t : Bytes} (hi : LFInv seen rn tp)
    (hd : ¬ (seen.any (· == dst)) = true) : LFInv (dst :: seen) rn (tp ++ [(dst, t)]) := by
  obtain ⟨hm, hn⟩ := hi
  have hd' : dst ∉ seen := by simpa using hd
  have hd'' := fun h => hd' ((hm dst).2 h)
  constructor
  · intro x; simp only [List.mem_cons, hm x, List.map_append, List.mem_append, List.map_cons, List.map_nil]
    grind
  · simp only [List.map_append, List.map_cons, List.map_nil]
    rw [← List.append_assoc]
    have := (List.perm_append_singleton dst (rn.map (·.1) ++ tp.map (·.1))).nodup_iff
    rw [this, List.nodup_cons]
    exact ⟨hd'', hn⟩

theorem labelFormat_ok {re : ReEnv} : ∀ (fuel : Nat) {toks : Toks} {seen : List Bytes} {rn tp : List (Bytes × Bytes)}
    {s : Stage} {rest : Toks},
    LFInv seen rn tp → labelFormat fuel toks seen rn tp = some (s, rest) → wfStage re s = true := by
  intro fuel
  induction fuel with
  | zero => intro toks seen rn tp s rest _ h; simp [labelFormat] at h
  | succ fuel ih =>
    intro toks seen rn tp s rest hi h
    unfold labelFormat at h
    split at h
    · rename_i dst v rest0
      split at h
      · cases h
      · rename_i hd
        simp only at h
        split at h
        · cases h
        · rename_i rn' tp' hnext
          have hi' : LFInv (dst :: seen) rn' tp' ∧ (!(rn'.isEmpty && tp'.isEmpty)) = true := by
            split at hnext
            · simp only [Option.some.injEq, Prod.mk.injEq] at hnext
              obtain ⟨rfl, rfl⟩ := hnext
              exact ⟨LFInv_rename hi hd, by simp⟩
            · simp only [Option.some.injEq, Prod.mk.injEq] at hnext
              obtain ⟨rfl, rfl⟩ := hnext
              exact ⟨LFInv_tpl hi hd, by simp⟩
            · cases hnext
          split at h
          · exact ih hi'.1 h
          · simp only [Option.some.injEq, Prod.mk.injEq] at h
            obtain ⟨rfl, _⟩ := h
            simp only [wfStage, Bool.and_eq_true, decide_eq_true_eq]
            exact ⟨hi'.1.2, hi'.2⟩
    · cases h

theorem identList_ok : ∀ (fuel : Nat) {toks : Toks} {ls : List Bytes} {rest : Toks},
    identList fuel toks = some (ls, rest) → (!ls.isEmpty) = true := by
  intro fuel
  induction fuel with
  | zero => intro toks ls rest h; simp [identList] at h
  | succ fuel ih =>
    intro toks ls rest h
    unfold identList at h
    repeat' (first | (cases h; done) | split at h)
    all_goals
      simp only [Option.some.injEq, Prod.mk.injEq] at h
      obtain ⟨rfl, _⟩ := h
      rfl

theorem lineFilter_ok {re : ReEnv} {toks : Toks} {s : Stage} {rest : Toks}
    (h : lineFilter re toks = some (s, rest)) : wfStage re s = true := by
  unfold lineFilter at h
  split at h
  · simp only at h
    split at h
    · split at h
      · cases h
      · rename_i hc
        simp only [Option.some.injEq, Prod.mk.injEq] at h
        obtain ⟨rfl, _⟩ := h
        simp only [wfStage, reCheck_ok hc]
        rfl
    · split at h
      · rename_i hc
        simp only [Option.some.injEq, Prod.mk.injEq] at h
        obtain ⟨rfl, _⟩ := h
        rename_i op _ _ _ _
        cases op <;> simp_all [wfStage]
      · cases h
    · cases h
  · cases h

theorem pipeline_ok {re : ReEnv} {au : Bool} : ∀ (fuel : Nat) {toks : Toks} {ss : List Stage} {rest : Toks},
    pipeline re au fuel toks = some (ss, rest) → ss.all (wfStage re) = true := by
  intro fuel
  induction fuel with
  | zero => intro toks ss rest h; simp [pipeline] at h
  | succ fuel ih =>
    intro toks ss rest h
    unfold pipeline at h
    extract_lets more at h
    have hmore : ∀ (s : Stage) (r : Toks), wfStage re s = true → more s r = some (ss, rest) →
        ss.all (wfStage re) = true := by
      intro s r hs hm
      simp only [more] at hm
      split at hm
      · rename_i ss' r' hp
        simp only [Option.some.injEq, Prod.mk.injEq] at hm
        obtain ⟨rfl, _⟩ := hm
        simp [hs, ih hp]
      · cases hm
    clear_value more
    split at h
    · split at h
      · rename_i s r hl
        exact hmore _ _ (lineFilter_ok hl) h
      · cases h
    · split at h
      · rename_i s r hl
        exact hmore _ _ (lineFilter_ok hl) h
      · cases h
    · split at h
      · rename_i s r hl
        exact hmore _ _ (lineFilter_ok hl) h
      · cases h
    · split at h
      · rename_i s r hl
        exact hmore _ _ (lineFilter_ok hl) h
      · cases h
    · split at h
      · exact hmore _ _ rfl h
      · cases h
    · split at h
      · exact hmore _ _ rfl h
      · cases h
    · split at h
      · cases h
      · rename_i hok
        extract_lets names at h
        split at h
        · cases h
        · rename_i hc
          refine hmore _ _ ?_ h
          simp only [Bool.not_eq_true, Bool.not_eq_false'] at hok
          simp only [Bool.or_eq_true, Bool.not_eq_true', decide_eq_false_iff_not, not_or, Bool.not_eq_false,
            Decidable.not_not] at hc
          simp only [wfStage, hok, hc.1, hc.2, decide_true]
          simp [names]
    · exact hmore _ _ rfl h
    · exact hmore _ _ rfl h
    · exact hmore _ _ rfl h
    · exact hmore _ _ rfl h
    · split at h
      · rename_i s r hl
        exact hmore _ _ (labelFormat_ok _ LFInv_nil hl) h
      · cases h
    · split at h
      · rename_i ls ms r hl
        have := labelsAndMatchers_ok (re := re) _ (by rfl) hl
        refine hmore _ _ ?_ h
        simp only [wfStage, this.1, this.2, Bool.and_self]
      · cases h
    · split at h
      · rename_i ls ms r hl
        have := labelsAndMatchers_ok (re := re) _ (by rfl) hl
        refine hmore _ _ ?_ h
        simp only [wfStage, this.1, this.2, Bool.and_self]
      · cases h
    · split at h
      · rename_i ls r hl
        exact hmore (.distinct ls) _ (identList_ok _ hl) h
      · cases h
    · split at h
      · simp only [Option.some.injEq, Prod.mk.injEq] at h
        obtain ⟨rfl, _⟩ := h
        rfl
      · cases h
    · split at h
      · rename_i p r hl
        exact hmore (.labelFilter p) _ ((pred_ok re _).1 hl) h
      · cases h
    · split at h
      · rename_i p r hl
        exact hmore (.labelFilter p) _ ((pred_ok re _).1 hl) h
      · cases h
    · cases h
    · simp only [Option.some.injEq, Prod.mk.injEq] at h
      obtain ⟨rfl, _⟩ := h
      rfl

theorem unwrapFilters_ok {re : ReEnv} : ∀ (fuel : Nat) {toks : Toks} {acc fs : List Matcher} {rest : Toks},
    acc.all (matcherOK re) = true → unwrapFilters re fuel toks acc = some (fs, rest) →
    fs.all (matcherOK re) = true := by
  intro fuel
  induction fuel with
  | zero => intro toks acc fs rest _ h; simp [unwrapFilters] at h
  | succ fuel ih =>
    intro toks acc fs rest hacc h
    unfold unwrapFilters at h
    split at h
    · split at h
      · rename_i m r hm
        exact ih (by simp [hacc, labelMatcher_ok hm]) h
      · cases h
    · simp only [Option.some.injEq, Prod.mk.injEq] at h
      obtain ⟨rfl, _⟩ := h
      exact hacc

theorem unwrap?_ok {re : ReEnv} {toks : Toks} {u : Option Unwrap} {rest : Toks}
    (h : unwrap? re toks = some (u, rest)) : wfUnwrap re u = true := by
  unfold unwrap? at h
  split at h
  · extract_lets head? at h
    have hdef : head? = head? := rfl
    conv at hdef => rhs; unfold head?
    clear_value head?
    split at h
    · cases h
    · rename_i op l r hh
      split at h
      · rename_i fs r' hf
        simp only [Option.some.injEq, Prod.mk.injEq] at h
        obtain ⟨rfl, _⟩ := h
        have hfs := unwrapFilters_ok (re := re) _ (by rfl) hf
        simp only [wfUnwrap, hfs, Bool.and_true]
        split at hdef
        all_goals first
          | (cases hdef; done)
          | (simp only [Option.some.injEq, Prod.mk.injEq] at hdef
             obtain ⟨rfl, _, _⟩ := hdef
             simp)
      · cases h
  · simp only [Option.some.injEq, Prod.mk.injEq] at h
    obtain ⟨rfl, _⟩ := h
    rfl

theorem rangeExpr_ok {re : ReEnv} {toks : Toks} {b : RangeBody} {rest : Toks}
    (h : rangeExpr re toks = some (b, rest)) :
    b.sel.all (matcherOK re) = true ∧ b.stages.all (wfStage re) = true ∧ wfUnwrap re b.unwrap = true := by
  unfold rangeExpr at h
  split at h
  · cases h
  · rename_i sel r hsel
    have hs := selector_ok _ hsel
    extract_lets pipePart at h
    have hpp : ∀ (t : Toks) (ss : List Stage) (u : Option Unwrap) (t' : Toks), pipePart t = some (ss, u, t') →
        ss.all (wfStage re) = true ∧ wfUnwrap re u = true := by
      intro t ss u t' hp
      simp only [pipePart] at hp
      split at hp
      · cases hp
      · rename_i ss' t1 hpl
        simp only [Option.map_eq_some_iff, Prod.mk.injEq, Prod.exists] at hp
        obtain ⟨u', t2, hu, rfl, rfl, _⟩ := hp
        exact ⟨pipeline_ok _ hpl, unwrap?_ok hu⟩
    clear_value pipePart
    split at h
    · split at h
      · cases h
      · simp only [Option.map_eq_some_iff, Prod.mk.injEq, Prod.exists] at h
        obtain ⟨ss, u, t, hp, rfl, _⟩ := h
        exact ⟨hs, hpp _ _ _ _ hp⟩
    case h_7 => cases h
    all_goals
      split at h
      · cases h
      · rename_i ss u t hp
        simp only [Option.map_eq_some_iff, Prod.mk.injEq, Prod.exists] at h
        obtain ⟨_, _, _, _, rfl, _⟩ := h
        exact ⟨hs, hpp _ _ _ _ hp⟩

theorem modifier_ok {toks : Toks} {m : Modifier} {rest : Toks}
    (h : modifier toks = some (m, rest)) : wfModifier m = true := by
  unfold modifier at h
  split at h
  rename_i b t1 _
  repeat' (first | (cases h; done) | split at h)
  all_goals
    simp only [Option.some.injEq, Prod.mk.injEq] at h
    obtain ⟨rfl, _⟩ := h
    simp [wfModifier]

/-- the loops of `parseBinOp` return their incoming operand or a binary operation: they never turn a
non-literal into a literal -/
theorem bin_isLit (re : ReEnv) (prec : BinOp → Nat) (isLogic : BinOp → Bool) : ∀ (fuel : Nat),
    (∀ {left : Expr} {minPrec : Nat} {toks : Toks} {e : Expr} {rest : Toks},
      binOp re prec isLogic fuel left minPrec toks = some (e, rest) → isLit e = true → isLit left = true) ∧
    (∀ {op : BinOp} {right : Expr} {toks : Toks} {e : Expr} {rest : Toks},
      binInner re prec isLogic fuel op right toks = some (e, rest) → isLit e = true → isLit right = true) := by
  intro fuel
  induction fuel with
  | zero =>
    refine ⟨?_, ?_⟩
    · intro left minPrec toks e rest h; simp [binOp] at h
    · intro op right toks e rest h; simp [binInner] at h
  | succ fuel ih =>
    obtain ⟨ihB, ihI⟩ := ih
    refine ⟨?_, ?_⟩
    · intro left minPrec toks e rest h hl
      unfold binOp at h
      repeat' (first | (cases h; done) | split at h)
      all_goals first
        | (simp only [Option.some.injEq, Prod.mk.injEq] at h
           obtain ⟨rfl, _⟩ := h
           exact hl)
        | (have := ihB h hl
           simp [isLit] at this)
    · intro op right toks e rest h hl
      unfold binInner at h
      repeat' (first | (cases h; done) | split at h)
      all_goals first
        | (simp only [Option.some.injEq, Prod.mk.injEq] at h
           obtain ⟨rfl, _⟩ := h
           exact hl)
        | (rename_i hb
           exact ihB hb (ihI h hl))

theorem mutual_ok (re : ReEnv) (prec : BinOp → Nat) (isLogic : BinOp → Bool) : ∀ (fuel : Nat),
    (∀ {toks : Toks} {e : Expr} {rest : Toks},
      expr re prec isLogic fuel toks = some (e, rest) → wfE re isLogic e = true) ∧
    (∀ {toks : Toks} {e : Expr} {rest : Toks},
      metricExpr re prec isLogic fuel toks = some (e, rest) → wfE re isLogic e = true) ∧
    (∀ {toks : Toks} {e : Expr} {rest : Toks},
      metricExpr1 re prec isLogic fuel toks = some (e, rest) → wfE re isLogic e = true) ∧
    (∀ {left : Expr} {minPrec : Nat} {toks : Toks} {e : Expr} {rest : Toks}, wfE re isLogic left = true →
      binOp re prec isLogic fuel left minPrec toks = some (e, rest) → wfE re isLogic e = true) ∧
    (∀ {op : BinOp} {right : Expr} {toks : Toks} {e : Expr} {rest : Toks}, wfE re isLogic right = true →
      binInner re prec isLogic fuel op right toks = some (e, rest) → wfE re isLogic e = true) := by
  intro fuel
  induction fuel with
  | zero =>
    refine ⟨?_, ?_, ?_, ?_, ?_⟩
    · intro toks e rest h; simp [expr] at h
    · intro toks e rest h; simp [metricExpr] at h
    · intro toks e rest h; simp [metricExpr1] at h
    · intro left minPrec toks e rest _ h; simp [binOp] at h
    · intro op right toks e rest _ h; simp [binInner] at h
  | succ fuel ih =>
    obtain ⟨ihE, ihM, ihM1, ihB, ihI⟩ := ih
    refine ⟨?_, ?_, ?_, ?_, ?_⟩
    · intro toks e rest h
      unfold expr at h
      split at h
      · split at h
        · cases h
        · rename_i sel r hsel
          split at h
          · rename_i ss r' hp
            simp only [Option.some.injEq, Prod.mk.injEq] at h
            obtain ⟨rfl, _⟩ := h
            simp only [wfE, selector_ok _ hsel, pipeline_ok _ hp, Bool.and_self]
          · cases h
      · exact ihM h
    · intro toks e rest h
      unfold metricExpr at h
      split at h
      · cases h
      · rename_i l r hl
        exact ihB (ihM1 hl) h
    · intro toks e rest h
      unfold metricExpr1 at h
      split at h
      · split at h
        · rename_i he
          simp only [Option.some.injEq, Prod.mk.injEq] at h
          obtain ⟨rfl, _⟩ := h
          simp only [wfE]
          exact ihE he
        · cases h
      · simp only [Option.map_eq_some_iff, Prod.mk.injEq] at h
        obtain ⟨v, _, rfl, _⟩ := h
        rfl
      · simp only [Option.map_eq_some_iff, Prod.mk.injEq] at h
        obtain ⟨v, _, rfl, _⟩ := h
        rfl
      · simp only [Option.map_eq_some_iff, Prod.mk.injEq] at h
        obtain ⟨v, _, rfl, _⟩ := h
        rfl
      · simp only [Option.map_eq_some_iff, Prod.mk.injEq] at h
        obtain ⟨v, _, rfl, _⟩ := h
        rfl
      · split at h
        · rename_i he
          split at h
          · rename_i hrx
            simp only [Option.some.injEq, Prod.mk.injEq] at h
            obtain ⟨rfl, _⟩ := h
            simp only [wfE, ihM he, hrx, Bool.and_self]
          · cases h
        · cases h
      · split at h
        · -- range aggregation
          repeat' (first | (cases h; done) | split at h)
          simp only [Option.some.injEq, Prod.mk.injEq] at h
          obtain ⟨rfl, _⟩ := h
          have hb := rangeExpr_ok ‹rangeExpr re _ = some _›
          simp only [wfE, ‹validRange _ _ _ _ = true›, hb.1, hb.2.1, hb.2.2, Bool.and_self]
        · -- vector aggregation
          extract_lets body at h
          have hbody : ∀ (t : Toks) (p : Option Int) (e : Expr) (t' : Toks), body t = some (p, e, t') →
              wfE re isLogic e = true := by
            intro t p e t' hb
            simp only [body] at hb
            repeat' (first | (cases hb; done) | split at hb)
            all_goals
              simp only [Option.some.injEq, Prod.mk.injEq] at hb
              obtain ⟨_, rfl, _⟩ := hb
              exact ihM ‹metricExpr re prec isLogic fuel _ = some _›
          clear_value body
          repeat' (first | (cases h; done) | split at h)
          all_goals
            simp only [Option.some.injEq, Prod.mk.injEq] at h
            obtain ⟨rfl, _⟩ := h
            simp only [wfE, ‹validVec _ _ _ = true›, hbody _ _ _ _ ‹body _ = some _›, Bool.and_self]
        · cases h
      · cases h
    · intro left minPrec toks e rest hleft h
      unfold binOp at h
      repeat' (first | (cases h; done) | split at h)
      all_goals try
        (simp only [Option.some.injEq, Prod.mk.injEq] at h
         obtain ⟨rfl, _⟩ := h
         exact hleft)
      rename_i _ m rest1 hm _ right rest2 hr hlog _ right' rest3 hi
      refine ihB ?_ h
      have hwr := ihM1 hr
      have hwr' := ihI hwr hi
      have hl' : isLit right' = true → isLit right = true := (bin_isLit re prec isLogic _).2 hi
      simp only [wfE, hleft, hwr', modifier_ok hm, Bool.true_and, Bool.not_eq_true']
      generalize isLogic _ = a at hlog ⊢
      generalize isLit left = b at hlog ⊢
      generalize isLit right = c at hlog hl' ⊢
      generalize isLit right' = d at hl' ⊢
      cases a <;> cases b <;> cases c <;> cases d <;> simp_all
    · intro op right toks e rest hright h
      unfold binInner at h
      repeat' (first | (cases h; done) | split at h)
      all_goals try
        (simp only [Option.some.injEq, Prod.mk.injEq] at h
         obtain ⟨rfl, _⟩ := h
         exact hright)
      rename_i hb
      exact ihI (ihB hright hb) h

/-- C05 (soundness of the static rules): text that violates a static rule is never accepted —
whatever tree the parser returns is statically well-formed -/
theorem parse_wf (re : Syntax.ReEnv) (prec : Metric.BinOp → Nat) (isLogic : Metric.BinOp → Bool)
    (toks : Parser.Toks) (e : Syntax.Expr)
    (h : Parser.parse re prec isLogic toks = some e) : Unparse.wfE re isLogic e = true := by
  unfold Parser.parse at h
  split at h
  · rename_i e' he
    simp only [Option.some.injEq] at h
    subst h
    exact (mutual_ok re prec isLogic _).1 he
  · cases h

/-- an accepted log query's stages and selector are well-formed -/
theorem parse_log_wf (re : Syntax.ReEnv) (prec : Metric.BinOp → Nat) (isLogic : Metric.BinOp → Bool)
    (toks : Parser.Toks) (sel : List Syntax.Matcher) (ss : List Syntax.Stage)
    (h : Parser.parse re prec isLogic toks = some (.log sel ss)) :
    sel.all (Unparse.matcherOK re) = true ∧ ss.all (Unparse.wfStage re) = true := by
  have := parse_wf re prec isLogic toks _ h
  simpa only [wfE, Bool.and_eq_true] using this

/-- an accepted top-level range aggregation satisfies the static rule table -/
theorem parse_range_valid (re : Syntax.ReEnv) (prec : Metric.BinOp → Nat) (isLogic : Metric.BinOp → Bool)
    (toks : Parser.Toks) (op : Metric.RangeOp) (p : Option Rat) (sel : List Syntax.Matcher)
    (ss : List Syntax.Stage) (r : Int) (o : Option Int) (u : Option Syntax.Unwrap) (g : Option Syntax.Grouping)
    (h : Parser.parse re prec isLogic toks = some (.range op p sel ss r o u g)) :
    Parser.validRange op p g u = true := by
  have := parse_wf re prec isLogic toks _ h
  simp only [wfE, Bool.and_eq_true] at this
  exact this.1.1.1

/-- non-vacuity: `sum by (a) (rate({a="b"}[5m]))` is accepted -/
example : ∃ e, Parser.parse ⟨fun _ => true, fun _ => []⟩ Gen.prec Gen.isLogic
    [.kw .sum, .kw .by_, .kw .lparen, .ident [97], .kw .rparen, .kw .lparen, .kw .rate, .kw .lparen,
     .kw .lbrace, .ident [97], .kw .eq, .str [98], .kw .rbrace, .kw .lbracket, .dur [53, 109], .kw .rbracket,
     .kw .rparen, .kw .rparen] = some e := by
  apply Option.isSome_iff_exists.mp
  decide +kernel

/-- the rule is not vacuous on the rejecting side either: `sum_over_time({a="b"}[5m])` (no unwrap) and
`{a=~"x"}` under an environment that rejects every regex are refused -/
example : (Parser.parse ⟨fun _ => true, fun _ => []⟩ Gen.prec Gen.isLogic
    [.kw .sumOverTime, .kw .lparen, .kw .lbrace, .ident [97], .kw .eq, .str [98], .kw .rbrace,
     .kw .lbracket, .dur [53, 109], .kw .rbracket, .kw .rparen]).isNone = true := by decide +kernel

example : (Parser.parse ⟨fun _ => false, fun _ => []⟩ Gen.prec Gen.isLogic
    [.kw .lbrace, .ident [97], .kw .re, .str [120], .kw .rbrace]).isNone = true := by decide +kernel

private def isLogRes : Option Expr → Bool
  | some (.log _ _) => true
  | _ => false

private theorem isLogRes_exists {o : Option Expr} (h : isLogRes o = true) : ∃ sel ss, o = some (.log sel ss) := by
  unfold isLogRes at h
  split at h
  · exact ⟨_, _, rfl⟩
  · cases h

private def isRangeRes : Option Expr → Bool
  | some (.range ..) => true
  | _ => false

private theorem isRangeRes_exists {o : Option Expr} (h : isRangeRes o = true) :
    ∃ op p sel ss r o' u g, o = some (.range op p sel ss r o' u g) := by
  unfold isRangeRes at h
  split at h
  · exact ⟨_, _, _, _, _, _, _, _, rfl⟩
  · cases h

/-- non-vacuity of `parse_log_wf`: `{a="b"} |= "x" | drop a` is accepted as a log query -/
example : ∃ sel ss, Parser.parse ⟨fun _ => true, fun _ => []⟩ Gen.prec Gen.isLogic
    [.kw .lbrace, .ident [97], .kw .eq, .str [98], .kw .rbrace, .kw .pipeExact, .str [120],
     .kw .pipe, .kw .drop, .ident [97]] = some (.log sel ss) :=
  isLogRes_exists (by decide +kernel)

/-- non-vacuity of `parse_range_valid`: `rate({a="b"}[5m])` is accepted as a range aggregation -/
example : ∃ op p sel ss r o u g, Parser.parse ⟨fun _ => true, fun _ => []⟩ Gen.prec Gen.isLogic
    [.kw .rate, .kw .lparen, .kw .lbrace, .ident [97], .kw .eq, .str [98], .kw .rbrace,
     .kw .lbracket, .dur [53, 109], .kw .rbracket, .kw .rparen] = some (.range op p sel ss r o u g) :=
  isRangeRes_exists (by decide +kernel)

end C05Sound
