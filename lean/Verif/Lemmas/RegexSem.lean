import Verif.Env.RegexSem
/-! The executable fuelled CPS backtracking matcher `Regex.m` decides the denotational relation
`Regex.Matches`: soundness for any fuel and continuation, completeness as soon as `dep r + |input| ≤ fuel`,
and `dep r + |s| ≤ fuelFor r s`, so `fullMatch`/`search` are exact with no fuel hypothesis. -/
namespace RegexSem
open Regex

/-! ## unfolding equations of `m` -/

theorem m_zero (r : Re) (pos : Nat) (s : List Nat) (caps : Caps) (k : Nat → List Nat → Caps → Option Caps) :
    m 0 r pos s caps k = none := rfl

theorem m_chr (f c pos : Nat) (s : List Nat) (caps : Caps) (k : Nat → List Nat → Caps → Option Caps) :
    m (f + 1) (.chr c) pos s caps k =
      (match s with
       | x :: t => if x = c then k (pos + 1) t caps else none
       | [] => none) := rfl

theorem m_cls (f : Nat) (neg : Bool) (rs : List (Nat × Nat)) (pos : Nat) (s : List Nat) (caps : Caps)
    (k : Nat → List Nat → Caps → Option Caps) :
    m (f + 1) (.cls neg rs) pos s caps k =
      (match s with
       | x :: t => if clsHas neg rs x = true then k (pos + 1) t caps else none
       | [] => none) := rfl

theorem m_any (f pos : Nat) (s : List Nat) (caps : Caps) (k : Nat → List Nat → Caps → Option Caps) :
    m (f + 1) .any pos s caps k =
      (match s with
       | x :: t => if x ≠ 10 then k (pos + 1) t caps else none
       | [] => none) := rfl

theorem m_eps (f pos : Nat) (s : List Nat) (caps : Caps) (k : Nat → List Nat → Caps → Option Caps) :
    m (f + 1) .eps pos s caps k = k pos s caps := rfl

theorem m_seq (f : Nat) (a b : Re) (pos : Nat) (s : List Nat) (caps : Caps)
    (k : Nat → List Nat → Caps → Option Caps) :
    m (f + 1) (.seq a b) pos s caps k = m f a pos s caps (fun p s' c => m f b p s' c k) := rfl

theorem m_alt (f : Nat) (a b : Re) (pos : Nat) (s : List Nat) (caps : Caps)
    (k : Nat → List Nat → Caps → Option Caps) :
    m (f + 1) (.alt a b) pos s caps k =
      (match m f a pos s caps k with
       | some c => some c
       | none => m f b pos s caps k) := rfl

theorem m_star (f : Nat) (r1 : Re) (pos : Nat) (s : List Nat) (caps : Caps)
    (k : Nat → List Nat → Caps → Option Caps) :
    m (f + 1) (.star r1) pos s caps k =
      (match m f r1 pos s caps (fun p s' c => if p > pos then m f (.star r1) p s' c k else none) with
       | some c => some c
       | none => k pos s caps) := rfl

theorem m_plus (f : Nat) (r1 : Re) (pos : Nat) (s : List Nat) (caps : Caps)
    (k : Nat → List Nat → Caps → Option Caps) :
    m (f + 1) (.plus r1) pos s caps k = m f (.seq r1 (.star r1)) pos s caps k := rfl

theorem m_opt (f : Nat) (r1 : Re) (pos : Nat) (s : List Nat) (caps : Caps)
    (k : Nat → List Nat → Caps → Option Caps) :
    m (f + 1) (.opt r1) pos s caps k =
      (match m f r1 pos s caps k with
       | some c => some c
       | none => k pos s caps) := rfl

theorem m_grp (f i : Nat) (r1 : Re) (pos : Nat) (s : List Nat) (caps : Caps)
    (k : Nat → List Nat → Caps → Option Caps) :
    m (f + 1) (.grp i r1) pos s caps k = m f r1 pos s caps (fun p s' c => k p s' ((i, pos, p) :: c)) := rfl

theorem m_bol (f pos : Nat) (s : List Nat) (caps : Caps) (k : Nat → List Nat → Caps → Option Caps) :
    m (f + 1) .bol pos s caps k = if pos = 0 then k pos s caps else none := rfl

theorem m_eol (f pos : Nat) (s : List Nat) (caps : Caps) (k : Nat → List Nat → Caps → Option Caps) :
    m (f + 1) .eol pos s caps k = if s.isEmpty then k pos s caps else none := rfl

/-! ## soundness -/

/-- soundness of the matcher core, any fuel, any continuation -/
theorem m_sound (fuel : Nat) (r : Re) (pos : Nat) (s : List Nat) (caps : Caps)
    (k : Nat → List Nat → Caps → Option Caps) (out : Caps)
    (h : m fuel r pos s caps k = some out) :
    ∃ mid rest caps', s = mid ++ rest ∧ Matches r pos mid rest ∧ k (pos + mid.length) rest caps' = some out := by
  induction fuel generalizing r pos s caps k out with
  | zero => rw [m_zero] at h; cases h
  | succ f ih =>
    cases r with
    | chr c =>
      rw [m_chr] at h
      cases s with
      | nil => cases h
      | cons x t =>
        simp only at h
        split at h
        · rename_i hx; subst hx
          exact ⟨[x], t, caps, rfl, Matches.chr _ _ _, h⟩
        · cases h
    | cls neg rs =>
      rw [m_cls] at h
      cases s with
      | nil => cases h
      | cons x t =>
        simp only at h
        split at h
        · rename_i hx
          exact ⟨[x], t, caps, rfl, Matches.cls _ _ _ _ _ hx, h⟩
        · cases h
    | any =>
      rw [m_any] at h
      cases s with
      | nil => cases h
      | cons x t =>
        simp only at h
        split at h
        · rename_i hx
          exact ⟨[x], t, caps, rfl, Matches.any _ _ _ hx, h⟩
        · cases h
    | eps =>
      rw [m_eps] at h
      exact ⟨[], s, caps, rfl, Matches.eps _ _, h⟩
    | seq a b =>
      rw [m_seq] at h
      obtain ⟨mid1, rest1, c1, hs1, hm1, hk1⟩ := ih _ _ _ _ _ _ h
      obtain ⟨mid2, rest2, c2, hs2, hm2, hk2⟩ := ih _ _ _ _ _ _ hk1
      subst hs2
      refine ⟨mid1 ++ mid2, rest2, c2, ?_, Matches.seq hm1 hm2, ?_⟩
      · rw [hs1, List.append_assoc]
      · rw [List.length_append, ← Nat.add_assoc]; exact hk2
    | alt a b =>
      rw [m_alt] at h
      cases h1 : m f a pos s caps k with
      | some c =>
        rw [h1] at h
        obtain ⟨mid, rest, c', hs, hm, hk⟩ := ih _ _ _ _ _ _ h1
        cases h
        exact ⟨mid, rest, c', hs, Matches.altL hm, hk⟩
      | none =>
        rw [h1] at h
        obtain ⟨mid, rest, c', hs, hm, hk⟩ := ih _ _ _ _ _ _ h
        exact ⟨mid, rest, c', hs, Matches.altR hm, hk⟩
    | star r1 =>
      rw [m_star] at h
      cases h1 : m f r1 pos s caps (fun p s' c => if p > pos then m f (.star r1) p s' c k else none) with
      | some c =>
        rw [h1] at h
        cases h
        obtain ⟨mid1, rest1, c1, hs1, hm1, hk1⟩ := ih _ _ _ _ _ _ h1
        split at hk1
        · obtain ⟨mid2, rest2, c2, hs2, hm2, hk2⟩ := ih _ _ _ _ _ _ hk1
          subst hs2
          refine ⟨mid1 ++ mid2, rest2, c2, ?_, Matches.starCons hm1 hm2, ?_⟩
          · rw [hs1, List.append_assoc]
          · rw [List.length_append, ← Nat.add_assoc]; exact hk2
        · cases hk1
      | none =>
        rw [h1] at h
        exact ⟨[], s, caps, rfl, Matches.starNil _ _ _, h⟩
    | plus r1 =>
      rw [m_plus] at h
      obtain ⟨mid, rest, c', hs, hm, hk⟩ := ih _ _ _ _ _ _ h
      cases hm with
      | seq ha hb => exact ⟨_, rest, c', hs, Matches.plus ha hb, hk⟩
    | opt r1 =>
      rw [m_opt] at h
      cases h1 : m f r1 pos s caps k with
      | some c =>
        rw [h1] at h
        obtain ⟨mid, rest, c', hs, hm, hk⟩ := ih _ _ _ _ _ _ h1
        cases h
        exact ⟨mid, rest, c', hs, Matches.optSome hm, hk⟩
      | none =>
        rw [h1] at h
        exact ⟨[], s, caps, rfl, Matches.optNone _ _ _, h⟩
    | grp i r1 =>
      rw [m_grp] at h
      obtain ⟨mid, rest, c', hs, hm, hk⟩ := ih _ _ _ _ _ _ h
      exact ⟨mid, rest, _, hs, Matches.grp hm, hk⟩
    | bol =>
      rw [m_bol] at h
      split at h
      · rename_i hp; subst hp
        exact ⟨[], s, caps, rfl, Matches.bol _, h⟩
      · cases h
    | eol =>
      rw [m_eol] at h
      split at h
      · rename_i hp
        have hs : s = [] := List.isEmpty_iff.mp hp
        subst hs
        exact ⟨[], [], caps, rfl, Matches.eol _, h⟩
      · cases h

/-! ## normalised derivations

The matcher refuses empty star iterations (`if p > pos`).  Any derivation can be normalised so that
every star iteration is non-empty, and so that `r+` is either a single `r` or a NON-EMPTY `r`
followed by `r*`. -/

inductive MatchesN : Re → Nat → List Nat → List Nat → Prop
  | chr (c pos rest) : MatchesN (.chr c) pos [c] rest
  | cls (neg rs x pos rest) : clsHas neg rs x = true → MatchesN (.cls neg rs) pos [x] rest
  | any (x pos rest) : x ≠ 10 → MatchesN .any pos [x] rest
  | eps (pos rest) : MatchesN .eps pos [] rest
  | seq {a b pos s1 s2 rest} : MatchesN a pos s1 (s2 ++ rest) → MatchesN b (pos + s1.length) s2 rest →
      MatchesN (.seq a b) pos (s1 ++ s2) rest
  | altL {a b pos s rest} : MatchesN a pos s rest → MatchesN (.alt a b) pos s rest
  | altR {a b pos s rest} : MatchesN b pos s rest → MatchesN (.alt a b) pos s rest
  | starNil (r pos rest) : MatchesN (.star r) pos [] rest
  | starCons {r pos s1 s2 rest} : s1 ≠ [] → MatchesN r pos s1 (s2 ++ rest) →
      MatchesN (.star r) (pos + s1.length) s2 rest → MatchesN (.star r) pos (s1 ++ s2) rest
  | plusOne {r pos s rest} : MatchesN r pos s rest → MatchesN (.plus r) pos s rest
  | plusCons {r pos s1 s2 rest} : s1 ≠ [] → MatchesN r pos s1 (s2 ++ rest) →
      MatchesN (.star r) (pos + s1.length) s2 rest → MatchesN (.plus r) pos (s1 ++ s2) rest
  | optNone (r pos rest) : MatchesN (.opt r) pos [] rest
  | optSome {r pos s rest} : MatchesN r pos s rest → MatchesN (.opt r) pos s rest
  | grp {i r pos s rest} : MatchesN r pos s rest → MatchesN (.grp i r) pos s rest
  | bol (rest) : MatchesN .bol 0 [] rest
  | eol (pos) : MatchesN .eol pos [] []

/-- every derivation can be normalised (empty star iterations dropped) -/
theorem normalize {r : Re} {pos : Nat} {mid rest : List Nat} (hm : Matches r pos mid rest) :
    MatchesN r pos mid rest := by
  induction hm with
  | chr c pos rest => exact .chr _ _ _
  | cls neg rs x pos rest hx => exact .cls _ _ _ _ _ hx
  | any x pos rest hx => exact .any _ _ _ hx
  | eps pos rest => exact .eps _ _
  | seq _ _ iha ihb => exact .seq iha ihb
  | altL _ ih => exact .altL ih
  | altR _ ih => exact .altR ih
  | starNil r pos rest => exact .starNil _ _ _
  | @starCons r pos s1 s2 rest _ _ ih1 ih2 =>
    cases s1 with
    | nil =>
      simp only [List.nil_append, List.length_nil, Nat.add_zero] at ih2 ⊢
      exact ih2
    | cons x t => exact .starCons (List.cons_ne_nil _ _) ih1 ih2
  | @plus r pos s1 s2 rest _ _ ih1 ih2 =>
    cases s1 with
    | nil =>
      simp only [List.nil_append, List.length_nil, Nat.add_zero] at ih2 ⊢
      cases ih2 with
      | starNil =>
        simp only [List.nil_append] at ih1
        exact .plusOne ih1
      | starCons hne ha hb => exact .plusCons hne ha hb
    | cons x t => exact .plusCons (List.cons_ne_nil _ _) ih1 ih2
  | optNone r pos rest => exact .optNone _ _ _
  | optSome _ ih => exact .optSome ih
  | grp _ ih => exact .grp ih
  | bol rest => exact .bol _
  | eol pos => exact .eol _

/-- normalised derivations are derivations -/
theorem MatchesN.toMatches {r : Re} {pos : Nat} {mid rest : List Nat} (hm : MatchesN r pos mid rest) :
    Matches r pos mid rest := by
  induction hm with
  | chr c pos rest => exact .chr _ _ _
  | cls neg rs x pos rest hx => exact .cls _ _ _ _ _ hx
  | any x pos rest hx => exact .any _ _ _ hx
  | eps pos rest => exact .eps _ _
  | seq _ _ iha ihb => exact .seq iha ihb
  | altL _ ih => exact .altL ih
  | altR _ ih => exact .altR ih
  | starNil r pos rest => exact .starNil _ _ _
  | starCons _ _ _ ih1 ih2 => exact .starCons ih1 ih2
  | @plusOne r pos s rest _ ih =>
    have h : Matches (.plus r) pos (s ++ []) rest :=
      .plus (s1 := s) (s2 := []) (by simpa using ih) (.starNil _ _ _)
    simpa using h
  | plusCons _ _ _ ih1 ih2 => exact .plus ih1 ih2
  | optNone r pos rest => exact .optNone _ _ _
  | optSome _ ih => exact .optSome ih
  | grp _ ih => exact .grp ih
  | bol rest => exact .bol _
  | eol pos => exact .eol _

theorem matchesN_iff (r : Re) (pos : Nat) (mid rest : List Nat) :
    MatchesN r pos mid rest ↔ Matches r pos mid rest := ⟨MatchesN.toMatches, normalize⟩

/-! ## the fuel measure

`dep r + n` bounds the nesting depth of `m` on `r` over `n` remaining bytes: continuations close
over the caller's fuel, and a star iteration consumes a byte before it recurses. -/

def dep : Re → Nat
  | .seq a b => dep a + dep b + 1
  | .alt a b => dep a + dep b + 1
  | .star r => dep r + 1
  | .plus r => dep r + 2
  | .opt r => dep r + 1
  | .grp _ r => dep r + 1
  | .chr _ => 1
  | .cls _ _ => 1
  | .any => 1
  | .eps => 1
  | .bol => 1
  | .eol => 1

theorem dep_pos (r : Re) : 1 ≤ dep r := by
  cases r <;> simp only [dep] <;> omega

theorem dep_le_size (r : Re) : dep r ≤ size r := by
  induction r with
  | seq a b iha ihb => simp only [dep, size]; omega
  | alt a b iha ihb => simp only [dep, size]; omega
  | star r ih => simp only [dep, size]; omega
  | plus r ih => simp only [dep, size]; omega
  | opt r ih => simp only [dep, size]; omega
  | grp i r ih => simp only [dep, size]; omega
  | _ => simp only [dep, size]; omega

theorem size_add_le_fuelFor (r : Re) (s : List Nat) : size r + s.length ≤ fuelFor r s := by
  unfold fuelFor
  have h1 : (size r + 4) * (s.length + 2) ≤ (size r + 4) * (s.length + 2) * 4 :=
    Nat.le_mul_of_pos_right _ (by decide)
  have h2 : (size r + 4) * (s.length + 2) = size r * s.length + size r * 2 + 4 * s.length + 8 := by
    rw [Nat.add_mul, Nat.mul_add, Nat.mul_add]; omega
  generalize size r * s.length = X at *
  omega

/-- `fuelFor` computed from the whole subject is enough for any input no longer than the subject -/
theorem dep_le_fuelFor (r : Re) (s : List Nat) {n : Nat} (h : n ≤ s.length) : dep r + n ≤ fuelFor r s := by
  have := dep_le_size r
  have := size_add_le_fuelFor r s
  omega

/-! ## completeness -/

theorem m_completeN {r : Re} {pos : Nat} {mid rest : List Nat} (hm : MatchesN r pos mid rest) :
    ∀ (fuel : Nat), dep r + (mid ++ rest).length ≤ fuel →
    ∀ (caps : Caps) (k : Nat → List Nat → Caps → Option Caps),
      (∀ c, (k (pos + mid.length) rest c).isSome = true) →
      (m fuel r pos (mid ++ rest) caps k).isSome = true := by
  induction hm with
  | chr c pos rest =>
    intro fuel hf caps k hk
    cases fuel with
    | zero => simp only [dep] at hf; omega
    | succ f =>
      rw [m_chr]
      simp only [List.cons_append, List.nil_append, if_true]
      exact hk caps
  | cls neg rs x pos rest hx =>
    intro fuel hf caps k hk
    cases fuel with
    | zero => simp only [dep] at hf; omega
    | succ f =>
      rw [m_cls]
      simp only [List.cons_append, List.nil_append, hx, if_true]
      exact hk caps
  | any x pos rest hx =>
    intro fuel hf caps k hk
    cases fuel with
    | zero => simp only [dep] at hf; omega
    | succ f =>
      rw [m_any]
      simp only [List.cons_append, List.nil_append, hx, ne_eq, not_false_eq_true, if_true]
      exact hk caps
  | eps pos rest =>
    intro fuel hf caps k hk
    cases fuel with
    | zero => simp only [dep] at hf; omega
    | succ f => rw [m_eps]; exact hk caps
  | @seq a b pos s1 s2 rest ha hb iha ihb =>
    intro fuel hf caps k hk
    cases fuel with
    | zero => simp only [dep] at hf; omega
    | succ f =>
      rw [m_seq, List.append_assoc]
      simp only [dep, List.append_assoc, List.length_append] at hf
      apply iha f (by simp only [List.length_append]; omega)
      intro c
      apply ihb f (by simp only [List.length_append]; omega)
      intro c'
      have := hk c'
      rw [List.length_append, ← Nat.add_assoc] at this
      exact this
  | @altL a b pos s rest ha iha =>
    intro fuel hf caps k hk
    cases fuel with
    | zero => simp only [dep] at hf; omega
    | succ f =>
      rw [m_alt]
      simp only [dep] at hf
      have h := iha f (by omega) caps k hk
      split
      · rfl
      · rename_i hn; rw [hn] at h; cases h
  | @altR a b pos s rest hb ihb =>
    intro fuel hf caps k hk
    cases fuel with
    | zero => simp only [dep] at hf; omega
    | succ f =>
      rw [m_alt]
      simp only [dep] at hf
      split
      · rfl
      · exact ihb f (by omega) caps k hk
  | starNil r pos rest =>
    intro fuel hf caps k hk
    cases fuel with
    | zero => simp only [dep] at hf; omega
    | succ f =>
      rw [m_star]
      split
      · rfl
      · exact hk caps
  | @starCons r pos s1 s2 rest hne h1 h2 ih1 ih2 =>
    intro fuel hf caps k hk
    have hl : 0 < s1.length := List.length_pos_iff.mpr hne
    cases fuel with
    | zero => simp only [dep] at hf; omega
    | succ f =>
      rw [m_star, List.append_assoc]
      simp only [dep, List.append_assoc, List.length_append] at hf
      suffices h : (m f r pos (s1 ++ (s2 ++ rest)) caps
          (fun p s' c => if p > pos then m f (.star r) p s' c k else none)).isSome = true by
        split
        · rfl
        · rename_i hn; rw [hn] at h; cases h
      apply ih1 f (by simp only [List.length_append]; omega)
      intro c
      have hp : pos + s1.length > pos := by omega
      simp only [hp, if_true]
      apply ih2 f (by simp only [dep, List.length_append]; omega)
      intro c'
      have := hk c'
      rw [List.length_append, ← Nat.add_assoc] at this
      exact this
  | @plusOne r pos s rest h ih =>
    intro fuel hf caps k hk
    simp only [dep] at hf
    have := dep_pos r
    obtain ⟨f, rfl⟩ : ∃ f, fuel = f + 3 := ⟨fuel - 3, by omega⟩
    rw [m_plus, m_seq]
    apply ih (f + 1) (by omega)
    intro c
    rw [m_star]
    split
    · rfl
    · exact hk c
  | @plusCons r pos s1 s2 rest hne h1 h2 ih1 ih2 =>
    intro fuel hf caps k hk
    have hl : 0 < s1.length := List.length_pos_iff.mpr hne
    simp only [dep, List.append_assoc, List.length_append] at hf
    obtain ⟨f, rfl⟩ : ∃ f, fuel = f + 2 := ⟨fuel - 2, by omega⟩
    rw [m_plus, m_seq, List.append_assoc]
    apply ih1 f (by simp only [List.length_append]; omega)
    intro c
    apply ih2 f (by simp only [dep, List.length_append]; omega)
    intro c'
    have := hk c'
    rw [List.length_append, ← Nat.add_assoc] at this
    exact this
  | optNone r pos rest =>
    intro fuel hf caps k hk
    cases fuel with
    | zero => simp only [dep] at hf; omega
    | succ f =>
      rw [m_opt]
      split
      · rfl
      · exact hk caps
  | @optSome r pos s rest h ih =>
    intro fuel hf caps k hk
    cases fuel with
    | zero => simp only [dep] at hf; omega
    | succ f =>
      rw [m_opt]
      simp only [dep] at hf
      have h := ih f (by omega) caps k hk
      split
      · rfl
      · rename_i hn; rw [hn] at h; cases h
  | @grp i r pos s rest h ih =>
    intro fuel hf caps k hk
    cases fuel with
    | zero => simp only [dep] at hf; omega
    | succ f =>
      rw [m_grp]
      simp only [dep] at hf
      apply ih f (by omega)
      intro c
      exact hk _
  | bol rest =>
    intro fuel hf caps k hk
    cases fuel with
    | zero => simp only [dep] at hf; omega
    | succ f =>
      rw [m_bol]
      simp only [if_true]
      exact hk caps
  | eol pos =>
    intro fuel hf caps k hk
    cases fuel with
    | zero => simp only [dep] at hf; omega
    | succ f =>
      rw [m_eol]
      simp only [List.append_nil, List.isEmpty_nil, if_true]
      exact hk caps

/-- completeness of the matcher core, sharp form: fuel `dep r + (remaining input length)` is enough -/
theorem m_complete_dep {r : Re} {pos : Nat} {mid rest : List Nat} (hm : Matches r pos mid rest)
    (fuel : Nat) (hf : dep r + (mid ++ rest).length ≤ fuel)
    (caps : Caps) (k : Nat → List Nat → Caps → Option Caps)
    (hk : ∀ c, (k (pos + mid.length) rest c).isSome = true) :
    (m fuel r pos (mid ++ rest) caps k).isSome = true :=
  m_completeN (normalize hm) fuel hf caps k hk

/-- completeness of the matcher core under enough fuel: if some split matches and the continuation
accepts it, the matcher succeeds (possibly with another, higher-priority split) -/
theorem m_complete (r : Re) (pos : Nat) (mid rest : List Nat) (hm : Matches r pos mid rest)
    (fuel : Nat) (hf : size r + 2 * (mid ++ rest).length + 2 ≤ fuel)
    (caps : Caps) (k : Nat → List Nat → Caps → Option Caps)
    (hk : ∀ c, (k (pos + mid.length) rest c).isSome = true) :
    (m fuel r pos (mid ++ rest) caps k).isSome = true :=
  m_complete_dep hm fuel (by have := dep_le_size r; omega) caps k hk

/-! ## `fullMatch` -/

theorem fullMatch_sound (r : Re) (s : List Nat) (h : fullMatch r s = true) : Matches r 0 s [] := by
  unfold fullMatch at h
  cases h1 : m (fuelFor r s) r 0 s [] (fun _ s' c => if s'.isEmpty then some c else none) with
  | none => rw [h1] at h; cases h
  | some out =>
    obtain ⟨mid, rest, c', hs, hm, hk⟩ := m_sound _ _ _ _ _ _ _ h1
    split at hk
    · rename_i he
      have hr : rest = [] := List.isEmpty_iff.mp he
      subst hr
      rw [List.append_nil] at hs
      subst hs
      exact hm
    · cases hk

theorem fullMatch_complete (r : Re) (s : List Nat) (h : Matches r 0 s []) : fullMatch r s = true := by
  unfold fullMatch
  have := m_complete_dep h (fuelFor r s)
    (dep_le_fuelFor r s (by simp only [List.append_nil]; exact Nat.le_refl _)) []
    (fun _ s' c => if s'.isEmpty then some c else none) (fun c => rfl)
  rw [List.append_nil] at this
  exact this

theorem fullMatch_iff (r : Re) (s : List Nat) : fullMatch r s = true ↔ Matches r 0 s [] :=
  ⟨fullMatch_sound r s, fullMatch_complete r s⟩

/-! ## `search` -/

/-- a successful `searchFrom` on the suffix `t` at offset `pos` exhibits a match inside `t`; the
reported span is the match -/
theorem searchFrom_sound (r : Re) (fuel n : Nat) (t : List Nat) (pos : Nat) (res : Nat × Nat × Caps)
    (h : searchFrom r fuel n t pos = some res) :
    ∃ pre mid post, t = pre ++ mid ++ post ∧ Matches r (pos + pre.length) mid post ∧
      res.1 = pos + pre.length ∧ res.2.1 = pos + pre.length + mid.length := by
  induction n generalizing t pos with
  | zero => simp only [searchFrom] at h; cases h
  | succ n ih =>
    simp only [searchFrom] at h
    cases h1 : m fuel r pos t [] (fun p _ c => some ((0, pos, p) :: c)) with
    | some out =>
      rw [h1] at h
      obtain ⟨mid, rest, c', hs, hm, hk⟩ := m_sound _ _ _ _ _ _ _ h1
      simp only [Option.some.injEq] at hk
      subst hk
      simp only [List.find?_cons_of_pos, BEq.rfl, Option.some.injEq] at h
      subst h
      exact ⟨[], mid, rest, by simpa using hs, by simpa using hm, by simp, by simp⟩
    | none =>
      rw [h1] at h
      cases t with
      | nil => cases h
      | cons x t' =>
        simp only at h
        obtain ⟨pre, mid, post, hs, hm, ha, hb⟩ := ih _ _ h
        refine ⟨x :: pre, mid, post, by simp [hs], ?_, ?_, ?_⟩
        · have e : pos + (x :: pre).length = pos + 1 + pre.length := by
            simp only [List.length_cons]; omega
          rw [e]; exact hm
        · simp only [List.length_cons]; omega
        · simp only [List.length_cons]; omega

theorem searchFrom_complete (r : Re) (fuel : Nat) (pre mid post : List Nat) :
    ∀ (n pos : Nat), Matches r (pos + pre.length) mid post →
      dep r + (pre ++ mid ++ post).length ≤ fuel → pre.length < n →
      (searchFrom r fuel n (pre ++ mid ++ post) pos).isSome = true := by
  induction pre with
  | nil =>
    intro n pos hm hf hn
    cases n with
    | zero => omega
    | succ n =>
      simp only [List.nil_append, List.length_nil, Nat.add_zero] at hm hf ⊢
      simp only [searchFrom]
      have hc := m_complete_dep hm fuel hf [] (fun p _ c => some ((0, pos, p) :: c)) (fun c => rfl)
      cases h1 : m fuel r pos (mid ++ post) [] (fun p _ c => some ((0, pos, p) :: c)) with
      | none => rw [h1] at hc; cases hc
      | some out =>
        obtain ⟨mid', rest', c', _, _, hk⟩ := m_sound _ _ _ _ _ _ _ h1
        simp only [Option.some.injEq] at hk
        subst hk
        simp only [List.find?_cons_of_pos, BEq.rfl, Option.isSome_some]
  | cons x pre ih =>
    intro n pos hm hf hn
    cases n with
    | zero => omega
    | succ n =>
      simp only [List.cons_append, searchFrom]
      cases h1 : m fuel r pos (x :: (pre ++ mid ++ post)) [] (fun p _ c => some ((0, pos, p) :: c)) with
      | some out =>
        obtain ⟨mid', rest', c', _, _, hk⟩ := m_sound _ _ _ _ _ _ _ h1
        simp only [Option.some.injEq] at hk
        subst hk
        simp only [List.find?_cons_of_pos, BEq.rfl, Option.isSome_some]
      | none =>
        simp only
        apply ih n (pos + 1)
        · have e : pos + (x :: pre).length = pos + 1 + pre.length := by
            simp only [List.length_cons]; omega
          rw [← e]; exact hm
        · simp only [List.cons_append, List.length_cons] at hf; omega
        · simp only [List.length_cons] at hn; omega

theorem search_sound (r : Re) (s : List Nat) (h : search r s = true) : Contains r s := by
  unfold search at h
  cases h1 : searchFrom r (fuelFor r s) (s.length + 1) s 0 with
  | none => rw [h1] at h; cases h
  | some res =>
    obtain ⟨pre, mid, post, hs, hm, _, _⟩ := searchFrom_sound _ _ _ _ _ _ h1
    rw [Nat.zero_add] at hm
    exact ⟨pre, mid, post, hs, hm⟩

theorem search_complete (r : Re) (s : List Nat) (h : Contains r s) : search r s = true := by
  obtain ⟨pre, mid, post, hs, hm⟩ := h
  unfold search
  rw [hs]
  apply searchFrom_complete
  · rw [Nat.zero_add]; exact hm
  · exact dep_le_fuelFor r _ (Nat.le_refl _)
  · simp only [List.length_append]; omega

theorem search_iff (r : Re) (s : List Nat) : search r s = true ↔ Contains r s :=
  ⟨search_sound r s, search_complete r s⟩

/-- the span reported by `searchFrom` (group 0 of `submatch`) is a genuine match of `r` in `s` -/
theorem searchFrom_span (r : Re) (s : List Nat) (a b : Nat) (caps : Caps)
    (h : searchFrom r (fuelFor r s) (s.length + 1) s 0 = some (a, b, caps)) :
    ∃ pre mid post, s = pre ++ mid ++ post ∧ Matches r a mid post ∧ a = pre.length ∧ b = a + mid.length := by
  obtain ⟨pre, mid, post, hs, hm, ha, hb⟩ := searchFrom_sound _ _ _ _ _ _ h
  simp only [Nat.zero_add] at hm ha hb
  subst ha
  exact ⟨pre, mid, post, hs, hm, rfl, hb⟩

/-! ## non-vacuity -/

/-- `(a|b)*c` on `abac`, from a hand-built derivation -/
theorem ex_deriv : Matches (.seq (.star (.alt (.chr 97) (.chr 98))) (.chr 99)) 0 [97, 98, 97, 99] [] :=
  Matches.seq (s1 := [97, 98, 97]) (s2 := [99])
    (Matches.starCons (s1 := [97]) (s2 := [98, 97]) (Matches.altL (Matches.chr 97 0 _))
      (Matches.starCons (s1 := [98]) (s2 := [97]) (Matches.altR (Matches.chr 98 _ _))
        (Matches.starCons (s1 := [97]) (s2 := []) (Matches.altL (Matches.chr 97 _ _))
          (Matches.starNil _ _ _))))
    (Matches.chr 99 _ _)

example : fullMatch (.seq (.star (.alt (.chr 97) (.chr 98))) (.chr 99)) [97, 98, 97, 99] = true :=
  (fullMatch_iff _ _).mpr ex_deriv

/-- the other direction on an executable success -/
example : Matches (.plus (.grp 1 (.cls false [(97, 122)]))) 0 [104, 105] [] :=
  (fullMatch_iff _ _).mp (by decide)

/-- a derivation with an empty star iteration (`(a?)*` on `a`: empty, then `a`), which the matcher
never takes but completeness still covers -/
example : fullMatch (.star (.opt (.chr 97))) [97] = true :=
  (fullMatch_iff _ _).mpr
    (Matches.starCons (s1 := []) (s2 := [97]) (Matches.optNone _ _ _)
      (Matches.starCons (s1 := [97]) (s2 := []) (Matches.optSome (Matches.chr 97 _ _))
        (Matches.starNil _ _ _)))

/-- `^b` is not found in `ab` (the only `b` is at offset 1), `b` is -/
example : search (.seq .bol (.chr 98)) [97, 98] = false := by
  cases h : search (.seq .bol (.chr 98)) [97, 98] with
  | false => rfl
  | true =>
    obtain ⟨pre, mid, post, hs, hm⟩ := (search_iff _ _).mp h
    cases hm with
    | @seq _ _ _ s1 s2 _ ha hb =>
      generalize hp : pre.length = p at ha
      cases ha with
      | bol =>
        cases hb with
        | chr =>
          cases pre with
          | nil => simp at hs
          | cons y ys => simp at hp

example : search (.seq .bol (.chr 97)) [97, 98] = true :=
  (search_iff _ _).mpr ⟨[], [97], [98], rfl, Matches.seq (s1 := []) (s2 := [97]) (Matches.bol _) (Matches.chr 97 _ _)⟩

example : search (.chr 98) [97, 98] = true :=
  (search_iff _ _).mpr ⟨[97], [98], [], rfl, Matches.chr 98 _ _⟩

/-- instance of the hypotheses of `m_sound` -/
example : m 3 (.seq (.chr 97) .eol) 0 [97] [] (fun _ _ c => some c) = some [] := by decide

/-- instance of the hypotheses of `m_complete` -/
example : (m 12 (.star (.chr 97)) 0 ([97] ++ [98]) [] (fun _ _ c => some c)).isSome = true :=
  m_complete _ 0 [97] [98] (Matches.starCons (s1 := [97]) (s2 := []) (Matches.chr 97 _ _) (Matches.starNil _ _ _))
    12 (by decide) [] _ (fun _ => rfl)

end RegexSem
