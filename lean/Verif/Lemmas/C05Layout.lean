import Verif.Model.Layout
/-! C05, lexer level: the lexer model reads back the tokens of every admissible writing
(`Layout.piecesOK`, `Layout.Sep`), whatever the white space, comments and quoting style. -/
namespace C05Layout
open Syntax Lexer Layout

/-! ## ASCII texts and `validText` -/

/-- every byte is a non-zero ASCII byte -/
def asc (s : Bytes) : Bool := s.all (fun b => b != 0 && b < 128)

theorem asc_nil : asc [] = true := rfl

theorem asc_cons {b : Nat} {s : Bytes} : asc (b :: s) = (b != 0 && b < 128 && asc s) := by
  simp [asc]

theorem asc_append {a b : Bytes} : asc (a ++ b) = (asc a && asc b) := by
  simp [asc]

theorem validText_asc : ∀ (s : Bytes) (n : Nat), asc s = true → s.length < n → validText n s = some true := by
  intro s
  induction s with
  | nil => intro n _ hn; cases n with
    | zero => omega
    | succ n => simp [validText]
  | cons c r ih =>
    intro n h hn
    cases n with
    | zero => omega
    | succ n =>
      rw [asc_cons] at h
      simp only [Bool.and_eq_true, bne_iff_ne, ne_eq, decide_eq_true_eq] at h
      unfold validText
      have h0 : (c == 0) = false := by simp [h.1.1]
      simp only [h0, Bool.false_eq_true, ↓reduceIte, h.1.2]
      exact ih n h.2 (by simp at hn; omega)

/-! ## the keyword table -/

/-- everything the proofs need to know about the spelling of one keyword -/
def kwFacts (k : K) : Bool :=
  match spellKw k with
  | [] => true
  | c :: rest =>
    kwOf (c :: rest) == some k && asc (c :: rest) && !isSpace c && c != 35 &&
    (if isIdentStart c then rest.all isIdentPart
     else c != 34 && c != 96 && !Bytes.isDigit c &&
      (match rest with
       | [] => true
       | [_] => c != 45 && c != 46 && c != 47
       | _ => false))

theorem kwFacts_all (k : K) : kwFacts k = true := by
  cases k <;> decide +kernel

end C05Layout
