import Verif.Model.Layout
/-! C05, lexer level: the lexer model reads back the tokens of every admissible writing
(`Layout.piecesOK`, `Layout.Sep`), whatever the white space, comments and quoting style. -/
namespace C05Layout
open Syntax Lexer Layout

/-! ## ASCII texts and `validText` -/

/-- every byte is a non-zero ASCII byte -/
def asc (s : Bytes) : Bool := s.all (fun b => b != 0 && b < 128)

theorem asc_nil : asc [] = true := rfl

theorem asc_cons {b : Nat} {s : Bytes} : asc (b :: s) = (b != 0 && b < 128 && asc s) := by
  simp [asc]

theorem asc_append {a b : Bytes} : asc (a ++ b) = (asc a && asc b) := by
  simp [asc]

theorem validText_asc : ∀ (s : Bytes) (n : Nat), asc s = true → s.length < n → validText n s = some true := by
  intro s
  induction s with
  | nil => intro n _ hn; cases n with
    | zero => omega
    | succ n => simp [validText]
  | cons c r ih =>
    intro n h hn
    cases n with
    | zero => omega
    | succ n =>
      rw [asc_cons] at h
      simp only [Bool.and_eq_true, bne_iff_ne, ne_eq, decide_eq_true_eq] at h
      unfold validText
      have h0 : (c == 0) = false := by simp [h.1.1]
      simp only [h0, Bool.false_eq_true, ↓reduceIte, h.1.2]
      exact ih n h.2 (by simp at hn; omega)

/-! ## the keyword table -/

/-- everything the proofs need to know about the spelling of one keyword -/
def kwFacts (k : K) : Bool :=
  match spellKw k with
  | [] => true
  | c :: rest =>
    kwOf (c :: rest) == some k && asc (c :: rest) && !isSpace c && c != 35 &&
    (if isIdentStart c then rest.all isIdentPart
     else c != 34 && c != 96 && !Bytes.isDigit c &&
      (match rest with
       | [] => true
       | [_] => c != 45 && c != 46 && c != 47
       | _ => false))

theorem kwFacts_all (k : K) : kwFacts k = true := by
  cases k <;> decide +kernel


theorem gapBytes_cons (i : GapItem) (g : Gap) : gapBytes (i :: g) = i.bytes ++ gapBytes g := by
  simp [gapBytes]

theorem gapBytes_nil : gapBytes [] = [] := rfl

/-! ## gaps -/

theorem skipLine_append : ∀ (t x : Bytes), t.all (fun b => b != 10) = true → skipLine (t ++ 10 :: x) = x := by
  intro t x
  induction t with
  | nil => intro _; simp [skipLine]
  | cons a t ih =>
    intro h
    simp only [List.all_cons, Bool.and_eq_true, bne_iff_ne, ne_eq] at h
    simp only [List.cons_append, skipLine]
    have : (a == 10) = false := by simp [h.1]
    simp only [this, Bool.false_eq_true, ↓reduceIte]
    exact ih h.2

theorem skipBlock_append (x : Bytes) : ∀ (t : Bytes), noClose t = true → skipBlock (t ++ 42 :: 47 :: x) = some x := by
  intro t
  fun_induction noClose t with
  | case1 => intro h; simp at h
  | case2 a r hne ih =>
    intro h
    simp only [List.cons_append]
    unfold skipBlock
    split
    · rename_i r' heq
      simp only [List.cons.injEq] at heq
      obtain ⟨rfl, heq⟩ := heq
      cases r with
      | nil => simp at heq
      | cons b r =>
        simp only [List.cons_append, List.cons.injEq] at heq
        obtain ⟨rfl, _⟩ := heq
        exact (hne r rfl rfl).elim
    · rename_i heq
      simp only [List.cons.injEq] at heq
      obtain ⟨_, rfl⟩ := heq
      exact ih h
    · rename_i heq; simp at heq
  | case3 => intro _; simp [skipBlock]

/-- the input does not start with white space or a comment -/
def gapStop : Bytes → Bool
  | [] => true
  | c :: r => !isWs c && c != 35 && !(c == 47 && (match r with | 47 :: _ => true | 42 :: _ => true | _ => false))

theorem skipGap_stop (f : Nat) (x : Bytes) (h : gapStop x = true) : skipGap (f + 1) x = .ok x := by
  unfold skipGap
  cases x with
  | nil => rfl
  | cons c r =>
    simp only [gapStop, Bool.and_eq_true, Bool.not_eq_true', bne_iff_ne, ne_eq] at h
    obtain ⟨⟨h1, h2⟩, h3⟩ := h
    have h2' : (c == 35) = false := by simp [h2]
    simp only [h1, Bool.false_eq_true, ↓reduceIte, h2']
    split
    · rename_i h47
      simp only [h47, Bool.true_and] at h3
      split <;> simp_all
    · rfl



theorem skipGap_gap : ∀ (g : Gap) (x : Bytes) (f : Nat), g.all GapItem.ok = true → gapStop x = true → g.length < f →
    skipGap f (gapBytes g ++ x) = .ok x := by
  intro g
  induction g with
  | nil =>
    intro x f _ hx hf
    cases f with
    | zero => omega
    | succ f => simpa [gapBytes_nil] using skipGap_stop f x hx
  | cons i g ih =>
    intro x f hg hx hf
    cases f with
    | zero => omega
    | succ f =>
      simp only [List.all_cons, Bool.and_eq_true] at hg
      have hf' : g.length < f := by simp at hf; omega
      have ih' := ih x f hg.2 hx hf'
      rw [gapBytes_cons]
      cases i with
      | ws c =>
        have hc : isWs c = true := hg.1
        simp only [GapItem.bytes, List.cons_append, List.nil_append]
        unfold skipGap
        simp only [hc, ↓reduceIte]
        exact ih'
      | hash t =>
        have ht : t.all (fun b => b != 10) = true := by
          have := hg.1
          simp only [GapItem.ok, List.all_eq_true, Bool.and_eq_true] at this ⊢
          intro b hb; exact (this b hb).1.1
        simp only [GapItem.bytes, List.cons_append, List.append_assoc, List.nil_append]
        unfold skipGap
        simp only [show isWs 35 = false from rfl, Bool.false_eq_true, ↓reduceIte, BEq.rfl]
        rw [skipLine_append t _ ht]
        exact ih'
      | line t =>
        have ht : t.all (fun b => b != 10) = true := by
          have := hg.1
          simp only [GapItem.ok, List.all_eq_true, Bool.and_eq_true] at this ⊢
          intro b hb; exact (this b hb).1.1
        simp only [GapItem.bytes, List.cons_append, List.append_assoc, List.nil_append]
        unfold skipGap
        simp only [show isWs 47 = false from rfl, Bool.false_eq_true, ↓reduceIte, BEq.rfl,
          show (47 == 35) = false from rfl]
        rw [skipLine_append t _ ht]
        exact ih'
      | block t =>
        have ht : noClose t = true := by
          have := hg.1
          simp only [GapItem.ok, Bool.and_eq_true] at this
          exact this.1
        simp only [GapItem.bytes, List.cons_append, List.append_assoc, List.nil_append]
        unfold skipGap
        simp only [show isWs 47 = false from rfl, Bool.false_eq_true, ↓reduceIte, BEq.rfl,
          show (47 == 35) = false from rfl]
        rw [skipBlock_append _ t ht]
        exact ih'


theorem all_mono {p q : Nat → Bool} {l : Bytes} (h : l.all p = true) (hpq : ∀ b, p b = true → q b = true) :
    l.all q = true := by
  simp only [List.all_eq_true] at h ⊢
  intro b hb; exact hpq b (h b hb)

theorem asc_item (i : GapItem) (h : i.ok = true) : asc i.bytes = true := by
  cases i with
  | ws c =>
    simp only [GapItem.ok, isWs, Bool.or_eq_true, beq_iff_eq] at h
    simp only [GapItem.bytes, asc, List.all_cons, List.all_nil, Bool.and_true, Bool.and_eq_true, bne_iff_ne, ne_eq,
      decide_eq_true_eq]
    omega
  | hash t =>
    simp only [GapItem.ok] at h
    have : asc t = true := all_mono h (by intro b hb; simp at hb ⊢; omega)
    simp [GapItem.bytes, asc_cons, asc_append, this, asc_nil]
  | line t =>
    simp only [GapItem.ok] at h
    have : asc t = true := all_mono h (by intro b hb; simp at hb ⊢; omega)
    simp [GapItem.bytes, asc_cons, asc_append, this, asc_nil]
  | block t =>
    simp only [GapItem.ok, Bool.and_eq_true] at h
    have : asc t = true := h.2
    simp [GapItem.bytes, asc_cons, asc_append, this, asc_nil]

theorem asc_gap : ∀ (g : Gap), g.all GapItem.ok = true → asc (gapBytes g) = true := by
  intro g
  induction g with
  | nil => intro _; rfl
  | cons i g ih =>
    intro h
    simp only [List.all_cons, Bool.and_eq_true] at h
    rw [gapBytes_cons, asc_append, asc_item i h.1, ih h.2]; rfl

theorem item_length_pos (i : GapItem) : 0 < i.bytes.length := by
  cases i <;> simp [GapItem.bytes]

theorem gap_length_le : ∀ (g : Gap), g.length ≤ (gapBytes g).length := by
  intro g
  induction g with
  | nil => simp
  | cons i g ih =>
    rw [gapBytes_cons]
    have := item_length_pos i
    simp only [List.length_cons, List.length_append]
    omega

/-- the look-ahead after a function name removes a prefix of the gap only -/
theorem skipSpaceC_gap (y : Bytes) (hy : match y with | [] => True | c :: _ => isSpace c = false ∧ c ≠ 35) :
    ∀ (g : Gap) (n : Nat), g.all GapItem.ok = true →
    ∃ g' : Gap, g'.all GapItem.ok = true ∧ (gapBytes g').length ≤ (gapBytes g).length ∧
      skipSpaceC n (gapBytes g ++ y) = gapBytes g' ++ y := by
  intro g
  induction g with
  | nil =>
    intro n _
    refine ⟨[], rfl, Nat.le_refl _, ?_⟩
    simp only [gapBytes_nil, List.nil_append]
    cases n with
    | zero => rfl
    | succ n =>
      cases y with
      | nil => rfl
      | cons c r =>
        simp only at hy
        have h2 : (c == 35) = false := by simp [hy.2]
        simp [skipSpaceC, hy.1, h2]
  | cons i g ih =>
    intro n hg
    cases n with
    | zero => exact ⟨i :: g, hg, Nat.le_refl _, rfl⟩
    | succ n =>
      have hg' := hg
      simp only [List.all_cons, Bool.and_eq_true] at hg'
      obtain ⟨g', h1, h2, h3⟩ := ih n hg'.2
      have hlen : (gapBytes g').length ≤ (gapBytes (i :: g)).length := by
        rw [gapBytes_cons, List.length_append]; omega
      cases i with
      | ws c =>
        have hc : isWs c = true := hg'.1
        refine ⟨g', h1, hlen, ?_⟩
        rw [gapBytes_cons]
        simp only [GapItem.bytes, List.cons_append, List.nil_append, skipSpaceC, isSpace, hc, Bool.true_or, ↓reduceIte]
        exact h3
      | hash t =>
        have ht : t.all (fun b => b != 10) = true := all_mono hg'.1 (by intro b hb; simp at hb ⊢; omega)
        refine ⟨g', h1, hlen, ?_⟩
        rw [gapBytes_cons]
        simp only [GapItem.bytes, List.cons_append, List.append_assoc, List.nil_append, skipSpaceC,
          show isSpace 35 = false from rfl, Bool.false_eq_true, ↓reduceIte, BEq.rfl]
        rw [skipLine_append t _ ht]
        exact h3
      | line t =>
        refine ⟨.line t :: g, hg, Nat.le_refl _, ?_⟩
        rw [gapBytes_cons]
        simp [GapItem.bytes, skipSpaceC, show isSpace 47 = false from rfl]
      | block t =>
        refine ⟨.block t :: g, hg, Nat.le_refl _, ?_⟩
        rw [gapBytes_cons]
        simp [GapItem.bytes, skipSpaceC, show isSpace 47 = false from rfl]


/-! ## strings -/

theorem isHex_hexDigit (n : Nat) (h : n < 16) : isHex (hexDigit n) = true := by
  simp only [isHex, hexDigit, Bytes.isDigit]
  split <;> simp <;> omega

theorem hexVal_hexDigit (n : Nat) (h : n < 16) : hexVal (hexDigit n) = n := by
  simp only [hexVal, hexDigit, Bytes.isDigit]
  by_cases h10 : n < 10
  · simp only [h10, ↓reduceIte]
    have : (decide (48 ≤ 48 + n) && decide (48 + n ≤ 57)) = true := by simp; omega
    simp only [this, ↓reduceIte]; omega
  · simp only [h10, ↓reduceIte]
    have : (decide (48 ≤ 87 + n) && decide (87 + n ≤ 57)) = false := by simp; omega
    simp only [this, Bool.false_eq_true, ↓reduceIte]
    have : 97 ≤ 87 + n := by omega
    simp only [this, ↓reduceIte]; omega

theorem hex2_hexDigit (b : Nat) (h : b < 256) : hex2 (hexDigit (b / 16)) (hexDigit (b % 16)) = b := by
  have h1 : b / 16 < 16 := by omega
  have h2 : b % 16 < 16 := by omega
  rw [hex2, hexVal_hexDigit _ h1, hexVal_hexDigit _ h2]; omega

theorem scanStr_hex_step (f : Nat) (r acc : Bytes) (x y : Nat) (hx : isHex x = true) (hy : isHex y = true) :
    scanStr (f + 1) (92 :: 120 :: x :: y :: r) acc = scanStr f r (acc ++ [hex2 x y]) := by
  conv => lhs; unfold scanStr
  simp only [show (120 == 97) = false from rfl, show (120 == 98) = false from rfl, show (120 == 102) = false from rfl,
    show (120 == 110) = false from rfl, show (120 == 114) = false from rfl, show (120 == 116) = false from rfl,
    show (120 == 118) = false from rfl, show (120 == 92) = false from rfl, show (120 == 34) = false from rfl,
    Bool.false_eq_true, ↓reduceIte, BEq.rfl, hx, hy, Bool.and_self]

theorem scanStr_esc_step (f : Nat) (b : Nat) (hb : b < 256) (r acc : Bytes) :
    scanStr (f + 1) (escByte b ++ r) acc = scanStr f r (acc ++ [b]) := by
  have h1 : b / 16 < 16 := by omega
  have h2 : b % 16 < 16 := by omega
  simp only [escByte, List.cons_append, List.nil_append]
  rw [scanStr_hex_step f r acc _ _ (isHex_hexDigit _ h1) (isHex_hexDigit _ h2), hex2_hexDigit b hb]

theorem scanStr_plain_step (f : Nat) (b : Nat) (hb : plainByte b = true) (r acc : Bytes) :
    scanStr (f + 1) (b :: r) acc = scanStr f r (acc ++ [b]) := by
  simp only [plainByte, Bool.and_eq_true, decide_eq_true_eq, bne_iff_ne, ne_eq] at hb
  conv => lhs; unfold scanStr
  split
  · simp_all
  · simp_all
  · simp_all
  · simp_all
  · simp_all
  · rename_i heq; simp only [List.cons.injEq] at heq; obtain ⟨rfl, rfl⟩ := heq; rfl

theorem scanStr_close (f : Nat) (r acc : Bytes) : scanStr (f + 1) (34 :: r) acc = .ok (acc, r) :=
  scanStr.eq_3 acc f r

theorem scanStr_escaped (tail : Bytes) : ∀ (v : Bytes) (f : Nat) (acc : Bytes), v.all (· < 256) = true → v.length < f →
    scanStr f ((v.map escByte).flatten ++ 34 :: tail) acc = .ok (acc ++ v, tail) := by
  intro v
  induction v with
  | nil =>
    intro f acc _ hf
    cases f with
    | zero => simp at hf
    | succ f => simp [scanStr_close]
  | cons b v ih =>
    intro f acc hv hf
    cases f with
    | zero => simp at hf
    | succ f =>
      simp only [List.all_cons, Bool.and_eq_true, decide_eq_true_eq] at hv
      simp only [List.map_cons, List.flatten_cons, List.append_assoc]
      rw [scanStr_esc_step f b hv.1, ih f _ (by simpa using hv.2) (by simp at hf; omega)]
      simp

theorem scanStr_plain (tail : Bytes) : ∀ (v : Bytes) (f : Nat) (acc : Bytes), v.all (· < 256) = true → v.length < f →
    scanStr f ((v.map fun b => if plainByte b then [b] else escByte b).flatten ++ 34 :: tail) acc = .ok (acc ++ v, tail) := by
  intro v
  induction v with
  | nil =>
    intro f acc _ hf
    cases f with
    | zero => simp at hf
    | succ f => simp [scanStr_close]
  | cons b v ih =>
    intro f acc hv hf
    cases f with
    | zero => simp at hf
    | succ f =>
      simp only [List.all_cons, Bool.and_eq_true, decide_eq_true_eq] at hv
      simp only [List.map_cons, List.flatten_cons, List.append_assoc]
      have ih' := ih f (acc ++ [b]) (by simpa using hv.2) (by simp at hf; omega)
      by_cases hp : plainByte b = true
      · simp only [hp, ↓reduceIte, List.cons_append, List.nil_append]
        rw [scanStr_plain_step f b hp, ih']; simp
      · simp only [hp, Bool.false_eq_true, ↓reduceIte]
        rw [scanStr_esc_step f b hv.1, ih']; simp

theorem scanRaw_append (tail : Bytes) : ∀ (v acc : Bytes), v.contains 96 = false →
    scanRaw (v ++ 96 :: tail) acc = some (acc ++ v, tail) := by
  intro v
  induction v with
  | nil => intro acc _; simp [scanRaw]
  | cons b v ih =>
    intro acc h
    simp only [List.contains_cons, Bool.or_eq_false_iff, beq_eq_false_iff_ne, ne_eq] at h
    simp only [List.cons_append]
    unfold scanRaw
    split
    · simp_all
    · rename_i heq; simp only [List.cons.injEq] at heq; exact absurd heq.1.symm h.1
    · rename_i heq; simp only [List.cons.injEq] at heq
      obtain ⟨⟨rfl, rfl⟩, rfl⟩ := heq
      rw [ih _ h.2]; simp


/-! ## numbers: `scanNum` in pieces -/

def signSplit : Bytes → Bytes × Bytes
  | 43 :: t => ([43], t)
  | 45 :: t => ([45], t)
  | t => ([], t)

def expPart (mant : Bytes) (e : Nat) (r4 : Bytes) : Res (Bytes × Bytes) :=
  let (sign, r5) := signSplit r4
  let ed := r5.takeWhile Bytes.isDigit
  let r6 := r5.dropWhile Bytes.isDigit
  if r6.head? == some 95 then .unsup
  else if ed.isEmpty then .err
  else .ok (mant ++ [e] ++ sign ++ ed, r6)

def numTail (mant r3 : Bytes) (bad : Bool) : Res (Bytes × Bytes) :=
  match r3 with
  | e :: r4 =>
    let le := Bytes.toLower e
    if le == 101 then expPart mant e r4
    else if le == 112 then .err
    else if bad then .err
    else .ok (mant, r3)
  | [] => if bad then .err else .ok (mant, [])

def radixB (s : Bytes) : Bool :=
  match s with
  | 48 :: x :: _ => let l := Bytes.toLower x; l == 120 || l == 111 || l == 98
  | _ => false

theorem scanNum_eq (s : Bytes) (seenDot : Bool) : scanNum s seenDot =
    (let ip := if seenDot then [] else s.takeWhile Bytes.isDigit
     let r1 := if seenDot then s else s.dropWhile Bytes.isDigit
     let radix := !seenDot && radixB s
     if radix || r1.head? == some 95 then .unsup else
     let hasDot := seenDot || r1.head? == some 46
     let r2 := if !seenDot && r1.head? == some 46 then r1.drop 1 else r1
     let fp := if hasDot then r2.takeWhile Bytes.isDigit else []
     let r3 := if hasDot then r2.dropWhile Bytes.isDigit else r2
     if r3.head? == some 95 then .unsup else
     let mant := (if seenDot then [46] else ip ++ (if hasDot then [46] else [])) ++ fp
     numTail mant r3 (!hasDot && ip.length > 1 && ip.head? == some 48 && ip.any (fun d => d ≥ 56))) := by
  rfl


/-- a byte that ends a number: not a letter, digit, `_` or `.` -/
def numStop (c : Nat) : Bool := !isIdentPart c && c != 46

theorem numStop_facts {c : Nat} (h : numStop c = true) :
    Bytes.isDigit c = false ∧ c ≠ 95 ∧ c ≠ 46 ∧ Bytes.toLower c = c ∧ c ≠ 101 ∧ c ≠ 112 ∧ c ≠ 120 ∧ c ≠ 111 ∧ c ≠ 98 ∧
      isValueRune c = false := by
  simp only [numStop, isIdentPart, isIdentStart, isLetter, Bytes.isLower, Bytes.isUpper, Bytes.isDigit, Bool.and_eq_true,
    Bool.not_eq_true', Bool.or_eq_false_iff, Bool.and_eq_false_iff, decide_eq_false_iff_not, bne_iff_ne, ne_eq,
    beq_eq_false_iff_ne] at h
  refine ⟨?_, ?_, ?_, ?_, ?_, ?_, ?_, ?_, ?_, ?_⟩
  · simp only [Bytes.isDigit, Bool.and_eq_false_iff, decide_eq_false_iff_not]; omega
  · omega
  · omega
  · simp only [Bytes.toLower, Bytes.isUpper]
    have : (decide (65 ≤ c) && decide (c ≤ 90)) = false := by
      simp only [Bool.and_eq_false_iff, decide_eq_false_iff_not]; omega
    simp [this]
  · omega
  · omega
  · omega
  · omega
  · omega
  · simp only [isValueRune, isUnitRune, isDurRune, isBytesRune, Bytes.isDigit, Bool.or_eq_false_iff, Bool.and_eq_false_iff,
      decide_eq_false_iff_not, beq_eq_false_iff_ne, ne_eq]
    omega

theorem takeWhile_app_stop (p : Nat → Bool) (c : Nat) (t : Bytes) (hc : p c = false) :
    ∀ a : Bytes, (a ++ c :: t).takeWhile p = a.takeWhile p := by
  intro a
  induction a with
  | nil => simp [List.takeWhile, hc]
  | cons x a ih => simp only [List.cons_append, List.takeWhile_cons, ih]

theorem dropWhile_app_stop (p : Nat → Bool) (c : Nat) (t : Bytes) (hc : p c = false) :
    ∀ a : Bytes, (a ++ c :: t).dropWhile p = a.dropWhile p ++ c :: t := by
  intro a
  induction a with
  | nil => simp [List.dropWhile, hc]
  | cons x a ih =>
    simp only [List.cons_append, List.dropWhile_cons, ih]
    split <;> simp

theorem head_app_stop (v c : Nat) (t : Bytes) (hc : c ≠ v) (a : Bytes) :
    ((a ++ c :: t).head? == some v) = (a.head? == some v) := by
  cases a with
  | nil => simp [hc]
  | cons x a => simp

theorem signSplit_append (x : Nat) (r x' : Bytes) :
    signSplit ((x :: r) ++ x') = ((signSplit (x :: r)).1, (signSplit (x :: r)).2 ++ x') := by
  simp only [List.cons_append]
  unfold signSplit
  split
  · rename_i heq; simp only [List.cons.injEq] at heq; obtain ⟨rfl, rfl⟩ := heq; rfl
  · rename_i heq; simp only [List.cons.injEq] at heq; obtain ⟨rfl, rfl⟩ := heq; rfl
  · rename_i h1 h2
    split
    · rename_i heq; simp only [List.cons.injEq] at heq; exact (h1 (r ++ x') (by rw [heq.1])).elim
    · rename_i heq; simp only [List.cons.injEq] at heq; exact (h2 (r ++ x') (by rw [heq.1])).elim
    · rfl

theorem expPart_stable {mant : Bytes} {e : Nat} {r4 text rest : Bytes} {c : Nat} (t : Bytes) (hc : numStop c = true)
    (h : expPart mant e r4 = .ok (text, rest)) : expPart mant e (r4 ++ c :: t) = .ok (text, rest ++ c :: t) := by
  obtain ⟨hd, h95, -⟩ := numStop_facts hc
  cases r4 with
  | nil => simp [expPart, signSplit] at h
  | cons x r =>
    unfold expPart at h ⊢
    rw [signSplit_append]
    generalize signSplit (x :: r) = sp at h ⊢
    obtain ⟨sign, r5⟩ := sp
    simp only [takeWhile_app_stop _ c t hd, dropWhile_app_stop _ c t hd, head_app_stop 95 c t h95] at h ⊢
    split at h
    · simp at h
    · rename_i h1
      simp only [h1, Bool.false_eq_true, ↓reduceIte]
      split at h
      · simp at h
      · rename_i h2
        simp only [h2, Bool.false_eq_true, ↓reduceIte]
        simp only [Res.ok.injEq, Prod.mk.injEq] at h ⊢
        exact ⟨h.1, by rw [h.2]⟩

theorem numTail_stable {mant r3 : Bytes} {bad : Bool} {text rest : Bytes} {c : Nat} (t : Bytes) (hc : numStop c = true)
    (h : numTail mant r3 bad = .ok (text, rest)) : numTail mant (r3 ++ c :: t) bad = .ok (text, rest ++ c :: t) := by
  obtain ⟨hd, h95, h46, hlow, h101, h112, -⟩ := numStop_facts hc
  cases r3 with
  | nil =>
    simp only [numTail] at h
    split at h
    · simp at h
    · rename_i hb
      simp only [Res.ok.injEq, Prod.mk.injEq] at h
      obtain ⟨rfl, rfl⟩ := h
      simp [numTail, hlow, h101, h112, hb]
  | cons e r4 =>
    simp only [List.cons_append, numTail] at h ⊢
    split
    · rename_i he
      simp only [he, ↓reduceIte] at h
      exact expPart_stable t hc h
    · rename_i he
      simp only [he, Bool.false_eq_true, ↓reduceIte] at h
      split
      · rename_i he2; simp [he2] at h
      · rename_i he2
        simp only [he2, Bool.false_eq_true, ↓reduceIte] at h
        split
        · rename_i hb; simp [hb] at h
        · rename_i hb
          simp only [hb, Bool.false_eq_true, ↓reduceIte, Res.ok.injEq, Prod.mk.injEq] at h ⊢
          exact ⟨h.1, by rw [← h.2]; rfl⟩

theorem radixB_stable {c : Nat} (t : Bytes) (hc : numStop c = true) (s : Bytes) : radixB (s ++ c :: t) = radixB s := by
  obtain ⟨hd, h95, h46, hlow, h101, h112, h120, h111, h98, -⟩ := numStop_facts hc
  match s with
  | [] =>
    simp only [List.nil_append, radixB]
    split
    · rename_i heq; simp only [List.cons.injEq] at heq; obtain ⟨rfl, _⟩ := heq; simp [Bytes.isDigit] at hd
    · rfl
  | [x] =>
    simp only [List.cons_append, List.nil_append, radixB]
    split
    · rename_i heq; simp only [List.cons.injEq] at heq
      obtain ⟨rfl, rfl, _⟩ := heq
      simp [hlow, h120, h111, h98]
    · rfl
  | x :: y :: r =>
    simp only [List.cons_append, radixB]
    split <;> split <;> simp_all

theorem scanNum_stable {s : Bytes} {d : Bool} {text rest : Bytes} {c : Nat} (t : Bytes) (hc : numStop c = true)
    (h : scanNum s d = .ok (text, rest)) : scanNum (s ++ c :: t) d = .ok (text, rest ++ c :: t) := by
  obtain ⟨hd, h95, h46, -⟩ := numStop_facts hc
  rw [scanNum_eq] at h ⊢
  cases d with
  | true =>
    simp only [↓reduceIte, Bool.not_true, Bool.false_and, Bool.false_or, Bool.true_or, Bool.false_eq_true,
      takeWhile_app_stop _ c t hd, dropWhile_app_stop _ c t hd, head_app_stop 95 c t h95] at h ⊢
    split at h
    · simp at h
    · rename_i h1
      simp only [h1, Bool.false_eq_true, ↓reduceIte]
      split at h
      · simp at h
      · rename_i h2
        simp only [h2, Bool.false_eq_true, ↓reduceIte]
        exact numTail_stable t hc h
  | false =>
    simp only [Bool.false_eq_true, ↓reduceIte, Bool.not_false, Bool.true_and, Bool.false_or,
      takeWhile_app_stop _ c t hd, dropWhile_app_stop _ c t hd, head_app_stop 95 c t h95, head_app_stop 46 c t h46,
      radixB_stable t hc] at h ⊢
    generalize s.takeWhile Bytes.isDigit = ip at h ⊢
    generalize s.dropWhile Bytes.isDigit = r1 at h ⊢
    split at h
    · simp at h
    · rename_i h1
      simp only [h1, Bool.false_eq_true, ↓reduceIte]
      by_cases hdot : (r1.head? == some 46) = true
      · simp only [hdot, ↓reduceIte] at h ⊢
        cases r1 with
        | nil => simp at hdot
        | cons x r2 =>
          simp only [List.cons_append, List.drop_succ_cons, List.drop_zero,
            takeWhile_app_stop _ c t hd, dropWhile_app_stop _ c t hd, head_app_stop 95 c t h95] at h ⊢
          split at h
          · simp at h
          · rename_i h2
            simp only [h2, Bool.false_eq_true, ↓reduceIte]
            exact numTail_stable t hc h
      · simp only [hdot, Bool.false_eq_true, ↓reduceIte, head_app_stop 95 c t h95] at h ⊢
        split at h
        · simp at h
        · rename_i h2
          simp only [h2, Bool.false_eq_true, ↓reduceIte]
          exact numTail_stable t hc h


theorem scanUnit_stable {text rest : Bytes} {tk : Tok} {c : Nat} (t : Bytes) (hc : numStop c = true) (h128 : c < 128)
    (h : scanUnit text rest = .ok (tk, [])) : scanUnit text (rest ++ c :: t) = .ok (tk, c :: t) := by
  obtain ⟨-, -, -, -, -, -, -, -, -, hv⟩ := numStop_facts hc
  cases rest with
  | nil =>
    simp only [scanUnit, Res.ok.injEq, Prod.mk.injEq, and_true] at h
    subst h
    simp only [List.nil_append, scanUnit, hv]
    have : ¬ c ≥ 128 := by omega
    simp [this]
  | cons c1 r1 =>
    have e1 := takeWhile_app_stop isValueRune c t hv (c1 :: r1)
    have e2 := dropWhile_app_stop isValueRune c t hv (c1 :: r1)
    simp only [List.cons_append] at e1 e2
    unfold scanUnit at h ⊢
    simp only [List.cons_append, e1, e2] at h ⊢
    generalize List.takeWhile isValueRune (c1 :: r1) = cons at h ⊢
    generalize List.dropWhile isValueRune (c1 :: r1) = rd at h ⊢
    by_cases h1 : c1 ≥ 128
    · simp [h1] at h
    · simp only [h1, ↓reduceIte] at h ⊢
      by_cases h2 : isValueRune c1 = true
      · simp only [h2, Bool.not_true, Bool.false_eq_true, ↓reduceIte] at h ⊢
        generalize (bytesUnits.any fun u => Bytes.ofString u == List.map Bytes.toLower (List.takeWhile isUnitRune cons)) = b1
          at h ⊢
        generalize (durUnits.any fun u => Bytes.ofString u == List.map Bytes.toLower (List.takeWhile isUnitRune cons)) = b2
          at h ⊢
        generalize Num.parseBytes (text ++ cons) = o1 at h ⊢
        generalize parseDurationText (text ++ cons) = o2 at h ⊢
        have h128' : ¬ c ≥ 128 := by omega
        cases rd with
        | nil =>
          simp only [List.nil_append, h128', decide_false, Bool.false_eq_true, ↓reduceIte] at h ⊢
          cases b1 <;> cases b2 <;> cases o1 <;> cases o2 <;> simp_all
        | cons x rd' =>
          exfalso
          by_cases hx : x ≥ 128 <;> cases b1 <;> cases b2 <;> cases o1 <;> cases o2 <;> simp [hx] at h
      · simp [h2] at h


def numLike : Tok → Bool
  | .num _ | .dur _ | .bytes _ => true
  | _ => false

/-- how `scanOne` produces a number, duration or byte-size token -/
theorem scanOne_num_inv {s : Bytes} {tk : Tok} {rest : Bytes} (h : scanOne s = .ok (tk, rest)) (hn : numLike tk = true) :
    ∃ c r, s = c :: r ∧ c < 128 ∧ isIdentStart c = false ∧
      ((Bytes.isDigit c = true ∧ ∃ text rest', scanNum s false = .ok (text, rest') ∧ scanUnit text rest' = .ok (tk, rest)) ∨
       (Bytes.isDigit c = false ∧ c = 46 ∧ (∃ d r', r = d :: r' ∧ Bytes.isDigit d = true) ∧
          ∃ text rest', scanNum r true = .ok (text, rest') ∧ scanUnit text rest' = .ok (tk, rest))) := by
  cases s with
  | nil => simp [scanOne] at h
  | cons c r =>
    refine ⟨c, r, rfl, ?_⟩
    unfold scanOne at h
    simp only at h
    by_cases h1 : c ≥ 128
    · simp [h1] at h
    simp only [h1, ↓reduceIte] at h
    by_cases h2 : (c == 45 && r.head? == some 45) = true
    · simp only [h2, ↓reduceIte] at h
      exfalso
      repeat' split at h
      all_goals first
        | (simp at h; done)
        | (simp only [Res.ok.injEq, Prod.mk.injEq] at h; obtain ⟨rfl, _⟩ := h; simp [numLike] at hn)
    simp only [h2, Bool.false_eq_true, ↓reduceIte] at h
    by_cases h3 : isIdentStart c = true
    · simp only [h3, ↓reduceIte] at h
      exfalso
      repeat' split at h
      all_goals first
        | (simp at h; done)
        | (simp only [Res.ok.injEq, Prod.mk.injEq] at h; obtain ⟨rfl, _⟩ := h; simp [numLike] at hn)
    simp only [h3, Bool.false_eq_true, ↓reduceIte] at h
    refine ⟨by omega, by simpa using h3, ?_⟩
    by_cases h4 : Bytes.isDigit c = true
    · simp only [h4, ↓reduceIte] at h
      left
      refine ⟨h4, ?_⟩
      split at h
      · rename_i text rest' heq
        exact ⟨text, rest', heq, h⟩
      · simp at h
      · simp at h
    simp only [h4, Bool.false_eq_true, ↓reduceIte] at h
    cases r with
    | nil =>
      simp only [Bool.and_false, Bool.false_eq_true, ↓reduceIte] at h
      exfalso
      repeat' split at h
      all_goals first
        | (simp at h; done)
        | (simp only [Res.ok.injEq, Prod.mk.injEq] at h; obtain ⟨rfl, _⟩ := h; simp [numLike] at hn)
    | cons d r' =>
      simp only at h
      by_cases h5 : (c == 46 && Bytes.isDigit d) = true
      · simp only [h5, ↓reduceIte] at h
        right
        simp only [Bool.and_eq_true, beq_iff_eq] at h5
        refine ⟨by simpa using h4, h5.1, ⟨d, r', rfl, h5.2⟩, ?_⟩
        split at h
        · rename_i text rest' heq
          exact ⟨text, rest', heq, h⟩
        · simp at h
        · simp at h
      · simp only [h5, Bool.false_eq_true, ↓reduceIte] at h
        exfalso
        repeat' split at h
        all_goals first
          | (simp at h; done)
          | (simp only [Res.ok.injEq, Prod.mk.injEq] at h; obtain ⟨rfl, _⟩ := h; simp [numLike] at hn)

theorem scanOne_num_stable {s : Bytes} {tk : Tok} {c : Nat} (t : Bytes) (hc : numStop c = true) (h128 : c < 128)
    (h : scanOne s = .ok (tk, [])) (hn : numLike tk = true) : scanOne (s ++ c :: t) = .ok (tk, c :: t) := by
  obtain ⟨c0, r, rfl, hc0, hid, hcase⟩ := scanOne_num_inv h hn
  have h1 : ¬ c0 ≥ 128 := by omega
  simp only [List.cons_append]
  unfold scanOne
  simp only [h1, ↓reduceIte, hid, Bool.false_eq_true]
  rcases hcase with ⟨hd, text, rest', hs, hu⟩ | ⟨hd, rfl, ⟨d, r', rfl, hdd⟩, text, rest', hs, hu⟩
  · have h45 : (c0 == 45) = false := by
      simp only [Bytes.isDigit, Bool.and_eq_true, decide_eq_true_eq] at hd
      simp only [beq_eq_false_iff_ne, ne_eq]; omega
    have hs' := scanNum_stable t hc hs
    simp only [List.cons_append] at hs'
    simp only [h45, Bool.false_and, Bool.false_eq_true, ↓reduceIte, hd, hs']
    exact scanUnit_stable t hc h128 hu
  · have hs' := scanNum_stable t hc hs
    simp only [List.cons_append] at hs'
    simp only [List.cons_append, show (46 == 45) = false from rfl, Bool.false_and, Bool.false_eq_true, ↓reduceIte, hd,
      BEq.rfl, hdd, Bool.and_self, hs']
    exact scanUnit_stable t hc h128 hu


/-! ## numbers: the text is ASCII -/

theorem asc_of_all {p : Nat → Bool} (hp : ∀ b, p b = true → b ≠ 0 ∧ b < 128) {l : Bytes} (h : l.all p = true) :
    asc l = true :=
  all_mono h (by intro b hb; have := hp b hb; simp; omega)

theorem digit_asc (b : Nat) (h : Bytes.isDigit b = true) : b ≠ 0 ∧ b < 128 := by
  simp only [Bytes.isDigit, Bool.and_eq_true, decide_eq_true_eq] at h; omega

theorem valueRune_asc (b : Nat) (h : isValueRune b = true) : b ≠ 0 ∧ b < 128 := by
  simp only [isValueRune, isUnitRune, isDurRune, isBytesRune, Bytes.isDigit, Bool.or_eq_true, Bool.and_eq_true,
    decide_eq_true_eq, beq_iff_eq] at h
  omega

theorem asc_takeWhile_digit (s : Bytes) : asc (s.takeWhile Bytes.isDigit) = true :=
  asc_of_all digit_asc (by simp)

theorem signSplit_spec (r4 : Bytes) : (signSplit r4).1 ++ (signSplit r4).2 = r4 ∧ asc (signSplit r4).1 = true := by
  unfold signSplit
  split <;> simp [asc]

theorem expPart_spec {mant : Bytes} {e : Nat} {r4 text rest : Bytes} (h : expPart mant e r4 = .ok (text, rest))
    (he : (Bytes.toLower e == 101) = true) : text ++ rest = mant ++ e :: r4 ∧ (asc mant = true → asc text = true) := by
  have he' : e ≠ 0 ∧ e < 128 := by
    simp only [Bytes.toLower, Bytes.isUpper, beq_iff_eq] at he
    by_cases hu : (decide (65 ≤ e) && decide (e ≤ 90)) = true <;> simp only [hu, Bool.false_eq_true, ↓reduceIte] at he <;> omega
  unfold expPart at h
  obtain ⟨h1, h2⟩ := signSplit_spec r4
  generalize signSplit r4 = sp at h h1 h2
  obtain ⟨sign, r5⟩ := sp
  simp only at h h1 h2
  have h3 := List.takeWhile_append_dropWhile (p := Bytes.isDigit) (l := r5)
  have h4 := asc_takeWhile_digit r5
  generalize List.takeWhile Bytes.isDigit r5 = ed at h h3 h4
  generalize List.dropWhile Bytes.isDigit r5 = r6 at h h3
  by_cases c1 : (r6.head? == some 95) = true
  · simp [c1] at h
  · simp only [c1, Bool.false_eq_true, ↓reduceIte] at h
    by_cases c2 : ed.isEmpty = true
    · simp [c2] at h
    · simp only [c2, Bool.false_eq_true, ↓reduceIte, Res.ok.injEq, Prod.mk.injEq] at h
      obtain ⟨rfl, rfl⟩ := h
      subst h3 h1
      refine ⟨by simp, ?_⟩
      intro hm
      have : (e != 0) = true := by simp [he'.1]
      simp [asc_append, asc_cons, hm, h2, h4, he'.2, this]

theorem numTail_spec {mant r3 : Bytes} {bad : Bool} {text rest : Bytes} (h : numTail mant r3 bad = .ok (text, rest)) :
    text ++ rest = mant ++ r3 ∧ (asc mant = true → asc text = true) := by
  cases r3 with
  | nil =>
    simp only [numTail] at h
    cases bad <;> simp at h
    obtain ⟨rfl, rfl⟩ := h
    exact ⟨rfl, id⟩
  | cons e r4 =>
    simp only [numTail] at h
    by_cases c1 : (Bytes.toLower e == 101) = true
    · simp only [c1, ↓reduceIte] at h
      exact expPart_spec h c1
    · simp only [c1, Bool.false_eq_true, ↓reduceIte] at h
      by_cases c2 : (Bytes.toLower e == 112) = true
      · simp [c2] at h
      · simp only [c2, Bool.false_eq_true, ↓reduceIte] at h
        cases bad <;> simp at h
        obtain ⟨rfl, rfl⟩ := h
        exact ⟨rfl, id⟩

theorem scanNum_spec {s : Bytes} {d : Bool} {text rest : Bytes} (h : scanNum s d = .ok (text, rest)) :
    text ++ rest = (if d then 46 :: s else s) ∧ asc text = true := by
  rw [scanNum_eq] at h
  cases d with
  | true =>
    simp only [↓reduceIte, Bool.not_true, Bool.false_and, Bool.false_or, Bool.true_or, Bool.false_eq_true] at h
    by_cases c1 : (s.head? == some 95) = true
    · simp [c1] at h
    simp only [c1, Bool.false_eq_true, ↓reduceIte] at h
    by_cases c2 : ((List.dropWhile Bytes.isDigit s).head? == some 95) = true
    · simp [c2] at h
    simp only [c2, Bool.false_eq_true, ↓reduceIte] at h
    obtain ⟨h1, h2⟩ := numTail_spec h
    refine ⟨?_, h2 ?_⟩
    · rw [h1]; simp [List.takeWhile_append_dropWhile]
    · simp [asc_cons, asc_takeWhile_digit]
  | false =>
    simp only [Bool.false_eq_true, ↓reduceIte, Bool.not_false, Bool.true_and, Bool.false_or] at h
    have h3 := List.takeWhile_append_dropWhile (p := Bytes.isDigit) (l := s)
    have h4 := asc_takeWhile_digit s
    generalize s.takeWhile Bytes.isDigit = ip at h h3 h4
    generalize s.dropWhile Bytes.isDigit = r1 at h h3
    by_cases c1 : (radixB s || r1.head? == some 95) = true
    · simp [c1] at h
    simp only [c1, Bool.false_eq_true, ↓reduceIte] at h
    by_cases hdot : (r1.head? == some 46) = true
    · simp only [hdot, ↓reduceIte] at h
      cases r1 with
      | nil => simp at hdot
      | cons x r2 =>
        have hx : x = 46 := by simpa using hdot
        subst hx
        simp only [List.drop_succ_cons, List.drop_zero] at h
        by_cases c2 : ((List.dropWhile Bytes.isDigit r2).head? == some 95) = true
        · simp [c2] at h
        simp only [c2, Bool.false_eq_true, ↓reduceIte] at h
        obtain ⟨h1, h2⟩ := numTail_spec h
        refine ⟨?_, h2 ?_⟩
        · rw [h1, ← h3]; simp [List.takeWhile_append_dropWhile]
        · simp [asc_append, asc_cons, asc_takeWhile_digit, h4]
    · simp only [hdot, Bool.false_eq_true, ↓reduceIte] at h
      by_cases c2 : (r1.head? == some 95) = true
      · simp [c2] at h
      simp only [c2, Bool.false_eq_true, ↓reduceIte] at h
      obtain ⟨h1, h2⟩ := numTail_spec h
      refine ⟨?_, h2 ?_⟩
      · rw [h1, ← h3]; simp
      · simp [h4]

theorem all_of_dropWhile_nil (p : Nat → Bool) : ∀ l : Bytes, l.dropWhile p = [] → l.all p = true := by
  intro l
  induction l with
  | nil => intro _; rfl
  | cons x l ih =>
    intro h
    simp only [List.dropWhile_cons] at h
    split at h
    · rename_i hx; simp [hx, ih h]
    · simp at h

theorem scanUnit_asc {text rest : Bytes} {tk : Tok} (h : scanUnit text rest = .ok (tk, [])) : asc rest = true := by
  cases rest with
  | nil => rfl
  | cons c1 r1 =>
    unfold scanUnit at h
    simp only at h
    by_cases h1 : c1 ≥ 128
    · simp [h1] at h
    simp only [h1, ↓reduceIte] at h
    by_cases h2 : isValueRune c1 = true
    · simp only [h2, Bool.not_true, Bool.false_eq_true, ↓reduceIte] at h
      have h3 : List.dropWhile isValueRune (c1 :: r1) = [] := by
        generalize List.dropWhile isValueRune (c1 :: r1) = rd at h
        generalize (bytesUnits.any fun u => Bytes.ofString u == List.map Bytes.toLower
          (List.takeWhile isUnitRune (List.takeWhile isValueRune (c1 :: r1)))) = b1 at h
        generalize (durUnits.any fun u => Bytes.ofString u == List.map Bytes.toLower
          (List.takeWhile isUnitRune (List.takeWhile isValueRune (c1 :: r1)))) = b2 at h
        generalize Num.parseBytes _ = o1 at h
        generalize parseDurationText _ = o2 at h
        cases rd with
        | nil => rfl
        | cons x rd' =>
          exfalso
          by_cases hx : x ≥ 128 <;> cases b1 <;> cases b2 <;> cases o1 <;> cases o2 <;> simp [hx] at h
      exact asc_of_all valueRune_asc (all_of_dropWhile_nil _ _ h3)
    · simp [h2] at h

theorem scanOne_num_asc {s : Bytes} {tk : Tok} (h : scanOne s = .ok (tk, [])) (hn : numLike tk = true) : asc s = true := by
  obtain ⟨c0, r, rfl, hc0, hid, hcase⟩ := scanOne_num_inv h hn
  rcases hcase with ⟨hd, text, rest', hs, hu⟩ | ⟨hd, rfl, ⟨d, r', rfl, hdd⟩, text, rest', hs, hu⟩
  · obtain ⟨h1, h2⟩ := scanNum_spec hs
    simp only [Bool.false_eq_true, ↓reduceIte] at h1
    rw [← h1, asc_append, h2, scanUnit_asc hu]; rfl
  · obtain ⟨h1, h2⟩ := scanNum_spec hs
    simp only [↓reduceIte] at h1
    rw [← h1, asc_append, h2, scanUnit_asc hu]; rfl


/-! ## words: identifiers and word keywords -/

theorem takeWhile_all_app (p : Nat → Bool) (tail : Bytes) (ht : match tail with | d :: _ => p d = false | [] => True) :
    ∀ r : Bytes, r.all p = true → (r ++ tail).takeWhile p = r ∧ (r ++ tail).dropWhile p = tail := by
  intro r
  induction r with
  | nil =>
    intro _
    cases tail with
    | nil => simp
    | cons d t => simp only at ht; simp [ht]
  | cons x r ih =>
    intro h
    simp only [List.all_cons, Bool.and_eq_true] at h
    simp [h.1, ih h.2]

theorem identStart_facts {c : Nat} (h : isIdentStart c = true) :
    c < 128 ∧ c ≠ 0 ∧ c ≠ 45 ∧ c ≠ 35 ∧ c ≠ 47 ∧ isSpace c = false ∧ isIdentPart c = true := by
  simp only [isIdentStart, isLetter, Bytes.isLower, Bytes.isUpper, Bool.or_eq_true, Bool.and_eq_true, decide_eq_true_eq,
    beq_iff_eq] at h
  refine ⟨by omega, by omega, by omega, by omega, by omega, ?_, ?_⟩
  · simp only [isSpace, isWs, Bool.or_eq_false_iff, beq_eq_false_iff_ne, ne_eq]; omega
  · simp only [isIdentPart, isIdentStart, isLetter, Bytes.isLower, Bytes.isUpper, Bytes.isDigit, Bool.or_eq_true,
      Bool.and_eq_true, decide_eq_true_eq, beq_iff_eq]; omega

theorem identPart_asc (b : Nat) (h : isIdentPart b = true) : b ≠ 0 ∧ b < 128 := by
  simp only [isIdentPart, isIdentStart, isLetter, Bytes.isLower, Bytes.isUpper, Bytes.isDigit, Bool.or_eq_true,
    Bool.and_eq_true, decide_eq_true_eq, beq_iff_eq] at h
  omega

/-- the tail does not continue a word -/
def wordStop (tail : Bytes) : Prop := match tail with | d :: _ => isIdentPart d = false ∧ d < 128 | [] => True

theorem scanOne_word {c : Nat} {r tail : Bytes} (hc : isIdentStart c = true) (hr : r.all isIdentPart = true)
    (ht : wordStop tail) :
    (kwOf (c :: r) = none → scanOne (c :: r ++ tail) = .ok (.ident (c :: r), tail)) ∧
    (∀ k, kwOf (c :: r) = some k → isFunctionK k = false → scanOne (c :: r ++ tail) = .ok (.kw k, tail)) ∧
    (∀ k, kwOf (c :: r) = some k → isFunctionK k = true →
      (match skipSpaceC (tail.length + 1) tail with | 40 :: _ => true | 98 :: _ => true | 119 :: _ => true | _ => false) = true →
      scanOne (c :: r ++ tail) = .ok (.kw k, skipSpaceC (tail.length + 1) tail)) := by
  obtain ⟨h128, -, h45, -⟩ := identStart_facts hc
  have h1 : ¬ c ≥ 128 := by omega
  have h2 : (c == 45) = false := by simp [h45]
  have fin : ∀ tl : Bytes, (r ++ tl).takeWhile isIdentPart = r → (r ++ tl).dropWhile isIdentPart = tl →
      (∀ (A B : Res (Tok × Bytes)), (if (match tl with | x :: _ => decide (x ≥ 128) | [] => false) = true then A else B) = B) →
      (kwOf (c :: r) = none → scanOne (c :: r ++ tl) = .ok (.ident (c :: r), tl)) ∧
      (∀ k, kwOf (c :: r) = some k → isFunctionK k = false → scanOne (c :: r ++ tl) = .ok (.kw k, tl)) ∧
      (∀ k, kwOf (c :: r) = some k → isFunctionK k = true →
        (match skipSpaceC (tl.length + 1) tl with | 40 :: _ => true | 98 :: _ => true | 119 :: _ => true | _ => false) = true →
        scanOne (c :: r ++ tl) = .ok (.kw k, skipSpaceC (tl.length + 1) tl)) := by
    intro tl e1 e2 h3
    simp only [List.cons_append]
    unfold scanOne
    simp only [h1, ↓reduceIte, h2, Bool.false_and, Bool.false_eq_true, hc, e1, e2]
    refine ⟨?_, ?_, ?_⟩
    · intro hk; simp only [hk]; exact h3 _ _
    · intro k hk hf; simp only [hk, hf, Bool.false_eq_true, ↓reduceIte]; exact h3 _ _
    · intro k hk hf hla
      simp only [hk, hf, ↓reduceIte]
      refine (h3 _ _).trans ?_
      generalize skipSpaceC (tl.length + 1) tl = rest' at hla ⊢
      split <;> simp_all
  cases tail with
  | nil =>
    obtain ⟨e1, e2⟩ := takeWhile_all_app isIdentPart [] trivial r hr
    exact fin [] e1 e2 (by intro A B; simp)
  | cons d t =>
    have ht2 : isIdentPart d = false ∧ d < 128 := ht
    obtain ⟨e1, e2⟩ := takeWhile_all_app isIdentPart (d :: t) ht2.1 r hr
    have hd : ¬ d ≥ 128 := by omega
    exact fin (d :: t) e1 e2 (by intro A B; simp [hd])


/-! ## operators -/

theorem scanOne_op_nil {c : Nat} {k : K} (hc128 : c < 128) (hid : isIdentStart c = false) (hdig : Bytes.isDigit c = false)
    (h34 : c ≠ 34) (h96 : c ≠ 96) (hk : kwOf [c] = some k) : scanOne [c] = .ok (.kw k, []) := by
  have h1 : ¬ c ≥ 128 := by omega
  have h2 : (c == 34) = false := by simp [h34]
  have h3 : (c == 96) = false := by simp [h96]
  unfold scanOne
  simp only [h1, ↓reduceIte, List.head?_nil, Bool.and_false, Bool.false_eq_true, hid, hdig, h2, h3, hk]
  simp

theorem scanOne_op_one {c d : Nat} {t : Bytes} {k : K} (hc128 : c < 128) (hid : isIdentStart c = false)
    (hdig : Bytes.isDigit c = false) (h34 : c ≠ 34) (h96 : c ≠ 96) (hk : kwOf [c] = some k)
    (hk2 : kwOf [c, d] = none) (hflag : (c == 45 && d == 45) = false) (hnum : (c == 46 && Bytes.isDigit d) = false) :
    scanOne (c :: d :: t) = .ok (.kw k, d :: t) := by
  have h1 : ¬ c ≥ 128 := by omega
  have h2 : (c == 34) = false := by simp [h34]
  have h3 : (c == 96) = false := by simp [h96]
  have h4 : (c == 45 && (d :: t).head? == some 45) = false := by
    simpa using hflag
  unfold scanOne
  simp only [h1, ↓reduceIte, h4, Bool.false_eq_true, hid, hdig, hnum, h2, h3, hk, hk2]

theorem scanOne_op_two {c d : Nat} {t : Bytes} {k : K} (hc128 : c < 128) (hid : isIdentStart c = false)
    (hdig : Bytes.isDigit c = false) (h34 : c ≠ 34) (h96 : c ≠ 96) (h45 : c ≠ 45) (h46 : c ≠ 46)
    (hk2 : kwOf [c, d] = some k) : scanOne (c :: d :: t) = .ok (.kw k, t) := by
  have h1 : ¬ c ≥ 128 := by omega
  have h2 : (c == 34) = false := by simp [h34]
  have h3 : (c == 96) = false := by simp [h96]
  have h4 : (c == 45) = false := by simp [h45]
  have h5 : (c == 46) = false := by simp [h46]
  unfold scanOne
  simp only [h1, ↓reduceIte, h4, h5, Bool.false_and, Bool.false_eq_true, hid, hdig, h2, h3, hk2]

/-! ## strings at the level of `scanOne` -/

theorem flatten_length_ge (f : Nat → Bytes) (hf : ∀ b, 0 < (f b).length) : ∀ v : Bytes, v.length ≤ (v.map f).flatten.length := by
  intro v
  induction v with
  | nil => simp
  | cons b v ih =>
    have := hf b
    simp only [List.map_cons, List.flatten_cons, List.length_append, List.length_cons]
    omega

theorem scanOne_quoted {body tail v : Bytes} (hlen : v.length ≤ body.length)
    (h : ∀ f, v.length < f → scanStr f (body ++ 34 :: tail) [] = .ok (v, tail)) :
    scanOne (34 :: body ++ 34 :: tail) = .ok (.str v, tail) := by
  simp only [List.cons_append]
  unfold scanOne
  have hs := h ((body ++ 34 :: tail).length + 1) (by simp; omega)
  simp only [show ¬ (34 ≥ 128) by omega, ↓reduceIte, show (34 == 45) = false from rfl, Bool.false_and, Bool.false_eq_true,
    show isIdentStart 34 = false from rfl, show Bytes.isDigit 34 = false from rfl, show (34 == 46) = false from rfl,
    BEq.rfl, hs]

theorem scanOne_escaped (v tail : Bytes) (hv : v.all (· < 256) = true) :
    scanOne (spellStr .escaped v ++ tail) = .ok (.str v, tail) := by
  have := scanOne_quoted (body := (v.map escByte).flatten) (tail := tail) (v := v)
    (flatten_length_ge _ (by intro b; simp [escByte]) v)
    (by intro f hf; simpa using scanStr_escaped tail v f [] hv hf)
  simpa [spellStr] using this

theorem scanOne_plain (v tail : Bytes) (hv : v.all (· < 256) = true) :
    scanOne (spellStr .plain v ++ tail) = .ok (.str v, tail) := by
  have := scanOne_quoted (body := (v.map fun b => if plainByte b then [b] else escByte b).flatten) (tail := tail) (v := v)
    (flatten_length_ge _ (by intro b; split <;> simp [escByte]) v)
    (by intro f hf; simpa using scanStr_plain tail v f [] hv hf)
  simpa [spellStr] using this

theorem scanOne_raw (v tail : Bytes) (hv : v.contains 96 = false) :
    scanOne (spellStr .raw v ++ tail) = .ok (.str v, tail) := by
  simp only [spellStr, List.cons_append, List.append_assoc, List.nil_append]
  unfold scanOne
  have hs := scanRaw_append tail v [] hv
  simp only [List.nil_append] at hs
  simp only [show ¬ (96 ≥ 128) by omega, ↓reduceIte, show (96 == 45) = false from rfl, Bool.false_and, Bool.false_eq_true,
    show isIdentStart 96 = false from rfl, show Bytes.isDigit 96 = false from rfl, show (96 == 46) = false from rfl,
    show (96 == 34) = false from rfl, BEq.rfl, hs]

theorem hexDigit_asc (n : Nat) (h : n < 16) : hexDigit n ≠ 0 ∧ hexDigit n < 128 := by
  unfold hexDigit; split <;> omega

theorem asc_escByte (b : Nat) (hb : b < 256) : asc (escByte b) = true := by
  have h1 := hexDigit_asc (b / 16) (by omega)
  have h2 := hexDigit_asc (b % 16) (by omega)
  simp [escByte, asc, h1, h2]

theorem asc_flatten (f : Nat → Bytes) : ∀ v : Bytes, (∀ b ∈ v, asc (f b) = true) → asc (v.map f).flatten = true := by
  intro v
  induction v with
  | nil => intro _; rfl
  | cons b v ih =>
    intro h
    simp only [List.map_cons, List.flatten_cons, asc_append, Bool.and_eq_true]
    exact ⟨h b (by simp), ih (fun x hx => h x (by simp [hx]))⟩

theorem asc_spellStr_escaped (v : Bytes) (hv : v.all (· < 256) = true) : asc (spellStr .escaped v) = true := by
  simp only [List.all_eq_true, decide_eq_true_eq] at hv
  simp only [spellStr, asc_cons, asc_append, asc_nil, Bool.and_true]
  rw [asc_flatten _ v (fun b hb => asc_escByte b (hv b hb))]; rfl

theorem asc_spellStr_plain (v : Bytes) (hv : v.all (· < 256) = true) : asc (spellStr .plain v) = true := by
  simp only [List.all_eq_true, decide_eq_true_eq] at hv
  simp only [spellStr, asc_cons, asc_append, asc_nil, Bool.and_true]
  rw [asc_flatten _ v (fun b hb => by
    split
    · rename_i hp
      simp only [plainByte, Bool.and_eq_true, decide_eq_true_eq, bne_iff_ne, ne_eq] at hp
      simp [asc]; omega
    · exact asc_escByte b (hv b hb))]; rfl

theorem asc_spellStr_raw (v : Bytes) (hv : asc v = true) : asc (spellStr .raw v) = true := by
  simp [spellStr, asc_cons, asc_append, asc_nil, hv]


/-! ## the shapes of an admissible piece -/

inductive Shape (p : Piece) : Prop where
  | ident (c : Nat) (r : Bytes) (htok : p.tok = .ident (c :: r)) (htext : p.text = c :: r)
      (hc : isIdentStart c = true) (hr : r.all isIdentPart = true) (hk : kwOf (c :: r) = none)
  | word (k : K) (c : Nat) (r : Bytes) (htok : p.tok = .kw k) (htext : p.text = c :: r)
      (hc : isIdentStart c = true) (hr : r.all isIdentPart = true) (hk : kwOf (c :: r) = some k)
  | op1 (k : K) (c : Nat) (htok : p.tok = .kw k) (htext : p.text = [c]) (hk : kwOf [c] = some k)
      (hasc : asc [c] = true) (hid : isIdentStart c = false) (hsp : isSpace c = false) (h35 : c ≠ 35) (h34 : c ≠ 34)
      (h96 : c ≠ 96) (hdig : Bytes.isDigit c = false)
  | op2 (k : K) (c d : Nat) (htok : p.tok = .kw k) (htext : p.text = [c, d]) (hk : kwOf [c, d] = some k)
      (hasc : asc [c, d] = true) (hid : isIdentStart c = false) (hsp : isSpace c = false) (h35 : c ≠ 35) (h34 : c ≠ 34)
      (h96 : c ≠ 96) (hdig : Bytes.isDigit c = false) (h45 : c ≠ 45) (h46 : c ≠ 46) (h47 : c ≠ 47)
  | strE (v : Bytes) (htok : p.tok = .str v) (hv : v.all (· < 256) = true) (htext : p.text = spellStr .escaped v)
  | strP (v : Bytes) (htok : p.tok = .str v) (hv : v.all (· < 256) = true) (htext : p.text = spellStr .plain v)
  | strR (v : Bytes) (htok : p.tok = .str v) (htext : p.text = spellStr .raw v) (h96 : v.contains 96 = false)
      (hasc : asc v = true)
  | num (hn : numLike p.tok = true) (hs : scanOne p.text = .ok (p.tok, []))

theorem shape_num {p : Piece} (hn : numLike p.tok = true)
    (h : (match scanOne p.text with | .ok (t, []) => t == p.tok | _ => false) = true) : Shape p := by
  refine .num hn ?_
  split at h
  · rename_i t heq
    have : t = p.tok := by simpa using h
    rw [← this]; exact heq
  · simp at h

theorem shape_of_spellOK (p : Piece) (h : spellOK p = true) : Shape p := by
  obtain ⟨tok, text, gap⟩ := p
  unfold spellOK at h
  simp only at h
  cases tok with
  | ident w =>
    simp only [Bool.and_eq_true, beq_iff_eq, Option.isNone_iff_eq_none] at h
    obtain ⟨⟨rfl, h2⟩, h3⟩ := h
    cases text with
    | nil => simp at h2
    | cons c r =>
      simp only [Bool.and_eq_true] at h2
      exact .ident c r rfl rfl h2.1 h2.2 h3
  | kw k =>
    simp only [Bool.and_eq_true, beq_iff_eq, bne_iff_ne, ne_eq, Bool.not_eq_true', List.isEmpty_eq_false_iff] at h
    obtain ⟨⟨_, rfl⟩, h3⟩ := h
    have kf := kwFacts_all k
    unfold kwFacts at kf
    cases hs : spellKw k with
    | nil => exact absurd hs h3
    | cons c rest =>
      simp only [hs, Bool.and_eq_true, beq_iff_eq, Bool.not_eq_true', bne_iff_ne, ne_eq] at kf
      obtain ⟨⟨⟨⟨k1, k2⟩, k3⟩, k4⟩, k5⟩ := kf
      by_cases hid : isIdentStart c = true
      · simp only [hid, ↓reduceIte] at k5
        exact .word k c rest rfl rfl hid k5 k1
      · simp only [hid, Bool.false_eq_true, ↓reduceIte, Bool.and_eq_true, bne_iff_ne, ne_eq, Bool.not_eq_true'] at k5
        obtain ⟨⟨⟨k6, k7⟩, k8⟩, k9⟩ := k5
        have hid' : isIdentStart c = false := by simpa using hid
        match rest, k9 with
        | [], _ => exact .op1 k c rfl rfl k1 k2 hid' k3 k4 k6 k7 k8
        | [d], k9 =>
          simp only [Bool.and_eq_true, bne_iff_ne, ne_eq] at k9
          exact .op2 k c d rfl rfl k1 k2 hid' k3 k4 k6 k7 k8 k9.1.1 k9.1.2 k9.2
        | _ :: _ :: _, k9 => simp at k9
  | str v =>
    simp only [Bool.and_eq_true, Bool.or_eq_true, beq_iff_eq, Bool.not_eq_true'] at h
    obtain ⟨hv, (rfl | rfl) | ⟨⟨rfl, h96⟩, hasc⟩⟩ := h
    · exact .strE v rfl hv rfl
    · exact .strP v rfl hv rfl
    · exact .strR v rfl rfl h96 hasc
  | num t => exact shape_num rfl h
  | dur t => exact shape_num rfl h
  | bytes t => exact shape_num rfl h


/-! ## what the proofs need about one piece -/

theorem piece_asc {p : Piece} (h : spellOK p = true) : asc p.text = true := by
  cases shape_of_spellOK p h with
  | ident c r htok htext hc hr hk =>
    rw [htext]
    exact asc_of_all identPart_asc (by simp [(identStart_facts hc).2.2.2.2.2.2, hr])
  | word k c r htok htext hc hr hk =>
    rw [htext]
    exact asc_of_all identPart_asc (by simp [(identStart_facts hc).2.2.2.2.2.2, hr])
  | op1 k c htok htext hk hasc => rw [htext]; exact hasc
  | op2 k c d htok htext hk hasc => rw [htext]; exact hasc
  | strE v htok hv htext => rw [htext]; exact asc_spellStr_escaped v hv
  | strP v htok hv htext => rw [htext]; exact asc_spellStr_plain v hv
  | strR v htok htext h96 hasc => rw [htext]; exact asc_spellStr_raw v hasc
  | num hn hs => exact scanOne_num_asc hs hn

theorem digit_facts {c : Nat} (h : Bytes.isDigit c = true) : isSpace c = false ∧ c ≠ 35 ∧ c ≠ 47 := by
  simp only [Bytes.isDigit, Bool.and_eq_true, decide_eq_true_eq] at h
  refine ⟨?_, by omega, by omega⟩
  simp only [isSpace, isWs, Bool.or_eq_false_iff, beq_eq_false_iff_ne, ne_eq]; omega

/-- the first byte of a piece is not white space and does not start a `#` comment; only the division
operator starts with `/` -/
theorem piece_start {p : Piece} (h : spellOK p = true) :
    ∃ c r, p.text = c :: r ∧ isSpace c = false ∧ c ≠ 35 ∧ (c = 47 → r = [] ∧ ∃ k, p.tok = .kw k) := by
  cases shape_of_spellOK p h with
  | ident c r htok htext hc hr hk =>
    obtain ⟨-, -, -, h35, h47, hsp, -⟩ := identStart_facts hc
    exact ⟨c, r, htext, hsp, h35, fun h => absurd h h47⟩
  | word k c r htok htext hc hr hk =>
    obtain ⟨-, -, -, h35, h47, hsp, -⟩ := identStart_facts hc
    exact ⟨c, r, htext, hsp, h35, fun h => absurd h h47⟩
  | op1 k c htok htext hk hasc hid hsp h35 => exact ⟨c, [], htext, hsp, h35, fun _ => ⟨rfl, k, htok⟩⟩
  | op2 k c d htok htext hk hasc hid hsp h35 h34 h96 hdig h45 h46 h47 =>
    exact ⟨c, [d], htext, hsp, h35, fun h => absurd h h47⟩
  | strE v htok hv htext => exact ⟨34, _, by rw [htext]; rfl, rfl, by omega, by omega⟩
  | strP v htok hv htext => exact ⟨34, _, by rw [htext]; rfl, rfl, by omega, by omega⟩
  | strR v htok htext h96 hasc => exact ⟨96, _, by rw [htext]; rfl, rfl, by omega, by omega⟩
  | num hn hs =>
    obtain ⟨c0, r, htext, hc0, hid, hcase⟩ := scanOne_num_inv hs hn
    rcases hcase with ⟨hd, -⟩ | ⟨hd, rfl, -⟩
    · obtain ⟨h1, h2, h3⟩ := digit_facts hd
      exact ⟨c0, r, htext, h1, h2, fun h => absurd h h3⟩
    · exact ⟨46, r, htext, rfl, by omega, by omega⟩

theorem piece_gapStop {p : Piece} {tail : Bytes} (h : spellOK p = true) (hf : followOK p tail = true) :
    gapStop (p.text ++ tail) = true := by
  obtain ⟨c, r, htext, hsp, h35, h47⟩ := piece_start h
  have hws : isWs c = false := by
    simp only [isSpace, Bool.or_eq_false_iff] at hsp; exact hsp.1.1
  have h35' : (c != 35) = true := by simp [h35]
  rw [htext]
  simp only [List.cons_append, gapStop, hws, Bool.not_false, Bool.true_and, h35', Bool.not_eq_true', Bool.and_eq_false_iff,
    beq_eq_false_iff_ne, ne_eq]
  by_cases hc : c = 47
  · right
    obtain ⟨rfl, k, htok⟩ := h47 hc
    subst hc
    unfold followOK at hf
    simp only [htok, htext, show isIdentStart 47 = false from rfl, Bool.false_eq_true, ↓reduceIte, List.isEmpty_nil,
      Bool.and_eq_true] at hf
    cases tail with
    | nil => rfl
    | cons d t =>
      simp only [BEq.rfl, Bool.true_and, Bool.and_eq_true, Bool.not_eq_true', Bool.or_eq_false_iff,
        beq_eq_false_iff_ne, ne_eq] at hf
      obtain ⟨-, ⟨⟨-, h1, h2⟩, -⟩, -⟩ := hf
      simp only [List.nil_append]
      split <;> simp_all
  · left; exact hc

theorem piece_scan {p : Piece} {tail : Bytes} (h : spellOK p = true) (hf : followOK p tail = true) :
    scanOne (p.text ++ tail) = .ok (p.tok, tail) ∨
    scanOne (p.text ++ tail) = .ok (p.tok, skipSpaceC (tail.length + 1) tail) := by
  unfold followOK at hf
  cases shape_of_spellOK p h with
  | ident c r htok htext hc hr hk =>
    left
    rw [htext, htok]
    refine (scanOne_word hc hr ?_).1 hk
    simp only [htok, Bool.and_eq_true] at hf
    cases tail with
    | nil => trivial
    | cons d t => simp only [decide_eq_true_eq, Bool.not_eq_true'] at hf; exact ⟨hf.2, hf.1⟩
  | word k c r htok htext hc hr hk =>
    rw [htext, htok]
    simp only [htok, htext, hc, ↓reduceIte, Bool.and_eq_true, Bool.or_eq_true, Bool.not_eq_true'] at hf
    obtain ⟨hf1, hf2, hf3⟩ := hf
    have hstop : wordStop tail := by
      cases tail with
      | nil => trivial
      | cons d t => simp only [decide_eq_true_eq, Bool.not_eq_true'] at hf1 hf2; exact ⟨hf2, hf1⟩
    obtain ⟨-, w2, w3⟩ := scanOne_word (c := c) (r := r) hc hr hstop
    rcases hf3 with hfn | hla
    · left; exact w2 k hk hfn
    · by_cases hfn : isFunctionK k = true
      · right; exact w3 k hk hfn hla
      · left; exact w2 k hk (by simpa using hfn)
  | op1 k c htok htext hk hasc hid hsp h35 h34 h96 hdig =>
    left
    rw [htext, htok]
    have hc128 : c < 128 := by simp [asc] at hasc; exact hasc.2
    simp only [htok, htext, hid, Bool.false_eq_true, ↓reduceIte, List.isEmpty_nil, Bool.and_eq_true] at hf
    cases tail with
    | nil => exact scanOne_op_nil hc128 hid hdig h34 h96 hk
    | cons d t =>
      simp only [Bool.and_eq_true, Bool.not_eq_true', Option.isNone_iff_eq_none] at hf
      obtain ⟨-, ⟨⟨hk2, -⟩, hflag⟩, hnum⟩ := hf
      exact scanOne_op_one hc128 hid hdig h34 h96 hk hk2 hflag hnum
  | op2 k c d htok htext hk hasc hid hsp h35 h34 h96 hdig h45 h46 h47 =>
    left
    rw [htext, htok]
    have hc128 : c < 128 := by simp [asc] at hasc; exact hasc.1.2
    exact scanOne_op_two hc128 hid hdig h34 h96 h45 h46 hk
  | strE v htok hv htext => left; rw [htext, htok]; exact scanOne_escaped v tail hv
  | strP v htok hv htext => left; rw [htext, htok]; exact scanOne_plain v tail hv
  | strR v htok htext h96 hasc => left; rw [htext, htok]; exact scanOne_raw v tail h96
  | num hn hs =>
    left
    cases tail with
    | nil => simpa using hs
    | cons d t =>
      have hd : d < 128 ∧ numStop d = true := by
        cases htk : p.tok with
        | num x => simpa [htk, numStop] using hf
        | dur x => simpa [htk, numStop] using hf
        | bytes x => simpa [htk, numStop] using hf
        | ident x => simp [htk, numLike] at hn
        | str x => simp [htk, numLike] at hn
        | kw x => simp [htk, numLike] at hn
      exact scanOne_num_stable t hd.2 hd.1 hs hn


/-! ## the main induction -/

theorem render_cons (p : Piece) (r : List Piece) : render (p :: r) = p.text ++ (gapBytes p.gap ++ render r) := by
  simp [render]

theorem render_asc : ∀ ps : List Piece, piecesOK ps = true → asc (render ps) = true := by
  intro ps
  induction ps with
  | nil => intro _; rfl
  | cons p r ih =>
    intro h
    simp only [piecesOK, List.all_cons, Bool.and_eq_true] at h
    rw [render_cons, asc_append, asc_append, piece_asc h.1.1, asc_gap _ h.1.2, ih (by simpa [piecesOK] using h.2)]; rfl

theorem render_start (ps : List Piece) (h : piecesOK ps = true) :
    match render ps with | [] => True | c :: _ => isSpace c = false ∧ c ≠ 35 := by
  cases ps with
  | nil => simp [render]
  | cons q r =>
    simp only [piecesOK, List.all_cons, Bool.and_eq_true] at h
    obtain ⟨c, t, ht, h1, h2, -⟩ := piece_start h.1.1
    simp only [render_cons, ht, List.cons_append]
    exact ⟨h1, h2⟩

theorem tokenizeFrom_render : ∀ (ps : List Piece) (lead : Gap) (f : Nat), lead.all GapItem.ok = true →
    piecesOK ps = true → Sep ps = true → (gapBytes lead ++ render ps).length < f →
    tokenizeFrom f (gapBytes lead ++ render ps) = .ok (ps.map (·.tok)) := by
  intro ps
  induction ps with
  | nil =>
    intro lead f hl _ _ hf
    cases f with
    | zero => omega
    | succ f =>
      unfold tokenizeFrom
      have hlen : lead.length < (gapBytes lead ++ render []).length + 1 := by
        have := gap_length_le lead
        simp only [List.length_append]; omega
      rw [show render [] = [] from rfl] at hlen ⊢
      rw [skipGap_gap lead [] _ hl rfl hlen]
      rfl
  | cons p rest ih =>
    intro lead f hl hok hsep hf
    cases f with
    | zero => omega
    | succ f =>
      have hok' := hok
      simp only [piecesOK, List.all_cons, Bool.and_eq_true] at hok'
      obtain ⟨⟨hsp, hgap⟩, hrest⟩ := hok'
      have hrest' : piecesOK rest = true := by simpa [piecesOK] using hrest
      simp only [Layout.Sep, Bool.and_eq_true] at hsep
      obtain ⟨hfol, hsep'⟩ := hsep
      rw [render_cons] at hf ⊢
      generalize htail : gapBytes p.gap ++ render rest = tail at hf hfol ⊢
      have hstop := piece_gapStop hsp hfol
      have hscan := piece_scan hsp hfol
      obtain ⟨c, r, htext, -⟩ := piece_start hsp
      have hlen : lead.length < (gapBytes lead ++ (p.text ++ tail)).length + 1 := by
        have := gap_length_le lead
        simp only [List.length_append]; omega
      have hflen : tail.length < f := by
        simp only [List.length_append, htext, List.length_cons] at hf; omega
      unfold tokenizeFrom
      rw [skipGap_gap lead _ _ hl hstop hlen]
      rw [htext] at hscan ⊢
      simp only [List.cons_append] at hscan ⊢
      rcases hscan with hscan | hscan
      · rw [hscan]
        simp only
        rw [← htail, ih p.gap f hgap hrest' hsep' (by rw [htail]; exact hflen)]
        rfl
      · rw [hscan]
        simp only
        obtain ⟨g', hg1, hg2, hg3⟩ := skipSpaceC_gap (render rest) (render_start rest hrest') p.gap ((gapBytes p.gap ++ render rest).length + 1) hgap
        rw [← htail, hg3, ih g' f hg1 hrest' hsep' (by
          rw [← htail] at hflen
          simp only [List.length_append] at hflen ⊢; omega)]
        rfl

theorem tokenize_render (lead : Layout.Gap) (ps : List Layout.Piece)
    (hl : lead.all Layout.GapItem.ok = true) (hok : Layout.piecesOK ps = true) (hsep : Layout.Sep ps = true) :
    Lexer.tokenize (Layout.gapBytes lead ++ Layout.render ps) = .ok (ps.map (·.tok)) := by
  unfold tokenize
  have hasc : asc (gapBytes lead ++ render ps) = true := by
    rw [asc_append, asc_gap lead hl, render_asc ps hok]; rfl
  rw [validText_asc _ _ hasc (Nat.lt_succ_self _)]
  exact tokenizeFrom_render ps lead _ hl hok hsep (Nat.lt_succ_self _)

theorem layout_independent (lead₁ lead₂ : Layout.Gap) (ps₁ ps₂ : List Layout.Piece)
    (h₁ : lead₁.all Layout.GapItem.ok = true ∧ Layout.piecesOK ps₁ = true ∧ Layout.Sep ps₁ = true)
    (h₂ : lead₂.all Layout.GapItem.ok = true ∧ Layout.piecesOK ps₂ = true ∧ Layout.Sep ps₂ = true)
    (htoks : ps₁.map (·.tok) = ps₂.map (·.tok)) :
    Lexer.tokenize (Layout.gapBytes lead₁ ++ Layout.render ps₁) = Lexer.tokenize (Layout.gapBytes lead₂ ++ Layout.render ps₂) := by
  rw [tokenize_render lead₁ ps₁ h₁.1 h₁.2.1 h₁.2.2, tokenize_render lead₂ ps₂ h₂.1 h₂.2.1 h₂.2.2, htoks]


/-! ## non-vacuity -/

section Examples

private def B (s : String) : Bytes := Bytes.ofString s

/-- `sum by (a) (rate({a="x"}[5m])) > 1.5` with a `#` comment, a block comment, a `//` comment, a line
feed between the function name and its parenthesis, and the string in raw style -/
def exPieces₁ : List Piece := [
  ⟨.kw .sum, B "sum", [.ws 32]⟩,
  ⟨.kw .by_, B "by", [.ws 32, .hash (B "grouping")]⟩,
  ⟨.kw .lparen, B "(", []⟩,
  ⟨.ident (B "a"), B "a", []⟩,
  ⟨.kw .rparen, B ")", [.ws 32, .block (B " inner * ")]⟩,
  ⟨.kw .lparen, B "(", []⟩,
  ⟨.kw .rate, B "rate", [.ws 10]⟩,
  ⟨.kw .lparen, B "(", []⟩,
  ⟨.kw .lbrace, B "{", []⟩,
  ⟨.ident (B "a"), B "a", [.ws 32]⟩,
  ⟨.kw .eq, B "=", [.line (B " eq")]⟩,
  ⟨.str (B "x"), B "`x`", []⟩,
  ⟨.kw .rbrace, B "}", []⟩,
  ⟨.kw .lbracket, B "[", []⟩,
  ⟨.dur (B "5m"), B "5m", []⟩,
  ⟨.kw .rbracket, B "]", []⟩,
  ⟨.kw .rparen, B ")", []⟩,
  ⟨.kw .rparen, B ")", [.ws 32]⟩,
  ⟨.kw .gt, B ">", [.ws 32]⟩,
  ⟨.num (B "1.5"), B "1.5", []⟩]

/-- the same tokens in the plainest layout, the string written with `\x` escapes -/
def exPieces₂ : List Piece := [
  ⟨.kw .sum, B "sum", [.ws 32]⟩,
  ⟨.kw .by_, B "by", [.ws 32]⟩,
  ⟨.kw .lparen, B "(", []⟩,
  ⟨.ident (B "a"), B "a", []⟩,
  ⟨.kw .rparen, B ")", [.ws 32]⟩,
  ⟨.kw .lparen, B "(", []⟩,
  ⟨.kw .rate, B "rate", []⟩,
  ⟨.kw .lparen, B "(", []⟩,
  ⟨.kw .lbrace, B "{", []⟩,
  ⟨.ident (B "a"), B "a", []⟩,
  ⟨.kw .eq, B "=", []⟩,
  ⟨.str (B "x"), B "\"\\x78\"", []⟩,
  ⟨.kw .rbrace, B "}", []⟩,
  ⟨.kw .lbracket, B "[", []⟩,
  ⟨.dur (B "5m"), B "5m", []⟩,
  ⟨.kw .rbracket, B "]", []⟩,
  ⟨.kw .rparen, B ")", []⟩,
  ⟨.kw .rparen, B ")", [.ws 32]⟩,
  ⟨.kw .gt, B ">", [.ws 32]⟩,
  ⟨.num (B "1.5"), B "1.5", [.ws 10]⟩]

def exLead₁ : Gap := [.ws 9, .block (B "query")]

example : gapBytes exLead₁ ++ render exPieces₁ =
    B "\t/*query*/sum by #grouping\n(a) /* inner * */(rate\n({a =// eq\n`x`}[5m])) > 1.5" := by decide +kernel
example : render exPieces₂ = B "sum by (a) (rate({a=\"\\x78\"}[5m])) > 1.5\n" := by decide +kernel

example : exLead₁.all GapItem.ok = true ∧ piecesOK exPieces₁ = true ∧ Layout.Sep exPieces₁ = true := by decide +kernel
example : piecesOK exPieces₂ = true ∧ Layout.Sep exPieces₂ = true := by decide +kernel

example : tokenize (gapBytes exLead₁ ++ render exPieces₁) = .ok (exPieces₁.map (·.tok)) :=
  tokenize_render exLead₁ exPieces₁ (by decide +kernel) (by decide +kernel) (by decide +kernel)

example : tokenize (gapBytes exLead₁ ++ render exPieces₁) = tokenize (gapBytes [] ++ render exPieces₂) :=
  layout_independent exLead₁ [] exPieces₁ exPieces₂ (by decide +kernel) (by decide +kernel) (by decide +kernel)

/-- corner cases: `1.` and `.5`, a gap directly after `/`, `-` and `.`, an empty string literal, a string in
plain style with an escaped byte -/
def exPieces₃ : List Piece := [
  ⟨.num (B "1."), B "1.", [.ws 32]⟩,
  ⟨.kw .div, B "/", [.ws 32, .block (B "*")]⟩,
  ⟨.num (B ".5"), B ".5", []⟩,
  ⟨.kw .sub, B "-", [.hash []]⟩,
  ⟨.str [], B "\"\"", []⟩,
  ⟨.kw .dot, B ".", [.ws 9]⟩,
  ⟨.str [97, 10, 200], B "\"a\\x0a\\xc8\"", [.line (B "/")]⟩,
  ⟨.bytes (B "2KiB"), B "2KiB", []⟩]

example : render exPieces₃ = B "1. / /***/.5-#\n\"\".\t\"a\\x0a\\xc8\"///\n2KiB" := by decide +kernel
example : piecesOK exPieces₃ = true ∧ Layout.Sep exPieces₃ = true := by decide +kernel
example : tokenize (render exPieces₃) = .ok (exPieces₃.map (·.tok)) := by
  simpa [gapBytes] using tokenize_render [] exPieces₃ rfl (by decide +kernel) (by decide +kernel)

/-- a lead gap alone -/
example : tokenize (gapBytes exLead₁) = .ok [] := by
  simpa [render] using tokenize_render exLead₁ [] (by decide +kernel) rfl rfl

end Examples

end C05Layout
