import Verif.Model.LogEval
namespace LogQL.C19
open LogQL

/-! C19: the algebra of *pure filters* appended to an arbitrary (possibly stateful) pipeline,
for queries without a limit. -/

/-- predicates built from string label matchers only (these write no label) -/
def purePred : Pred → Bool
  | .and a b | .or a b => purePred a && purePred b
  | .paren p => purePred p
  | .str _ => true
  | _ => false

/-- pure filters: line filters and pure label predicates -/
def pureFilter : Stage → Bool
  | .lineFilter .. => true
  | .labelFilter p => purePred p
  | _ => false

/-- whether an entry (line, labels) passes a pure filter -/
def sat (env : Env) (f : Stage) (line : Bytes) (ls : Labels) : Bool :=
  ((f.apply env 0 [] ⟨line, ls⟩).1).isSome

/-- the complementary filter: |= ↔ !=, |~ ↔ !~, label = ↔ !=, =~ ↔ !~ -/
def negFilter : Stage → Stage
  | .lineFilter op v re => .lineFilter op.neg v re
  | .labelFilter (.str m) => .labelFilter (.str { m with op := m.op.neg })
  | s => s

/-- the filters that have a complement -/
def simpleFilter : Stage → Bool
  | .lineFilter .. => true
  | .labelFilter (.str _) => true
  | _ => false

abbrev run (env : Env) (sel : List StrMatcher) (stages : List Stage) (limit : Int) (recs : List Rec) : List Entry :=
  iterate env sel stages limit recs [] 0

/-! ### pure predicates and pure filters -/

/-- a pure predicate never writes a label -/
theorem purePred_eval_labels (env : Env) (p : Pred) (hp : purePred p = true) (ls : Labels) :
    (p.eval env ls).2 = ls := by
  induction p generalizing ls with
  | and a b iha ihb =>
    simp only [purePred, Bool.and_eq_true] at hp
    have ha := iha hp.1 ls
    simp only [Pred.eval]
    cases h : a.eval env ls with
    | mk r ls' =>
      rw [h] at ha; simp only at ha; subst ha
      cases r
      · rfl
      · exact ihb hp.2 _
  | or a b iha ihb =>
    simp only [purePred, Bool.and_eq_true] at hp
    have ha := iha hp.1 ls
    simp only [Pred.eval]
    cases h : a.eval env ls with
    | mk r ls' =>
      rw [h] at ha; simp only at ha; subst ha
      cases r
      · exact ihb hp.2 _
      · rfl
  | paren p ih => simp only [purePred] at hp; simp only [Pred.eval]; exact ih hp ls
  | str m => rfl
  | num | dur | bytes | ip => simp [purePred] at hp

theorem isSome_ite {α} (b : Bool) (x : α) : (if b = true then some x else none).isSome = b := by
  cases b <;> rfl

theorem sat_lineFilter (env : Env) (op : StrOp) (v : Bytes) (re : Regex.Re) (line : Bytes) (ls : Labels) :
    sat env (.lineFilter op v re) line ls =
      (match op with
       | .eq => Bytes.contains line v
       | .ne => !Bytes.contains line v
       | .re => env.reSearch re line
       | .nre => !env.reSearch re line) := by
  simp only [sat, Stage.apply, isSome_ite]
  cases op <;> rfl

theorem sat_labelFilter (env : Env) (p : Pred) (line : Bytes) (ls : Labels) :
    sat env (.labelFilter p) line ls = (p.eval env ls).1 := by
  simp only [sat, Stage.apply, isSome_ite]

/-- a pure filter keeps a record iff `sat`, never changes line/labels/state -/
theorem pure_apply (env : Env) (f : Stage) (hf : pureFilter f = true) (ts : Int) (seen : Seen) (a : Acc) :
    f.apply env ts seen a = (if sat env f a.line a.labels then some a else none, seen) := by
  cases f <;> simp only [pureFilter, Bool.false_eq_true] at hf
  · rw [sat_lineFilter]; simp only [Stage.apply]; rfl
  · rename_i p
    rw [sat_labelFilter]
    simp only [Stage.apply, purePred_eval_labels env p hf]

/-! ### the `distinct` states of the first `n` stage positions agree -/

def agree : Nat → List Seen → List Seen → Prop
  | 0, _, _ => True
  | n + 1, s, s' => s.headD [] = s'.headD [] ∧ agree n s.tail s'.tail

theorem agree_refl (n : Nat) (s : List Seen) : agree n s s := by
  induction n generalizing s with
  | zero => trivial
  | succ n ih => exact ⟨rfl, ih _⟩

/-- one record through `stages ++ [f]` versus through `stages` -/
theorem runStages_append (env : Env) (ts : Int) (stages : List Stage) (f : Stage) (hf : pureFilter f = true)
    (s s' : List Seen) (a : Acc) (h : agree stages.length s s') :
    (runStages env ts (stages ++ [f]) s a).1 =
        (runStages env ts stages s' a).1.bind (fun b => if sat env f b.line b.labels then some b else none)
    ∧ agree stages.length (runStages env ts (stages ++ [f]) s a).2 (runStages env ts stages s' a).2 := by
  induction stages generalizing s s' a with
  | nil =>
    refine ⟨?_, trivial⟩
    simp only [List.nil_append, runStages, pure_apply env f hf]
    by_cases hs : sat env f a.line a.labels = true <;> simp [hs]
  | cons st ss ih =>
    obtain ⟨h0, ht⟩ := h
    simp only [List.cons_append, runStages, h0]
    cases hr : st.apply env ts (s'.headD []) a with
    | mk o seen' =>
      cases o with
      | none => exact ⟨rfl, rfl, ht⟩
      | some a' =>
        have := ih s.tail s'.tail a' ht
        exact ⟨this.1, rfl, this.2⟩

/-- without a limit the count is irrelevant, and only the states of the stage positions matter -/
theorem iterate_append (env : Env) (sel : List StrMatcher) (stages : List Stage) (f : Stage) (hf : pureFilter f = true)
    (limit : Int) (hl : limit ≤ 0) (recs : List Rec) (s s' : List Seen) (c c' : Nat)
    (h : agree stages.length s s') :
    iterate env sel (stages ++ [f]) limit recs s c =
      (iterate env sel stages limit recs s' c').filter (fun e => sat env f e.line e.labels) := by
  have hlim : ∀ n : Nat, ¬ (limit > 0 ∧ (n : Int) ≥ limit) := fun n h => by omega
  induction recs generalizing s s' c c' with
  | nil => simp [iterate]
  | cons r rs ih =>
    have hrs := runStages_append env r.ts stages f hf s s' ⟨r.body, recLabels r⟩ h
    cases hpb : sel.all (fun m => m.sat env (recLabels r)) with
    | false =>
      simp only [iterate, hlim, hpb, Bool.not_false, ↓reduceIte]
      exact ih s s' c c' h
    | true =>
      cases h1 : runStages env r.ts (stages ++ [f]) s ⟨r.body, recLabels r⟩ with
      | mk o1 t1 =>
        cases h2 : runStages env r.ts stages s' ⟨r.body, recLabels r⟩ with
        | mk o2 t2 =>
          rw [h1, h2] at hrs
          obtain ⟨ho, ha⟩ := hrs
          simp only at ho ha
          simp only [iterate, hlim, hpb, Bool.not_true, Bool.false_eq_true, ↓reduceIte, h1, h2]
          cases o2 with
          | none =>
            simp only [Option.bind_none] at ho; subst ho
            exact ih t1 t2 c c' ha
          | some b =>
            simp only [Option.bind_some] at ho
            cases hs : sat env f b.line b.labels with
            | true =>
              simp only [hs, ↓reduceIte] at ho; subst ho
              simp only [List.filter_cons, hs, ↓reduceIte]
              rw [ih t1 t2 (c + 1) (c' + 1) ha]
            | false =>
              simp only [hs, Bool.false_eq_true, ↓reduceIte] at ho; subst ho
              simp only [List.filter_cons, hs, Bool.false_eq_true, ↓reduceIte]
              exact ih t1 t2 c (c' + 1) ha

/-- without a limit the starting count is irrelevant -/
theorem iterate_count_irrelevant (env : Env) (sel : List StrMatcher) (stages : List Stage)
    (limit : Int) (hl : limit ≤ 0) (recs : List Rec) (s : List Seen) (c c' : Nat) :
    iterate env sel stages limit recs s c = iterate env sel stages limit recs s c' := by
  have hlim : ∀ n : Nat, ¬ (limit > 0 ∧ (n : Int) ≥ limit) := fun n h => by omega
  induction recs generalizing s c c' with
  | nil => simp [iterate]
  | cons r rs ih =>
    simp only [iterate, hlim, if_false]
    split
    · exact ih _ _ _
    · split
      · exact ih _ _ _
      · rw [ih _ (c + 1) (c' + 1)]

/-! ### main theorems -/

/-- key lemma: appending a pure filter filters the result -/
theorem append_filter (env : Env) (sel : List StrMatcher) (stages : List Stage) (f : Stage) (hf : pureFilter f = true)
    (limit : Int) (hl : limit ≤ 0) (recs : List Rec) :
    run env sel (stages ++ [f]) limit recs = (run env sel stages limit recs).filter (fun e => sat env f e.line e.labels) :=
  iterate_append env sel stages f hf limit hl recs [] [] 0 0 (agree_refl _ _)

theorem filter_sublist (env : Env) (sel : List StrMatcher) (stages : List Stage) (f : Stage) (hf : pureFilter f = true)
    (limit : Int) (hl : limit ≤ 0) (recs : List Rec) :
    (run env sel (stages ++ [f]) limit recs).Sublist (run env sel stages limit recs) := by
  rw [append_filter env sel stages f hf limit hl]; exact List.filter_sublist

theorem simple_pure (f : Stage) (hf : simpleFilter f = true) : pureFilter f = true := by
  cases f <;> simp only [simpleFilter, Bool.false_eq_true] at hf
  · rfl
  · rename_i p; cases p <;> simp only [Bool.false_eq_true] at hf; rfl

theorem neg_simple (f : Stage) (hf : simpleFilter f = true) : simpleFilter (negFilter f) = true := by
  cases f <;> simp only [simpleFilter, Bool.false_eq_true] at hf
  · rfl
  · rename_i p; cases p <;> simp only [Bool.false_eq_true] at hf; rfl

/-- a filter and its negation split the result into two disjoint parts that together are the result -/
theorem neg_sat (env : Env) (f : Stage) (hf : simpleFilter f = true) (line : Bytes) (ls : Labels) :
    sat env (negFilter f) line ls = !sat env f line ls := by
  cases f <;> simp only [simpleFilter, Bool.false_eq_true] at hf
  · rename_i op v re
    simp only [negFilter, sat_lineFilter]
    cases op <;> simp [StrOp.neg]
  · rename_i p
    cases p <;> simp only [Bool.false_eq_true] at hf
    rename_i m
    simp only [negFilter, sat_labelFilter, Pred.eval, StrMatcher.sat, StrMatcher.matchValue]
    cases h : m.op <;> simp [StrOp.neg, bne]

theorem partition (env : Env) (sel : List StrMatcher) (stages : List Stage) (f : Stage) (hf : simpleFilter f = true)
    (limit : Int) (hl : limit ≤ 0) (recs : List Rec) :
    run env sel (stages ++ [negFilter f]) limit recs = (run env sel stages limit recs).filter (fun e => !sat env f e.line e.labels) := by
  rw [append_filter env sel stages _ (simple_pure _ (neg_simple f hf)) limit hl]
  congr 1; funext e; exact neg_sat env f hf _ _

theorem partition_perm (env : Env) (sel : List StrMatcher) (stages : List Stage) (f : Stage) (hf : simpleFilter f = true)
    (limit : Int) (hl : limit ≤ 0) (recs : List Rec) :
    ((run env sel (stages ++ [f]) limit recs) ++ (run env sel (stages ++ [negFilter f]) limit recs)).Perm
      (run env sel stages limit recs) := by
  rw [partition env sel stages f hf limit hl, append_filter env sel stages f (simple_pure f hf) limit hl]
  exact List.filter_append_perm _ _

/-- the two parts are disjoint by predicate: no entry of `q | ¬f` satisfies `f` (and vice versa) -/
theorem partition_disjoint (env : Env) (sel : List StrMatcher) (stages : List Stage) (f : Stage) (hf : simpleFilter f = true)
    (limit : Int) (hl : limit ≤ 0) (recs : List Rec) :
    (∀ e ∈ run env sel (stages ++ [f]) limit recs, sat env f e.line e.labels = true) ∧
    (∀ e ∈ run env sel (stages ++ [negFilter f]) limit recs, sat env f e.line e.labels = false) := by
  rw [partition env sel stages f hf limit hl, append_filter env sel stages f (simple_pure f hf) limit hl]
  constructor
  · intro e he; exact (List.mem_filter.1 he).2
  · intro e he; simpa using (List.mem_filter.1 he).2

/-- two pure filters appended = filtering by the conjunction -/
theorem append_two (env : Env) (sel : List StrMatcher) (stages : List Stage) (f g : Stage)
    (hf : pureFilter f = true) (hg : pureFilter g = true) (limit : Int) (hl : limit ≤ 0) (recs : List Rec) :
    run env sel (stages ++ [f, g]) limit recs =
      (run env sel stages limit recs).filter (fun e => sat env f e.line e.labels && sat env g e.line e.labels) := by
  have : stages ++ [f, g] = (stages ++ [f]) ++ [g] := by simp
  rw [this, append_filter env sel _ g hg limit hl, append_filter env sel _ f hf limit hl, List.filter_filter]
  congr 1; funext e; exact Bool.and_comm _ _

theorem commute (env : Env) (sel : List StrMatcher) (stages : List Stage) (f g : Stage)
    (hf : pureFilter f = true) (hg : pureFilter g = true) (limit : Int) (hl : limit ≤ 0) (recs : List Rec) :
    run env sel (stages ++ [f, g]) limit recs = run env sel (stages ++ [g, f]) limit recs := by
  rw [append_two env sel stages f g hf hg limit hl, append_two env sel stages g f hg hf limit hl]
  congr 1; funext e; exact Bool.and_comm _ _

theorem idempotent (env : Env) (sel : List StrMatcher) (stages : List Stage) (f : Stage)
    (hf : pureFilter f = true) (limit : Int) (hl : limit ≤ 0) (recs : List Rec) :
    run env sel (stages ++ [f, f]) limit recs = run env sel (stages ++ [f]) limit recs := by
  rw [append_two env sel stages f f hf hf limit hl, append_filter env sel stages f hf limit hl]
  congr 1; funext e; exact Bool.and_self _

theorem sat_and (env : Env) (p q : Pred) (hp : purePred p = true) (line : Bytes) (ls : Labels) :
    sat env (.labelFilter (.and p q)) line ls = (sat env (.labelFilter p) line ls && sat env (.labelFilter q) line ls) := by
  simp only [sat_labelFilter, Pred.eval]
  have h := purePred_eval_labels env p hp ls
  cases hr : p.eval env ls with
  | mk r ls' =>
    rw [hr] at h; simp only at h; subst h
    cases r <;> simp

theorem sat_or (env : Env) (p q : Pred) (hp : purePred p = true) (line : Bytes) (ls : Labels) :
    sat env (.labelFilter (.or p q)) line ls = (sat env (.labelFilter p) line ls || sat env (.labelFilter q) line ls) := by
  simp only [sat_labelFilter, Pred.eval]
  have h := purePred_eval_labels env p hp ls
  cases hr : p.eval env ls with
  | mk r ls' =>
    rw [hr] at h; simp only at h; subst h
    cases r <;> simp

/-- `a and b` selects the intersection, `a or b` the union -/
theorem and_inter (env : Env) (sel : List StrMatcher) (stages : List Stage) (p q : Pred)
    (hp : purePred p = true) (hq : purePred q = true) (limit : Int) (hl : limit ≤ 0) (recs : List Rec) :
    run env sel (stages ++ [.labelFilter (.and p q)]) limit recs
      = (run env sel stages limit recs).filter
          (fun e => sat env (.labelFilter p) e.line e.labels && sat env (.labelFilter q) e.line e.labels) := by
  rw [append_filter env sel stages _ (by simp [pureFilter, purePred, hp, hq]) limit hl]
  congr 1; funext e; exact sat_and env p q hp _ _

theorem or_union (env : Env) (sel : List StrMatcher) (stages : List Stage) (p q : Pred)
    (hp : purePred p = true) (hq : purePred q = true) (limit : Int) (hl : limit ≤ 0) (recs : List Rec) :
    run env sel (stages ++ [.labelFilter (.or p q)]) limit recs
      = (run env sel stages limit recs).filter
          (fun e => sat env (.labelFilter p) e.line e.labels || sat env (.labelFilter q) e.line e.labels) := by
  rw [append_filter env sel stages _ (by simp [pureFilter, purePred, hp, hq]) limit hl]
  congr 1; funext e; exact sat_or env p q hp _ _

theorem contains_nil (s : Bytes) : Bytes.contains s [] = true := by
  cases s <;> simp [Bytes.contains]

/-- `|= ""` changes nothing -/
theorem contains_empty_id (env : Env) (sel : List StrMatcher) (stages : List Stage) (limit : Int) (hl : limit ≤ 0)
    (recs : List Rec) (re : Regex.Re) :
    run env sel (stages ++ [.lineFilter .eq [] re]) limit recs = run env sel stages limit recs := by
  rw [append_filter env sel stages _ rfl limit hl]
  simp [sat_lineFilter, contains_nil]

/-! ### why comparator filters are excluded -/

/-- an environment in which nothing parses and no regex matches -/
def trivEnv : Env where
  reSearch := fun _ _ => false
  reFull := fun _ _ => false
  reSubmatch := fun _ _ _ => none
  reFind := fun _ _ => none
  parseFloat := fun _ => none
  parseDuration := fun _ => none
  parseBytes := fun _ => none
  parseIP := fun _ => none
  jsonObject := fun _ _ => ([], false)
  jsonExpr := fun _ _ => ([], false)
  logfmt := fun _ => ([], false)
  template := fun _ _ _ _ => none
  ansi := .eps

/-- the comparator `x > 5` on the unparsable value `x="y"` keeps the record and writes `__error__`;
`__error__=""` in front of it passes, behind it drops the record -/
theorem commute_fails_for_comparators_detail :
    run trivEnv [] ([] ++ [.labelFilter (.num [120] .gt 5), .labelFilter (.str ⟨errorLabel, .eq, [], .eps⟩)]) 0
        [⟨0, [], [([120], [121])]⟩] = [] ∧
    (run trivEnv [] ([] ++ [.labelFilter (.str ⟨errorLabel, .eq, [], .eps⟩), .labelFilter (.num [120] .gt 5)]) 0
        [⟨0, [], [([120], [121])]⟩]).length = 1 := by
  decide +kernel

/-- `commute` fails for `f = | x > 5` (a comparator, not pure) and `g = | __error__=""` -/
theorem commute_fails_for_comparators :
    run trivEnv [] ([] ++ [.labelFilter (.num [120] .gt 5), .labelFilter (.str ⟨errorLabel, .eq, [], .eps⟩)]) 0
        [⟨0, [], [([120], [121])]⟩] ≠
    run trivEnv [] ([] ++ [.labelFilter (.str ⟨errorLabel, .eq, [], .eps⟩), .labelFilter (.num [120] .gt 5)]) 0
        [⟨0, [], [([120], [121])]⟩] := by
  intro h
  have h2 := commute_fails_for_comparators_detail.2
  rw [← h, commute_fails_for_comparators_detail.1] at h2
  exact absurd h2 (by decide)

/-- in the general form: the conclusion of `commute` is not valid for all stages -/
theorem commute_needs_pure :
    ¬ ∀ (env : Env) (sel : List StrMatcher) (stages : List Stage) (f g : Stage) (limit : Int) (_ : limit ≤ 0)
        (recs : List Rec), run env sel (stages ++ [f, g]) limit recs = run env sel (stages ++ [g, f]) limit recs :=
  fun h => commute_fails_for_comparators (h _ _ _ _ _ 0 (Int.le_refl 0) _)

/-! ### non-vacuity: concrete instances of the hypotheses -/

/-- `pure_apply`, `append_filter`, `filter_sublist`, `idempotent`: a pure label filter `(a="x" or b=~r) and c!="y"` -/
example : pureFilter (.labelFilter (.and (.paren (.or (.str ⟨[97], .eq, [120], .eps⟩) (.str ⟨[98], .re, [], .chr 1⟩)))
    (.str ⟨[99], .ne, [121], .eps⟩))) = true ∧ ((0 : Int) ≤ 0) := by decide
/-- `commute`: a line filter and a label filter -/
example : pureFilter (.lineFilter .nre [] (.chr 97)) = true ∧ pureFilter (.labelFilter (.str ⟨[97], .eq, [120], .eps⟩)) = true
    ∧ ((-1 : Int) ≤ 0) := by decide
/-- `neg_sat`, `partition`, `partition_perm` -/
example : simpleFilter (.lineFilter .eq [97] .eps) = true ∧ simpleFilter (.labelFilter (.str ⟨[97], .re, [], .chr 1⟩)) = true
    ∧ ((0 : Int) ≤ 0) := by decide
/-- `and_inter`, `or_union` -/
example : purePred (.str ⟨[97], .eq, [120], .eps⟩) = true ∧ purePred (.paren (.str ⟨[98], .nre, [], .chr 1⟩)) = true := by decide
/-- `contains_empty_id` -/
example : ((0 : Int) ≤ 0) := by decide
/-- a non-trivial concrete instance of `append_filter` behind a stateful stage: `distinct x` keeps the
records 1 and 3 of `x=a, x=a, x=b`, the appended `x="b"` keeps only the last -/
example :
    (run trivEnv [] [.distinct [[120]]] 0
      [⟨1, [], [([120], [97])]⟩, ⟨2, [], [([120], [97])]⟩, ⟨3, [], [([120], [98])]⟩]).map (·.ts) = [1, 3] ∧
    (run trivEnv [] ([.distinct [[120]]] ++ [.labelFilter (.str ⟨[120], .eq, [98], .eps⟩)]) 0
      [⟨1, [], [([120], [97])]⟩, ⟨2, [], [([120], [97])]⟩, ⟨3, [], [([120], [98])]⟩]).map (·.ts) = [3] := by
  decide +kernel

end LogQL.C19
