import Verif.Env.JsonLayout
import Verif.Lemmas.JsonTree
import Verif.Lemmas.JsonObjTree
/-! The byte-level path extractor and the object reader on JSON text with arbitrary layout: for a
well-formed tree with white space wherever the grammar allows it, the extractor computes the
denotation of the requested paths, and the object reader returns the members in order. -/
namespace JsonLayoutL
open Json JsonExpr JsonTree JsonLayout Bytes
open C06Writers (skipWs_cons)
open JsonTreeL (take_pre numEnd_cases readStr_written writeStr_append natToDec_cons walk_str walk_int walk_true
  walk_false walk_null walk_arr walk_obj readValue_str)

/-! ## induction principle for the nested tree type -/

theorem JW_induct {P : JW → Prop} {Q : List (Ws × JW × Ws) → Prop}
    {R : List (Ws × List Nat × Ws × Ws × JW × Ws) → Prop}
    (hstr : ∀ s, P (.str s)) (hint : ∀ i, P (.int i)) (hbool : ∀ b, P (.bool b)) (hnull : P .null)
    (harr : ∀ e xs, Q xs → P (.arr e xs)) (hobj : ∀ e fs, R fs → P (.obj e fs))
    (hE0 : Q []) (hE1 : ∀ b x a rest, P x → Q rest → Q ((b, x, a) :: rest))
    (hF0 : R []) (hF1 : ∀ bk k ak bv v av rest, P v → R rest → R ((bk, k, ak, bv, v, av) :: rest)) :
    (∀ t, P t) ∧ (∀ xs, Q xs) ∧ (∀ fs, R fs) := by
  have key : ∀ t, P t := fun t =>
    JW.rec (motive_1 := P) (motive_2 := Q) (motive_3 := R) (motive_4 := fun p => P p.2.1)
      (motive_5 := fun p => P p.2.2.2.2.1) (motive_6 := fun p => P p.1) (motive_7 := fun p => P p.2.2.2.1)
      (motive_8 := fun p => P p.2.2.1)
      hstr hint hbool hnull harr hobj hE0
      (fun p rest hp hr => hE1 p.1 p.2.1 p.2.2 rest hp hr)
      hF0
      (fun p rest hp hr => hF1 p.1 p.2.1 p.2.2.1 p.2.2.2.1 p.2.2.2.2.1 p.2.2.2.2.2 rest hp hr)
      (fun _ _ h => h) (fun _ _ h => h) (fun _ _ h => h) (fun _ _ h => h) (fun _ _ h => h) t
  refine ⟨key, ?_, ?_⟩
  · intro xs
    induction xs with
    | nil => exact hE0
    | cons p rest ih => exact hE1 p.1 p.2.1 p.2.2 rest (key _) ih
  · intro fs
    induction fs with
    | nil => exact hF0
    | cons p rest ih => exact hF1 p.1 p.2.1 p.2.2.1 p.2.2.2.1 p.2.2.2.2.1 p.2.2.2.2.2 rest (key _) ih

/-! ## white space -/

theorem wsOK_cons (c : Nat) (w : Ws) : wsOK (c :: w) = (isWs c && wsOK w) := by
  simp [wsOK, isWs]

theorem skipWs_ws (w : Ws) (s : List Nat) (h : wsOK w = true) : skipWs (w ++ s) = skipWs s := by
  induction w with
  | nil => rfl
  | cons c w ih =>
    rw [wsOK_cons, Bool.and_eq_true] at h
    rw [List.cons_append, skipWs, List.dropWhile_cons, h.1]
    exact ih h.2

theorem skipWs_ws_cons (w : Ws) (b : Nat) (s : List Nat) (h : wsOK w = true) (hb : isWs b = false) :
    skipWs (w ++ b :: s) = b :: s := by
  rw [skipWs_ws w _ h, skipWs_cons b s hb]

theorem numEnd_ws (w : Ws) (s : List Nat) (h : wsOK w = true) (hs : numEnd s = true) : numEnd (w ++ s) = true := by
  cases w with
  | nil => exact hs
  | cons c w =>
    rw [wsOK_cons, Bool.and_eq_true] at h
    simp [numEnd, h.1]

theorem numEnd_wsOK (w : Ws) (h : wsOK w = true) : numEnd w = true := by
  have := numEnd_ws w [] h rfl
  simpa using this

/-! ## what follows an element / a member -/

def etailW : List (Ws × JW × Ws) → List Nat
  | [] => []
  | y :: ys => 44 :: writeElemsW (y :: ys)

def ftailW : List (Ws × List Nat × Ws × Ws × JW × Ws) → List Nat
  | [] => []
  | g :: gs => 44 :: writeFieldsW (g :: gs)

theorem writeElemsW_cons (b : Ws) (x : JW) (a : Ws) (rest : List (Ws × JW × Ws)) :
    writeElemsW ((b, x, a) :: rest) = b ++ (writeW x ++ (a ++ etailW rest)) := by
  cases rest <;> simp [writeElemsW, etailW]

theorem writeFieldsW_cons (bk k ak bv : List Nat) (v : JW) (av : Ws)
    (rest : List (Ws × List Nat × Ws × Ws × JW × Ws)) :
    writeFieldsW ((bk, k, ak, bv, v, av) :: rest)
      = bk ++ (writeStr k ++ (ak ++ 58 :: (bv ++ (writeW v ++ (av ++ ftailW rest))))) := by
  cases rest <;> simp [writeFieldsW, ftailW]

theorem numEnd_etailW (rest : List (Ws × JW × Ws)) (tl : List Nat) : numEnd (etailW rest ++ 93 :: tl) = true := by
  cases rest <;> simp [etailW, numEnd]

theorem numEnd_ftailW (rest : List (Ws × List Nat × Ws × Ws × JW × Ws)) (tl : List Nat) :
    numEnd (ftailW rest ++ 125 :: tl) = true := by
  cases rest <;> simp [ftailW, numEnd]

/-! ## fuel measure -/

mutual
def sizeW : JW → Nat
  | .arr _ xs => 1 + sizeElemsW xs
  | .obj _ fs => 1 + sizeFieldsW fs
  | _ => 1
def sizeElemsW : List (Ws × JW × Ws) → Nat
  | [] => 0
  | (_, x, _) :: rest => 1 + sizeW x + sizeElemsW rest
def sizeFieldsW : List (Ws × List Nat × Ws × Ws × JW × Ws) → Nat
  | [] => 0
  | (_, _, _, _, v, _) :: rest => 1 + sizeW v + sizeFieldsW rest
end

theorem sizeW_le_length :
    (∀ t, sizeW t ≤ (writeW t).length) ∧ (∀ xs, sizeElemsW xs ≤ (writeElemsW xs).length + 1) ∧
    (∀ fs, sizeFieldsW fs ≤ (writeFieldsW fs).length + 1) := by
  apply JW_induct
  · intro s; simp [sizeW, writeW, writeStr]
  · intro i; simp only [sizeW, writeW]
    have := JsonTreeL.intToDec_ne_nil i
    cases h : intToDec i with
    | nil => exact absurd h this
    | cons a l => simp
  · intro b; cases b <;> simp [sizeW, writeW]
  · simp [sizeW, writeW]
  · intro e xs h
    cases xs with
    | nil => simp [sizeW, writeW, sizeElemsW]
    | cons x rest => simp [sizeW, writeW] at h ⊢; omega
  · intro e fs h
    cases fs with
    | nil => simp [sizeW, writeW, sizeFieldsW]
    | cons x rest => simp [sizeW, writeW] at h ⊢; omega
  · simp [sizeElemsW]
  · intro b x a rest hx hr
    rw [writeElemsW_cons]
    cases rest with
    | nil => simp [sizeElemsW, etailW]; omega
    | cons y ys => simp [sizeElemsW, etailW] at hr ⊢; omega
  · simp [sizeFieldsW]
  · intro bk k ak bv v av rest hv hr
    rw [writeFieldsW_cons]
    cases rest with
    | nil => simp [sizeFieldsW, ftailW, writeStr]; omega
    | cons y ys => simp [sizeFieldsW, ftailW, writeStr] at hr ⊢; omega

/-! ## first byte of a written value -/

theorem writeW_first (t : JW) : ∃ b r, writeW t = b :: r ∧ isWs b = false ∧ b ≠ 93 ∧ b ≠ 125 := by
  cases t with
  | str s => exact ⟨34, _, by simp [writeW, writeStr]; rfl, by decide, by decide, by decide⟩
  | int i =>
    simp only [writeW, intToDec]
    split
    · exact ⟨45, _, rfl, by decide, by decide, by decide⟩
    · obtain ⟨d, l, h, hd⟩ := natToDec_cons i.toNat
      refine ⟨d, l, h, ?_⟩
      simp [isDigit] at hd
      simp [isWs]; omega
  | bool b => cases b <;> simp [writeW, isWs]
  | null => simp [writeW, isWs]
  | arr e xs => exact ⟨91, _, by simp [writeW]; rfl, by decide, by decide, by decide⟩
  | obj e fs => exact ⟨123, _, by simp [writeW]; rfl, by decide, by decide, by decide⟩

theorem writeElemsW_first (b : Ws) (x : JW) (a : Ws) (rest : List (Ws × JW × Ws)) (tl : List Nat)
    (hb : wsOK b = true) :
    ∃ c r, skipWs (writeElemsW ((b, x, a) :: rest) ++ 93 :: tl) = c :: r ∧ c ≠ 93 := by
  obtain ⟨c, r, hcr, hws, h93, _⟩ := writeW_first x
  refine ⟨c, r ++ (a ++ etailW rest) ++ 93 :: tl, ?_, h93⟩
  rw [writeElemsW_cons, hcr, List.append_assoc, skipWs_ws b _ hb]
  simp only [List.cons_append, List.append_assoc]
  exact skipWs_cons c _ hws

theorem writeFieldsW_first (bk k ak bv : List Nat) (v : JW) (av : Ws)
    (rest : List (Ws × List Nat × Ws × Ws × JW × Ws)) (tl : List Nat) (hb : wsOK bk = true) :
    ∃ r, skipWs (writeFieldsW ((bk, k, ak, bv, v, av) :: rest) ++ 125 :: tl) = 34 :: r := by
  rw [writeFieldsW_cons, List.append_assoc, skipWs_ws bk _ hb, List.append_assoc, writeStr_append,
    skipWs_cons 34 _ (by decide)]
  exact ⟨_, rfl⟩

/-! ## leading white space is skipped by every reader -/

theorem readValue_ws (c : Bool) (f : Nat) (w : Ws) (s : List Nat) (h : wsOK w = true) :
    readValue c f (w ++ s) = readValue c f s := by
  cases f with
  | zero => simp [readValue]
  | succ g => rw [readValue, readValue, skipWs_ws w s h]

theorem walk_ws (paths : List (List Nat × Path)) (f : Nat) (cur : Path) (w : Ws) (s : List Nat) (h : wsOK w = true) :
    walk paths f cur (w ++ s) = walk paths f cur s := by
  cases f with
  | zero => simp [walk]
  | succ g => rw [walk, walk, skipWs_ws w s h]

theorem readElems_ws (c : Bool) (f : Nat) (w : Ws) (s : List Nat) (h : wsOK w = true) :
    readElems c f (w ++ s) = readElems c f s := by
  cases f with
  | zero => simp [readElems]
  | succ g => rw [readElems, readElems, readValue_ws c g w s h]

theorem walkArr_ws (paths : List (List Nat × Path)) (f : Nat) (cur : Path) (n : Nat) (w : Ws) (s : List Nat)
    (h : wsOK w = true) : walkArr paths f cur n (w ++ s) = walkArr paths f cur n s := by
  cases f with
  | zero => simp [walkArr]
  | succ g => rw [walkArr, walkArr, walk_ws paths g _ w s h]

theorem readMembers_ws (c : Bool) (f : Nat) (w : Ws) (s : List Nat) (h : wsOK w = true) :
    readMembers c f (w ++ s) = readMembers c f s := by
  cases f with
  | zero => simp [readMembers]
  | succ g => rw [readMembers, readMembers, skipWs_ws w s h]

theorem walkObj_ws (paths : List (List Nat × Path)) (f : Nat) (cur : Path) (w : Ws) (s : List Nat)
    (h : wsOK w = true) : walkObj paths f cur (w ++ s) = walkObj paths f cur s := by
  cases f with
  | zero => simp [walkObj]
  | succ g => rw [walkObj, walkObj, skipWs_ws w s h]

theorem readFields_ws (c : Bool) (f : Nat) (w : Ws) (s : List Nat) (acc : List (List Nat × JVal))
    (h : wsOK w = true) : readFields c f (w ++ s) acc = readFields c f s acc := by
  cases f with
  | zero => simp [readFields]
  | succ g => rw [readFields, readFields, skipWs_ws w s h]

/-! ## the validating reader -/

/-- the value the reader reports for a member: scalars as such, containers as their text as written -/
def toJValW : JW → JVal
  | .str s => .str s
  | .int i => .int i
  | .bool b => .bool b
  | .null => .null
  | .arr e xs => .nested (writeW (.arr e xs))
  | .obj e fs => .nested (writeW (.obj e fs))

mutual
/-- every integer of the tree, at any depth, is in the int64 range -/
def intsOKW : JW → Bool
  | .int i => decide (-9223372036854775808 ≤ i ∧ i ≤ 9223372036854775807)
  | .arr _ xs => intsOKElemsW xs
  | .obj _ fs => intsOKFieldsW fs
  | _ => true
def intsOKElemsW : List (Ws × JW × Ws) → Bool
  | [] => true
  | (_, x, _) :: rest => intsOKW x && intsOKElemsW rest
def intsOKFieldsW : List (Ws × List Nat × Ws × Ws × JW × Ws) → Bool
  | [] => true
  | (_, _, _, _, v, _) :: rest => intsOKW v && intsOKFieldsW rest
end

theorem readValue_arrW (c : Bool) (f : Nat) (X tl : List Nat)
    (h : skipWs (X ++ tl) = 93 :: tl ∨
         ∃ b r' v, skipWs (X ++ tl) = b :: r' ∧ b ≠ 93 ∧ readElems c f (X ++ tl) = some (v, tl)) :
    readValue c (f + 1) (91 :: (X ++ tl)) = some (.nested (91 :: X), tl) := by
  have ht : List.take ((91 :: (X ++ tl)).length - tl.length) (91 :: (X ++ tl)) = 91 :: X := by
    have := take_pre (91 :: X) tl
    simpa using this
  rw [readValue, skipWs_cons 91 _ (by decide)]
  rcases h with h | ⟨b, r', v, hs, hb, hr⟩
  · simp only [h, ht]
  · simp only [hs, hr]
    split
    · rename_i heq
      split at heq
      · rename_i h2; simp at h2; exact absurd h2.1 hb
      · simp at heq; subst heq; simp only [ht]
    · rename_i heq
      split at heq
      · rename_i h2; simp at h2; exact absurd h2.1 hb
      · simp at heq

theorem readValue_objW (c : Bool) (f : Nat) (X tl : List Nat)
    (h : skipWs (X ++ tl) = 125 :: tl ∨
         ∃ b r' v, skipWs (X ++ tl) = b :: r' ∧ b ≠ 125 ∧ readMembers c f (X ++ tl) = some (v, tl)) :
    readValue c (f + 1) (123 :: (X ++ tl)) = some (.nested (123 :: X), tl) := by
  have ht : List.take ((123 :: (X ++ tl)).length - tl.length) (123 :: (X ++ tl)) = 123 :: X := by
    have := take_pre (123 :: X) tl
    simpa using this
  rw [readValue, skipWs_cons 123 _ (by decide)]
  rcases h with h | ⟨b, r', v, hs, hb, hr⟩
  · simp only [h, ht]
  · simp only [hs, hr]
    split
    · rename_i heq
      split at heq
      · rename_i h2; simp at h2; exact absurd h2.1 hb
      · simp at heq; subst heq; simp only [ht]
    · rename_i heq
      split at heq
      · rename_i h2; simp at h2; exact absurd h2.1 hb
      · simp at heq

theorem writeW_arr_nil (e : Ws) : writeW (.arr e []) = 91 :: (e ++ [93]) := by simp [writeW]
theorem writeW_arr_cons (e : Ws) (p : Ws × JW × Ws) (rest : List (Ws × JW × Ws)) :
    writeW (.arr e (p :: rest)) = 91 :: (writeElemsW (p :: rest) ++ [93]) := by simp [writeW]
theorem writeW_obj_nil (e : Ws) : writeW (.obj e []) = 123 :: (e ++ [125]) := by simp [writeW]
theorem writeW_obj_cons (e : Ws) (p : Ws × List Nat × Ws × Ws × JW × Ws)
    (rest : List (Ws × List Nat × Ws × Ws × JW × Ws)) :
    writeW (.obj e (p :: rest)) = 123 :: (writeFieldsW (p :: rest) ++ [125]) := by simp [writeW]

theorem readValue_writeW (c : Bool) :
    (∀ t, ∀ f tl, wfW t = true → (c = true → intsOKW t = true) → sizeW t ≤ f → numEnd tl = true →
        readValue c f (writeW t ++ tl) = some (toJValW t, tl)) ∧
    (∀ xs, ∀ f tl, xs ≠ [] → wfElemsW xs = true → (c = true → intsOKElemsW xs = true) → sizeElemsW xs ≤ f →
        ∃ v, readElems c f (writeElemsW xs ++ 93 :: tl) = some (v, tl)) ∧
    (∀ fs, ∀ f tl, fs ≠ [] → wfFieldsW fs = true → (c = true → intsOKFieldsW fs = true) → sizeFieldsW fs ≤ f →
        ∃ v, readMembers c f (writeFieldsW fs ++ 125 :: tl) = some (v, tl)) := by
  apply JW_induct
  · intro s f tl hw _ hf htl
    cases f with
    | zero => simp [sizeW] at hf
    | succ g => exact readValue_str c g s tl (by simpa [wfW] using hw)
  · intro i f tl hw hi hf htl
    cases f with
    | zero => simp [sizeW] at hf
    | succ g =>
      exact JsonObjTree.readValue_int c g i tl htl (fun hc => by simpa [intsOKW] using hi hc)
  · intro b f tl hw _ hf htl
    cases f with
    | zero => simp [sizeW] at hf
    | succ g =>
      cases b
      · simp only [writeW, List.cons_append, List.nil_append]
        rw [readValue, skipWs_cons 102 _ (by decide)]; rfl
      · simp only [writeW, List.cons_append, List.nil_append]
        rw [readValue, skipWs_cons 116 _ (by decide)]; rfl
  · intro f tl hw _ hf htl
    cases f with
    | zero => simp [sizeW] at hf
    | succ g =>
      simp only [writeW, List.cons_append, List.nil_append]
      rw [readValue, skipWs_cons 110 _ (by decide)]; rfl
  · intro e xs ih f tl hw hi hf htl
    cases f with
    | zero => simp [sizeW] at hf
    | succ g =>
      simp only [wfW, Bool.and_eq_true] at hw
      cases xs with
      | nil =>
        rw [toJValW, writeW_arr_nil, List.cons_append]
        apply readValue_arrW
        left
        simp only [List.append_assoc, List.singleton_append]
        exact skipWs_ws_cons e 93 tl hw.1 (by decide)
      | cons p rest =>
        rw [toJValW, writeW_arr_cons, List.cons_append]
        apply readValue_arrW
        right
        obtain ⟨b, x, a⟩ := p
        obtain ⟨v, hv⟩ := ih g tl (by simp) hw.2 (fun hc => by simpa [intsOKW] using hi hc)
          (by simp [sizeW] at hf; omega)
        have hb : wsOK b = true := by simp only [wfElemsW, Bool.and_eq_true] at hw; exact hw.2.1.1.1
        obtain ⟨c0, r0, h0, h93⟩ := writeElemsW_first b x a rest tl hb
        simp only [List.append_assoc, List.singleton_append]
        exact ⟨c0, r0, v, h0, h93, hv⟩
  · intro e fs ih f tl hw hi hf htl
    cases f with
    | zero => simp [sizeW] at hf
    | succ g =>
      simp only [wfW, Bool.and_eq_true] at hw
      cases fs with
      | nil =>
        rw [toJValW, writeW_obj_nil, List.cons_append]
        apply readValue_objW
        left
        simp only [List.append_assoc, List.singleton_append]
        exact skipWs_ws_cons e 125 tl hw.1 (by decide)
      | cons p rest =>
        rw [toJValW, writeW_obj_cons, List.cons_append]
        apply readValue_objW
        right
        obtain ⟨bk, k, ak, bv, x, av⟩ := p
        obtain ⟨v, hv⟩ := ih g tl (by simp) hw.2 (fun hc => by simpa [intsOKW] using hi hc)
          (by simp [sizeW] at hf; omega)
        have hb : wsOK bk = true := by simp only [wfFieldsW, Bool.and_eq_true] at hw; exact hw.2.1.1.1.1.1.1
        obtain ⟨r0, h0⟩ := writeFieldsW_first bk k ak bv x av rest tl hb
        simp only [List.append_assoc, List.singleton_append]
        exact ⟨34, r0, v, h0, by decide, hv⟩
  · intro f tl h; exact absurd rfl h
  · intro b x a rest hx hr f tl _ hw hi hf
    cases f with
    | zero => simp [sizeElemsW] at hf
    | succ g =>
      simp only [wfElemsW, Bool.and_eq_true] at hw
      simp only [intsOKElemsW, Bool.and_eq_true] at hi
      simp only [sizeElemsW] at hf
      have hv := hx g (a ++ (etailW rest ++ 93 :: tl)) hw.1.1.2 (fun hc => (hi hc).1) (by omega)
        (numEnd_ws a _ hw.1.2 (numEnd_etailW rest tl))
      have e : writeElemsW ((b, x, a) :: rest) ++ 93 :: tl = b ++ (writeW x ++ (a ++ (etailW rest ++ 93 :: tl))) := by
        simp [writeElemsW_cons]
      rw [e, readElems, readValue_ws c g b _ hw.1.1.1, hv]
      simp only [skipWs_ws a _ hw.1.2]
      cases rest with
      | nil =>
        simp only [etailW, List.nil_append, skipWs_cons 93 _ (by decide)]
        exact ⟨_, rfl⟩
      | cons y ys =>
        simp only [etailW, List.cons_append, skipWs_cons 44 _ (by decide)]
        exact hr g tl (by simp) hw.2 (fun hc => (hi hc).2) (by omega)
  · intro f tl h; exact absurd rfl h
  · intro bk k ak bv x av rest hx hr f tl _ hw hi hf
    cases f with
    | zero => simp [sizeFieldsW] at hf
    | succ g =>
      simp only [wfFieldsW, Bool.and_eq_true] at hw
      obtain ⟨⟨⟨⟨⟨⟨hbk, hk⟩, hak⟩, hbv⟩, hx'⟩, hav⟩, hrest⟩ := hw
      simp only [intsOKFieldsW, Bool.and_eq_true] at hi
      simp only [sizeFieldsW] at hf
      have hv := hx g (av ++ (ftailW rest ++ 125 :: tl)) hx' (fun hc => (hi hc).1) (by omega)
        (numEnd_ws av _ hav (numEnd_ftailW rest tl))
      have e : writeFieldsW ((bk, k, ak, bv, x, av) :: rest) ++ 125 :: tl
          = bk ++ 34 :: ((k.map Json.escByte).flatten ++ 34 :: (ak ++ 58 :: (bv ++
              (writeW x ++ (av ++ (ftailW rest ++ 125 :: tl)))))) := by
        simp [writeFieldsW_cons, writeStr]
      rw [e, readMembers, skipWs_ws_cons bk 34 _ hbk (by decide)]
      simp only [readStr_written k _ hk, skipWs_ws_cons ak 58 _ hak (by decide), readValue_ws c g bv _ hbv, hv,
        skipWs_ws av _ hav]
      cases rest with
      | nil =>
        simp only [ftailW, List.nil_append, skipWs_cons 125 _ (by decide)]
        exact ⟨_, rfl⟩
      | cons y ys =>
        simp only [ftailW, List.cons_append, skipWs_cons 44 _ (by decide)]
        exact hr g tl (by simp) hrest (fun hc => (hi hc).2) (by omega)

/-- the validating reader on the text of a well-formed tree with any layout, followed by anything a
number may be followed by: the tree's value (containers: their text as written) and exactly the rest -/
theorem readValue_writeW_tl (c : Bool) (t : JW) (f : Nat) (tl : List Nat) (h : wfW t = true)
    (hi : c = true → intsOKW t = true) (hf : sizeW t ≤ f) (htl : numEnd tl = true) :
    readValue c f (writeW t ++ tl) = some (toJValW t, tl) :=
  (readValue_writeW c).1 t f tl h hi hf htl

/-! ## the extractor -/

theorem walk_writeW (paths : List (List Nat × Path)) :
    (∀ t, ∀ f cur tl, wfW t = true → sizeW t ≤ f → numEnd tl = true →
        walk paths f cur (writeW t ++ tl) = (denoteW paths cur t, some tl)) ∧
    (∀ xs, ∀ f cur n tl, xs ≠ [] → wfElemsW xs = true → sizeElemsW xs ≤ f →
        walkArr paths f cur n (writeElemsW xs ++ 93 :: tl) = (denoteElemsW paths cur n xs, some tl)) ∧
    (∀ fs, ∀ f cur tl, fs ≠ [] → wfFieldsW fs = true → sizeFieldsW fs ≤ f →
        walkObj paths f cur (writeFieldsW fs ++ 125 :: tl) = (denoteFieldsW paths cur fs, some tl)) := by
  apply JW_induct
  · intro s f cur tl hw hf htl
    cases f with
    | zero => simp [sizeW] at hf
    | succ g => simpa [writeW, denoteW] using walk_str paths g cur s tl (by simpa [wfW] using hw)
  · intro i f cur tl hw hf htl
    cases f with
    | zero => simp [sizeW] at hf
    | succ g => simpa [writeW, denoteW] using walk_int paths g cur i tl htl
  · intro b f cur tl hw hf htl
    cases f with
    | zero => simp [sizeW] at hf
    | succ g =>
      cases b
      · simpa [writeW, denoteW] using walk_false paths g cur tl
      · simpa [writeW, denoteW] using walk_true paths g cur tl
  · intro f cur tl hw hf htl
    cases f with
    | zero => simp [sizeW] at hf
    | succ g => simpa [writeW, denoteW] using walk_null paths g cur tl
  · intro e xs ih f cur tl hw hf htl
    cases f with
    | zero => simp [sizeW] at hf
    | succ g =>
      have hX := readValue_writeW_tl false (.arr e xs) ((writeW (.arr e xs) ++ tl).length + 1) tl hw
        (fun hc => by cases hc)
        (by have := sizeW_le_length.1 (.arr e xs); simp only [List.length_append]; omega) htl
      simp only [wfW, Bool.and_eq_true] at hw
      cases xs with
      | nil =>
        rw [writeW_arr_nil] at hX ⊢
        rw [walk_arr paths g cur _ tl ⟨_, hX⟩]
        simp only [List.append_assoc, List.singleton_append, skipWs_ws_cons e 93 tl hw.1 (by decide),
          denoteW, denoteElemsW, List.append_nil, writeW_arr_nil]
      | cons p rest =>
        obtain ⟨b, x, a⟩ := p
        rw [writeW_arr_cons] at hX ⊢
        rw [walk_arr paths g cur _ tl ⟨_, hX⟩]
        have hb : wsOK b = true := by simp only [wfElemsW, Bool.and_eq_true] at hw; exact hw.2.1.1.1
        obtain ⟨c0, r0, h0, h93⟩ := writeElemsW_first b x a rest tl hb
        simp only [List.append_assoc, List.singleton_append]
        rw [ih g cur 0 tl (by simp) hw.2 (by simp [sizeW] at hf; omega), h0]
        split
        · rename_i heq; simp at heq; exact absurd heq.1 h93
        · simp only [denoteW, writeW_arr_cons]
  · intro e fs ih f cur tl hw hf htl
    cases f with
    | zero => simp [sizeW] at hf
    | succ g =>
      have hX := readValue_writeW_tl false (.obj e fs) ((writeW (.obj e fs) ++ tl).length + 1) tl hw
        (fun hc => by cases hc)
        (by have := sizeW_le_length.1 (.obj e fs); simp only [List.length_append]; omega) htl
      simp only [wfW, Bool.and_eq_true] at hw
      cases fs with
      | nil =>
        rw [writeW_obj_nil] at hX ⊢
        rw [walk_obj paths g cur _ tl ⟨_, hX⟩]
        simp only [List.append_assoc, List.singleton_append, skipWs_ws_cons e 125 tl hw.1 (by decide),
          denoteW, denoteFieldsW, List.append_nil, writeW_obj_nil]
      | cons p rest =>
        obtain ⟨bk, k, ak, bv, x, av⟩ := p
        rw [writeW_obj_cons] at hX ⊢
        rw [walk_obj paths g cur _ tl ⟨_, hX⟩]
        have hb : wsOK bk = true := by simp only [wfFieldsW, Bool.and_eq_true] at hw; exact hw.2.1.1.1.1.1.1
        obtain ⟨r0, h0⟩ := writeFieldsW_first bk k ak bv x av rest tl hb
        simp only [List.append_assoc, List.singleton_append]
        rw [ih g cur tl (by simp) hw.2 (by simp [sizeW] at hf; omega), h0]
        simp only [denoteW, writeW_obj_cons]
  · intro f cur n tl h; exact absurd rfl h
  · intro b x a rest hx hr f cur n tl _ hw hf
    cases f with
    | zero => simp [sizeElemsW] at hf
    | succ g =>
      simp only [wfElemsW, Bool.and_eq_true] at hw
      simp only [sizeElemsW] at hf
      have hv := hx g (cur ++ [.idx n]) (a ++ (etailW rest ++ 93 :: tl)) hw.1.1.2 (by omega)
        (numEnd_ws a _ hw.1.2 (numEnd_etailW rest tl))
      have e : writeElemsW ((b, x, a) :: rest) ++ 93 :: tl = b ++ (writeW x ++ (a ++ (etailW rest ++ 93 :: tl))) := by
        simp [writeElemsW_cons]
      rw [e, walkArr, walk_ws paths g _ b _ hw.1.1.1, hv]
      simp only [skipWs_ws a _ hw.1.2]
      cases rest with
      | nil =>
        simp only [etailW, List.nil_append, skipWs_cons 93 _ (by decide), denoteElemsW, List.append_nil]
      | cons y ys =>
        simp only [etailW, List.cons_append, skipWs_cons 44 _ (by decide)]
        rw [hr g cur (n + 1) tl (by simp) hw.2 (by omega)]
        simp only [denoteElemsW]
  · intro f cur tl h; exact absurd rfl h
  · intro bk k ak bv x av rest hx hr f cur tl _ hw hf
    cases f with
    | zero => simp [sizeFieldsW] at hf
    | succ g =>
      simp only [wfFieldsW, Bool.and_eq_true] at hw
      obtain ⟨⟨⟨⟨⟨⟨hbk, hk⟩, hak⟩, hbv⟩, hx'⟩, hav⟩, hrest⟩ := hw
      simp only [sizeFieldsW] at hf
      have hv := hx g (cur ++ [.key k]) (av ++ (ftailW rest ++ 125 :: tl)) hx' (by omega)
        (numEnd_ws av _ hav (numEnd_ftailW rest tl))
      have e : writeFieldsW ((bk, k, ak, bv, x, av) :: rest) ++ 125 :: tl
          = bk ++ 34 :: ((k.map Json.escByte).flatten ++ 34 :: (ak ++ 58 :: (bv ++
              (writeW x ++ (av ++ (ftailW rest ++ 125 :: tl)))))) := by
        simp [writeFieldsW_cons, writeStr]
      rw [e, walkObj, skipWs_ws_cons bk 34 _ hbk (by decide)]
      simp only [readStr_written k _ hk, skipWs_ws_cons ak 58 _ hak (by decide), walk_ws paths g _ bv _ hbv, hv,
        skipWs_ws av _ hav]
      cases rest with
      | nil =>
        simp only [ftailW, List.nil_append, skipWs_cons 125 _ (by decide), denoteFieldsW, List.append_nil]
      | cons y ys =>
        simp only [ftailW, List.cons_append, skipWs_cons 44 _ (by decide)]
        rw [hr g cur tl (by simp) hrest (by omega)]
        simp only [denoteFieldsW]

/-- `walk` on the text of a well-formed tree with any layout, with white space before it, followed by
anything a number may be followed by -/
theorem walk_writeW_tl (paths : List (List Nat × Path)) (t : JW) (f : Nat) (cur : Path) (pre : Ws) (tl : List Nat)
    (h : wfW t = true) (hpre : wsOK pre = true) (hf : sizeW t ≤ f) (htl : numEnd tl = true) :
    walk paths f cur (pre ++ (writeW t ++ tl)) = (denoteW paths cur t, some tl) := by
  rw [walk_ws paths f cur pre _ hpre]
  exact (walk_writeW paths).1 t f cur tl h hf htl

/-! ## main theorems -/

/-- the extractor computes, on the text of a well-formed tree with any layout, preceded by white space
and followed by anything a number may be followed by (nothing, white space, `,`, `]`, `}`), exactly what
the requested paths denote on the tree, without error -/
theorem extract_writeW_numEnd (paths : List (List Nat × Path)) (t : JW) (h : wfW t = true)
    (pre : Ws) (post : List Nat) (hpre : wsOK pre = true) (hpost : numEnd post = true) :
    extract paths (pre ++ writeW t ++ post) = (denoteW paths [] t, false) := by
  unfold extract
  rw [List.append_assoc]
  have := walk_writeW_tl paths t ((pre ++ (writeW t ++ post)).length + 2) [] pre post h hpre
    (by have := sizeW_le_length.1 t; simp only [List.length_append]; omega) hpost
  simp only [this, Option.isNone_some]

/-- the path extractor computes the denotation whatever the layout, also with white space around the document -/
theorem extract_writeW (paths : List (List Nat × Path)) (t : JW) (h : wfW t = true)
    (pre post : Ws) (hpre : wsOK pre = true) (hpost : wsOK post = true) :
    extract paths (pre ++ writeW t ++ post) = (denoteW paths [] t, false) :=
  extract_writeW_numEnd paths t h pre post hpre (numEnd_wsOK post hpost)

/-! ## the object reader -/

theorem readFields_stepW (c : Bool) (fuel : Nat) (k : List Nat) (v : JVal) (r r1 r2 r3 : List Nat)
    (acc : List (List Nat × JVal))
    (h1 : readStrBody (r.length + 1) r [] = some (k, r1)) (h1' : skipWs r1 = 58 :: r2)
    (h2 : readValue c (r2.length + 1) r2 = some (v, r3)) :
    readFields c (fuel + 1) (34 :: r) acc =
      match skipWs r3 with
      | 44 :: r4 => readFields c fuel r4 (acc ++ [(k, v)])
      | 125 :: _ => (acc ++ [(k, v)], false)
      | _ => (acc ++ [(k, v)], true) := by
  rw [readFields, skipWs_cons 34 _ (by decide)]
  simp only [h1, h1', h2]
  rfl

theorem readFields_writeFieldsW (c : Bool) (fs : List (Ws × List Nat × Ws × Ws × JW × Ws)) :
    ∀ (fuel : Nat) (tl : List Nat) (acc : List (List Nat × JVal)), fs ≠ [] → wfFieldsW fs = true →
      (c = true → intsOKFieldsW fs = true) → fs.length ≤ fuel →
      readFields c fuel (writeFieldsW fs ++ 125 :: tl) acc
        = (acc ++ fs.map (fun f => (f.2.1, toJValW f.2.2.2.2.1)), false) := by
  induction fs with
  | nil => intro _ _ _ h; exact absurd rfl h
  | cons p rest ih =>
    intro fuel tl acc _ hw hi hf
    obtain ⟨bk, k, ak, bv, x, av⟩ := p
    cases fuel with
    | zero => simp at hf
    | succ g =>
      simp only [wfFieldsW, Bool.and_eq_true] at hw
      obtain ⟨⟨⟨⟨⟨⟨hbk, hk⟩, hak⟩, hbv⟩, hx'⟩, hav⟩, hrest⟩ := hw
      simp only [intsOKFieldsW, Bool.and_eq_true] at hi
      have e : writeFieldsW ((bk, k, ak, bv, x, av) :: rest) ++ 125 :: tl
          = bk ++ 34 :: ((k.map Json.escByte).flatten ++ 34 :: (ak ++ 58 :: (bv ++
              (writeW x ++ (av ++ (ftailW rest ++ 125 :: tl)))))) := by
        simp [writeFieldsW_cons, writeStr]
      have h1 := readStr_written k (ak ++ 58 :: (bv ++ (writeW x ++ (av ++ (ftailW rest ++ 125 :: tl))))) hk
      have h1' := skipWs_ws_cons ak 58 (bv ++ (writeW x ++ (av ++ (ftailW rest ++ 125 :: tl)))) hak (by decide)
      have h2 : readValue c ((bv ++ (writeW x ++ (av ++ (ftailW rest ++ 125 :: tl)))).length + 1)
          (bv ++ (writeW x ++ (av ++ (ftailW rest ++ 125 :: tl))))
          = some (toJValW x, av ++ (ftailW rest ++ 125 :: tl)) := by
        rw [readValue_ws c _ bv _ hbv]
        exact readValue_writeW_tl c x _ _ hx' (fun hc => (hi hc).1)
          (by have := sizeW_le_length.1 x; simp only [List.length_append]; omega)
          (numEnd_ws av _ hav (numEnd_ftailW rest tl))
      rw [e, readFields_ws c _ bk _ acc hbk, readFields_stepW c g k (toJValW x) _ _ _ _ acc h1 h1' h2]
      simp only [skipWs_ws av _ hav]
      cases rest with
      | nil =>
        simp only [ftailW, List.nil_append, skipWs_cons 125 _ (by decide), List.map_cons, List.map_nil]
      | cons y ys =>
        simp only [ftailW, List.cons_append, skipWs_cons 44 _ (by decide)]
        rw [ih g tl _ (by simp) hrest (fun hc => (hi hc).2) (by simp at hf ⊢; omega)]
        simp

theorem length_le_writeFieldsW (fs : List (Ws × List Nat × Ws × Ws × JW × Ws)) :
    fs.length ≤ (writeFieldsW fs).length := by
  induction fs with
  | nil => simp
  | cons p rest ih =>
    obtain ⟨bk, k, ak, bv, x, av⟩ := p
    rw [writeFieldsW_cons]
    cases rest with
    | nil => simp [writeStr]; omega
    | cons y ys =>
      simp only [ftailW, List.length_append, List.length_cons] at ih ⊢
      omega

/-- the object reader on an object with any layout, white space before it and anything after the closing
brace: the members in order (duplicate keys kept), scalars as their values, containers as their text as
written, without error.  With the int64 check on, every integer of the tree has to be in range. -/
theorem readObject_writeW_gen (checkInt : Bool) (fs : List (Ws × List Nat × Ws × Ws × JW × Ws)) (e : Ws)
    (h : wfW (.obj e fs) = true) (hint : checkInt = true → intsOKFieldsW fs = true)
    (pre : Ws) (post : List Nat) (hpre : wsOK pre = true) :
    readObject checkInt (pre ++ writeW (.obj e fs) ++ post)
      = (fs.map (fun f => (f.2.1, toJValW f.2.2.2.2.1)), false) := by
  unfold readObject
  simp only [wfW, Bool.and_eq_true] at h
  rw [List.append_assoc, skipWs_ws pre _ hpre]
  cases fs with
  | nil =>
    rw [writeW_obj_nil, List.cons_append, skipWs_cons 123 _ (by decide)]
    simp only [List.append_assoc, List.singleton_append, skipWs_ws_cons e 125 post h.1 (by decide), List.map_nil]
  | cons p rest =>
    obtain ⟨bk, k, ak, bv, x, av⟩ := p
    rw [writeW_obj_cons, List.cons_append, skipWs_cons 123 _ (by decide)]
    have hb : wsOK bk = true := by simp only [wfFieldsW, Bool.and_eq_true] at h; exact h.2.1.1.1.1.1.1
    obtain ⟨r, hr⟩ := writeFieldsW_first bk k ak bv x av rest post hb
    have hlen := length_le_writeFieldsW ((bk, k, ak, bv, x, av) :: rest)
    have hrd := readFields_writeFieldsW checkInt ((bk, k, ak, bv, x, av) :: rest)
      ((writeFieldsW ((bk, k, ak, bv, x, av) :: rest) ++ 125 :: post).length + 1) post []
      (by simp) h.2 hint (by simp only [List.length_append, List.length_cons] at hlen ⊢; omega)
    simp only [List.append_assoc, List.singleton_append]
    show (match skipWs (writeFieldsW ((bk, k, ak, bv, x, av) :: rest) ++ 125 :: post) with
      | 125 :: _ => ([], false)
      | _ => readFields checkInt ((writeFieldsW ((bk, k, ak, bv, x, av) :: rest) ++ 125 :: post).length + 1)
              (writeFieldsW ((bk, k, ak, bv, x, av) :: rest) ++ 125 :: post) []) = _
    rw [hrd, hr]
    simp

/-- the object reader (the `json` stage without parameters) on an object with any layout: the members in
order, scalars as their values, containers as their text as written -/
theorem readObject_writeW (fs : List (Ws × List Nat × Ws × Ws × JW × Ws)) (e : Ws)
    (h : wfW (.obj e fs) = true) (pre : Ws) (hpre : wsOK pre = true) :
    readObject false (pre ++ writeW (.obj e fs)) = (fs.map (fun f => (f.2.1, toJValW f.2.2.2.2.1)), false) := by
  have := readObject_writeW_gen false fs e h (fun hc => by cases hc) pre [] hpre
  rwa [List.append_nil] at this

/-! ## instances -/

/-- white space in every kind of position (before/after the document, inside empty containers, around
elements, around keys, around member values, CR/LF/tab/blank), a scalar hit (`a[1]`), container hits
(`a`, `a[2]`), a duplicate key -/
def exFields : List (Ws × List Nat × Ws × Ws × JW × Ws) :=
  [([32], [97], [9], [10, 13],
      .arr [] [([13], .int (-12), [32]), ([10], .str [120, 34], [9]), ([], .arr [32, 9] [], [10]),
               ([32, 32], .obj [13] [], [])], [32]),
   ([10], [98], [], [32], .null, [13, 10]),
   ([], [97], [32], [], .bool true, [9])]

def exTree : JW := .obj [] exFields

def exPaths : List (List Nat × Path) :=
  [([1], [.key [97], .idx 1]), ([2], [.key [97]]), ([3], [.key [97], .idx 2]), ([4], [.key [98]])]

example : extract exPaths ([32, 10] ++ writeW exTree ++ [13, 9]) = (denoteW exPaths [] exTree, false) :=
  extract_writeW _ _ (by decide) _ _ (by decide) (by decide)

/-- the text and the denotation of the instance above -/
example : [32, 10] ++ writeW exTree ++ [13, 9]
    = Bytes.ofString " \n{ \"a\"\t:\n\r[\r-12 ,\n\"x\\\"\"\t,[ \t]\n,  {\r}] ,\n\"b\": null\r\n,\"a\" :true\t}\r\t" := by
  decide +kernel

example : denoteW exPaths [] exTree
    = [([2], Bytes.ofString "[\r-12 ,\n\"x\\\"\"\t,[ \t]\n,  {\r}]"), ([1], [120, 34]), ([3], Bytes.ofString "[ \t]"),
       ([4], []), ([2], Bytes.ofString "true")] := by
  decide +kernel

/-- the extractor does not look at what follows the top-level value, except after a number -/
example : extract exPaths ([] ++ writeW exTree ++ [44, 120]) = (denoteW exPaths [] exTree, false) :=
  extract_writeW_numEnd exPaths exTree (by decide) [] [44, 120] (by decide) (by decide)

/-- a top-level number followed by a letter is a syntax error: `numEnd post` cannot be dropped -/
example : extract [([1], [])] (writeW (.int 7) ++ [120]) = ([], true) := by decide +kernel

example : readObject false ([32, 10] ++ writeW exTree)
    = (exFields.map (fun f => (f.2.1, toJValW f.2.2.2.2.1)), false) :=
  readObject_writeW exFields [] (by decide) [32, 10] (by decide)

/-- the members reported in the instance above -/
example : exFields.map (fun f => (f.2.1, toJValW f.2.2.2.2.1))
    = [([97], .nested (Bytes.ofString "[\r-12 ,\n\"x\\\"\"\t,[ \t]\n,  {\r}]")), ([98], .null), ([97], .bool true)] := by
  simp only [exFields, List.map_cons, List.map_nil, toJValW]
  congr 4
  decide +kernel

def exFields2 : List (Ws × List Nat × Ws × Ws × JW × Ws) :=
  [([32], [97], [], [32], .obj [32] [], [10]), ([], [98], [], [], .int 7, [])]

/-- with the int64 check on, white space before the object and arbitrary bytes after the closing brace -/
example : readObject true ([9] ++ writeW (.obj [] exFields2) ++ [120, 121])
    = (exFields2.map (fun f => (f.2.1, toJValW f.2.2.2.2.1)), false) :=
  readObject_writeW_gen true exFields2 [] (by decide) (fun _ => by decide) [9] [120, 121] (by decide)

example : exFields2.map (fun f => (f.2.1, toJValW f.2.2.2.2.1))
    = [([97], .nested [123, 32, 125]), ([98], .int 7)] := by
  simp only [exFields2, List.map_cons, List.map_nil, toJValW]
  congr 4

end JsonLayoutL
