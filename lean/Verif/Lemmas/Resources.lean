import Verif.Model.Resources

/-! Theorems about the open/close protocol model (`Verif.Model.Resources`):
`no_leak`, `closed_sub_opened` (both through a generic ownership invariant `OwnInv`),
`fault_surfaces`, `no_fault_success` (through `selectLogs_spec` / `build_spec` / `eval_spec`). -/
namespace Resources

/-! ## ownership invariants, generically -/

/-- what an invariant `P st own` ("the state `st` is fine provided the caller still owns `own`")
has to satisfy for `build`/`eval` to maintain it -/
structure OwnInv (P : St → List Rid → Prop) : Prop where
  close : ∀ st own extra, P st (own ++ extra) → P (closeAll own st) extra
  congr : ∀ st a b, (∀ r, r ∈ a ↔ r ∈ b) → P st a → P st b
  sel : ∀ (st : St) n own, P st own → P { st with nextSel := n } own
  opn : ∀ (st : St) rid own, P st own → P { st with opened := rid :: st.opened } (rid :: own)

/-- result of a builder: on error nothing new is owned, on success the iterator's readers are -/
def Post (P : St → List Rid → Prop) (own : List Rid) : Except ErrClass Iter × St → Prop
  | (.error _, st') => P st' own
  | (.ok it, st') => P st' (it.rids ++ own)

theorem openAll_inv {P} (hP : OwnInv P) (k : Nat) (fs : List Fault) (i : Nat) (st : St)
    (own : List Rid) (h : P st own) :
    P (openAll k i fs st).2.2 ((openAll k i fs st).1 ++ own) := by
  induction fs generalizing i st own with
  | nil => simpa [openAll] using h
  | cons f fs ih =>
    unfold openAll
    by_cases hf : f = .openFail
    · simp only [hf, ↓reduceIte]
      exact ih _ _ own h
    · simp only [hf, ↓reduceIte]
      have := ih (i + 1) _ ((k, i) :: own) (hP.opn st (k, i) own h)
      refine hP.congr _ _ _ ?_ this
      intro r
      simp only [List.mem_append, List.mem_cons]
      constructor
      · rintro (h1 | h1 | h1)
        · exact Or.inl (Or.inr h1)
        · exact Or.inl (Or.inl h1)
        · exact Or.inr h1
      · rintro ((h1 | h1) | h1)
        · exact Or.inr (Or.inl h1)
        · exact Or.inl h1
        · exact Or.inr (Or.inr h1)

theorem selectLogs_inv {P} (hP : OwnInv P) (s : Sel) (st : St) (own : List Rid) (h : P st own) :
    Post P own (selectLogs s st) := by
  have h' := hP.sel st (st.nextSel + 1) own h
  have hc := openAll_inv hP st.nextSel s.ctrs 0 _ own h'
  unfold selectLogs
  by_cases h1 : s.stageOk
  · by_cases h2 : s.listFails
    · simpa [h1, h2, Post] using h'
    · by_cases h3 : (openAll st.nextSel 0 s.ctrs { st with nextSel := st.nextSel + 1 }).2.1
      · simp only [h1, h2, h3, Post, Bool.not_true, Bool.false_eq_true, ↓reduceIte]
        exact hP.close _ _ _ hc
      · simp only [h1, h2, h3, Post, Bool.not_true, Bool.false_eq_true, ↓reduceIte]
        exact hc
  · simpa [h1, Post] using h'

theorem build_inv {P} (hP : OwnInv P) (q : Q) :
    ∀ (st : St) (own : List Rid), P st own → Post P own (build q st) := by
  induction q with
  | log s => intro st own h; simpa [build, Post] using h
  | range s aggOk =>
    intro st own h
    have hs := selectLogs_inv hP s st own h
    unfold build
    cases hsel : selectLogs s st with
    | mk r st1 =>
      rw [hsel] at hs
      cases r with
      | error e => simpa [Post] using hs
      | ok it =>
        simp only [Post] at hs
        by_cases ha : aggOk <;> simp only [ha, ↓reduceIte, Post]
        · exact hs
        · exact hP.close _ _ _ hs
  | vecAgg ok e ih =>
    intro st own h
    have hs := ih st own h
    unfold build
    cases hb : build e st with
    | mk r st1 =>
      rw [hb] at hs
      cases r with
      | error e => simpa [Post] using hs
      | ok it =>
        simp only [Post] at hs
        by_cases ha : ok <;> simp only [ha, ↓reduceIte, Post]
        · exact hs
        · exact hP.close _ _ _ hs
  | binop ok l r ihl ihr =>
    intro st own h
    have hl := ihl st own h
    unfold build
    cases hbl : build l st with
    | mk rl st1 =>
      rw [hbl] at hl
      cases rl with
      | error e => simpa [Post] using hl
      | ok li =>
        simp only [Post] at hl
        have hr := ihr st1 (li.rids ++ own) hl
        cases hbr : build r st1 with
        | mk rr st2 =>
          rw [hbr] at hr
          simp only [hbr]
          cases rr with
          | error e =>
            simp only [Post] at hr ⊢
            exact hP.close _ _ _ hr
          | ok ri =>
            simp only [Post] at hr
            by_cases ha : ok <;> simp only [ha, ↓reduceIte, Post]
            · refine hP.congr _ _ _ ?_ hr
              intro x; simp only [List.mem_append]
              constructor
              · rintro (h1 | h1 | h1)
                · exact Or.inl (Or.inr h1)
                · exact Or.inl (Or.inl h1)
                · exact Or.inr h1
              · rintro ((h1 | h1) | h1)
                · exact Or.inr (Or.inl h1)
                · exact Or.inl h1
                · exact Or.inr (Or.inr h1)
            · apply hP.close
              apply hP.close
              refine hP.congr _ _ _ ?_ hr
              intro x; simp only [List.mem_append]
              constructor
              · rintro (h1 | h1 | h1)
                · exact Or.inr (Or.inl h1)
                · exact Or.inl h1
                · exact Or.inr (Or.inr h1)
              · rintro (h1 | h1 | h1)
                · exact Or.inr (Or.inl h1)
                · exact Or.inl h1
                · exact Or.inr (Or.inr h1)
  | litOp e ih =>
    intro st own h
    have hs := ih st own h
    unfold build
    cases hb : build e st with
    | mk r st1 =>
      rw [hb] at hs
      cases r with
      | error e => simpa [Post] using hs
      | ok it => simpa [Post] using hs
  | vector => intro st own h; simpa [build, Post] using h

/-- `eval` on anything but a top-level log query goes through `build` -/
theorem eval_nonlog (q : Q) (st : St) (hq : ∀ s, q ≠ .log s) :
    eval q st = match build q st with
      | (.error e, st1) => (some e, st1)
      | (.ok it, st1) => (if it.broken then some .stream else none, closeAll it.rids st1) := by
  cases q with
  | log s => exact absurd rfl (hq s)
  | _ => simp only [eval] <;> rfl

theorem eval_metric (q : Q) (st : St) (hq : q.isMetric = true) :
    eval q st = match build q st with
      | (.error e, st1) => (some e, st1)
      | (.ok it, st1) => (if it.broken then some .stream else none, closeAll it.rids st1) := by
  apply eval_nonlog
  intro s hs; subst hs; simp [Q.isMetric] at hq

theorem eval_log (s : Sel) (st : St) :
    eval (.log s) st = match selectLogs s st with
      | (.error e, st1) => (some e, st1)
      | (.ok it, st1) => (if it.broken then some .stream else none, closeAll it.rids st1) := by
  simp only [eval] <;> rfl

/-- an invariant that holds with nothing owned before `eval` holds with nothing owned after -/
theorem eval_inv {P} (hP : OwnInv P) (q : Q) (st : St) (h : P st []) : P (eval q st).2 [] := by
  have key : ∀ (res : Except ErrClass Iter × St), Post P [] res →
      P (match res with
        | (.error e, st1) => (some e, st1)
        | (.ok it, st1) => ((if it.broken then some ErrClass.stream else none : Option ErrClass),
            closeAll it.rids st1)).2 [] := by
    intro res hres
    rcases res with ⟨r, st1⟩
    cases r with
    | error e => simpa [Post] using hres
    | ok it => simp only [Post] at hres ⊢; exact hP.close _ _ _ hres
  by_cases hq : ∃ s, q = .log s
  · rcases hq with ⟨s, rfl⟩
    rw [eval_log]
    exact key _ (selectLogs_inv hP s st [] h)
  · rw [eval_nonlog q st (fun s hs => hq ⟨s, hs⟩)]
    exact key _ (build_inv hP q st [] h)

/-! ## `Covered`: no leak -/

theorem covered_close (st : St) (own extra : List Rid) (h : Covered st (own ++ extra)) :
    Covered (closeAll own st) extra := by
  intro r hr
  have := h r (by simpa [closeAll] using hr)
  simp only [closeAll, List.mem_append] at *
  rcases this with h1 | h1 | h1
  · exact Or.inl (Or.inr h1)
  · exact Or.inl (Or.inl h1)
  · exact Or.inr h1

theorem covered_mono (st : St) (a b : List Rid) (h : Covered st a) (hab : ∀ r ∈ a, r ∈ b) :
    Covered st b := by
  intro r hr; rcases h r hr with h1 | h1
  · exact Or.inl h1
  · exact Or.inr (hab r h1)

theorem covered_ownInv : OwnInv Covered where
  close := covered_close
  congr := fun st a b hab h => covered_mono st a b h (fun r hr => (hab r).1 hr)
  sel := fun st n own h => h
  opn := by
    intro st rid own h r hr
    simp only [List.mem_cons] at hr ⊢
    rcases hr with rfl | hr
    · exact Or.inr (Or.inl rfl)
    · rcases h r hr with h1 | h1
      · exact Or.inl h1
      · exact Or.inr (Or.inr h1)

/-- whatever fails, every reader opened during an evaluation is closed when it returns -/
theorem no_leak (q : Q) (st : St) (h : Covered st []) : Covered (eval q st).2 [] :=
  eval_inv covered_ownInv q st h

/-! ## `Sub`: nothing is closed (or owned) that was not opened -/

/-- every closed reader and every reader in `own` has been opened -/
def Sub (st : St) (own : List Rid) : Prop :=
  (∀ r ∈ st.closed, r ∈ st.opened) ∧ (∀ r ∈ own, r ∈ st.opened)

theorem sub_ownInv : OwnInv Sub where
  close := by
    intro st own extra h
    refine ⟨?_, ?_⟩
    · intro r hr
      simp only [closeAll, List.mem_append] at hr ⊢
      rcases hr with hr | hr
      · exact h.2 r (List.mem_append_left _ hr)
      · exact h.1 r hr
    · intro r hr
      exact h.2 r (List.mem_append_right _ hr)
  congr := fun st a b hab h => ⟨h.1, fun r hr => h.2 r ((hab r).2 hr)⟩
  sel := fun st n own h => h
  opn := by
    intro st rid own h
    refine ⟨?_, ?_⟩
    · intro r hr; exact List.mem_cons_of_mem _ (h.1 r hr)
    · intro r hr
      simp only [List.mem_cons] at hr ⊢
      rcases hr with rfl | hr
      · exact Or.inl rfl
      · exact Or.inr (h.2 r hr)

/-- nothing is closed that was not opened (given that this held before) -/
theorem closed_sub_opened (q : Q) (st : St) (h : ∀ r ∈ st.closed, r ∈ st.opened) :
    ∀ r ∈ (eval q st).2.closed, r ∈ (eval q st).2.opened :=
  (eval_inv sub_ownInv q st ⟨h, fun r hr => by simp at hr⟩).1

/-! ## faults surface, and only faults do -/

theorem openAll_failed (k : Nat) (fs : List Fault) (i : Nat) (st : St) :
    (openAll k i fs st).2.1 = fs.any (· = .openFail) := by
  induction fs generalizing i st with
  | nil => simp [openAll]
  | cons f fs ih =>
    unfold openAll
    by_cases hf : f = .openFail
    · simp [hf]
    · simp [hf, ih]

/-- outcome of a builder against the fault plan `fault`: an error only if there is a fault, and on
success the iterator is broken exactly if there is a fault -/
def Spec (fault : Bool) : Except ErrClass Iter × St → Prop
  | (.error _, _) => fault = true
  | (.ok it, _) => it.broken = fault

theorem any_streamFault (fs : List Fault) (h : fs.any (· = .openFail) = false) :
    fs.any (· = .streamFault) = fs.any (· ≠ .ok) := by
  induction fs with
  | nil => rfl
  | cons f fs ih =>
    simp only [List.any_cons, Bool.or_eq_false_iff] at h
    simp only [List.any_cons, ih h.2]
    cases f <;> simp_all

theorem selectLogs_spec (s : Sel) (st : St) : Spec s.hasFault (selectLogs s st) := by
  unfold selectLogs Sel.hasFault
  cases h1 : s.stageOk
  · simp [Spec]
  · cases h2 : s.listFails
    · simp only [openAll_failed]
      cases h3 : s.ctrs.any (· = .openFail)
      · simp [Spec, any_streamFault _ h3]
      · rw [List.any_eq_true] at h3
        rcases h3 with ⟨x, hx, hx'⟩
        have hx2 : x = .openFail := by simpa using hx'
        simp only [Spec, Bool.not_true, Bool.false_or, ↓reduceIte, List.any_eq_true]
        exact ⟨x, hx, by rw [hx2]; decide⟩
    · simp [Spec]

theorem build_spec (q : Q) (hm : q.isMetric = true) (st : St) : Spec q.hasFault (build q st) := by
  induction q generalizing st with
  | log s => simp [Q.isMetric] at hm
  | range s aggOk =>
    have hs := selectLogs_spec s st
    unfold build
    cases hsel : selectLogs s st with
    | mk r st1 =>
      rw [hsel] at hs
      cases r with
      | error e => simp only [Spec] at hs; simp [Spec, Q.hasFault, hs]
      | ok it =>
        simp only [Spec] at hs
        cases aggOk <;> simp [Spec, Q.hasFault, hs]
  | vecAgg ok e ih =>
    have hs := ih hm st
    unfold build
    cases hb : build e st with
    | mk r st1 =>
      rw [hb] at hs
      cases r with
      | error e => simp only [Spec] at hs; simp [Spec, Q.hasFault, hs]
      | ok it =>
        simp only [Spec] at hs
        cases ok <;> simp [Spec, Q.hasFault, hs]
  | binop ok l r ihl ihr =>
    simp only [Q.isMetric, Bool.and_eq_true] at hm
    have hl := ihl hm.1 st
    unfold build
    cases hbl : build l st with
    | mk rl st1 =>
      rw [hbl] at hl
      cases rl with
      | error e => simp only [Spec] at hl; simp [Spec, Q.hasFault, hl]
      | ok li =>
        simp only [Spec] at hl
        have hr := ihr hm.2 st1
        cases hbr : build r st1 with
        | mk rr st2 =>
          rw [hbr] at hr
          simp only [hbr]
          cases rr with
          | error e => simp only [Spec] at hr; simp [Spec, Q.hasFault, hr]
          | ok ri =>
            simp only [Spec] at hr
            cases ok <;> simp [Spec, Q.hasFault, hl, hr]
  | litOp e ih =>
    have hs := ih hm st
    unfold build
    cases hb : build e st with
    | mk r st1 =>
      rw [hb] at hs
      cases r with
      | error e => simp only [Spec] at hs; simp [Spec, Q.hasFault, hs]
      | ok it => simp only [Spec] at hs; simp [Spec, Q.hasFault, hs]
  | vector => simp [build, Spec, Q.hasFault]

/-- a well-formed query succeeds exactly if its plan has no fault -/
theorem eval_spec (q : Q) (st : St) (hw : q.wf = true) :
    (eval q st).1 = none ↔ q.hasFault = false := by
  have key : ∀ (res : Except ErrClass Iter × St), Spec q.hasFault res →
      ((match res with
        | (.error e, st1) => (some e, st1)
        | (.ok it, st1) => ((if it.broken then some ErrClass.stream else none : Option ErrClass),
            closeAll it.rids st1)).1 = none ↔ q.hasFault = false) := by
    intro res hres
    rcases res with ⟨r, st1⟩
    cases r with
    | error e => simp only [Spec] at hres; simp [hres]
    | ok it =>
      simp only [Spec] at hres
      rw [← hres]
      cases hb : it.broken <;> simp [hb]
  by_cases hq : ∃ s, q = .log s
  · rcases hq with ⟨s, rfl⟩
    rw [eval_log]
    exact key _ (by simpa [Q.hasFault] using selectLogs_spec s st)
  · have hm : q.isMetric = true := by
      cases q with
      | log s => exact absurd ⟨s, rfl⟩ hq
      | _ => simpa [Q.wf] using hw
    rw [eval_metric q st hm]
    exact key _ (build_spec q hm st)

/-- any fault in the plan makes a well-formed query return an error -/
theorem fault_surfaces (q : Q) (st : St) (hw : q.wf = true) (hf : q.hasFault = true) :
    (eval q st).1 ≠ none := by
  intro h
  have := (eval_spec q st hw).1 h
  rw [hf] at this
  exact Bool.noConfusion this

/-- without faults a well-formed query succeeds -/
theorem no_fault_success (q : Q) (st : St) (hw : q.wf = true) (hf : q.hasFault = false) :
    (eval q st).1 = none :=
  (eval_spec q st hw).2 hf

end Resources
