import Verif.Model.LogQL
/-! C06 — parser stages (`json`, `logfmt`, `regexp`, `pattern`, `unpack`) expose exactly the fields of a
line and never drop it; unparsable lines are kept, unchanged, and flagged; pattern round trip. -/
namespace LogQL.C06
open LogQL

/-! ### label-set lookups -/

theorem err_ne : errorLabel ≠ errorDetailsLabel := by with_unfolding_all decide

theorem lookup_cons_eq (k : Bytes) (v : Bytes) (ls : Labels) : List.lookup k ((k, v) :: ls) = some v := by
  rw [List.lookup_cons]; simp

theorem lookup_cons_ne (k k' : Bytes) (v : Bytes) (ls : Labels) (h : k' ≠ k) :
    List.lookup k' ((k, v) :: ls) = List.lookup k' ls := by
  rw [List.lookup_cons]
  have : (k' == k) = false := by simpa using h
  rw [this]

theorem get_erase_same (ls : Labels) (k : Bytes) : Labels.get? (Labels.erase ls k) k = none := by
  induction ls with
  | nil => rfl
  | cons p ls ih =>
    obtain ⟨pk, pv⟩ := p
    simp only [Labels.get?, Labels.erase] at ih ⊢
    rw [List.filter_cons]
    by_cases h : pk = k
    · subst h; simpa using ih
    · have h' : (pk != k) = true := by simpa using h
      simp only [h', ↓reduceIte]
      rw [lookup_cons_ne _ _ _ _ (fun e => h e.symm)]; exact ih

theorem get_erase_other (ls : Labels) (k k' : Bytes) (h : k' ≠ k) :
    Labels.get? (Labels.erase ls k) k' = Labels.get? ls k' := by
  induction ls with
  | nil => rfl
  | cons p ls ih =>
    obtain ⟨pk, pv⟩ := p
    simp only [Labels.get?, Labels.erase] at ih ⊢
    rw [List.filter_cons]
    by_cases hp : pk = k
    · subst hp
      rw [lookup_cons_ne _ _ _ _ h]
      simpa using ih
    · have h' : (pk != k) = true := by simpa using hp
      simp only [h', ↓reduceIte]
      by_cases hk : k' = pk
      · subst hk; rw [lookup_cons_eq, lookup_cons_eq]
      · rw [lookup_cons_ne _ _ _ _ hk, lookup_cons_ne _ _ _ _ hk]; exact ih

theorem get_set_same (ls : Labels) (k v : Bytes) : Labels.get? (Labels.set ls k v) k = some v := by
  simp only [Labels.get?, Labels.set]; exact lookup_cons_eq _ _ _

theorem get_set_other (ls : Labels) (k k' v : Bytes) (h : k' ≠ k) :
    Labels.get? (Labels.set ls k v) k' = Labels.get? ls k' := by
  have := get_erase_other ls k k' h
  simp only [Labels.get?, Labels.set] at this ⊢
  rw [lookup_cons_ne _ _ _ _ h]; exact this

theorem setAll_nil (ls : Labels) : setAll ls [] = ls := rfl
theorem setAll_cons (ls : Labels) (kv) (kvs) : setAll ls (kv :: kvs) = setAll (Labels.set ls kv.1 kv.2) kvs := rfl
theorem setAll_append (ls : Labels) (xs ys) : setAll ls (xs ++ ys) = setAll (setAll ls xs) ys := by
  simp [setAll, List.foldl_append]

/-- lookup after `setAll`: the last binding of `k` in `kvs` wins, else the old value -/
theorem get_setAll (ls : Labels) (kvs : List (Bytes × Bytes)) (k : Bytes) :
    Labels.get? (setAll ls kvs) k = match (kvs.reverse.find? (fun kv => kv.1 == k)) with
      | some kv => some kv.2
      | none => Labels.get? ls k := by
  induction kvs generalizing ls with
  | nil => rfl
  | cons kv kvs ih =>
    rw [setAll_cons, ih, List.reverse_cons, List.find?_append]
    cases hf : List.find? (fun kv => kv.1 == k) kvs.reverse with
    | some x => simp
    | none =>
      simp only [Option.none_or, List.find?_cons, List.find?_nil]
      by_cases hk : kv.1 = k
      · subst hk; simp [get_set_same]
      · have : (kv.1 == k) = false := by simpa using hk
        simp only [this]
        exact get_set_other _ _ _ _ (fun e => hk e.symm)

/-- keys not bound by `kvs` keep their value -/
theorem get_setAll_not_mem (ls : Labels) (kvs : List (Bytes × Bytes)) (k : Bytes)
    (h : ∀ kv ∈ kvs, kv.1 ≠ k) : Labels.get? (setAll ls kvs) k = Labels.get? ls k := by
  rw [get_setAll]
  have : List.find? (fun kv => kv.1 == k) kvs.reverse = none := by
    rw [List.find?_eq_none]
    intro x hx
    have := h x (List.mem_reverse.mp hx)
    simpa using this
  rw [this]

/-- the last binding of a key wins -/
theorem get_setAll_last (ls : Labels) (pre post : List (Bytes × Bytes)) (k v : Bytes)
    (h : ∀ kv ∈ post, kv.1 ≠ k) : Labels.get? (setAll ls (pre ++ (k, v) :: post)) k = some v := by
  rw [setAll_append, setAll_cons, get_setAll_not_mem _ _ _ h, get_set_same]

theorem has_setError (ls : Labels) (t : String) : Labels.has (setError ls t) errorLabel = true := by
  unfold setError
  split
  · assumption
  · have := get_set_other (Labels.set ls errorLabel (Bytes.ofString t)) errorDetailsLabel errorLabel [] err_ne
    rw [get_set_same] at this
    simp only [Labels.get?] at this
    simp only [Labels.has, this, Option.isSome_some]

theorem get_setError_other (ls : Labels) (t : String) (k : Bytes) (h1 : k ≠ errorLabel) (h2 : k ≠ errorDetailsLabel) :
    Labels.get? (setError ls t) k = Labels.get? ls k := by
  unfold setError
  split
  · rfl
  · rw [get_set_other _ _ _ _ h2, get_set_other _ _ _ _ h1]

/-- a label already carrying an error keeps it: the first error wins -/
theorem setError_first_wins (ls : Labels) (t1 t2 : String) : setError (setError ls t1) t2 = setError ls t1 := by
  have := has_setError ls t1
  generalize setError ls t1 = x at this ⊢
  unfold setError
  simp only [this, ↓reduceIte]


/-! ### the stages -/

def isParser : Stage → Bool
  | .json .. | .logfmt .. | .regexp .. | .pattern .. | .unpack => true
  | _ => false

/-- a parser stage never drops a record and does not touch the `distinct` state -/
theorem parser_never_drops (env : Env) (ts : Int) (s : Stage) (h : isParser s = true) (seen : Seen) (a : Acc) :
    ((s.apply env ts seen a).1).isSome = true ∧ (s.apply env ts seen a).2 = seen := by
  cases s <;> simp only [isParser, Bool.false_eq_true] at h <;> simp only [Stage.apply]
  · split
    · simp
    · split <;> simp
  · simp
  · split <;> simp
  · simp
  · split <;> simp

/-- every parser stage but `unpack` leaves the line alone -/
theorem parser_line_unchanged (env : Env) (ts : Int) (s : Stage) (h : isParser s = true) (hu : s ≠ .unpack)
    (seen : Seen) (a a' : Acc) (hk : (s.apply env ts seen a).1 = some a') : a'.line = a.line := by
  cases s <;> simp only [isParser, Bool.false_eq_true] at h <;> simp only [Stage.apply] at hk
  · split at hk
    · simp only [Option.some.injEq] at hk; subst hk; rfl
    · split at hk <;> (simp only [Option.some.injEq] at hk; subst hk; rfl)
  · simp only [Option.some.injEq] at hk; subst hk; rfl
  · split at hk <;> (simp only [Option.some.injEq] at hk; subst hk; rfl)
  · simp only [Option.some.injEq] at hk; subst hk; rfl
  · exact absurd rfl hu

/-- json without parameters: if the reader returns fields `fs` without error, the new label set is the old one
overridden by every non-null field under its sanitised key; no error label is added -/
theorem json_all_fields (env : Env) (ts : Int) (seen : Seen) (a : Acc) (fs : List (Bytes × Json.JVal))
    (h : env.jsonObject false a.line = (fs, false)) :
    (Stage.apply env ts (.json [] []) seen a).1 =
      some { a with labels := setAll a.labels (fs.filterMap fun (k, v) => (jvalText v).map (fun t => (KeyToLabel.run k, t))) } := by
  simp [Stage.apply, h]

/-- a field is exposed with exactly its value, overriding an existing label, provided no later field of the
line has the same sanitised key (later duplicates win) -/
theorem json_all_field_value (env : Env) (ts : Int) (seen : Seen) (a a' : Acc)
    (pre post : List (Bytes × Json.JVal)) (k : Bytes) (v : Json.JVal) (t : Bytes)
    (h : env.jsonObject false a.line = (pre ++ (k, v) :: post, false)) (hv : jvalText v = some t)
    (hpost : ∀ kv ∈ post, jvalText kv.2 = none ∨ KeyToLabel.run kv.1 ≠ KeyToLabel.run k)
    (hk : (Stage.apply env ts (.json [] []) seen a).1 = some a') :
    Labels.get? a'.labels (KeyToLabel.run k) = some t := by
  rw [json_all_fields env ts seen a _ h] at hk
  simp only [Option.some.injEq] at hk
  subst hk
  simp only [List.filterMap_append, List.filterMap_cons, hv, Option.map_some]
  apply get_setAll_last
  intro kv hkv
  rw [List.mem_filterMap] at hkv
  obtain ⟨⟨k2, v2⟩, hmem, hkv⟩ := hkv
  rcases hpost _ hmem with h1 | h1
  · simp only at h1; simp [h1] at hkv
  · cases hj : jvalText v2 with
    | none => simp [hj] at hkv
    | some t2 => simp only [hj, Option.map_some, Option.some.injEq] at hkv; subst hkv; exact h1

/-- json with a field list exposes only requested fields; labels not requested and not extracted keep their
old value -/
theorem json_some_untouched (env : Env) (ts : Int) (seen : Seen) (a a' : Acc) (labels : List Bytes) (hl : labels ≠ [])
    (k : Bytes) (hk : k ∉ labels) (hne : k ≠ errorLabel) (hne2 : k ≠ errorDetailsLabel)
    (h : (Stage.apply env ts (.json labels []) seen a).1 = some a') :
    Labels.get? a'.labels k = Labels.get? a.labels k := by
  have hl' : labels.isEmpty = false := by cases labels <;> simp_all
  simp only [Stage.apply, List.isEmpty_nil, Bool.not_true, Bool.false_eq_true, ↓reduceIte, hl', Bool.not_false,
    Option.some.injEq] at h
  subst h
  have key : ∀ kvs : List (Bytes × Bytes), (∀ kv ∈ kvs, kv.1 ∈ labels) →
      Labels.get? (setAll a.labels kvs) k = Labels.get? a.labels k := by
    intro kvs hkvs
    apply get_setAll_not_mem
    intro kv hkv e
    exact hk (e ▸ hkvs kv hkv)
  simp only
  have hmem : ∀ kv ∈ (env.jsonObject false a.line).1.filterMap (fun (x : Bytes × Json.JVal) =>
      if labels.any (· == x.1) then (jvalText x.2).map (fun t => (x.1, t)) else none), kv.1 ∈ labels := by
    intro kv hkv
    rw [List.mem_filterMap] at hkv
    obtain ⟨⟨k2, v2⟩, _, hkv⟩ := hkv
    simp only at hkv
    split at hkv
    · rename_i hany
      cases hj : jvalText v2 with
      | none => simp [hj] at hkv
      | some t2 =>
        simp only [hj, Option.map_some, Option.some.injEq] at hkv; subst hkv
        simpa using hany
    · cases hkv
  split
  · rw [get_setError_other _ _ _ hne hne2]; exact key _ hmem
  · exact key _ hmem

/-- a line the reader cannot parse is kept, unchanged, and flagged (each of the three json modes) -/
theorem json_unparsable_flags (env : Env) (ts : Int) (seen : Seen) (a : Acc) (labels : List Bytes)
    (exprs : List (Bytes × JsonExpr.Path)) (fs : List (Bytes × Json.JVal)) :
    -- `| json a="x.y"` (expressions, possibly mixed with bare names)
    (exprs ≠ [] →
      (env.jsonExpr (dedupLast (exprs ++ labels.map (fun l => (l, [JsonExpr.Sel.key l])))) a.line).2 = true →
      ∃ a', (Stage.apply env ts (.json labels exprs) seen a).1 = some a' ∧ a'.line = a.line ∧
        Labels.has a'.labels errorLabel = true) ∧
    -- `| json a, b` (bare names only)
    (exprs = [] → labels ≠ [] → env.jsonObject false a.line = (fs, true) →
      ∃ a', (Stage.apply env ts (.json labels exprs) seen a).1 = some a' ∧ a'.line = a.line ∧
        Labels.has a'.labels errorLabel = true) ∧
    -- `| json`
    (exprs = [] → labels = [] → env.jsonObject false a.line = (fs, true) →
      ∃ a', (Stage.apply env ts (.json labels exprs) seen a).1 = some a' ∧ a'.line = a.line ∧
        Labels.has a'.labels errorLabel = true) := by
  refine ⟨?_, ?_, ?_⟩
  · intro he hr
    have he' : exprs.isEmpty = false := by cases exprs <;> simp_all
    simp only [Stage.apply, he', Bool.not_false, ↓reduceIte, hr]
    exact ⟨_, rfl, rfl, has_setError _ _⟩
  · intro he hl hr
    subst he
    have hl' : labels.isEmpty = false := by cases labels <;> simp_all
    simp only [Stage.apply, List.isEmpty_nil, Bool.not_true, Bool.false_eq_true, ↓reduceIte, hl', Bool.not_false, hr]
    exact ⟨_, rfl, rfl, has_setError _ _⟩
  · intro he hl hr
    subst he; subst hl
    simp only [Stage.apply, List.isEmpty_nil, Bool.not_true, Bool.false_eq_true, ↓reduceIte, hr]
    exact ⟨_, rfl, rfl, has_setError _ _⟩

/-- logfmt without parameters: every pair the reader returns is set, in order -/
theorem logfmt_all_fields (env : Env) (ts : Int) (seen : Seen) (a : Acc) (kvs : List (Bytes × Bytes))
    (h : env.logfmt a.line = (kvs, false)) :
    (Stage.apply env ts (.logfmt [] []) seen a).1 = some { a with labels := setAll a.labels kvs } := by
  simp [Stage.apply, h]

/-- a logfmt line the reader cannot parse is kept, unchanged, and flagged (any parameters) -/
theorem logfmt_unparsable_flags (env : Env) (ts : Int) (seen : Seen) (a : Acc) (labels : List Bytes)
    (exprs : List (Bytes × Bytes)) (kvs : List (Bytes × Bytes)) (h : env.logfmt a.line = (kvs, true)) :
    ∃ a', (Stage.apply env ts (.logfmt labels exprs) seen a).1 = some a' ∧ a'.line = a.line ∧
      Labels.has a'.labels errorLabel = true := by
  simp only [Stage.apply, h, ↓reduceIte]
  exact ⟨_, rfl, rfl, has_setError _ _⟩

/-- the inner loop of `unpack`: the final line is the input line or the value of a string field `_entry` -/
theorem unpack_go_line (fs : List (Bytes × Json.JVal)) (ls : Labels) (line : Bytes) :
    (Stage.apply.go fs ls line).2.1 = line ∨
      ∃ v, ((Bytes.ofString "_entry", Json.JVal.str v) ∈ fs) ∧ (Stage.apply.go fs ls line).2.1 = v := by
  induction fs generalizing ls line with
  | nil => left; rfl
  | cons kv fs ih =>
    obtain ⟨k, v⟩ := kv
    cases v with
    | str s =>
      simp only [Stage.apply.go]
      split
      · rename_i he
        have he : k = Bytes.ofString "_entry" := by simpa using he
        subst he
        rcases ih ls s with h | ⟨v, hm, h⟩
        · right; exact ⟨s, List.mem_cons_self, h⟩
        · right; exact ⟨v, List.mem_cons_of_mem _ hm, h⟩
      · split
        · rcases ih (Labels.set ls k s) line with h | ⟨v, hm, h⟩
          · left; exact h
          · right; exact ⟨v, List.mem_cons_of_mem _ hm, h⟩
        · left; rfl
    | _ =>
      simp only [Stage.apply.go]
      rcases ih ls line with h | ⟨v, hm, h⟩
      · left; exact h
      · right; exact ⟨v, List.mem_cons_of_mem _ hm, h⟩

/-- unpack: the new line is the old one or the string value of an `_entry` field of the line -/
theorem unpack_line (env : Env) (ts : Int) (seen : Seen) (a a' : Acc)
    (hk : (Stage.apply env ts .unpack seen a).1 = some a') :
    a'.line = a.line ∨ ∃ k v fs e, env.jsonObject false a.line = (fs, e) ∧ (k, Json.JVal.str v) ∈ fs ∧
      k = Bytes.ofString "_entry" ∧ a'.line = v := by
  simp only [Stage.apply] at hk
  split at hk
  · simp only [Option.some.injEq] at hk; subst hk; left; rfl
  · simp only [Option.some.injEq] at hk; subst hk
    rcases unpack_go_line (env.jsonObject false a.line).1 a.labels a.line with h | ⟨v, hm, h⟩
    · left; exact h
    · right; exact ⟨_, v, _, _, rfl, hm, rfl, h⟩

/-- unpack: an unparsable line is kept, unchanged, and flagged -/
theorem unpack_unparsable_flags (env : Env) (ts : Int) (seen : Seen) (a : Acc) (fs : List (Bytes × Json.JVal))
    (h : env.jsonObject false a.line = (fs, true)) :
    ∃ a', (Stage.apply env ts .unpack seen a).1 = some a' ∧ a'.line = a.line ∧ Labels.has a'.labels errorLabel = true := by
  simp only [Stage.apply, h, Bool.or_true, ↓reduceIte]
  exact ⟨_, rfl, rfl, has_setError _ _⟩

/-! ### pattern round trip -/

theorem cutPrefix_append (p s : Bytes) : Bytes.cutPrefix (p ++ s) p = some s := by
  induction p with
  | nil => cases s <;> rfl
  | cons b p ih => simp only [List.cons_append, Bytes.cutPrefix, beq_self_eq_true, ↓reduceIte, ih]

theorem cutPrefix_none_of_hasPrefix (s p : Bytes) (h : Bytes.hasPrefix s p = false) : Bytes.cutPrefix s p = none := by
  induction s generalizing p with
  | nil => cases p with
    | nil => simp [Bytes.hasPrefix] at h
    | cons b p => rfl
  | cons a s ih => cases p with
    | nil => simp [Bytes.hasPrefix] at h
    | cons b p =>
      simp only [Bytes.hasPrefix, Bool.and_eq_false_iff] at h
      simp only [Bytes.cutPrefix]
      split
      · rename_i hab
        rcases h with h | h
        · simp [hab] at h
        · exact ih p h
      · rfl

/-- `sep` does not occur in `v ++ sep ++ rest` before position `|v|` -/
def NoEarly (sep v rest : Bytes) : Prop :=
  ∀ k, k < v.length → Bytes.hasPrefix ((v ++ sep ++ rest).drop k) sep = false

/-- the hypothesis of the round trip, from the absence of an earlier occurrence of the literal -/
theorem cutBefore_of_noEarly (sep v rest : Bytes) (h : NoEarly sep v rest) :
    Pattern.cutBefore (v ++ sep ++ rest) sep = (v, true) := by
  have key : Bytes.cut (v ++ sep ++ rest) sep = some (v, rest) := by
    induction v with
    | nil =>
      cases sep with
      | nil => cases rest <;> rfl
      | cons b sep =>
        have := cutPrefix_append (b :: sep) rest
        simp only [List.nil_append, List.cons_append] at this ⊢
        simp only [Bytes.cut, this]
    | cons a v ih =>
      have h0 := h 0 (by simp)
      have ih' := ih (by
        intro k hk
        have := h (k + 1) (by simp; omega)
        simpa using this)
      cases sep with
      | nil => simp [Bytes.hasPrefix] at h0
      | cons b sep =>
        simp only [List.drop_zero] at h0
        have hc := cutPrefix_none_of_hasPrefix _ _ h0
        simp only [List.cons_append, List.append_assoc] at hc ih' ⊢
        simp only [Bytes.cut, hc, ih']
  simp only [Pattern.cutBefore, key]

/-- the label written for a capture: nothing for `_` -/
def here (n v : Bytes) : List (Bytes × Bytes) := if n == Pattern.underscore then [] else [(n, v)]

/-- `Renders parts values line`: `line` is `parts` with every capture replaced by a value, `values` are the
(name, value) pairs of the named captures in order.  The side condition on a capture followed by a literal
is that the literal first occurs right after the value (`strings.Cut` finds it there). -/
inductive Renders : List Pattern.Part → List (Bytes × Bytes) → Bytes → Prop
  | nil (rest : Bytes) : Renders [] [] rest
  | lit (l : Bytes) (ps) (vals) (rest) : Renders ps vals rest → Renders (.lit l :: ps) vals (l ++ rest)
  | capLast (n v : Bytes) : Renders [.cap n] (here n v) v
  | capLit (n v l : Bytes) (ps) (vals) (rest) :
      Pattern.cutBefore (v ++ l ++ rest) l = (v, true) → Renders ps vals rest →
      Renders (.cap n :: .lit l :: ps) (here n v ++ vals) (v ++ l ++ rest)

/-- pattern: whatever was written into the line comes back as that capture -/
theorem pattern_roundtrip (parts : List Pattern.Part) (vals : List (Bytes × Bytes)) (line : Bytes)
    (h : Renders parts vals line) : Pattern.matchP parts line = (vals, true) := by
  induction h with
  | nil rest => rfl
  | lit l ps vals rest _ ih => simp only [Pattern.matchP, cutPrefix_append, ih]
  | capLast n v => simp only [Pattern.matchP, here]
  | capLit n v l ps vals rest hc _ ih =>
    have hdrop : (v ++ l ++ rest).drop v.length = l ++ rest := by simp [List.append_assoc]
    have hlit : Pattern.matchP (.lit l :: ps) (l ++ rest) = (vals, true) := by
      simp only [Pattern.matchP, cutPrefix_append, ih]
    rw [Pattern.matchP]
    simp only [Pattern.Part.value, hc, ↓reduceIte, hdrop, hlit, here]

/-- the pattern stage on a rendered line sets exactly the named captures -/
theorem pattern_stage_roundtrip (env : Env) (ts : Int) (seen : Seen) (a : Acc) (parts) (vals)
    (h : Renders parts vals a.line) :
    (Stage.apply env ts (.pattern parts) seen a).1 = some { a with labels := setAll a.labels vals } := by
  simp only [Stage.apply, pattern_roundtrip _ _ _ h]

/-! ### non-vacuity: concrete instances of the hypotheses -/

/-- a toy environment whose readers return fixed results -/
def exEnv (obj : List (Bytes × Json.JVal) × Bool) (jx lf : List (Bytes × Bytes) × Bool) : Env where
  reSearch _ _ := false
  reFull _ _ := false
  reSubmatch _ _ _ := none
  reFind _ _ := none
  parseFloat _ := none
  parseDuration _ := none
  parseBytes _ := none
  parseIP _ := none
  jsonObject _ _ := obj
  jsonExpr _ _ := jx
  logfmt _ := lf
  template _ _ _ _ := none
  ansi := .eps

-- "a", "b", "x"
private abbrev ka : Bytes := [97]
private abbrev kb : Bytes := [98]
private abbrev vx : Bytes := [120]
private abbrev vy : Bytes := [121]
private abbrev exObj : List (Bytes × Json.JVal) := [(ka, .str vx), (kb, .null), (ka, .str vy), (kb, .int 3)]
private abbrev exA : Acc := ⟨[123, 125], [(ka, [1])]⟩

example : isParser (.json [ka] []) = true := rfl
example := parser_never_drops (exEnv (exObj, false) ([], false) ([], false)) 0 (.json [ka] []) rfl [] exA
example := parser_line_unchanged (exEnv (exObj, false) ([], false) ([], false)) 0 (.json [ka] []) rfl (by simp) [] exA _ rfl
example := json_all_fields (exEnv (exObj, false) ([], false) ([], false)) 0 [] exA exObj rfl
example : KeyToLabel.run kb ≠ KeyToLabel.run ka := by decide
example := json_all_field_value (exEnv (exObj, false) ([], false) ([], false)) 0 [] exA _
  [(ka, .str vx), (kb, .null)] [(kb, .int 3)] ka (.str vy) vy rfl rfl (by decide) rfl
example := json_some_untouched (exEnv (exObj, true) ([], false) ([], false)) 0 [] exA _ [kb] (by simp) ka (by decide)
  (by with_unfolding_all decide) (by with_unfolding_all decide) rfl
example := (json_unparsable_flags (exEnv (exObj, true) ([], true) ([], false)) 0 [] exA [kb] [(ka, [.key kb])] exObj).1 (by simp) rfl
example := (json_unparsable_flags (exEnv (exObj, true) ([], true) ([], false)) 0 [] exA [kb] [] exObj).2.1 rfl (by simp) rfl
example := (json_unparsable_flags (exEnv (exObj, true) ([], true) ([], false)) 0 [] exA [] [] exObj).2.2 rfl rfl rfl
example := logfmt_all_fields (exEnv ([], false) ([], false) ([(ka, vx), (kb, vy)], false)) 0 [] exA _ rfl
example := logfmt_unparsable_flags (exEnv ([], false) ([], false) ([(ka, vx)], true)) 0 [] exA [ka] [] _ rfl
example := unpack_line (exEnv ([(ka, .str vx), (Bytes.ofString "_entry", .str vy)], false) ([], false) ([], false)) 0 [] exA
  ⟨vy, [(ka, vx)]⟩ (by with_unfolding_all rfl)
example := unpack_unparsable_flags (exEnv (exObj, true) ([], false) ([], false)) 0 [] exA _ rfl

/-- pattern `<a> - <_> "<b>"` rendered with a = `x`, _ = `yy`, b = `x y"` (the last capture takes the rest) -/
example : Renders [.cap ka, .lit [32, 45, 32], .cap Pattern.underscore, .lit [32, 34], .cap kb]
    [(ka, vx), (kb, [120, 32, 121, 34])] ([120] ++ [32, 45, 32] ++ ([121, 121] ++ [32, 34] ++ [120, 32, 121, 34])) :=
  Renders.capLit ka vx [32, 45, 32] _ _ _ (by decide)
    (Renders.capLit Pattern.underscore [121, 121] [32, 34] _ _ _ (by decide) (Renders.capLast kb [120, 32, 121, 34]))

example : NoEarly [32, 45, 32] [120, 32, 121] [122] := by
  intro k hk
  have : k = 0 ∨ k = 1 ∨ k = 2 := by simp at hk; omega
  rcases this with rfl | rfl | rfl <;> decide

end LogQL.C06
