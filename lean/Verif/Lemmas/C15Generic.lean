import Verif.Model.Render
/-! C15 (generic part) — the lemmas of C15 that hold for an arbitrary palette index function and palette
length, or do not mention the palette at all. This file must not import the regenerated palette facts. -/
namespace Render.C15
open Render Bytes

/-! ## palette (arbitrary index function) -/

/-- the fold of `colorTable` succeeds when every index is inside the palette -/
theorem colorFold_some (len : Nat) (l : List (List Nat × Nat)) (h : ∀ ci ∈ l, ci.2 < len) :
    l.foldr (fun (ci : List Nat × Nat) acc =>
      match acc with
      | none => none
      | some l => if ci.2 < len then some ((ci.1, paletteColor ci.2) :: l) else none) (some [])
    = some (l.map fun ci => (ci.1, paletteColor ci.2)) := by
  induction l with
  | nil => rfl
  | cons a l ih =>
    have h1 : a.2 < len := h a (by simp)
    have h2 : ∀ ci ∈ l, ci.2 < len := fun ci hci => h ci (by simp [hci])
    simp only [List.foldr_cons, ih h2, h1, if_true, List.map_cons]

/-- closed form of `colorTable` when the index function stays inside the palette -/
theorem colorTable_eq (index : Nat → Nat → Nat) (len : Nat) (hi : ∀ k, index k len < len) (cs : List (List Nat)) :
    colorTable index len cs = some (cs.zipIdx.map fun ck => (ck.1, paletteColor (index ck.2 len))) := by
  unfold colorTable
  refine Eq.trans (colorFold_some len _ ?_) ?_
  · intro ci hci
    simp only [List.mem_map] at hci
    obtain ⟨⟨c, k⟩, _, rfl⟩ := hci
    exact hi k
  · simp [List.map_map, Function.comp_def]

/-! ## sorting -/

theorem insertByT_perm (x : Entry) (l : List Entry) : (insertByT x l).Perm (x :: l) := by
  induction l with
  | nil => exact List.Perm.refl _
  | cons y ys ih =>
    unfold insertByT
    split
    · exact List.Perm.refl _
    · exact (List.Perm.cons y ih).trans (List.Perm.swap x y ys)

theorem foldl_insert_perm (es acc : List Entry) :
    (es.foldl (fun acc e => insertByT e acc) acc).Perm (es ++ acc) := by
  induction es generalizing acc with
  | nil => exact List.Perm.refl _
  | cons e es ih =>
    simp only [List.foldl_cons, List.cons_append]
    refine (ih _).trans ?_
    refine (List.Perm.append_left es (insertByT_perm e acc)).trans ?_
    exact List.perm_middle

theorem sortByT_perm (es : List Entry) : (sortByT es).Perm es := by
  have := foldl_insert_perm es []
  simpa [sortByT] using this

theorem insertByT_sorted (x : Entry) (l : List Entry) (h : l.Pairwise (fun a b => a.t ≤ b.t)) :
    (insertByT x l).Pairwise (fun a b => a.t ≤ b.t) := by
  induction l with
  | nil => simp [insertByT]
  | cons y ys ih =>
    unfold insertByT
    have hy := List.pairwise_cons.1 h
    split
    · rename_i hlt
      refine List.pairwise_cons.2 ⟨?_, h⟩
      intro a ha
      rcases List.mem_cons.1 ha with rfl | ha
      · omega
      · have := hy.1 a ha; omega
    · rename_i hlt
      refine List.pairwise_cons.2 ⟨?_, ih hy.2⟩
      intro a ha
      have ha' := (insertByT_perm x ys).subset ha
      rcases List.mem_cons.1 ha' with rfl | ha'
      · omega
      · exact hy.1 a ha'

theorem foldl_insert_sorted (es acc : List Entry) (h : acc.Pairwise (fun a b => a.t ≤ b.t)) :
    (es.foldl (fun acc e => insertByT e acc) acc).Pairwise (fun a b => a.t ≤ b.t) := by
  induction es generalizing acc with
  | nil => exact h
  | cons e es ih => exact ih _ (insertByT_sorted e acc h)

theorem sortByT_sorted (es : List Entry) : (sortByT es).Pairwise (fun a b => a.t ≤ b.t) :=
  foldl_insert_sorted es [] List.Pairwise.nil

theorem mem_sortByT {e : Entry} {es : List Entry} : e ∈ sortByT es ↔ e ∈ es :=
  (sortByT_perm es).mem_iff

theorem sortByT_length (es : List Entry) : (sortByT es).length = es.length :=
  (sortByT_perm es).length_eq

/-- a key that is duplicate-free on a list is injective on its members -/
theorem eq_of_nodup_map {α β : Type} (f : α → β) (l : List α) (hd : (l.map f).Nodup) (a b : α)
    (ha : a ∈ l) (hb : b ∈ l) (hab : f a = f b) : a = b := by
  induction l with
  | nil => cases ha
  | cons x xs ih =>
    simp only [List.map_cons, List.nodup_cons, List.mem_map, not_exists, not_and] at hd
    rcases List.mem_cons.1 ha with h1 | h1 <;> rcases List.mem_cons.1 hb with h2 | h2
    · rw [h1, h2]
    · subst h1; exact absurd hab.symm (hd.1 b h2)
    · subst h2; exact absurd hab (hd.1 a h1)
    · exact ih hd.2 h1 h2

/-- with distinct timestamps the order does not depend on the order in which streams/entries arrive -/
theorem sortByT_perm_invariant (es es' : List Entry) (hp : es.Perm es') (hd : (es.map (·.t)).Nodup) :
    sortByT es = sortByT es' := by
  refine List.Perm.eq_of_pairwise (le := fun a b => a.t ≤ b.t) ?_ (sortByT_sorted es) (sortByT_sorted es') ?_
  · intro a b ha hb h1 h2
    have ha' : a ∈ es := mem_sortByT.1 ha
    have hb' : b ∈ es := hp.symm.subset (mem_sortByT.1 hb)
    exact eq_of_nodup_map (·.t) es hd a b ha' hb' (Nat.le_antisymm h1 h2)
  · exact (sortByT_perm es).trans (hp.trans (sortByT_perm es').symm)

/-! ## records -/

theorem render_colour_off (index : Nat → Nat → Nat) (len : Nat) (o : Opts) (hc : o.color = false) (ss : List Stream) :
    render index len o ss = some ((sortByT (flatten ss)).flatMap (lineOf o [])) := by
  unfold render
  simp [hc]

theorem lineOf_last (o : Opts) (colors : List (List Nat × List Nat)) (e : Entry) :
    (lineOf o colors e).getLast? = some 10 := by
  unfold lineOf
  simp

/-- hence, with colour off and distinct timestamps, the rendered bytes do not depend on stream order -/
theorem render_perm_invariant (index : Nat → Nat → Nat) (len : Nat) (o : Opts) (hc : o.color = false)
    (ss ss' : List Stream) (hp : (flatten ss).Perm (flatten ss')) (hd : ((flatten ss).map (·.t)).Nodup) :
    render index len o ss = render index len o ss' := by
  rw [render_colour_off index len o hc, render_colour_off index len o hc,
    sortByT_perm_invariant _ _ hp hd]

/-! ## no escape byte with colour off -/

theorem natDigitsAux_mem (fuel n : Nat) (acc : List Nat) :
    ∀ b ∈ natDigitsAux fuel n acc, (48 ≤ b ∧ b ≤ 57) ∨ b ∈ acc := by
  induction fuel generalizing n acc with
  | zero => intro b hb; exact Or.inr hb
  | succ f ih =>
    intro b hb
    unfold natDigitsAux at hb
    split at hb
    · rcases List.mem_cons.1 hb with rfl | hb
      · left; omega
      · exact Or.inr hb
    · rcases ih _ _ b hb with h | h
      · exact Or.inl h
      · rcases List.mem_cons.1 h with rfl | h
        · left; omega
        · exact Or.inr h

theorem natToDec_digits (n : Nat) : ∀ b ∈ natToDec n, 48 ≤ b ∧ b ≤ 57 := by
  intro b hb
  rcases natDigitsAux_mem _ _ _ b hb with h | h
  · exact h
  · cases h

theorem pad_digits (w n : Nat) : ∀ b ∈ pad w n, 48 ≤ b ∧ b ≤ 57 := by
  intro b hb
  unfold pad at hb
  rcases List.mem_append.1 hb with h | h
  · have := (List.mem_replicate.1 h).2; omega
  · exact natToDec_digits n b h

theorem fracText_bytes (ns : Nat) : ∀ b ∈ fracText ns, b = 46 ∨ (48 ≤ b ∧ b ≤ 57) := by
  intro b hb
  unfold fracText at hb
  split at hb
  · cases hb
  · rcases List.mem_cons.1 hb with rfl | hb
    · exact Or.inl rfl
    · right
      have h1 := List.mem_reverse.1 hb
      have h2 := (List.dropWhile_sublist _).subset h1
      exact pad_digits 9 ns b (List.mem_reverse.1 h2)

/-- `rfc3339Nano t` contains only digits, '-', 'T', ':', '.', 'Z' -/
theorem rfc3339Nano_bytes (t : Nat) :
    ∀ b ∈ rfc3339Nano t, (48 ≤ b ∧ b ≤ 57) ∨ b = 45 ∨ b = 84 ∨ b = 58 ∨ b = 46 ∨ b = 90 := by
  intro b hb
  unfold rfc3339Nano at hb
  simp only [List.mem_append, List.mem_singleton] at hb
  rcases hb with (((((((((((h | h) | h) | h) | h) | h) | h) | h) | h) | h) | h) | h) | h
  all_goals first
    | (have := pad_digits _ _ b h; omega)
    | (have := fracText_bytes _ b h; omega)
    | omega

theorem rfc3339Nano_no_esc (t : Nat) : ∀ b ∈ rfc3339Nano t, b ≠ 27 := by
  intro b hb
  have := rfc3339Nano_bytes t b hb
  omega

theorem mem_trimRight {b : Nat} {s : List Nat} (h : b ∈ trimRight s) : b ∈ s := by
  unfold trimRight at h
  exact List.mem_reverse.1 ((List.dropWhile_sublist _).subset (List.mem_reverse.1 h))

/-- `List.nil_append` as a proper rewrite rule (the core lemma is a `rfl`-lemma; used by `simp` as a
definitional step it makes the kernel unfold `rfc3339Nano`) -/
theorem nil_app (l : List Nat) : ([] : List Nat) ++ l = l := by cases l <;> rfl

theorem lineOf_no_esc (o : Opts) (hc : o.color = false) (e : Entry) (hv : 27 ∉ e.v) (hcn : 27 ∉ e.container) :
    27 ∉ lineOf o [] e := by
  intro h
  unfold lineOf at h
  simp only [hc, Bool.false_eq_true, if_false, nil_app, List.append_nil, List.mem_append,
    List.mem_singleton] at h
  rcases h with ((h | h) | h) | h
  · split at h
    · simp only [List.mem_append, List.mem_singleton] at h
      rcases h with h | h
      · exact hcn h
      · omega
    · cases h
  · split at h
    · simp only [List.mem_append, List.mem_singleton] at h
      rcases h with h | h
      · exact rfc3339Nano_no_esc _ _ h rfl
      · omega
    · cases h
  · exact hv (mem_trimRight h)
  · omega

/-- with colour off no escape byte is added: if no message and no container name contains ESC (27),
the output contains none -/
theorem no_escape_when_colour_off (index : Nat → Nat → Nat) (len : Nat) (o : Opts) (hc : o.color = false)
    (ss : List Stream) (out : List Nat) (h : render index len o ss = some out)
    (hm : ∀ e ∈ flatten ss, 27 ∉ e.v ∧ 27 ∉ e.container) : 27 ∉ out := by
  rw [render_colour_off index len o hc] at h
  have h' := Option.some.inj h
  subst h'
  intro hmem
  obtain ⟨e, he, hb⟩ := List.mem_flatMap.1 hmem
  have := hm e (mem_sortByT.1 he)
  exact lineOf_no_esc o hc e this.1 this.2 hb

/-! ## colours -/

theorem foldl_containers_mem (es : List Entry) (acc : List (List Nat)) (c : List Nat)
    (h : c ∈ acc ∨ ∃ e ∈ es, e.container = c) :
    c ∈ es.foldl (fun acc e => if acc.any (· == e.container) then acc else acc ++ [e.container]) acc := by
  induction es generalizing acc with
  | nil =>
    rcases h with h | ⟨e, he, _⟩
    · exact h
    · cases he
  | cons x xs ih =>
    simp only [List.foldl_cons]
    apply ih
    rcases h with h | ⟨e, he, rfl⟩
    · left; split
      · exact h
      · exact List.mem_append_left _ h
    · rcases List.mem_cons.1 he with rfl | he
      · left; split
        · rename_i hany
          obtain ⟨y, hy, hyeq⟩ := List.any_eq_true.1 hany
          have : y = e.container := by simpa using hyeq
          exact this ▸ hy
        · simp
      · exact Or.inr ⟨e, he, rfl⟩

theorem mem_containersOf {e : Entry} {es : List Entry} (he : e ∈ es) : e.container ∈ containersOf es :=
  foldl_containers_mem es [] _ (Or.inr ⟨e, he, rfl⟩)

theorem lookup_of_mem_keys (c : List Nat) (l : List (List Nat × List Nat)) (h : c ∈ l.map Prod.fst) :
    ∃ code, l.lookup c = some code := by
  induction l with
  | nil => cases h
  | cons a l ih =>
    obtain ⟨k, v⟩ := a
    simp only [List.lookup_cons]
    by_cases hk : c = k
    · subst hk; exact ⟨v, by simp⟩
    · have hne : (c == k) = false := by simpa using hk
      rw [hne]
      simp only [List.map_cons, List.mem_cons] at h
      rcases h with h | h
      · exact absurd h hk
      · exact ih h

/-! ## trimming -/

/-- trailing line breaks are trimmed, nothing else -/
theorem trimRight_spec (s : List Nat) :
    ∃ tail, s = trimRight s ++ tail ∧ (∀ c ∈ tail, c = 13 ∨ c = 10) ∧
      (∀ c, (trimRight s).getLast? = some c → c ≠ 13 ∧ c ≠ 10) := by
  refine ⟨(s.reverse.takeWhile (fun c => c == 13 || c == 10)).reverse, ?_, ?_, ?_⟩
  · unfold trimRight
    rw [← List.reverse_append, List.takeWhile_append_dropWhile, List.reverse_reverse]
  · intro c hc
    have h1 := List.all_takeWhile (p := fun c => c == 13 || c == 10) (l := s.reverse)
    have := List.all_eq_true.1 h1 c (List.mem_reverse.1 hc)
    simpa using this
  · intro c hc
    unfold trimRight at hc
    rw [List.getLast?_reverse] at hc
    have := List.head?_dropWhile_not (fun c => c == 13 || c == 10) s.reverse
    rw [hc] at this
    simpa using this

/-! ## non-vacuity -/

def exStreams : List Stream :=
  [⟨[97], [(2000000000, [104, 105, 10]), (5, [120])]⟩, ⟨[98], [(1000000001, [121, 13, 10])]⟩]

example : (flatten exStreams).Perm (flatten exStreams.reverse) ∧ ((flatten exStreams).map (·.t)).Nodup ∧
    exStreams.map (·.container) ≠ exStreams.reverse.map (·.container) ∧ (⟨true, true, false⟩ : Opts).color = false := by
  refine ⟨?_, by decide, by decide, rfl⟩
  decide

example : ∀ e ∈ flatten exStreams, 27 ∉ e.v ∧ 27 ∉ e.container := by decide

example : trimRight [104, 105, 13, 10, 10] = [104, 105] := by decide

end Render.C15
