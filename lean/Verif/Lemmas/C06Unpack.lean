import Verif.Lemmas.C06
import Verif.Lemmas.C06Writers
import Verif.Driver.ExecEnv
/-! `unpack` on a packed entry as promtail's `pack` stage writes it: an object of string members — the
packed labels — with the original line under `_entry`.  The stage restores exactly those labels and
that line. -/
namespace C06Unpack
open LogQL

def entryKey : Bytes := Bytes.ofString "_entry"

/-- the packed object: labels first, `_entry` last -/
def packed (kvs : List (Bytes × Bytes)) (entry : Bytes) : List (List Nat × Json.JVal) :=
  kvs.map (fun kv => (kv.1, Json.JVal.str kv.2)) ++ [(entryKey, Json.JVal.str entry)]

theorem go_packed (kvs : List (Bytes × Bytes)) (entry : Bytes) (ls : Labels) (line : Bytes)
    (hk : ∀ kv ∈ kvs, KeyToLabel.isValidLabel true kv.1 = true ∧ kv.1 ≠ entryKey) :
    Stage.apply.go (packed kvs entry) ls line = (setAll ls kvs, entry, false) := by
  induction kvs generalizing ls with
  | nil => simp [packed, Stage.apply.go, entryKey, setAll]
  | cons kv kvs ih =>
    obtain ⟨hv, hne⟩ := hk kv List.mem_cons_self
    have hne' : (kv.1 == Bytes.ofString "_entry") = false := by
      simpa [entryKey] using hne
    have := ih (Labels.set ls kv.1 kv.2) (fun x hx => hk x (List.mem_cons_of_mem _ hx))
    simp only [packed, List.map_cons, List.cons_append, Stage.apply.go, hne', hv, if_true] at this ⊢
    simpa [setAll] using this

theorem unpack_packed (ts : Int) (seen : Seen) (a : Acc) (kvs : List (Bytes × Bytes)) (entry : Bytes)
    (hk : ∀ kv ∈ kvs, KeyToLabel.isValidLabel true kv.1 = true ∧ kv.1 ≠ entryKey)
    (hok : Json.fieldsOK (packed kvs entry) = true)
    (hl : a.line = Json.writeObj (packed kvs entry)) :
    (Stage.apply ExecEnv.env ts .unpack seen a).1 = some { line := entry, labels := setAll a.labels kvs } := by
  have hr : ExecEnv.env.jsonObject false a.line = (packed kvs entry, false) := by
    rw [hl]; exact C06Writers.json_read_write false _ hok
  simp only [Stage.apply, hr, go_packed kvs entry a.labels a.line hk]
  rfl

example : (Stage.apply ExecEnv.env 0 .unpack [] ⟨Json.writeObj (packed [([97], [120])] [104, 105]), []⟩).1
    = some { line := [104, 105], labels := setAll [] [([97], [120])] } :=
  unpack_packed 0 [] _ [([97], [120])] [104, 105] (by decide +kernel) (by decide +kernel) rfl

end C06Unpack
