import Verif.Model.Unparse
/-! C05: round trip of the selector and pipeline productions — parsing the canonical writing of a
selector / of a list of stages gives back exactly that selector / those stages (`Unparse.SelectorRT`,
`Unparse.PipelineRT`), plus the unwrap, range/offset, grouping and label-list productions. -/
namespace C05Stages
open Syntax Parser Unparse
open LogQL (StrOp CmpOp)

/-! ## heads of token lists -/

/-- the token list does not start with an identifier -/
def NI (t : Toks) : Prop := ∀ l r, t ≠ .ident l :: r
/-- the token list does not start with the keyword `k` -/
def NK (k : K) (t : Toks) : Prop := ∀ r, t ≠ .kw k :: r

theorem NI_nil : NI [] := by intro l r h; cases h
theorem NK_nil (k : K) : NK k [] := by intro r h; cases h
theorem NI_kw (k : K) (r : Toks) : NI (.kw k :: r) := by intro l r' h; cases h
theorem NK_kw {k k' : K} (r : Toks) (h : k' ≠ k) : NK k (.kw k' :: r) := by
  intro r' e; cases e; exact h rfl

/-- first token of what may follow a stage: nothing, or one of `[ ) | |= |~ != !~` -/
def contHd : Toks → Bool
  | [] => true
  | .kw k :: _ => k == .lbracket || k == .rparen || k == .pipe || k == .pipeExact || k == .pipeMatch ||
      k == .neq || k == .nre
  | _ => false

/-- the token list does not start with `!=` / `!~` -/
def noNeqHd : Toks → Bool
  | .kw .neq :: _ => false
  | .kw .nre :: _ => false
  | _ => true

theorem contHd_NI {c : Toks} (h : contHd c = true) : NI c := by
  intro l r e; subst e; simp [contHd] at h

theorem contHd_NK {c : Toks} (h : contHd c = true) (k : K)
    (hk : (k == .lbracket || k == .rparen || k == .pipe || k == .pipeExact || k == .pipeMatch ||
      k == .neq || k == .nre) = false) : NK k c := by
  intro r e; subst e; simp only [contHd] at h; rw [h] at hk; cases hk

theorem noNeqHd_neq {c : Toks} (h : noNeqHd c = true) : NK .neq c := by
  intro r e; subst e; simp [noNeqHd] at h
theorem noNeqHd_nre {c : Toks} (h : noNeqHd c = true) : NK .nre c := by
  intro r e; subst e; simp [noNeqHd] at h

/-! ## comma-separated lists -/

theorem commaSep_cons_cons (x y : Toks) (ys : List Toks) :
    commaSep (x :: y :: ys) = x ++ .kw .comma :: commaSep (y :: ys) := rfl

theorem commaSep_cons_ne {x : Toks} {xs : List Toks} (h : xs ≠ []) :
    commaSep (x :: xs) = x ++ .kw .comma :: commaSep xs := by
  cases xs with
  | nil => exact absurd rfl h
  | cons y ys => rfl

/-- a non-empty comma-separated list of items that all start with an identifier starts with one -/
theorem commaSep_head {xs : List Toks} (hne : xs ≠ []) (h : ∀ x ∈ xs, ∃ l t, x = .ident l :: t) (rest : Toks) :
    ∃ l t, commaSep xs ++ rest = .ident l :: t := by
  cases xs with
  | nil => exact absurd rfl hne
  | cons x xs =>
    obtain ⟨l, t, rfl⟩ := h x (by simp)
    cases xs with
    | nil => exact ⟨l, t ++ rest, rfl⟩
    | cons y ys => exact ⟨l, _, rfl⟩

/-! ## matchers and the selector -/

theorem strOpOf_kw (op : StrOp) : strOpOf (kwOfStrOp op) = some op := by cases op <;> rfl
theorem cmpOpOf_kw (op : CmpOp) : cmpOpOf (kwOfCmpOp op) = some op := by cases op <;> rfl

theorem reCheck {re : ReEnv} {op : StrOp} {v : Bytes}
    (h : (!(op == StrOp.re || op == StrOp.nre) || re.ok v) = true) :
    ((op == StrOp.re || op == StrOp.nre) && !re.ok v) = false := by
  generalize (op == StrOp.re || op == StrOp.nre) = a at h ⊢
  generalize re.ok v = b at h ⊢
  cases a <;> cases b <;> simp_all

theorem labelMatcher_rt (re : ReEnv) (m : Matcher) (rest : Toks) (h : matcherOK re m = true) :
    labelMatcher re (matcherToks m ++ rest) = some (m, rest) := by
  obtain ⟨l, op, v⟩ := m
  simp only [matcherOK] at h
  simp only [matcherToks, List.cons_append, List.nil_append, labelMatcher, strOpOf_kw, reCheck h]
  rfl

theorem matchersLoop_rt (re : ReEnv) (rest : Toks) : ∀ (ms : List Matcher) (fuel : Nat), ms ≠ [] →
    ms.all (matcherOK re) = true → fuel ≥ ms.length →
    matchersLoop re fuel (commaSep (ms.map matcherToks) ++ .kw .rbrace :: rest) = some (ms, rest) := by
  intro ms
  induction ms with
  | nil => intro _ h; exact absurd rfl h
  | cons m ms ih =>
    intro fuel _ hall hf
    obtain ⟨f, rfl⟩ : ∃ f, fuel = f + 1 := ⟨fuel - 1, by simp at hf; omega⟩
    simp only [List.all_cons, Bool.and_eq_true] at hall
    cases ms with
    | nil =>
      simp only [List.map, commaSep]
      rw [matchersLoop, labelMatcher_rt re m _ hall.1]
    | cons m' ms' =>
      simp only [List.map, commaSep_cons_cons, List.append_assoc, List.cons_append]
      rw [matchersLoop, labelMatcher_rt re m _ hall.1]
      have := ih f (by simp) hall.2 (by simp at hf ⊢; omega)
      simp only [List.map] at this
      simp only [this]

theorem selector_roundtrip (re : Syntax.ReEnv) : Unparse.SelectorRT re := by
  intro ms rest fuel hall
  cases ms with
  | nil => simp [selectorToks, commaSep, selector]
  | cons m ms =>
    obtain ⟨l, t, ht⟩ := commaSep_head (xs := (m :: ms).map matcherToks) (by simp)
      (by intro x hx; simp only [List.mem_map] at hx; obtain ⟨a, _, rfl⟩ := hx; exact ⟨_, _, rfl⟩)
      (.kw .rbrace :: rest)
    have h := matchersLoop_rt re rest (m :: ms) ((commaSep ((m :: ms).map matcherToks) ++ .kw .rbrace :: rest).length + 1)
      (by simp) hall (by
        have : ∀ (xs : List Matcher), xs.length ≤ (commaSep (xs.map matcherToks)).length := by
          intro xs
          induction xs with
          | nil => simp
          | cons a as ih =>
            cases as with
            | nil => simp [commaSep, matcherToks]
            | cons b bs =>
              simp only [List.map, commaSep_cons_cons, List.length_append, List.length_cons] at ih ⊢
              omega
        have := this (m :: ms)
        simp only [List.length_append] at *
        omega)
    simp only [selectorToks, List.cons_append, List.append_assoc, List.nil_append]
    rw [ht] at h ⊢
    simp only [selector]
    exact h

/-! ## label-filter predicates -/

/-- fuel that suffices for `predOr` on the writing of `p` -/
def predNeed : Pred → Nat
  | .bin l _ r => max (predNeed l) (predNeed r) + 1
  | .paren p => predNeed p + 3
  | _ => 3

theorem predNeed_le (L : Lits) (p : Pred) : predNeed p ≤ 3 * (predToks L p).length := by
  induction p with
  | bin l o r ihl ihr => simp only [predNeed, predToks, List.length_append, List.length_cons]; omega
  | paren p ih => simp only [predNeed, predToks, List.length_append, List.length_cons, List.length_nil]; omega
  | _ => simp [predNeed, predToks, matcherToks]

theorem predNeed_ge (p : Pred) : 3 ≤ predNeed p := by
  induction p with
  | bin l o r ihl ihr => simp only [predNeed]; omega
  | paren p ih => simp only [predNeed]; omega
  | _ => simp [predNeed]

theorem predAnd_of_unary {re : ReEnv} {f : Nat} {toks rest : Toks} {p : Pred}
    (h : predUnary re f toks = some (p, rest)) (h1 : NI rest) (h2 : NK .comma rest) (h3 : NK .and rest) :
    predAnd re (f + 1) toks = some (p, rest) := by
  rw [predAnd, h]
  simp only
  split
  · rfl
  · rename_i c hc
    split at hc
    · exact absurd rfl (h1 _ _)
    · exact absurd rfl (h2 _)
    · exact absurd rfl (h3 _)
    · cases hc

theorem predOr_of_and {re : ReEnv} {f : Nat} {toks rest : Toks} {p : Pred}
    (h : predAnd re f toks = some (p, rest)) (h1 : NK .or rest) :
    predOr re (f + 1) toks = some (p, rest) := by
  rw [predOr, h]
  simp only
  split
  · exact absurd rfl (h1 _)
  · rfl

theorem predUnary_atom (re : ReEnv) (L : Lits) (p : Pred) (f : Nat) (rest : Toks)
    (hl : litsPred L p = true) (hw : wfPred re p = true)
    (hb : isBinPred p = false) (hp : ∀ q, p ≠ .paren q) :
    predUnary re (f + 1) (predToks L p ++ rest) = some (p, rest) := by
  cases p with
  | bin l o r => simp [isBinPred] at hb
  | paren q => exact absurd rfl (hp q)
  | matcher m =>
    obtain ⟨l, op, v⟩ := m
    simp only [wfPred, matcherOK] at hw
    simp only [predToks, matcherToks, List.cons_append, List.nil_append, predUnary, strOpOf_kw, reCheck hw]
    rfl
  | num l op v =>
    simp only [litsPred, beq_iff_eq] at hl
    simp only [predToks, List.cons_append, List.nil_append, predUnary, cmpOpOf_kw, hl]
  | dur l op v =>
    simp only [litsPred, beq_iff_eq] at hl
    simp only [predToks, List.cons_append, List.nil_append, predUnary, cmpOpOf_kw, hl]
  | bytes l op v =>
    simp only [litsPred, beq_iff_eq] at hl
    simp only [predToks, List.cons_append, List.nil_append, predUnary, cmpOpOf_kw, hl]
  | ip l op v =>
    simp only [wfPred, Bool.or_eq_true, beq_iff_eq] at hw
    rcases hw with rfl | rfl <;>
      simp only [predToks, kwOfCmpOp, List.cons_append, List.nil_append, predUnary]

theorem pred_rt (re : ReEnv) (L : Lits) (p : Pred) :
    canonPred p = true → litsPred L p = true → wfPred re p = true →
    (∀ f rest, isBinPred p = false → f + 2 ≥ predNeed p →
      predUnary re f (predToks L p ++ rest) = some (p, rest)) ∧
    (∀ f rest, isOrPred p = false → NI rest → NK .comma rest → NK .and rest → f + 1 ≥ predNeed p →
      predAnd re f (predToks L p ++ rest) = some (p, rest)) ∧
    (∀ f rest, NI rest → NK .comma rest → NK .and rest → NK .or rest → f ≥ predNeed p →
      predOr re f (predToks L p ++ rest) = some (p, rest)) := by
  -- the and / or levels follow from the level below for predicates of the lower level
  have lift : ∀ (p : Pred), isBinPred p = false →
      (∀ f rest, f + 2 ≥ predNeed p → predUnary re f (predToks L p ++ rest) = some (p, rest)) →
      predNeed p ≥ 3 →
      (∀ f rest, isBinPred p = false → f + 2 ≥ predNeed p →
        predUnary re f (predToks L p ++ rest) = some (p, rest)) ∧
      (∀ f rest, isOrPred p = false → NI rest → NK .comma rest → NK .and rest → f + 1 ≥ predNeed p →
        predAnd re f (predToks L p ++ rest) = some (p, rest)) ∧
      (∀ f rest, NI rest → NK .comma rest → NK .and rest → NK .or rest → f ≥ predNeed p →
        predOr re f (predToks L p ++ rest) = some (p, rest)) := by
    intro p hb hU hn
    have hA : ∀ f rest, NI rest → NK .comma rest → NK .and rest → f + 1 ≥ predNeed p →
        predAnd re f (predToks L p ++ rest) = some (p, rest) := by
      intro f rest h1 h2 h3 hf
      obtain ⟨g, rfl⟩ : ∃ g, f = g + 1 := ⟨f - 1, by omega⟩
      exact predAnd_of_unary (hU g rest (by omega)) h1 h2 h3
    refine ⟨fun f rest _ hf => hU f rest hf, fun f rest _ h1 h2 h3 hf => hA f rest h1 h2 h3 hf, ?_⟩
    intro f rest h1 h2 h3 h4 hf
    obtain ⟨g, rfl⟩ : ∃ g, f = g + 1 := ⟨f - 1, by omega⟩
    exact predOr_of_and (hA g rest h1 h2 h3 (by omega)) h4
  induction p with
  | bin l o r ihl ihr =>
    intro hc hl hw
    simp only [litsPred, wfPred, Bool.and_eq_true] at hl hw
    cases o with
    | false =>
      simp only [canonPred, Bool.and_eq_true, Bool.not_eq_true'] at hc
      obtain ⟨⟨⟨hbl, hor⟩, hcl⟩, hcr⟩ := hc
      have hA : ∀ f rest, NI rest → NK .comma rest → NK .and rest → f + 1 ≥ predNeed (.bin l false r) →
          predAnd re f (predToks L (.bin l false r) ++ rest) = some (.bin l false r, rest) := by
        intro f rest h1 h2 h3 hf
        simp only [predNeed] at hf
        have := predNeed_ge l
        obtain ⟨g, rfl⟩ : ∃ g, f = g + 1 := ⟨f - 1, by omega⟩
        simp only [predToks, Bool.false_eq_true, if_false, List.append_assoc, List.cons_append]
        rw [predAnd, (ihl hcl hl.1 hw.1).1 g _ hbl (by omega)]
        simp only
        rw [(ihr hcr hl.2 hw.2).2.1 g rest hor h1 h2 h3 (by omega)]
      refine ⟨fun f rest hb => by simp [isBinPred] at hb, fun f rest _ => hA f rest, ?_⟩
      intro f rest h1 h2 h3 h4 hf
      obtain ⟨g, rfl⟩ : ∃ g, f = g + 1 := ⟨f - 1, by simp only [predNeed] at hf; omega⟩
      exact predOr_of_and (hA g rest h1 h2 h3 (by omega)) h4
    | true =>
      simp only [canonPred, Bool.and_eq_true, Bool.not_eq_true'] at hc
      obtain ⟨⟨hol, hcl⟩, hcr⟩ := hc
      refine ⟨fun f rest hb => by simp [isBinPred] at hb, fun f rest ho => by simp [isOrPred] at ho, ?_⟩
      intro f rest h1 h2 h3 h4 hf
      simp only [predNeed] at hf
      have := predNeed_ge l
      obtain ⟨g, rfl⟩ : ∃ g, f = g + 1 := ⟨f - 1, by omega⟩
      simp only [predToks, if_true, List.append_assoc, List.cons_append]
      rw [predOr, (ihl hcl hl.1 hw.1).2.1 g _ hol (NI_kw _ _) (NK_kw _ (by decide)) (NK_kw _ (by decide)) (by omega)]
      simp only
      rw [(ihr hcr hl.2 hw.2).2.2 g rest h1 h2 h3 h4 (by omega)]
  | paren q ih =>
    intro hc hl hw
    simp only [canonPred, litsPred, wfPred] at hc hl hw
    refine lift (.paren q) rfl ?_ (by simp [predNeed])
    intro f rest hf
    simp only [predNeed] at hf
    obtain ⟨g, rfl⟩ : ∃ g, f = g + 1 := ⟨f - 1, by omega⟩
    simp only [predToks, List.cons_append, List.append_assoc, List.nil_append]
    rw [predUnary, (ih hc hl hw).2.2 g _ (NI_kw _ _) (NK_kw _ (by decide)) (NK_kw _ (by decide))
      (NK_kw _ (by decide)) (by omega)]
  | matcher m =>
    intro _ hl hw
    refine lift _ rfl ?_ (by simp [predNeed])
    intro f rest hf
    obtain ⟨g, rfl⟩ : ∃ g, f = g + 1 := ⟨f - 1, by simp only [predNeed] at hf; omega⟩
    exact predUnary_atom re L _ g rest hl hw rfl (by intro q h; cases h)
  | num l op v =>
    intro _ hl hw
    refine lift _ rfl ?_ (by simp [predNeed])
    intro f rest hf
    obtain ⟨g, rfl⟩ : ∃ g, f = g + 1 := ⟨f - 1, by simp only [predNeed] at hf; omega⟩
    exact predUnary_atom re L _ g rest hl hw rfl (by intro q h; cases h)
  | dur l op v =>
    intro _ hl hw
    refine lift _ rfl ?_ (by simp [predNeed])
    intro f rest hf
    obtain ⟨g, rfl⟩ : ∃ g, f = g + 1 := ⟨f - 1, by simp only [predNeed] at hf; omega⟩
    exact predUnary_atom re L _ g rest hl hw rfl (by intro q h; cases h)
  | bytes l op v =>
    intro _ hl hw
    refine lift _ rfl ?_ (by simp [predNeed])
    intro f rest hf
    obtain ⟨g, rfl⟩ : ∃ g, f = g + 1 := ⟨f - 1, by simp only [predNeed] at hf; omega⟩
    exact predUnary_atom re L _ g rest hl hw rfl (by intro q h; cases h)
  | ip l op v =>
    intro _ hl hw
    refine lift _ rfl ?_ (by simp [predNeed])
    intro f rest hf
    obtain ⟨g, rfl⟩ : ∃ g, f = g + 1 := ⟨f - 1, by simp only [predNeed] at hf; omega⟩
    exact predUnary_atom re L _ g rest hl hw rfl (by intro q h; cases h)

/-- the writing of a predicate starts with an identifier or an opening parenthesis -/
theorem predToks_head (L : Lits) (p : Pred) (rest : Toks) :
    (∃ l t, predToks L p ++ rest = .ident l :: t) ∨ (∃ t, predToks L p ++ rest = .kw .lparen :: t) := by
  induction p generalizing rest with
  | bin l o r ihl _ =>
    simp only [predToks, List.append_assoc]
    exact ihl _
  | paren q _ => exact .inr ⟨_, rfl⟩
  | matcher m => exact .inl ⟨_, _, rfl⟩
  | num l op v => exact .inl ⟨_, _, rfl⟩
  | dur l op v => exact .inl ⟨_, _, rfl⟩
  | bytes l op v => exact .inl ⟨_, _, rfl⟩
  | ip l op v => exact .inl ⟨_, _, rfl⟩

/-! ## `json` / `logfmt` parameters -/

theorem labelExtraction_stop (fuel : Nat) (rest : Toks) (labels : List Bytes) (exprs : List (Bytes × Bytes))
    (h1 : NI rest) : labelExtraction (fuel + 1) rest labels exprs = some (labels, exprs, rest) := by
  unfold labelExtraction
  split
  · exact absurd rfl (h1 _ _)
  · rfl

/-- the `label = "expr"` items -/
theorem labelExtraction_es (rest : Toks) (h1 : NI rest) (h2 : NK .comma rest) :
    ∀ (es : List (Bytes × Bytes)) (fuel : Nat) (labels : List Bytes) (exprs : List (Bytes × Bytes)),
    fuel ≥ es.length + 1 →
    labelExtraction fuel (commaSep (es.map fun e => [Tok.ident e.1, .kw .eq, .str e.2]) ++ rest) labels exprs =
      some (labels, exprs ++ es, rest) := by
  intro es
  induction es with
  | nil =>
    intro fuel labels exprs hf
    obtain ⟨f, rfl⟩ : ∃ f, fuel = f + 1 := ⟨fuel - 1, by simp at hf; omega⟩
    simpa [commaSep] using labelExtraction_stop f rest labels exprs h1
  | cons e es ih =>
    intro fuel labels exprs hf
    obtain ⟨f, rfl⟩ : ∃ f, fuel = f + 1 := ⟨fuel - 1, by simp at hf; omega⟩
    have hf' : f ≥ es.length + 1 := by simp at hf; omega
    cases es with
    | nil =>
      have := ih f labels (exprs ++ [e]) hf'
      simp only [List.map, commaSep, List.nil_append, List.append_assoc, List.cons_append] at this ⊢
      unfold labelExtraction
      simp only
      split
      · exact absurd rfl (h2 _)
      · exact this
    | cons e' es' =>
      have := ih f labels (exprs ++ [e]) hf'
      obtain ⟨l, t, ht⟩ := commaSep_head (xs := (e' :: es').map fun e => [Tok.ident e.1, .kw .eq, .str e.2])
        (by simp) (by intro x hx; simp only [List.mem_map] at hx; obtain ⟨a, _, rfl⟩ := hx; exact ⟨_, _, rfl⟩) rest
      simp only [List.map_cons, commaSep_cons_cons, List.append_assoc, List.cons_append, List.nil_append] at this ht ⊢
      rw [ht] at this ⊢
      unfold labelExtraction
      simp only
      exact this

theorem labelExtraction_rt (rest : Toks) (h1 : NI rest) (h2 : NK .comma rest) (h3 : NK .eq rest)
    (es : List (Bytes × Bytes)) :
    ∀ (ls : List Bytes) (fuel : Nat) (labels : List Bytes) (exprs : List (Bytes × Bytes)),
    fuel ≥ ls.length + es.length + 1 →
    labelExtraction fuel (extractionToks ls es ++ rest) labels exprs = some (labels ++ ls, exprs ++ es, rest) := by
  intro ls
  induction ls with
  | nil =>
    intro fuel labels exprs hf
    simpa [extractionToks] using labelExtraction_es rest h1 h2 es fuel labels exprs (by simpa using hf)
  | cons l ls ih =>
    intro fuel labels exprs hf
    obtain ⟨f, rfl⟩ : ∃ f, fuel = f + 1 := ⟨fuel - 1, by simp at hf; omega⟩
    have hf' : f ≥ ls.length + es.length + 1 := by simp at hf; omega
    have := ih f (labels ++ [l]) exprs hf'
    simp only [extractionToks, List.map_cons, List.cons_append, List.append_assoc, List.nil_append] at this ⊢
    cases htl : ls.map (fun l => [Tok.ident l]) ++ es.map (fun e => [Tok.ident e.1, .kw .eq, .str e.2]) with
    | nil =>
      rw [htl] at this
      simp only [commaSep, List.nil_append, List.cons_append] at this ⊢
      unfold labelExtraction
      simp only
      split
      · exact absurd rfl (h2 _)
      · exact absurd rfl (h3 _)
      · exact absurd rfl (h3 _)
      · simp only [List.append_eq_nil_iff, List.map_eq_nil_iff] at htl
        obtain ⟨rfl, rfl⟩ := htl
        simpa using this
    | cons x xs =>
      obtain ⟨l', t, ht⟩ := commaSep_head (xs := x :: xs) (by simp) (by
        intro y hy
        rw [← htl] at hy
        simp only [List.mem_append, List.mem_map] at hy
        rcases hy with ⟨a, _, rfl⟩ | ⟨a, _, rfl⟩ <;> exact ⟨_, _, rfl⟩) rest
      rw [htl] at this
      simp only [commaSep_cons_cons, List.cons_append, List.nil_append] at this ht ⊢
      rw [ht] at this ⊢
      unfold labelExtraction
      simp only
      exact this

/-! ## `drop` / `keep` parameters -/

theorem lam_matcher_comma (re : ReEnv) (f : Nat) (m : Matcher) (c : Toks) (labels : List Bytes) (acc : List Matcher)
    (h : matcherOK re m = true) :
    labelsAndMatchers re (f + 1) (matcherToks m ++ .kw .comma :: c) labels acc =
      labelsAndMatchers re f c labels (acc ++ [m]) := by
  have hm := labelMatcher_rt re m (.kw .comma :: c) h
  obtain ⟨l, op, v⟩ := m
  conv => lhs; unfold labelsAndMatchers
  cases op <;> simp only [matcherToks, kwOfStrOp, List.cons_append, List.nil_append] at hm ⊢ <;> simp only [hm, if_true]

theorem lam_matcher_last (re : ReEnv) (f : Nat) (m : Matcher) (c : Toks) (labels : List Bytes) (acc : List Matcher)
    (h : matcherOK re m = true) (h2 : NK .comma c) :
    labelsAndMatchers re (f + 1) (matcherToks m ++ c) labels acc = some (labels, acc ++ [m], c) := by
  have hm := labelMatcher_rt re m c h
  obtain ⟨l, op, v⟩ := m
  unfold labelsAndMatchers
  cases op <;> simp only [matcherToks, kwOfStrOp, List.cons_append, List.nil_append] at hm ⊢ <;>
    simp only [hm, if_true] <;> split <;> first | exact absurd rfl (h2 _) | rfl

theorem lam_label_comma (re : ReEnv) (f : Nat) (l : Bytes) (c : Toks) (labels : List Bytes) (acc : List Matcher) :
    labelsAndMatchers re (f + 1) (.ident l :: .kw .comma :: c) labels acc =
      labelsAndMatchers re f c (labels ++ [l]) acc := by
  conv => lhs; unfold labelsAndMatchers
  simp

theorem lam_label_last (re : ReEnv) (f : Nat) (l : Bytes) (c : Toks) (labels : List Bytes) (acc : List Matcher)
    (h1 : NK .comma c) (h2 : NK .eq c) (h3 : NK .neq c) (h4 : NK .re c) (h5 : NK .nre c) :
    labelsAndMatchers re (f + 1) (.ident l :: c) labels acc = some (labels ++ [l], acc, c) := by
  unfold labelsAndMatchers
  simp only
  split
  · exact absurd rfl (h2 _)
  · exact absurd rfl (h3 _)
  · exact absurd rfl (h4 _)
  · exact absurd rfl (h5 _)
  · simp only [Bool.false_eq_true, if_false]
    split
    · exact absurd rfl (h1 _)
    · rfl

theorem lam_ms (re : ReEnv) (rest : Toks) (h2 : NK .comma rest) :
    ∀ (ms : List Matcher) (fuel : Nat) (labels : List Bytes) (acc : List Matcher), ms ≠ [] →
    ms.all (matcherOK re) = true → fuel ≥ ms.length →
    labelsAndMatchers re fuel (commaSep (ms.map matcherToks) ++ rest) labels acc = some (labels, acc ++ ms, rest) := by
  intro ms
  induction ms with
  | nil => intro _ _ _ h; exact absurd rfl h
  | cons m ms ih =>
    intro fuel labels acc _ hall hf
    obtain ⟨f, rfl⟩ : ∃ f, fuel = f + 1 := ⟨fuel - 1, by simp at hf; omega⟩
    simp only [List.all_cons, Bool.and_eq_true] at hall
    cases ms with
    | nil =>
      simp only [List.map, commaSep]
      exact lam_matcher_last re f m rest labels acc hall.1 h2
    | cons m' ms' =>
      have := ih f labels (acc ++ [m]) (by simp) hall.2 (by simp at hf ⊢; omega)
      simp only [List.map_cons, commaSep_cons_cons, List.append_assoc, List.cons_append, List.nil_append] at this ⊢
      rw [lam_matcher_comma re f m _ labels acc hall.1]
      exact this

theorem lam_rt (re : ReEnv) (rest : Toks) (ms : List Matcher) (hall : ms.all (matcherOK re) = true)
    (h1 : NK .comma rest) (hb : ms = [] → NK .eq rest ∧ NK .neq rest ∧ NK .re rest ∧ NK .nre rest) :
    ∀ (ls : List Bytes) (fuel : Nat) (labels : List Bytes), (ls ≠ [] ∨ ms ≠ []) →
    fuel ≥ ls.length + ms.length →
    labelsAndMatchers re fuel (commaSep (ls.map (fun l => [Tok.ident l]) ++ ms.map matcherToks) ++ rest) labels [] =
      some (labels ++ ls, ms, rest) := by
  intro ls
  induction ls with
  | nil =>
    intro fuel labels hne hf
    have hne' : ms ≠ [] := by rcases hne with h | h; exact absurd rfl h; exact h
    simpa using lam_ms re rest h1 ms fuel labels [] hne' hall (by simpa using hf)
  | cons l ls ih =>
    intro fuel labels _ hf
    obtain ⟨f, rfl⟩ : ∃ f, fuel = f + 1 := ⟨fuel - 1, by simp at hf; omega⟩
    simp only [List.map_cons, List.cons_append]
    cases htl : ls.map (fun l => [Tok.ident l]) ++ ms.map matcherToks with
    | nil =>
      simp only [List.append_eq_nil_iff, List.map_eq_nil_iff] at htl
      obtain ⟨rfl, rfl⟩ := htl
      obtain ⟨e1, e2, e3, e4⟩ := hb rfl
      simp only [commaSep, List.cons_append, List.nil_append]
      exact lam_label_last re f l rest labels [] h1 e1 e2 e3 e4
    | cons x xs =>
      have hne : ls ≠ [] ∨ ms ≠ [] := by
        cases ls with
        | nil =>
          cases ms with
          | nil => simp at htl
          | cons _ _ => exact .inr (by simp)
        | cons _ _ => exact .inl (by simp)
      have := ih f (labels ++ [l]) hne (by simp at hf ⊢; omega)
      rw [htl] at this
      simp only [commaSep_cons_cons, List.append_assoc, List.cons_append, List.nil_append] at this ⊢
      rw [lam_label_comma]
      simpa using this

/-! ## `label_format` parameters -/

theorem lf_step_comma (f : Nat) (dst : Bytes) (v : Tok) (c : Toks) (seen : List Bytes)
    (rn tp rn' tp' : List (Bytes × Bytes)) (hs : dst ∉ seen)
    (hv : (∃ src, v = .ident src ∧ rn' = rn ++ [(dst, src)] ∧ tp' = tp) ∨
          (∃ t, v = .str t ∧ rn' = rn ∧ tp' = tp ++ [(dst, t)])) :
    labelFormat (f + 1) (.ident dst :: .kw .eq :: v :: .kw .comma :: c) seen rn tp =
      labelFormat f c (dst :: seen) rn' tp' := by
  have hany : (seen.any fun x => x == dst) = false := by
    simp only [List.any_eq_false, beq_iff_eq]; intro x hx e; exact hs (e ▸ hx)
  conv => lhs; unfold labelFormat
  rcases hv with ⟨src, rfl, rfl, rfl⟩ | ⟨t, rfl, rfl, rfl⟩ <;> simp [hany]

theorem lf_step_last (f : Nat) (dst : Bytes) (v : Tok) (c : Toks) (seen : List Bytes)
    (rn tp rn' tp' : List (Bytes × Bytes)) (hs : dst ∉ seen) (h1 : NK .comma c)
    (hv : (∃ src, v = .ident src ∧ rn' = rn ++ [(dst, src)] ∧ tp' = tp) ∨
          (∃ t, v = .str t ∧ rn' = rn ∧ tp' = tp ++ [(dst, t)])) :
    labelFormat (f + 1) (.ident dst :: .kw .eq :: v :: c) seen rn tp = some (.labelFormat rn' tp', c) := by
  have hany : (seen.any fun x => x == dst) = false := by
    simp only [List.any_eq_false, beq_iff_eq]; intro x hx e; exact hs (e ▸ hx)
  unfold labelFormat
  rcases hv with ⟨src, rfl, rfl, rfl⟩ | ⟨t, rfl, rfl, rfl⟩ <;> simp only [hany] <;>
    simp only [Bool.false_eq_true, if_false] <;> split <;> first | exact absurd rfl (h1 _) | rfl

theorem lf_tp (rest : Toks) (h1 : NK .comma rest) :
    ∀ (tp : List (Bytes × Bytes)) (fuel : Nat) (seen : List Bytes) (rn acc : List (Bytes × Bytes)), tp ≠ [] →
    (tp.map (·.1)).Nodup → (∀ d ∈ tp.map (·.1), d ∉ seen) → fuel ≥ tp.length →
    labelFormat fuel (commaSep (tp.map fun t => [Tok.ident t.1, .kw .eq, .str t.2]) ++ rest) seen rn acc =
      some (.labelFormat rn (acc ++ tp), rest) := by
  intro tp
  induction tp with
  | nil => intro _ _ _ _ h; exact absurd rfl h
  | cons t tp ih =>
    intro fuel seen rn acc _ hnd hseen hf
    obtain ⟨f, rfl⟩ : ∃ f, fuel = f + 1 := ⟨fuel - 1, by simp at hf; omega⟩
    simp only [List.map_cons, List.nodup_cons] at hnd
    have hs : t.1 ∉ seen := hseen t.1 (by simp)
    cases tp with
    | nil =>
      simp only [List.map, commaSep, List.cons_append, List.nil_append]
      exact lf_step_last f t.1 (.str t.2) rest seen rn acc rn (acc ++ [t]) hs h1 (.inr ⟨_, rfl, rfl, rfl⟩)
    | cons t' tp' =>
      have := ih f (t.1 :: seen) rn (acc ++ [t]) (by simp) hnd.2 (by
        intro d hd
        simp only [List.mem_cons, not_or]
        refine ⟨?_, hseen d (by simp only [List.map_cons, List.mem_cons] at hd ⊢; exact .inr hd)⟩
        intro e; subst e; exact hnd.1 hd) (by simp at hf ⊢; omega)
      simp only [List.map_cons, commaSep_cons_cons, List.append_assoc, List.cons_append, List.nil_append] at this ⊢
      rw [lf_step_comma f t.1 (.str t.2) _ seen rn acc rn (acc ++ [t]) hs (.inr ⟨_, rfl, rfl, rfl⟩)]
      exact this

theorem lf_rt (rest : Toks) (h1 : NK .comma rest) (tp : List (Bytes × Bytes)) :
    ∀ (rn : List (Bytes × Bytes)) (fuel : Nat) (seen : List Bytes) (racc : List (Bytes × Bytes)),
    (rn ≠ [] ∨ tp ≠ []) → (rn.map (·.1) ++ tp.map (·.1)).Nodup →
    (∀ d ∈ rn.map (·.1) ++ tp.map (·.1), d ∉ seen) → fuel ≥ rn.length + tp.length →
    labelFormat fuel (commaSep (rn.map (fun r => [Tok.ident r.1, .kw .eq, .ident r.2]) ++
        tp.map (fun t => [Tok.ident t.1, .kw .eq, .str t.2])) ++ rest) seen racc [] =
      some (.labelFormat (racc ++ rn) tp, rest) := by
  intro rn
  induction rn with
  | nil =>
    intro fuel seen racc hne hnd hseen hf
    have hne' : tp ≠ [] := by rcases hne with h | h; exact absurd rfl h; exact h
    simpa using lf_tp rest h1 tp fuel seen racc [] hne' (by simpa using hnd) (by simpa using hseen) (by simpa using hf)
  | cons r rn ih =>
    intro fuel seen racc _ hnd hseen hf
    obtain ⟨f, rfl⟩ : ∃ f, fuel = f + 1 := ⟨fuel - 1, by simp at hf; omega⟩
    simp only [List.map_cons, List.cons_append, List.nodup_cons] at hnd
    have hs : r.1 ∉ seen := hseen r.1 (by simp)
    simp only [List.map_cons, List.cons_append]
    cases htl : rn.map (fun r => [Tok.ident r.1, .kw .eq, .ident r.2]) ++
        tp.map (fun t => [Tok.ident t.1, .kw .eq, .str t.2]) with
    | nil =>
      simp only [List.append_eq_nil_iff, List.map_eq_nil_iff] at htl
      obtain ⟨rfl, rfl⟩ := htl
      simp only [commaSep, List.cons_append, List.nil_append]
      exact lf_step_last f r.1 (.ident r.2) rest seen racc [] (racc ++ [r]) [] hs h1 (.inl ⟨_, rfl, rfl, rfl⟩)
    | cons x xs =>
      have hne : rn ≠ [] ∨ tp ≠ [] := by
        cases rn with
        | nil =>
          cases tp with
          | nil => simp at htl
          | cons _ _ => exact .inr (by simp)
        | cons _ _ => exact .inl (by simp)
      have := ih f (r.1 :: seen) (racc ++ [r]) hne hnd.2 (by
        intro d hd
        simp only [List.mem_cons, not_or]
        refine ⟨?_, hseen d (by simp only [List.map_cons, List.cons_append, List.mem_cons]; exact .inr hd)⟩
        intro e; subst e; exact hnd.1 hd) (by simp at hf ⊢; omega)
      rw [htl] at this
      simp only [commaSep_cons_cons, List.append_assoc, List.cons_append, List.nil_append] at this ⊢
      rw [lf_step_comma f r.1 (.ident r.2) _ seen racc [] (racc ++ [r]) [] hs (.inl ⟨_, rfl, rfl, rfl⟩)]
      simpa using this

/-! ## identifier lists and line filters -/

theorem identList_rt (rest : Toks) (h1 : NK .comma rest) : ∀ (ls : List Bytes) (fuel : Nat), ls ≠ [] →
    fuel ≥ ls.length → identList fuel (identsToks ls ++ rest) = some (ls, rest) := by
  intro ls
  induction ls with
  | nil => intro _ h; exact absurd rfl h
  | cons l ls ih =>
    intro fuel _ hf
    obtain ⟨f, rfl⟩ : ∃ f, fuel = f + 1 := ⟨fuel - 1, by simp at hf; omega⟩
    cases ls with
    | nil =>
      simp only [identsToks, List.map, commaSep, List.cons_append, List.nil_append]
      unfold identList
      split
      · rename_i h; cases h; exact absurd rfl (h1 _)
      · rename_i h; cases h; rfl
      · rename_i h; exact absurd rfl (h _ _)
    | cons l' ls' =>
      have := ih f (by simp) (by simp at hf ⊢; omega)
      simp only [identsToks, List.map_cons, commaSep_cons_cons, List.cons_append,
        List.nil_append] at this ⊢
      unfold identList
      simp only [this]

theorem lineFilter_rt (re : ReEnv) (L : Lits) (op : StrOp) (v : Bytes) (ip : Bool) (c : Toks)
    (hw : wfStage re (.lineFilter op v ip) = true) :
    lineFilter re (stageToks L (.lineFilter op v ip) ++ c) = some (.lineFilter op v ip, c) := by
  simp only [wfStage, Bool.and_eq_true] at hw
  obtain ⟨h1, h2⟩ := hw
  have h1' := reCheck h1
  cases ip with
  | false => cases op <;> simp only [stageToks, lineFilter, Bool.false_eq_true, if_false, List.cons_append, List.nil_append, h1']
  | true => cases op <;> simp [stageToks, lineFilter] at h2 ⊢

/-! ## the pipeline -/

theorem commaSep_len : ∀ (xs : List Toks), (∀ x ∈ xs, 1 ≤ x.length) → xs.length ≤ (commaSep xs).length := by
  intro xs
  induction xs with
  | nil => intro _; simp
  | cons a as ih =>
    intro h
    have ha := h a (by simp)
    have := ih (fun x hx => h x (by simp [hx]))
    cases as with
    | nil => simpa [commaSep] using ha
    | cons b bs =>
      simp only [commaSep_cons_cons, List.length_append, List.length_cons] at this ⊢
      omega

theorem stageToks_contHd (L : Lits) (s : Stage) (t : Toks) : contHd (stageToks L s ++ t) = true := by
  cases s with
  | lineFilter op v ip => cases op <;> simp [stageToks, contHd]
  | _ => simp [stageToks, contHd]

theorem stageToks_noNeq (L : Lits) (s : Stage) (t : Toks) (h : startsWithNeq s = false) :
    noNeqHd (stageToks L s ++ t) = true := by
  cases s with
  | lineFilter op v ip => cases op <;> simp [stageToks, noNeqHd, startsWithNeq] at h ⊢
  | _ => simp [stageToks, noNeqHd]

theorem stopOK_contHd {au : Bool} {rest : Toks} (h : stopOK au rest = true) : contHd rest = true := by
  unfold stopOK at h
  split at h <;> simp_all [contHd]

theorem stopOK_noNeq {au : Bool} {rest : Toks} (h : stopOK au rest = true) : noNeqHd rest = true := by
  unfold stopOK at h
  split at h <;> simp_all [noNeqHd]

theorem pipeline_stop (re : ReEnv) (au : Bool) (f : Nat) (rest : Toks) (h : stopOK au rest = true) :
    pipeline re au (f + 1) rest = some ([], rest) := by
  unfold stopOK at h
  split at h
  · simp [pipeline]
  · simp [pipeline]
  · simp [pipeline]
  · simp [pipeline, h]
  · cases h

theorem pipeline_step (re : ReEnv) (L : Lits) (au : Bool) (s : Stage) (c : Toks) (ss : List Stage) (rest : Toks)
    (f : Nat) (hs : canonStage re L s = true) (hc : contHd c = true)
    (hn : endsWithBareLabel s = true → noNeqHd c = true)
    (ih : pipeline re au f c = some (ss, rest)) :
    pipeline re au (f + 1) (stageToks L s ++ c) = some (s :: ss, rest) := by
  have cNI : NI c := contHd_NI hc
  have cComma : NK .comma c := contHd_NK hc _ (by decide)
  have cEq : NK .eq c := contHd_NK hc _ (by decide)
  have cRe : NK .re c := contHd_NK hc _ (by decide)
  have cAnd : NK .and c := contHd_NK hc _ (by decide)
  have cOr : NK .or c := contHd_NK hc _ (by decide)
  simp only [canonStage, Bool.and_eq_true] at hs
  obtain ⟨hw, hcan⟩ := hs
  cases s with
  | lineFilter op v ip =>
    have hlf := lineFilter_rt re L op v ip c hw
    cases op <;> cases ip <;>
      simp only [stageToks, List.cons_append, List.nil_append, Bool.false_eq_true, if_false, if_true] at hlf ⊢ <;>
      (unfold pipeline; simp only [hlf, ih])
  | json ls es =>
    simp only [stageToks, List.cons_append]
    unfold pipeline
    simp only
    rw [labelExtraction_rt c cNI cComma cEq es ls _ [] [] (by
      have := commaSep_len (ls.map (fun l => [Tok.ident l]) ++ es.map (fun e => [Tok.ident e.1, .kw .eq, .str e.2]))
        (by intro x hx; simp only [List.mem_append, List.mem_map] at hx
            rcases hx with ⟨a, _, rfl⟩ | ⟨a, _, rfl⟩ <;> simp)
      simp only [List.length_append, List.length_map, extractionToks] at this ⊢
      omega)]
    simp only [List.nil_append, ih]
  | logfmt ls es =>
    simp only [stageToks, List.cons_append]
    unfold pipeline
    simp only
    rw [labelExtraction_rt c cNI cComma cEq es ls _ [] [] (by
      have := commaSep_len (ls.map (fun l => [Tok.ident l]) ++ es.map (fun e => [Tok.ident e.1, .kw .eq, .str e.2]))
        (by intro x hx; simp only [List.mem_append, List.mem_map] at hx
            rcases hx with ⟨a, _, rfl⟩ | ⟨a, _, rfl⟩ <;> simp)
      simp only [List.length_append, List.length_map, extractionToks] at this ⊢
      omega)]
    simp only [List.nil_append, ih]
  | regexp p mp =>
    simp only [wfStage, Bool.and_eq_true, beq_iff_eq, decide_eq_true_eq] at hw
    obtain ⟨⟨⟨h1, rfl⟩, h3⟩, h4⟩ := hw
    simp only [stageToks, List.cons_append, List.nil_append]
    unfold pipeline
    simp [h1, h3, h4, ih]
  | pattern p =>
    simp only [stageToks, List.cons_append, List.nil_append]
    unfold pipeline
    simp only [ih]
  | unpack =>
    simp only [stageToks, List.cons_append, List.nil_append]
    unfold pipeline
    simp only [ih]
  | lineFormat t =>
    simp only [stageToks, List.cons_append, List.nil_append]
    unfold pipeline
    simp only [ih]
  | decolorize =>
    simp only [stageToks, List.cons_append, List.nil_append]
    unfold pipeline
    simp only [ih]
  | labelFilter p =>
    simp only [Bool.and_eq_true] at hcan
    simp only [wfStage] at hw
    have hP : ∀ fuel, fuel ≥ predNeed p → predOr re fuel (predToks L p ++ c) = some (p, c) :=
      fun fuel hf => (pred_rt re L p hcan.1 hcan.2 hw).2.2 fuel c cNI cComma cAnd cOr hf
    have hlen := predNeed_le L p
    have hlen' : (predToks L p).length ≤ (predToks L p ++ c).length := by simp
    simp only [stageToks, List.cons_append]
    rcases predToks_head L p c with ⟨l, t, ht⟩ | ⟨t, ht⟩
    · rw [ht] at hP hlen' ⊢
      unfold pipeline
      simp only
      rw [hP _ (by simp only [List.length_cons] at hlen' ⊢; omega)]
      simp only [ih]
    · rw [ht] at hP hlen' ⊢
      unfold pipeline
      simp only
      rw [hP _ (by simp only [List.length_cons] at hlen' ⊢; omega)]
      simp only [ih]
  | labelFormat rn tp =>
    simp only [wfStage, Bool.and_eq_true, decide_eq_true_eq, Bool.not_eq_true', Bool.and_eq_false_iff,
      List.isEmpty_eq_false_iff] at hw
    simp only [stageToks, List.cons_append]
    unfold pipeline
    simp only
    rw [lf_rt c cComma tp rn _ [] [] hw.2 hw.1 (by simp) (by
      have := commaSep_len (rn.map (fun r => [Tok.ident r.1, .kw .eq, .ident r.2]) ++
          tp.map (fun t => [Tok.ident t.1, .kw .eq, .str t.2]))
        (by intro x hx; simp only [List.mem_append, List.mem_map] at hx
            rcases hx with ⟨a, _, rfl⟩ | ⟨a, _, rfl⟩ <;> simp)
      simp only [List.length_append, List.length_map] at this ⊢
      omega)]
    simp only [List.nil_append, ih]
  | drop ls ms =>
    simp only [wfStage, Bool.and_eq_true, Bool.not_eq_true', Bool.and_eq_false_iff,
      List.isEmpty_eq_false_iff] at hw
    simp only [stageToks, List.cons_append]
    unfold pipeline
    simp only
    rw [lam_rt re c ms hw.1 cComma (by
        intro hms; subst hms
        have := hn rfl
        exact ⟨cEq, noNeqHd_neq this, cRe, noNeqHd_nre this⟩) ls _ [] hw.2 (by
      have := commaSep_len (ls.map (fun l => [Tok.ident l]) ++ ms.map matcherToks)
        (by intro x hx; simp only [List.mem_append, List.mem_map] at hx
            rcases hx with ⟨a, _, rfl⟩ | ⟨a, _, rfl⟩ <;> simp [matcherToks])
      simp only [List.length_append, List.length_map] at this ⊢
      omega)]
    simp only [List.nil_append, ih]
  | keep ls ms =>
    simp only [wfStage, Bool.and_eq_true, Bool.not_eq_true', Bool.and_eq_false_iff,
      List.isEmpty_eq_false_iff] at hw
    simp only [stageToks, List.cons_append]
    unfold pipeline
    simp only
    rw [lam_rt re c ms hw.1 cComma (by
        intro hms; subst hms
        have := hn rfl
        exact ⟨cEq, noNeqHd_neq this, cRe, noNeqHd_nre this⟩) ls _ [] hw.2 (by
      have := commaSep_len (ls.map (fun l => [Tok.ident l]) ++ ms.map matcherToks)
        (by intro x hx; simp only [List.mem_append, List.mem_map] at hx
            rcases hx with ⟨a, _, rfl⟩ | ⟨a, _, rfl⟩ <;> simp [matcherToks])
      simp only [List.length_append, List.length_map] at this ⊢
      omega)]
    simp only [List.nil_append, ih]
  | distinct ls =>
    simp only [wfStage, Bool.not_eq_true', List.isEmpty_eq_false_iff] at hw
    simp only [stageToks, List.cons_append]
    unfold pipeline
    simp only
    rw [identList_rt c cComma ls _ hw (by
      have := commaSep_len (ls.map fun l => [Tok.ident l]) (by
        intro x hx; simp only [List.mem_map] at hx; obtain ⟨a, _, rfl⟩ := hx; simp)
      simp only [List.length_append, List.length_map, identsToks] at this ⊢
      omega)]
    simp only [ih]

theorem pipeline_roundtrip (re : Syntax.ReEnv) (L : Unparse.Lits) : Unparse.PipelineRT re L := by
  intro au ss
  induction ss with
  | nil =>
    intro rest fuel _ hstop hf
    obtain ⟨f, rfl⟩ : ∃ f, fuel = f + 1 := ⟨fuel - 1, by simp at hf; omega⟩
    simpa [stagesToks] using pipeline_stop re au f rest hstop
  | cons s ss ih =>
    intro rest fuel hcan hstop hf
    obtain ⟨f, rfl⟩ : ∃ f, fuel = f + 1 := ⟨fuel - 1, by simp at hf; omega⟩
    simp only [canonStages, List.all_cons, Bool.and_eq_true] at hcan
    obtain ⟨⟨hs, hall⟩, hadj⟩ := hcan
    have hadj' : adjacentOK ss = true := by
      cases ss with
      | nil => rfl
      | cons b bs => simp only [adjacentOK, Bool.and_eq_true] at hadj; exact hadj.2
    have hih := ih rest f (by simp only [canonStages, Bool.and_eq_true]; exact ⟨hall, hadj'⟩) hstop
      (by simp at hf ⊢; omega)
    have hc : contHd (stagesToks L ss ++ rest) = true := by
      cases ss with
      | nil => simpa [stagesToks] using stopOK_contHd hstop
      | cons b bs =>
        simp only [stagesToks, List.map_cons, List.flatten_cons, List.append_assoc]
        exact stageToks_contHd L b _
    have hn : endsWithBareLabel s = true → noNeqHd (stagesToks L ss ++ rest) = true := by
      intro hb
      cases ss with
      | nil => simpa [stagesToks] using stopOK_noNeq hstop
      | cons b bs =>
        simp only [adjacentOK, hb, Bool.true_and, Bool.and_eq_true, Bool.not_eq_true'] at hadj
        simp only [stagesToks, List.map_cons, List.flatten_cons, List.append_assoc]
        exact stageToks_noNeq L b _ hadj.1
    have := pipeline_step re L au s (stagesToks L ss ++ rest) ss rest f hs hc hn hih
    simpa [stagesToks] using this

/-! ## unwrap, range / offset, grouping, label lists -/

theorem unwrapFilters_rt (re : ReEnv) (rest : Toks) (hrest : ∀ r, rest ≠ .kw .pipe :: r) :
    ∀ (fs : List Matcher) (fuel : Nat) (acc : List Matcher), fs.all (matcherOK re) = true → fuel ≥ fs.length + 1 →
    unwrapFilters re fuel ((fs.map fun m => .kw .pipe :: matcherToks m).flatten ++ rest) acc =
      some (acc ++ fs, rest) := by
  intro fs
  induction fs with
  | nil =>
    intro fuel acc _ hf
    obtain ⟨f, rfl⟩ : ∃ f, fuel = f + 1 := ⟨fuel - 1, by simp at hf; omega⟩
    simp only [List.map_nil, List.flatten_nil, List.nil_append, List.append_nil]
    unfold unwrapFilters
    split
    · exact absurd rfl (hrest _)
    · rfl
  | cons m fs ih =>
    intro fuel acc hall hf
    obtain ⟨f, rfl⟩ : ∃ f, fuel = f + 1 := ⟨fuel - 1, by simp at hf; omega⟩
    simp only [List.all_cons, Bool.and_eq_true] at hall
    have := ih f (acc ++ [m]) hall.2 (by simp at hf ⊢; omega)
    simp only [List.map_cons, List.flatten_cons, List.cons_append, List.append_assoc]
    conv => lhs; unfold unwrapFilters
    simp only [labelMatcher_rt re m _ hall.1]
    simpa using this

theorem flatten_len (fs : List Matcher) :
    fs.length ≤ ((fs.map fun m => Tok.kw K.pipe :: matcherToks m).flatten).length := by
  induction fs with
  | nil => simp
  | cons m fs ih => simp only [List.map_cons, List.flatten_cons, List.length_append, List.length_cons]; omega

theorem unwrap_roundtrip (re : Syntax.ReEnv) (u : Option Syntax.Unwrap) (rest : Parser.Toks)
    (hw : Unparse.wfUnwrap re u = true)
    (hrest : ∀ r, rest ≠ .kw .pipe :: r) :
    Parser.unwrap? re (Unparse.unwrapToks u ++ rest) = some (u, rest) := by
  cases u with
  | none =>
    simp only [unwrapToks, List.nil_append]
    unfold unwrap?
    split
    · exact absurd rfl (hrest _)
    · rfl
  | some u =>
    obtain ⟨op, l, fs⟩ := u
    simp only [wfUnwrap, Bool.and_eq_true, Bool.or_eq_true, decide_eq_true_eq] at hw
    obtain ⟨hop, hall⟩ := hw
    have hF : ∀ (t : Toks), unwrapFilters re
        (((fs.map fun m => Tok.kw K.pipe :: matcherToks m).flatten ++ rest).length + 1)
        ((fs.map fun m => Tok.kw K.pipe :: matcherToks m).flatten ++ rest) [] = some (fs, rest) := by
      intro _
      have := unwrapFilters_rt re rest hrest fs
        (((fs.map fun m => Tok.kw K.pipe :: matcherToks m).flatten ++ rest).length + 1) [] hall (by
          have := flatten_len fs
          simp only [List.length_append]
          omega)
      simpa using this
    have b0 : Bytes.ofString "bytes" ≠ [] := by decide +kernel
    have d0 : Bytes.ofString "duration" ≠ [] := by decide +kernel
    have s0 : Bytes.ofString "duration_seconds" ≠ [] := by decide +kernel
    have db : Bytes.ofString "duration" ≠ Bytes.ofString "bytes" := by decide +kernel
    have sb : Bytes.ofString "duration_seconds" ≠ Bytes.ofString "bytes" := by decide +kernel
    have sd : Bytes.ofString "duration_seconds" ≠ Bytes.ofString "duration" := by decide +kernel
    rcases hop with ((rfl | rfl) | rfl) | rfl
    · simp only [unwrapToks, if_true, List.cons_append, List.nil_append]
      unfold unwrap?
      simp only [hF []]
    · simp only [unwrapToks, if_neg b0, if_true, List.cons_append, List.nil_append]
      unfold unwrap?
      simp only [hF []]
    · simp only [unwrapToks, if_neg d0, if_neg db, if_true, List.cons_append, List.nil_append]
      unfold unwrap?
      simp only [hF []]
    · simp only [unwrapToks, if_neg s0, if_neg sb, if_neg sd, List.cons_append, List.nil_append]
      unfold unwrap?
      simp only [hF []]

theorem rangeOffset_roundtrip (L : Unparse.Lits) (r : Int) (o : Option Int) (rest : Parser.Toks)
    (hr : Unparse.durOK L r = true) (ho : match o with | none => True | some d => Unparse.durOK L d = true)
    (hrest : ∀ t, rest ≠ .kw .offset :: t) :
    Parser.rangeOffset (Unparse.rangeOffsetToks L r o ++ rest) = some (r, o, rest) := by
  simp only [durOK, beq_iff_eq] at hr
  cases o with
  | none =>
    simp only [rangeOffsetToks, List.cons_append, List.nil_append, List.append_nil]
    unfold rangeOffset
    simp only [hr]
    split
    · exact absurd rfl (hrest _)
    · exact absurd rfl (hrest _)
    · rfl
  | some d =>
    simp only [durOK, beq_iff_eq] at ho
    simp only [rangeOffsetToks, List.cons_append, List.nil_append]
    unfold rangeOffset
    simp only [hr, ho, Option.map_some]

theorem parenLabels_roundtrip (ls : List Syntax.Bytes) (rest : Parser.Toks) :
    Parser.parenLabels (Unparse.parenLabelsToks ls ++ rest) = some (ls, rest) := by
  cases ls with
  | nil => simp [parenLabelsToks, identsToks, commaSep, parenLabels]
  | cons l ls =>
    obtain ⟨l', t, ht⟩ := commaSep_head (xs := (l :: ls).map fun l => [Tok.ident l]) (by simp)
      (by intro x hx; simp only [List.mem_map] at hx; obtain ⟨a, _, rfl⟩ := hx; exact ⟨_, _, rfl⟩)
      (.kw .rparen :: rest)
    have h := identList_rt (.kw .rparen :: rest) (NK_kw _ (by decide)) (l :: ls)
      ((identsToks (l :: ls) ++ .kw .rparen :: rest).length + 1) (by simp) (by
        have := commaSep_len ((l :: ls).map fun l => [Tok.ident l]) (by
          intro x hx; simp only [List.mem_map] at hx; obtain ⟨a, _, rfl⟩ := hx; simp)
        simp only [List.length_append, List.length_map, identsToks] at this ⊢
        omega)
    simp only [parenLabelsToks, List.cons_append, List.append_assoc, List.nil_append]
    simp only [identsToks] at h ⊢
    rw [ht] at h ⊢
    unfold parenLabels
    simp only [h]

theorem grouping_roundtrip (g : Option Syntax.Grouping) (rest : Parser.Toks)
    (hrest : ∀ t, rest ≠ .kw .by_ :: t ∧ rest ≠ .kw .without :: t) :
    Parser.grouping? (Unparse.groupingToks g ++ rest) = some (g, rest) := by
  cases g with
  | none =>
    simp only [groupingToks, List.nil_append]
    unfold grouping?
    split
    · exact absurd rfl (hrest _).1
    · exact absurd rfl (hrest _).2
    · rfl
  | some g =>
    obtain ⟨w, ls⟩ := g
    cases w <;> simp [groupingToks, grouping?, parenLabels_roundtrip]

/-! ## non-vacuity -/

def exRe : ReEnv := ⟨fun _ => true, fun _ => []⟩
def exL : Lits := ⟨fun _ => [53, 109], fun _ => [53], fun _ => [53], fun _ => [53]⟩

def exStages : List Stage :=
  [.lineFilter .eq [120] false, .drop [[97]] [],
   .labelFilter (.bin (.matcher ⟨[97], .eq, [98]⟩) false (.num [99] .gt 5)),
   .labelFilter (.paren (.paren (.paren (.matcher ⟨[97], .re, [98]⟩)))),
   .labelFormat [([97], [98])] [([99], [100])], .json [[97]] [([98], [99])], .distinct [[97], [98]],
   .keep [[97]] [⟨[98], .ne, [99]⟩], .lineFilter .ne [120] true]

example : canonStages exRe exL exStages = true := by decide +kernel
example : stopOK true [.kw .pipe, .kw .unwrap, .ident [97]] = true := by decide
example : pipeline exRe true 10 (stagesToks exL exStages ++ [.kw .pipe, .kw .unwrap, .ident [97]]) =
    some (exStages, [.kw .pipe, .kw .unwrap, .ident [97]]) :=
  pipeline_roundtrip exRe exL true exStages _ 10 (by decide +kernel) (by decide) (by decide)

example : [(⟨[97], .re, [98]⟩ : Matcher), ⟨[99], .eq, []⟩].all (matcherOK exRe) = true := by decide
example : selector exRe 1 (selectorToks [⟨[97], .re, [98]⟩, ⟨[99], .eq, []⟩] ++ [.kw .pipe]) =
    some ([⟨[97], .re, [98]⟩, ⟨[99], .eq, []⟩], [.kw .pipe]) :=
  selector_roundtrip exRe _ _ 0 (by decide)

example : wfUnwrap exRe (some ⟨[], [97], [⟨[98], .eq, [99]⟩]⟩) = true := by decide
example : unwrap? exRe (unwrapToks (some ⟨[], [97], [⟨[98], .eq, [99]⟩]⟩) ++ [.kw .lbracket]) =
    some (some ⟨[], [97], [⟨[98], .eq, [99]⟩]⟩, [.kw .lbracket]) :=
  unwrap_roundtrip exRe _ _ (by decide) (by intro r h; cases h)

example : durOK exL 300000000000 = true := by decide +kernel
example : rangeOffset (rangeOffsetToks exL 300000000000 (some 300000000000) ++ [.kw .rparen]) =
    some (300000000000, some 300000000000, [.kw .rparen]) :=
  rangeOffset_roundtrip exL _ _ _ (by decide +kernel) (by show durOK exL _ = true; decide +kernel)
    (by intro r h; cases h)

example : grouping? (groupingToks (some ⟨true, [[97], [98]]⟩) ++ [.kw .rparen]) =
    some (some ⟨true, [[97], [98]]⟩, [.kw .rparen]) :=
  grouping_roundtrip _ _ (by intro t; constructor <;> (intro h; cases h))

end C05Stages
