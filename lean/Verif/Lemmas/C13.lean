import Verif.Model.BinOpParser
import Verif.Lemmas.C13Generic
import Verif.Gen.Prec
namespace BinOpParser.C13
open Metric BinOpParser

/-- regenerated fact: the precedence order of the property statement -/
theorem prec_order : Gen.prec .or < Gen.prec .and ∧ Gen.prec .and = Gen.prec .unless ∧ Gen.prec .unless < Gen.prec .eq ∧
    (∀ o ∈ [BinOp.eq, .ne, .gt, .ge, .lt, .le], Gen.prec o = Gen.prec .eq) ∧ Gen.prec .eq < Gen.prec .add ∧
    Gen.prec .add = Gen.prec .sub ∧ Gen.prec .sub < Gen.prec .mul ∧ Gen.prec .mul = Gen.prec .div ∧ Gen.prec .div = Gen.prec .mod ∧
    Gen.prec .mod < Gen.prec .pow := by
  decide

set_option maxRecDepth 100000 in
theorem chains1_right : ∀ c ∈ allChains 1, parseExpr Gen.prec (chainToks c) = specExpr Gen.prec allRight (chainToks c) := by
  decide +kernel

set_option maxRecDepth 100000 in
theorem chains2_right : ∀ c ∈ allChains 2, parseExpr Gen.prec (chainToks c) = specExpr Gen.prec allRight (chainToks c) := by
  decide +kernel

set_option maxRecDepth 100000 in
theorem chains3_right' : ∀ c ∈ allChains 3, parseExpr Gen.prec (chainToks c) = specExpr Gen.prec allRight (chainToks c) := by
  decide +kernel

/-- exhaustive, kernel-checked: on every chain of up to 3 operators (4 operands) the parser produces the
all-right-associative precedence-climbing tree -/
theorem chains3_right : ∀ c ∈ allChains 1 ++ allChains 2 ++ allChains 3,
    parseExpr Gen.prec (chainToks c) = specExpr Gen.prec allRight (chainToks c) := by
  intro c hc
  rcases List.mem_append.1 hc with hc | hc
  · rcases List.mem_append.1 hc with hc | hc
    · exact chains1_right c hc
    · exact chains2_right c hc
  · exact chains3_right' c hc

/-- exhaustive: the parser's tree equals the conventional one exactly on the chains where the two readings coincide -/
theorem chains3_conventional_iff : ∀ c ∈ allChains 1 ++ allChains 2 ++ allChains 3,
    (parseExpr Gen.prec (chainToks c) = specExpr Gen.prec conventional (chainToks c)) ↔
    (specExpr Gen.prec allRight (chainToks c) = specExpr Gen.prec conventional (chainToks c)) := by
  intro c hc
  rw [chains3_right c hc]

/-- the witness of the recorded finding K1: `0 - 1 - 2` is parsed as `0 - (1 - 2)`, whose value differs from the conventional `(0 - 1) - 2` -/
theorem sub_sub_wrong : parseExpr Gen.prec (chainToks [.sub, .sub]) = some (.node (.leaf 0) .sub (.node (.leaf 1) .sub (.leaf 2))) ∧
    specExpr Gen.prec conventional (chainToks [.sub, .sub]) = some (.node (.node (.leaf 0) .sub (.leaf 1)) .sub (.leaf 2)) ∧
    evalTree [1, 2, 3] (.node (.leaf 0) .sub (.node (.leaf 1) .sub (.leaf 2))) ≠ evalTree [1, 2, 3] (.node (.node (.leaf 0) .sub (.leaf 1)) .sub (.leaf 2)) := by
  refine ⟨by decide +kernel, by decide +kernel, by decide +kernel⟩

/-- parentheses override: a parenthesised sub-expression is a primary (kernel-checked instances) -/
theorem paren_overrides : parseExpr Gen.prec [.lparen, .num 0, .op .add, .num 1, .rparen, .op .mul, .num 2]
      = some (.node (.paren (.node (.leaf 0) .add (.leaf 1))) .mul (.leaf 2)) ∧
    parseExpr Gen.prec [.num 0, .op .mul, .lparen, .num 1, .op .add, .num 2, .rparen]
      = some (.node (.leaf 0) .mul (.paren (.node (.leaf 1) .add (.leaf 2)))) := by
  refine ⟨by decide +kernel, by decide +kernel⟩

-- non-vacuity of the exhaustive theorems: the chains are there, and they all parse
set_option maxRecDepth 100000 in
example : [BinOp.sub, .mul, .pow] ∈ allChains 1 ++ allChains 2 ++ allChains 3 := by decide +kernel

set_option maxRecDepth 100000 in
theorem chains3_parse : ∀ c ∈ allChains 1 ++ allChains 2 ++ allChains 3, (parseExpr Gen.prec (chainToks c)).isSome := by
  decide +kernel

/-- both sides of `chains3_conventional_iff` are false on `0 - 1 - 2` and true on `0 + 1 * 2` -/
example : parseExpr Gen.prec (chainToks [.sub, .sub]) ≠ specExpr Gen.prec conventional (chainToks [.sub, .sub]) := by
  decide +kernel
example : parseExpr Gen.prec (chainToks [.add, .mul]) = specExpr Gen.prec conventional (chainToks [.add, .mul]) := by
  decide +kernel

theorem prec_eq_pow {o o' : BinOp} (h : Gen.prec o = Gen.prec o') (ho : o' = .pow) : o = .pow := by
  subst ho; cases o <;> simp [Gen.prec] at h ⊢

/-- if an operator occurrence is followed by an operator of the same precedence only when it is `^`, the conventional
and the all-right-associative readings coincide -/
theorem conventional_eq_allRight_of_pairwise (toks : List Tok)
    (h : (opsOf toks).Pairwise fun o o' => Gen.prec o = Gen.prec o' → o = .pow) :
    specExpr Gen.prec conventional toks = specExpr Gen.prec allRight toks := by
  apply specExpr_ra_irrelevant
  rw [agreeWhereItMatters_iff_pairwise]
  refine h.imp ?_
  intro o o' h heq
  rw [h heq]; rfl

theorem pairwise_of_nodup (ops : List BinOp) (h : ((ops.filter (· ≠ .pow)).map Gen.prec).Nodup) :
    ops.Pairwise fun o o' => Gen.prec o = Gen.prec o' → o = .pow := by
  induction ops with
  | nil => exact List.Pairwise.nil
  | cons o rest ih =>
    rw [List.pairwise_cons]
    by_cases ho : o = .pow
    · subst ho
      refine ⟨fun _ _ _ => rfl, ih ?_⟩
      simpa [List.filter_cons] using h
    · rw [List.filter_cons_of_pos (by simpa using ho), List.map_cons, List.nodup_cons] at h
      refine ⟨fun o' ho' heq => ?_, ih h.2⟩
      exfalso
      apply h.1
      rw [heq]
      apply List.mem_map_of_mem
      rw [List.mem_filter]
      refine ⟨ho', ?_⟩
      have : o' ≠ .pow := fun hp => ho (prec_eq_pow heq hp)
      simpa using this

/-- if, apart from `^`, no two operators of the token list have the same precedence, the conventional and the
all-right-associative readings coincide (so the parser's result is the conventional one) -/
theorem conventional_eq_allRight_of_distinct_prec (toks : List Tok)
    (h : (((opsOf toks).filter (· ≠ .pow)).map Gen.prec).Nodup) :
    specExpr Gen.prec conventional toks = specExpr Gen.prec allRight toks :=
  conventional_eq_allRight_of_pairwise toks (pairwise_of_nodup _ h)

theorem parseExpr_conventional_of_distinct_prec (toks : List Tok)
    (h : (((opsOf toks).filter (· ≠ .pow)).map Gen.prec).Nodup) :
    parseExpr Gen.prec toks = specExpr Gen.prec conventional toks := by
  rw [parseExpr_eq_specExpr_allRight, conventional_eq_allRight_of_distinct_prec toks h]


/-! ### consequences and non-vacuity -/

/-- unbounded form of `chains3_conventional_iff` -/
theorem parseExpr_conventional_iff (toks : List Tok) :
    (parseExpr Gen.prec toks = specExpr Gen.prec conventional toks) ↔
    (specExpr Gen.prec allRight toks = specExpr Gen.prec conventional toks) := by
  rw [parseExpr_eq_specExpr_allRight]

/-- unbounded form of `chains3_right` (every chain length) -/
theorem chains_right (c : List BinOp) :
    parseExpr Gen.prec (chainToks c) = specExpr Gen.prec allRight (chainToks c) :=
  parseExpr_eq_specExpr_allRight _ _

-- `parseBinOp_eq_climb`: the hypothesis holds on `0 - 1 - 2` (left operand already read)
example : (parseBinOp Gen.prec 10 (.leaf 0) 0 [.op .sub, .num 1, .op .sub, .num 2]).isSome := by decide +kernel
-- ... and the conclusion is about a proper tree
example : parseBinOp Gen.prec 10 (.leaf 0) 0 [.op .sub, .num 1, .op .sub, .num 2] =
    some (.node (.leaf 0) .sub (.node (.leaf 1) .sub (.leaf 2)), []) := by decide +kernel

-- `climb_congr`: two different tables that agree on the operators of `0 + 1 * 2`
example : ∀ o ∈ opsOf (chainToks [.add, .mul]), conventional o = (fun o => o == .pow || o == .sub) o := by decide
example : conventional BinOp.sub ≠ (fun o => o == .pow || o == .sub) BinOp.sub := by decide

-- `climb_ra_irrelevant`: `conventional` and `allRight` differ on `+` and `*`, which occur in `(0 + 1) * 2 ^ 3 ^ 4 or 5`,
-- but agree where it matters
example : AgreeWhereItMatters Gen.prec conventional allRight
    [.lparen, .num 0, .op .add, .num 1, .rparen, .op .mul, .num 2, .op .pow, .num 3, .op .pow, .num 4, .op .or, .num 5] := by
  rw [agreeWhereItMatters_iff_pairwise]; decide
-- and they do not on `0 - 1 - 2`
example : ¬ AgreeWhereItMatters Gen.prec conventional allRight (chainToks [.sub, .sub]) := by
  rw [agreeWhereItMatters_iff_pairwise]; decide

-- `conventional_eq_allRight_of_distinct_prec`: `(0 + 1) * 2 ^ 3 ^ 4 or 5`
example : (((opsOf [.lparen, .num 0, .op .add, .num 1, .rparen, .op .mul, .num 2, .op .pow, .num 3, .op .pow, .num 4,
    .op .or, .num 5]).filter (· ≠ .pow)).map Gen.prec).Nodup := by decide
example : parseExpr Gen.prec [.lparen, .num 0, .op .add, .num 1, .rparen, .op .mul, .num 2, .op .pow, .num 3, .op .pow, .num 4,
    .op .or, .num 5] =
    some (.node (.node (.paren (.node (.leaf 0) .add (.leaf 1))) .mul (.node (.leaf 2) .pow (.node (.leaf 3) .pow (.leaf 4))))
      .or (.leaf 5)) := by decide +kernel

end BinOpParser.C13
