import Verif.Lemmas.JsonTree
/-! The object reader of the `json` stage without parameters, on the canonical text of an object whose
members are arbitrary JSON trees: exactly the members, in order (duplicates kept), scalars as their
values, arrays and objects as their text.  Generalises `C06Writers.json_read_write` (scalar members).

With the int64 check on (`checkInt = true`) the reader validates the integers inside nested arrays
and objects too, so the range hypothesis has to speak about every integer of the tree. -/
namespace JsonObjTree
open Json JsonTree JsonTreeL Bytes
open C06Writers (skipWs_cons natToDec_ne_nil natToDec_digits natToDec_head natToDec_step digitsVal_natToDec
  readValue_num readFields_step)

/-- the value the reader reports for a member: scalars as such, containers as their raw text -/
def toJVal : JT → JVal
  | .str s => .str s
  | .int i => .int i
  | .bool b => .bool b
  | .null => .null
  | .arr xs => .nested (writeT (.arr xs))
  | .obj fs => .nested (writeT (.obj fs))

mutual
/-- every integer of the tree, at any depth, is in the int64 range -/
def intsOK : JT → Bool
  | .int i => decide (-9223372036854775808 ≤ i ∧ i ≤ 9223372036854775807)
  | .arr xs => intsOKElems xs
  | .obj fs => intsOKFields fs
  | _ => true
def intsOKElems : List JT → Bool
  | [] => true
  | x :: rest => intsOK x && intsOKElems rest
def intsOKFields : List (List Nat × JT) → Bool
  | [] => true
  | (_, v) :: rest => intsOK v && intsOKFields rest
end

/-! ## numbers: the exact value -/

theorem readNumber_digits (c neg : Bool) (ds tl : List Nat)
    (hne : ds ≠ []) (hd : ∀ x ∈ ds, isDigit x = true) (hz : ds.length > 1 → ds.head? ≠ some 48)
    (htl : numEnd tl = true)
    (hr : c = true → -9223372036854775808 ≤ (if neg then -(digitsVal ds : Int) else (digitsVal ds : Int)) ∧
          (if neg then -(digitsVal ds : Int) else (digitsVal ds : Int)) ≤ 9223372036854775807) :
    readNumber c ((if neg then [45] else []) ++ ds ++ tl)
      = some (.int (if neg then -(digitsVal ds : Int) else (digitsVal ds : Int)), tl) := by
  obtain ⟨t1, t2⟩ := numEnd_digit tl htl
  have ht : (ds ++ tl).takeWhile isDigit = ds := by
    rw [List.takeWhile_append_of_pos hd, t1]; simp
  have hdr : (ds ++ tl).dropWhile isDigit = tl := by
    rw [List.dropWhile_append_of_pos hd, t2]
  have hz' : (decide (ds.length > 1) && ds.head? == some 48) = false := by
    by_cases h1 : ds.length > 1
    · have := hz h1
      simp [h1, this]
    · simp [h1]
  have hemp : ds.isEmpty = false := by cases ds <;> simp_all
  cases neg with
  | true =>
    simp only [↓reduceIte, List.cons_append, List.nil_append] at hr ⊢
    have hrange : (c && (decide (-(digitsVal ds : Int) < -9223372036854775808)
        || decide (-(digitsVal ds : Int) > 9223372036854775807))) = false := by
      cases c with
      | false => rfl
      | true =>
        have := hr rfl
        have h1 : ¬ (-(digitsVal ds : Int) < -9223372036854775808) := by omega
        have h2 : ¬ (-(digitsVal ds : Int) > 9223372036854775807) := by omega
        simp [h1, h2]
    unfold readNumber
    simp only [ht, hdr, hemp, hz', Bool.or_false, Bool.false_eq_true, ↓reduceIte]
    rcases numEnd_cases tl htl with rfl | ⟨c', r', rfl, hc⟩
    · simp only [numEnd, hrange]; simp
    · rcases hc with h | h | h | h | h | h | h <;> subst h <;>
        simp only [numEnd, isWs, hrange] <;> simp
  | false =>
    simp only [Bool.false_eq_true, ↓reduceIte, List.nil_append] at hr ⊢
    have hrange : (c && (decide ((digitsVal ds : Int) < -9223372036854775808)
        || decide ((digitsVal ds : Int) > 9223372036854775807))) = false := by
      cases c with
      | false => rfl
      | true =>
        have := hr rfl
        have h1 : ¬ ((digitsVal ds : Int) < -9223372036854775808) := by omega
        have h2 : ¬ ((digitsVal ds : Int) > 9223372036854775807) := by omega
        simp [h1, h2]
    cases ds with
    | nil => exact absurd rfl hne
    | cons d ds' =>
      have hd45 : d ≠ 45 := by
        have := hd d (by simp)
        simp [isDigit] at this; omega
      have hm : Json.readNumber.match_1 (fun _ => Bool × List Nat) (d :: (ds' ++ tl))
          (fun r => (true, r)) (fun _ => (false, d :: (ds' ++ tl))) = (false, d :: (ds' ++ tl)) := by
        split
        · rename_i heq
          simp at heq; exact absurd heq.1 hd45
        · rfl
      unfold readNumber
      simp only [List.cons_append] at ht hdr ⊢
      simp only [hm, ht, hdr, hemp, hz', Bool.or_false, Bool.false_eq_true, ↓reduceIte]
      rcases numEnd_cases tl htl with rfl | ⟨c', r', rfl, hc⟩
      · simp only [numEnd, hrange]; simp
      · rcases hc with h | h | h | h | h | h | h <;> subst h <;>
          simp only [numEnd, isWs, hrange] <;> simp

theorem readValue_int (c : Bool) (f : Nat) (i : Int) (tl : List Nat) (htl : numEnd tl = true)
    (hi : c = true → -9223372036854775808 ≤ i ∧ i ≤ 9223372036854775807) :
    readValue c (f + 1) (intToDec i ++ tl) = some (.int i, tl) := by
  by_cases hneg : i < 0
  · have e : intToDec i ++ tl = (if true then [45] else []) ++ natToDec i.natAbs ++ tl := by
      simp [intToDec, hneg]
    have hv : -((digitsVal (natToDec i.natAbs) : Nat) : Int) = i := by
      rw [digitsVal_natToDec]; omega
    have := readNumber_digits c true (natToDec i.natAbs) tl (natToDec_ne_nil _)
      (natToDec_digits _) (fun _ => natToDec_head _ (by omega)) htl
      (by simp only [↓reduceIte, hv]; exact hi)
    simp only [↓reduceIte, hv] at this
    rw [e]
    simp only [↓reduceIte, List.cons_append, List.nil_append] at this ⊢
    rw [readValue_num c f 45 _ (Or.inl rfl), this]
  · have e : intToDec i ++ tl = (if false then [45] else []) ++ natToDec i.toNat ++ tl := by
      simp [intToDec, hneg]
    have hv : ((digitsVal (natToDec i.toNat) : Nat) : Int) = i := by
      rw [digitsVal_natToDec]; omega
    have hz : (natToDec i.toNat).length > 1 → (natToDec i.toNat).head? ≠ some 48 := by
      intro hl
      by_cases h0 : i.toNat = 0
      · rw [h0, natToDec_step] at hl; simp at hl
      · exact natToDec_head _ (by omega)
    have := readNumber_digits c false (natToDec i.toNat) tl (natToDec_ne_nil _)
      (natToDec_digits _) hz htl
      (by simp only [Bool.false_eq_true, ↓reduceIte, hv]; exact hi)
    simp only [Bool.false_eq_true, ↓reduceIte, hv, List.nil_append] at this
    rw [e]
    simp only [Bool.false_eq_true, ↓reduceIte, List.nil_append]
    cases hd : natToDec i.toNat with
    | nil => exact absurd hd (natToDec_ne_nil _)
    | cons d ds =>
      rw [hd] at this
      have hdig := natToDec_digits i.toNat d (by rw [hd]; simp)
      simp only [List.cons_append] at this ⊢
      rw [readValue_num c f d _ (Or.inr hdig), this]

/-! ## containers: the reported text is the consumed prefix -/

theorem readValue_arr_empty (c : Bool) (f : Nat) (tl : List Nat) :
    readValue c (f + 1) (91 :: 93 :: tl) = some (.nested [91, 93], tl) := by
  rw [readValue, skipWs_cons 91 _ (by decide)]
  simp only [skipWs_cons 93 _ (by decide)]
  have := take_pre [91, 93] tl
  simp only [List.cons_append, List.nil_append] at this
  simp only [this]

theorem readValue_obj_empty (c : Bool) (f : Nat) (tl : List Nat) :
    readValue c (f + 1) (123 :: 125 :: tl) = some (.nested [123, 125], tl) := by
  rw [readValue, skipWs_cons 123 _ (by decide)]
  simp only [skipWs_cons 125 _ (by decide)]
  have := take_pre [123, 125] tl
  simp only [List.cons_append, List.nil_append] at this
  simp only [this]

theorem readValue_arr (c : Bool) (f b : Nat) (r tl : List Nat) (v : JVal) (hws : isWs b = false) (hb : b ≠ 93)
    (h : readElems c f (b :: r) = some (v, tl)) :
    readValue c (f + 1) (91 :: b :: r)
      = some (.nested ((91 :: b :: r).take ((91 :: b :: r).length - tl.length)), tl) := by
  rw [readValue, skipWs_cons 91 _ (by decide)]
  simp only [skipWs_cons b _ hws, h]
  split
  · rename_i heq
    split at heq
    · rename_i h2; simp at h2; exact absurd h2.1 hb
    · simp at heq; subst heq; rfl
  · rename_i heq
    split at heq
    · rename_i h2; simp at h2; exact absurd h2.1 hb
    · simp at heq

theorem readValue_obj (c : Bool) (f b : Nat) (r tl : List Nat) (v : JVal) (hws : isWs b = false) (hb : b ≠ 125)
    (h : readMembers c f (b :: r) = some (v, tl)) :
    readValue c (f + 1) (123 :: b :: r)
      = some (.nested ((123 :: b :: r).take ((123 :: b :: r).length - tl.length)), tl) := by
  rw [readValue, skipWs_cons 123 _ (by decide)]
  simp only [skipWs_cons b _ hws, h]
  split
  · rename_i heq
    split at heq
    · rename_i h2; simp at h2; exact absurd h2.1 hb
    · simp at heq; subst heq; rfl
  · rename_i heq
    split at heq
    · rename_i h2; simp at h2; exact absurd h2.1 hb
    · simp at heq

/-! ## the validating reader on canonical text: the exact value -/

theorem readValue_writeT (c : Bool) :
    (∀ t, ∀ f tl, wfT t = true → (c = true → intsOK t = true) → size t ≤ f → numEnd tl = true →
        readValue c f (writeT t ++ tl) = some (toJVal t, tl)) ∧
    (∀ xs, ∀ f tl, xs ≠ [] → wfElems xs = true → (c = true → intsOKElems xs = true) → sizeElems xs ≤ f →
        ∃ v, readElems c f (writeElems xs ++ 93 :: tl) = some (v, tl)) ∧
    (∀ fs, ∀ f tl, fs ≠ [] → wfFields fs = true → (c = true → intsOKFields fs = true) → sizeFields fs ≤ f →
        ∃ v, readMembers c f (writeFields fs ++ 125 :: tl) = some (v, tl)) := by
  apply JT_induct
  · intro s f tl hw _ hf htl
    cases f with
    | zero => simp [size] at hf
    | succ g => exact readValue_str c g s tl (by simpa [wfT] using hw)
  · intro i f tl hw hi hf htl
    cases f with
    | zero => simp [size] at hf
    | succ g =>
      exact readValue_int c g i tl htl (fun hc => by simpa [intsOK] using hi hc)
  · intro b f tl hw _ hf htl
    cases f with
    | zero => simp [size] at hf
    | succ g =>
      cases b
      · simp only [writeT, List.cons_append, List.nil_append]
        rw [readValue, skipWs_cons 102 _ (by decide)]; rfl
      · simp only [writeT, List.cons_append, List.nil_append]
        rw [readValue, skipWs_cons 116 _ (by decide)]; rfl
  · intro f tl hw _ hf htl
    cases f with
    | zero => simp [size] at hf
    | succ g =>
      simp only [writeT, List.cons_append, List.nil_append]
      rw [readValue, skipWs_cons 110 _ (by decide)]; rfl
  · intro xs ih f tl hw hi hf htl
    cases f with
    | zero => simp [size] at hf
    | succ g =>
      cases xs with
      | nil => simpa [writeT, writeElems, toJVal] using readValue_arr_empty c g tl
      | cons x rest =>
        obtain ⟨v, hv⟩ := ih g tl (by simp) (by simpa [wfT] using hw)
          (fun hc => by simpa [intsOK] using hi hc) (by simp [size] at hf; omega)
        obtain ⟨b, r, hbr, hws, h93, _⟩ := writeT_first x
        have e : 91 :: b :: (r ++ etail rest ++ 93 :: tl) = writeT (.arr (x :: rest)) ++ tl := by
          simp [writeT, writeElems_cons, hbr]
        have e2 : writeElems (x :: rest) ++ 93 :: tl = b :: (r ++ etail rest ++ 93 :: tl) := by
          simp [writeElems_cons, hbr]
        rw [e2] at hv
        have := readValue_arr c g b _ tl v hws h93 hv
        rw [e, take_pre] at this
        exact this
  · intro fs ih f tl hw hi hf htl
    cases f with
    | zero => simp [size] at hf
    | succ g =>
      cases fs with
      | nil => simpa [writeT, writeFields, toJVal] using readValue_obj_empty c g tl
      | cons p rest =>
        obtain ⟨k, x⟩ := p
        obtain ⟨v, hv⟩ := ih g tl (by simp) (by simpa [wfT] using hw)
          (fun hc => by simpa [intsOK] using hi hc) (by simp [size] at hf; omega)
        have e : 123 :: 34 :: ((k.map Json.escByte).flatten ++ 34 :: 58 :: (writeT x ++ ftail rest ++ 125 :: tl))
            = writeT (.obj ((k, x) :: rest)) ++ tl := by
          simp [writeT, writeFields_cons, writeStr]
        have e2 : writeFields ((k, x) :: rest) ++ 125 :: tl
            = 34 :: ((k.map Json.escByte).flatten ++ 34 :: 58 :: (writeT x ++ ftail rest ++ 125 :: tl)) := by
          simp [writeFields_cons, writeStr]
        rw [e2] at hv
        have := readValue_obj c g 34 _ tl v (by decide) (by decide) hv
        rw [e, take_pre] at this
        exact this
  · intro f tl h; exact absurd rfl h
  · intro x rest hx hr f tl _ hw hi hf
    cases f with
    | zero => simp [sizeElems] at hf
    | succ g =>
      simp only [wfElems, Bool.and_eq_true] at hw
      simp only [intsOKElems, Bool.and_eq_true] at hi
      simp only [sizeElems] at hf
      have hv := hx g (etail rest ++ 93 :: tl) hw.1 (fun hc => (hi hc).1) (by omega) (numEnd_etail rest tl)
      rw [writeElems_cons, List.append_assoc, readElems, hv]
      cases rest with
      | nil =>
        simp only [etail, List.nil_append, skipWs_cons 93 _ (by decide)]
        exact ⟨_, rfl⟩
      | cons y ys =>
        simp only [etail, List.cons_append, skipWs_cons 44 _ (by decide)]
        exact hr g tl (by simp) hw.2 (fun hc => (hi hc).2) (by omega)
  · intro f tl h; exact absurd rfl h
  · intro k x rest hx hr f tl _ hw hi hf
    cases f with
    | zero => simp [sizeFields] at hf
    | succ g =>
      simp only [wfFields, Bool.and_eq_true] at hw
      simp only [intsOKFields, Bool.and_eq_true] at hi
      simp only [sizeFields] at hf
      have hv := hx g (ftail rest ++ 125 :: tl) hw.1.2 (fun hc => (hi hc).1) (by omega) (numEnd_ftail rest tl)
      have e : writeFields ((k, x) :: rest) ++ 125 :: tl
          = 34 :: ((k.map Json.escByte).flatten ++ 34 :: 58 :: (writeT x ++ (ftail rest ++ 125 :: tl))) := by
        simp [writeFields_cons, writeStr]
      rw [e, readMembers, skipWs_cons 34 _ (by decide)]
      simp only [readStr_written k _ hw.1.1, skipWs_cons 58 _ (by decide), hv]
      cases rest with
      | nil =>
        simp only [ftail, List.nil_append, skipWs_cons 125 _ (by decide)]
        exact ⟨_, rfl⟩
      | cons y ys =>
        simp only [ftail, List.cons_append, skipWs_cons 44 _ (by decide)]
        exact hr g tl (by simp) hw.2 (fun hc => (hi hc).2) (by omega)

/-- the validating reader on the text of a well-formed tree, followed by anything a number may be
followed by: the tree's value (containers: their text) and exactly the rest -/
theorem readValue_writeT_tl (c : Bool) (t : JT) (f : Nat) (tl : List Nat) (h : wfT t = true)
    (hi : c = true → intsOK t = true) (hf : size t ≤ f) (htl : numEnd tl = true) :
    readValue c f (writeT t ++ tl) = some (toJVal t, tl) :=
  (readValue_writeT c).1 t f tl h hi hf htl

/-! ## the field reader -/

theorem readFields_writeFields (c : Bool) (fs : List (List Nat × JT)) :
    ∀ (fuel : Nat) (tl : List Nat) (acc : List (List Nat × JVal)), fs ≠ [] → wfFields fs = true →
      (c = true → intsOKFields fs = true) → fs.length ≤ fuel →
      readFields c fuel (writeFields fs ++ 125 :: tl) acc
        = (acc ++ fs.map (fun kv => (kv.1, toJVal kv.2)), false) := by
  induction fs with
  | nil => intro _ _ _ h; exact absurd rfl h
  | cons p rest ih =>
    intro fuel tl acc _ hw hi hf
    obtain ⟨k, x⟩ := p
    cases fuel with
    | zero => simp at hf
    | succ g =>
      simp only [wfFields, Bool.and_eq_true] at hw
      simp only [intsOKFields, Bool.and_eq_true] at hi
      have e : writeFields ((k, x) :: rest) ++ 125 :: tl
          = 34 :: ((k.map Json.escByte).flatten ++ 34 :: 58 :: (writeT x ++ (ftail rest ++ 125 :: tl))) := by
        simp [writeFields_cons, writeStr]
      have h1 := readStr_written k (58 :: (writeT x ++ (ftail rest ++ 125 :: tl))) hw.1.1
      have h2 := readValue_writeT_tl c x ((writeT x ++ (ftail rest ++ 125 :: tl)).length + 1)
        (ftail rest ++ 125 :: tl) hw.1.2 (fun hc => (hi hc).1)
        (by have := size_le_length.1 x; simp only [List.length_append]; omega) (numEnd_ftail rest tl)
      rw [e, readFields_step c g k (toJVal x) _ _ _ acc h1 h2]
      cases rest with
      | nil =>
        simp only [ftail, List.nil_append, skipWs_cons 125 _ (by decide), List.map_cons, List.map_nil]
      | cons y ys =>
        simp only [ftail, List.cons_append, skipWs_cons 44 _ (by decide)]
        rw [ih g tl _ (by simp) hw.2 (fun hc => (hi hc).2) (by simp at hf ⊢; omega)]
        simp

theorem length_le_writeFields (fs : List (List Nat × JT)) : fs.length ≤ (writeFields fs).length := by
  induction fs with
  | nil => simp
  | cons p rest ih =>
    obtain ⟨k, x⟩ := p
    rw [writeFields_cons]
    cases rest with
    | nil => simp [writeStr]
    | cons y ys =>
      simp only [ftail, List.length_append, List.length_cons] at ih ⊢
      omega

/-! ## main theorems -/

/-- the object reader returns, for the canonical text of an object, exactly its members in order
(duplicate keys kept), scalars as their values and nested arrays/objects as their canonical text,
without error.  With the int64 check on, every integer of the tree has to be in range: the reader
validates the integers inside nested containers as well. -/
theorem readObject_writeT (checkInt : Bool) (fs : List (List Nat × JT)) (h : wfFields fs = true)
    (hint : checkInt = true → intsOKFields fs = true) :
    readObject checkInt (writeT (.obj fs)) = (fs.map (fun kv => (kv.1, toJVal kv.2)), false) := by
  unfold readObject
  simp only [writeT]
  rw [List.cons_append, skipWs_cons 123 _ (by decide)]
  cases fs with
  | nil => simp [writeFields, skipWs_cons 125 _ (by decide)]
  | cons p rest =>
    obtain ⟨r, hr⟩ := writeFields_first p rest []
    have hlen := length_le_writeFields (p :: rest)
    have hrd := readFields_writeFields checkInt (p :: rest) ((writeFields (p :: rest) ++ [125]).length + 1) [] []
      (by simp) h hint (by simp only [List.length_append, List.length_cons] at hlen ⊢; omega)
    show (match skipWs (writeFields (p :: rest) ++ [125]) with
      | 125 :: _ => ([], false)
      | _ => readFields checkInt ((writeFields (p :: rest) ++ [125]).length + 1)
              (writeFields (p :: rest) ++ [125]) []) = _
    rw [hrd, hr, skipWs_cons 34 _ (by decide)]
    simp

/-- without the int64 check no hypothesis on the integers is needed -/
theorem readObject_writeT_nocheck (fs : List (List Nat × JT)) (h : wfFields fs = true) :
    readObject false (writeT (.obj fs)) = (fs.map (fun kv => (kv.1, toJVal kv.2)), false) :=
  readObject_writeT false fs h (fun hc => by cases hc)

/-- `{"a":{"b":[1,"x"]},"c":null,"a":7}`: a nested object holding an array, and a duplicate key -/
example :
    readObject true (writeT (.obj [([97], .obj [([98], .arr [.int 1, .str [120]])]), ([99], .null), ([97], .int 7)]))
      = ([([97], .nested (writeT (.obj [([98], .arr [.int 1, .str [120]])]))), ([99], .null), ([97], .int 7)], false) :=
  readObject_writeT true _ (by decide) (fun _ => by decide)

/-- the text read in the example above -/
example : writeT (.obj [([97], .obj [([98], .arr [.int 1, .str [120]])]), ([99], .null), ([97], .int 7)])
    = Bytes.ofString "{\"a\":{\"b\":[1,\"x\"]},\"c\":null,\"a\":7}" := by decide +kernel

/-- an integer outside int64, nested: accepted without the check -/
example :
    readObject false (writeT (.obj [([98], .int 3), ([97], .arr [.int 9223372036854775808]), ([99], .null)]))
      = ([([98], .int 3), ([97], .nested (writeT (.arr [.int 9223372036854775808]))), ([99], .null)], false) :=
  readObject_writeT_nocheck _ (by decide)

/-- why the range hypothesis is about the whole tree: with the check on, `{"b":3,"a":[9223372036854775808],"c":null}`
(all top-level integers in range) stops with an error at the member `a`, after one field -/
example :
    (readObject true (writeT (.obj [([98], .int 3), ([97], .arr [.int 9223372036854775808]), ([99], .null)]))).2 = true
    ∧ (readObject true (writeT (.obj [([98], .int 3), ([97], .arr [.int 9223372036854775808]), ([99], .null)]))).1.length = 1 := by
  decide +kernel

end JsonObjTree
