import Verif.Model.BinOpParser
/-! Generic part of the C13 lemmas: the parser's loops for arbitrary token lists and ARBITRARY precedence
tables (no regenerated fact is used here; C17 imports only this file). -/
namespace BinOpParser.C13
open Metric BinOpParser

/-! ## unbounded part: arbitrary token lists, arbitrary precedence tables -/

/-! ### one-step characterisations of the five functions -/

def closeParen (y : Tree × List Tok) : Option (Tree × List Tok) :=
  match y.2 with
  | .rparen :: rest2 => some (.paren y.1, rest2)
  | _ => none

theorem closeParen_some_iff {y r} : closeParen y = some r ↔ ∃ rest2, y.2 = .rparen :: rest2 ∧ r = (.paren y.1, rest2) := by
  unfold closeParen
  split
  · rename_i rest2 h; simp [h, eq_comm]
  · rename_i h; simp only [reduceCtorEq, false_iff]; rintro ⟨rest2, h2, _⟩; exact h _ h2

theorem spec1_lparen (prec ra f rest) :
    spec1 prec ra (f+1) (.lparen :: rest) =
      (spec1 prec ra f rest).bind fun x => (climb prec ra f x.1 0 x.2).bind closeParen := by
  rw [spec1]
  cases spec1 prec ra f rest with
  | none => rfl
  | some x =>
    obtain ⟨l, rest1⟩ := x
    simp only [Option.bind_some]
    cases climb prec ra f l 0 rest1 with
    | none => rfl
    | some y =>
      obtain ⟨t, r2⟩ := y
      simp only [Option.bind_some, closeParen]
      split <;> simp_all

theorem spec1_some_iff {prec ra f toks r} :
    spec1 prec ra (f+1) toks = some r ↔
      (∃ n rest, toks = .num n :: rest ∧ r = (.leaf n, rest)) ∨
      (∃ rest l rest1 t rest2, toks = .lparen :: rest ∧ spec1 prec ra f rest = some (l, rest1) ∧
        climb prec ra f l 0 rest1 = some (t, .rparen :: rest2) ∧ r = (.paren t, rest2)) := by
  match toks with
  | [] => simp [spec1]
  | .num n :: rest =>
    simp only [spec1, Option.some.injEq, List.cons.injEq, Tok.num.injEq, reduceCtorEq, false_and, exists_false, or_false]
    constructor
    · intro h; exact ⟨n, rest, ⟨rfl, rfl⟩, h.symm⟩
    · rintro ⟨_, _, ⟨rfl, rfl⟩, h⟩; exact h.symm
  | .op o :: rest => simp [spec1]
  | .rparen :: rest => simp [spec1]
  | .lparen :: rest =>
    rw [spec1_lparen]
    simp only [Option.bind_eq_some_iff, closeParen_some_iff, reduceCtorEq, false_and, exists_false, false_or,
      List.cons.injEq, true_and, Prod.exists]
    constructor
    · rintro ⟨l, rest1, h1, t, r2, h2, rest2, he, hr⟩
      subst he
      exact ⟨rest, l, rest1, t, rest2, rfl, h1, h2, hr⟩
    · rintro ⟨rest', l, rest1, t, rest2, he, h1, h2, hr⟩
      subst he
      exact ⟨l, rest1, h1, t, _, h2, rest2, rfl, hr⟩

theorem peekOp_some {toks : List Tok} {o} (h : peekOp toks = some o) : toks = .op o :: toks.tail := by
  unfold peekOp at h
  split at h
  · simp at h; simp [h]
  · simp at h

theorem climb_nop (prec ra f left mp toks) (h : peekOp toks = none) :
    climb prec ra (f+1) left mp toks = some (left, toks) := by
  rw [climb]; simp [h]

theorem climb_op (prec ra f left mp op tail) :
    climb prec ra (f+1) left mp (.op op :: tail) =
      if prec op < mp then some (left, .op op :: tail) else
      (spec1 prec ra f tail).bind fun x =>
        (climb prec ra f x.1 (if ra op then prec op else prec op + 1) x.2).bind fun y =>
          climb prec ra f (.node left op y.1) mp y.2 := by
  rw [climb]; simp only [peekOp, List.tail_cons]
  split
  · rfl
  · cases spec1 prec ra f tail with
    | none => rfl
    | some x =>
      simp only [Option.bind_some]
      cases climb prec ra f x.1 (if ra op then prec op else prec op + 1) x.2 with
      | none => rfl
      | some y => rfl

theorem climb_some_iff {prec ra f left mp toks r} :
    climb prec ra (f+1) left mp toks = some r ↔
      (peekOp toks = none ∧ r = (left, toks)) ∨
      (∃ op tail, toks = .op op :: tail ∧ prec op < mp ∧ r = (left, toks)) ∨
      (∃ op tail r0 rest r1 rest', toks = .op op :: tail ∧ ¬ prec op < mp ∧
        spec1 prec ra f tail = some (r0, rest) ∧
        climb prec ra f r0 (if ra op then prec op else prec op + 1) rest = some (r1, rest') ∧
        climb prec ra f (.node left op r1) mp rest' = some r) := by
  cases hp : peekOp toks with
  | none =>
    rw [climb_nop _ _ _ _ _ _ hp]
    constructor
    · intro h; cases h; exact .inl ⟨rfl, rfl⟩
    · rintro (⟨_, h⟩ | ⟨op, tail, he, _⟩ | ⟨op, tail, _, _, _, _, he, _⟩)
      · rw [h]
      · subst he; simp [peekOp] at hp
      · subst he; simp [peekOp] at hp
  | some op =>
    have ht := peekOp_some hp
    generalize toks.tail = tail at ht
    subst ht
    rw [climb_op]
    split
    · rename_i hlt
      constructor
      · intro h; cases h; exact .inr (.inl ⟨op, tail, rfl, hlt, rfl⟩)
      · rintro (⟨h, _⟩ | ⟨op', tail', he, _, h⟩ | ⟨op', tail', _, _, _, _, he, hge, _⟩)
        · cases h
        · rw [h]
        · cases he; exact absurd hlt hge
    · rename_i hge
      simp only [Option.bind_eq_some_iff, Prod.exists]
      constructor
      · rintro ⟨r0, rest, h1, r1, rest', h2, h3⟩
        exact .inr (.inr ⟨op, tail, r0, rest, r1, rest', rfl, hge, h1, h2, h3⟩)
      · rintro (⟨h, _⟩ | ⟨op', tail', he, hlt, h⟩ | ⟨op', tail', r0, rest, r1, rest', he, _, h1, h2, h3⟩)
        · cases h
        · cases he; exact absurd hlt hge
        · cases he; exact ⟨r0, rest, h1, r1, rest', h2, h3⟩

/-! the same for the parser -/

theorem parse1_lparen (prec f rest) :
    parse1 prec (f+1) (.lparen :: rest) =
      (parse1 prec f rest).bind fun x => (parseBinOp prec f x.1 0 x.2).bind closeParen := by
  rw [parse1]
  cases parse1 prec f rest with
  | none => rfl
  | some x =>
    obtain ⟨l, rest1⟩ := x
    simp only [Option.bind_some]
    cases parseBinOp prec f l 0 rest1 with
    | none => rfl
    | some y =>
      obtain ⟨t, r2⟩ := y
      simp only [Option.bind_some, closeParen]
      split <;> simp_all

theorem parse1_some_iff {prec f toks r} :
    parse1 prec (f+1) toks = some r ↔
      (∃ n rest, toks = .num n :: rest ∧ r = (.leaf n, rest)) ∨
      (∃ rest l rest1 t rest2, toks = .lparen :: rest ∧ parse1 prec f rest = some (l, rest1) ∧
        parseBinOp prec f l 0 rest1 = some (t, .rparen :: rest2) ∧ r = (.paren t, rest2)) := by
  match toks with
  | [] => simp [parse1]
  | .num n :: rest =>
    simp only [parse1, Option.some.injEq, List.cons.injEq, Tok.num.injEq, reduceCtorEq, false_and, exists_false, or_false]
    constructor
    · intro h; exact ⟨n, rest, ⟨rfl, rfl⟩, h.symm⟩
    · rintro ⟨_, _, ⟨rfl, rfl⟩, h⟩; exact h.symm
  | .op o :: rest => simp [parse1]
  | .rparen :: rest => simp [parse1]
  | .lparen :: rest =>
    rw [parse1_lparen]
    simp only [Option.bind_eq_some_iff, closeParen_some_iff, reduceCtorEq, false_and, exists_false, false_or,
      List.cons.injEq, true_and, Prod.exists]
    constructor
    · rintro ⟨l, rest1, h1, t, r2, h2, rest2, he, hr⟩
      subst he
      exact ⟨rest, l, rest1, t, rest2, rfl, h1, h2, hr⟩
    · rintro ⟨rest', l, rest1, t, rest2, he, h1, h2, hr⟩
      subst he
      exact ⟨l, rest1, h1, t, _, h2, rest2, rfl, hr⟩

theorem parseBinOp_nop (prec f left mp toks) (h : peekOp toks = none) :
    parseBinOp prec (f+1) left mp toks = some (left, toks) := by
  rw [parseBinOp]; simp [h]

theorem parseBinOp_op (prec f left mp op tail) :
    parseBinOp prec (f+1) left mp (.op op :: tail) =
      if prec op < mp then some (left, .op op :: tail) else
      (parse1 prec f tail).bind fun x =>
        (inner prec f op x.1 x.2).bind fun y =>
          parseBinOp prec f (.node left op y.1) mp y.2 := by
  rw [parseBinOp]; simp only [peekOp, List.tail_cons]
  split
  · rfl
  · cases parse1 prec f tail with
    | none => rfl
    | some x =>
      simp only [Option.bind_some]
      cases inner prec f op x.1 x.2 with
      | none => rfl
      | some y => rfl

theorem parseBinOp_some_iff {prec f left mp toks r} :
    parseBinOp prec (f+1) left mp toks = some r ↔
      (peekOp toks = none ∧ r = (left, toks)) ∨
      (∃ op tail, toks = .op op :: tail ∧ prec op < mp ∧ r = (left, toks)) ∨
      (∃ op tail r0 rest r1 rest', toks = .op op :: tail ∧ ¬ prec op < mp ∧
        parse1 prec f tail = some (r0, rest) ∧
        inner prec f op r0 rest = some (r1, rest') ∧
        parseBinOp prec f (.node left op r1) mp rest' = some r) := by
  cases hp : peekOp toks with
  | none =>
    rw [parseBinOp_nop _ _ _ _ _ hp]
    constructor
    · intro h; cases h; exact .inl ⟨rfl, rfl⟩
    · rintro (⟨_, h⟩ | ⟨op, tail, he, _⟩ | ⟨op, tail, _, _, _, _, he, _⟩)
      · rw [h]
      · subst he; simp [peekOp] at hp
      · subst he; simp [peekOp] at hp
  | some op =>
    have ht := peekOp_some hp
    generalize toks.tail = tail at ht
    subst ht
    rw [parseBinOp_op]
    split
    · rename_i hlt
      constructor
      · intro h; cases h; exact .inr (.inl ⟨op, tail, rfl, hlt, rfl⟩)
      · rintro (⟨h, _⟩ | ⟨op', tail', he, _, h⟩ | ⟨op', tail', _, _, _, _, he, hge, _⟩)
        · cases h
        · rw [h]
        · cases he; exact absurd hlt hge
    · rename_i hge
      simp only [Option.bind_eq_some_iff, Prod.exists]
      constructor
      · rintro ⟨r0, rest, h1, r1, rest', h2, h3⟩
        exact .inr (.inr ⟨op, tail, r0, rest, r1, rest', rfl, hge, h1, h2, h3⟩)
      · rintro (⟨h, _⟩ | ⟨op', tail', he, hlt, h⟩ | ⟨op', tail', r0, rest, r1, rest', he, _, h1, h2, h3⟩)
        · cases h
        · cases he; exact absurd hlt hge
        · cases he; exact ⟨r0, rest, h1, r1, rest', h2, h3⟩

theorem inner_nop (prec f op right toks) (h : peekOp toks = none) :
    inner prec (f+1) op right toks = some (right, toks) := by
  rw [inner]; simp [h]

theorem inner_op (prec f op right rop tail) :
    inner prec (f+1) op right (.op rop :: tail) =
      if prec rop < prec op then some (right, .op rop :: tail) else
      (parseBinOp prec f right (if prec rop > prec op then prec op + 1 else prec op) (.op rop :: tail)).bind fun y =>
          inner prec f op y.1 y.2 := by
  rw [inner]; simp only [peekOp]
  split
  · rfl
  · cases parseBinOp prec f right (if prec rop > prec op then prec op + 1 else prec op) (.op rop :: tail) with
    | none => rfl
    | some x => rfl

theorem inner_some_iff {prec f op right toks r} :
    inner prec (f+1) op right toks = some r ↔
      (peekOp toks = none ∧ r = (right, toks)) ∨
      (∃ rop tail, toks = .op rop :: tail ∧ prec rop < prec op ∧ r = (right, toks)) ∨
      (∃ rop tail r1 rest', toks = .op rop :: tail ∧ ¬ prec rop < prec op ∧
        parseBinOp prec f right (if prec rop > prec op then prec op + 1 else prec op) toks = some (r1, rest') ∧
        inner prec f op r1 rest' = some r) := by
  cases hp : peekOp toks with
  | none =>
    rw [inner_nop _ _ _ _ _ hp]
    constructor
    · intro h; cases h; exact .inl ⟨rfl, rfl⟩
    · rintro (⟨_, h⟩ | ⟨op, tail, he, _⟩ | ⟨op, tail, _, _, he, _⟩)
      · rw [h]
      · subst he; simp [peekOp] at hp
      · subst he; simp [peekOp] at hp
  | some rop =>
    have ht := peekOp_some hp
    generalize toks.tail = tail at ht
    subst ht
    rw [inner_op]
    split
    · rename_i hlt
      constructor
      · intro h; cases h; exact .inr (.inl ⟨rop, tail, rfl, hlt, rfl⟩)
      · rintro (⟨h, _⟩ | ⟨op', tail', he, _, h⟩ | ⟨op', tail', _, _, he, hge, _⟩)
        · cases h
        · rw [h]
        · cases he; exact absurd hlt hge
    · rename_i hge
      simp only [Option.bind_eq_some_iff, Prod.exists]
      constructor
      · rintro ⟨r1, rest', h2, h3⟩
        exact .inr (.inr ⟨rop, tail, r1, rest', rfl, hge, h2, h3⟩)
      · rintro (⟨h, _⟩ | ⟨op', tail', he, hlt, h⟩ | ⟨op', tail', r1, rest', he, _, h2, h3⟩)
        · cases h
        · cases he; exact absurd hlt hge
        · cases he; exact ⟨r1, rest', h2, h3⟩


/-! ### fuel monotonicity -/

theorem spec_mono_succ (prec ra) : ∀ f,
    (∀ toks r, spec1 prec ra f toks = some r → spec1 prec ra (f+1) toks = some r) ∧
    (∀ left mp toks r, climb prec ra f left mp toks = some r → climb prec ra (f+1) left mp toks = some r) := by
  intro f
  induction f with
  | zero => simp [spec1, climb]
  | succ f ih =>
    obtain ⟨ih1, ih2⟩ := ih
    constructor
    · intro toks r h
      rw [spec1_some_iff] at h ⊢
      rcases h with h | ⟨rest, l, rest1, t, rest2, he, h1, h2, hr⟩
      · exact .inl h
      · exact .inr ⟨rest, l, rest1, t, rest2, he, ih1 _ _ h1, ih2 _ _ _ _ h2, hr⟩
    · intro left mp toks r h
      rw [climb_some_iff] at h ⊢
      rcases h with h | h | ⟨op, tail, r0, rest, r1, rest', he, hge, h1, h2, h3⟩
      · exact .inl h
      · exact .inr (.inl h)
      · exact .inr (.inr ⟨op, tail, r0, rest, r1, rest', he, hge, ih1 _ _ h1, ih2 _ _ _ _ h2, ih2 _ _ _ _ h3⟩)

theorem spec1_mono {prec ra f f' toks r} (hle : f ≤ f') (h : spec1 prec ra f toks = some r) :
    spec1 prec ra f' toks = some r := by
  induction hle with
  | refl => exact h
  | step _ ih => exact (spec_mono_succ prec ra _).1 _ _ ih

theorem climb_mono {prec ra f f' left mp toks r} (hle : f ≤ f') (h : climb prec ra f left mp toks = some r) :
    climb prec ra f' left mp toks = some r := by
  induction hle with
  | refl => exact h
  | step _ ih => exact (spec_mono_succ prec ra _).2 _ _ _ _ ih

theorem parser_mono_succ (prec) : ∀ f,
    (∀ toks r, parse1 prec f toks = some r → parse1 prec (f+1) toks = some r) ∧
    (∀ left mp toks r, parseBinOp prec f left mp toks = some r → parseBinOp prec (f+1) left mp toks = some r) ∧
    (∀ op right toks r, inner prec f op right toks = some r → inner prec (f+1) op right toks = some r) := by
  intro f
  induction f with
  | zero => simp [parse1, parseBinOp, inner]
  | succ f ih =>
    obtain ⟨ih1, ih2, ih3⟩ := ih
    refine ⟨?_, ?_, ?_⟩
    · intro toks r h
      rw [parse1_some_iff] at h ⊢
      rcases h with h | ⟨rest, l, rest1, t, rest2, he, h1, h2, hr⟩
      · exact .inl h
      · exact .inr ⟨rest, l, rest1, t, rest2, he, ih1 _ _ h1, ih2 _ _ _ _ h2, hr⟩
    · intro left mp toks r h
      rw [parseBinOp_some_iff] at h ⊢
      rcases h with h | h | ⟨op, tail, r0, rest, r1, rest', he, hge, h1, h2, h3⟩
      · exact .inl h
      · exact .inr (.inl h)
      · exact .inr (.inr ⟨op, tail, r0, rest, r1, rest', he, hge, ih1 _ _ h1, ih3 _ _ _ _ h2, ih2 _ _ _ _ h3⟩)
    · intro op right toks r h
      rw [inner_some_iff] at h ⊢
      rcases h with h | h | ⟨rop, tail, r1, rest', he, hge, h2, h3⟩
      · exact .inl h
      · exact .inr (.inl h)
      · exact .inr (.inr ⟨rop, tail, r1, rest', he, hge, ih2 _ _ _ _ h2, ih3 _ _ _ _ h3⟩)

theorem parse1_mono {prec f f' toks r} (hle : f ≤ f') (h : parse1 prec f toks = some r) :
    parse1 prec f' toks = some r := by
  induction hle with
  | refl => exact h
  | step _ ih => exact (parser_mono_succ prec _).1 _ _ ih

theorem parseBinOp_mono {prec f f' left mp toks r} (hle : f ≤ f') (h : parseBinOp prec f left mp toks = some r) :
    parseBinOp prec f' left mp toks = some r := by
  induction hle with
  | refl => exact h
  | step _ ih => exact (parser_mono_succ prec _).2.1 _ _ _ _ ih

theorem inner_mono {prec f f' op right toks r} (hle : f ≤ f') (h : inner prec f op right toks = some r) :
    inner prec f' op right toks = some r := by
  induction hle with
  | refl => exact h
  | step _ ih => exact (parser_mono_succ prec _).2.2 _ _ _ _ ih

/-! ### the remaining input is a suffix of the input -/

theorem spec_suffix (prec ra) : ∀ f,
    (∀ toks t rest, spec1 prec ra f toks = some (t, rest) → rest <:+ toks ∧ rest.length < toks.length) ∧
    (∀ left mp toks t rest, climb prec ra f left mp toks = some (t, rest) → rest <:+ toks) := by
  intro f
  induction f with
  | zero => simp [spec1, climb]
  | succ f ih =>
    obtain ⟨ih1, ih2⟩ := ih
    constructor
    · intro toks t rest' h
      rw [spec1_some_iff] at h
      rcases h with ⟨n, rest, he, hr⟩ | ⟨rest, l, rest1, t', rest2, he, h1, h2, hr⟩
      · cases hr; subst he; exact ⟨List.suffix_cons _ _, by simp⟩
      · cases hr; subst he
        have a := ih1 _ _ _ h1
        have b := ih2 _ _ _ _ _ h2
        have c : rest' <:+ (Tok.rparen :: rest') := List.suffix_cons _ _
        refine ⟨(c.trans b).trans (a.1.trans (List.suffix_cons _ _)), ?_⟩
        have := b.length_le
        simp only [List.length_cons] at this ⊢
        omega
    · intro left mp toks t rest'' h
      rw [climb_some_iff] at h
      rcases h with ⟨_, hr⟩ | ⟨_, _, _, _, hr⟩ | ⟨op, tail, r0, rest, r1, rest', he, hge, h1, h2, h3⟩
      · cases hr; exact List.suffix_refl _
      · cases hr; exact List.suffix_refl _
      · subst he
        have a := ih1 _ _ _ h1
        have b := ih2 _ _ _ _ _ h2
        have c := ih2 _ _ _ _ _ h3
        exact (c.trans b).trans (a.1.trans (List.suffix_cons _ _))

theorem spec1_suffix {prec ra f toks t rest} (h : spec1 prec ra f toks = some (t, rest)) : rest <:+ toks :=
  ((spec_suffix prec ra f).1 _ _ _ h).1
theorem spec1_length {prec ra f toks t rest} (h : spec1 prec ra f toks = some (t, rest)) : rest.length < toks.length :=
  ((spec_suffix prec ra f).1 _ _ _ h).2
theorem climb_suffix {prec ra f left mp toks t rest} (h : climb prec ra f left mp toks = some (t, rest)) : rest <:+ toks :=
  (spec_suffix prec ra f).2 _ _ _ _ _ h
theorem climb_length {prec ra f left mp toks t rest} (h : climb prec ra f left mp toks = some (t, rest)) :
    rest.length ≤ toks.length := (climb_suffix h).length_le


/-! ### structure of `climb`: postcondition, splitting and composing at a higher bound, fuel adequacy -/

/-- after `climb … minPrec`, the next token is not an operator of precedence ≥ minPrec -/
theorem climb_post (prec ra) : ∀ f left mp toks t rest, climb prec ra f left mp toks = some (t, rest) →
    ∀ o, peekOp rest = some o → prec o < mp := by
  intro f
  induction f with
  | zero => simp [climb]
  | succ f ih =>
    intro left mp toks t rest'' h o ho
    rw [climb_some_iff] at h
    rcases h with ⟨hp, hr⟩ | ⟨op, tail, he, hlt, hr⟩ | ⟨op, tail, r0, rest, r1, rest', he, hge, h1, h2, h3⟩
    · cases hr; rw [hp] at ho; cases ho
    · cases hr; subst he; simp [peekOp] at ho; subst ho; exact hlt
    · exact ih _ _ _ _ _ h3 o ho

/-- climbing with bound `p` = climbing with a higher bound `q`, then continuing with bound `p` (same fuel) -/
theorem climb_split (prec ra) : ∀ f X p q toks res, p ≤ q → climb prec ra f X p toks = some res →
    ∃ mid, climb prec ra f X q toks = some mid ∧ climb prec ra f mid.1 p mid.2 = some res := by
  intro f
  induction f with
  | zero => simp [climb]
  | succ f ih =>
    intro X p q toks res hpq h
    have h0 := h
    rw [climb_some_iff] at h
    rcases h with ⟨hp, hr⟩ | ⟨op, tail, he, hlt, hr⟩ | ⟨op, tail, r0, rest, r1, rest', he, hge, h1, h2, h3⟩
    · exact ⟨(X, toks), by rw [climb_nop _ _ _ _ _ _ hp], h0⟩
    · refine ⟨(X, toks), ?_, h0⟩
      rw [climb_some_iff]; exact .inr (.inl ⟨op, tail, he, by omega, rfl⟩)
    · by_cases hq : prec op < q
      · refine ⟨(X, toks), ?_, h0⟩
        rw [climb_some_iff]; exact .inr (.inl ⟨op, tail, he, hq, rfl⟩)
      · obtain ⟨mid, hm1, hm2⟩ := ih _ _ _ _ _ hpq h3
        refine ⟨mid, ?_, climb_mono (Nat.le_succ _) hm2⟩
        rw [climb_some_iff]; exact .inr (.inr ⟨op, tail, r0, rest, r1, rest', he, hq, h1, h2, hm1⟩)

/-- conversely: climbing with bound `q ≥ p` and then with bound `p` is climbing with bound `p` -/
theorem climb_compose (prec ra) : ∀ f1 f2 X p q toks mid res, p ≤ q → climb prec ra f1 X q toks = some mid →
    climb prec ra f2 mid.1 p mid.2 = some res → climb prec ra (f1 + f2) X p toks = some res := by
  intro f1
  induction f1 with
  | zero => simp [climb]
  | succ f ih =>
    intro f2 X p q toks mid res hpq h hres
    rw [climb_some_iff] at h
    rcases h with ⟨hp, hr⟩ | ⟨op, tail, he, hlt, hr⟩ | ⟨op, tail, r0, rest, r1, rest', he, hge, h1, h2, h3⟩
    · cases hr; exact climb_mono (by omega) hres
    · cases hr; exact climb_mono (by omega) hres
    · have := ih f2 _ _ _ _ _ _ hpq h3 hres
      rw [show f + 1 + f2 = (f + f2) + 1 by omega, climb_some_iff]
      exact .inr (.inr ⟨op, tail, r0, rest, r1, rest', he, by omega,
        spec1_mono (by omega) h1, climb_mono (by omega) h2, this⟩)

/-- fuel `length + 1` is always enough for the specification -/
theorem spec_adequate (prec ra) : ∀ f,
    (∀ toks r F, spec1 prec ra f toks = some r → toks.length + 1 ≤ F → spec1 prec ra F toks = some r) ∧
    (∀ left mp toks r F, climb prec ra f left mp toks = some r → toks.length + 1 ≤ F →
      climb prec ra F left mp toks = some r) := by
  intro f
  induction f with
  | zero => simp [spec1, climb]
  | succ f ih =>
    obtain ⟨ih1, ih2⟩ := ih
    constructor
    · intro toks r F h hF
      obtain ⟨F, rfl⟩ : ∃ F', F = F' + 1 := ⟨F - 1, by omega⟩
      rw [spec1_some_iff] at h ⊢
      rcases h with h | ⟨rest, l, rest1, t, rest2, he, h1, h2, hr⟩
      · exact .inl h
      · subst he
        have := spec1_length h1
        simp only [List.length_cons] at hF
        exact .inr ⟨rest, l, rest1, t, rest2, rfl, ih1 _ _ _ h1 (by omega), ih2 _ _ _ _ _ h2 (by omega), hr⟩
    · intro left mp toks r F h hF
      obtain ⟨F, rfl⟩ : ∃ F', F = F' + 1 := ⟨F - 1, by omega⟩
      rw [climb_some_iff] at h ⊢
      rcases h with h | h | ⟨op, tail, r0, rest, r1, rest', he, hge, h1, h2, h3⟩
      · exact .inl h
      · exact .inr (.inl h)
      · subst he
        have := spec1_length h1
        have := climb_length h2
        simp only [List.length_cons] at hF
        exact .inr (.inr ⟨op, tail, r0, rest, r1, rest', rfl, hge, ih1 _ _ _ h1 (by omega),
          ih2 _ _ _ _ _ h2 (by omega), ih2 _ _ _ _ _ h3 (by omega)⟩)

theorem spec1_adequate {prec ra f toks r F} (h : spec1 prec ra f toks = some r) (hF : toks.length + 1 ≤ F) :
    spec1 prec ra F toks = some r := (spec_adequate prec ra f).1 _ _ _ h hF
theorem climb_adequate {prec ra f left mp toks r F} (h : climb prec ra f left mp toks = some r)
    (hF : toks.length + 1 ≤ F) : climb prec ra F left mp toks = some r := (spec_adequate prec ra f).2 _ _ _ _ _ h hF


/-! ### the parser's nested loops are all-right-associative precedence climbing -/

theorem parser_refines_climb (prec) : ∀ f,
    (∀ toks r, parse1 prec f toks = some r → ∃ F, spec1 prec allRight F toks = some r) ∧
    (∀ left mp toks r, parseBinOp prec f left mp toks = some r → ∃ F, climb prec allRight F left mp toks = some r) ∧
    (∀ op right toks r, inner prec f op right toks = some r →
      ∃ F, climb prec allRight F right (prec op) toks = some r) := by
  intro f
  induction f with
  | zero => simp [parse1, parseBinOp, inner]
  | succ f ih =>
    obtain ⟨ih1, ih2, ih3⟩ := ih
    refine ⟨?_, ?_, ?_⟩
    · intro toks r h
      rw [parse1_some_iff] at h
      rcases h with h | ⟨rest, l, rest1, t, rest2, he, h1, h2, hr⟩
      · exact ⟨1, spec1_some_iff.2 (.inl h)⟩
      · obtain ⟨F1, g1⟩ := ih1 _ _ h1
        obtain ⟨F2, g2⟩ := ih2 _ _ _ _ h2
        exact ⟨F1 + F2 + 1, spec1_some_iff.2 (.inr ⟨rest, l, rest1, t, rest2, he,
          spec1_mono (by omega) g1, climb_mono (by omega) g2, hr⟩)⟩
    · intro left mp toks r h
      rw [parseBinOp_some_iff] at h
      rcases h with h | h | ⟨op, tail, r0, rest, r1, rest', he, hge, h1, h2, h3⟩
      · exact ⟨1, climb_some_iff.2 (.inl h)⟩
      · exact ⟨1, climb_some_iff.2 (.inr (.inl h))⟩
      · obtain ⟨F1, g1⟩ := ih1 _ _ h1
        obtain ⟨F2, g2⟩ := ih3 _ _ _ _ h2
        obtain ⟨F3, g3⟩ := ih2 _ _ _ _ h3
        refine ⟨F1 + F2 + F3 + 1, climb_some_iff.2 (.inr (.inr ⟨op, tail, r0, rest, r1, rest', he, hge,
          spec1_mono (by omega) g1, ?_, climb_mono (by omega) g3⟩))⟩
        simp only [allRight, if_true]
        exact climb_mono (by omega) g2
    · intro op right toks r h
      rw [inner_some_iff] at h
      rcases h with h | h | ⟨rop, tail, r1, rest', he, hge, h2, h3⟩
      · exact ⟨1, climb_some_iff.2 (.inl h)⟩
      · exact ⟨1, climb_some_iff.2 (.inr (.inl h))⟩
      · obtain ⟨F1, g1⟩ := ih2 _ _ _ _ h2
        obtain ⟨F2, g2⟩ := ih3 _ _ _ _ h3
        refine ⟨F1 + F2, climb_compose prec allRight F1 F2 _ _ _ _ (r1, rest') _ ?_ g1 g2⟩
        split <;> omega

/-- the parser's nested loops ARE all-right-associative precedence climbing (parser ⊑ spec), for every
token list and every precedence table; the fuel `length + 1` is enough for the specification -/
theorem parseBinOp_eq_climb (prec) : ∀ fuel left minPrec toks, (parseBinOp prec fuel left minPrec toks).isSome →
    ∃ fuel', climb prec allRight fuel' left minPrec toks = parseBinOp prec fuel left minPrec toks := by
  intro fuel left minPrec toks h
  obtain ⟨r, hr⟩ := Option.isSome_iff_exists.1 h
  obtain ⟨F, hF⟩ := (parser_refines_climb prec fuel).2.1 _ _ _ _ hr
  exact ⟨F, by rw [hF, hr]⟩

theorem parseBinOp_eq_climb_length (prec) (fuel left minPrec toks)
    (h : (parseBinOp prec fuel left minPrec toks).isSome) :
    climb prec allRight (toks.length + 1) left minPrec toks = parseBinOp prec fuel left minPrec toks := by
  obtain ⟨F, hF⟩ := parseBinOp_eq_climb prec fuel left minPrec toks h
  obtain ⟨r, hr⟩ := Option.isSome_iff_exists.1 h
  rw [hr] at hF ⊢
  exact climb_adequate hF (Nat.le_refl _)

theorem inner_eq_climb (prec) (fuel op right toks) (h : (inner prec fuel op right toks).isSome) :
    climb prec allRight (toks.length + 1) right (prec op) toks = inner prec fuel op right toks := by
  obtain ⟨r, hr⟩ := Option.isSome_iff_exists.1 h
  obtain ⟨F, hF⟩ := (parser_refines_climb prec fuel).2.2 _ _ _ _ hr
  rw [hr]
  exact climb_adequate hF (Nat.le_refl _)

theorem parse1_eq_spec1 (prec) (fuel toks) (h : (parse1 prec fuel toks).isSome) :
    spec1 prec allRight (toks.length + 1) toks = parse1 prec fuel toks := by
  obtain ⟨r, hr⟩ := Option.isSome_iff_exists.1 h
  obtain ⟨F, hF⟩ := (parser_refines_climb prec fuel).1 _ _ hr
  rw [hr]
  exact spec1_adequate hF (Nat.le_refl _)


/-! ### conversely: all-right-associative climbing is what the parser computes, with fuel `2·length + 2` -/

theorem climb_refines_parser (prec) : ∀ n toks F, toks.length < n → 2 * n ≤ F →
    (∀ f r, spec1 prec allRight f toks = some r → parse1 prec F toks = some r) ∧
    (∀ f left mp r, climb prec allRight f left mp toks = some r → parseBinOp prec F left mp toks = some r) ∧
    (∀ f op right r, climb prec allRight f right (prec op) toks = some r → inner prec F op right toks = some r) := by
  intro n
  induction n with
  | zero => intro toks F h; omega
  | succ n ih =>
    intro toks F hlen hF
    obtain ⟨F, rfl⟩ : ∃ F', F = F' + 1 := ⟨F - 1, by omega⟩
    refine ⟨?_, ?_, ?_⟩
    · intro f r h
      cases f with
      | zero => simp [spec1] at h
      | succ f =>
      rw [spec1_some_iff] at h
      rw [parse1_some_iff]
      rcases h with h | ⟨rest, l, rest1, t, rest2, he, h1, h2, hr⟩
      · exact .inl h
      · subst he
        simp only [List.length_cons] at hlen
        have := spec1_length h1
        exact .inr ⟨rest, l, rest1, t, rest2, rfl, (ih rest F (by omega) (by omega)).1 _ _ h1,
          (ih rest1 F (by omega) (by omega)).2.1 _ _ _ _ h2, hr⟩
    · intro f left mp r h
      cases f with
      | zero => simp [climb] at h
      | succ f =>
      rw [climb_some_iff] at h
      rw [parseBinOp_some_iff]
      rcases h with h | h | ⟨op, tail, r0, rest, r1, rest', he, hge, h1, h2, h3⟩
      · exact .inl h
      · exact .inr (.inl h)
      · subst he
        simp only [List.length_cons] at hlen
        simp only [allRight, if_true] at h2
        have := spec1_length h1
        have := climb_length h2
        exact .inr (.inr ⟨op, tail, r0, rest, r1, rest', rfl, hge, (ih tail F (by omega) (by omega)).1 _ _ h1,
          (ih rest F (by omega) (by omega)).2.2 _ _ _ _ h2, (ih rest' F (by omega) (by omega)).2.1 _ _ _ _ h3⟩)
    · intro f op right r h
      cases f with
      | zero => simp [climb] at h
      | succ f =>
      have h0 := h
      rw [climb_some_iff] at h
      rw [inner_some_iff]
      rcases h with h | h | ⟨rop, tail, _, _, _, _, he, hge, _, _, _⟩
      · exact .inl h
      · exact .inr (.inl h)
      · subst he
        simp only [List.length_cons] at hlen
        have hb : prec op ≤ (if prec rop > prec op then prec op + 1 else prec op) := by split <;> omega
        have hb' : ¬ prec rop < (if prec rop > prec op then prec op + 1 else prec op) := by split <;> omega
        obtain ⟨mid, hm1, hm2⟩ := climb_split prec allRight _ _ _ _ _ _ hb h0
        rw [climb_some_iff] at hm1
        rcases hm1 with ⟨hp, _⟩ | ⟨rop', tail', he, hlt, _⟩ | ⟨rop', tail', r0, rest, r1, rest', he, _, h1, h2, h3⟩
        · simp [peekOp] at hp
        · cases he; exact absurd hlt hb'
        · cases he
          simp only [allRight, if_true] at h2
          have := spec1_length h1
          have := climb_length h2
          have := climb_length h3
          obtain ⟨F, rfl⟩ : ∃ F', F = F' + 1 := ⟨F - 1, by omega⟩
          refine .inr (.inr ⟨rop, tail, mid.1, mid.2, rfl, hge, ?_, ?_⟩)
          · rw [parseBinOp_some_iff]
            exact .inr (.inr ⟨rop, tail, r0, rest, r1, rest', rfl, hb', (ih tail F (by omega) (by omega)).1 _ _ h1,
              (ih rest F (by omega) (by omega)).2.2 _ _ _ _ h2, (ih rest' F (by omega) (by omega)).2.1 _ _ _ _ h3⟩)
          · exact (ih mid.2 (F + 1) (by omega) (by omega)).2.2 _ _ _ _ hm2

/-- with the fuel used by `parseExpr` (or more), the two functions are EQUAL, on every input, for every precedence table -/
theorem parse1_eq_spec1_fuel (prec) (toks F) (hF : 2 * toks.length + 2 ≤ F) :
    parse1 prec F toks = spec1 prec allRight F toks := by
  cases h : spec1 prec allRight F toks with
  | some r => exact (climb_refines_parser prec (toks.length + 1) toks F (by omega) (by omega)).1 _ _ h
  | none =>
    cases h' : parse1 prec F toks with
    | none => rfl
    | some r =>
      have := parse1_eq_spec1 prec F toks (by rw [h']; rfl)
      rw [h'] at this
      rw [spec1_mono (by omega) this] at h
      cases h

theorem parseBinOp_eq_climb_fuel (prec) (left minPrec toks F) (hF : 2 * toks.length + 2 ≤ F) :
    parseBinOp prec F left minPrec toks = climb prec allRight F left minPrec toks := by
  cases h : climb prec allRight F left minPrec toks with
  | some r => exact (climb_refines_parser prec (toks.length + 1) toks F (by omega) (by omega)).2.1 _ _ _ _ h
  | none =>
    cases h' : parseBinOp prec F left minPrec toks with
    | none => rfl
    | some r =>
      have := parseBinOp_eq_climb_length prec F left minPrec toks (by rw [h']; rfl)
      rw [h'] at this
      rw [climb_mono (by omega) this] at h
      cases h

/-- unbounded: on EVERY token list (any length, any nesting of parentheses, ill-formed input included) and for EVERY
precedence table, the parser returns exactly the all-right-associative precedence-climbing tree -/
theorem parseExpr_eq_specExpr_allRight (prec) (toks : List Tok) :
    parseExpr prec toks = specExpr prec allRight toks := by
  unfold parseExpr specExpr
  rw [parse1_eq_spec1_fuel prec toks _ (Nat.le_refl _)]
  cases h : spec1 prec allRight (2 * toks.length + 2) toks with
  | none => rfl
  | some x =>
    obtain ⟨l, rest⟩ := x
    have := spec1_length h
    simp only
    rw [parseBinOp_eq_climb_fuel prec l 0 rest _ (by omega)]


/-! ### dependence on the associativity table -/

/-- the operators occurring in a token list (inside parentheses too), in order -/
def opsOf (toks : List Tok) : List BinOp :=
  toks.filterMap fun t => match t with | .op o => some o | _ => none

theorem opsOf_append (a b : List Tok) : opsOf (a ++ b) = opsOf a ++ opsOf b := by
  simp [opsOf, List.filterMap_append]

@[simp] theorem opsOf_op_cons (o : BinOp) (l : List Tok) : opsOf (.op o :: l) = o :: opsOf l := by
  simp [opsOf]

theorem mem_opsOf_of_suffix {rest toks : List Tok} (h : rest <:+ toks) {o} (ho : o ∈ opsOf rest) : o ∈ opsOf toks := by
  obtain ⟨pre, rfl⟩ := h
  rw [opsOf_append]; exact List.mem_append_right _ ho

/-- the bound of `climb` matters only through operators of exactly that precedence -/
theorem climb_bound_irrelevant (prec ra) (p : Nat) : ∀ f X toks, (∀ o ∈ opsOf toks, prec o ≠ p) →
    climb prec ra f X p toks = climb prec ra f X (p + 1) toks := by
  intro f
  induction f with
  | zero => intros; simp [climb]
  | succ f ih =>
    intro X toks hno
    cases hp : peekOp toks with
    | none => rw [climb_nop _ _ _ _ _ _ hp, climb_nop _ _ _ _ _ _ hp]
    | some op =>
      have ht := peekOp_some hp
      generalize toks.tail = tail at ht
      subst ht
      have hne : prec op ≠ p := hno op (by simp)
      rw [climb_op, climb_op]
      by_cases hlt : prec op < p
      · rw [if_pos hlt, if_pos (show prec op < p + 1 by omega)]
      · rw [if_neg hlt, if_neg (show ¬ prec op < p + 1 by omega)]
        cases h1 : spec1 prec ra f tail with
        | none => rfl
        | some x =>
          simp only [Option.bind_some]
          cases h2 : climb prec ra f x.1 (if ra op then prec op else prec op + 1) x.2 with
          | none => rfl
          | some y =>
            simp only [Option.bind_some]
            apply ih
            intro o ho
            have s1 : x.2 <:+ tail := spec1_suffix (t := x.1) h1
            have s2 : y.2 <:+ x.2 := climb_suffix (t := y.1) h2
            exact hno o (mem_opsOf_of_suffix ((s2.trans s1).trans (List.suffix_cons _ _)) ho)

/-- the two associativity tables agree on every operator occurrence that is followed (anywhere later in the token
list) by an operator of the same precedence -/
def AgreeWhereItMatters (prec : BinOp → Nat) (ra1 ra2 : BinOp → Bool) (toks : List Tok) : Prop :=
  ∀ pre o post, toks = pre ++ .op o :: post → ra1 o = ra2 o ∨ ∀ o' ∈ opsOf post, prec o' ≠ prec o

theorem AgreeWhereItMatters.suffix {prec ra1 ra2 toks rest} (h : AgreeWhereItMatters prec ra1 ra2 toks)
    (hs : rest <:+ toks) : AgreeWhereItMatters prec ra1 ra2 rest := by
  obtain ⟨s, rfl⟩ := hs
  intro pre o post he
  exact h (s ++ pre) o post (by rw [he, List.append_assoc])

theorem spec_ra_irrelevant (prec) (ra1 ra2 : BinOp → Bool) : ∀ f,
    (∀ toks, AgreeWhereItMatters prec ra1 ra2 toks → spec1 prec ra1 f toks = spec1 prec ra2 f toks) ∧
    (∀ left mp toks, AgreeWhereItMatters prec ra1 ra2 toks →
      climb prec ra1 f left mp toks = climb prec ra2 f left mp toks) := by
  intro f
  induction f with
  | zero => simp [spec1, climb]
  | succ f ih =>
    obtain ⟨ih1, ih2⟩ := ih
    constructor
    · intro toks H
      match toks, H with
      | [], _ => simp [spec1]
      | .num n :: rest, _ => simp [spec1]
      | .op o :: rest, _ => simp [spec1]
      | .rparen :: rest, _ => simp [spec1]
      | .lparen :: rest, H =>
        rw [spec1_lparen, spec1_lparen, ih1 rest (H.suffix (List.suffix_cons _ _))]
        cases h1 : spec1 prec ra2 f rest with
        | none => rfl
        | some x =>
          simp only [Option.bind_some]
          have s1 : x.2 <:+ rest := spec1_suffix (t := x.1) h1
          rw [ih2 _ _ _ (H.suffix (s1.trans (List.suffix_cons _ _)))]
    · intro left mp toks H
      cases hp : peekOp toks with
      | none => rw [climb_nop _ _ _ _ _ _ hp, climb_nop _ _ _ _ _ _ hp]
      | some op =>
        have ht := peekOp_some hp
        generalize toks.tail = tail at ht
        subst ht
        rw [climb_op, climb_op, ih1 tail (H.suffix (List.suffix_cons _ _))]
        split
        · rfl
        · cases h1 : spec1 prec ra2 f tail with
          | none => rfl
          | some x =>
            simp only [Option.bind_some]
            have s1 : x.2 <:+ tail := spec1_suffix (t := x.1) h1
            have key : climb prec ra1 f x.1 (if ra1 op then prec op else prec op + 1) x.2 =
                climb prec ra2 f x.1 (if ra2 op then prec op else prec op + 1) x.2 := by
              rw [ih2 _ _ _ (H.suffix (s1.trans (List.suffix_cons _ _)))]
              rcases H [] op tail rfl with hra | hno
              · rw [hra]
              · have := climb_bound_irrelevant prec ra2 (prec op) f x.1 x.2
                  (fun o ho => hno o (mem_opsOf_of_suffix s1 ho))
                cases ra1 op <;> cases ra2 op <;> simp [this]
            rw [key]
            cases h2 : climb prec ra2 f x.1 (if ra2 op then prec op else prec op + 1) x.2 with
            | none => rfl
            | some y =>
              simp only [Option.bind_some]
              have s2 : y.2 <:+ x.2 := climb_suffix (t := y.1) h2
              exact ih2 _ _ _ (H.suffix ((s2.trans s1).trans (List.suffix_cons _ _)))

/-- precedence climbing depends on the associativity table only through operator occurrences that are followed by
an operator of the same precedence -/
theorem climb_ra_irrelevant (prec) (ra1 ra2 : BinOp → Bool) (toks : List Tok)
    (h : AgreeWhereItMatters prec ra1 ra2 toks) (fuel left minPrec) :
    climb prec ra1 fuel left minPrec toks = climb prec ra2 fuel left minPrec toks ∧
    spec1 prec ra1 fuel toks = spec1 prec ra2 fuel toks :=
  ⟨(spec_ra_irrelevant prec ra1 ra2 fuel).2 _ _ _ h, (spec_ra_irrelevant prec ra1 ra2 fuel).1 _ h⟩

theorem specExpr_ra_irrelevant (prec) (ra1 ra2 : BinOp → Bool) (toks : List Tok)
    (h : AgreeWhereItMatters prec ra1 ra2 toks) : specExpr prec ra1 toks = specExpr prec ra2 toks := by
  unfold specExpr
  rw [(climb_ra_irrelevant prec ra1 ra2 toks h _ (.leaf 0) 0).2]
  cases h1 : spec1 prec ra2 (2 * toks.length + 2) toks with
  | none => rfl
  | some x =>
    obtain ⟨l, rest⟩ := x
    simp only
    rw [(climb_ra_irrelevant prec ra1 ra2 rest (h.suffix (spec1_suffix h1)) _ l 0).1]

theorem agreeWhereItMatters_of_forall {prec ra1 ra2 toks} (h : ∀ o ∈ opsOf toks, ra1 o = ra2 o) :
    AgreeWhereItMatters prec ra1 ra2 toks := by
  intro pre o post he
  left
  apply h
  rw [he, opsOf_append]
  simp

theorem climb_congr (prec) (ra1 ra2 : BinOp → Bool) (toks : List Tok) (h : ∀ o ∈ opsOf toks, ra1 o = ra2 o)
    (fuel left minPrec) : climb prec ra1 fuel left minPrec toks = climb prec ra2 fuel left minPrec toks :=
  (climb_ra_irrelevant prec ra1 ra2 toks (agreeWhereItMatters_of_forall h) fuel left minPrec).1

theorem spec1_congr (prec) (ra1 ra2 : BinOp → Bool) (toks : List Tok) (h : ∀ o ∈ opsOf toks, ra1 o = ra2 o)
    (fuel) : spec1 prec ra1 fuel toks = spec1 prec ra2 fuel toks :=
  (climb_ra_irrelevant prec ra1 ra2 toks (agreeWhereItMatters_of_forall h) fuel (.leaf 0) 0).2

theorem opsOf_cons_of_not_op {t : Tok} (l : List Tok) (h : ∀ o, t ≠ .op o) : opsOf (t :: l) = opsOf l := by
  cases t <;> simp [opsOf] at h ⊢

/-- decidable characterisation of `AgreeWhereItMatters` on the list of operators -/
theorem agreeWhereItMatters_iff_pairwise {prec ra1 ra2 toks} :
    AgreeWhereItMatters prec ra1 ra2 toks ↔
      (opsOf toks).Pairwise fun o o' => prec o = prec o' → ra1 o = ra2 o := by
  constructor
  · intro H
    induction toks with
    | nil => exact List.Pairwise.nil
    | cons t rest ih =>
      have ihr := ih (H.suffix (List.suffix_cons _ _))
      by_cases ht : ∃ o, t = .op o
      · obtain ⟨o, rfl⟩ := ht
        rw [opsOf_op_cons, List.pairwise_cons]
        refine ⟨fun o' ho' heq => ?_, ihr⟩
        rcases H [] o rest rfl with h | h
        · exact h
        · exact absurd heq.symm (h o' ho')
      · rw [opsOf_cons_of_not_op _ (fun o ho => ht ⟨o, ho⟩)]; exact ihr
  · intro h pre o post he
    rw [he, opsOf_append, opsOf_op_cons] at h
    have h3 := (List.pairwise_cons.1 (List.pairwise_append.1 h).2.1).1
    by_cases hra : ra1 o = ra2 o
    · exact .inl hra
    · exact .inr fun o' ho' heq => hra (h3 o' ho' heq.symm)


end BinOpParser.C13
