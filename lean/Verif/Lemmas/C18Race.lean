/-! Conflict freedom of the fork–join section that opens the container logs.  Accesses made by the
concurrently running bodies are (goroutine, location, write?); `slot i` is element `i` of the array the
bodies fill, `frozen` any location nobody writes between fork and join.  Under the discipline read off
the source (Gen/GoWrites.lean) — a body writes only its own slot and touches no other body's slot — no
two accesses of different bodies conflict, which is the Go memory model's definition of data-race
freedom for a section whose other accesses are ordered before the fork or after the join. -/
namespace C18Race

inductive Loc where
  | slot (i : Nat)
  | frozen (name : String)
  deriving DecidableEq, Repr

structure Access where
  g : Nat
  loc : Loc
  write : Bool
  deriving Repr

/-- two accesses conflict: different goroutines, same location, at least one write -/
def conflict (a b : Access) : Prop := a.g ≠ b.g ∧ a.loc = b.loc ∧ (a.write = true ∨ b.write = true)

/-- goroutine `g` writes only slot `g`, and the only slot it touches at all is its own -/
def Disciplined (a : Access) : Prop :=
  (a.write = true → a.loc = .slot a.g) ∧ (∀ i, a.loc = .slot i → i = a.g)

theorem no_conflict (accs : List Access) (h : ∀ a ∈ accs, Disciplined a) :
    ∀ a ∈ accs, ∀ b ∈ accs, ¬ conflict a b := by
  intro a ha b hb ⟨hg, hl, hw⟩
  obtain ⟨hwa, hsa⟩ := h a ha
  obtain ⟨hwb, hsb⟩ := h b hb
  rcases hw with hw | hw
  · have e := hwa hw
    have := hsb a.g (by rw [← hl]; exact e)
    exact hg this
  · have e := hwb hw
    have := hsa b.g (by rw [hl]; exact e)
    exact hg this.symm

/-- the final array does not depend on the interleaving: executing the writes `(g, v)` (goroutine `g`
stores `v` in slot `g`, each goroutine at most once) in any order gives the same array -/
def store (arr : Nat → Option α) (w : Nat × α) : Nat → Option α := fun i => if i = w.1 then some w.2 else arr i

theorem store_comm {α} (arr : Nat → Option α) (w1 w2 : Nat × α) (h : w1.1 ≠ w2.1) :
    store (store arr w1) w2 = store (store arr w2) w1 := by
  funext i
  simp only [store]
  by_cases h1 : i = w1.1
  · by_cases h2 : i = w2.1
    · exact absurd (h1.symm.trans h2) h
    · simp [h1, h]
  · by_cases h2 : i = w2.1
    · simp [h2, Ne.symm h]
    · simp [h1, h2]

theorem foldl_store_perm {α} (ws1 ws2 : List (Nat × α)) (hp : ws1.Perm ws2)
    (hd : ws1.Pairwise (fun a b => a.1 ≠ b.1)) (arr : Nat → Option α) :
    ws1.foldl store arr = ws2.foldl store arr := by
  induction hp generalizing arr with
  | nil => rfl
  | cons x _ ih =>
    simp only [List.foldl_cons]
    exact ih (List.Pairwise.of_cons hd) _
  | swap x y l =>
    simp only [List.foldl_cons]
    have hxy : y.1 ≠ x.1 := (List.pairwise_cons.mp hd).1 x (List.mem_cons_self)
    rw [store_comm arr y x hxy]
  | trans h1 _ ih1 ih2 =>
    rw [ih1 hd arr]
    exact ih2 (hd.perm h1 (fun hab => Ne.symm hab)) arr

example : Disciplined ⟨2, .slot 2, true⟩ ∧ Disciplined ⟨1, .frozen "ctx", false⟩ := by
  constructor
  · exact ⟨fun _ => rfl, fun i h => by cases h; rfl⟩
  · refine ⟨fun h => ?_, fun i h => ?_⟩
    · cases h
    · cases h

end C18Race
