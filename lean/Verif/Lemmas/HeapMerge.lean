import Verif.Model.HeapMerge
import Verif.Lemmas.Merge

/-! Correctness of the heap-based k-way merge (`HeapMerge.merge`, the operational model of
`dockerlog.mergeIter` over `container/heap`) against the relational specification `Merge.Run`. -/
namespace HeapMerge
open Merge

/-! ### keys, `swap`, `less` -/

/-- timestamp at position `i` (0 out of range) -/
def key (h : Heap) (i : Nat) : Nat :=
  match h[i]? with
  | some a => a.head.ts
  | none => 0

theorem key_congr {h h' : Heap} {i k : Nat} (e : h'[k]? = h[i]?) : key h' k = key h i := by
  simp only [key, e]

theorem key_of_getElem? {h : Heap} {i : Nat} {a : Elem} (e : h[i]? = some a) : key h i = a.head.ts := by
  simp only [key, e]

theorem swap_length (h : Heap) (i j : Nat) : (swap h i j).length = h.length := by
  unfold swap
  split <;> simp

theorem swap_getElem? (h : Heap) (i j k : Nat) (hi : i < h.length) (hj : j < h.length) :
    (swap h i j)[k]? = if k = j then h[i]? else if k = i then h[j]? else h[k]? := by
  unfold swap
  rw [List.getElem?_eq_getElem hi, List.getElem?_eq_getElem hj]
  simp only [List.getElem?_set, List.length_set]
  grind

theorem swap_getElem?_other (h : Heap) (i j k : Nat) (hi : k ≠ i) (hj : k ≠ j) :
    (swap h i j)[k]? = h[k]? := by
  unfold swap
  split
  · simp only [List.getElem?_set]
    grind
  · rfl

theorem swap_key (h : Heap) (i j k : Nat) (hi : i < h.length) (hj : j < h.length) :
    key (swap h i j) k = if k = j then key h i else if k = i then key h j else key h k := by
  simp only [key, swap_getElem? h i j k hi hj]
  grind

theorem less_eq (h : Heap) (i j : Nat) (hi : i < h.length) (hj : j < h.length) :
    less h i j = decide (key h i < key h j) := by
  unfold less key
  rw [List.getElem?_eq_getElem hi, List.getElem?_eq_getElem hj]

/-! ### `swap`, `up`, `down` permute the array -/

theorem set_perm_aux {α} (t : List α) (j : Nat) (a b : α) (hj : t[j]? = some b) :
    (b :: t.set j a).Perm (a :: t) := by
  induction t generalizing j with
  | nil => simp at hj
  | cons y t ih =>
    cases j with
    | zero =>
      simp only [List.getElem?_cons_zero, Option.some.injEq] at hj
      subst hj
      simp only [List.set_cons_zero]
      exact List.Perm.swap _ _ _
    | succ j =>
      simp only [List.getElem?_cons_succ] at hj
      simp only [List.set_cons_succ]
      exact (List.Perm.swap y b _).trans (((ih j hj).cons y).trans (List.Perm.swap a y _))

theorem set_set_perm {α} (h : List α) (i j : Nat) (a b : α) (hi : h[i]? = some a) (hj : h[j]? = some b) :
    ((h.set i b).set j a).Perm h := by
  induction h generalizing i j with
  | nil => simp at hi
  | cons x t ih =>
    cases i with
    | zero =>
      simp only [List.getElem?_cons_zero, Option.some.injEq] at hi
      subst hi
      cases j with
      | zero =>
        simp only [List.set_cons_zero]
        exact List.Perm.refl _
      | succ j =>
        simp only [List.getElem?_cons_succ] at hj
        simp only [List.set_cons_zero, List.set_cons_succ]
        exact set_perm_aux t j x b hj
    | succ i =>
      simp only [List.getElem?_cons_succ] at hi
      cases j with
      | zero =>
        simp only [List.getElem?_cons_zero, Option.some.injEq] at hj
        subst hj
        simp only [List.set_cons_zero, List.set_cons_succ]
        exact set_perm_aux t i x a hi
      | succ j =>
        simp only [List.getElem?_cons_succ] at hj
        simp only [List.set_cons_succ]
        exact (ih i j hi hj).cons x

theorem swap_perm (h : Heap) (i j : Nat) : (swap h i j).Perm h := by
  unfold swap
  split
  · next a b ha hb => exact set_set_perm h i j a b ha hb
  · exact List.Perm.refl _

theorem up_perm (fuel : Nat) (h : Heap) (j : Nat) : (up fuel h j).Perm h := by
  induction fuel generalizing h j with
  | zero => exact List.Perm.refl _
  | succ fuel ih =>
    unfold up
    simp only
    split
    · exact List.Perm.refl _
    · exact (ih _ _).trans (swap_perm _ _ _)

/-- the child `down` compares with: the smaller of the (one or two) children below `n` -/
def child (h : Heap) (i n : Nat) : Nat :=
  if 2 * i + 1 + 1 < n && less h (2 * i + 1 + 1) (2 * i + 1) then 2 * i + 1 + 1 else 2 * i + 1

theorem down_succ (fuel : Nat) (h : Heap) (i n : Nat) :
    down (fuel + 1) h i n =
      if 2 * i + 1 ≥ n then h
      else if !less h (child h i n) i then h
      else down fuel (swap h i (child h i n)) (child h i n) n := rfl

theorem child_cases (h : Heap) (i n : Nat) :
    (child h i n = 2 * i + 1 ∧ ¬ (2 * i + 2 < n ∧ less h (2 * i + 2) (2 * i + 1) = true)) ∨
    (child h i n = 2 * i + 2 ∧ 2 * i + 2 < n ∧ less h (2 * i + 2) (2 * i + 1) = true) := by
  unfold child
  split
  · next hc =>
    simp only [Bool.and_eq_true, decide_eq_true_eq] at hc
    exact Or.inr ⟨rfl, hc⟩
  · next hc =>
    simp only [Bool.and_eq_true, decide_eq_true_eq] at hc
    exact Or.inl ⟨rfl, hc⟩

theorem down_perm (fuel : Nat) (h : Heap) (i n : Nat) : (down fuel h i n).Perm h := by
  induction fuel generalizing h i with
  | zero => exact List.Perm.refl _
  | succ fuel ih =>
    rw [down_succ]
    split
    · exact List.Perm.refl _
    · split
      · exact List.Perm.refl _
      · exact (ih _ _).trans (swap_perm _ _ _)

/-- `down … n` only touches positions below `n` -/
theorem down_getElem?_ge (fuel : Nat) (h : Heap) (i n k : Nat) (hk : n ≤ k) :
    (down fuel h i n)[k]? = h[k]? := by
  induction fuel generalizing h i with
  | zero => rfl
  | succ fuel ih =>
    rw [down_succ]
    split
    · rfl
    · split
      · rfl
      · rw [ih]
        apply swap_getElem?_other
        · omega
        · rcases child_cases h i n with ⟨hc, _⟩ | ⟨hc, _, _⟩ <;> omega

/-! ### the heap invariant -/

/-- parent ≤ child on the first `n` positions -/
def HeapUpTo (h : Heap) (n : Nat) : Prop := ∀ i, 0 < i → i < n → key h ((i - 1) / 2) ≤ key h i

/-- the binary-heap invariant: every parent is not later than its children -/
def IsHeap (h : Heap) : Prop := HeapUpTo h h.length

theorem root_min_key {h : Heap} {n : Nat} (hh : HeapUpTo h n) : ∀ i, i < n → key h 0 ≤ key h i := by
  intro i
  induction i using Nat.strongRecOn with
  | _ i ih =>
    intro hi
    by_cases h0 : i = 0
    · subst h0; exact Nat.le_refl _
    · have h1 := hh i (by omega) hi
      have h2 := ih ((i - 1) / 2) (by omega) (by omega)
      omega

/-- the root of a heap is a minimum -/
theorem root_min {h : Heap} (hh : IsHeap h) {r e : Elem} (hr : h[0]? = some r) (he : e ∈ h) :
    r.head.ts ≤ e.head.ts := by
  obtain ⟨i, hi, hie⟩ := List.getElem_of_mem he
  have := root_min_key hh i hi
  rw [key_of_getElem? hr, key_of_getElem? (by rw [List.getElem?_eq_getElem hi, hie])] at this
  exact this

theorem key_eq_getElem (h : Heap) (i : Nat) (hi : i < h.length) : key h i = h[i].head.ts :=
  key_of_getElem? (List.getElem?_eq_getElem hi)

/-- `IsHeap` in plain terms: every parent is not later than its child -/
theorem isHeap_iff (h : Heap) :
    IsHeap h ↔ ∀ i (_ : 0 < i) (hi : i < h.length), (h[(i - 1) / 2]'(by omega)).head.ts ≤ h[i].head.ts := by
  constructor
  · intro hh i h0 hi
    have := hh i h0 hi
    rwa [key_eq_getElem h i hi, key_eq_getElem h _ (by omega)] at this
  · intro hh i h0 hi
    rw [key_eq_getElem h i hi, key_eq_getElem h _ (by omega)]
    exact hh i h0 hi

/-! ### `up` restores the invariant -/

/-- the invariant holds except on the edge into `j`, and the children of `j` are not earlier than
the parent of `j` -/
def UpInv (h : Heap) (j : Nat) : Prop :=
  (∀ i, 0 < i → i < h.length → i ≠ j → key h ((i - 1) / 2) ≤ key h i) ∧
  (∀ c, 0 < c → c < h.length → (c - 1) / 2 = j → 0 < j → key h ((j - 1) / 2) ≤ key h c)

theorem up_heap (fuel : Nat) (h : Heap) (j : Nat) (hj : j < h.length) (hf : j < fuel)
    (inv : UpInv h j) : IsHeap (up fuel h j) := by
  induction fuel generalizing h j with
  | zero => omega
  | succ fuel ih =>
    unfold up
    simp only
    split
    · next hc =>
      simp only [Bool.or_eq_true, decide_eq_true_eq, Bool.not_eq_true'] at hc
      intro i hi0 hil
      by_cases hij : i = j
      · subst hij
        rcases hc with (hc | hc) | hc
        · omega
        · omega
        · rw [less_eq h i _ hil (by omega)] at hc
          simp only [decide_eq_false_iff_not] at hc
          omega
      · exact inv.1 i hi0 hil hij
    · next hc =>
      simp only [Bool.or_eq_true, decide_eq_true_eq, Bool.not_eq_true', not_or] at hc
      obtain ⟨⟨hj0, hpj⟩, hl⟩ := hc
      have hp : (j - 1) / 2 < h.length := by omega
      rw [less_eq h j _ hj hp] at hl
      simp only [Bool.not_eq_false, decide_eq_true_eq] at hl
      apply ih
      · rw [swap_length]; exact hp
      · omega
      · obtain ⟨inv1, inv2⟩ := inv
        constructor
        · intro m hm0 hml hmi
          rw [swap_length] at hml
          rw [swap_key h _ _ _ hp hj, swap_key h _ _ _ hp hj]
          have a1 := inv1 m hm0 hml
          have a2 := inv2 m hm0 hml
          clear ih inv1 inv2
          grind
        · intro c hc0 hcl hcp hi0
          rw [swap_length] at hcl
          rw [swap_key h _ _ _ hp hj, swap_key h _ _ _ hp hj]
          have a1 := inv1 c hc0 hcl
          have a2 := inv1 ((j - 1) / 2) hi0 hp
          clear ih inv1 inv2
          grind

theorem key_append_left (h : Heap) (e : Elem) (i : Nat) (hi : i < h.length) :
    key (h ++ [e]) i = key h i := by
  apply key_congr
  exact List.getElem?_append_left hi

theorem push_perm (h : Heap) (e : Elem) : (push h e).Perm (e :: h) := by
  unfold push
  exact (up_perm _ _ _).trans (List.perm_append_comm)

/-- `heap.Push` preserves the heap invariant -/
theorem push_heap (h : Heap) (e : Elem) (hh : IsHeap h) : IsHeap (push h e) := by
  unfold push
  simp only
  apply up_heap
  · simp
  · simp
  · constructor
    · intro i hi0 hil hij
      simp only [List.length_append, List.length_cons, List.length_nil] at hil hij
      rw [key_append_left h e i (by omega), key_append_left h e _ (by omega)]
      exact hh i hi0 (by omega)
    · intro c hc0 hcl hcp hj0
      simp only [List.length_append, List.length_cons, List.length_nil] at hcl hcp
      omega

/-! ### `down` restores the invariant -/

/-- `child h i n` is a child of `i` below `n` with the smallest key among the children below `n` -/
theorem child_spec (h : Heap) (i n : Nat) (hn : n ≤ h.length) (h1 : 2 * i + 1 < n) :
    child h i n < n ∧ (child h i n - 1) / 2 = i ∧ i < child h i n ∧
    ∀ m, 0 < m → m < n → (m - 1) / 2 = i → key h (child h i n) ≤ key h m := by
  rcases child_cases h i n with ⟨hc, hl⟩ | ⟨hc, h2, hl⟩
  · rw [hc]
    refine ⟨h1, by omega, by omega, ?_⟩
    intro m hm0 hmn hmp
    by_cases hm : m = 2 * i + 1
    · subst hm; exact Nat.le_refl _
    · have hm2 : m = 2 * i + 2 := by omega
      subst hm2
      have : less h (2 * i + 2) (2 * i + 1) = false := by
        cases hb : less h (2 * i + 2) (2 * i + 1) with
        | false => rfl
        | true => exact absurd ⟨hmn, hb⟩ hl
      rw [less_eq h _ _ (by omega) (by omega)] at this
      simp only [decide_eq_false_iff_not] at this
      omega
  · rw [hc]
    refine ⟨h2, by omega, by omega, ?_⟩
    intro m hm0 hmn hmp
    rw [less_eq h _ _ (by omega) (by omega)] at hl
    simp only [decide_eq_true_eq] at hl
    by_cases hm : m = 2 * i + 1
    · subst hm; omega
    · have hm2 : m = 2 * i + 2 := by omega
      subst hm2; exact Nat.le_refl _

/-- the invariant holds below `n` except on the edges out of `i`, and the children of `i` are not
earlier than the parent of `i` -/
def DownInv (h : Heap) (i n : Nat) : Prop :=
  (∀ m, 0 < m → m < n → (m - 1) / 2 ≠ i → key h ((m - 1) / 2) ≤ key h m) ∧
  (∀ c, 0 < c → c < n → (c - 1) / 2 = i → 0 < i → key h ((i - 1) / 2) ≤ key h c)

theorem down_heap (fuel : Nat) (h : Heap) (i n : Nat) (hn : n ≤ h.length) (hf : n ≤ fuel + i)
    (inv : DownInv h i n) : HeapUpTo (down fuel h i n) n := by
  induction fuel generalizing h i with
  | zero =>
    intro m hm0 hmn
    exact inv.1 m hm0 hmn (by omega)
  | succ fuel ih =>
    rw [down_succ]
    split
    · intro m hm0 hmn
      exact inv.1 m hm0 hmn (by omega)
    · next h1 =>
      obtain ⟨hcn, hcp, hic, hmin⟩ := child_spec h i n hn (by omega)
      generalize child h i n = c at *
      have hcl : c < h.length := by omega
      have hil : i < h.length := by omega
      split
      · next hl =>
        rw [less_eq h c i hcl hil] at hl
        simp only [Bool.not_eq_true', decide_eq_false_iff_not] at hl
        intro m hm0 hmn
        by_cases hmp : (m - 1) / 2 = i
        · have := hmin m hm0 hmn hmp
          rw [hmp]; omega
        · exact inv.1 m hm0 hmn hmp
      · next hl =>
        rw [less_eq h c i hcl hil] at hl
        simp only [Bool.not_eq_true', decide_eq_false_iff_not, Nat.not_lt, Nat.not_le] at hl
        apply ih
        · rw [swap_length]; exact hn
        · omega
        · obtain ⟨inv1, inv2⟩ := inv
          constructor
          · intro m hm0 hmn hmp
            rw [swap_key h _ _ _ hil hcl, swap_key h _ _ _ hil hcl]
            have a1 := inv1 m hm0 hmn
            have a2 := inv2 m hm0 hmn
            have a3 := inv2 c (by omega) hcn hcp
            have a4 := hmin m hm0 hmn
            clear ih inv1 inv2 hmin
            grind
          · intro d hd0 hdn hdp hc0
            rw [swap_key h _ _ _ hil hcl, swap_key h _ _ _ hil hcl]
            have a1 := inv1 d hd0 hdn
            clear ih inv1 inv2 hmin
            grind

/-! ### `pop` -/

theorem down_length (fuel : Nat) (h : Heap) (i n : Nat) : (down fuel h i n).length = h.length :=
  (down_perm fuel h i n).length_eq

theorem heapUpTo_take {h : Heap} {n : Nat} (hh : HeapUpTo h n) (hn : n ≤ h.length) : IsHeap (h.take n) := by
  intro i hi0 hil
  simp only [List.length_take] at hil
  have hin : i < n := by omega
  have e1 : key (h.take n) i = key h i := key_congr (by rw [List.getElem?_take]; simp [hin])
  have e2 : key (h.take n) ((i - 1) / 2) = key h ((i - 1) / 2) :=
    key_congr (by rw [List.getElem?_take]; simp [show (i - 1) / 2 < n by omega])
  rw [e1, e2]
  exact hh i hi0 hin

/-- `heap.Pop` on a non-empty heap returns a minimum and leaves a heap of the other elements -/
theorem pop_spec (h : Heap) (hh : IsHeap h) (hne : h ≠ []) :
    ∃ e h', pop h = some (e, h') ∧ (∀ x ∈ h, e.head.ts ≤ x.head.ts) ∧ (e :: h').Perm h ∧ IsHeap h' := by
  cases h with
  | nil => exact absurd rfl hne
  | cons x t =>
    unfold pop
    simp only
    generalize hH : x :: t = H at *
    have hlen : 0 < H.length := by rw [← hH]; simp
    have h0 : H[0]? = some x := by rw [← hH]; rfl
    generalize hN : H.length - 1 = n
    have hnl : n < H.length := by omega
    have hget : (down (n + 1) (swap H 0 n) 0 n)[n]? = some x := by
      rw [down_getElem?_ge _ _ _ _ _ (Nat.le_refl _), swap_getElem? H 0 n n hlen hnl]
      simp [h0]
    have hl2 : (down (n + 1) (swap H 0 n) 0 n).length = n + 1 := by
      rw [down_length, swap_length]; omega
    have hheap : HeapUpTo (down (n + 1) (swap H 0 n) 0 n) n := by
      apply down_heap
      · rw [swap_length]; omega
      · omega
      · constructor
        · intro m hm0 hmn hmp
          rw [swap_key H _ _ _ hlen hnl, swap_key H _ _ _ hlen hnl]
          have := hh m hm0 (by omega)
          have hm1 : (m - 1) / 2 ≠ n := by omega
          have hm2 : m ≠ n := by omega
          have hm3 : m ≠ 0 := by omega
          simp only [hm1, hm2, hm3, hmp, if_false]
          exact this
        · intro c _ _ _ h00
          omega
    have hperm : (down (n + 1) (swap H 0 n) 0 n).Perm H :=
      (down_perm _ _ _ _).trans (swap_perm _ _ _)
    rw [hget]
    generalize down (n + 1) (swap H 0 n) 0 n = h2 at *
    refine ⟨x, h2.take n, rfl, ?_, ?_, ?_⟩
    · intro y hy
      exact root_min hh h0 hy
    · have e : h2 = h2.take n ++ [x] := by
        have := List.take_add_one (l := h2) (i := n)
        rw [hget, List.take_of_length_le (by omega)] at this
        simpa using this
      refine List.Perm.trans ?_ hperm
      rw (occs := .pos [2]) [e]
      exact (List.perm_append_comm (l₁ := [x]) (l₂ := h2.take n))
    · exact heapUpTo_take hheap (by omega)

/-! ### `Run` does not depend on the order of the sources -/

theorem run_of_perm {srcs srcs' : List (List Rec)} {out : List Rec} (h : Run srcs out)
    (hp : srcs.Perm srcs') : Run srcs' out := by
  induction h generalizing srcs' with
  | done hall => exact .done (fun s hs => hall s (hp.mem_iff.mpr hs))
  | step pre r rest post heq hmin _ ih =>
    subst heq
    have hmem : (r :: rest) ∈ srcs' := hp.mem_iff.mp (by simp)
    obtain ⟨pre', post', e⟩ := List.append_of_mem hmem
    subst e
    have h1 : (pre ++ post).Perm (pre' ++ post') :=
      List.Perm.cons_inv ((List.perm_middle.symm.trans hp).trans List.perm_middle)
    have h2 : (pre ++ rest :: post).Perm (pre' ++ rest :: post') :=
      (List.perm_middle.trans (h1.cons rest)).trans List.perm_middle.symm
    exact .step pre' r rest post' rfl (fun s hs => hmin s (hp.mem_iff.mpr hs)) (ih h2)

/-! ### `drain` is a run -/

/-- the source a heap element stands for -/
def src (e : Elem) : List Rec := e.head :: e.tail

/-- number of records still to be emitted -/
def total (h : Heap) : Nat := (h.map src).flatten.length

theorem total_perm {h h' : Heap} (hp : h.Perm h') : total h = total h' :=
  ((hp.map src).flatten).length_eq

theorem total_cons (e : Elem) (h : Heap) : total (e :: h) = 1 + e.tail.length + total h := by
  simp only [total, List.map_cons, List.flatten_cons, List.length_append, src, List.length_cons]
  omega

theorem drain_run (fuel : Nat) (h : Heap) (k : Nat) (hh : IsHeap h) (hf : total h < fuel) :
    Run (List.replicate k [] ++ h.map src) (drain fuel h) := by
  induction fuel generalizing h k with
  | zero => omega
  | succ fuel ih =>
    by_cases hne : h = []
    · subst hne
      simp only [drain, pop]
      refine .done ?_
      intro s hs
      simp only [List.map_nil, List.append_nil] at hs
      exact List.eq_of_mem_replicate hs
    · obtain ⟨e, h', hpop, hmin, hperm, hheap'⟩ := pop_spec h hh hne
      unfold drain
      rw [hpop]
      simp only
      have hp1 : (List.replicate k [] ++ src e :: h'.map src).Perm (List.replicate k [] ++ h.map src) :=
        List.Perm.append_left _ (hperm.map src)
      have htot : total h = 1 + e.tail.length + total h' := by
        rw [← total_perm hperm, total_cons]
      have hmin' : ∀ s ∈ List.replicate k [] ++ src e :: h'.map src, ∀ x ∈ s.head?, e.head.ts ≤ x.ts := by
        intro s hs x hx
        simp only [List.mem_append, List.mem_cons, List.mem_map] at hs
        rcases hs with hs | rfl | ⟨y, hy, rfl⟩
        · rw [List.eq_of_mem_replicate hs] at hx
          simp at hx
        · simp only [src, List.head?_cons, Option.mem_def, Option.some.injEq] at hx
          subst hx; exact Nat.le_refl _
        · simp only [src, List.head?_cons, Option.mem_def, Option.some.injEq] at hx
          subst hx
          exact hmin y (hperm.mem_iff.mp (List.mem_cons_of_mem _ hy))
      split
      · next ht =>
        refine run_of_perm (.step (List.replicate k []) e.head e.tail (h'.map src) rfl hmin' ?_) hp1
        have := ih h' (k + 1) hheap' (by omega)
        rw [List.replicate_succ', List.append_assoc] at this
        rw [ht]
        exact this
      · next r rest ht =>
        refine run_of_perm (.step (List.replicate k []) e.head e.tail (h'.map src) rfl hmin' ?_) hp1
        have hpp := push_perm h' ⟨r, rest⟩
        have := ih (push h' ⟨r, rest⟩) k (push_heap _ _ hheap') (by
          rw [total_perm hpp, total_cons]
          simp only [ht, List.length_cons] at htot
          simp only
          omega)
        rw [ht]
        exact run_of_perm this (List.Perm.append_left _ (hpp.map src))

/-! ### `init` and the main theorem -/

/-- one step of `init` -/
def initStep (h : Heap) (s : List Rec) : Heap :=
  match s with
  | [] => h
  | r :: rest => push h ⟨r, rest⟩

theorem init_eq (srcs : List (List Rec)) : init srcs = srcs.foldl initStep [] := rfl

theorem init_fold (srcs : List (List Rec)) (h0 : Heap) (hh : IsHeap h0) :
    IsHeap (srcs.foldl initStep h0) ∧
    ∃ k, (h0.map src ++ srcs).Perm (List.replicate k [] ++ (srcs.foldl initStep h0).map src) := by
  induction srcs generalizing h0 with
  | nil => exact ⟨hh, 0, by simp⟩
  | cons s t ih =>
    cases s with
    | nil =>
      obtain ⟨h1, k, hp⟩ := ih h0 hh
      refine ⟨h1, k + 1, ?_⟩
      simp only [List.foldl_cons, initStep]
      rw [List.replicate_succ, List.cons_append]
      exact List.perm_middle.trans (hp.cons [])
    | cons r rest =>
      obtain ⟨h1, k, hp⟩ := ih (push h0 ⟨r, rest⟩) (push_heap _ _ hh)
      refine ⟨h1, k, ?_⟩
      simp only [List.foldl_cons, initStep]
      refine List.Perm.trans ?_ hp
      have hpp := ((push_perm h0 ⟨r, rest⟩).map src).symm
      exact List.perm_middle.trans (hpp.append_right t)

theorem isHeap_nil : IsHeap [] := by
  intro i _ hi
  simp at hi

theorem init_heap (srcs : List (List Rec)) : IsHeap (init srcs) :=
  (init_fold srcs [] isHeap_nil).1

theorem init_perm (srcs : List (List Rec)) :
    ∃ k, srcs.Perm (List.replicate k [] ++ (init srcs).map src) := by
  obtain ⟨k, hp⟩ := (init_fold srcs [] isHeap_nil).2
  exact ⟨k, by rw [init_eq]; simpa using hp⟩

/-- the heap-based merge is a run of the specification: it emits, at every step, a head of minimal
timestamp, and ends when every source is exhausted -/
theorem merge_is_run (srcs : List (List Merge.Rec)) : Merge.Run srcs (HeapMerge.merge srcs) := by
  obtain ⟨k, hp⟩ := init_perm srcs
  unfold merge
  refine run_of_perm (drain_run _ (init srcs) k (init_heap srcs) ?_) hp.symm
  have := hp.flatten.length_eq
  simp only [List.flatten_append, List.length_append, List.flatten_replicate_nil, List.length_nil,
    Nat.zero_add] at this
  unfold total
  omega

theorem merge_perm (srcs : List (List Merge.Rec)) : (HeapMerge.merge srcs).Perm srcs.flatten :=
  Merge.run_perm (merge_is_run srcs)

theorem merge_sorted (srcs : List (List Merge.Rec)) (hs : ∀ s ∈ srcs, Merge.SortedTs s) :
    Merge.SortedTs (HeapMerge.merge srcs) :=
  Merge.run_sorted (merge_is_run srcs) hs

/-! ### non-vacuity -/

example : HeapMerge.merge [[⟨1,0,0⟩, ⟨5,0,1⟩], [⟨10,1,0⟩], [⟨3,2,0⟩]]
    = [⟨1,0,0⟩, ⟨3,2,0⟩, ⟨5,0,1⟩, ⟨10,1,0⟩] := by decide +kernel

example : Merge.Run [[⟨1,0,0⟩, ⟨5,0,1⟩], [⟨10,1,0⟩], [⟨3,2,0⟩]]
    [⟨1,0,0⟩, ⟨3,2,0⟩, ⟨5,0,1⟩, ⟨10,1,0⟩] := by
  have := merge_is_run [[⟨1,0,0⟩, ⟨5,0,1⟩], [⟨10,1,0⟩], [⟨3,2,0⟩]]
  rwa [show HeapMerge.merge [[⟨1,0,0⟩, ⟨5,0,1⟩], [⟨10,1,0⟩], [⟨3,2,0⟩]]
    = [⟨1,0,0⟩, ⟨3,2,0⟩, ⟨5,0,1⟩, ⟨10,1,0⟩] by decide +kernel] at this

/-- `merge_sorted`'s hypothesis holds on a concrete input with ties and an empty source -/
example : ∀ s ∈ ([[⟨1,0,0⟩, ⟨5,0,1⟩, ⟨5,0,2⟩], [], [⟨10,1,0⟩], [⟨3,2,0⟩, ⟨5,2,1⟩]] : List (List Merge.Rec)),
    Merge.SortedTs s := by
  intro s hs
  simp only [List.mem_cons, List.not_mem_nil, or_false] at hs
  rcases hs with rfl | rfl | rfl | rfl <;> simp [Merge.SortedTs]

end HeapMerge
