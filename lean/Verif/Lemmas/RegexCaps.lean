import Verif.Env.RegexCaps
import Verif.Lemmas.RegexSem
/-! Soundness of the captures reported by the executable matcher `Regex.m` / `Regex.submatch`:
every reported span of group `i ≥ 1` is a match (`Regex.Matches`) of the body of a group numbered `i`
on exactly those bytes of the subject, and group 0 is a match of the whole expression. -/
namespace RegexCaps
open Regex RegexSem

/-! ## slices -/

theorem slice_mid (pre mid rest : List Nat) :
    slice (pre ++ mid ++ rest) pre.length (pre.length + mid.length) = mid := by
  unfold slice
  rw [List.append_assoc, List.drop_left, Nat.add_sub_cancel_left, List.take_left]

theorem drop_mid (pre mid rest : List Nat) :
    (pre ++ mid ++ rest).drop (pre.length + mid.length) = rest := by
  rw [← List.length_append, List.drop_left]

/-! ## monotonicity of `GoodCap` in the expression -/

theorem GoodCap_of_subset {r r' : Re} {whole : List Nat} {e : Nat × Nat × Nat}
    (hsub : ∀ x ∈ subGroups r, x ∈ subGroups r') (h : GoodCap r whole e) : GoodCap r' whole e := by
  obtain ⟨body, hb, h1, h2, h3⟩ := h
  exact ⟨body, hsub _ hb, h1, h2, h3⟩

theorem GoodCap_seqL {a b : Re} {whole e} (h : GoodCap a whole e) : GoodCap (.seq a b) whole e :=
  GoodCap_of_subset (fun _ hx => by simp only [subGroups]; exact List.mem_append_left _ hx) h

theorem GoodCap_seqR {a b : Re} {whole e} (h : GoodCap b whole e) : GoodCap (.seq a b) whole e :=
  GoodCap_of_subset (fun _ hx => by simp only [subGroups]; exact List.mem_append_right _ hx) h

theorem GoodCap_altL {a b : Re} {whole e} (h : GoodCap a whole e) : GoodCap (.alt a b) whole e :=
  GoodCap_of_subset (fun _ hx => by simp only [subGroups]; exact List.mem_append_left _ hx) h

theorem GoodCap_altR {a b : Re} {whole e} (h : GoodCap b whole e) : GoodCap (.alt a b) whole e :=
  GoodCap_of_subset (fun _ hx => by simp only [subGroups]; exact List.mem_append_right _ hx) h

theorem GoodCap_star {r : Re} {whole e} (h : GoodCap r whole e) : GoodCap (.star r) whole e :=
  GoodCap_of_subset (fun _ hx => by simp only [subGroups]; exact hx) h

theorem GoodCap_opt {r : Re} {whole e} (h : GoodCap r whole e) : GoodCap (.opt r) whole e :=
  GoodCap_of_subset (fun _ hx => by simp only [subGroups]; exact hx) h

theorem GoodCap_plus {r : Re} {whole e} (h : GoodCap r whole e) : GoodCap (.plus r) whole e :=
  GoodCap_of_subset (fun _ hx => by simp only [subGroups]; exact hx) h

theorem GoodCap_grp {i : Nat} {r : Re} {whole e} (h : GoodCap r whole e) : GoodCap (.grp i r) whole e :=
  GoodCap_of_subset (fun _ hx => by simp only [subGroups]; exact List.mem_cons_of_mem _ hx) h

theorem GoodCap_plus_of_seq_star {r : Re} {whole e} (h : GoodCap (.seq r (.star r)) whole e) :
    GoodCap (.plus r) whole e :=
  GoodCap_of_subset (fun _ hx => by
    simp only [subGroups, List.mem_append, or_self] at hx ⊢; exact hx) h

/-! ## the matcher core -/

/-- the combined invariant: a success of `m` on the suffix `s` at offset `|pre|` of `whole` exhibits a
split `s = mid ++ rest` with `mid` matched by `r`, the continuation was entered right after `mid` with
captures that are the old ones plus justified captures of groups of `r` -/
theorem m_inv (whole : List Nat) (fuel : Nat) (r : Re) (pre : List Nat) (pos : Nat) (s : List Nat)
    (caps : Caps) (k : Nat → List Nat → Caps → Option Caps) (out : Caps)
    (hw : whole = pre ++ s) (hp : pos = pre.length)
    (h : m fuel r pos s caps k = some out) :
    ∃ mid rest caps', s = mid ++ rest ∧ Matches r pos mid rest ∧
      k (pos + mid.length) rest caps' = some out ∧ ∀ e ∈ caps', e ∈ caps ∨ GoodCap r whole e := by
  induction fuel generalizing r pre pos s caps k out with
  | zero => rw [m_zero] at h; cases h
  | succ f ih =>
    cases r with
    | chr c =>
      rw [m_chr] at h
      cases s with
      | nil => cases h
      | cons x t =>
        simp only at h
        split at h
        · rename_i hx; subst hx
          exact ⟨[x], t, caps, rfl, Matches.chr _ _ _, h, fun e he => Or.inl he⟩
        · cases h
    | cls neg rs =>
      rw [m_cls] at h
      cases s with
      | nil => cases h
      | cons x t =>
        simp only at h
        split at h
        · rename_i hx
          exact ⟨[x], t, caps, rfl, Matches.cls _ _ _ _ _ hx, h, fun e he => Or.inl he⟩
        · cases h
    | any =>
      rw [m_any] at h
      cases s with
      | nil => cases h
      | cons x t =>
        simp only at h
        split at h
        · rename_i hx
          exact ⟨[x], t, caps, rfl, Matches.any _ _ _ hx, h, fun e he => Or.inl he⟩
        · cases h
    | eps =>
      rw [m_eps] at h
      exact ⟨[], s, caps, rfl, Matches.eps _ _, h, fun e he => Or.inl he⟩
    | seq a b =>
      rw [m_seq] at h
      obtain ⟨mid1, rest1, c1, hs1, hm1, hk1, hc1⟩ := ih _ pre _ _ _ _ _ hw hp h
      have hw2 : whole = (pre ++ mid1) ++ rest1 := by rw [hw, hs1, List.append_assoc]
      have hp2 : pos + mid1.length = (pre ++ mid1).length := by rw [List.length_append, hp]
      obtain ⟨mid2, rest2, c2, hs2, hm2, hk2, hc2⟩ := ih _ (pre ++ mid1) _ _ _ _ _ hw2 hp2 hk1
      subst hs2
      refine ⟨mid1 ++ mid2, rest2, c2, ?_, Matches.seq hm1 hm2, ?_, ?_⟩
      · rw [hs1, List.append_assoc]
      · rw [List.length_append, ← Nat.add_assoc]; exact hk2
      · intro e he
        rcases hc2 e he with h1 | h1
        · rcases hc1 e h1 with h2 | h2
          · exact Or.inl h2
          · exact Or.inr (GoodCap_seqL h2)
        · exact Or.inr (GoodCap_seqR h1)
    | alt a b =>
      rw [m_alt] at h
      cases h1 : m f a pos s caps k with
      | some c =>
        rw [h1] at h
        obtain ⟨mid, rest, c', hs, hm, hk, hc⟩ := ih _ pre _ _ _ _ _ hw hp h1
        cases h
        exact ⟨mid, rest, c', hs, Matches.altL hm, hk,
          fun e he => (hc e he).imp id GoodCap_altL⟩
      | none =>
        rw [h1] at h
        obtain ⟨mid, rest, c', hs, hm, hk, hc⟩ := ih _ pre _ _ _ _ _ hw hp h
        exact ⟨mid, rest, c', hs, Matches.altR hm, hk,
          fun e he => (hc e he).imp id GoodCap_altR⟩
    | star r1 =>
      rw [m_star] at h
      cases h1 : m f r1 pos s caps (fun p s' c => if p > pos then m f (.star r1) p s' c k else none) with
      | some c =>
        rw [h1] at h
        cases h
        obtain ⟨mid1, rest1, c1, hs1, hm1, hk1, hc1⟩ := ih _ pre _ _ _ _ _ hw hp h1
        split at hk1
        · have hw2 : whole = (pre ++ mid1) ++ rest1 := by rw [hw, hs1, List.append_assoc]
          have hp2 : pos + mid1.length = (pre ++ mid1).length := by rw [List.length_append, hp]
          obtain ⟨mid2, rest2, c2, hs2, hm2, hk2, hc2⟩ := ih _ (pre ++ mid1) _ _ _ _ _ hw2 hp2 hk1
          subst hs2
          refine ⟨mid1 ++ mid2, rest2, c2, ?_, Matches.starCons hm1 hm2, ?_, ?_⟩
          · rw [hs1, List.append_assoc]
          · rw [List.length_append, ← Nat.add_assoc]; exact hk2
          · intro e he
            rcases hc2 e he with h2 | h2
            · rcases hc1 e h2 with h3 | h3
              · exact Or.inl h3
              · exact Or.inr (GoodCap_star h3)
            · exact Or.inr h2
        · cases hk1
      | none =>
        rw [h1] at h
        exact ⟨[], s, caps, rfl, Matches.starNil _ _ _, h, fun e he => Or.inl he⟩
    | plus r1 =>
      rw [m_plus] at h
      obtain ⟨mid, rest, c', hs, hm, hk, hc⟩ := ih _ pre _ _ _ _ _ hw hp h
      cases hm with
      | seq ha hb =>
        exact ⟨_, rest, c', hs, Matches.plus ha hb, hk,
          fun e he => (hc e he).imp id GoodCap_plus_of_seq_star⟩
    | opt r1 =>
      rw [m_opt] at h
      cases h1 : m f r1 pos s caps k with
      | some c =>
        rw [h1] at h
        obtain ⟨mid, rest, c', hs, hm, hk, hc⟩ := ih _ pre _ _ _ _ _ hw hp h1
        cases h
        exact ⟨mid, rest, c', hs, Matches.optSome hm, hk,
          fun e he => (hc e he).imp id GoodCap_opt⟩
      | none =>
        rw [h1] at h
        exact ⟨[], s, caps, rfl, Matches.optNone _ _ _, h, fun e he => Or.inl he⟩
    | grp i r1 =>
      rw [m_grp] at h
      obtain ⟨mid, rest, c', hs, hm, hk, hc⟩ := ih _ pre _ _ _ _ _ hw hp h
      refine ⟨mid, rest, (i, pos, pos + mid.length) :: c', hs, Matches.grp hm, hk, ?_⟩
      intro e he
      rcases List.mem_cons.mp he with he | he
      · right
        subst he
        have hw' : whole = pre ++ mid ++ rest := by rw [hw, hs, List.append_assoc]
        refine ⟨r1, List.mem_cons_self, Nat.le_add_right _ _, ?_, ?_⟩
        · show pos + mid.length ≤ whole.length
          rw [hw', hp]; simp only [List.length_append]; omega
        · show Matches r1 pos (slice whole pos (pos + mid.length)) (whole.drop (pos + mid.length))
          rw [hw', hp, slice_mid, drop_mid, ← hp]
          exact hm
      · exact (hc e he).imp id GoodCap_grp
    | bol =>
      rw [m_bol] at h
      split at h
      · rename_i hp0; subst hp0
        exact ⟨[], s, caps, rfl, Matches.bol _, h, fun e he => Or.inl he⟩
      · cases h
    | eol =>
      rw [m_eol] at h
      split at h
      · rename_i hp0
        have hs : s = [] := List.isEmpty_iff.mp hp0
        subst hs
        exact ⟨[], [], caps, rfl, Matches.eol _, h, fun e he => Or.inl he⟩
      · cases h

/-- position-aware form: the continuation only has to be controlled at consistent positions -/
theorem m_caps_sound' (whole pre : List Nat) (fuel : Nat) (r : Re) (s : List Nat) (caps : Caps)
    (k : Nat → List Nat → Caps → Option Caps) (out : Caps) (Q : Nat × Nat × Nat → Prop)
    (hw : whole = pre ++ s)
    (hk : ∀ pre' s' c o, whole = pre' ++ s' → k pre'.length s' c = some o → ∀ e ∈ o, e ∈ c ∨ Q e)
    (h : m fuel r pre.length s caps k = some out) :
    ∀ e ∈ out, e ∈ caps ∨ Q e ∨ GoodCap r whole e := by
  obtain ⟨mid, rest, c', hs, _, hk', hc⟩ := m_inv whole fuel r pre _ s caps k out hw rfl h
  have hw2 : whole = (pre ++ mid) ++ rest := by rw [hw, hs, List.append_assoc]
  rw [← List.length_append] at hk'
  intro e he
  rcases hk (pre ++ mid) rest c' out hw2 hk' e he with h1 | h1
  · rcases hc e h1 with h2 | h2
    · exact Or.inl h2
    · exact Or.inr (Or.inr h2)
  · exact Or.inr (Or.inl h1)

/-- every capture in the result of the matcher core was either already there, or was produced by the
continuation, or is justified by a group of `r` -/
theorem m_caps_sound (whole pre : List Nat) (fuel : Nat) (r : Re) (s : List Nat) (caps : Caps)
    (k : Nat → List Nat → Caps → Option Caps) (out : Caps) (Q : Nat × Nat × Nat → Prop)
    (hw : whole = pre ++ s)
    (hk : ∀ p s' c o, k p s' c = some o → ∀ e ∈ o, e ∈ c ∨ Q e)
    (h : m fuel r pre.length s caps k = some out) :
    ∀ e ∈ out, e ∈ caps ∨ Q e ∨ GoodCap r whole e :=
  m_caps_sound' whole pre fuel r s caps k out Q hw (fun pre' s' c o _ => hk pre'.length s' c o) h

/-! ## `searchFrom` and `submatch` -/

/-- the captures `searchFrom` returns: the group-0 entry `(0, a, b)` and justified captures of `r` -/
theorem searchFrom_caps (whole : List Nat) (r : Re) (fuel n : Nat) (pre t : List Nat) (pos : Nat)
    (a b : Nat) (caps : Caps) (hw : whole = pre ++ t) (hp : pos = pre.length)
    (h : searchFrom r fuel n t pos = some (a, b, caps)) :
    ∀ e ∈ caps, e = (0, a, b) ∨ GoodCap r whole e := by
  induction n generalizing pre t pos with
  | zero => simp only [searchFrom] at h; cases h
  | succ n ih =>
    simp only [searchFrom] at h
    cases h1 : m fuel r pos t [] (fun p _ c => some ((0, pos, p) :: c)) with
    | some out =>
      rw [h1] at h
      obtain ⟨mid, rest, c', hs, hm, hk, hc⟩ := m_inv whole _ _ pre _ _ _ _ _ hw hp h1
      simp only [Option.some.injEq] at hk
      subst hk
      simp only [List.find?_cons_of_pos, BEq.rfl, Option.some.injEq, Prod.mk.injEq] at h
      obtain ⟨ha, hb, hcaps⟩ := h
      subst ha hb hcaps
      intro e he
      rcases List.mem_cons.mp he with he | he
      · exact Or.inl he
      · rcases hc e he with h2 | h2
        · cases h2
        · exact Or.inr h2
    | none =>
      rw [h1] at h
      cases t with
      | nil => cases h
      | cons x t' =>
        simp only at h
        exact ih (pre ++ [x]) t' (pos + 1) (by rw [hw]; simp) (by rw [hp]; simp) h

/-- the spans `submatch` reports: group 0 is a match of the whole expression, every other reported span
is a match of the body of a group with that number -/
theorem submatch_sound (r : Re) (n : Nat) (s : List Nat) (spans : List (Option (Nat × Nat)))
    (h : submatch r n s = some spans) :
    spans.length = n + 1 ∧
    (∃ a b, spans[0]? = some (some (a, b)) ∧ a ≤ b ∧ b ≤ s.length ∧
      Matches r a (slice s a b) (s.drop b)) ∧
    (∀ i x y, spans[i + 1]? = some (some (x, y)) → GoodCap r s (i + 1, x, y)) := by
  unfold submatch at h
  cases h1 : searchFrom r (fuelFor r s) (s.length + 1) s 0 with
  | none => rw [h1] at h; cases h
  | some res =>
    obtain ⟨a, b, caps⟩ := res
    rw [h1] at h
    simp only [Option.some.injEq] at h
    subst h
    refine ⟨by simp, ?_, ?_⟩
    · obtain ⟨pre, mid, post, hs, hm, ha, hb⟩ := searchFrom_span r s a b caps h1
      refine ⟨a, b, by simp, by omega, ?_, ?_⟩
      · rw [hs, hb, ha]; simp only [List.length_append]; omega
      · rw [hb, ha, hs, slice_mid, drop_mid, ← ha]; exact hm
    · intro i x y hi
      simp only [List.getElem?_cons_succ, List.getElem?_map] at hi
      cases hr : (List.range n)[i]? with
      | none => rw [hr] at hi; cases hi
      | some j =>
        rw [hr] at hi
        have hj : j = i := by
          rcases Nat.lt_or_ge i n with hlt | hge
          · rw [List.getElem?_range hlt] at hr; cases hr; rfl
          · rw [List.getElem?_eq_none (by simpa using hge)] at hr; cases hr
        subst hj
        simp only [Option.map_some, Option.some.injEq] at hi
        cases hf : caps.find? (fun e => e.1 == j + 1) with
        | none => rw [hf] at hi; cases hi
        | some e =>
          rw [hf] at hi
          simp only [Option.map_some, Option.some.injEq, Prod.mk.injEq] at hi
          have hmem : e ∈ caps := List.mem_of_find?_eq_some hf
          have he1 : e.1 = j + 1 := by
            have := List.find?_some hf
            simpa using this
          obtain ⟨e1, e2, e3⟩ := e
          simp only at he1 hi
          obtain ⟨hx, hy⟩ := hi
          subst he1 hx hy
          rcases searchFrom_caps s r _ _ [] s 0 a b caps rfl rfl h1 _ hmem with h2 | h2
          · simp only [Prod.mk.injEq] at h2; omega
          · exact h2

/-- `submatch` fails exactly when the subject contains no match -/
theorem submatch_none_iff (r : Re) (n : Nat) (s : List Nat) : submatch r n s = none ↔ ¬ Contains r s := by
  rw [← search_iff]
  unfold submatch search
  cases h1 : searchFrom r (fuelFor r s) (s.length + 1) s 0 with
  | none => simp
  | some res => obtain ⟨a, b, caps⟩ := res; simp

/-! ## non-vacuity -/

/-- `(a+)(b*)` -/
def exRe : Re := .seq (.grp 1 (.plus (.chr 97))) (.grp 2 (.star (.chr 98)))

/-- `(a+)(b*)` on `xaab` -/
theorem ex_submatch : submatch exRe 2 [120, 97, 97, 98] = some [some (1, 4), some (1, 3), some (3, 4)] := by
  decide

/-- the capture of group 1 built by hand -/
example : GoodCap exRe [120, 97, 97, 98] (1, 1, 3) :=
  ⟨.plus (.chr 97), by simp [exRe, subGroups], by decide, by decide,
    Matches.plus (s1 := [97]) (s2 := [97]) (Matches.chr 97 _ _)
      (Matches.starCons (s1 := [97]) (s2 := []) (Matches.chr 97 _ _) (Matches.starNil _ _ _))⟩

/-- and obtained from the theorem -/
example : GoodCap exRe [120, 97, 97, 98] (2, 3, 4) :=
  (submatch_sound _ _ _ _ ex_submatch).2.2 1 3 4 rfl

/-- instance of the hypotheses of `m_caps_sound` / `m_inv` -/
example : m 6 (.grp 1 (.chr 97)) [120].length [97] [] (fun p _ c => some ((0, 1, p) :: c))
    = some [(0, 1, 2), (1, 1, 2)] := by decide

example : submatch (.chr 99) 0 [97] = none := (submatch_none_iff _ _ _).mpr (by
  intro ⟨pre, mid, post, hs, hm⟩
  cases hm
  cases pre with
  | nil => simp at hs
  | cons y ys => cases ys <;> simp at hs)

end RegexCaps
