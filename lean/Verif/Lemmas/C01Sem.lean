import Verif.Lemmas.RegexSem
import Verif.Driver.ExecEnv
/-! What "matching" means, without reference to an algorithm: substring containment for `|=`, the
language of the regular expression for `|~` / `=~` (Verif/Env/RegexSem.lean), for the executable
environment `ExecEnv.env` the correspondence runs against the code. -/
namespace C01Sem
open LogQL Regex

theorem hasPrefix_iff (s p : List Nat) : Bytes.hasPrefix s p = true ↔ ∃ t, s = p ++ t := by
  induction p generalizing s with
  | nil => cases s <;> simp [Bytes.hasPrefix]
  | cons b p ih =>
    cases s with
    | nil => simp [Bytes.hasPrefix]
    | cons a s =>
      simp only [Bytes.hasPrefix, Bool.and_eq_true, beq_iff_eq, ih, List.cons_append, List.cons.injEq]
      constructor
      · rintro ⟨rfl, t, rfl⟩; exact ⟨t, rfl, rfl⟩
      · rintro ⟨t, rfl, rfl⟩; exact ⟨rfl, t, rfl⟩

/-- `strings.Contains`: the pattern occurs somewhere in the subject -/
theorem contains_iff (s p : List Nat) : Bytes.contains s p = true ↔ ∃ pre post, s = pre ++ p ++ post := by
  induction s with
  | nil =>
    cases p with
    | nil => simp [Bytes.contains]
    | cons b p =>
      simp only [Bytes.contains, Bool.false_eq_true, false_iff]
      rintro ⟨pre, post, h⟩
      have := congrArg List.length h
      simp at this
  | cons a s ih =>
    cases p with
    | nil => simp only [Bytes.contains, true_iff]; exact ⟨[], a :: s, rfl⟩
    | cons b p =>
      simp only [Bytes.contains, Bool.or_eq_true, hasPrefix_iff, ih]
      constructor
      · rintro (⟨t, h⟩ | ⟨pre, post, h⟩)
        · exact ⟨[], t, by simpa using h⟩
        · exact ⟨a :: pre, post, by simp [h]⟩
      · rintro ⟨pre, post, h⟩
        cases pre with
        | nil => left; exact ⟨post, by simpa using h⟩
        | cons x pre =>
          right
          simp only [List.cons_append, List.cons.injEq] at h
          exact ⟨pre, post, h.2⟩

/-- `|~ re` keeps a line iff the line contains a match of `re` -/
theorem lineFilter_re (ts : Int) (v : Bytes) (re : Re) (seen : Seen) (a : Acc) :
    (Stage.apply ExecEnv.env ts (.lineFilter .re v re) seen a).1 = some a ↔ Contains re a.line := by
  rw [← search_iff_contains]
  simp [Stage.apply, ExecEnv.env]
where
  search_iff_contains : search re a.line = true ↔ Contains re a.line := RegexSem.search_iff re a.line

/-- `!~ re` keeps a line iff it contains no match -/
theorem lineFilter_nre (ts : Int) (v : Bytes) (re : Re) (seen : Seen) (a : Acc) :
    (Stage.apply ExecEnv.env ts (.lineFilter .nre v re) seen a).1 = some a ↔ ¬ Contains re a.line := by
  rw [← RegexSem.search_iff re a.line]
  simp [Stage.apply, ExecEnv.env]

/-- `|= v` keeps a line iff `v` occurs in it; `!= v` iff it does not -/
theorem lineFilter_eq (env : Env) (ts : Int) (v : Bytes) (re : Re) (seen : Seen) (a : Acc) :
    (Stage.apply env ts (.lineFilter .eq v re) seen a).1 = some a ↔ ∃ pre post, a.line = pre ++ v ++ post := by
  rw [← contains_iff]
  simp [Stage.apply]

theorem lineFilter_ne (env : Env) (ts : Int) (v : Bytes) (re : Re) (seen : Seen) (a : Acc) :
    (Stage.apply env ts (.lineFilter .ne v re) seen a).1 = some a ↔ ¬ ∃ pre post, a.line = pre ++ v ++ post := by
  rw [← contains_iff]
  simp [Stage.apply]

/-- a label matcher `=~ re` is anchored: the whole value is in the language of `re` -/
theorem matcher_re (m : StrMatcher) (h : m.op = .re) (v : Bytes) :
    m.matchValue ExecEnv.env v = true ↔ Matches m.re 0 v [] := by
  rw [← RegexSem.fullMatch_iff]
  simp [StrMatcher.matchValue, h, ExecEnv.env]

theorem matcher_nre (m : StrMatcher) (h : m.op = .nre) (v : Bytes) :
    m.matchValue ExecEnv.env v = true ↔ ¬ Matches m.re 0 v [] := by
  rw [← RegexSem.fullMatch_iff]
  simp [StrMatcher.matchValue, h, ExecEnv.env]

end C01Sem
