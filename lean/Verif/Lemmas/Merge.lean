import Verif.Model.Merge

/-! Theorems about the merge model: any run conserves records (`run_perm`), is globally sorted when
the sources are (`run_sorted`), preserves per-source order (`run_source_order`); the executable
checker is sound (`isRun_sound`); completion order of the concurrent opens is irrelevant
(`openAll_perm`, `openAll_complete`). -/
namespace Merge

theorem run_perm {srcs out} (h : Run srcs out) : out.Perm srcs.flatten := by
  induction h with
  | done hall =>
    rename_i srcs
    have : srcs.flatten = [] := by
      simp only [List.flatten_eq_nil_iff]; exact hall
    rw [this]
  | step pre r rest post heq _ _ ih =>
    subst heq
    simp only [List.flatten_append, List.flatten_cons] at ih ⊢
    refine (List.Perm.cons r ih).trans ?_
    exact (List.perm_middle (a := r) (l₁ := pre.flatten) (l₂ := rest ++ post.flatten)).symm

/-- a head that is minimal among heads is minimal among *all* remaining records when every source
    is sorted -/
theorem head_min_all {srcs : List (List Rec)} {r : Rec}
    (hs : ∀ s ∈ srcs, SortedTs s) (hmin : ∀ s ∈ srcs, ∀ h ∈ s.head?, r.ts ≤ h.ts) :
    ∀ x ∈ srcs.flatten, r.ts ≤ x.ts := by
  intro x hx
  obtain ⟨s, hsm, hxs⟩ := List.mem_flatten.mp hx
  cases s with
  | nil => simp at hxs
  | cons h t =>
    have h1 := hmin _ hsm h (by simp)
    rcases List.mem_cons.mp hxs with rfl | hxt
    · exact h1
    · have := (List.pairwise_cons.mp (hs _ hsm)).1 x hxt
      omega

theorem run_sorted {srcs out} (h : Run srcs out) (hs : ∀ s ∈ srcs, SortedTs s) : SortedTs out := by
  induction h with
  | done _ => exact List.Pairwise.nil
  | step pre r rest post heq hmin hrun ih =>
    subst heq
    have hs' : ∀ s ∈ pre ++ rest :: post, SortedTs s := by
      intro s hsm
      simp only [List.mem_append, List.mem_cons] at hsm
      rcases hsm with h1 | rfl | h3
      · exact hs s (by simp [h1])
      · exact (List.pairwise_cons.mp (hs (r :: s) (by simp))).2
      · exact hs s (by simp [h3])
    refine List.pairwise_cons.mpr ⟨?_, ih hs'⟩
    intro x hx
    have hall := head_min_all hs hmin
    have hp := run_perm hrun
    have hx' : x ∈ (pre ++ rest :: post).flatten := hp.mem_iff.mp hx
    apply hall
    simp only [List.flatten_append, List.flatten_cons, List.mem_append, List.mem_cons] at hx' ⊢
    rcases hx' with h1 | h2 | h3
    · exact Or.inl h1
    · exact Or.inr (Or.inl (Or.inr h2))
    · exact Or.inr (Or.inr h3)

theorem getElem_mid {α} (pre post : List α) (a b : α) (j : Nat)
    (h1 : j < (pre ++ a :: post).length) (h2 : j < (pre ++ b :: post).length) (hne : j ≠ pre.length) :
    (pre ++ a :: post)[j] = (pre ++ b :: post)[j] := by
  by_cases hjp : j < pre.length
  · simp [List.getElem_append_left hjp]
  · obtain ⟨k, rfl⟩ : ∃ k, j = pre.length + (k + 1) := ⟨j - pre.length - 1, by omega⟩
    simp [List.getElem_append_right]

theorem getElem_mid_self {α} (pre post : List α) (a : α) (h : pre.length < (pre ++ a :: post).length) :
    (pre ++ a :: post)[pre.length] = a := by
  simp [List.getElem_append_right]

theorem run_source_order {srcs out} (h : Run srcs out) (ht : Tagged srcs) (i : Nat) (hi : i < srcs.length) :
    out.filter (fun x => x.src == i) = srcs[i] := by
  induction h with
  | done hall =>
    rename_i srcs
    have := hall srcs[i] (List.getElem_mem hi)
    simp [this]
  | step pre r rest post heq _ hrun ih =>
    subst heq
    have hlen : (pre ++ rest :: post).length = (pre ++ (r :: rest) :: post).length := by simp
    have ht' : Tagged (pre ++ rest :: post) := by
      intro j hj x hx
      have hj' : j < (pre ++ (r :: rest) :: post).length := by omega
      apply ht j hj'
      by_cases hje : j = pre.length
      · subst hje
        rw [getElem_mid_self] at hx ⊢
        exact List.mem_cons_of_mem _ hx
      · rw [getElem_mid pre post (r :: rest) rest j hj' hj hje]; exact hx
    have ih' := ih ht' (by omega)
    have hr : r.src = pre.length := ht pre.length (by simp) r (by simp)
    by_cases hip : i = pre.length
    · subst hip
      simp only [List.filter_cons, hr, beq_self_eq_true, ↓reduceIte, ih']
      rw [getElem_mid_self, getElem_mid_self]
    · have hne : (r.src == i) = false := by simp [hr]; omega
      simp only [List.filter_cons, hne, Bool.false_eq_true, ↓reduceIte, ih']
      exact (getElem_mid pre post (r :: rest) rest i hi (by omega) hip).symm

/-! ### soundness of the executable checker -/

theorem popHead_some {r : Rec} {srcs srcs' : List (List Rec)} (h : popHead r srcs = some srcs') :
    ∃ pre rest post, srcs = pre ++ (r :: rest) :: post ∧ srcs' = pre ++ rest :: post := by
  induction srcs generalizing srcs' with
  | nil => simp [popHead] at h
  | cons s tl ih =>
    cases s with
    | nil =>
      simp only [popHead, Option.map_eq_some_iff] at h
      obtain ⟨tl', htl, rfl⟩ := h
      obtain ⟨pre, rest, post, h1, h2⟩ := ih htl
      exact ⟨[] :: pre, rest, post, by simp [h1], by simp [h2]⟩
    | cons hd t =>
      simp only [popHead] at h
      by_cases hr : hd = r
      · simp only [hr, ↓reduceIte, Option.some.injEq] at h
        subst hr
        exact ⟨[], t, tl, by simp, by simp [← h]⟩
      · simp only [hr, ↓reduceIte, Option.map_eq_some_iff] at h
        obtain ⟨tl', htl, rfl⟩ := h
        obtain ⟨pre, rest, post, h1, h2⟩ := ih htl
        exact ⟨(hd :: t) :: pre, rest, post, by simp [h1], by simp [h2]⟩

theorem minHead_true {srcs : List (List Rec)} {r : Rec} (h : minHead srcs r = true) :
    ∀ s ∈ srcs, ∀ h ∈ s.head?, r.ts ≤ h.ts := by
  intro s hs x hx
  have := (List.all_eq_true.mp h) s hs
  have hx' : s.head? = some x := hx
  simp only [hx', decide_eq_true_eq] at this
  exact this

/-- the executable checker only accepts runs -/
theorem isRun_sound (srcs : List (List Rec)) (out : List Rec) (h : isRun srcs out = true) : Run srcs out := by
  induction out generalizing srcs with
  | nil =>
    simp only [isRun] at h
    refine .done ?_
    intro s hs
    have := (List.all_eq_true.mp h) s hs
    exact List.isEmpty_iff.mp this
  | cons r out ih =>
    simp only [isRun, Bool.and_eq_true] at h
    obtain ⟨hmin, hpop⟩ := h
    cases hp : popHead r srcs with
    | none => simp [hp] at hpop
    | some srcs' =>
      simp only [hp] at hpop
      obtain ⟨pre, rest, post, h1, h2⟩ := popHead_some hp
      subst h2
      exact .step pre r rest post h1 (minHead_true hmin) (ih _ hpop)

/-! ### concurrent opening -/

theorem openAll_nil {α} (open_ : Nat → α) (init : List (Option α)) : openAll open_ [] init = init := rfl

theorem openAll_cons {α} (open_ : Nat → α) (i : Nat) (order : List Nat) (init : List (Option α)) :
    openAll open_ (i :: order) init = openAll open_ order (init.set i (some (open_ i))) := rfl

/-- completion order of the concurrent opens is irrelevant: two orders that are permutations of each other
    fill the slots identically (this holds even with repeated indices, since the value written depends only
    on the index) -/
theorem openAll_perm {α} (open_ : Nat → α) (o₁ o₂ : List Nat) (init : List (Option α)) (hp : o₁.Perm o₂) :
    openAll open_ o₁ init = openAll open_ o₂ init := by
  induction hp generalizing init with
  | nil => rfl
  | cons x _ ih => simp only [openAll_cons]; exact ih _
  | swap x y l =>
    simp only [openAll_cons]
    by_cases hxy : x = y
    · subst hxy; rfl
    · rw [List.set_comm _ _ (fun h => hxy h.symm)]
  | trans _ _ ih₁ ih₂ => exact (ih₁ init).trans (ih₂ init)

theorem openAll_length {α} (open_ : Nat → α) (order : List Nat) (init : List (Option α)) :
    (openAll open_ order init).length = init.length := by
  induction order generalizing init with
  | nil => rfl
  | cons i order ih => rw [openAll_cons, ih, List.length_set]

/-- slot `j` after the opens: its own iterator if request `j` completed (and the slot exists), else untouched -/
theorem openAll_getElem? {α} (open_ : Nat → α) (order : List Nat) (init : List (Option α)) (j : Nat) :
    (openAll open_ order init)[j]? =
      if j ∈ order ∧ j < init.length then some (some (open_ j)) else init[j]? := by
  induction order generalizing init with
  | nil => simp [openAll_nil]
  | cons i order ih =>
    rw [openAll_cons, ih, List.length_set, List.getElem?_set]
    by_cases hjl : j < init.length
    · by_cases hjo : j ∈ order
      · simp [hjo, hjl]
      · by_cases hij : i = j
        · subst hij; simp [hjo, hjl]
        · have hji : ¬ j = i := fun h => hij h.symm
          simp [hjo, hij, hji]
    · have hnone : init[j]? = none := List.getElem?_eq_none (by omega)
      by_cases hij : i = j
      · subst hij; simp [hjl]
      · simp [hjl, hij]

/-- after all requests 0..n-1 completed (in any order) every slot holds its own iterator -/
theorem openAll_complete {α} (open_ : Nat → α) (n : Nat) (order : List Nat) (hp : order.Perm (List.range n)) :
    openAll open_ order (List.replicate n none) = (List.range n).map (fun i => some (open_ i)) := by
  rw [openAll_perm open_ order (List.range n) _ hp]
  apply List.ext_getElem?
  intro j
  rw [openAll_getElem?]
  by_cases hj : j < n
  · simp [hj]
  · simp [hj]

end Merge
