import Verif.Lemmas.RegexSem
/-! Leftmost: the span `searchFrom` reports starts at the first offset at which the expression matches
at all (Go's leftmost semantics of `FindStringIndex`); which of several matches starting there is
chosen (leftmost-first priorities) is not characterised here. -/
namespace RegexLeft
open Regex RegexSem

theorem searchFrom_leftmost (r : Re) (fuel : Nat) : ∀ (n : Nat) (t : List Nat) (pos : Nat) (res : Nat × Nat × Caps),
    searchFrom r fuel n t pos = some res → dep r + t.length ≤ fuel →
    ∀ pre mid post, t = pre ++ mid ++ post → Matches r (pos + pre.length) mid post → res.1 ≤ pos + pre.length := by
  intro n
  induction n with
  | zero => intro t pos res h; simp only [searchFrom] at h; cases h
  | succ n ih =>
    intro t pos res h hf pre mid post ht hm
    simp only [searchFrom] at h
    cases h1 : m fuel r pos t [] (fun p _ c => some ((0, pos, p) :: c)) with
    | some out =>
      rw [h1] at h
      obtain ⟨mid', rest', c', _, _, hk⟩ := m_sound _ _ _ _ _ _ _ h1
      simp only [Option.some.injEq] at hk
      subst hk
      simp only [List.find?_cons_of_pos, BEq.rfl, Option.some.injEq] at h
      subst h
      exact Nat.le_add_right _ _
    | none =>
      rw [h1] at h
      cases pre with
      | nil =>
        -- a match starts here: the matcher cannot have failed
        exfalso
        simp only [List.nil_append, List.length_nil, Nat.add_zero] at ht hm
        subst ht
        have := m_complete_dep hm fuel hf [] (fun p _ c => some ((0, pos, p) :: c)) (fun c => rfl)
        rw [h1] at this
        cases this
      | cons x pre' =>
        subst ht
        simp only [List.cons_append] at h
        have hf' : dep r + (pre' ++ mid ++ post).length ≤ fuel := by
          simp only [List.cons_append, List.length_cons] at hf; omega
        have e : pos + (x :: pre').length = pos + 1 + pre'.length := by
          simp only [List.length_cons]; omega
        rw [e] at hm ⊢
        exact ih _ _ _ h hf' pre' mid post rfl hm

/-- top level: no match of `r` starts before the reported one -/
theorem search_leftmost (r : Re) (s : List Nat) (a b : Nat) (caps : Caps)
    (h : searchFrom r (fuelFor r s) (s.length + 1) s 0 = some (a, b, caps))
    (pre mid post : List Nat) (hs : s = pre ++ mid ++ post) (hm : Matches r pre.length mid post) :
    a ≤ pre.length := by
  have := searchFrom_leftmost r _ _ _ _ _ h (dep_le_fuelFor r s (Nat.le_refl _)) pre mid post hs (by simpa using hm)
  simpa using this

end RegexLeft
