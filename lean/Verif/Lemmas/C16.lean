import Verif.Model.Flags
/-! C16 — time-range and step flags resolve as documented. -/
namespace Flags.C16
open Flags Bytes

/-! ## time range -/

theorem parseTimestamp_nil (d : Int) : parseTimestamp [] d = some d := by
  unfold parseTimestamp; rfl

/-- the `--since` duration in effect -/
def sinceOf (since : Option (List Nat)) : Option Int :=
  match since with
  | none => some (6 * 3600 * 1000000000)
  | some s => parsePromDuration s

/-- `parseTimeRange` as a chain of three fallible steps -/
theorem parseTimeRange_eq (now : Int) (start end_ since : Option (List Nat)) :
    parseTimeRange now start end_ since =
      (sinceOf since).bind fun sinceNs =>
        (parseTimestamp (end_.getD []) now).bind fun e =>
          (parseTimestamp (start.getD []) ((if e > now then now else e) - sinceNs)).bind fun s => some (s, e) := by
  have tail : ∀ sn : Int, (match parseTimestamp (end_.getD []) now with
      | none => none
      | some e =>
        match parseTimestamp (start.getD []) ((if e > now then now else e) - sn) with
        | none => none
        | some s => some (s, e)) = (parseTimestamp (end_.getD []) now).bind fun e =>
          (parseTimestamp (start.getD []) ((if e > now then now else e) - sn)).bind fun s => some (s, e) := by
    intro sn
    cases parseTimestamp (end_.getD []) now with
    | none => rfl
    | some e =>
      simp only [Option.bind_some]
      cases parseTimestamp (start.getD []) ((if e > now then now else e) - sn) <;> rfl
  unfold parseTimeRange sinceOf
  cases since with
  | none => exact tail _
  | some sv =>
    dsimp only
    cases parsePromDuration sv with
    | none => rfl
    | some sn => exact tail sn

theorem end_default_now (now : Int) (start since : Option (List Nat)) (s e : Int)
    (h : parseTimeRange now start none since = some (s, e)) : e = now := by
  rw [parseTimeRange_eq] at h
  simp only [Option.getD_none, parseTimestamp_nil, Option.bind_some, Option.bind_eq_some_iff,
    Option.some.injEq, Prod.mk.injEq] at h
  obtain ⟨_, _, _, _, _, h⟩ := h
  exact h.symm

theorem since_default_6h (now : Int) (s e : Int) (h : parseTimeRange now none none none = some (s, e)) :
    e = now ∧ s = now - 6 * 3600 * 1000000000 := by
  rw [parseTimeRange_eq] at h
  simp only [sinceOf, Option.getD_none, parseTimestamp_nil, Option.bind_some, Option.some.injEq,
    Prod.mk.injEq] at h
  obtain ⟨h1, h2⟩ := h
  refine ⟨h2.symm, ?_⟩
  rw [← h1]
  split <;> rfl

/-- start defaults to min(end, now) − since -/
theorem start_default (now : Int) (end_ since : Option (List Nat)) (sinceNs e : Int)
    (hs : (match since with | none => some (6 * 3600 * 1000000000) | some x => parsePromDuration x) = some sinceNs)
    (he : parseTimestamp (end_.getD []) now = some e) :
    parseTimeRange now none end_ since = some ((if e > now then now else e) - sinceNs, e) := by
  have hs' : sinceOf since = some sinceNs := by
    cases since <;> exact hs
  rw [parseTimeRange_eq, hs', he]
  simp only [Option.getD_none, parseTimestamp_nil, Option.bind_some]

/-- explicit values are honoured: an explicit non-empty start/end is what parseTimestamp makes of it,
whatever the defaults -/
theorem explicit_honoured (v : List Nat) (hv : v ≠ []) (d1 d2 : Int) : parseTimestamp v d1 = parseTimestamp v d2 := by
  have hne : v.isEmpty = false := by cases v <;> simp_all
  unfold parseTimestamp
  simp only [hne, Bool.false_eq_true, if_false]

theorem explicit_start (now : Int) (sv : List Nat) (hv : sv ≠ []) (end_ since : Option (List Nat)) (s e : Int)
    (h : parseTimeRange now (some sv) end_ since = some (s, e)) : ∀ d, parseTimestamp sv d = some s := by
  intro d
  rw [parseTimeRange_eq] at h
  simp only [Option.getD_some, Option.bind_eq_some_iff, Option.some.injEq, Prod.mk.injEq] at h
  obtain ⟨sn, _, e', _, s', hs', h1, _⟩ := h
  rw [← h1, ← hs']
  exact explicit_honoured sv hv _ _

/-- same for an explicit end -/
theorem explicit_end (now : Int) (ev : List Nat) (hv : ev ≠ []) (start since : Option (List Nat)) (s e : Int)
    (h : parseTimeRange now start (some ev) since = some (s, e)) : ∀ d, parseTimestamp ev d = some e := by
  intro d
  rw [parseTimeRange_eq] at h
  simp only [Option.getD_some, Option.bind_eq_some_iff, Option.some.injEq, Prod.mk.injEq] at h
  obtain ⟨sn, _, e', he', s', _, _, h2⟩ := h
  rw [← h2, ← he']
  exact explicit_honoured ev hv _ _

/-! ## step -/

/-- default step = max(1 s, ⌊(end − start)/250 s⌋ s) and at least one second -/
theorem default_step (start end_ : Int) :
    defaultStep start end_ = (max 1 (((end_ - start : Int) : Rat) / 1000000000 / 250).floor) * 1000000000 ∧
      1000000000 ≤ defaultStep start end_ := by
  unfold defaultStep
  generalize (((end_ - start : Int) : Rat) / 1000000000 / 250).floor = k
  simp only [Int.max_def]
  constructor
  · split <;> split <;> omega
  · split <;> omega

theorem default_step_absent (start end_ : Int) : parseStep none start end_ = some (defaultStep start end_) := by
  unfold parseStep; rfl

/-- an accepted step is strictly positive -/
theorem step_positive (step : Option (List Nat)) (start end_ : Int) (d : Int)
    (h : parseStep step start end_ = some d) : 0 < d := by
  cases step with
  | none =>
    rw [default_step_absent] at h
    have := (default_step start end_).2
    simp only [Option.some.injEq] at h
    omega
  | some v =>
    unfold parseStep at h
    dsimp only at h
    split at h
    · split at h
      · simp only [Option.some.injEq] at h; omega
      · cases h
    · cases h

/-! ## malformed values -/

/-- malformed values are rejected, not replaced by a default -/
theorem malformed_since_rejected (now : Int) (start end_ : Option (List Nat)) (sv : List Nat)
    (h : parsePromDuration sv = none) : parseTimeRange now start end_ (some sv) = none := by
  rw [parseTimeRange_eq]
  simp only [sinceOf, h, Option.bind_none]

set_option linter.unusedVariables false in
theorem malformed_end_rejected (now : Int) (start since : Option (List Nat)) (ev : List Nat) (hne : ev ≠ [])
    (h : ∀ d, parseTimestamp ev d = none) : parseTimeRange now start (some ev) since = none := by
  rw [parseTimeRange_eq]
  simp only [Option.getD_some, h, Option.bind_none]
  cases sinceOf since <;> rfl

/-- likewise a malformed start -/
theorem malformed_start_rejected (now : Int) (end_ since : Option (List Nat)) (sv : List Nat)
    (h : ∀ d, parseTimestamp sv d = none) : parseTimeRange now (some sv) end_ since = none := by
  rw [parseTimeRange_eq]
  simp only [Option.getD_some, h, Option.bind_none]
  cases sinceOf since with
  | none => rfl
  | some sn => cases parseTimestamp (end_.getD []) now <;> rfl

/-- "x", "0", "-1" -/
theorem malformed_step_rejected :
    parseStep (some [120]) 0 0 = none ∧ parseStep (some [48]) 0 0 = none ∧ parseStep (some [45, 49]) 0 0 = none := by
  refine ⟨?_, ?_, ?_⟩ <;> decide +kernel

/-! ## decimal spellings -/

theorem aux_append (fuel n : Nat) (acc : List Nat) :
    natDigitsAux fuel n acc = natDigitsAux fuel n [] ++ acc := by
  induction fuel generalizing n acc with
  | zero => rfl
  | succ f ih =>
    unfold natDigitsAux
    split
    · rfl
    · rw [ih _ (_ :: acc), ih _ [_], List.append_assoc]; rfl

theorem aux_fuel (f1 f2 n : Nat) (acc : List Nat) (h1 : n < f1) (h2 : n < f2) :
    natDigitsAux f1 n acc = natDigitsAux f2 n acc := by
  induction f1 generalizing f2 n acc with
  | zero => omega
  | succ f ih =>
    cases f2 with
    | zero => omega
    | succ g =>
      unfold natDigitsAux
      split
      · rfl
      · exact ih _ _ _ (by omega) (by omega)

theorem natToDec_step (n : Nat) :
    natToDec n = if n < 10 then [48 + n] else natToDec (n / 10) ++ [48 + n % 10] := by
  unfold natToDec
  rw [natDigitsAux]
  split
  · rfl
  · rw [aux_append, aux_fuel n (n / 10 + 1) (n / 10) [] (by omega) (by omega)]

theorem digitsVal_snoc (xs : List Nat) (d : Nat) : digitsVal (xs ++ [d]) = digitsVal xs * 10 + (d - 48) := by
  simp [digitsVal, List.foldl_append]

theorem digitsVal_natToDec_val (n : Nat) : digitsVal (natToDec n) = n := by
  induction n using Nat.strongRecOn with
  | _ n ih =>
    rw [natToDec_step]
    split
    · simp [digitsVal]
    · rw [digitsVal_snoc, ih (n / 10) (by omega)]; omega

theorem natToDec_allDigit (n : Nat) : (natToDec n).all isDigit = true := by
  induction n using Nat.strongRecOn with
  | _ n ih =>
    rw [natToDec_step]
    split
    · simp [isDigit]; omega
    · rw [List.all_append, ih (n / 10) (by omega)]
      simp [isDigit]; omega

theorem natToDec_ne_nil (n : Nat) : natToDec n ≠ [] := by
  rw [natToDec_step]
  split <;> simp

theorem natToDec_length_le (k n : Nat) (hk : 1 ≤ k) (h : n < 10 ^ k) : (natToDec n).length ≤ k := by
  induction k generalizing n with
  | zero => omega
  | succ k ih =>
    rw [natToDec_step]
    split
    · simp
    · have hk' : 1 ≤ k := by
        cases k with
        | zero => simp at h; omega
        | succ k => omega
      have : n / 10 < 10 ^ k := by
        rw [Nat.pow_succ] at h; omega
      have := ih (n / 10) hk' this
      simp; omega

theorem natToDec_length_gt (k n : Nat) (h : 10 ^ k ≤ n) : k < (natToDec n).length := by
  induction k generalizing n with
  | zero =>
    have := natToDec_ne_nil n
    cases hn : natToDec n with
    | nil => exact absurd hn this
    | cons a l => simp
  | succ k ih =>
    rw [natToDec_step]
    have hpos : 0 < 10 ^ k := Nat.pow_pos (by omega)
    rw [Nat.pow_succ] at h
    split
    · omega
    · have := ih (n / 10) (by omega)
      simp; omega

theorem not_contains_of_allDigit (v : List Nat) (hall : v.all isDigit = true) : v.contains 46 = false := by
  induction v with
  | nil => rfl
  | cons c tl ih =>
    simp only [List.all_cons, Bool.and_eq_true] at hall
    have : c ≠ 46 := by
      intro h; subst h; simp [isDigit] at hall
    have ih' := ih hall.2
    simp only [List.contains_eq_mem, decide_eq_false_iff_not, List.mem_cons, not_or] at ih' ⊢
    exact ⟨fun h => this h.symm, ih'⟩

theorem parseTimestamp_digits (v : List Nat) (hne : v ≠ []) (hall : v.all isDigit = true)
    (hmax : digitsVal v ≤ 9223372036854775807) (d : Int) :
    parseTimestamp v d =
      some (if v.length ≤ 10 then (digitsVal v : Int) * 1000000000 else (digitsVal v : Int)) := by
  have hemp : v.isEmpty = false := by cases v <;> simp_all
  have hdot := not_contains_of_allDigit v hall
  unfold parseTimestamp
  simp only [hemp, hdot, Bool.false_eq_true, if_false]
  cases v with
  | nil => exact absurd rfl hne
  | cons c tl =>
    have hc : isDigit c = true := by simp only [List.all_cons, Bool.and_eq_true] at hall; exact hall.1
    have h45 : c ≠ 45 := by intro h; subst h; simp [isDigit] at hc
    have h43 : c ≠ 43 := by intro h; subst h; simp [isDigit] at hc
    have hall' := hall
    simp only [List.all_cons, Bool.and_eq_true] at hall'
    simp [h45, h43, hall'.1, hall'.2]
    rw [if_neg (by omega)]

theorem spelling_seconds (n : Nat) (h : n < 10000000000) (d : Int) :
    parseTimestamp (natToDec n) d = some ((n : Int) * 1000000000) := by
  rw [parseTimestamp_digits _ (natToDec_ne_nil n) (natToDec_allDigit n) (by rw [digitsVal_natToDec_val]; omega),
    digitsVal_natToDec_val, if_pos (natToDec_length_le 10 n (by omega) (by omega))]

theorem spelling_nanoseconds (n : Nat) (h1 : 10000000000 ≤ n) (h2 : n ≤ 9223372036854775807) (d : Int) :
    parseTimestamp (natToDec n) d = some (n : Int) := by
  have := natToDec_length_gt 10 n (by omega)
  rw [parseTimestamp_digits _ (natToDec_ne_nil n) (natToDec_allDigit n) (by rw [digitsVal_natToDec_val]; omega),
    digitsVal_natToDec_val, if_neg (by omega)]

theorem seconds_and_nanoseconds_agree (s : Nat) (hs : 10 ≤ s) (h : s < 9223372036) (d1 d2 : Int) :
    parseTimestamp (natToDec s) d1 = parseTimestamp (natToDec (s * 1000000000)) d2 := by
  rw [spelling_seconds s (by omega), spelling_nanoseconds (s * 1000000000) (by omega) (by omega)]
  simp

/-- spellings: unix seconds (≤ 10 digits) and unix nanoseconds (≥ 11 digits) denote the instant they spell -/
theorem digitsVal_natToDec (n : Nat) :
    Bytes.digitsVal (Bytes.natToDec n) = n ∧ (Bytes.natToDec n).all Bytes.isDigit = true ∧ Bytes.natToDec n ≠ [] :=
  ⟨digitsVal_natToDec_val n, natToDec_allDigit n, natToDec_ne_nil n⟩

/-! ## fractional spelling -/

theorem half_floor : ((1 : Rat) / 2).floor = 0 := by decide +kernel

theorem roundRat_natCast (ms : Nat) : roundRat (ms : Rat) = ms := by
  unfold roundRat
  rw [if_pos Rat.natCast_nonneg, ← Rat.intCast_natCast, Rat.add_comm, Rat.floor_add_intCast, half_floor]
  omega

theorem frac_arith (s ms : Nat) (hms : ms < 1000) :
    (0 : Rat) ≤ (s : Rat) + (ms : Rat) / 10 ^ 3 ∧ ((s : Rat) + (ms : Rat) / 10 ^ 3).floor = (s : Int) ∧
      ((s : Rat) + (ms : Rat) / 10 ^ 3 - ((s : Int) : Rat)) * 1000 = (ms : Rat) := by
  have hms' : (ms : Rat) < 1000 := by
    have := Rat.natCast_lt_natCast.2 hms
    simpa using this
  refine ⟨by grind, ?_, ?_⟩
  · apply Int.le_antisymm
    · apply Int.le_of_lt_add_one
      rw [Rat.floor_lt_iff, Rat.intCast_add, Rat.intCast_natCast]
      simp only [Rat.intCast_one]
      grind
    · rw [Rat.le_floor_iff, Rat.intCast_natCast]
      grind
  · rw [Rat.intCast_natCast]; grind

theorem takeWhile_digits_append (ds rest : List Nat) (h : ds.all isDigit = true) (c : Nat) (hc : isDigit c = false) :
    (ds ++ c :: rest).takeWhile isDigit = ds ∧ (ds ++ c :: rest).dropWhile isDigit = c :: rest := by
  induction ds with
  | nil => simp [hc]
  | cons a l ih =>
    simp only [List.all_cons, Bool.and_eq_true] at h
    have := ih h.2
    simp [h.1, this]

theorem takeWhile_digits (ds : List Nat) (h : ds.all isDigit = true) :
    ds.takeWhile isDigit = ds ∧ ds.dropWhile isDigit = [] := by
  induction ds with
  | nil => simp
  | cons a l ih =>
    simp only [List.all_cons, Bool.and_eq_true] at h
    have := ih h.2
    simp [h.1, this]

theorem scanSign_digit (c : Nat) (tl : List Nat) (hc : isDigit c = true) : Num.scanSign (c :: tl) = (false, c :: tl) := by
  unfold Num.scanSign
  split
  · rename_i heq; injection heq with h1 _; subst h1; simp [isDigit] at hc
  · rename_i heq; injection heq with h1 _; subst h1; simp [isDigit] at hc
  · rfl

theorem scanDecimal_fixed (ip fp : List Nat) (hne : ip ≠ []) (hip : ip.all isDigit = true) (hfp : fp.all isDigit = true) :
    Num.scanDecimal (ip ++ 46 :: fp) = some ((digitsVal ip : Rat) + (digitsVal fp : Rat) / (10 : Rat) ^ fp.length, []) := by
  have h1 := takeWhile_digits_append ip fp hip 46 (by decide)
  have h2 := takeWhile_digits fp hfp
  have hemp : ip.isEmpty = false := by cases ip <;> simp_all
  unfold Num.scanDecimal
  simp only [h1.1, h1.2, h2.1, h2.2, hemp, Bool.false_and, Bool.false_eq_true, if_false]

theorem parseFloat_fixed (ip fp : List Nat) (hne : ip ≠ []) (hip : ip.all isDigit = true) (hfp : fp.all isDigit = true) :
    Num.parseFloat (ip ++ 46 :: fp) = some ((digitsVal ip : Rat) + (digitsVal fp : Rat) / (10 : Rat) ^ fp.length) := by
  have hsd := scanDecimal_fixed ip fp hne hip hfp
  cases ip with
  | nil => exact absurd rfl hne
  | cons c tl =>
    simp only [List.all_cons, Bool.and_eq_true] at hip
    unfold Num.parseFloat
    rw [List.cons_append, scanSign_digit c _ hip.1]
    rw [List.cons_append] at hsd
    simp only [hsd, Option.map_some, Bool.false_eq_true, if_false]

/-- three-digit, zero-padded decimal -/
def pad3 (n : Nat) : List Nat := List.replicate (3 - (natToDec n).length) 48 ++ natToDec n

theorem digitsVal_zeros (k : Nat) (x : List Nat) : digitsVal (List.replicate k 48 ++ x) = digitsVal x := by
  induction k with
  | zero => simp
  | succ k ih =>
    rw [List.replicate_succ, List.cons_append]
    have : digitsVal (48 :: (List.replicate k 48 ++ x)) = digitsVal (List.replicate k 48 ++ x) := by
      simp [digitsVal]
    rw [this, ih]

theorem pad3_spec (ms : Nat) (h : ms < 1000) :
    (pad3 ms).length = 3 ∧ (pad3 ms).all isDigit = true ∧ digitsVal (pad3 ms) = ms := by
  have hl := natToDec_length_le 3 ms (by omega) (by omega)
  unfold pad3
  refine ⟨?_, ?_, ?_⟩
  · simp only [List.length_append, List.length_replicate]; omega
  · rw [List.all_append, natToDec_allDigit]
    simp [isDigit]
  · rw [digitsVal_zeros, digitsVal_natToDec_val]

/-- the fractional spelling `sec.mmm` (exactly three fraction digits) denotes `sec·10⁹ + mmm·10⁶` -/
theorem spelling_fractional (s ms : Nat) (hms : ms < 1000) (d : Int) :
    parseTimestamp (natToDec s ++ [46] ++ pad3 ms) d = some ((s : Int) * 1000000000 + (ms : Int) * 1000000) := by
  obtain ⟨hl, hd, hv⟩ := pad3_spec ms hms
  have hpf := parseFloat_fixed (natToDec s) (pad3 ms) (natToDec_ne_nil s) (natToDec_allDigit s) hd
  rw [hl, hv, digitsVal_natToDec_val] at hpf
  have heq : natToDec s ++ [46] ++ pad3 ms = natToDec s ++ 46 :: pad3 ms := by simp
  rw [heq]
  obtain ⟨a1, a2, a3⟩ := frac_arith s ms hms
  have hemp : (natToDec s ++ 46 :: pad3 ms).isEmpty = false := by simp
  have hdot : (natToDec s ++ 46 :: pad3 ms).contains 46 = true := by simp
  unfold parseTimestamp
  simp only [hemp, hdot, hpf, if_true, Bool.false_eq_true, if_false]
  rw [if_pos a1, a2, a3, roundRat_natCast]

/-! ## non-vacuity -/

-- end_default_now / since_default_6h: no flags at all, now = 10⁹·10⁵
example : parseTimeRange 100000000000000 none none none = some (100000000000000 - 6 * 3600 * 1000000000, 100000000000000) := by
  decide +kernel
-- end_default_now with explicit start "5" and since "1h"
example : parseTimeRange 100000000000000 (some [53]) none (some [49, 104]) = some (5000000000, 100000000000000) := by
  decide +kernel
-- start_default: since "1h", end "100" (unix seconds) before now
example : (match (some [49, 104] : Option (List Nat)) with
      | none => some (6 * 3600 * 1000000000) | some x => parsePromDuration x) = some 3600000000000 ∧
    parseTimestamp ((some [49, 48, 48] : Option (List Nat)).getD []) 100000000000000 = some 100000000000 := by
  decide +kernel
-- ... and the resulting range: start = end − 1h (end is before now)
example : parseTimeRange 100000000000000 none (some [49, 48, 48]) (some [49, 104]) =
    some (100000000000 - 3600000000000, 100000000000) := by
  decide +kernel
-- ... and an end in the future: start = now − 1h
example : parseTimeRange 5000000000 none (some [49, 48, 48]) (some [49, 104]) =
    some (5000000000 - 3600000000000, 100000000000) := by
  decide +kernel
-- explicit_honoured / explicit_start / explicit_end
example : ([53] : List Nat) ≠ [] ∧ parseTimestamp [53] 7 = some 5000000000 := by decide +kernel
example : parseTimeRange 0 (some [53]) (some [54]) none = some (5000000000, 6000000000) := by decide +kernel
-- default_step: one hour → 14 s; one minute → 1 s
example : defaultStep 0 3600000000000 = 14000000000 ∧ defaultStep 0 60000000000 = 1000000000 := by decide +kernel
-- step_positive: "5" (plain seconds), "1m", "0.5"
example : parseStep (some [53]) 0 0 = some 5000000000 ∧ parseStep (some [49, 109]) 0 0 = some 60000000000 ∧
    parseStep (some [48, 46, 53]) 0 0 = some 500000000 := by decide +kernel
-- malformed_since_rejected: "x", "1x", "h"
example : parsePromDuration [120] = none ∧ parsePromDuration [49, 120] = none ∧ parsePromDuration [104] = none := by
  decide +kernel
-- malformed_end_rejected / malformed_start_rejected: "x", "12:00"
example : ([120] : List Nat) ≠ [] ∧ ∀ d, parseTimestamp [120] d = none :=
  ⟨by decide, fun d => (explicit_honoured [120] (by decide) d 0).trans (by decide +kernel)⟩
example : ∀ d, parseTimestamp [49, 50, 58, 48, 48] d = none :=
  fun d => (explicit_honoured _ (by decide) d 0).trans (by decide +kernel)
-- spellings
example : natToDec 1700000000 = [49, 55, 48, 48, 48, 48, 48, 48, 48, 48] := by decide +kernel
example : parseTimestamp (natToDec 1700000000) 0 = some 1700000000000000000 := by
  rw [spelling_seconds 1700000000 (by omega)]; rfl
example : parseTimestamp (natToDec 1700000000000000000) 0 = some 1700000000000000000 := by
  rw [spelling_nanoseconds 1700000000000000000 (by omega) (by omega)]; rfl
example : (10 : Nat) ≤ 1700000000 ∧ (1700000000 : Nat) < 9223372036 := by omega
-- RFC3339 spelling is accepted by the fallback
example : parseTimestamp [50,48,50,51,45,49,49,45,49,52,84,50,50,58,49,51,58,50,48,90] 0 = some 1700000000000000000 := by
  decide +kernel
-- fractional spelling: "1700000000.123"
example : natToDec 1700000000 ++ [46] ++ pad3 123 = [49, 55, 48, 48, 48, 48, 48, 48, 48, 48, 46, 49, 50, 51] := by
  decide +kernel
example : parseTimestamp [49, 55, 48, 48, 48, 48, 48, 48, 48, 48, 46, 48, 48, 55] 0 = some 1700000000007000000 := by
  have := spelling_fractional 1700000000 7 (by omega) 0
  rw [show natToDec 1700000000 ++ [46] ++ pad3 7 = [49, 55, 48, 48, 48, 48, 48, 48, 48, 48, 46, 48, 48, 55] by
    decide +kernel] at this
  rw [this]; rfl

end Flags.C16
