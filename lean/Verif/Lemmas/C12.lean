import Verif.Model.Metric
/-! C12 — binary operations of the metric path: a scalar literal on either side, two vectors joined
by label set, the set operators `and` / `or` / `unless`, and the positional pairing of steps. -/
namespace Metric.C12
open LogQL Metric

/-! ### helpers -/

def isArith : BinOp → Bool
  | .add | .sub | .mul | .div | .mod | .pow => true
  | _ => false

theorem isArith_not_set (op : BinOp) (h : isArith op = true) : op.isSet = false := by
  cases op <;> first | rfl | cases h

/-- an arithmetic operator always produces a value (it never drops the sample) -/
theorem arith_some (op : BinOp) (h : isArith op = true) (b : Bool) (l r : Val) :
    ∃ v, sampleOp op b l r = some v := by
  cases op <;> first | exact ⟨_, rfl⟩ | cases h

theorem sameSet_comm (a b : AggLabels) : sameSet a b = sameSet b a := by
  simp only [sameSet, sameLabels]; exact Bool.and_comm _ _

theorem boolOp_one_iff (h b : Bool) : boolOp h b = some (.q 1) ↔ h = true := by
  cases h <;> cases b <;> simp [boolOp] <;> decide

theorem boolOp_false (b : Bool) : boolOp false b = if b then none else some (.q 0) := by
  cases b <;> rfl

theorem boolOp_range (h b : Bool) :
    boolOp h b = some (.q 1) ∨ boolOp h b = (if b then none else some (.q 0)) := by
  cases h
  · right; exact boolOp_false b
  · left; rfl

/-! ### scalar literal on one side -/

/-- a scalar on the right: one output series per input series, operator applied to (value, scalar)
in that order -/
theorem literal_right (op : BinOp) (_hop : op.isSet = false) (boolMod : Bool) (c : Rat) (s : Step) :
    litStep op boolMod c false s =
      ⟨s.t, s.samples.filterMap fun x => (sampleOp op boolMod x.v (.q c)).map fun v => ⟨x.set, v⟩⟩ := by
  simp [litStep]

/-- a scalar on the left: operator applied to (scalar, value) -/
theorem literal_left (op : BinOp) (_hop : op.isSet = false) (boolMod : Bool) (c : Rat) (s : Step) :
    litStep op boolMod c true s =
      ⟨s.t, s.samples.filterMap fun x => (sampleOp op boolMod (.q c) x.v).map fun v => ⟨x.set, v⟩⟩ := by
  simp [litStep]

example : (BinOp.sub).isSet = false := rfl

theorem litStep_t (op : BinOp) (b : Bool) (c : Rat) (left : Bool) (s : Step) :
    (litStep op b c left s).t = s.t := rfl

/-- arithmetic never drops a series: for the six arithmetic operators every input series yields
exactly one output series with its label set -/
theorem arith_keeps_all (op : BinOp) (h : isArith op = true) (boolMod : Bool) (c : Rat) (left : Bool)
    (s : Step) :
    (litStep op boolMod c left s).samples.map (·.set) = s.samples.map (·.set) := by
  simp only [litStep]
  induction s.samples with
  | nil => rfl
  | cons x xs ih =>
    obtain ⟨v, hv⟩ : ∃ v, (if left then sampleOp op boolMod (.q c) x.v
        else sampleOp op boolMod x.v (.q c)) = some v := by
      cases left
      · exact arith_some op h boolMod _ _
      · exact arith_some op h boolMod _ _
    rw [List.filterMap_cons, hv]
    simp only [Option.map_some, List.map_cons, ih]

example : isArith .pow = true := rfl

/-- … and the values are exactly the operator applied pointwise (length included) -/
theorem arith_keeps_length (op : BinOp) (h : isArith op = true) (boolMod : Bool) (c : Rat) (left : Bool)
    (s : Step) : (litStep op boolMod c left s).samples.length = s.samples.length := by
  have := congrArg List.length (arith_keeps_all op h boolMod c left s)
  simpa using this

example : isArith .div = true := rfl

/-! ### values -/

theorem arith_values_add (b : Bool) (x y : Rat) : sampleOp .add b (.q x) (.q y) = some (.q (x + y)) := rfl
theorem arith_values_sub (b : Bool) (x y : Rat) : sampleOp .sub b (.q x) (.q y) = some (.q (x - y)) := rfl
theorem arith_values_mul (b : Bool) (x y : Rat) : sampleOp .mul b (.q x) (.q y) = some (.q (x * y)) := rfl

theorem arith_values (b : Bool) (x y : Rat) :
    sampleOp .add b (.q x) (.q y) = some (.q (x + y)) ∧
    sampleOp .sub b (.q x) (.q y) = some (.q (x - y)) ∧
    sampleOp .mul b (.q x) (.q y) = some (.q (x * y)) := ⟨rfl, rfl, rfl⟩

/-- the side matters: x − c versus c − x -/
theorem literal_side_sub (b : Bool) (x c : Rat) :
    sampleOp .sub b (.q x) (.q c) = some (.q (x - c)) ∧
    sampleOp .sub b (.q c) (.q x) = some (.q (c - x)) := ⟨rfl, rfl⟩

/-- `x / 0` is NaN for every rational `x` -/
theorem div_zero_nan (b : Bool) (x : Rat) : sampleOp .div b (.q x) (.q 0) = some .nan := by
  simp [sampleOp, Val.div]

/-- … and in fact for every left value of the model -/
theorem div_zero_nan_any (b : Bool) (v : Val) : sampleOp .div b v (.q 0) = some .nan := by
  cases v <;> simp [sampleOp, Val.div]

theorem mod_zero_nan (b : Bool) (x : Rat) : sampleOp .mod b (.q x) (.q 0) = some .nan := by
  simp [sampleOp, Val.mod]

theorem mod_zero_nan_any (b : Bool) (v : Val) : sampleOp .mod b v (.q 0) = some .nan := by
  cases v <;> simp [sampleOp, Val.mod]

theorem div_nonzero (b : Bool) (x y : Rat) (hy : y ≠ 0) :
    sampleOp .div b (.q x) (.q y) = some (.q (x / y)) := by
  simp [sampleOp, Val.div, hy]

example : (2 : Rat) ≠ 0 := by decide

/-! ### comparisons -/

theorem cmp_eq_one_iff (b : Bool) (x y : Rat) : sampleOp .eq b (.q x) (.q y) = some (.q 1) ↔ x = y := by
  simp [sampleOp, Val.cmp, Option.elim, boolOp_one_iff]
theorem cmp_ne_one_iff (b : Bool) (x y : Rat) : sampleOp .ne b (.q x) (.q y) = some (.q 1) ↔ x ≠ y := by
  simp [sampleOp, Val.cmp, Option.elim, boolOp_one_iff]
theorem cmp_gt_one_iff (b : Bool) (x y : Rat) : sampleOp .gt b (.q x) (.q y) = some (.q 1) ↔ y < x := by
  simp [sampleOp, Val.cmp, Option.elim, boolOp_one_iff]
theorem cmp_ge_one_iff (b : Bool) (x y : Rat) : sampleOp .ge b (.q x) (.q y) = some (.q 1) ↔ y ≤ x := by
  simp [sampleOp, Val.cmp, Option.elim, boolOp_one_iff, Rat.not_lt]
theorem cmp_lt_one_iff (b : Bool) (x y : Rat) : sampleOp .lt b (.q x) (.q y) = some (.q 1) ↔ x < y := by
  simp [sampleOp, Val.cmp, Option.elim, boolOp_one_iff]
theorem cmp_le_one_iff (b : Bool) (x y : Rat) : sampleOp .le b (.q x) (.q y) = some (.q 1) ↔ x ≤ y := by
  simp [sampleOp, Val.cmp, Option.elim, boolOp_one_iff, Rat.not_lt]

/-- a comparison yields 1 exactly where it holds -/
theorem cmp_one_iff_holds (b : Bool) (x y : Rat) :
    (sampleOp .eq b (.q x) (.q y) = some (.q 1) ↔ x = y) ∧
    (sampleOp .ne b (.q x) (.q y) = some (.q 1) ↔ x ≠ y) ∧
    (sampleOp .gt b (.q x) (.q y) = some (.q 1) ↔ y < x) ∧
    (sampleOp .ge b (.q x) (.q y) = some (.q 1) ↔ y ≤ x) ∧
    (sampleOp .lt b (.q x) (.q y) = some (.q 1) ↔ x < y) ∧
    (sampleOp .le b (.q x) (.q y) = some (.q 1) ↔ x ≤ y) :=
  ⟨cmp_eq_one_iff b x y, cmp_ne_one_iff b x y, cmp_gt_one_iff b x y, cmp_ge_one_iff b x y,
   cmp_lt_one_iff b x y, cmp_le_one_iff b x y⟩

/-- where it does not hold the series is kept with 0, or dropped when the `bool` modifier is set
(`filter := expr.Modifier.ReturnBool` in `sample_op.go`) -/
theorem cmp_not_holds (b : Bool) (x y : Rat) :
    (¬ x = y → sampleOp .eq b (.q x) (.q y) = (if b then none else some (.q 0))) ∧
    (¬ x ≠ y → sampleOp .ne b (.q x) (.q y) = (if b then none else some (.q 0))) ∧
    (¬ y < x → sampleOp .gt b (.q x) (.q y) = (if b then none else some (.q 0))) ∧
    (¬ y ≤ x → sampleOp .ge b (.q x) (.q y) = (if b then none else some (.q 0))) ∧
    (¬ x < y → sampleOp .lt b (.q x) (.q y) = (if b then none else some (.q 0))) ∧
    (¬ x ≤ y → sampleOp .le b (.q x) (.q y) = (if b then none else some (.q 0))) := by
  refine ⟨?_, ?_, ?_, ?_, ?_, ?_⟩ <;> intro h <;>
    simp only [sampleOp, Val.cmp, Option.elim] <;> rw [← boolOp_false b] <;> congr 1 <;>
    simp [Rat.not_lt] at h ⊢ <;> first | exact h | (simp [Rat.not_le] at h ⊢; try exact h)

example : ¬ ((3 : Rat) < 2) := by decide

/-- where it holds the result is 1 irrespective of the modifier; the result of a comparison of two
rationals is never anything but 1, 0 or "dropped" -/
theorem cmp_range (op : BinOp) (hc : op.isSet = false) (ha : isArith op = false) (b : Bool) (x y : Rat) :
    sampleOp op b (.q x) (.q y) = some (.q 1) ∨
    sampleOp op b (.q x) (.q y) = (if b then none else some (.q 0)) := by
  cases op <;> first | (cases hc; done) | (cases ha; done) | skip
  all_goals
    simp only [sampleOp, Val.cmp, Option.elim]
    exact boolOp_range _ b

example : (BinOp.ge).isSet = false ∧ isArith .ge = false := ⟨rfl, rfl⟩

/-! ### two vectors -/

/-- two vectors: one output series per right-hand series whose label set also occurs on the left,
carrying the left label set and op(left value, right value) -/
theorem vector_join (op : BinOp) (hop : op.isSet = false) (boolMod : Bool) (l r : Step) :
    binStep op boolMod l r = ⟨l.t, r.samples.filterMap fun rs =>
      match (l.samples.filter (fun x => sameSet x.set rs.set)).getLast? with
      | none => none
      | some ls => (sampleOp op boolMod ls.v rs.v).map fun v => ⟨ls.set, v⟩⟩ := by
  cases op <;> first | rfl | cases hop

example : (BinOp.gt).isSet = false := rfl

/-- membership form of `vector_join`, for any non-set operator -/
theorem vector_join_mem (op : BinOp) (hop : op.isSet = false) (boolMod : Bool) (l r : Step) (x : Sample)
    (hx : x ∈ (binStep op boolMod l r).samples) :
    ∃ ls ∈ l.samples, ∃ rs ∈ r.samples, sameSet ls.set rs.set = true ∧ x.set = ls.set ∧
      sampleOp op boolMod ls.v rs.v = some x.v := by
  rw [vector_join op hop] at hx
  simp only [List.mem_filterMap] at hx
  obtain ⟨rs, hrs, h⟩ := hx
  split at h
  · cases h
  · rename_i ls hls
    have hmem := List.mem_of_getLast? hls
    rw [List.mem_filter] at hmem
    cases hv : sampleOp op boolMod ls.v rs.v with
    | none => rw [hv] at h; cases h
    | some v =>
      rw [hv] at h
      simp only [Option.map_some, Option.some.injEq] at h
      subst h
      exact ⟨ls, hmem.1, rs, hrs, hmem.2, rfl, hv⟩

example : (BinOp.mul).isSet = false := rfl

/-- output label sets lie in the intersection -/
theorem vector_join_sets (op : BinOp) (h : isArith op = true) (boolMod : Bool) (l r : Step) (x : Sample)
    (hx : x ∈ (binStep op boolMod l r).samples) :
    (∃ ls ∈ l.samples, x.set = ls.set) ∧ (∃ rs ∈ r.samples, sameSet x.set rs.set = true) := by
  obtain ⟨ls, hls, rs, hrs, hsame, hset, _⟩ :=
    vector_join_mem op (isArith_not_set op h) boolMod l r x hx
  exact ⟨⟨ls, hls, hset⟩, ⟨rs, hrs, by rw [hset]; exact hsame⟩⟩

/-! ### set operators by label set -/

theorem and_is_inter (b : Bool) (l r : Step) (x : Sample) :
    x ∈ (binStep .and b l r).samples ↔ x ∈ l.samples ∧ ∃ y ∈ r.samples, sameSet y.set x.set = true := by
  simp only [binStep]
  split
  · rename_i h
    simp only [Bool.or_eq_true, List.isEmpty_iff] at h
    rcases h with h | h <;> simp [h]
  · simp [List.mem_filter]

theorem unless_is_diff (b : Bool) (l r : Step) (x : Sample) :
    x ∈ (binStep .unless b l r).samples ↔
      x ∈ l.samples ∧ ¬ ∃ y ∈ r.samples, sameSet y.set x.set = true := by
  simp only [binStep]
  split
  · rename_i h
    simp only [Bool.or_eq_true, List.isEmpty_iff] at h
    rcases h with h | h <;> simp [h]
  · simp [List.mem_filter]

theorem or_is_union_left_wins (b : Bool) (l r : Step) (x : Sample) :
    x ∈ (binStep .or b l r).samples ↔
      x ∈ l.samples ∨ (x ∈ r.samples ∧ ¬ ∃ y ∈ l.samples, sameSet y.set x.set = true) := by
  simp only [binStep]
  split
  · rename_i h
    simp only [List.isEmpty_iff] at h
    simp [h]
  · split
    · rename_i h
      simp only [List.isEmpty_iff] at h
      simp [h]
    · simp [List.mem_append, List.mem_filter]

/-- order of the `or` result: all of the left side first (in its order), then the surviving right
series (in their order) — also in the corner cases of an empty side -/
theorem or_order (b : Bool) (l r : Step) :
    (binStep .or b l r).samples =
      l.samples ++ r.samples.filter fun s => !l.samples.any (fun x => sameSet x.set s.set) := by
  simp only [binStep]
  split
  · rename_i h
    simp only [List.isEmpty_iff] at h
    simp only [h, List.any_nil, Bool.not_false, List.nil_append]
    exact (List.filter_eq_self.2 (fun _ _ => rfl)).symm
  · split
    · rename_i h
      simp only [List.isEmpty_iff] at h
      simp [h]
    · rfl

/-- `and` / `unless` keep the left order and the left samples (values included) -/
theorem and_eq_filter (b : Bool) (l r : Step) :
    (binStep .and b l r).samples =
      l.samples.filter fun s => r.samples.any (fun x => sameSet x.set s.set) := by
  simp only [binStep]
  split
  · rename_i h
    simp only [Bool.or_eq_true, List.isEmpty_iff] at h
    rcases h with h | h <;> simp [h]
  · rfl

theorem unless_eq_filter (b : Bool) (l r : Step) :
    (binStep .unless b l r).samples =
      l.samples.filter fun s => !r.samples.any (fun x => sameSet x.set s.set) := by
  simp only [binStep]
  split
  · rename_i h
    simp only [Bool.or_eq_true, List.isEmpty_iff] at h
    rcases h with h | h
    · simp [h]
    · simp only [h, List.any_nil, Bool.not_false]
      exact (List.filter_eq_self.2 (fun _ _ => rfl)).symm
  · rfl

theorem set_ops_timestamp (op : BinOp) (b : Bool) (l r : Step) : (binStep op b l r).t = l.t := by
  cases op <;> rfl

/-! ### steps are paired positionally -/

/-- the k-th output combines the k-th steps of both sides -/
theorem steps_aligned (f : Step → Step → Step) (ls rs : List Step) :
    zipSteps f ls rs = (ls.zip rs).map (fun p => f p.1 p.2) := by
  induction ls generalizing rs with
  | nil => cases rs <;> rfl
  | cons l ls ih =>
    cases rs with
    | nil => rfl
    | cons r rs => simp [zipSteps, ih]

theorem steps_aligned_length (f : Step → Step → Step) (ls rs : List Step) :
    (zipSteps f ls rs).length = min ls.length rs.length := by
  rw [steps_aligned]; simp

theorem steps_aligned_get (f : Step → Step → Step) (ls rs : List Step) (k : Nat) :
    (zipSteps f ls rs)[k]? = (match ls[k]?, rs[k]? with
      | some l, some r => some (f l r)
      | _, _ => none) := by
  induction ls generalizing rs k with
  | nil => cases rs <;> simp [zipSteps]
  | cons l ls ih =>
    cases rs with
    | nil => simp only [zipSteps, List.getElem?_nil]; split <;> simp_all
    | cons r rs =>
      cases k with
      | zero => simp [zipSteps]
      | succ k => simpa [zipSteps] using ih rs k

/-! ### the `.bin` case of `eval` -/

/-- a literal on the left: every step of the right operand goes through `litStep … true` -/
theorem eval_lit_left (env : Env) (recs : List Rec) (p : Params) (op : BinOp) (b m : Bool) (c : Rat)
    (r : Expr) :
    eval env recs p (.bin op b m (.lit c) r) =
      (eval env recs p r).map (List.map (litStep op b c true)) := by
  rw [eval]
  cases eval env recs p r <;> rfl

/-- a literal on the right (and none on the left) -/
theorem eval_lit_right (env : Env) (recs : List Rec) (p : Params) (op : BinOp) (b m : Bool) (c : Rat)
    (l : Expr) (hl : ∀ c', l ≠ .lit c') :
    eval env recs p (.bin op b m l (.lit c)) =
      (eval env recs p l).map (List.map (litStep op b c false)) := by
  rw [eval]
  · cases eval env recs p l <;> rfl
  · intro c' h; exact hl _ h

/-- two vectors without a matching modifier: steps paired positionally through `binStep` -/
theorem eval_vectors (env : Env) (recs : List Rec) (p : Params) (op : BinOp) (b : Bool) (l r : Expr)
    (hl : ∀ c', l ≠ .lit c') (hr : ∀ c', r ≠ .lit c') (ls rs : List Step)
    (h1 : eval env recs p l = .ok ls) (h2 : eval env recs p r = .ok rs) :
    eval env recs p (.bin op b false l r) = .ok ((ls.zip rs).map fun q => binStep op b q.1 q.2) := by
  rw [eval]
  · simp [h1, h2, steps_aligned]
  · intro c' h; exact hl _ h
  · intro c' h; exact hr _ h

example : ∀ c', Expr.vector 1 ≠ .lit c' := by intro c' h; cases h
example (env : Env) (recs : List Rec) (p : Params) : ∃ ls, eval env recs p (.vector 1) = .ok ls :=
  ⟨_, by rw [eval]⟩

/-! ### concrete instances (non-vacuity) -/

private def la : AggLabels := ⟨[([97], [49])], [], none⟩
private def lb : AggLabels := ⟨[([98], [50])], [], none⟩
private def lc : AggLabels := ⟨[([99], [51])], [], none⟩
private def stepL : Step := ⟨10, [⟨la, .q 6⟩, ⟨lb, .q 5⟩]⟩
private def stepR : Step := ⟨10, [⟨la, .q 2⟩, ⟨lc, .q 7⟩]⟩

-- literal_left / literal_right / arith_keeps_all
example : (litStep .sub false 1 true stepL).samples = [⟨la, .q (1 - 6)⟩, ⟨lb, .q (1 - 5)⟩] := rfl
example : (litStep .sub false 1 false stepL).samples = [⟨la, .q (6 - 1)⟩, ⟨lb, .q (5 - 1)⟩] := rfl
-- vector_join / vector_join_sets: only the shared label set survives, with the left set
example : (binStep .mul false stepL stepR).samples = [⟨la, .q (6 * 2)⟩] := rfl
example : (⟨la, .q (6 * 2)⟩ : Sample) ∈ (binStep .mul false stepL stepR).samples :=
  List.mem_singleton.2 rfl
-- set operators
example : (binStep .and false stepL stepR).samples = [⟨la, .q 6⟩] := rfl
example : (binStep .unless false stepL stepR).samples = [⟨lb, .q 5⟩] := rfl
example : (binStep .or false stepL stepR).samples = [⟨la, .q 6⟩, ⟨lb, .q 5⟩, ⟨lc, .q 7⟩] := rfl
example : (binStep .or false ⟨10, []⟩ stepR).samples = stepR.samples := rfl
example : (binStep .unless false stepL ⟨10, []⟩).samples = stepL.samples := rfl

end Metric.C12
