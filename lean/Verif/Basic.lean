def hello := "world"
