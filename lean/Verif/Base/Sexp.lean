/-! Line protocol: S-expressions whose atoms are naturals, symbols and hex byte strings
(`x` followed by hex digits).  Used only by the driver; nothing is proved about it. -/

inductive Sexp where
  | atom (s : String)
  | list (xs : List Sexp)
  deriving Inhabited, Repr, BEq

namespace Sexp

private def isDelim (c : Char) : Bool := c == '(' || c == ')' || c == ' ' || c == '\n' || c == '\t' || c == '\r'

/-- returns the parsed list of expressions up to a closing paren (or end) and the rest -/
partial def parseSeq (cs : List Char) (acc : Array Sexp) : Array Sexp × List Char :=
  match cs with
  | [] => (acc, [])
  | c :: rest =>
    if c == ' ' || c == '\n' || c == '\t' || c == '\r' then parseSeq rest acc
    else if c == ')' then (acc, rest)
    else if c == '(' then
      let (inner, rest') := parseSeq rest #[]
      parseSeq rest' (acc.push (.list inner.toList))
    else
      let tok := cs.takeWhile (fun c => !isDelim c)
      let rest' := cs.dropWhile (fun c => !isDelim c)
      parseSeq rest' (acc.push (.atom (String.ofList tok)))

def parse (s : String) : Sexp :=
  match (parseSeq s.toList #[]).1.toList with
  | [x] => x
  | xs => .list xs

partial def toStr : Sexp → String
  | .atom s => s
  | .list xs => "(" ++ " ".intercalate (xs.map toStr) ++ ")"

instance : ToString Sexp := ⟨toStr⟩

def hexDigit (n : Nat) : Char :=
  if n < 10 then Char.ofNat (48 + n) else Char.ofNat (87 + n)

def hexVal (c : Char) : Nat :=
  let n := c.toNat
  if 48 ≤ n && n ≤ 57 then n - 48
  else if 97 ≤ n && n ≤ 102 then n - 87
  else if 65 ≤ n && n ≤ 70 then n - 55
  else 0

/-- bytes → `x..` atom -/
def ofBytes (b : List Nat) : Sexp :=
  .atom (String.ofList ('x' :: b.flatMap (fun n => [hexDigit (n / 16 % 16), hexDigit (n % 16)])))

partial def hexPairs : List Char → List Nat
  | a :: b :: rest => (hexVal a * 16 + hexVal b) :: hexPairs rest
  | _ => []

def toBytes? : Sexp → Option (List Nat)
  | .atom s => match s.toList with
    | 'x' :: rest => some (hexPairs rest)
    | _ => none
  | _ => none

def toBytes (s : Sexp) : List Nat := (toBytes? s).getD []

def toNat? : Sexp → Option Nat
  | .atom s => s.toNat?
  | _ => none

def toNat (s : Sexp) : Nat := (toNat? s).getD 0

def toInt? : Sexp → Option Int
  | .atom s => s.toInt?
  | _ => none

def toInt (s : Sexp) : Int := (toInt? s).getD 0

def ofNat (n : Nat) : Sexp := .atom (toString n)
def ofInt (n : Int) : Sexp := .atom (toString n)
def sym (s : String) : Sexp := .atom s

def items : Sexp → List Sexp
  | .list xs => xs
  | _ => []

def head? : Sexp → Option String
  | .list (.atom s :: _) => some s
  | _ => none

def args : Sexp → List Sexp
  | .list (_ :: xs) => xs
  | _ => []

def symOf : Sexp → String
  | .atom s => s
  | _ => ""

def ofStr (s : String) : Sexp := ofBytes (s.toUTF8.toList.map (·.toNat))

end Sexp
