/-! Go's UTF-8 decoding as seen by `for _, r := range s` and `utf8.DecodeRuneInString`:
an invalid or truncated sequence yields U+FFFD and advances by one byte.
Bytes are naturals (< 256 by convention). -/
namespace Utf8

def isCont (b : Nat) : Bool := 0x80 ≤ b && b ≤ 0xBF

def lo3 (b0 : Nat) : Nat := if b0 == 0xE0 then 0xA0 else 0x80
def hi3 (b0 : Nat) : Nat := if b0 == 0xED then 0x9F else 0xBF
def lo4 (b0 : Nat) : Nat := if b0 == 0xF0 then 0x90 else 0x80
def hi4 (b0 : Nat) : Nat := if b0 == 0xF4 then 0x8F else 0xBF

/-- `(rune, width)` of the first rune of a non-empty byte string (Go's `first`/`acceptRanges` tables). -/
def decodeRune : List Nat → Nat × Nat
  | [] => (0xFFFD, 0)
  | b0 :: rest =>
    if b0 < 0x80 then (b0, 1)
    else if 0xC2 ≤ b0 && b0 ≤ 0xDF then
      match rest with
      | b1 :: _ => if isCont b1 then ((b0 - 0xC0) * 64 + (b1 - 0x80), 2) else (0xFFFD, 1)
      | _ => (0xFFFD, 1)
    else if 0xE0 ≤ b0 && b0 ≤ 0xEF then
      match rest with
      | b1 :: b2 :: _ =>
        if lo3 b0 ≤ b1 && b1 ≤ hi3 b0 && isCont b2 then
          ((b0 - 0xE0) * 4096 + (b1 - 0x80) * 64 + (b2 - 0x80), 3)
        else (0xFFFD, 1)
      | _ => (0xFFFD, 1)
    else if 0xF0 ≤ b0 && b0 ≤ 0xF4 then
      match rest with
      | b1 :: b2 :: b3 :: _ =>
        if lo4 b0 ≤ b1 && b1 ≤ hi4 b0 && isCont b2 && isCont b3 then
          ((b0 - 0xF0) * 262144 + (b1 - 0x80) * 4096 + (b2 - 0x80) * 64 + (b3 - 0x80), 4)
        else (0xFFFD, 1)
      | _ => (0xFFFD, 1)
    else (0xFFFD, 1)

theorem decodeRune_width_pos (b : Nat) (bs : List Nat) : 1 ≤ (decodeRune (b :: bs)).2 := by
  unfold decodeRune
  repeat' split
  all_goals first | contradiction | (simp; done)

/-- the runes of a byte string, in order (`for _, r := range s`) -/
def runes (bs : List Nat) : List Nat :=
  match bs with
  | [] => []
  | b :: rest =>
    let rw := decodeRune (b :: rest)
    rw.1 :: runes (rest.drop (rw.2 - 1))
termination_by bs.length
decreasing_by simp [List.length_drop]; omega

/-- UTF-8 encoding of a rune (`WriteRune`); surrogates and out-of-range become U+FFFD -/
def encodeRune (r : Nat) : List Nat :=
  if r < 0x80 then [r]
  else if r < 0x800 then [0xC0 + r / 64, 0x80 + r % 64]
  else if (0xD800 ≤ r && r ≤ 0xDFFF) || r > 0x10FFFF then [0xEF, 0xBF, 0xBD]
  else if r < 0x10000 then [0xE0 + r / 4096, 0x80 + r / 64 % 64, 0x80 + r % 64]
  else [0xF0 + r / 262144, 0x80 + r / 4096 % 64, 0x80 + r / 64 % 64, 0x80 + r % 64]

theorem runes_ascii (bs : List Nat) (h : ∀ b ∈ bs, b < 0x80) : runes bs = bs := by
  induction bs with
  | nil => simp [runes]
  | cons b rest ih =>
    have hb : b < 0x80 := h b (by simp)
    rw [runes]
    simp only [decodeRune, hb, ↓reduceIte, Nat.sub_self, List.drop_zero]
    rw [ih (fun x hx => h x (by simp [hx]))]

end Utf8
