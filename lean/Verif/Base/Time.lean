/-! Civil calendar arithmetic (proleptic Gregorian), as used by Go's `time` package.
Instants are `Int` nanoseconds since 1970-01-01T00:00:00Z. -/
namespace Time

def isLeap (y : Nat) : Bool := y % 4 == 0 && (y % 100 != 0 || y % 400 == 0)

def daysIn (m y : Nat) : Nat :=
  if m == 2 then (if isLeap y then 29 else 28)
  else if m == 4 || m == 6 || m == 9 || m == 11 then 30 else 31

/-- days since 1970-01-01 of the civil date y-m-d (Hinnant's algorithm; `y` shifted by one
400-year era so that all intermediate values are natural numbers) -/
def daysFromCivil (y m d : Nat) : Int :=
  let y' := if m ≤ 2 then y + 400 - 1 else y + 400
  let era := y' / 400
  let yoe := y' % 400
  let mp := if m > 2 then m - 3 else m + 9
  let doy := (153 * mp + 2) / 5 + d - 1
  let doe := yoe * 365 + yoe / 4 - yoe / 100 + doy
  (era * 146097 + doe : Nat) - 719468 - 146097

/-- inverse: (y, m, d) of a day number -/
def civilFromDays (z : Int) : Nat × Nat × Nat :=
  let z' := (z + 719468 + 146097 * 4).toNat      -- valid for z ≥ -719468 - 4*146097 (year ≥ -1600)
  let era := z' / 146097
  let doe := z' % 146097
  let yoe := (doe - doe / 1460 + doe / 36524 - doe / 146096) / 365
  let doy := doe - (365 * yoe + yoe / 4 - yoe / 100)
  let mp := (5 * doy + 2) / 153
  let d := doy - (153 * mp + 2) / 5 + 1
  let m := if mp < 10 then mp + 3 else mp - 9
  let y := yoe + era * 400 - 1600
  (if m ≤ 2 then y + 1 else y, m, d)

def nsPerSec : Int := 1000000000

/-- nanoseconds since the epoch of a UTC civil time -/
def unixNano (y mo d h mi s ns : Nat) : Int :=
  ((daysFromCivil y mo d * 86400 + (h * 3600 + mi * 60 + s : Nat)) * nsPerSec + ns)

end Time
