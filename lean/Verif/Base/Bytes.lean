/-! Byte-string utilities mirroring Go's `strings` package (bytes are naturals). -/
namespace Bytes

def ofString (s : String) : List Nat := s.toUTF8.toList.map (·.toNat)

/-- `strings.HasPrefix` -/
def hasPrefix : List Nat → List Nat → Bool
  | _, [] => true
  | [], _ :: _ => false
  | a :: s, b :: p => a == b && hasPrefix s p

/-- `strings.CutPrefix` -/
def cutPrefix : List Nat → List Nat → Option (List Nat)
  | s, [] => some s
  | [], _ :: _ => none
  | a :: s, b :: p => if a == b then cutPrefix s p else none

/-- `strings.Contains` -/
def contains : List Nat → List Nat → Bool
  | s, [] => (fun _ => true) s
  | [], _ :: _ => false
  | a :: s, p => hasPrefix (a :: s) p || contains s p

/-- `strings.Cut(s, sep)`: text before and after the first occurrence of `sep` -/
def cut : List Nat → List Nat → Option (List Nat × List Nat)
  | s, [] => some ([], s)
  | [], _ :: _ => none
  | a :: s, p =>
    match cutPrefix (a :: s) p with
    | some rest => some ([], rest)
    | none => match cut s p with
      | some (x, y) => some (a :: x, y)
      | none => none

def isDigit (b : Nat) : Bool := 48 ≤ b && b ≤ 57
def isLower (b : Nat) : Bool := 97 ≤ b && b ≤ 122
def isUpper (b : Nat) : Bool := 65 ≤ b && b ≤ 90
def toLower (b : Nat) : Nat := if isUpper b then b + 32 else b

/-- decimal digits → number -/
def digitsVal (ds : List Nat) : Nat := ds.foldl (fun acc b => acc * 10 + (b - 48)) 0

def natDigitsAux : Nat → Nat → List Nat → List Nat
  | 0, _, acc => acc
  | fuel + 1, n, acc => if n < 10 then (48 + n) :: acc else natDigitsAux fuel (n / 10) ((48 + n % 10) :: acc)

/-- `strconv.Itoa` for naturals -/
def natToDec (n : Nat) : List Nat := natDigitsAux (n + 1) n []

def intToDec (i : Int) : List Nat := if i < 0 then 45 :: natToDec i.natAbs else natToDec i.toNat

def lt : List Nat → List Nat → Bool
  | [], [] => false
  | [], _ :: _ => true
  | _ :: _, [] => false
  | a :: as, b :: bs => if a < b then true else if b < a then false else lt as bs

end Bytes
