import Verif.Driver.Codec
import Verif.Model.Parser
import Verif.Model.Lexer
/-! S-expression codecs for tokens and the syntax-level AST (C05). -/
namespace SyntaxCodec
open Sexp Syntax

def kOf (s : String) : Option K :=
  match s with
  | "comma" => some .comma | "dot" => some .dot | "lbrace" => some .lbrace | "rbrace" => some .rbrace | "eq" => some .eq
  | "neq" => some .neq | "re" => some .re | "nre" => some .nre | "pipeExact" => some .pipeExact | "pipeMatch" => some .pipeMatch
  | "pipe" => some .pipe | "unwrap" => some .unwrap | "lparen" => some .lparen | "rparen" => some .rparen | "by" => some .by_
  | "without" => some .without | "bool" => some .bool | "lbracket" => some .lbracket | "rbracket" => some .rbracket
  | "offset" => some .offset | "on" => some .on | "ignoring" => some .ignoring | "groupLeft" => some .groupLeft
  | "groupRight" => some .groupRight | "or" => some .or | "and" => some .and | "unless" => some .unless | "add" => some .add
  | "sub" => some .sub | "mul" => some .mul | "div" => some .div | "mod" => some .mod | "pow" => some .pow | "cmpEq" => some .cmpEq
  | "gt" => some .gt | "gte" => some .gte | "lt" => some .lt | "lte" => some .lte | "json" => some .json | "regexp" => some .regexp
  | "logfmt" => some .logfmt | "unpack" => some .unpack | "pattern" => some .pattern | "labelFormat" => some .labelFormat
  | "lineFormat" => some .lineFormat | "ip" => some .ip | "decolorize" => some .decolorize | "distinct" => some .distinct
  | "drop" => some .drop | "keep" => some .keep | "rate" => some .rate | "rateCounter" => some .rateCounter
  | "countOverTime" => some .countOverTime | "bytesRate" => some .bytesRate | "bytesOverTime" => some .bytesOverTime
  | "avgOverTime" => some .avgOverTime | "sumOverTime" => some .sumOverTime | "minOverTime" => some .minOverTime
  | "maxOverTime" => some .maxOverTime | "stdvarOverTime" => some .stdvarOverTime | "stddevOverTime" => some .stddevOverTime
  | "quantileOverTime" => some .quantileOverTime | "firstOverTime" => some .firstOverTime | "lastOverTime" => some .lastOverTime
  | "absentOverTime" => some .absentOverTime | "vector" => some .vector | "sum" => some .sum | "avg" => some .avg
  | "max" => some .max | "min" => some .min | "count" => some .count | "stddev" => some .stddev | "stdvar" => some .stdvar
  | "bottomk" => some .bottomk | "topk" => some .topk | "sort" => some .sort | "sortDesc" => some .sortDesc
  | "labelReplace" => some .labelReplace | "bytesConv" => some .bytesConv | "durationConv" => some .durationConv
  | "durationSecondsConv" => some .durationSecondsConv | "parserFlag" => some .parserFlag
  | _ => none

def kName : K → String
  | .comma => "comma"
  | .dot => "dot"
  | .lbrace => "lbrace"
  | .rbrace => "rbrace"
  | .eq => "eq"
  | .neq => "neq"
  | .re => "re"
  | .nre => "nre"
  | .pipeExact => "pipeExact"
  | .pipeMatch => "pipeMatch"
  | .pipe => "pipe"
  | .unwrap => "unwrap"
  | .lparen => "lparen"
  | .rparen => "rparen"
  | .by_ => "by"
  | .without => "without"
  | .bool => "bool"
  | .lbracket => "lbracket"
  | .rbracket => "rbracket"
  | .offset => "offset"
  | .on => "on"
  | .ignoring => "ignoring"
  | .groupLeft => "groupLeft"
  | .groupRight => "groupRight"
  | .or => "or"
  | .and => "and"
  | .unless => "unless"
  | .add => "add"
  | .sub => "sub"
  | .mul => "mul"
  | .div => "div"
  | .mod => "mod"
  | .pow => "pow"
  | .cmpEq => "cmpEq"
  | .gt => "gt"
  | .gte => "gte"
  | .lt => "lt"
  | .lte => "lte"
  | .json => "json"
  | .regexp => "regexp"
  | .logfmt => "logfmt"
  | .unpack => "unpack"
  | .pattern => "pattern"
  | .labelFormat => "labelFormat"
  | .lineFormat => "lineFormat"
  | .ip => "ip"
  | .decolorize => "decolorize"
  | .distinct => "distinct"
  | .drop => "drop"
  | .keep => "keep"
  | .rate => "rate"
  | .rateCounter => "rateCounter"
  | .countOverTime => "countOverTime"
  | .bytesRate => "bytesRate"
  | .bytesOverTime => "bytesOverTime"
  | .avgOverTime => "avgOverTime"
  | .sumOverTime => "sumOverTime"
  | .minOverTime => "minOverTime"
  | .maxOverTime => "maxOverTime"
  | .stdvarOverTime => "stdvarOverTime"
  | .stddevOverTime => "stddevOverTime"
  | .quantileOverTime => "quantileOverTime"
  | .firstOverTime => "firstOverTime"
  | .lastOverTime => "lastOverTime"
  | .absentOverTime => "absentOverTime"
  | .vector => "vector"
  | .sum => "sum"
  | .avg => "avg"
  | .max => "max"
  | .min => "min"
  | .count => "count"
  | .stddev => "stddev"
  | .stdvar => "stdvar"
  | .bottomk => "bottomk"
  | .topk => "topk"
  | .sort => "sort"
  | .sortDesc => "sortDesc"
  | .labelReplace => "labelReplace"
  | .bytesConv => "bytesConv"
  | .durationConv => "durationConv"
  | .durationSecondsConv => "durationSecondsConv"
  | .parserFlag => "parserFlag"

def tokS : Tok → Sexp
  | .ident b => .list [sym "id", ofBytes b]
  | .str b => .list [sym "str", ofBytes b]
  | .num b => .list [sym "num", ofBytes b]
  | .dur b => .list [sym "dur", ofBytes b]
  | .bytes b => .list [sym "bytes", ofBytes b]
  | .kw k => .list [sym "kw", sym (kName k)]

def tokOf (s : Sexp) : Tok :=
  match s.head?, s.args with
  | some "id", [t] => .ident t.toBytes
  | some "str", [t] => .str t.toBytes
  | some "num", [t] => .num t.toBytes
  | some "dur", [t] => .dur t.toBytes
  | some "bytes", [t] => .bytes t.toBytes
  | some "kw", [k] => .kw ((kOf k.symOf).getD .parserFlag)
  | _, _ => .kw .parserFlag

def reEnvOf (s : Sexp) : ReEnv :=
  let tbl : List (List Nat × Bool × List (Nat × List Nat)) := s.items.map fun e => match e.items with
    | [t, ok, names] => (t.toBytes, ok.toNat == 1, names.items.map fun n => match n.items with
        | [i, nm] => (i.toNat, nm.toBytes) | _ => (0, []))
    | _ => ([], false, [])
  { ok := fun t => ((tbl.find? (·.1 == t)).map (·.2.1)).getD false,
    names := fun t => ((tbl.find? (·.1 == t)).map (·.2.2)).getD [] }

def strOpS : LogQL.StrOp → Sexp
  | .eq => sym "eq" | .ne => sym "ne" | .re => sym "re" | .nre => sym "nre"
def cmpOpS : LogQL.CmpOp → Sexp
  | .eq => sym "eq" | .ne => sym "ne" | .gt => sym "gt" | .ge => sym "ge" | .lt => sym "lt" | .le => sym "le"

def matcherS (m : Matcher) : Sexp := .list [sym "m", ofBytes m.label, strOpS m.op, ofBytes m.value]
def bytesL (xs : List (List Nat)) : Sexp := .list (xs.map ofBytes)
def pairsL (xs : List (List Nat × List Nat)) : Sexp := .list (xs.map fun p => .list [ofBytes p.1, ofBytes p.2])
/-- exact value: the harness rounds it to float64 -/
def decS (q : Rat) : Sexp := .list [sym "q", ofInt q.num, ofNat q.den]

partial def predS : Pred → Sexp
  | .bin l isOr r => .list [sym (if isOr then "or" else "and"), predS l, predS r]
  | .paren p => .list [sym "paren", predS p]
  | .matcher m => matcherS m
  | .num l op v => .list [sym "num", ofBytes l, cmpOpS op, decS v]
  | .dur l op d => .list [sym "dur", ofBytes l, cmpOpS op, ofInt d]
  | .bytes l op n => .list [sym "bytes", ofBytes l, cmpOpS op, ofNat n]
  | .ip l op p => .list [sym "ip", ofBytes l, cmpOpS op, ofBytes p]

def stageS : Stage → Sexp
  | .lineFilter op v ip => .list [sym "lf", strOpS op, ofBytes v, ofNat (if ip then 1 else 0)]
  | .json ls es => .list [sym "json", bytesL ls, pairsL es]
  | .logfmt ls es => .list [sym "logfmt", bytesL ls, pairsL es]
  | .regexp p mp => .list [sym "regexp", ofBytes p, .list (mp.map fun x => .list [ofNat x.1, ofBytes x.2])]
  | .pattern p => .list [sym "pattern", ofBytes p]
  | .unpack => .list [sym "unpack"]
  | .lineFormat t => .list [sym "linefmt", ofBytes t]
  | .decolorize => .list [sym "decolorize"]
  | .labelFilter p => .list [sym "lblf", predS p]
  | .labelFormat rn tp => .list [sym "lblfmt", pairsL rn, pairsL tp]
  | .drop ls ms => .list [sym "drop", bytesL ls, .list (ms.map matcherS)]
  | .keep ls ms => .list [sym "keep", bytesL ls, .list (ms.map matcherS)]
  | .distinct ls => .list (sym "distinct" :: ls.map ofBytes)

def groupS : Option Grouping → Sexp
  | none => sym "none"
  | some g => .list (sym (if g.without then "without" else "by") :: g.labels.map ofBytes)

def rangeOpS : Metric.RangeOp → String
  | .count => "count_over_time" | .rate => "rate" | .bytes => "bytes_over_time" | .bytesRate => "bytes_rate"
  | .avg => "avg_over_time" | .sum => "sum_over_time" | .min => "min_over_time" | .max => "max_over_time"
  | .stdvar => "stdvar_over_time" | .stddev => "stddev_over_time" | .quantile => "quantile_over_time"
  | .first => "first_over_time" | .last => "last_over_time" | .absent => "absent_over_time" | .rateCounter => "rate_counter"

def vecOpS : Metric.VecOp → String
  | .sum => "sum" | .avg => "avg" | .count => "count" | .max => "max" | .min => "min" | .stddev => "stddev"
  | .stdvar => "stdvar" | .topk => "topk" | .bottomk => "bottomk" | .sort => "sort" | .sortDesc => "sort_desc"

def binOpS : Metric.BinOp → String
  | .or => "or" | .and => "and" | .unless => "unless" | .add => "add" | .sub => "sub" | .mul => "mul"
  | .div => "div" | .mod => "mod" | .pow => "pow" | .eq => "eq" | .ne => "ne" | .gt => "gt" | .ge => "ge"
  | .lt => "lt" | .le => "le"

def modS (m : Modifier) : Sexp :=
  .list [sym "mod", ofNat (if m.bool then 1 else 0),
    sym (match m.op with | none => "none" | some false => "on" | some true => "ignoring"), bytesL m.opLabels,
    sym (match m.group with | none => "none" | some false => "left" | some true => "right"), bytesL m.include_]

partial def exprS : Expr → Sexp
  | .log sel ss => .list [sym "log", .list (sel.map matcherS), .list (ss.map stageS)]
  | .range op p sel ss r o u g =>
    .list [sym "range", sym (rangeOpS op), (match p with | none => sym "none" | some q => decS q),
      .list (sel.map matcherS), .list (ss.map stageS), ofInt r,
      (match o with | none => sym "none" | some d => ofInt d),
      (match u with | none => sym "none" | some u => .list [sym "unwrap", ofBytes u.op, ofBytes u.label, .list (u.filters.map matcherS)]),
      groupS g]
  | .vagg op p g e => .list [sym "vagg", sym (vecOpS op), (match p with | none => sym "none" | some k => ofInt k), groupS g, exprS e]
  | .bin l op m r => .list [sym "bin", sym (binOpS op), modS m, exprS l, exprS r]
  | .lit v => .list [sym "lit", decS v]
  | .vector v => .list [sym "vector", decS v]
  | .paren e => .list [sym "paren", exprS e]
  | .labelReplace e d rp s rx => .list [sym "labelreplace", exprS e, ofBytes d, ofBytes rp, ofBytes s, ofBytes rx]

end SyntaxCodec
