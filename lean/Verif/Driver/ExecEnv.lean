import Verif.Model.LogQL
/-! The executable environment: the `Verif/Env` models plugged into `LogQL.Env`. -/
namespace ExecEnv
open Regex

def dig : Re := .cls false [(48, 57)]
def alnum : Re := .cls false [(97, 122), (65, 90), (48, 57)]
def rep0to4 (r : Re) : Re := .opt (.seq r (.opt (.seq r (.opt (.seq r (.opt r))))))
def rep1to4 (r : Re) : Re := .seq r (.opt (.seq r (.opt (.seq r (.opt r)))))

/-- `[\u001B\u009B][[\]()#;?]*(?:(?:(?:[a-zA-Z\d]*(?:;[a-zA-Z\d]*)*)?\u0007)|(?:(?:\d{1,4}(?:;\d{0,4})*)?[\dA-PRZcf-ntqry=><~]))` -/
def ansi : Re :=
  .seq (.alt (.chr 0x1B) (.seq (.chr 0xC2) (.chr 0x9B)))
  (.seq (.star (.cls false [(91, 91), (93, 93), (40, 41), (35, 35), (59, 59), (63, 63)]))
    (.alt
      (.seq (.opt (.seq (.star alnum) (.star (.seq (.chr 59) (.star alnum))))) (.chr 7))
      (.seq (.opt (.seq (rep1to4 dig) (.star (.seq (.chr 59) (rep0to4 dig)))))
        (.cls false [(48, 57), (65, 80), (82, 82), (90, 90), (99, 99), (102, 110), (116, 116), (113, 114), (121, 121), (61, 62), (60, 60), (126, 126)]))))

def env : LogQL.Env where
  reSearch := Regex.search
  reFull := Regex.fullMatch
  reSubmatch := Regex.submatch
  reFind := fun r s => (Regex.searchFrom r (Regex.fuelFor r s) (s.length + 1) s 0).map (fun x => (x.1, x.2.1))
  parseFloat := Num.parseFloat
  parseDuration := Num.parseDuration
  parseBytes := Num.parseBytes
  -- a well-formed IPv6 address is a valid address that no IPv4 pattern matches: it is represented by a
  -- value outside the IPv4 range (2^40), which `IPPat.matches` rejects for every pattern
  parseIP := fun s => match Num.parseIPv4 s with
    | some x => some x
    | none => if s.all (fun c => LogQL.isHexDigit c || c == 58) && LogQL.validIPv6 s then some 1099511627776 else none
  jsonObject := Json.readObject
  jsonExpr := JsonExpr.extract
  logfmt := Logfmt.read
  template := Template.exec
  ansi := ansi

end ExecEnv
