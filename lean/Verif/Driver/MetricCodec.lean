import Verif.Driver.LogQLCodec
import Verif.Model.Metric
/-! S-expression codecs for metric queries and results. -/
namespace MetricCodec
open Sexp Metric

def ratOf? (s : Sexp) : Option Rat :=
  match s.head?, s.args with
  | some "q", [n, d] => some ((n.toInt : Rat) / (d.toNat : Rat))
  | _, _ => none

def grouping (s : Sexp) : Option Grouping :=
  match s.head? with
  | some "by" => some ⟨false, s.args.map toBytes⟩
  | some "without" => some ⟨true, s.args.map toBytes⟩
  | _ => none

def rangeOp (s : String) : RangeOp :=
  match s with
  | "count_over_time" => .count | "rate" => .rate | "bytes_over_time" => .bytes | "bytes_rate" => .bytesRate
  | "avg_over_time" => .avg | "sum_over_time" => .sum | "min_over_time" => .min | "max_over_time" => .max
  | "stdvar_over_time" => .stdvar | "stddev_over_time" => .stddev | "quantile_over_time" => .quantile
  | "first_over_time" => .first | "last_over_time" => .last | "absent_over_time" => .absent | _ => .rateCounter

def vecOp (s : String) : VecOp :=
  match s with
  | "sum" => .sum | "avg" => .avg | "count" => .count | "max" => .max | "min" => .min
  | "stddev" => .stddev | "stdvar" => .stdvar | "topk" => .topk | "bottomk" => .bottomk | "sort" => .sort | _ => .sortDesc

def binOp (s : String) : BinOp :=
  match s with
  | "or" => .or | "and" => .and | "unless" => .unless | "add" => .add | "sub" => .sub | "mul" => .mul
  | "div" => .div | "mod" => .mod | "pow" => .pow | "eq" => .eq | "ne" => .ne | "gt" => .gt | "ge" => .ge
  | "lt" => .lt | _ => .le

def unwrap (s : Sexp) : Option Unwrap :=
  match s.head?, s.args with
  | some "unwrap", conv :: l :: ms =>
    some ⟨(match conv.symOf with | "bytes" => .bytes | "duration" => .duration | _ => .none), l.toBytes, ms.map LogQLCodec.matcher⟩
  | _, _ => none

instance : Inhabited Expr := ⟨.lit 0⟩

/-- returns the expression and whether every stage could be decoded into a buildable stage -/
partial def expr (s : Sexp) : Expr × Bool :=
  match s.head?, s.args with
  | some "range", [op, param, q, rng, off, uw, g] =>
    (match q.args with
     | [sel, stages] =>
       let st := stages.items.map LogQLCodec.stage
       (.range (rangeOp op.symOf) (ratOf? param) ⟨sel.items.map LogQLCodec.matcher, st.map (·.1)⟩ rng.toInt off.toInt (unwrap uw) (grouping g),
        st.all (·.2))
     | _ => (default, false))
  | some "vagg", [op, param, g, e] =>
    let r := expr e
    (.vagg (vecOp op.symOf) param.toInt? (grouping g) r.1, r.2)
  | some "bin", [op, bm, hm, l, r] =>
    let a := expr l
    let b := expr r
    (.bin (binOp op.symOf) (bm.toNat == 1) (hm.toNat == 1) a.1 b.1, a.2 && b.2)
  | some "lit", [v] => (.lit ((ratOf? v).getD 0), true)
  | some "vector", [v] => (.vector ((ratOf? v).getD 0), true)
  | _, _ => (default, false)

def valOut : Val → Sexp
  | .q r => .list [sym "q", ofInt r.num, ofNat r.den]
  | .nan => sym "nan"
  | .pinf => sym "pinf"
  | .ninf => sym "ninf"
  | .sqrt r => .list [sym "sqrt", ofInt r.num, ofNat r.den]
  | .unk => sym "unk"

def seriesOut (s : Series) : Sexp :=
  .list (sym "series" :: Codec.labelsOut (s.labels.filter (fun kv => kv.1 != LogQL.errorDetailsLabel)) :: s.points.map fun p => .list [sym "p", ofInt p.1, valOut p.2])

end MetricCodec
