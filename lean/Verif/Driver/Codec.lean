import Verif.Base.Sexp
import Verif.Env.Regex
/-! S-expression codecs shared by the driver's operations. -/
namespace Codec
open Sexp

partial def decodeRe (s : Sexp) : Regex.Re :=
  match s.head?, s.args with
  | some "chr", [n] => .chr n.toNat
  | some "cls", neg :: rs => .cls (neg.toNat == 1) (rs.map fun r => match r.items with
      | [lo, hi] => (lo.toNat, hi.toNat)
      | _ => (0, 0))
  | some "any", _ => .any
  | some "bol", _ => .bol
  | some "eol", _ => .eol
  | some "eps", _ => .eps
  | some "seq", [a, b] => .seq (decodeRe a) (decodeRe b)
  | some "alt", [a, b] => .alt (decodeRe a) (decodeRe b)
  | some "star", [r] => .star (decodeRe r)
  | some "plus", [r] => .plus (decodeRe r)
  | some "opt", [r] => .opt (decodeRe r)
  | some "grp", [i, r] => .grp i.toNat (decodeRe r)
  | _, _ => .eps

def bytesLt : List Nat → List Nat → Bool
  | [], [] => false
  | [], _ :: _ => true
  | _ :: _, [] => false
  | a :: as, b :: bs => if a < b then true else if b < a then false else bytesLt as bs

def insertSorted (kv : List Nat × List Nat) : List (List Nat × List Nat) → List (List Nat × List Nat)
  | [] => [kv]
  | x :: xs => if bytesLt kv.1 x.1 then kv :: x :: xs else x :: insertSorted kv xs

/-- canonical form of an association list: first binding of a key wins, sorted by key -/
def canonLabels (ls : List (List Nat × List Nat)) : List (List Nat × List Nat) :=
  let dedup := ls.foldl (fun acc kv => if acc.any (·.1 == kv.1) then acc else acc ++ [kv]) []
  dedup.foldl (fun acc kv => insertSorted kv acc) []

def labelsOut (ls : List (List Nat × List Nat)) : Sexp :=
  .list ((canonLabels ls).map fun kv => .list [ofBytes kv.1, ofBytes kv.2])

def decodePairs (s : Sexp) : List (List Nat × List Nat) :=
  s.items.map fun p => match p.items with
    | [k, v] => (k.toBytes, v.toBytes)
    | _ => ([], [])

end Codec
