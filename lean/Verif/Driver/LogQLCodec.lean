import Verif.Driver.Codec
import Verif.Model.LogEval
/-! S-expression codecs for log queries, records and results. -/
namespace LogQLCodec
open Sexp LogQL

def strOp (s : Sexp) : StrOp :=
  match s.symOf with
  | "eq" => .eq | "ne" => .ne | "re" => .re | _ => .nre

def cmpOp (s : Sexp) : CmpOp :=
  match s.symOf with
  | "eq" => .eq | "ne" => .ne | "gt" => .gt | "ge" => .ge | "lt" => .lt | _ => .le

def matcher (s : Sexp) : StrMatcher :=
  match s.args with
  | [l, op, v] => ⟨l.toBytes, strOp op, v.toBytes, .eps⟩
  | [l, op, v, re] => ⟨l.toBytes, strOp op, v.toBytes, Codec.decodeRe re⟩
  | _ => ⟨[], .eq, [], .eps⟩

def ratOf (s : Sexp) : Rat :=
  match s.args with
  | [n, d] => (n.toInt : Rat) / (d.toNat : Rat)
  | _ => 0

def ipPat (s : Sexp) : Num.IPPat := (Num.parseIPPat s.toBytes).getD (.range 1 0)
def ipPatOk (s : Sexp) : Bool := (Num.parseIPPat s.toBytes).isSome

instance : Inhabited Pred := ⟨.str ⟨[], .eq, [], .eps⟩⟩

partial def pred (s : Sexp) : Pred :=
  match s.head?, s.args with
  | some "and", [a, b] => .and (pred a) (pred b)
  | some "or", [a, b] => .or (pred a) (pred b)
  | some "paren", [a] => .paren (pred a)
  | some "m", _ => .str (matcher s)
  | some "num", [l, op, q] => .num l.toBytes (cmpOp op) (ratOf q)
  | some "dur", [l, op, n] => .dur l.toBytes (cmpOp op) n.toInt
  | some "bytes", [l, op, n] => .bytes l.toBytes (cmpOp op) n.toNat
  | some "ip", [l, neg, p] => .ip l.toBytes (neg.toNat == 1) (ipPat p)
  | _, _ => default

partial def predIpOk (s : Sexp) : Bool :=
  match s.head?, s.args with
  | some "and", [a, b] => predIpOk a && predIpOk b
  | some "or", [a, b] => predIpOk a && predIpOk b
  | some "paren", [a] => predIpOk a
  | some "ip", [_, _, p] => ipPatOk p
  | _, _ => true

def tpl (s : Sexp) : Template.Tpl :=
  s.items.map fun p => match p.head?, p.args with
    | some "lit", [b] => .lit b.toBytes
    | some "field", [n] => .field n.toBytes
    | some "line", _ => .line
    | some "ts", _ => .ts
    | some "epoch", [n] => .epoch n.toBytes
    | _, _ => .fail

def path (s : Sexp) : JsonExpr.Path :=
  s.items.map fun p => match p.head?, p.args with
    | some "k", [k] => .key k.toBytes
    | some "i", [i] => .idx i.toNat
    | _, _ => .idx 0

def bytesList (s : Sexp) : List Bytes := s.items.map toBytes

/-- a stage, and whether it is buildable for reasons the AST cannot carry (invalid IP pattern) -/
def stage (s : Sexp) : Stage × Bool :=
  match s.head?, s.args with
  | some "lf", op :: v :: rest => (.lineFilter (strOp op) v.toBytes (match rest with | [re] => Codec.decodeRe re | _ => .eps), true)
  | some "lfip", [neg, p] => (.lineFilterIP (neg.toNat == 1) (ipPat p), ipPatOk p)
  | some "json", [ls, es] => (.json (bytesList ls) (es.items.map fun e => match e.items with
      | [l, p] => (l.toBytes, path p) | _ => ([], [])), true)
  | some "logfmt", [ls, es] => (.logfmt (bytesList ls) (es.items.map fun e => match e.items with
      | [l, k] => (l.toBytes, k.toBytes) | _ => ([], [])), true)
  | some "regexp", [re, n, mp] => (.regexp (Codec.decodeRe re) n.toNat (mp.items.map fun e => match e.items with
      | [i, l] => (i.toNat, l.toBytes) | _ => (0, [])), true)
  | some "pattern", [ps] => (.pattern (ps.items.map fun p => match p.head?, p.args with
      | some "cap", [n] => .cap n.toBytes
      | _, [b] => .lit b.toBytes
      | _, _ => .lit []), true)
  | some "unpack", _ => (.unpack, true)
  | some "linefmt", [t] => (.lineFormat (tpl t), true)
  | some "decolorize", _ => (.decolorize, true)
  | some "lblf", [p] => (.labelFilter (pred p), predIpOk p)
  | some "lblfmt", [rs, ts] => (.labelFormat (rs.items.map fun e => match e.items with
      | [d, s] => (d.toBytes, s.toBytes) | _ => ([], [])) (ts.items.map fun e => match e.items with
      | [d, t] => (d.toBytes, tpl t) | _ => ([], [])), true)
  | some "drop", [ns, ms] => (.drop (bytesList ns) (ms.items.map matcher), true)
  | some "keep", [ns, ms] => (.keep (bytesList ns) (ms.items.map matcher), true)
  | some "distinct", ls => (.distinct (ls.map toBytes), true)
  | _, _ => (.unpack, false)

def recOf (s : Sexp) : Rec :=
  match s.args with
  | [ts, body, attrs] => ⟨ts.toInt, body.toBytes, Codec.decodePairs attrs⟩
  | _ => ⟨0, [], []⟩

def caps (s : Sexp) : Caps :=
  match s.args with
  | [ls, ns] =>
    let has (xs : Sexp) (op : StrOp) : Bool := xs.items.any fun x => strOp x == op
    ⟨has ls, has ns⟩
  | _ => Caps.none

def entryLt (a b : Int × Bytes) : Bool := a.1 < b.1 || (a.1 == b.1 && Bytes.lt a.2 b.2)

def sortEntries (xs : List (Int × Bytes)) : List (Int × Bytes) :=
  xs.foldl (fun acc x =>
    let rec ins : List (Int × Bytes) → List (Int × Bytes)
      | [] => [x]
      | y :: ys => if entryLt x y then x :: y :: ys else y :: ins ys
    ins acc) []

/-- nested JSON values are rendered by pdata on the Go side: both sides replace a value that looks
like a JSON array/object by a placeholder -/
def normValue (v : Bytes) : Bytes := v

def outLabels (s : Stream) : Sexp :=
  Codec.labelsOut ((s.labels.filter (fun kv => kv.1 != errorDetailsLabel)).map (fun kv => (kv.1, normValue kv.2)))

def streamOut (ls : Sexp) (es : List (Int × Bytes)) : Sexp :=
  .list (sym "stream" :: ls :: (sortEntries es).map fun e => .list [sym "e", ofInt e.1, ofBytes e.2])

/-- streams whose printed label sets coincide (they differ only in `__error_details__` or in the
text of a nested value, neither of which is compared) are merged, as the harness does -/
def mergeStreams (ss : List Stream) : List (Sexp × List (Int × Bytes)) :=
  ss.foldl (fun acc s =>
    let key := outLabels s
    if acc.any (fun p => toString p.1 == toString key) then
      acc.map (fun p => if toString p.1 == toString key then (p.1, p.2 ++ s.entries) else p)
    else acc ++ [(key, s.entries)]) []

def sortSexps (xs : List Sexp) : List Sexp :=
  xs.foldl (fun acc x =>
    let rec ins : List Sexp → List Sexp
      | [] => [x]
      | y :: ys => if toString x < toString y then x :: y :: ys else y :: ins ys
    ins acc) []

def streamsOut (ss : List Stream) : Sexp :=
  .list (sym "ok" :: sortSexps ((mergeStreams ss).map fun p => streamOut p.1 p.2))

end LogQLCodec
