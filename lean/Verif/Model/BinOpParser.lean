import Verif.Model.Metric
/-! Model of `parser.parseBinOp` (internal/logql/parser_metric_expr.go): the two nested loops that
build binary-operator trees, over a token stream of operands, operators and parentheses, with the
precedence table as a parameter (instantiated with the regenerated `Gen.prec`).
`climb` is textbook precedence climbing parametrised by an associativity table — the specification
the parser is compared with. -/
namespace BinOpParser
open Metric

inductive Tree where
  | leaf (n : Nat)
  | node (l : Tree) (op : BinOp) (r : Tree)
  | paren (t : Tree)
  deriving DecidableEq, Repr, Inhabited

inductive Tok where
  | num (n : Nat)
  | op (o : BinOp)
  | lparen
  | rparen
  deriving DecidableEq, Repr

def peekOp : List Tok → Option BinOp
  | .op o :: _ => some o
  | _ => none

mutual
/-- `parseMetricExpr1`: an operand or a parenthesised expression -/
def parse1 (prec : BinOp → Nat) (fuel : Nat) (toks : List Tok) : Option (Tree × List Tok) :=
  match fuel with
  | 0 => none
  | fuel + 1 =>
    match toks with
    | .num n :: rest => some (.leaf n, rest)
    | .lparen :: rest =>
      match parse1 prec fuel rest with
      | none => none
      | some (l, rest1) =>
        match parseBinOp prec fuel l 0 rest1 with
        | some (t, .rparen :: rest2) => some (.paren t, rest2)
        | _ => none
    | _ => none

/-- the outer loop of `parseBinOp` -/
def parseBinOp (prec : BinOp → Nat) (fuel : Nat) (left : Tree) (minPrec : Nat) (toks : List Tok) : Option (Tree × List Tok) :=
  match fuel with
  | 0 => none
  | fuel + 1 =>
    match peekOp toks with
    | none => some (left, toks)
    | some op =>
      if prec op < minPrec then some (left, toks) else
      match parse1 prec fuel toks.tail with
      | none => none
      | some (right, rest) =>
        match inner prec fuel op right rest with
        | none => none
        | some (right', rest') => parseBinOp prec fuel (.node left op right') minPrec rest'

/-- the inner loop: while the next operator binds at least as tightly, extend the right operand -/
def inner (prec : BinOp → Nat) (fuel : Nat) (op : BinOp) (right : Tree) (toks : List Tok) : Option (Tree × List Tok) :=
  match fuel with
  | 0 => none
  | fuel + 1 =>
    match peekOp toks with
    | none => some (right, toks)
    | some rop =>
      if prec rop < prec op then some (right, toks) else
      match parseBinOp prec fuel right (if prec rop > prec op then prec op + 1 else prec op) toks with
      | none => none
      | some (right', rest') => inner prec fuel op right' rest'
end

def parseExpr (prec : BinOp → Nat) (toks : List Tok) : Option Tree :=
  match parse1 prec (2 * toks.length + 2) toks with
  | none => none
  | some (l, rest) =>
    match parseBinOp prec (2 * toks.length + 2) l 0 rest with
    | some (t, []) => some t
    | _ => none

/-! ### specification: precedence climbing with an associativity table -/

mutual
def spec1 (prec : BinOp → Nat) (ra : BinOp → Bool) (fuel : Nat) (toks : List Tok) : Option (Tree × List Tok) :=
  match fuel with
  | 0 => none
  | fuel + 1 =>
    match toks with
    | .num n :: rest => some (.leaf n, rest)
    | .lparen :: rest =>
      match spec1 prec ra fuel rest with
      | none => none
      | some (l, rest1) =>
        match climb prec ra fuel l 0 rest1 with
        | some (t, .rparen :: rest2) => some (.paren t, rest2)
        | _ => none
    | _ => none

def climb (prec : BinOp → Nat) (ra : BinOp → Bool) (fuel : Nat) (left : Tree) (minPrec : Nat) (toks : List Tok) : Option (Tree × List Tok) :=
  match fuel with
  | 0 => none
  | fuel + 1 =>
    match peekOp toks with
    | none => some (left, toks)
    | some op =>
      if prec op < minPrec then some (left, toks) else
      match spec1 prec ra fuel toks.tail with
      | none => none
      | some (r0, rest) =>
        match climb prec ra fuel r0 (if ra op then prec op else prec op + 1) rest with
        | none => none
        | some (r, rest') => climb prec ra fuel (.node left op r) minPrec rest'
end

def specExpr (prec : BinOp → Nat) (ra : BinOp → Bool) (toks : List Tok) : Option Tree :=
  match spec1 prec ra (2 * toks.length + 2) toks with
  | none => none
  | some (l, rest) =>
    match climb prec ra (2 * toks.length + 2) l 0 rest with
    | some (t, []) => some t
    | _ => none

/-- every operator right-associative: what the parser implements -/
def allRight (_ : BinOp) : Bool := true
/-- the arithmetic convention: only `^` associates to the right -/
def conventional : BinOp → Bool
  | .pow => true
  | _ => false

/-- tokens of the chain `0 op₁ 1 op₂ 2 …` -/
def chainToks (ops : List BinOp) : List Tok :=
  Tok.num 0 :: (ops.zipIdx.flatMap fun (o, i) => [Tok.op o, Tok.num (i + 1)])

def allOps : List BinOp := [.or, .and, .unless, .add, .sub, .mul, .div, .mod, .pow, .eq, .ne, .gt, .ge, .lt, .le]

def allChains : Nat → List (List BinOp)
  | 0 => [[]]
  | n + 1 => (allChains n).flatMap fun c => allOps.map fun o => o :: c

/-- exact arithmetic value of a tree with operands 0,1,2,… replaced by `vals` (for witnesses) -/
def evalTree (vals : List Rat) : Tree → Val
  | .leaf n => .q (vals.getD n 0)
  | .paren t => evalTree vals t
  | .node l op r => (sampleOp op false (evalTree vals l) (evalTree vals r)).getD .unk

end BinOpParser
