import Verif.Model.LogQL
/-! Model of log-query evaluation (`eval_streams.go`, `precondition.go`): offload split, ideal
backend, `entryIterator` with limit, grouping into streams. -/
namespace LogQL

structure Rec where
  ts : Int
  body : Bytes
  attrs : Labels         -- record attributes (already label-named), in iteration order
  deriving Repr

structure Entry where
  ts : Int
  line : Bytes
  labels : Labels
  deriving Repr

/-- `LabelSet.SetFromRecord`: `msg` = body when non-empty, then the attributes (later wins) -/
def recLabels (r : Rec) : Labels :=
  let base : Labels := if r.body.isEmpty then [] else [(Bytes.ofString "msg", r.body)]
  setAll base r.attrs

structure LogQuery where
  sel : List StrMatcher
  stages : List Stage
  deriving Repr

/-- which string operators the storage evaluates itself -/
structure Caps where
  label : StrOp → Bool
  line : StrOp → Bool

def Caps.none : Caps := ⟨fun _ => false, fun _ => false⟩

/-- classification of a stage by `extractQueryConditions` (regenerated as `Gen.Offload`) -/
inductive StageClass | lineFilter | skip | stop
  deriving DecidableEq, Repr

structure LineCond where
  op : StrOp
  value : Bytes
  re : Regex.Re

/-- the line filters handed to the backend: those in front of the first `stop` stage whose
operator the backend supports (IP filters are never offloaded) -/
def offloadLines (classify : Stage → StageClass) (caps : Caps) : List Stage → List LineCond
  | [] => []
  | s :: ss =>
    match classify s with
    | .stop => []
    | .skip => offloadLines classify caps ss
    | .lineFilter =>
      match s with
      | .lineFilter op v re => if caps.line op then ⟨op, v, re⟩ :: offloadLines classify caps ss else offloadLines classify caps ss
      | _ => offloadLines classify caps ss

def LineCond.sat (env : Env) (c : LineCond) (line : Bytes) : Bool :=
  match c.op with
  | .eq => Bytes.contains line c.value
  | .ne => !Bytes.contains line c.value
  | .re => env.reSearch c.re line
  | .nre => !env.reSearch c.re line

/-- an ideal backend: applies exactly the conditions it was handed -/
def backendSelect (env : Env) (offLabels : List StrMatcher) (offLines : List LineCond) (recs : List Rec) : List Rec :=
  recs.filter fun r => offLabels.all (fun m => m.sat env (recLabels r)) && offLines.all (fun c => c.sat env r.body)

/-- `entryIterator.Next` drained: prefilter (selector matchers the backend did not take),
pipeline, limit tested after pulling a record -/
def iterate (env : Env) (pre : List StrMatcher) (stages : List Stage) (limit : Int) :
    List Rec → List Seen → Nat → List Entry
  | [], _, _ => []
  | r :: rs, seens, count =>
    if limit > 0 ∧ (count : Int) ≥ limit then []
    else
      let ls := recLabels r
      if !(pre.all (fun m => m.sat env ls)) then iterate env pre stages limit rs seens count
      else
        match runStages env r.ts stages seens ⟨r.body, ls⟩ with
        | (none, seens') => iterate env pre stages limit rs seens' count
        | (some a, seens') => ⟨r.ts, a.line, a.labels⟩ :: iterate env pre stages limit rs seens' (count + 1)

inductive EvalErr | build
  deriving DecidableEq, Repr

/-- log query evaluation against a backend with capabilities `caps` -/
def entries (env : Env) (classify : Stage → StageClass) (caps : Caps) (q : LogQuery) (recs : List Rec) (limit : Int) :
    Except EvalErr (List Entry) :=
  if !(q.stages.all Stage.buildOk) then .error .build
  else
    let offLabels := q.sel.filter (fun m => caps.label m.op)
    let pre := q.sel.filter (fun m => !caps.label m.op)
    let offLines := offloadLines classify caps q.stages
    .ok (iterate env pre q.stages limit (backendSelect env offLabels offLines recs) [] 0)

/-- the specification: nothing is offloaded, every selector matcher is a filter -/
def specEntries (env : Env) (q : LogQuery) (recs : List Rec) (limit : Int) : Except EvalErr (List Entry) :=
  if !(q.stages.all Stage.buildOk) then .error .build
  else .ok (iterate env q.sel q.stages limit recs [] 0)

/-! ### grouping (`groupEntries`) -/

structure Stream where
  labels : Labels
  entries : List (Int × Bytes)
  deriving Repr

/-- label sets are compared as finite maps -/
def sameLabels (a b : Labels) : Bool :=
  a.all (fun kv => b.lookup kv.1 == some kv.2) && b.all (fun kv => a.lookup kv.1 == some kv.2)

def insertEntry (e : Entry) : List Stream → List Stream
  | [] => [⟨e.labels, [(e.ts, e.line)]⟩]
  | s :: ss => if sameLabels s.labels e.labels then { s with entries := s.entries ++ [(e.ts, e.line)] } :: ss
               else s :: insertEntry e ss

def insertByTs (x : Int × Bytes) : List (Int × Bytes) → List (Int × Bytes)
  | [] => [x]
  | y :: ys => if x.1 < y.1 then x :: y :: ys else y :: insertByTs x ys

/-- stable sort by timestamp -/
def sortByTs (xs : List (Int × Bytes)) : List (Int × Bytes) := xs.foldl (fun acc x => insertByTs x acc) []

def group (es : List Entry) : List Stream :=
  (es.foldl (fun acc e => insertEntry e acc) []).map fun s => { s with entries := sortByTs s.entries }

end LogQL
