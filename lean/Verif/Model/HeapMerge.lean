import Verif.Model.Merge
/-! Operational model of `dockerlog.mergeIter` (internal/dockerlog/merge_iter.go) over Go's
`container/heap`: the heap is a list used as an array, `up` / `down` are the library's sift loops
(`heap.Push` = append + `up`, `heap.Pop` = swap first and last + `down` on the shortened prefix + remove
the last), `less` compares timestamps only, and `Next` pops the minimum, refills from the same source and
pushes the refill.  `merge srcs` is the exact output sequence, ties included.

The relational specification `Merge.Run` (any tie-break) is what the property theorems are stated on;
`HeapMerge` ties it to the algorithm that exists: `Run srcs (merge srcs)` is proved in
Lemmas/HeapMerge.lean, and the correspondence compares `merge` with the implementation's output order
record for record. -/
namespace HeapMerge
open Merge

/-- heap element: the head record of a source and the rest of that source -/
structure Elem where
  head : Rec
  tail : List Rec
  deriving Repr

abbrev Heap := List Elem

def less (h : Heap) (i j : Nat) : Bool :=
  match h[i]?, h[j]? with
  | some a, some b => decide (a.head.ts < b.head.ts)
  | _, _ => false

def swap (h : Heap) (i j : Nat) : Heap :=
  match h[i]?, h[j]? with
  | some a, some b => (h.set i b).set j a
  | _, _ => h

/-- `heap.up(h, j)` -/
def up : Nat → Heap → Nat → Heap
  | 0, h, _ => h
  | fuel + 1, h, j =>
    let i := (j - 1) / 2          -- parent
    if j = 0 || i = j || !less h j i then h
    else up fuel (swap h i j) i

/-- `heap.down(h, i0, n)`: sift within the first `n` elements -/
def down : Nat → Heap → Nat → Nat → Heap
  | 0, h, _, _ => h
  | fuel + 1, h, i, n =>
    let j1 := 2 * i + 1
    if j1 ≥ n then h
    else
      let j := if j1 + 1 < n && less h (j1 + 1) j1 then j1 + 1 else j1
      if !less h j i then h
      else down fuel (swap h i j) j n

/-- `heap.Push` -/
def push (h : Heap) (e : Elem) : Heap :=
  let h' := h ++ [e]
  up h'.length h' (h'.length - 1)

/-- `heap.Pop`: the minimum and the remaining heap -/
def pop (h : Heap) : Option (Elem × Heap) :=
  match h with
  | [] => none
  | _ :: _ =>
    let n := h.length - 1
    let h1 := swap h 0 n
    let h2 := down (n + 1) h1 0 n
    match h2[n]? with
    | some e => some (e, h2.take n)
    | none => none

/-- `mergeIter.init`: the head of every non-empty source, pushed in source order -/
def init (srcs : List (List Rec)) : Heap :=
  srcs.foldl (fun h s => match s with
    | [] => h
    | r :: rest => push h ⟨r, rest⟩) []

/-- repeated `Next` -/
def drain : Nat → Heap → List Rec
  | 0, _ => []
  | fuel + 1, h =>
    match pop h with
    | none => []
    | some (e, h') =>
      match e.tail with
      | [] => e.head :: drain fuel h'
      | r :: rest => e.head :: drain fuel (push h' ⟨r, rest⟩)

/-- the merged stream -/
def merge (srcs : List (List Rec)) : List Rec :=
  drain (srcs.flatten.length + 1) (init srcs)

end HeapMerge
