import Verif.Env.Num
import Verif.Model.Rfc3339
/-! Model of `parseTimestamp`, `parseTimeRange`, `parseStep`, `defaultStep`, `parseDuration`
(cmd/docker-logql/params.go) and of `model.ParseDuration` (prometheus/common).  Instants and
durations are `Int` nanoseconds. -/
namespace Flags
open Bytes

/-- `model.ParseDuration`: `(\d+y)?(\d+w)?(\d+d)?(\d+h)?(\d+m)?(\d+s)?(\d+ms)?`, non-empty, or "0" -/
def promUnits : List (List Nat × Int) :=
  [([121], 365 * 24 * 3600 * 1000), ([119], 7 * 24 * 3600 * 1000), ([100], 24 * 3600 * 1000), ([104], 3600 * 1000),
   ([109], 60 * 1000), ([115], 1000), ([109, 115], 1)]

/-- parse the remaining `number unit` groups, units in the fixed order `units` -/
def promLoop : Nat → List Nat → List (List Nat × Int) → Int → Option Int
  | 0, _, _, _ => none
  | fuel + 1, s, units, acc =>
    if s.isEmpty then some acc else
    let ds := s.takeWhile isDigit
    let r := s.dropWhile isDigit
    if ds.isEmpty then none else
    -- the unit is the longest of "ms", then single letters; it must be one of the remaining units
    let u : List Nat := match r with
      | 109 :: 115 :: _ => [109, 115]
      | c :: _ => [c]
      | [] => []
    match units.dropWhile (fun p => p.1 != u) with
    | [] => none
    | (_, ms) :: rest => promLoop fuel (r.drop u.length) rest (acc + (digitsVal ds : Int) * ms)

/-- milliseconds → nanoseconds; `none` = error -/
def parsePromDuration (s : List Nat) : Option Int :=
  if s == [48] then some 0
  else if s.isEmpty then none
  else (promLoop (s.length + 1) s promUnits 0).map (· * 1000000)

/-- round half away from zero -/
def roundRat (q : Rat) : Int :=
  if q ≥ 0 then (q + 1/2).floor else -((-q + 1/2).floor)

/-- `parseTimestamp(value, def)` -/
def parseTimestamp (v : List Nat) (dflt : Int) : Option Int :=
  if v.isEmpty then some dflt else
  let viaInt : Option Int :=
    -- strconv.ParseInt(value, 10, 64)
    let (neg, r) := match v with
      | 45 :: r => (true, r)
      | 43 :: r => (false, r)
      | _ => (false, v)
    if !r.isEmpty && r.all isDigit then
      let n : Int := digitsVal r
      let n := if neg then -n else n
      if n < -9223372036854775808 || n > 9223372036854775807 then none
      else some (if v.length ≤ 10 then n * 1000000000 else n)
    else none
  let fallback : Option Int :=
    match viaInt with
    | some t => some t
    | none =>
      -- an out-of-range integer is an error of ParseInt, then RFC3339 is tried
      Rfc3339.parse v
  if v.contains 46 then
    match Num.parseFloat v with
    | some q =>
      let s : Int := if q ≥ 0 then q.floor else -((-q).floor)       -- math.Modf: integer part toward zero
      let frac : Rat := q - (s : Rat)
      let ms : Int := roundRat (frac * 1000)
      some (s * 1000000000 + ms * 1000000)
    | none => fallback
  else fallback

/-- `parseTimeRange(now, start?, end?, since?)` -/
def parseTimeRange (now : Int) (start end_ since : Option (List Nat)) : Option (Int × Int) :=
  let since? : Option Int := match since with
    | none => some (6 * 3600 * 1000000000)
    | some s => parsePromDuration s
  match since? with
  | none => none
  | some sinceNs =>
    match parseTimestamp (end_.getD []) now with
    | none => none
    | some e =>
      let endOrNow := if e > now then now else e
      match parseTimestamp (start.getD []) (endOrNow - sinceNs) with
      | none => none
      | some s => some (s, e)

/-- `defaultStep` -/
def defaultStep (start end_ : Int) : Int :=
  let secs : Int := ((end_ - start : Int) : Rat) / 1000000000 / 250 |>.floor
  (if secs < 1 then 1 else secs) * 1000000000

/-- `parseDuration` + the positivity check of `parseStep` (repaired): plain seconds or a Prometheus
duration, strictly positive -/
def parseStep (step : Option (List Nat)) (start end_ : Int) : Option Int :=
  match step with
  | none => some (defaultStep start end_)
  | some v =>
    let d? : Option Int :=
      if !(v.any (fun c => c == 115 || c == 109 || c == 104 || c == 100 || c == 119 || c == 121)) then
        match Num.parseFloat v with
        | some q => some (let n := q * 1000000000; if n ≥ 0 then n.floor else -((-n).floor))
        | none => parsePromDuration v
      else parsePromDuration v
    match d? with
    | some d => if d > 0 then some d else none
    | none => none

end Flags
