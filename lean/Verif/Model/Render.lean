import Verif.Base.Bytes
import Verif.Base.Time
/-! Model of `renderResult` (cmd/docker-logql/query.go) and the palette (color.go).
The palette index expression and length are parameters; `Gen/Palette.lean` (regenerated from the
source by a go/ast translation) supplies the actual ones. -/
namespace Render
open Bytes

structure Opts where
  timestamp : Bool
  container : Bool
  color : Bool
  deriving Repr

structure Entry where
  t : Nat            -- uint64 nanoseconds
  v : List Nat
  container : List Nat
  deriving Repr, DecidableEq

/-- one stream: its `container` label (empty when absent) and its entries -/
structure Stream where
  container : List Nat
  entries : List (Nat × List Nat)
  deriving Repr

def pad (w : Nat) (n : Nat) : List Nat :=
  let d := natToDec n
  List.replicate (w - d.length) 48 ++ d

/-- fraction of a second as printed by `.999999999`: trailing zeros trimmed, nothing if zero -/
def fracText (ns : Nat) : List Nat :=
  if ns == 0 then [] else
  let d := pad 9 ns
  46 :: (d.reverse.dropWhile (· == 48)).reverse

/-- `time.Unix(0, t).UTC().AppendFormat(_, time.RFC3339Nano)` for years 1970–9999 -/
def rfc3339Nano (t : Nat) : List Nat :=
  let secs := t / 1000000000
  let days := secs / 86400
  let rem := secs % 86400
  let ymd := Time.civilFromDays days
  pad 4 ymd.1 ++ [45] ++ pad 2 ymd.2.1 ++ [45] ++ pad 2 ymd.2.2 ++ [84] ++
    pad 2 (rem / 3600) ++ [58] ++ pad 2 (rem % 3600 / 60) ++ [58] ++ pad 2 (rem % 60) ++
    fracText (t % 1000000000) ++ [90]

/-- `strings.TrimRight(s, "\r\n")` -/
def trimRight (s : List Nat) : List Nat := (s.reverse.dropWhile (fun c => c == 13 || c == 10)).reverse

def ansi (code : List Nat) : List Nat := [27, 91] ++ code ++ [109]
def resetColor : List Nat := ansi [48]
def blue : List Nat := ansi (natToDec 34)
/-- colour of palette entry `i`: `ansi(strconv.Itoa(30 + i))` -/
def paletteColor (i : Nat) : List Nat := ansi (natToDec (30 + i))

def flatten (ss : List Stream) : List Entry :=
  ss.flatMap fun s => s.entries.map fun e => ⟨e.1, e.2, s.container⟩

/-- containers in order of first appearance among the entries -/
def containersOf (es : List Entry) : List (List Nat) :=
  es.foldl (fun acc e => if acc.any (· == e.container) then acc else acc ++ [e.container]) []

/-- colour assignment: the k-th distinct container gets palette entry `index k len`; `none` when the
index is outside the palette (the Go code panics) -/
def colorTable (index : Nat → Nat → Nat) (len : Nat) (cs : List (List Nat)) : Option (List (List Nat × List Nat)) :=
  (cs.zipIdx.map fun (c, k) => (c, index k len)).foldr
    (fun (ci : List Nat × Nat) acc =>
      match acc with
      | none => none
      | some l => if ci.2 < len then some ((ci.1, paletteColor ci.2) :: l) else none) (some [])

def insertByT (x : Entry) : List Entry → List Entry
  | [] => [x]
  | y :: ys => if x.t < y.t then x :: y :: ys else y :: insertByT x ys

def sortByT (es : List Entry) : List Entry := es.foldl (fun acc e => insertByT e acc) []

def lineOf (o : Opts) (colors : List (List Nat × List Nat)) (e : Entry) : List Nat :=
  (if o.container then
     (if o.color then (colors.lookup e.container).getD [] else []) ++ e.container ++
     (if o.color then resetColor else []) ++ [32]
   else []) ++
  (if o.timestamp then
     (if o.color then blue else []) ++ rfc3339Nano e.t ++ (if o.color then resetColor else []) ++ [32]
   else []) ++
  trimRight e.v ++ [10]

/-- `renderResult`: `none` = panic -/
def render (index : Nat → Nat → Nat) (len : Nat) (o : Opts) (ss : List Stream) : Option (List Nat) :=
  let es := flatten ss
  match (if o.color then colorTable index len (containersOf es) else some []) with
  | none => none
  | some colors => some ((sortByT es).flatMap (lineOf o colors))

end Render
