import Verif.Model.Syntax
/-! Model of the recursive-descent parser `logql.Parse` over the token list produced by the lexer
(internal/logql/parser*.go), production by production, including the static rules (`validate()`,
duplicate `label_format` target, regex validity, named-group labels, scalars in logical operations).
`none` = the parser returns an error.  Recursion (predicates, metric expressions) is fuelled. -/
namespace Parser
open Syntax
open LogQL (StrOp CmpOp)
open Metric (BinOp RangeOp VecOp)

abbrev Toks := List Tok

def strOpOf : K → Option StrOp
  | .eq => some .eq | .neq => some .ne | .re => some .re | .nre => some .nre
  | _ => none

/-- `parseLabelMatcher`: `ident (=|!=|=~|!~) string`, regex must compile -/
def labelMatcher (re : ReEnv) : Toks → Option (Matcher × Toks)
  | .ident l :: .kw k :: .str v :: rest =>
    match strOpOf k with
    | some op => if (op == .re || op == .nre) && !re.ok v then none else some (⟨l, op, v⟩, rest)
    | none => none
  | _ => none

/-- the loop of `parseSelector` after `{` -/
def matchersLoop (re : ReEnv) : Nat → Toks → Option (List Matcher × Toks)
  | 0, _ => none
  | fuel + 1, toks =>
    match labelMatcher re toks with
    | none => none
    | some (m, rest) =>
      match rest with
      | .kw .rbrace :: rest' => some ([m], rest')
      | .kw .comma :: rest' =>
        match matchersLoop re fuel rest' with
        | some (ms, r) => some (m :: ms, r)
        | none => none
      | _ => none

/-- `parseSelector` (also accepts a parenthesised selector) -/
def selector (re : ReEnv) : Nat → Toks → Option (List Matcher × Toks)
  | 0, _ => none
  | fuel + 1, toks =>
    match toks with
    | .kw .lparen :: rest =>
      match selector re fuel rest with
      | some (s, .kw .rparen :: rest') => some (s, rest')
      | _ => none
    | .kw .lbrace :: .kw .rbrace :: rest => some ([], rest)
    | .kw .lbrace :: rest => matchersLoop re (rest.length + 1) rest
    | _ => none

/-- `parseLabelExtraction`: `ident (, ident | = string)*` with the comma rules of the code -/
def labelExtraction : Nat → Toks → List Bytes → List (Bytes × Bytes) → Option (List Bytes × List (Bytes × Bytes) × Toks)
  | 0, _, _, _ => none
  | fuel + 1, toks, labels, exprs =>
    match toks with
    | .ident l :: rest =>
      (match rest with
       | .kw .comma :: rest' =>
         -- label, then a comma: an identifier must follow
         (match rest' with
          | .ident _ :: _ => labelExtraction fuel rest' (labels ++ [l]) exprs
          | _ => none)
       | .kw .eq :: .str e :: rest' =>
         (match rest' with
          | .kw .comma :: rest'' =>
            (match rest'' with
             | .ident _ :: _ => labelExtraction fuel rest'' labels (exprs ++ [(l, e)])
             | _ => none)
          | _ => labelExtraction fuel rest' labels (exprs ++ [(l, e)]))
       | .kw .eq :: _ => none
       | _ => labelExtraction fuel rest (labels ++ [l]) exprs)
    | _ => some (labels, exprs, toks)

def cmpOpOf : K → Option CmpOp
  | .cmpEq => some .eq | .neq => some .ne | .gt => some .gt | .gte => some .ge | .lt => some .lt | .lte => some .le
  | _ => none

mutual
/-- `parseLabelPredicate` (or-level, after the repair) -/
def predOr (re : ReEnv) : Nat → Toks → Option (Pred × Toks)
  | 0, _ => none
  | fuel + 1, toks =>
    match predAnd re fuel toks with
    | none => none
    | some (l, rest) =>
      match rest with
      | .kw .or :: rest' =>
        (match predOr re fuel rest' with
         | some (r, rest'') => some (.bin l true r, rest'')
         | none => none)
      | _ => some (l, rest)

/-- `parseLabelPredicateAnd`: `and`, `,` or an implicit and before an identifier -/
def predAnd (re : ReEnv) : Nat → Toks → Option (Pred × Toks)
  | 0, _ => none
  | fuel + 1, toks =>
    match predUnary re fuel toks with
    | none => none
    | some (l, rest) =>
      let cont : Option Toks := match rest with
        | .ident _ :: _ => some rest
        | .kw .comma :: rest' => some rest'
        | .kw .and :: rest' => some rest'
        | _ => none
      match cont with
      | none => some (l, rest)
      | some rest' =>
        match predAnd re fuel rest' with
        | some (r, rest'') => some (.bin l false r, rest'')
        | none => none

/-- `parseLabelPredicateUnary` -/
def predUnary (re : ReEnv) : Nat → Toks → Option (Pred × Toks)
  | 0, _ => none
  | fuel + 1, toks =>
    match toks with
    | .kw .lparen :: rest =>
      (match predOr re fuel rest with
       | some (p, .kw .rparen :: rest') => some (.paren p, rest')
       | _ => none)
    | .ident l :: .kw opk :: lit :: rest =>
      (match lit with
       | .str v =>
         (match strOpOf opk with
          | some op => if (op == .re || op == .nre) && !re.ok v then none else some (.matcher ⟨l, op, v⟩, rest)
          | none => none)
       | .num t =>
         (match cmpOpOf opk, Num.parseFloat t with
          | some op, some v => some (.num l op v, rest)
          | _, _ => none)
       | .dur t =>
         (match cmpOpOf opk, parseDurationText t with
          | some op, some d => some (.dur l op d, rest)
          | _, _ => none)
       | .bytes t =>
         (match cmpOpOf opk, Num.parseBytes t with
          | some op, some n => some (.bytes l op n, rest)
          | _, _ => none)
       | .kw .ip =>
         (match opk, rest with
          | .cmpEq, .kw .lparen :: .str p :: .kw .rparen :: rest' => some (.ip l .eq p, rest')
          | .neq, .kw .lparen :: .str p :: .kw .rparen :: rest' => some (.ip l .ne p, rest')
          | _, _ => none)
       | _ => none)
    | _ => none
end

/-- `parseLabelsAndMatchers` (drop / keep) -/
def labelsAndMatchers (re : ReEnv) : Nat → Toks → List Bytes → List Matcher → Option (List Bytes × List Matcher × Toks)
  | 0, _, _, _ => none
  | fuel + 1, toks, labels, ms =>
    match toks with
    | .ident l :: rest =>
      let isMatcher := match rest with
        | .kw .eq :: _ | .kw .neq :: _ | .kw .re :: _ | .kw .nre :: _ => true
        | _ => false
      if isMatcher then
        match labelMatcher re toks with
        | none => none
        | some (m, rest') =>
          (match rest' with
           | .kw .comma :: rest'' => labelsAndMatchers re fuel rest'' labels (ms ++ [m])
           | _ => some (labels, ms ++ [m], rest'))
      else
        (match rest with
         | .kw .comma :: rest' => labelsAndMatchers re fuel rest' (labels ++ [l]) ms
         | _ => some (labels ++ [l], ms, rest))
    | _ => none

/-- `parseLabelFormatExpr`: `dst=src | dst="template"`, comma separated, every target once -/
def labelFormat : Nat → Toks → List Bytes → List (Bytes × Bytes) → List (Bytes × Bytes) → Option (Stage × Toks)
  | 0, _, _, _, _ => none
  | fuel + 1, toks, seen, renames, tpls =>
    match toks with
    | .ident dst :: .kw .eq :: v :: rest =>
      if seen.any (· == dst) then none else
      let next? : Option (List (Bytes × Bytes) × List (Bytes × Bytes)) := match v with
        | .ident src => some (renames ++ [(dst, src)], tpls)
        | .str t => some (renames, tpls ++ [(dst, t)])
        | _ => none
      (match next? with
       | none => none
       | some (rn, tp) =>
         match rest with
         | .kw .comma :: rest' => labelFormat fuel rest' (dst :: seen) rn tp
         | _ => some (.labelFormat rn tp, rest))
    | _ => none

/-- comma-separated identifiers (distinct) -/
def identList : Nat → Toks → Option (List Bytes × Toks)
  | 0, _ => none
  | fuel + 1, toks =>
    match toks with
    | .ident l :: .kw .comma :: rest =>
      (match identList fuel rest with
       | some (ls, r) => some (l :: ls, r)
       | none => none)
    | .ident l :: rest => some ([l], rest)
    | _ => none

/-- `parseLineFilter` -/
def lineFilter (re : ReEnv) : Toks → Option (Stage × Toks)
  | .kw k :: rest =>
    let op? : Option StrOp := match k with
      | .pipeExact => some .eq | .pipeMatch => some .re | .neq => some .ne | .nre => some .nre | _ => none
    (match op?, rest with
     | some op, .str v :: rest' =>
       if (op == .re || op == .nre) && !re.ok v then none else some (.lineFilter op v false, rest')
     | some op, .kw .ip :: .kw .lparen :: .str v :: .kw .rparen :: rest' =>
       if op == .eq || op == .ne then some (.lineFilter op v true, rest') else none
     | _, _ => none)
  | _ => none

/-- `parsePipeline(allowUnwrap)`; stops (successfully) in front of `| unwrap` when allowed -/
def pipeline (re : ReEnv) (allowUnwrap : Bool) : Nat → Toks → Option (List Stage × Toks)
  | 0, _ => none
  | fuel + 1, toks =>
    let more (s : Stage) (rest : Toks) : Option (List Stage × Toks) :=
      match pipeline re allowUnwrap fuel rest with
      | some (ss, r) => some (s :: ss, r)
      | none => none
    match toks with
    | .kw .pipeExact :: _ | .kw .pipeMatch :: _ | .kw .neq :: _ | .kw .nre :: _ =>
      (match lineFilter re toks with
       | some (s, rest) => more s rest
       | none => none)
    | .kw .pipe :: .kw .json :: rest =>
      (match labelExtraction (rest.length + 1) rest [] [] with
       | some (ls, es, rest') => more (.json ls es) rest'
       | none => none)
    | .kw .pipe :: .kw .logfmt :: rest =>
      (match labelExtraction (rest.length + 1) rest [] [] with
       | some (ls, es, rest') => more (.logfmt ls es) rest'
       | none => none)
    | .kw .pipe :: .kw .regexp :: .str p :: rest =>
      if !re.ok p then none else
      let names := re.names p
      if !(names.map (·.2)).Nodup || !(names.all (fun n => KeyToLabel.isValidLabel false n.2)) then none
      else more (.regexp p names) rest
    | .kw .pipe :: .kw .pattern :: .str p :: rest => more (.pattern p) rest
    | .kw .pipe :: .kw .unpack :: rest => more .unpack rest
    | .kw .pipe :: .kw .lineFormat :: .str t :: rest => more (.lineFormat t) rest
    | .kw .pipe :: .kw .decolorize :: rest => more .decolorize rest
    | .kw .pipe :: .kw .labelFormat :: rest =>
      (match labelFormat (rest.length + 1) rest [] [] [] with
       | some (s, rest') => more s rest'
       | none => none)
    | .kw .pipe :: .kw .keep :: rest =>
      (match labelsAndMatchers re (rest.length + 1) rest [] [] with
       | some (ls, ms, rest') => more (.keep ls ms) rest'
       | none => none)
    | .kw .pipe :: .kw .drop :: rest =>
      (match labelsAndMatchers re (rest.length + 1) rest [] [] with
       | some (ls, ms, rest') => more (.drop ls ms) rest'
       | none => none)
    | .kw .pipe :: .kw .distinct :: rest =>
      (match identList (rest.length + 1) rest with
       | some (ls, rest') => more (.distinct ls) rest'
       | none => none)
    | .kw .pipe :: .kw .unwrap :: _ => if allowUnwrap then some ([], toks) else none
    | .kw .pipe :: .ident l :: rest =>
      (match predOr re (3 * toks.length + 3) (.ident l :: rest) with
       | some (p, rest') => more (.labelFilter p) rest'
       | none => none)
    | .kw .pipe :: .kw .lparen :: rest =>
      (match predOr re (3 * toks.length + 3) (.kw .lparen :: rest) with
       | some (p, rest') => more (.labelFilter p) rest'
       | none => none)
    | .kw .pipe :: _ => none
    | _ => some ([], toks)

/-- `parseLabels`: `( )` or `( ident, … )` -/
def parenLabels : Toks → Option (List Bytes × Toks)
  | .kw .lparen :: .kw .rparen :: rest => some ([], rest)
  | .kw .lparen :: rest =>
    (match identList (rest.length + 1) rest with
     | some (ls, .kw .rparen :: rest') => some (ls, rest')
     | _ => none)
  | _ => none

/-- `parseGrouping` if a `by` / `without` follows -/
def grouping? : Toks → Option (Option Grouping × Toks)
  | .kw .by_ :: rest => (parenLabels rest).map fun (ls, r) => (some ⟨false, ls⟩, r)
  | .kw .without :: rest => (parenLabels rest).map fun (ls, r) => (some ⟨true, ls⟩, r)
  | toks => some (none, toks)

/-- `parseUnwrapExpr` after the pipeline stopped in front of `| unwrap` -/
def unwrapFilters (re : ReEnv) : Nat → Toks → List Matcher → Option (List Matcher × Toks)
  | 0, _, _ => none
  | fuel + 1, toks, acc =>
    match toks with
    | .kw .pipe :: rest =>
      (match labelMatcher re rest with
       | some (m, rest') => unwrapFilters re fuel rest' (acc ++ [m])
       | none => none)
    | _ => some (acc, toks)

def unwrap? (re : ReEnv) : Toks → Option (Option Unwrap × Toks)
  | .kw .pipe :: .kw .unwrap :: rest =>
    let head? : Option (Bytes × Bytes × Toks) := match rest with
      | .ident l :: rest' => some ([], l, rest')
      | .kw .bytesConv :: .kw .lparen :: .ident l :: .kw .rparen :: rest' => some (Bytes.ofString "bytes", l, rest')
      | .kw .durationConv :: .kw .lparen :: .ident l :: .kw .rparen :: rest' => some (Bytes.ofString "duration", l, rest')
      | .kw .durationSecondsConv :: .kw .lparen :: .ident l :: .kw .rparen :: rest' => some (Bytes.ofString "duration_seconds", l, rest')
      | _ => none
    (match head? with
     | none => none
     | some (op, l, rest') =>
       match unwrapFilters re (rest'.length + 1) rest' [] with
       | some (fs, rest'') => some (some ⟨op, l, fs⟩, rest'')
       | none => none)
  | toks => some (none, toks)

/-- `[ duration ] (offset duration)?` -/
def rangeOffset : Toks → Option (Int × Option Int × Toks)
  | .kw .lbracket :: .dur t :: .kw .rbracket :: rest =>
    (match parseDurationText t with
     | none => none
     | some r =>
       match rest with
       | .kw .offset :: .dur o :: rest' => (parseDurationText o).map fun d => (r, some d, rest')
       | .kw .offset :: _ => none
       | _ => some (r, none, rest))
  | _ => none

structure RangeBody where
  sel : List Matcher
  stages : List Stage
  rangeNs : Int
  offset : Option Int
  unwrap : Option Unwrap

/-- `parseRangeExpr`: selector, then `[range] pipeline unwrap?` or `pipeline unwrap? [range]` -/
def rangeExpr (re : ReEnv) (toks : Toks) : Option (RangeBody × Toks) :=
  match selector re (toks.length + 1) toks with
  | none => none
  | some (sel, rest) =>
    let pipePart (t : Toks) : Option (List Stage × Option Unwrap × Toks) :=
      match pipeline re true (t.length + 1) t with
      | none => none
      | some (ss, t') => (unwrap? re t').map fun (u, t'') => (ss, u, t'')
    match rest with
    | .kw .lbracket :: _ =>
      (match rangeOffset rest with
       | none => none
       | some (r, o, rest') => (pipePart rest').map fun (ss, u, rest'') => (⟨sel, ss, r, o, u⟩, rest''))
    | .kw .pipe :: _ | .kw .pipeExact :: _ | .kw .pipeMatch :: _ | .kw .neq :: _ | .kw .nre :: _ =>
      (match pipePart rest with
       | none => none
       | some (ss, u, rest') => (rangeOffset rest').map fun (r, o, rest'') => (⟨sel, ss, r, o, u⟩, rest''))
    | _ => none

/-- `RangeAggregationExpr.validate` -/
def validRange (op : RangeOp) (param : Option Rat) (g : Option Grouping) (u : Option Unwrap) : Bool :=
  (match param, op with
   | some _, .quantile => true
   | some _, _ => false
   | none, .quantile => false
   | none, _ => true) &&
  (match g with
   | none => true
   | some _ => op == .avg || op == .stddev || op == .stdvar || op == .quantile || op == .max || op == .min || op == .first || op == .last) &&
  (match u with
   | some _ => op == .avg || op == .sum || op == .max || op == .min || op == .stddev || op == .stdvar || op == .quantile ||
               op == .first || op == .last || op == .rate || op == .rateCounter || op == .absent
   | none => op == .bytes || op == .bytesRate || op == .count || op == .rate || op == .absent)

/-- `VectorAggregationExpr.validate` -/
def validVec (op : VecOp) (param : Option Int) (g : Option Grouping) : Bool :=
  (match op, param with
   | .topk, some k | .bottomk, some k => k > 0
   | .topk, none | .bottomk, none => false
   | _, some _ => false
   | _, none => true) &&
  (match op, g with
   | .sort, some _ | .sortDesc, some _ => false
   | _, _ => true)

def isLit : Expr → Bool
  | .lit _ => true
  | _ => false

/-- `parseBinOpModifier` -/
def modifier (toks : Toks) : Option (Modifier × Toks) :=
  let (b, t1) := match toks with
    | .kw .bool :: r => (true, r)
    | _ => (false, toks)
  match t1 with
  | .kw k :: t2 =>
    if k == .on || k == .ignoring then
      match parenLabels t2 with
      | none => none
      | some (ls, t3) =>
        let m : Modifier := { bool := b, op := some (k == .ignoring), opLabels := ls }
        (match t3 with
         | .kw g :: t4 =>
           if g == .groupLeft || g == .groupRight then
             let m := { m with group := some (g == .groupRight) }
             (match t4 with
              | .kw .lparen :: .kw .rparen :: t5 => some (m, t5)
              | .kw .lparen :: .ident _ :: _ =>
                (match parenLabels t4 with
                 | some (inc, t5) => some ({ m with include_ := inc }, t5)
                 | none => none)
              | _ => some (m, t4))
           else some (m, t3)
         | _ => some (m, t3))
    else some ({ bool := b }, t1)
  | _ => some ({ bool := b }, t1)

mutual
/-- `parseExpr` -/
def expr (re : ReEnv) (prec : BinOp → Nat) (isLogic : BinOp → Bool) : Nat → Toks → Option (Expr × Toks)
  | 0, _ => none
  | fuel + 1, toks =>
    match toks with
    | .kw .lbrace :: _ =>
      (match selector re (toks.length + 1) toks with
       | none => none
       | some (sel, rest) =>
         match pipeline re false (rest.length + 1) rest with
         | some (ss, rest') => some (.log sel ss, rest')
         | none => none)
    | _ => metricExpr re prec isLogic fuel toks

/-- `parseMetricExpr` -/
def metricExpr (re : ReEnv) (prec : BinOp → Nat) (isLogic : BinOp → Bool) : Nat → Toks → Option (Expr × Toks)
  | 0, _ => none
  | fuel + 1, toks =>
    match metricExpr1 re prec isLogic fuel toks with
    | none => none
    | some (l, rest) => binOp re prec isLogic fuel l 0 rest

/-- `parseMetricExpr1` -/
def metricExpr1 (re : ReEnv) (prec : BinOp → Nat) (isLogic : BinOp → Bool) : Nat → Toks → Option (Expr × Toks)
  | 0, _ => none
  | fuel + 1, toks =>
    match toks with
    | .kw .lparen :: rest =>
      (match expr re prec isLogic fuel rest with
       | some (e, .kw .rparen :: rest') => some (.paren e, rest')
       | _ => none)
    | .kw .vector :: .kw .lparen :: .num t :: .kw .rparen :: rest => (Num.parseFloat t).map fun v => (.vector v, rest)
    | .num t :: rest => (Num.parseFloat t).map fun v => (.lit v, rest)
    | .kw .add :: .num t :: rest => (Num.parseFloat t).map fun v => (.lit v, rest)
    | .kw .sub :: .num t :: rest => (Num.parseFloat t).map fun v => (.lit (-v), rest)
    | .kw .labelReplace :: .kw .lparen :: rest =>
      (match metricExpr re prec isLogic fuel rest with
       | some (e, .kw .comma :: .str dst :: .kw .comma :: .str repl :: .kw .comma :: .str src :: .kw .comma :: .str rx :: .kw .rparen :: rest') =>
         if re.ok rx then some (.labelReplace e dst repl src rx, rest') else none
       | _ => none)
    | .kw k :: rest =>
      (match rangeOpOf k, vecOpOf k with
       | some op, _ =>
         -- parseRangeAggregationExpr
         (match rest with
          | .kw .lparen :: rest1 =>
            let (param?, rest2, ok) : Option Rat × Toks × Bool := match rest1 with
              | .num t :: .kw .comma :: r => (Num.parseFloat t, r, (Num.parseFloat t).isSome)
              | .num _ :: r => (none, r, false)
              | r => (none, r, true)
            if !ok then none else
            (match rangeExpr re rest2 with
             | some (b, .kw .rparen :: rest3) =>
               (match grouping? rest3 with
                | none => none
                | some (g, rest4) =>
                  if validRange op param? g b.unwrap then some (.range op param? b.sel b.stages b.rangeNs b.offset b.unwrap g, rest4) else none)
             | _ => none)
          | _ => none)
       | none, some op =>
         -- parseVectorAggregationExpr
         let body (t : Toks) : Option (Option Int × Expr × Toks) :=
           match t with
           | .kw .lparen :: t1 =>
             let (param?, t2, ok) : Option Int × Toks × Bool := match t1 with
               | .num n :: .kw .comma :: r =>
                 (if n.all Bytes.isDigit && !n.isEmpty then some (Bytes.digitsVal n : Int) else none, r, n.all Bytes.isDigit && !n.isEmpty)
               | .num _ :: r => (none, r, false)
               | r => (none, r, true)
             if !ok then none else
             (match metricExpr re prec isLogic fuel t2 with
              | some (e, .kw .rparen :: t3) => some (param?, e, t3)
              | _ => none)
           | _ => none
         (match rest with
          | .kw .by_ :: _ | .kw .without :: _ =>
            (match grouping? rest with
             | some (g, rest1) =>
               (match body rest1 with
                | some (p, e, rest2) => if validVec op p g then some (.vagg op p g e, rest2) else none
                | none => none)
             | none => none)
          | .kw .lparen :: _ =>
            (match body rest with
             | some (p, e, rest1) =>
               (match grouping? rest1 with
                | some (g, rest2) => if validVec op p g then some (.vagg op p g e, rest2) else none
                | none => none)
             | none => none)
          | _ => none)
       | none, none => none)
    | _ => none

/-- the outer loop of `parseBinOp` -/
def binOp (re : ReEnv) (prec : BinOp → Nat) (isLogic : BinOp → Bool) : Nat → Expr → Nat → Toks → Option (Expr × Toks)
  | 0, _, _, _ => none
  | fuel + 1, left, minPrec, toks =>
    match toks with
    | .kw k :: rest =>
      (match binOpOf k with
       | none => some (left, toks)
       | some op =>
         if prec op < minPrec then some (left, toks) else
         match modifier rest with
         | none => none
         | some (m, rest1) =>
           match metricExpr1 re prec isLogic fuel rest1 with
           | none => none
           | some (right, rest2) =>
             if isLogic op && (isLit left || isLit right) then none else
             match binInner re prec isLogic fuel op right rest2 with
             | none => none
             | some (right', rest3) => binOp re prec isLogic fuel (.bin left op m right') minPrec rest3)
    | _ => some (left, toks)

/-- the inner loop of `parseBinOp` -/
def binInner (re : ReEnv) (prec : BinOp → Nat) (isLogic : BinOp → Bool) : Nat → BinOp → Expr → Toks → Option (Expr × Toks)
  | 0, _, _, _ => none
  | fuel + 1, op, right, toks =>
    match toks with
    | .kw k :: _ =>
      (match binOpOf k with
       | none => some (right, toks)
       | some rop =>
         if prec rop < prec op then some (right, toks) else
         match binOp re prec isLogic fuel right (if prec rop > prec op then prec op + 1 else prec op) toks with
         | none => none
         | some (right', rest') => binInner re prec isLogic fuel op right' rest')
    | _ => some (right, toks)
end

/-- `logql.Parse` on a token list: the whole input must be consumed -/
def parse (re : ReEnv) (prec : BinOp → Nat) (isLogic : BinOp → Bool) (toks : Toks) : Option Expr :=
  match expr re prec isLogic (4 * toks.length + 8) toks with
  | some (e, []) => some e
  | _ => none

end Parser
