/-! Model of `dockerlog.ParseLog` (internal/dockerlog/daemonlog.go): Docker's multiplexed
log-stream framing.  `step` is one call of `parseNext` + `parseDockerLine`; `decode` drains the
iterator the way every caller does (`for iter.Next(&r)`), stopping at the first error.
The timestamp parser is a parameter (the executable instance is `Rfc3339.parse`). -/
namespace Frames

structure Rec where
  ts : Int
  typ : Nat
  body : List Nat
deriving DecidableEq, Repr

/-- how the stream ended -/
inductive End | clean | errBody | errDaemon | errNoSpace | errTs
deriving DecidableEq, Repr

def be32 (n : Nat) : List Nat :=
  [n / 16777216 % 256, n / 65536 % 256, n / 256 % 256, n % 256]

/-- `binary.BigEndian.Uint32` -/
def readBe32 : List Nat → Nat
  | [a, b, c, d] => a * 16777216 + b * 65536 + c * 256 + d
  | _ => 0

/-- `strings.Cut(input, " ")` -/
def cutSpace : List Nat → Option (List Nat × List Nat)
  | [] => none
  | b :: rest => if b = 32 then some ([], rest) else
      match cutSpace rest with
      | none => none
      | some (x, y) => some (b :: x, y)

inductive Step
  | stop (e : End)
  | item (r : Rec) (rest : List Nat)

/-- one call of `parseNext` on the remaining bytes of the stream -/
def step (parseTs : List Nat → Option Int) (bs : List Nat) : Step :=
  if bs.length < 8 then .stop .clean else            -- io.ReadFull: EOF / ErrUnexpectedEOF in the header
  if (bs.drop 8).length < readBe32 ((bs.drop 4).take 4) then .stop .errBody else   -- io.CopyN: short body
  if bs.headD 0 = 3 then .stop .errDaemon else       -- systemerr frame
  match cutSpace ((bs.drop 8).take (readBe32 ((bs.drop 4).take 4))) with
  | none => .stop .errNoSpace
  | some (t, body) =>
    match parseTs t with
    | none => .stop .errTs
    | some ts => .item ⟨ts, bs.headD 0, body⟩ ((bs.drop 8).drop (readBe32 ((bs.drop 4).take 4)))

/-- iterate until the stream ends (fuel = an upper bound on the number of frames) -/
def decode (parseTs : List Nat → Option Int) : Nat → List Nat → List Rec × End
  | 0, _ => ([], .clean)
  | fuel + 1, bs =>
    match step parseTs bs with
    | .stop e => ([], e)
    | .item r rest => ((r :: (decode parseTs fuel rest).1), (decode parseTs fuel rest).2)

/-- every frame consumes at least its 8-byte header, so `|bs|` frames are never exceeded -/
def decodeAll (parseTs : List Nat → Option Int) (bs : List Nat) : List Rec × End :=
  decode parseTs (bs.length + 1) bs

/-! Encoding side (what the Docker daemon writes), used to state the round trip. -/

def payload (fmtTs : Int → List Nat) (r : Rec) : List Nat := fmtTs r.ts ++ 32 :: r.body

def encode (fmtTs : Int → List Nat) (r : Rec) : List Nat :=
  [r.typ, 0, 0, 0] ++ be32 (payload fmtTs r).length ++ payload fmtTs r

def encodeAll (fmtTs : Int → List Nat) (rs : List Rec) : List Nat := rs.flatMap (encode fmtTs)

/-! Reader side: the byte stream arrives in arbitrary chunks (possibly empty reads).
`readN n cs` is `io.ReadFull` / `io.CopyN` for `n` bytes: it keeps reading until it has `n`
bytes or the chunks are exhausted, leaving the unread part of a chunk for the next call. -/

def readN : Nat → List (List Nat) → List Nat × List (List Nat)
  | 0, cs => ([], cs)
  | _ + 1, [] => ([], [])
  | n + 1, c :: cs =>
    if c.length ≤ n + 1 then
      let (got, rest) := readN (n + 1 - c.length) cs
      (c ++ got, rest)
    else (c.take (n + 1), c.drop (n + 1) :: cs)

/-- `parseNext` against a chunked reader -/
def stepChunks (parseTs : List Nat → Option Int) (cs : List (List Nat)) : End ⊕ (Rec × List (List Nat)) :=
  let (hdr, cs1) := readN 8 cs
  if hdr.length < 8 then .inl .clean else
  let size := readBe32 ((hdr.drop 4).take 4)
  let (body, cs2) := readN size cs1
  if body.length < size then .inl .errBody else
  if hdr.headD 0 = 3 then .inl .errDaemon else
  match cutSpace body with
  | none => .inl .errNoSpace
  | some (t, msg) =>
    match parseTs t with
    | none => .inl .errTs
    | some ts => .inr (⟨ts, hdr.headD 0, msg⟩, cs2)

def decodeChunks (parseTs : List Nat → Option Int) : Nat → List (List Nat) → List Rec × End
  | 0, _ => ([], .clean)
  | fuel + 1, cs =>
    match stepChunks parseTs cs with
    | .inl e => ([], e)
    | .inr (r, rest) => ((r :: (decodeChunks parseTs fuel rest).1), (decodeChunks parseTs fuel rest).2)

end Frames
