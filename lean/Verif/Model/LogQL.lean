import Verif.Base.Bytes
import Verif.Env.Regex
import Verif.Env.Num
import Verif.Env.Json
import Verif.Env.JsonExpr
import Verif.Env.Logfmt
import Verif.Env.Template
import Verif.Model.Pattern
import Verif.Model.KeyToLabel
/-! Model of the log pipeline of `logqlengine`: the AST of stages (mirrors `logql.PipelineStage`),
label sets, and the semantics of every stage (`processor.go`, `line_filter.go`, `label_filter.go`,
`json.go`, `logfmt.go`, `regexp.go`, `pattern.go`, `unpack.go`, `line_format.go`,
`label_format.go`, `drop.go`, `keep.go`, `decolorize.go`, `distinct.go`).
Library behaviour is reached through `Env` (regex, number/duration/bytes/IP parsing, JSON and
logfmt readers, templates): theorems quantify over `Env`, the driver instantiates it with the
executable environment models of `Verif/Env`. -/
namespace LogQL

abbrev Bytes := List Nat
abbrev Labels := List (Bytes × Bytes)

namespace Labels
def get? (ls : Labels) (k : Bytes) : Option Bytes := ls.lookup k
def has (ls : Labels) (k : Bytes) : Bool := (ls.lookup k).isSome
def erase (ls : Labels) (k : Bytes) : Labels := ls.filter (fun p => p.1 != k)
def set (ls : Labels) (k v : Bytes) : Labels := (k, v) :: erase ls k
end Labels

def errorLabel : Bytes := Bytes.ofString "__error__"
def errorDetailsLabel : Bytes := Bytes.ofString "__error_details__"

/-- `LabelSet.SetError`: the first error wins -/
def setError (ls : Labels) (typ : String) : Labels :=
  if Labels.has ls errorLabel then ls
  else Labels.set (Labels.set ls errorLabel (Bytes.ofString typ)) errorDetailsLabel []

inductive StrOp | eq | ne | re | nre
  deriving DecidableEq, Repr
inductive CmpOp | eq | ne | gt | ge | lt | le
  deriving DecidableEq, Repr

def StrOp.neg : StrOp → StrOp
  | .eq => .ne | .ne => .eq | .re => .nre | .nre => .re

structure StrMatcher where
  label : Bytes
  op : StrOp
  value : Bytes
  re : Regex.Re
  deriving Repr

inductive Pred where
  | and (a b : Pred)
  | or (a b : Pred)
  | paren (p : Pred)
  | str (m : StrMatcher)
  | num (label : Bytes) (op : CmpOp) (v : Rat)
  | dur (label : Bytes) (op : CmpOp) (ns : Int)
  | bytes (label : Bytes) (op : CmpOp) (n : Nat)
  | ip (label : Bytes) (neg : Bool) (pat : Num.IPPat)
  deriving Repr

inductive Stage where
  | lineFilter (op : StrOp) (value : Bytes) (re : Regex.Re)
  | lineFilterIP (neg : Bool) (pat : Num.IPPat)
  | json (labels : List Bytes) (exprs : List (Bytes × JsonExpr.Path))
  | logfmt (labels : List Bytes) (exprs : List (Bytes × Bytes))
  | regexp (re : Regex.Re) (groups : Nat) (mapping : List (Nat × Bytes))
  | pattern (parts : List Pattern.Part)
  | unpack
  | lineFormat (t : Template.Tpl)
  | labelFormat (renames : List (Bytes × Bytes)) (tpls : List (Bytes × Template.Tpl))   -- (dst, src), (dst, template)
  | drop (names : List Bytes) (ms : List StrMatcher)
  | keep (names : List Bytes) (ms : List StrMatcher)
  | decolorize
  | labelFilter (p : Pred)
  | distinct (labels : List Bytes)
  deriving Repr

/-- library behaviour the stages lean on -/
structure Env where
  reSearch : Regex.Re → Bytes → Bool
  reFull : Regex.Re → Bytes → Bool
  reSubmatch : Regex.Re → Nat → Bytes → Option (List (Option (Nat × Nat)))
  reFind : Regex.Re → Bytes → Option (Nat × Nat)          -- leftmost match (start, end)
  parseFloat : Bytes → Option Rat
  parseDuration : Bytes → Option Int
  parseBytes : Bytes → Option Nat
  parseIP : Bytes → Option Nat
  jsonObject : Bool → Bytes → List (Bytes × Json.JVal) × Bool
  jsonExpr : List (Bytes × JsonExpr.Path) → Bytes → List (Bytes × Bytes) × Bool
  logfmt : Bytes → List (Bytes × Bytes) × Bool
  template : Template.Tpl → Int → Bytes → Labels → Option Bytes
  ansi : Regex.Re

def CmpOp.eval {α} [LT α] [DecidableEq α] [DecidableRel (α := α) (· < ·)] (op : CmpOp) (a b : α) : Bool :=
  match op with
  | .eq => a = b | .ne => a ≠ b
  | .gt => b < a | .ge => ¬ a < b
  | .lt => a < b | .le => ¬ b < a

/-- `buildStringMatcher(..., label=true)`: label matchers (`=`, `!=`, anchored `=~`, `!~`) -/
def StrMatcher.matchValue (env : Env) (m : StrMatcher) (v : Bytes) : Bool :=
  match m.op with
  | .eq => v == m.value
  | .ne => v != m.value
  | .re => env.reFull m.re v
  | .nre => !env.reFull m.re v

/-- `LabelMatcher.Process`: a missing label is the empty string -/
def StrMatcher.sat (env : Env) (m : StrMatcher) (ls : Labels) : Bool :=
  m.matchValue env ((Labels.get? ls m.label).getD [])

/-- working state of one record inside the pipeline -/
structure Acc where
  line : Bytes
  labels : Labels
  deriving Repr

/-- comparator filters: missing label ⇒ drop; unparsable ⇒ keep and flag; else compare.
Returns (keep, labels): the label set is mutated in place by the code, so an error flag set by a
sub-predicate persists even if the enclosing predicate goes on to its other operand. -/
def cmpFilter {α} (parse : Bytes → Option α) (errTyp : String) (test : α → Bool) (label : Bytes) (ls : Labels) : Bool × Labels :=
  match Labels.get? ls label with
  | none => (false, ls)
  | some v =>
    match parse v with
    | none => (true, setError ls errTyp)
    | some x => (test x, ls)

def Pred.eval (env : Env) : Pred → Labels → Bool × Labels
  | .and p q, ls =>
    match p.eval env ls with
    | (false, ls') => (false, ls')
    | (true, ls') => q.eval env ls'
  | .or p q, ls =>
    match p.eval env ls with
    | (true, ls') => (true, ls')
    | (false, ls') => q.eval env ls'
  | .paren p, ls => p.eval env ls
  | .str m, ls => (m.sat env ls, ls)
  | .num l op v, ls => cmpFilter env.parseFloat "number parsing error" (fun x => op.eval x v) l ls
  | .dur l op v, ls => cmpFilter env.parseDuration "duration parsing error" (fun x => op.eval x v) l ls
  | .bytes l op v, ls => cmpFilter env.parseBytes "bytes parsing error" (fun x => op.eval x v) l ls
  | .ip l neg pat, ls => cmpFilter env.parseIP "ip parsing error" (fun x => pat.matches x != neg) l ls

/-! ### IP line filter (`IPLineFilter.Process`, `tryCaptureIPv4`, `tryCaptureIPv6`) -/

def isHexDigit (c : Nat) : Bool := Bytes.isDigit c || (97 ≤ c && c ≤ 102) || (65 ≤ c && c ≤ 70)

def tryCaptureIPv4 (s : Bytes) : Option Bytes :=
  match s with
  | c0 :: c1 :: c2 :: c3 :: _ =>
    if Bytes.isDigit c0 && (c1 == 46 || c2 == 46 || c3 == 46) then
      some (s.takeWhile (fun c => Bytes.isDigit c || c == 46))
    else none
  | _ => none

def tryCaptureIPv6 (s : Bytes) : Option Bytes :=
  match s with
  | c0 :: c1 :: rest =>
    let cap := s.takeWhile (fun c => isHexDigit c || c == 58)
    if c0 == 58 && c1 == 58 then some cap
    else if isHexDigit c0 then
      -- the scan skips bytes that are neither hex digits nor ':' and succeeds on the first ':'
      if (c1 :: rest).any (· == 58) then some cap else none
    else none
  | _ => none

/-- `netip.ParseAddr` accepts the text (over hex digits and `:` only) as an IPv6 address:
groups of 1–4 hex digits, exactly 8 of them, or fewer with one `::` -/
def validIPv6 (s : Bytes) : Bool :=
  let groupsOk (gs : List Bytes) : Bool := gs.all (fun g => 1 ≤ g.length && g.length ≤ 4)
  let splitColon (t : Bytes) : List Bytes :=
    (t.foldl (fun (acc : List Bytes × Bytes) c => if c == 58 then (acc.1 ++ [acc.2], []) else (acc.1, acc.2 ++ [c])) ([], [])) |> fun p => p.1 ++ [p.2]
  match Bytes.cut s [58, 58] with
  | none =>
    let gs := splitColon s
    gs.length == 8 && groupsOk gs
  | some (l, r) =>
    if Bytes.contains r [58, 58] || r.head? == some 58 then false else
    let lg := if l.isEmpty then [] else splitColon l
    let rg := if r.isEmpty then [] else splitColon r
    groupsOk lg && groupsOk rg && lg.length + rg.length ≤ 7

def ipLineScan (env : Env) (pat : Num.IPPat) (neg : Bool) : Nat → Bytes → Bool
  | 0, _ => false
  | _ + 1, [] => false
  | fuel + 1, c :: rest =>
    if !isHexDigit c && c != 58 then ipLineScan env pat neg fuel rest
    else
      match tryCaptureIPv4 (c :: rest) with
      | some cap =>
        (match env.parseIP cap with
         | some ip => pat.matches ip != neg
         | none => false) || ipLineScan env pat neg fuel ((c :: rest).drop cap.length)
      | none =>
        match tryCaptureIPv6 (c :: rest) with
        | some cap =>
          -- an IPv6 address never equals / lies in an IPv4 pattern, so only a negated filter matches it
          (validIPv6 cap && neg) || ipLineScan env pat neg fuel ((c :: rest).drop cap.length)
        | none => ipLineScan env pat neg fuel rest

/-! ### helpers of the extracting stages -/

def natDec (n : Nat) : Bytes := Bytes.natToDec n

/-- canonical decimal text of a rational with a short terminating expansion -/
def ratToDec (q : Rat) : Bytes :=
  let neg := q < 0
  let a := if neg then -q else q
  let ip : Nat := a.floor.toNat
  let frac := a - (ip : Rat)
  let rec digits : Nat → Rat → List Nat
    | 0, _ => []
    | fuel + 1, f => if f == 0 then [] else
        let d := (f * 10).floor.toNat
        (48 + d) :: digits fuel (f * 10 - (d : Rat))
  let fd := digits 20 frac
  (if neg then [45] else []) ++ natDec ip ++ (if fd.isEmpty then [] else 46 :: fd)

def nestedPlaceholder : Bytes := Bytes.ofString "<nested>"

/-- `pcommon.Value.AsString()` of a parsed JSON value (`none` for `null`, which is skipped) -/
def jvalText : Json.JVal → Option Bytes
  | .str s => some s
  | .int i => some (Bytes.intToDec i)
  | .num q => some (ratToDec q)
  | .bool b => some (Bytes.ofString (if b then "true" else "false"))
  | .null => none
  | .nested raw => some raw

def setAll (ls : Labels) (kvs : List (Bytes × Bytes)) : Labels :=
  kvs.foldl (fun acc kv => Labels.set acc kv.1 kv.2) ls

/-- later bindings of a key override earlier ones (Go map assignment) -/
def dedupLast {β} (kvs : List (Bytes × β)) : List (Bytes × β) :=
  kvs.foldl (fun acc kv => acc.filter (fun p => p.1 != kv.1) ++ [kv]) []

/-- `ansiRegex.ReplaceAllString(line, "")` -/
def stripAll (env : Env) : Nat → Bytes → Bytes
  | 0, s => s
  | fuel + 1, s =>
    match env.reFind env.ansi s with
    | none => s
    | some (a, b) => if b ≤ a then s else s.take a ++ stripAll env fuel (s.drop b)

abbrev Seen := List (Bytes × Bytes)

/-- `DistinctFilter.Process` -/
def distinctStep : List Bytes → Labels → Seen → Bool → Bool × Seen
  | [], _, seen, keep => (keep, seen)
  | l :: rest, ls, seen, _ =>
    match Labels.get? ls l with
    | none => (true, seen)
    | some v =>
      if seen.any (· == (l, v)) then (false, seen)
      else distinctStep rest ls ((l, v) :: seen) true

def dropPair (env : Env) (names : List Bytes) (ms : List StrMatcher) (kv : Bytes × Bytes) : Bool :=
  let mine := ms.filter (fun m => m.label == kv.1)
  if !(names.any (· == kv.1)) && mine.isEmpty then false
  else mine.all (fun m => m.matchValue env kv.2)

/-- static validity of a stage (`buildStage` errors) -/
def Stage.buildOk : Stage → Bool
  | .pattern parts => Pattern.valid parts
  | .logfmt labels exprs =>
    -- duplicate extraction key
    let keys := labels ++ exprs.map (·.2)
    keys.Nodup
  | _ => true

/-- one stage on one record; `none` = the record is dropped. `seen` is the `distinct` state of
this stage. -/
def Stage.apply (env : Env) (ts : Int) (s : Stage) (seen : Seen) (a : Acc) : Option Acc × Seen :=
  match s with
  | .lineFilter op v re =>
    let hit := match op with
      | .eq => Bytes.contains a.line v
      | .ne => !Bytes.contains a.line v
      | .re => env.reSearch re a.line
      | .nre => !env.reSearch re a.line
    (if hit then some a else none, seen)
  | .lineFilterIP neg pat =>
    (if ipLineScan env pat neg (a.line.length + 1) a.line then some a else none, seen)
  | .labelFilter p =>
    let r := p.eval env a.labels
    (if r.1 then some { a with labels := r.2 } else none, seen)
  | .json labels exprs =>
    if !exprs.isEmpty then
      let paths := dedupLast (exprs ++ labels.map (fun l => (l, [JsonExpr.Sel.key l])))
      let r := env.jsonExpr paths a.line
      let ls := setAll a.labels r.1
      (some { a with labels := if r.2 then setError ls "JSON parsing error" else ls }, seen)
    else if !labels.isEmpty then
      let r := env.jsonObject false a.line     -- unrequested fields are skipped, not parsed
      let kvs := r.1.filterMap fun (k, v) => if labels.any (· == k) then (jvalText v).map (fun t => (k, t)) else none
      let ls := setAll a.labels kvs
      (some { a with labels := if r.2 then setError ls "JSON parsing error" else ls }, seen)
    else
      let r := env.jsonObject false a.line
      let kvs := r.1.filterMap fun (k, v) => (jvalText v).map (fun t => (KeyToLabel.run k, t))
      let ls := setAll a.labels kvs
      (some { a with labels := if r.2 then setError ls "JSON parsing error" else ls }, seen)
  | .logfmt labels exprs =>
    let r := env.logfmt a.line
    let kvs :=
      if labels.isEmpty && exprs.isEmpty then r.1
      else
        let tbl : List (Bytes × Bytes) := labels.map (fun l => (l, l)) ++ exprs.map (fun e => (e.2, e.1))   -- key ↦ label
        r.1.filterMap fun (k, v) => (tbl.lookup k).map (fun l => (l, v))
    let ls := setAll a.labels kvs
    (some { a with labels := if r.2 then setError ls "logfmt parsing error" else ls }, seen)
  | .regexp re groups mapping =>
    match env.reSubmatch re groups a.line with
    | none => (some a, seen)
    | some spans =>
      let kvs := mapping.filterMap fun (i, l) =>
        match spans[i]? with
        | some (some (x, y)) => some (l, (a.line.drop x).take (y - x))
        | some none => some (l, [])
        | none => none
      (some { a with labels := setAll a.labels kvs }, seen)
  | .pattern parts =>
    (some { a with labels := setAll a.labels (Pattern.matchP parts a.line).1 }, seen)
  | .unpack =>
    let r := env.jsonObject false a.line
    -- string fields in order until an invalid label name
    let rec go : List (Bytes × Json.JVal) → Labels → Bytes → Labels × Bytes × Bool
      | [], ls, line => (ls, line, false)
      | (k, v) :: rest, ls, line =>
        match v with
        | .str s =>
          if k == Bytes.ofString "_entry" then go rest ls s
          else if KeyToLabel.isValidLabel true k then go rest (Labels.set ls k s) line
          else (ls, line, true)
        | _ => go rest ls line
    let res := go r.1 a.labels a.line
    if res.2.2 || r.2 then (some { line := a.line, labels := setError res.1 "unpack JSON parsing error" }, seen)
    else (some { line := res.2.1, labels := res.1 }, seen)
  | .lineFormat t =>
    match env.template t ts a.line a.labels with
    | some out => (some { a with line := out }, seen)
    | none => (some { a with labels := setError a.labels "template error" }, seen)
  | .labelFormat renames tpls =>
    let ls1 := renames.foldl (fun ls (ds : Bytes × Bytes) =>
      match Labels.get? ls ds.2 with
      | some v => Labels.erase (Labels.set ls ds.1 v) ds.2
      | none => ls) a.labels
    let ls2 := tpls.foldl (fun ls (dt : Bytes × Template.Tpl) =>
      match env.template dt.2 ts a.line ls1 with
      | some out => Labels.set ls dt.1 out
      | none => setError ls "template error") ls1
    (some { a with labels := ls2 }, seen)
  | .drop names ms => (some { a with labels := a.labels.filter (fun kv => !dropPair env names ms kv) }, seen)
  | .keep names ms => (some { a with labels := a.labels.filter (fun kv => dropPair env names ms kv) }, seen)
  | .decolorize => (some { a with line := stripAll env (a.line.length + 1) a.line }, seen)
  | .distinct labels =>
    let r := distinctStep labels a.labels seen false
    (if r.1 then some a else none, r.2)

/-- `Pipeline.Process` with the per-stage `distinct` states threaded through -/
def runStages (env : Env) (ts : Int) : List Stage → List Seen → Acc → Option Acc × List Seen
  | [], _, a => (some a, [])
  | s :: ss, seens, a =>
    let seen := seens.headD []
    match s.apply env ts seen a with
    | (none, seen') => (none, seen' :: seens.tail)
    | (some a', seen') =>
      let r := runStages env ts ss seens.tail a'
      (r.1, seen' :: r.2)

end LogQL
