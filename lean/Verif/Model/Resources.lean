/-! Model of the open/close protocol and of error propagation across
`dockerlog.Querier.SelectLogs`, `Engine.selectLogs` / `evalLogExpr` / `evalExpr` and
`logqlmetric.build` (the `closeOnError` defers).  Readers are identified by
`(selection index, container index)`; a fault plan says, per selection, whether listing fails,
whether the pipeline of the selection can be built, and per selected container whether its open
fails or its stream breaks (read error, truncated body, daemon-error or corrupt frame).

Stream faults are assumed to lie in data the evaluation consumes (the harness keeps all records
inside the evaluated windows), stream iterators are *sticky* (a failed stream keeps failing). -/
namespace Resources

abbrev Rid := Nat × Nat

structure St where
  nextSel : Nat
  opened : List Rid
  closed : List Rid
deriving Repr

inductive ErrClass | build | list | open | stream
deriving DecidableEq, Repr

inductive Fault | ok | openFail | streamFault
deriving DecidableEq, Repr

/-- one stream selection (`{...}` with its pipeline) and what goes wrong in it -/
structure Sel where
  stageOk : Bool          -- `BuildPipeline` succeeds (it runs before `SelectLogs`)
  listFails : Bool        -- `ContainerList` fails
  ctrs : List Fault       -- the selected containers
deriving Repr

inductive Q
  | log (s : Sel)
  | range (s : Sel) (aggOk : Bool)          -- aggOk = `RangeAggregation` can be built (false: absent_over_time, rate_counter)
  | vecAgg (ok : Bool) (q : Q)
  | binop (ok : Bool) (l r : Q)             -- ok = false: unsupported modifiers
  | litOp (q : Q)
  | vector
deriving Repr

def closeAll (rids : List Rid) (st : St) : St := { st with closed := rids ++ st.closed }

/-- all opens of one selection are attempted (`errgroup` without cancellation); returns the
readers that were opened and whether some open failed -/
def openAll (k : Nat) : Nat → List Fault → St → List Rid × Bool × St
  | _, [], st => ([], false, st)
  | i, f :: fs, st =>
    if f = .openFail then
      let r := openAll k (i + 1) fs st
      (r.1, true, r.2.2)
    else
      let r := openAll k (i + 1) fs { st with opened := (k, i) :: st.opened }
      ((k, i) :: r.1, r.2.1, r.2.2)

/-- an iterator owns readers and knows whether one of its streams is broken -/
structure Iter where
  rids : List Rid
  broken : Bool
deriving Repr

/-- `Engine.selectLogs`: build the pipeline, list, open every selected container; on an open
failure close the ones that were opened -/
def selectLogs (s : Sel) (st : St) : Except ErrClass Iter × St :=
  let k := st.nextSel
  let st := { st with nextSel := k + 1 }
  if !s.stageOk then (.error .build, st)
  else if s.listFails then (.error .list, st)
  else
    let r := openAll k 0 s.ctrs st
    if r.2.1 then (.error .open, closeAll r.1 r.2.2)
    else (.ok ⟨r.1, s.ctrs.any (· = .streamFault)⟩, r.2.2)

/-- `logqlmetric.build` with its `closeOnError` defers -/
def build : Q → St → Except ErrClass Iter × St
  | .log _, st => (.error .build, st)     -- not a metric expression
  | .range s aggOk, st =>
    match selectLogs s st with
    | (.error e, st1) => (.error e, st1)
    | (.ok it, st1) => if aggOk then (.ok it, st1) else (.error .build, closeAll it.rids st1)
  | .vecAgg ok q, st =>
    match build q st with
    | (.error e, st1) => (.error e, st1)
    | (.ok it, st1) => if ok then (.ok it, st1) else (.error .build, closeAll it.rids st1)
  | .binop ok l r, st =>
    match build l st with
    | (.error e, st1) => (.error e, st1)
    | (.ok li, st1) =>
      match build r st1 with
      | (.error e, st2) => (.error e, closeAll li.rids st2)
      | (.ok ri, st2) =>
        if ok then (.ok ⟨li.rids ++ ri.rids, li.broken || ri.broken⟩, st2)
        else (.error .build, closeAll ri.rids (closeAll li.rids st2))
  | .litOp q, st =>
    match build q st with
    | (.error e, st1) => (.error e, st1)
    | (.ok it, st1) => (.ok it, st1)
  | .vector, st => (.ok ⟨[], false⟩, st)

/-- `Engine.Eval`: log queries through `evalLogExpr` (deferred close), metric queries through
`build` + `ReadStepResponse` + deferred close; the result is `none` on success -/
def eval (q : Q) (st : St) : Option ErrClass × St :=
  match q with
  | .log s =>
    match selectLogs s st with
    | (.error e, st1) => (some e, st1)
    | (.ok it, st1) => (if it.broken then some .stream else none, closeAll it.rids st1)
  | q =>
    match build q st with
    | (.error e, st1) => (some e, st1)
    | (.ok it, st1) => (if it.broken then some .stream else none, closeAll it.rids st1)

/-- something in the plan goes wrong -/
def Sel.hasFault (s : Sel) : Bool := !s.stageOk || s.listFails || s.ctrs.any (· ≠ .ok)

def Q.hasFault : Q → Bool
  | .log s => s.hasFault
  | .range s aggOk => s.hasFault || !aggOk
  | .vecAgg ok q => !ok || q.hasFault
  | .binop ok l r => !ok || l.hasFault || r.hasFault
  | .litOp q => q.hasFault
  | .vector => false

/-- metric expressions (everything `build` accepts) -/
def Q.isMetric : Q → Bool
  | .log _ => false
  | .range _ _ => true
  | .vecAgg _ q => q.isMetric
  | .binop _ l r => l.isMetric && r.isMetric
  | .litOp q => q.isMetric
  | .vector => true

/-- well-formed query: a log query at the top, or a metric expression -/
def Q.wf : Q → Bool
  | .log _ => true
  | q => q.isMetric

/-- every opened reader is either closed or owned by `own` -/
def Covered (st : St) (own : List Rid) : Prop := ∀ r ∈ st.opened, r ∈ st.closed ∨ r ∈ own

def init : St := ⟨0, [], []⟩

end Resources
