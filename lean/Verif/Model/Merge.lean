/-! Model of `dockerlog.mergeIter` (internal/dockerlog/merge_iter.go) and of the concurrent
opening in `Querier.SelectLogs`.

The merge is specified as a *relation* so that it covers any tie-breaking of `container/heap`:
`Run srcs out` — `out` is produced by repeatedly emitting a head whose timestamp is minimal among
all current heads and refilling from the same source.  `isRun` is the executable checker applied
to the implementation's output (records are tagged `(src, idx)` by the harness). -/
namespace Merge

structure Rec where
  ts : Nat
  src : Nat      -- which source the record came from
  idx : Nat      -- its position inside that source
deriving DecidableEq, Repr

inductive Run : List (List Rec) → List Rec → Prop
  | done {srcs} : (∀ s ∈ srcs, s = []) → Run srcs []
  | step {srcs out} (pre : List (List Rec)) (r : Rec) (rest : List Rec) (post : List (List Rec)) :
      srcs = pre ++ (r :: rest) :: post →
      (∀ s ∈ srcs, ∀ h ∈ s.head?, r.ts ≤ h.ts) →
      Run (pre ++ rest :: post) out →
      Run srcs (r :: out)

def SortedTs (l : List Rec) : Prop := l.Pairwise (fun a b => a.ts ≤ b.ts)

/-- the harness's tagging: every record of source `i` carries `src = i` -/
def Tagged (srcs : List (List Rec)) : Prop := ∀ i (h : i < srcs.length), ∀ x ∈ srcs[i], x.src = i

/-- `r` is not later than every current head -/
def minHead (srcs : List (List Rec)) (r : Rec) : Bool :=
  srcs.all (fun s => match s.head? with | none => true | some h => decide (r.ts ≤ h.ts))

/-- pop `r` from the first source whose head is `r`; `none` if no source has it as head -/
def popHead (r : Rec) : List (List Rec) → Option (List (List Rec))
  | [] => none
  | s :: rest =>
    match s with
    | h :: t => if h = r then some (t :: rest) else (popHead r rest).map (s :: ·)
    | [] => (popHead r rest).map ([] :: ·)

/-- executable checker for `Run` -/
def isRun : List (List Rec) → List Rec → Bool
  | srcs, [] => srcs.all (·.isEmpty)
  | srcs, r :: out =>
    minHead srcs r &&
    match popHead r srcs with
    | none => false
    | some srcs' => isRun srcs' out

/-- concurrent opening: request `i` writes slot `i`; `order` is the completion order -/
def openAll {α} (open_ : Nat → α) (order : List Nat) (init : List (Option α)) : List (Option α) :=
  order.foldl (fun a i => a.set i (some (open_ i))) init

end Merge
