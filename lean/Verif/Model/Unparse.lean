import Verif.Model.Parser
/-! Canonical writing of a syntax tree as a token list (`exprToks`), the executable predicate saying
which trees have a canonical writing (`canonE`: the shapes the parser can produce from it, plus the
static rules), and the executable predicate of static well-formedness (`wfE`: what every accepted tree
satisfies).  Used by the C05 parse-level theorems:

* soundness of the static rules: `parse toks = some e → wfE e`
* round trip: `canonE e → parse (exprToks e) = some e`

Numeric literals are written through a `Lits` record (text chosen per value); `litsOK` demands that
the chosen text parses back to the value, so the theorems hold for every spelling of the literals. -/
namespace Unparse
open Syntax Parser
open LogQL (StrOp CmpOp)
open Metric (BinOp RangeOp VecOp)

structure Lits where
  dur : Int → Bytes
  num : Rat → Bytes
  byt : Nat → Bytes
  int : Int → Bytes

def kwOfStrOp : StrOp → K
  | .eq => .eq | .ne => .neq | .re => .re | .nre => .nre

def kwOfCmpOp : CmpOp → K
  | .eq => .cmpEq | .ne => .neq | .gt => .gt | .ge => .gte | .lt => .lt | .le => .lte

def kwOfBinOp : BinOp → K
  | .or => .or | .and => .and | .unless => .unless | .add => .add | .sub => .sub | .mul => .mul | .div => .div
  | .mod => .mod | .pow => .pow | .eq => .cmpEq | .ne => .neq | .gt => .gt | .ge => .gte | .lt => .lt | .le => .lte

def kwOfRangeOp : RangeOp → K
  | .count => .countOverTime | .rate => .rate | .rateCounter => .rateCounter | .bytes => .bytesOverTime
  | .bytesRate => .bytesRate | .avg => .avgOverTime | .sum => .sumOverTime | .min => .minOverTime
  | .max => .maxOverTime | .stdvar => .stdvarOverTime | .stddev => .stddevOverTime
  | .quantile => .quantileOverTime | .first => .firstOverTime | .last => .lastOverTime | .absent => .absentOverTime

def kwOfVecOp : VecOp → K
  | .sum => .sum | .avg => .avg | .count => .count | .max => .max | .min => .min | .stddev => .stddev
  | .stdvar => .stdvar | .topk => .topk | .bottomk => .bottomk | .sort => .sort | .sortDesc => .sortDesc

/-- comma-separated concatenation -/
def commaSep : List Toks → Toks
  | [] => []
  | [x] => x
  | x :: xs => x ++ .kw .comma :: commaSep xs

def matcherToks (m : Matcher) : Toks := [.ident m.label, .kw (kwOfStrOp m.op), .str m.value]

def selectorToks (ms : List Matcher) : Toks :=
  .kw .lbrace :: commaSep (ms.map matcherToks) ++ [.kw .rbrace]

def identsToks (ls : List Bytes) : Toks := commaSep (ls.map fun l => [.ident l])

def predToks (L : Lits) : Pred → Toks
  | .bin l isOr r => predToks L l ++ .kw (if isOr then .or else .and) :: predToks L r
  | .paren p => .kw .lparen :: predToks L p ++ [.kw .rparen]
  | .matcher m => matcherToks m
  | .num l op v => [.ident l, .kw (kwOfCmpOp op), .num (L.num v)]
  | .dur l op d => [.ident l, .kw (kwOfCmpOp op), .dur (L.dur d)]
  | .bytes l op n => [.ident l, .kw (kwOfCmpOp op), .bytes (L.byt n)]
  | .ip l op p => [.ident l, .kw (kwOfCmpOp op), .kw .ip, .kw .lparen, .str p, .kw .rparen]

def extractionToks (ls : List Bytes) (es : List (Bytes × Bytes)) : Toks :=
  commaSep (ls.map (fun l => [Tok.ident l]) ++ es.map (fun e => [Tok.ident e.1, .kw .eq, .str e.2]))

def stageToks (L : Lits) : Stage → Toks
  | .lineFilter op v ip =>
    .kw (match op with | .eq => .pipeExact | .re => .pipeMatch | .ne => .neq | .nre => .nre) ::
      (if ip then [.kw .ip, .kw .lparen, .str v, .kw .rparen] else [.str v])
  | .json ls es => .kw .pipe :: .kw .json :: extractionToks ls es
  | .logfmt ls es => .kw .pipe :: .kw .logfmt :: extractionToks ls es
  | .regexp p _ => [.kw .pipe, .kw .regexp, .str p]
  | .pattern p => [.kw .pipe, .kw .pattern, .str p]
  | .unpack => [.kw .pipe, .kw .unpack]
  | .lineFormat t => [.kw .pipe, .kw .lineFormat, .str t]
  | .decolorize => [.kw .pipe, .kw .decolorize]
  | .labelFilter p => .kw .pipe :: predToks L p
  | .labelFormat rn tp =>
    .kw .pipe :: .kw .labelFormat ::
      commaSep (rn.map (fun r => [Tok.ident r.1, .kw .eq, .ident r.2]) ++ tp.map (fun t => [Tok.ident t.1, .kw .eq, .str t.2]))
  | .drop ls ms => .kw .pipe :: .kw .drop :: commaSep (ls.map (fun l => [Tok.ident l]) ++ ms.map matcherToks)
  | .keep ls ms => .kw .pipe :: .kw .keep :: commaSep (ls.map (fun l => [Tok.ident l]) ++ ms.map matcherToks)
  | .distinct ls => .kw .pipe :: .kw .distinct :: identsToks ls

def stagesToks (L : Lits) (ss : List Stage) : Toks := (ss.map (stageToks L)).flatten

def parenLabelsToks (ls : List Bytes) : Toks := .kw .lparen :: identsToks ls ++ [.kw .rparen]

def groupingToks : Option Grouping → Toks
  | none => []
  | some g => .kw (if g.without then .without else .by_) :: parenLabelsToks g.labels

def unwrapToks : Option Unwrap → Toks
  | none => []
  | some u =>
    .kw .pipe :: .kw .unwrap ::
      (if u.op = [] then [.ident u.label]
       else if u.op = Bytes.ofString "bytes" then [.kw .bytesConv, .kw .lparen, .ident u.label, .kw .rparen]
       else if u.op = Bytes.ofString "duration" then [.kw .durationConv, .kw .lparen, .ident u.label, .kw .rparen]
       else [.kw .durationSecondsConv, .kw .lparen, .ident u.label, .kw .rparen]) ++
      (u.filters.map fun m => .kw .pipe :: matcherToks m).flatten

def rangeOffsetToks (L : Lits) (r : Int) (o : Option Int) : Toks :=
  [.kw .lbracket, .dur (L.dur r), .kw .rbracket] ++
    (match o with | none => [] | some d => [.kw .offset, .dur (L.dur d)])

def modifierToks (m : Modifier) : Toks :=
  (if m.bool then [.kw .bool] else []) ++
  (match m.op with
   | none => []
   | some ign =>
     .kw (if ign then .ignoring else .on) :: parenLabelsToks m.opLabels ++
       (match m.group with
        | none => []
        | some right =>
          .kw (if right then .groupRight else .groupLeft) ::
            (if m.include_.isEmpty then [] else parenLabelsToks m.include_)))

def litToks (L : Lits) (v : Rat) : Toks :=
  if v < 0 then [.kw .sub, .num (L.num (-v))] else [.num (L.num v)]

def exprToks (L : Lits) : Expr → Toks
  | .log sel ss => selectorToks sel ++ stagesToks L ss
  | .range op p sel ss r o u g =>
    .kw (kwOfRangeOp op) :: .kw .lparen ::
      (match p with | none => [] | some v => [.num (L.num v), .kw .comma]) ++
      selectorToks sel ++ stagesToks L ss ++ unwrapToks u ++ rangeOffsetToks L r o ++ .kw .rparen :: groupingToks g
  | .vagg op p g e =>
    .kw (kwOfVecOp op) :: .kw .lparen ::
      (match p with | none => [] | some k => [.num (L.int k), .kw .comma]) ++
      exprToks L e ++ .kw .rparen :: groupingToks g
  | .bin l op m r => exprToks L l ++ .kw (kwOfBinOp op) :: modifierToks m ++ exprToks L r
  | .lit v => litToks L v
  | .vector v => [.kw .vector, .kw .lparen, .num (L.num v), .kw .rparen]
  | .paren e => .kw .lparen :: exprToks L e ++ [.kw .rparen]
  | .labelReplace e dst repl src rx =>
    .kw .labelReplace :: .kw .lparen :: exprToks L e ++
      [.kw .comma, .str dst, .kw .comma, .str repl, .kw .comma, .str src, .kw .comma, .str rx, .kw .rparen]

/-! ## static well-formedness (what every accepted tree satisfies) -/

def matcherOK (re : ReEnv) (m : Matcher) : Bool :=
  !(m.op == .re || m.op == .nre) || re.ok m.value

def wfPred (re : ReEnv) : Pred → Bool
  | .bin l _ r => wfPred re l && wfPred re r
  | .paren p => wfPred re p
  | .matcher m => matcherOK re m
  | .ip _ op _ => op == .eq || op == .ne
  | _ => true

def wfStage (re : ReEnv) : Stage → Bool
  | .lineFilter op v ip => (!(op == .re || op == .nre) || re.ok v) && (!ip || op == .eq || op == .ne)
  | .regexp p mp => re.ok p && mp == re.names p && (mp.map (·.2)).Nodup &&
      mp.all (fun n => KeyToLabel.isValidLabel false n.2)
  | .labelFilter p => wfPred re p
  | .labelFormat rn tp => (rn.map (·.1) ++ tp.map (·.1)).Nodup && !(rn.isEmpty && tp.isEmpty)
  | .drop ls ms => ms.all (matcherOK re) && !(ls.isEmpty && ms.isEmpty)
  | .keep ls ms => ms.all (matcherOK re) && !(ls.isEmpty && ms.isEmpty)
  | .distinct ls => !ls.isEmpty
  | _ => true

def wfUnwrap (re : ReEnv) : Option Unwrap → Bool
  | none => true
  | some u => (u.op = [] || u.op = Bytes.ofString "bytes" || u.op = Bytes.ofString "duration" ||
      u.op = Bytes.ofString "duration_seconds") && u.filters.all (matcherOK re)

def wfModifier (m : Modifier) : Bool :=
  (m.op.isSome || (m.opLabels.isEmpty && m.group.isNone)) && (m.group.isSome || m.include_.isEmpty)

/-- static rules that hold of every tree the parser returns -/
def wfE (re : ReEnv) (isLogic : BinOp → Bool) : Expr → Bool
  | .log sel ss => sel.all (matcherOK re) && ss.all (wfStage re)
  | .range op p sel ss _ _ u g =>
    validRange op p g u && sel.all (matcherOK re) && ss.all (wfStage re) && wfUnwrap re u
  | .vagg op p g e => validVec op p g && wfE re isLogic e
  | .bin l op m r => wfE re isLogic l && wfE re isLogic r && wfModifier m &&
      !(isLogic op && (isLit l || isLit r))
  | .lit _ => true
  | .vector _ => true
  | .paren e => wfE re isLogic e
  | .labelReplace e _ _ _ rx => wfE re isLogic e && re.ok rx

/-! ## canonical shapes (what `exprToks` writes so that the parser reads the same tree back) -/

def isBinPred : Pred → Bool
  | .bin _ _ _ => true
  | _ => false

def isOrPred : Pred → Bool
  | .bin _ true _ => true
  | _ => false

/-- the literal texts chosen by `L` parse back to their values -/
def litsPred (L : Lits) : Pred → Bool
  | .bin l _ r => litsPred L l && litsPred L r
  | .paren p => litsPred L p
  | .num _ _ v => Num.parseFloat (L.num v) == some v
  | .dur _ _ d => parseDurationText (L.dur d) == some d
  | .bytes _ _ n => Num.parseBytes (L.byt n) == some n
  | _ => true

/-- `and` chains lean right and have unary left operands; `or` is not the right operand of `and`
and not the left operand of `or` -/
def canonPred : Pred → Bool
  | .bin l false r => !isBinPred l && !isOrPred r && canonPred l && canonPred r
  | .bin l true r => !isOrPred l && canonPred l && canonPred r
  | .paren p => canonPred p
  | _ => true

def canonStage (re : ReEnv) (L : Lits) (s : Stage) : Bool :=
  wfStage re s &&
  (match s with
   | .labelFilter p => canonPred p && litsPred L p
   | _ => true)

/-- `| drop a` / `| keep a` directly followed by a `!=` / `!~` line filter would be read as a matcher -/
def endsWithBareLabel : Stage → Bool
  | .drop _ [] => true
  | .keep _ [] => true
  | _ => false

def startsWithNeq : Stage → Bool
  | .lineFilter .ne _ _ => true
  | .lineFilter .nre _ _ => true
  | _ => false

def adjacentOK : List Stage → Bool
  | a :: b :: rest => !(endsWithBareLabel a && startsWithNeq b) && adjacentOK (b :: rest)
  | _ => true

def canonStages (re : ReEnv) (L : Lits) (ss : List Stage) : Bool :=
  ss.all (canonStage re L) && adjacentOK ss

def isBin : Expr → Bool
  | .bin _ _ _ _ => true
  | _ => false

def isLog : Expr → Bool
  | .log _ _ => true
  | _ => false

/-- the writing of the expression starts with a number token -/
def startsWithNum : Expr → Bool
  | .lit v => !(v < 0)
  | .bin l _ _ _ => startsWithNum l
  | _ => false

def litOK (L : Lits) (v : Rat) : Bool :=
  if v < 0 then Num.parseFloat (L.num (-v)) == some (-v) else Num.parseFloat (L.num v) == some v

def durOK (L : Lits) (d : Int) : Bool := parseDurationText (L.dur d) == some d

def intOK (L : Lits) (k : Int) : Bool :=
  let t := L.int k
  t.all Bytes.isDigit && !t.isEmpty && ((Bytes.digitsVal t : Nat) : Int) == k

def canonModifier (m : Modifier) : Bool :=
  wfModifier m

/-- trees with a canonical writing: statically well-formed, literals written so that they parse back,
binary operations with atomic (non-binary) operands, no bare log query where a metric is expected,
no aggregation body that starts with a number (it would be read as the parameter) -/
def canonE (re : ReEnv) (isLogic : BinOp → Bool) (L : Lits) : Expr → Bool
  | .log sel ss => sel.all (matcherOK re) && canonStages re L ss
  | .range op p sel ss r o u g =>
    validRange op p g u && sel.all (matcherOK re) && canonStages re L ss && wfUnwrap re u &&
    (match p with | none => true | some v => Num.parseFloat (L.num v) == some v) &&
    durOK L r && (match o with | none => true | some d => durOK L d)
  | .vagg op p g e =>
    validVec op p g && canonE re isLogic L e && !isLog e && !startsWithNum e &&
    (match p with | none => true | some k => intOK L k)
  | .bin l op m r =>
    canonE re isLogic L l && canonE re isLogic L r && !isBin l && !isBin r && !isLog l && !isLog r &&
    canonModifier m && !(isLogic op && (isLit l || isLit r))
  | .lit v => litOK L v
  | .vector v => Num.parseFloat (L.num v) == some v
  | .paren e => canonE re isLogic L e
  | .labelReplace e _ _ _ rx => canonE re isLogic L e && !isLog e && re.ok rx

/-- what may follow a canonically written pipeline: the end of the query, the range bracket, a closing
parenthesis, or (inside a range aggregation) `| unwrap` -/
def stopOK (allowUnwrap : Bool) : Toks → Bool
  | [] => true
  | .kw .lbracket :: _ => true
  | .kw .rparen :: _ => true
  | .kw .pipe :: .kw .unwrap :: _ => allowUnwrap
  | _ => false

/-- interface between the stage-level and the expression-level round-trip proofs -/
def SelectorRT (re : ReEnv) : Prop :=
  ∀ (ms : List Matcher) (rest : Toks) (fuel : Nat), ms.all (matcherOK re) = true →
    selector re (fuel + 1) (selectorToks ms ++ rest) = some (ms, rest)

def PipelineRT (re : ReEnv) (L : Lits) : Prop :=
  ∀ (au : Bool) (ss : List Stage) (rest : Toks) (fuel : Nat), canonStages re L ss = true → stopOK au rest = true →
    fuel ≥ ss.length + 1 → pipeline re au fuel (stagesToks L ss ++ rest) = some (ss, rest)

def UnwrapRT (re : ReEnv) : Prop :=
  ∀ (u : Option Unwrap) (rest : Toks), wfUnwrap re u = true → (∀ r, rest ≠ .kw .pipe :: r) →
    unwrap? re (unwrapToks u ++ rest) = some (u, rest)

def RangeOffsetRT (L : Lits) : Prop :=
  ∀ (r : Int) (o : Option Int) (rest : Toks), durOK L r = true →
    (match o with | none => True | some d => durOK L d = true) → (∀ t, rest ≠ .kw .offset :: t) →
    rangeOffset (rangeOffsetToks L r o ++ rest) = some (r, o, rest)

def GroupingRT : Prop :=
  ∀ (g : Option Grouping) (rest : Toks), (∀ t, rest ≠ .kw .by_ :: t ∧ rest ≠ .kw .without :: t) →
    grouping? (groupingToks g ++ rest) = some (g, rest)

def ParenLabelsRT : Prop :=
  ∀ (ls : List Bytes) (rest : Toks), parenLabels (parenLabelsToks ls ++ rest) = some (ls, rest)

end Unparse
